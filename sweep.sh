#!/bin/bash
# usage: sweep.sh <tier> <seed> [<seed> ...]   — runs every registered check at the given seeds against
# /repo's working tree with a private VERIF_ROOT (committed evidence is not touched) and prints one line per
# run; anything other than "violations=0 ... inconclusive=0" is shown in full. Exit 1 if any run was not silent.
cd "$(dirname "$0")"
TIER="$1"; shift
ROOT=$(mktemp -d /tmp/sweep-root.XXXXXX); cp known_findings.json "$ROOT/"
bad=0
for s in "$@"; do
 for p in C01 C02 C03 C04 C05 C06 C07 C08 C09 C10 C11 C12 C13 C14 C15 C16 C17 C18 C19 C20; do
  out=$(VERIF_SEED=$s VERIF_ROOT="$ROOT" ./check $p "$TIER" 2>&1); rc=$?
  line=$(echo "$out" | grep -E "^SUMMARY" | tail -1)
  if [ $rc -ne 0 ] || ! echo "$line" | grep -q "violations=0 known=0 inconclusive=0"; then
    bad=1; echo "NOT-SILENT $p seed=$s rc=$rc"; echo "$out" | grep -E "VIOLATION|KNOWN|SUMMARY|HARNESS|INCONC|signature" | head -20
  else echo "ok $p seed=$s ${line#SUMMARY }"; fi
 done
done
[ $bad -eq 0 ] && rm -rf "$ROOT" || echo "replays kept in $ROOT"
exit $bad
