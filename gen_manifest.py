#!/usr/bin/env python3
# Regenerates MANIFEST.json from manifest_src.json (per-check texts) so that the
# quick/thorough/replay command lines stay uniform. Not used at check time.
import json,sys
src=json.load(open('manifest_src.json'))
props=[json.loads(l) for l in open('properties.jsonl')]
checks=[]
na=[]
for p in props:
    pid=p['id']
    c=src['checks'].get(pid)
    if c is None:
        na.append({"property_id":pid,"reason":src['not_applicable'].get(pid,"check not built yet (work in progress); no claim is made for this property")})
        continue
    checks.append({
        "property_id":pid,
        "quick_cmd":f"./check {pid} quick",
        "thorough_cmd":f"./check {pid} thorough",
        "evidence_file":f"/verif/evidence/{pid}.json",
        "replay_cmd_template":f"./check {pid} --replay {{path}}",
        "engine":"vharness",
        "level_claimed":{"category":c.get("category","exploration"),"text":c["text"],"design_ref":c.get("design_ref","DESIGN.md §5 "+pid)},
        "level_note":c["note"],
        "technique":c["technique"],
    })
m={
 "version":1,
 "setup_cmd":"./check setup",
 "hooks":src["hooks"],
 "engines":[{"name":"vharness","path":"/verif/harness","serves_properties":[c["property_id"] for c in checks],
   "kind_free_text":"Go module that links the working tree of /repo (module replace) with -tags verif; one binary per property under harness/props; runtime monitors (reference models in lock-step, recover/child-process crash monitors, CPU and allocation meters, history checkers, Go race detector for C11-C13)"}],
 "checks":checks,
 "notes":src.get("notes",""),
 "not_applicable":na,
}
json.dump(m,open('MANIFEST.json','w'),indent=1)
print("checks:",len(checks),"not_applicable:",len(na))
