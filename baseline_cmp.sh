#!/bin/bash
# usage: baseline_cmp.sh [-tags verif] <pkg patterns...>   (run in /repo or VERIF_REPO)
# runs go test -json on the given packages of the repo and reports every test of
# /root/.vp/BASELINE.json's stable_pass set (restricted to those packages) that did not pass.
export GOFLAGS=-mod=mod GOPROXY=off GOSUMDB=off GOTOOLCHAIN=local
REPO="${VERIF_REPO:-/repo}"
TAGS=()
if [ "$1" = "-tags" ]; then TAGS=(-tags "$2"); shift 2; fi
cd "$REPO" && go test "${TAGS[@]}" -json -vet=off -count=1 -timeout 25m "$@" 2>&1 | python3 -c "
import sys,json
r={}
pk=set()
for l in sys.stdin:
    try: e=json.loads(l)
    except: continue
    if e.get('Package'): pk.add(e['Package'])
    if e.get('Action') in('pass','fail') and e.get('Test'): r[e['Package']+'::'+e['Test']]=e['Action']
b=json.load(open('/root/.vp/BASELINE.json'))
want=[t for t in b['stable_pass'] if t.split('::')[0] in pk]
bad=[t for t in want if r.get(t)!='pass']
print('packages:',len(pk),'baseline tests in them:',len(want),'not passing:',len(bad))
for t in bad: print('  NOT PASSING:',t,r.get(t))
sys.exit(1 if bad else 0)
"
