#!/bin/bash
# usage: seeddemo.sh <ID> <mutation dir>: runs the mutation's demonstration with and without the patch
# in a fresh scratch worktree; prints DEMO-OK if it fails with the patch and passes without.
set -u
ID="$1"; MD="$(cd "$2" && pwd)"
export GOFLAGS=-mod=mod GOPROXY=off GOSUMDB=off GOTOOLCHAIN=local
WT="/tmp/sd-$ID-$$"
git -C /repo worktree add -q --detach "$WT" HEAD || exit 2
trap 'git -C /repo worktree remove --force "$WT" 2>/dev/null' EXIT
run_demo() { # prints exit code
  if [ -f "$MD/demo_test.go" ]; then
    pkg=$(grep -m1 '^package ' "$MD/demo_test.go" | awk '{print $2}')
    case "$pkg" in
      boc|boc_test) d=boc;; tlb|tlb_test) d=tlb;; wallet|wallet_test) d=wallet;; liteclient|liteclient_test) d=liteclient;;
      pool|pool_test) d=liteapi/pool;; parser|parser_test) if grep -q "tlb/parser/" "$MD/meta.json" 2>/dev/null || grep -q "^+++ b/tlb/parser/" "$MD/patch.diff"; then d=tlb/parser; else d=tl/parser; fi;; liteapi|liteapi_test) d=liteapi;; abi|abi_test) d=abi;; tongo|tongo_test) d=.;; tl|tl_test) d=tl;; ton|ton_test) d=ton;; tonconnect|tonconnect_test) d=tonconnect;;
      *) echo "unknown package $pkg" >&2; return 99;;
    esac
    cp "$MD/demo_test.go" "$WT/$d/zz_seed_demo_test.go"
    tests=$(grep -o '^func Test[A-Za-z0-9_]*' "$MD/demo_test.go" | sed 's/func //' | paste -sd'|')
    (cd "$WT" && go test -count=1 -timeout 300s -run "^($tests)\$" "./$d/" >/tmp/sd-out-$$.txt 2>&1); rc=$?
    rm -f "$WT/$d/zz_seed_demo_test.go"
    return $rc
  elif [ -d "$MD/demo" ]; then
    rm -rf /tmp/sd-demo-$$; cp -r "$MD/demo" /tmp/sd-demo-$$
    # point any replace directive at the scratch worktree
    find /tmp/sd-demo-$$ -name go.mod -exec sed -i -E "s#=> /tmp/seed[0-9]*-$ID(-out)?\b.*#=> $WT#" {} \;
    if [ -x /tmp/sd-demo-$$/run.sh ]; then (cd /tmp/sd-demo-$$ && TONGO="$WT" ./run.sh "$WT" >/tmp/sd-out-$$.txt 2>&1); rc=$?
    else (cd /tmp/sd-demo-$$ && cp "$WT/go.sum" . 2>/dev/null; go run . "$WT" >/tmp/sd-out-$$.txt 2>&1); rc=$?; fi
    rm -rf /tmp/sd-demo-$$
    return $rc
  fi
  return 98
}
run_demo; without=$?
git -C "$WT" apply "$MD/patch.diff" || { echo "DEMO $ID $(basename $MD): patch does not apply"; exit 2; }
run_demo; with=$?
echo "DEMO $ID $(basename $MD): without=$without with=$with $( [ $without -eq 0 ] && [ $with -ne 0 ] && [ $with -lt 98 ] && echo DEMO-OK || echo DEMO-PROBLEM )"
[ $without -ne 0 ] || [ $with -ge 98 ] && tail -5 /tmp/sd-out-$$.txt
rm -f /tmp/sd-out-$$.txt
