#!/bin/bash
# usage: flakehunt.sh <rounds> <tier> C11 C12 ...   — repeats the given checks at cycling seeds with a private root;
# prints only the runs that were not silent (violation, inconclusive or harness error) and keeps their replays.
cd "$(dirname "$0")"
ROUNDS=$1; TIER=$2; shift 2
ROOT=$(mktemp -d /tmp/flake-root.XXXXXX); cp known_findings.json "$ROOT/"
n=0; bad=0
for r in $(seq 1 $ROUNDS); do
 s=$(( (r * ${FLAKE_MULT:-7} + ${FLAKE_OFF:-0}) % 9973 + 1 ))
 for p in "$@"; do
  out=$(VERIF_SEED=$s VERIF_ROOT="$ROOT" ./check $p "$TIER" 2>&1); rc=$?
  n=$((n+1))
  line=$(echo "$out" | grep -E "^SUMMARY" | tail -1)
  if [ $rc -ne 0 ] || ! echo "$line" | grep -q "violations=0 known=0 inconclusive=0"; then
    bad=$((bad+1)); echo "NOT-SILENT $p seed=$s rc=$rc"; echo "$out" | grep -E "VIOLATION|KNOWN|SUMMARY|HARNESS|INCONC|signature" | head -12
  fi
 done
done
echo "runs=$n not_silent=$bad root=$ROOT"
