#!/bin/bash
# usage: import3.sh C07 [C06 ...]  — copies round-4 seeds into /verif/seeded/<ID>-r3m<k>, runs demo + check
cd /verif
for id in "$@"; do
 for m in m1 m2; do
  src=/tmp/seed4-$id-out/$m; dst=/verif/seeded/$id-r4$m
  [ -f $src/patch.diff ] || { echo "NO PATCH $id $m"; continue; }
  mkdir -p $dst
  cp $src/patch.diff $dst/
  [ -f $src/demo_test.go ] && cp $src/demo_test.go $dst/
  [ -d $src/demo ] && cp -r $src/demo $dst/
  [ -f $src/meta.json ] && cp $src/meta.json $dst/agent_meta.json
  d=$(./seeddemo.sh $id $dst 2>&1); echo "$d" > $dst/demo_output.txt; echo "$d" | grep -E "^DEMO"
  out=$(./seedcheck.sh $id $dst quick 2>&1)
  echo "$out" > $dst/check_output.txt
  echo "$out" | grep -E "^RESULT"
 done
done
