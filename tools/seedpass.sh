#!/bin/bash
# usage: seedpass.sh <outfile> C03 C04 ...   — seedcheck for every seed of the given properties
out=$1; shift
cd /verif
for id in "$@"; do
 for dst in /verif/seeded/$id-*; do
  [ -f $dst/patch.diff ] || continue
  o=$(./seedcheck.sh $id $dst quick 2>&1); echo "$o" > $dst/check_output.txt; echo "$(echo "$o" | grep -E '^RESULT')" >> $out
 done
done
echo FINISHED >> $out
