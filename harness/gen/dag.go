// Package gen holds the seeded generators shared by the property checks.
package gen

import (
	"verifharness/mon"
	"verifharness/ref/cell"
)

var edgeLens = []int{0, 1, 2, 7, 8, 9, 15, 16, 17, 255, 256, 257, 1015, 1016, 1017, 1022, 1023}

// BitLen draws a cell data length biased to the boundaries.
func BitLen(r *mon.Rng) int {
	switch r.Intn(4) {
	case 0:
		return mon.Pick(r, edgeLens)
	case 1:
		return r.Intn(65)
	default:
		return r.Intn(1024)
	}
}

type DagOpts struct {
	Nodes   int  // approximate number of nodes to create (before de-duplication)
	Exotic  bool // allow pruned / library / Merkle cells
	MaxRefs int  // 0 = 4
	SmallBits bool // keep cells small (for large DAGs)
}

// Leaf returns a random ordinary leaf.
func Leaf(r *mon.Rng, small bool) *cell.Cell {
	n := BitLen(r)
	if small {
		n = r.Intn(40)
	}
	return cell.New(r.Bits(n), false)
}

func randHash(r *mon.Rng) cell.Hash {
	var h cell.Hash
	copy(h[:], r.Bytes(32))
	return h
}

// RawPruned returns a pruned branch with the given mask and random stored hashes.
func RawPruned(r *mon.Rng, mask uint8) *cell.Cell {
	k := 0
	for m := mask; m != 0; m &= m - 1 {
		k++
	}
	hs := make([]cell.Hash, k)
	ds := make([]int, k)
	for i := range hs {
		hs[i] = randHash(r)
		ds[i] = r.Intn(1000)
	}
	return cell.NewPrunedRaw(mask, hs, ds)
}

// Clone makes a structurally equal copy with fresh pointers (depth levels of
// the structure are copied, below that pointers are shared).
func Clone(c *cell.Cell, levels int) *cell.Cell {
	n := cell.New(append([]bool(nil), c.Bits...), c.Exotic)
	for _, r := range c.Refs {
		if levels > 0 {
			n.Refs = append(n.Refs, Clone(r, levels-1))
		} else {
			n.Refs = append(n.Refs, r)
		}
	}
	return n
}

// RandomDag builds a DAG bottom-up: every new node references up to 4
// existing nodes, re-using them by pointer or by structural copy.
func RandomDag(r *mon.Rng, o DagOpts) *cell.Cell {
	if o.Nodes < 1 {
		o.Nodes = 1
	}
	maxRefs := o.MaxRefs
	if maxRefs == 0 {
		maxRefs = 4
	}
	var pool []*cell.Cell
	// the depth at every level counts: a pruned branch stores one depth per level, and the lower
	// levels of its ancestors inherit them (TON and tongo limit every one of them to 1024)
	depthOf := func(c *cell.Cell) int {
		d := 0
		for l := 0; l <= 3; l++ {
			if x := c.DepthAt(l); x > d {
				d = x
			}
		}
		return d
	}
	for i := 0; i < o.Nodes; i++ {
		var c *cell.Cell
		kind := r.Intn(20)
		switch {
		case len(pool) == 0 || kind < 3:
			if o.Exotic && r.Chance(1, 3) {
				if r.Bool() {
					c = RawPruned(r, uint8(r.Range(1, 7)))
				} else {
					c = cell.NewLibrary(randHash(r))
				}
			} else {
				c = Leaf(r, o.SmallBits)
			}
		case o.Exotic && kind == 3:
			ch := mon.Pick(r, pool)
			c = cell.NewMerkleProof(ch)
		case o.Exotic && kind == 4:
			c = cell.NewMerkleUpdate(mon.Pick(r, pool), mon.Pick(r, pool))
		case o.Exotic && kind == 5:
			orig := mon.Pick(r, pool)
			if orig.Level() < 3 {
				c = cell.NewPruned(orig, r.Range(orig.Level()+1, 3))
			} else {
				c = Leaf(r, o.SmallBits)
			}
		default:
			n := BitLen(r)
			if o.SmallBits {
				n = r.Intn(40)
			}
			c = cell.New(r.Bits(n), false)
			nr := r.Range(1, maxRefs)
			for k := 0; k < nr; k++ {
				var ch *cell.Cell
				if r.Chance(2, 3) {
					// prefer recent nodes so that the DAG gets deep
					lo := len(pool) - 6
					if lo < 0 {
						lo = 0
					}
					ch = pool[r.Range(lo, len(pool)-1)]
				} else {
					ch = mon.Pick(r, pool)
				}
				if r.Chance(1, 5) {
					ch = Clone(ch, r.Intn(3))
				}
				c.Refs = append(c.Refs, ch)
			}
		}
		if depthOf(c) > 1000 {
			c = Leaf(r, o.SmallBits)
		}
		pool = append(pool, c)
	}
	// root: a node referencing the last few so that most of the pool is reachable
	root := cell.New(r.Bits(BitLen(r)), false)
	if o.SmallBits {
		root = cell.New(r.Bits(r.Intn(40)), false)
	}
	k := r.Range(1, 4)
	for i := 0; i < k && i < len(pool); i++ {
		root.Refs = append(root.Refs, pool[len(pool)-1-i])
	}
	if r.Chance(1, 6) {
		return pool[len(pool)-1]
	}
	return root
}

// Chain builds a chain of the given depth (depth = number of edges).
func Chain(r *mon.Rng, depth int) *cell.Cell {
	c := cell.New(r.Bits(r.Intn(20)), false)
	for i := 0; i < depth; i++ {
		c = cell.New(r.Bits(r.Intn(20)), false, c)
	}
	return c
}

// Wide builds a full tree with the given fan-out holding about n cells,
// every cell distinct.
func Wide(r *mon.Rng, n int, fan int) *cell.Cell {
	level := []*cell.Cell{}
	id := uint64(0)
	mk := func(refs ...*cell.Cell) *cell.Cell {
		id++
		b := make([]bool, 32)
		for i := 0; i < 32; i++ {
			b[i] = id>>(31-uint(i))&1 == 1
		}
		return cell.New(b, false, refs...)
	}
	leaves := n * (fan - 1) / fan
	if leaves < 1 {
		leaves = 1
	}
	for i := 0; i < leaves; i++ {
		level = append(level, mk())
	}
	for len(level) > 1 {
		var next []*cell.Cell
		for i := 0; i < len(level); i += fan {
			j := i + fan
			if j > len(level) {
				j = len(level)
			}
			next = append(next, mk(level[i:j]...))
		}
		level = next
	}
	return level[0]
}

// DiamondLadder: each rung references the previous rung twice (or `fan`
// times): linear cell count, exponential unfolding.
func DiamondLadder(r *mon.Rng, rungs, fan int) *cell.Cell {
	c := cell.New(r.Bits(8), false)
	for i := 0; i < rungs; i++ {
		refs := make([]*cell.Cell, fan)
		for k := range refs {
			refs[k] = c
		}
		c = cell.New(r.Bits(r.Intn(16)), false, refs...)
	}
	return c
}

// CloneFresh returns a structurally equal DAG made of new pointers only.
// Shared nodes of the original are sometimes duplicated (another fresh copy
// instead of re-using the first one) as long as the budget of extra nodes
// lasts, so that "equal structure, different pointer sharing" is exercised
// without unfolding the DAG exponentially.
func CloneFresh(c *cell.Cell, r *mon.Rng, budget int) *cell.Cell {
	memo := map[*cell.Cell]*cell.Cell{}
	var cp func(c *cell.Cell, forceNew bool) *cell.Cell
	cp = func(c *cell.Cell, forceNew bool) *cell.Cell {
		if x, ok := memo[c]; ok {
			if budget <= 0 || !r.Chance(1, 3) {
				return x
			}
			// make another copy of this node only (its children stay shared)
			budget--
			n := cell.New(append([]bool(nil), c.Bits...), c.Exotic)
			n.Refs = append(n.Refs, x.Refs...)
			return n
		}
		n := cell.New(append([]bool(nil), c.Bits...), c.Exotic)
		memo[c] = n
		for _, ch := range c.Refs {
			n.Refs = append(n.Refs, cp(ch, false))
		}
		return n
	}
	return cp(c, false)
}

// ExactCells builds a 4-ary heap-shaped tree with exactly n distinct cells.
func ExactCells(n int) *cell.Cell {
	nodes := make([]*cell.Cell, n)
	for i := n - 1; i >= 0; i-- {
		b := make([]bool, 32)
		for k := 0; k < 32; k++ {
			b[k] = uint32(i+1)>>(31-uint(k))&1 == 1
		}
		c := cell.New(b, false)
		for k := 1; k <= 4; k++ {
			if j := 4*i + k; j < n {
				c.Refs = append(c.Refs, nodes[j])
			}
		}
		nodes[i] = c
	}
	return nodes[0]
}

// ExactBytes builds a chain whose serialised cell data (descriptors, padded
// data, reference indexes of refSize bytes) is exactly total bytes long.
// Returns nil if the target cannot be met with this simple shape.
func ExactBytes(total, refSize int) *cell.Cell {
	const per = 100 // data bytes of a full link
	link := 2 + per + refSize
	if total < 3 {
		return nil
	}
	m := total / link // number of full links (each with one ref)
	rest := total - m*link
	// the last cell has no ref: 2 + d bytes, d in 0..127
	for m >= 0 {
		d := rest - 2
		if d >= 0 && d <= 127 {
			break
		}
		m--
		rest += link
	}
	if m < 0 {
		return nil
	}
	mk := func(id, nbytes int) []bool {
		b := make([]bool, 8*nbytes)
		for k := 0; k < len(b) && k < 32; k++ {
			b[k] = uint32(id+1)>>(31-uint(k))&1 == 1
		}
		return b
	}
	c := cell.New(mk(0, rest-2), false)
	for i := 1; i <= m; i++ {
		c = cell.New(mk(i, per), false, c)
	}
	return c
}
