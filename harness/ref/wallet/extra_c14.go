package wallet

// Additive helpers for C14 (extra currencies of an internal message and the
// address of a contract deployed by a message). Written from block.tlb:
//
//	extra_currencies$_ dict:(HashmapE 32 (VarUInteger 32)) = ExtraCurrencyCollection;
//	var_uint$_ {n:#} len:(#< n) value:(uint (len * 8)) = VarUInteger n;
//
// Nothing here is shared with tongo.

import (
	"fmt"
	"math/big"

	rbits "verifharness/ref/bits"
	"verifharness/ref/cell"
)

// ExtraItem is one entry of an ExtraCurrencyCollection.
type ExtraItem struct {
	ID     uint32
	Amount *big.Int
}

// ExtraCurrencies decodes the dictionary root of an ExtraCurrencyCollection
// (IntMsg.Extra). Entries come back in key order; keys that are not strictly
// increasing in a left-to-right walk, or stray data in a value, are errors.
func ExtraCurrencies(root *cell.Cell) ([]ExtraItem, error) {
	if root == nil {
		return nil, nil
	}
	var out []ExtraItem
	prev := int64(-1)
	err := walkDict(root, 32, nil, func(key []bool, val *rd) error {
		k := int64(rbits.ToUint(key))
		if k <= prev {
			return fmt.Errorf("dictionary keys out of order")
		}
		prev = k
		l, err := val.u(5) // #< 32
		if err != nil {
			return err
		}
		b, err := val.take(int(l) * 8)
		if err != nil {
			return err
		}
		if val.left() != 0 || val.refsLeft() != 0 {
			return fmt.Errorf("stray data after an extra-currency amount")
		}
		out = append(out, ExtraItem{ID: uint32(k), Amount: new(big.Int).SetBytes(rbits.ToBytes(b))})
		return nil
	})
	return out, err
}

// DeployAddress is the address part of a contract created from (code, data):
// the representation hash of StateInit{code, data} with nothing else set.
func DeployAddress(code, data *cell.Cell) cell.Hash {
	return StateInit(code, data).Hash()
}
