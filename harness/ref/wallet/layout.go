// Package wallet is the reference model of the standard TON wallet
// contracts as seen from off-chain: the initial data cell of every wallet
// version, the StateInit that deploys it, the address that follows from it,
// where each version expects the signature inside an external message body
// and what the signed part means, and the TON Connect "ton_proof" message.
//
// It is written from the published contract sources (ton-blockchain/ton
// crypto/smartcont/wallet*.fc, highload-wallet-v2-code.fc, wallet-contract
// v4 and v5 repositories and their Specification.md), block.tlb and the
// ton-connect requests-responses specification. It imports nothing from
// tongo: cells are harness/ref/cell, bags of cells are harness/ref/boc.
package wallet

import (
	"encoding/base64"
	"encoding/hex"
	"fmt"
	"sync"

	rbits "verifharness/ref/bits"
	rboc "verifharness/ref/boc"
	"verifharness/ref/cell"
)

type Version int

const (
	V1R1 Version = iota
	V1R2
	V1R3
	V2R1
	V2R2
	V3R1
	V3R2
	V3R2Lockup
	V4R1
	V4R2
	V5Beta
	V5R1
	HighloadV1R1
	HighloadV1R2
	HighloadV2
	HighloadV2R1
	HighloadV2R2
)

var names = map[Version]string{
	V1R1: "V1R1", V1R2: "V1R2", V1R3: "V1R3", V2R1: "V2R1", V2R2: "V2R2", V3R1: "V3R1", V3R2: "V3R2",
	V3R2Lockup: "V3R2Lockup", V4R1: "V4R1", V4R2: "V4R2", V5Beta: "V5Beta", V5R1: "V5R1",
	HighloadV1R1: "HighloadV1R1", HighloadV1R2: "HighloadV1R2", HighloadV2: "HighloadV2",
	HighloadV2R1: "HighloadV2R1", HighloadV2R2: "HighloadV2R2",
}

func (v Version) String() string {
	if s, ok := names[v]; ok {
		return s
	}
	return fmt.Sprintf("Version(%d)", int(v))
}

const (
	// DefaultSubWalletBase + workchain is the conventional sub-wallet id of
	// v3/v4/highload wallets ("698983191 + workchain" in every SDK).
	DefaultSubWalletBase = 698983191
	MainnetGlobalID      = -239
	TestnetGlobalID      = -3
)

// wellKnownCodeHash pins the representation hash of the published code
// cells (values as listed by the public explorers / ton-community
// documentation). Only versions whose hash I could state independently are
// listed; the others are still parsed by the reference reader.
var wellKnownCodeHash = map[Version]string{
	V1R1:         "a0cfc2c48aee16a271f2cfc0b7382d81756cecb1017d077faaab3bb602f6868c",
	V1R2:         "d4902fcc9fad74698fa8e353220a68da0dcf72e32bcb2eb9ee04217c17d3062c",
	V1R3:         "587cc789eff1c84f46ec3797e45fc809a14ff5ae24f1e0c7a6a99cc9dc9061ff",
	V2R1:         "5c9a5e68c108e18721a07c42f9956bfb39ad77ec6d624b60c576ec88eee65329",
	V2R2:         "fe9530d3243853083ef2ef0b4c2908c0abf6fa1c31ea243aacaa5bf8c7d753f1",
	V3R1:         "b61041a58a7980b946e8fb9e198e3c904d24799ffa36574ea4251c41a566f581",
	V3R2:         "84dafa449f98a6987789ba232358072bc0f76dc4524002a5d0918b9a75d2d599",
	V4R1:         "64dd54805522c5be8a9db59cea0105ccf0d08786ca79beb8cb79e880a8d7322d",
	V4R2:         "feb5ff6820e2ff0d9483e7e0d62c817d846789fb4ae580c878866d959dabd5c0",
	V5R1:         "20834b7b72b112147e1b2fb457b84e74d1a30f04f737d4f62a668e9552d2b72f",
	HighloadV1R1: "d8cdbbb79f2c5caa677ac450770be0351be21e1250486de85cc52aa33dd16484",
	HighloadV2:   "9494d1cc8edf12f05671a1a9ba09921096eb50811e1924ec65c3c629fbb80812",
	HighloadV2R1: "8ceb45b3cd4b5cc60eaae1c13b9c092392677fe536b2e9b2d801b62eff931fe1",
}

var (
	codeOnce  sync.Once
	codeCells map[Version]*cell.Cell
	codeErr   error
)

func loadCodes() {
	codeCells = map[Version]*cell.Cell{}
	for v, s := range publishedCode {
		b, err := base64.StdEncoding.DecodeString(s)
		if err != nil {
			codeErr = fmt.Errorf("code %v: %v", v, err)
			return
		}
		roots, _, _, err := rboc.Read(b)
		if err != nil || len(roots) != 1 {
			codeErr = fmt.Errorf("code %v: reference reader: %v (%d roots)", v, err, len(roots))
			return
		}
		if roots[0].Err() != nil {
			codeErr = fmt.Errorf("code %v: %v", v, roots[0].Err())
			return
		}
		codeCells[v] = roots[0]
	}
}

// Code returns the published code cell of a version (nil if unknown).
func Code(v Version) *cell.Cell {
	codeOnce.Do(loadCodes)
	return codeCells[v]
}

// Versions lists every version with published code, in numeric order.
func Versions() []Version {
	var out []Version
	for v := V1R1; v <= HighloadV2R2; v++ {
		if _, ok := publishedCode[v]; ok {
			out = append(out, v)
		}
	}
	return out
}

// ---- bit-list helpers ----

type bl []bool

func (b *bl) u(v uint64, n int) { *b = append(*b, rbits.UintBits(v, n)...) }
func (b *bl) i(v int64, n int)  { *b = append(*b, rbits.IntBits(v, n)...) }
func (b *bl) bytes(x []byte)    { *b = append(*b, rbits.BytesBits(x)...) }
func (b *bl) bit(x bool)        { *b = append(*b, x) }
func (b *bl) bits(x []bool)     { *b = append(*b, x...) }
func newCell(b bl, refs ...*cell.Cell) *cell.Cell {
	return cell.New([]bool(b), false, refs...)
}

// Params identifies one wallet: everything its address depends on.
type Params struct {
	Ver       Version
	PubKey    [32]byte
	Workchain int32
	SubWallet *uint32 // nil = the version's default
	NetworkID *int32  // nil = mainnet (-239); only v5
}

// HasSubWallet tells whether the version's data holds a sub-wallet number.
func HasSubWallet(v Version) bool {
	switch v {
	case V1R1, V1R2, V1R3, V2R1, V2R2:
		return false
	}
	return true
}

// HasNetworkID tells whether the version's data depends on the network id.
func HasNetworkID(v Version) bool { return v == V5Beta || v == V5R1 }

// SubWalletOf resolves the sub-wallet number used in the data cell.
func (p Params) SubWalletOf() uint32 {
	if p.SubWallet != nil {
		return *p.SubWallet
	}
	switch p.Ver {
	case V5Beta, V5R1:
		return 0
	}
	return uint32(int64(DefaultSubWalletBase) + int64(p.Workchain))
}

func (p Params) NetworkOf() int32 {
	if p.NetworkID != nil {
		return *p.NetworkID
	}
	return MainnetGlobalID
}

// V5R1WalletID is the v5r1 wallet id for the "client context":
//
//	wallet_id = context XOR network_global_id            (as 32-bit values)
//	context   = 1:(## 1) workchain:int8 wallet_version:(## 8) = 0 subwallet_number:(## 15)
//
// (wallet-contract-v5 Specification.md, "Wallet ID"). Computed arithmetically.
func V5R1WalletID(workchain int32, subwallet uint32, network int32) uint32 {
	ctx := uint32(1)<<31 | uint32(uint8(int8(workchain)))<<23 | uint32(0)<<15 | (subwallet & 0x7fff)
	return ctx ^ uint32(network)
}

// DataBits is the persistent data of the wallet with the given seqno
// (seqno 0 = the initial data the address is derived from).
//
//	v1, v2   : seqno:uint32 public_key:bits256
//	v3       : seqno:uint32 subwallet_id:uint32 public_key:bits256
//	v4       : seqno:uint32 subwallet_id:uint32 public_key:bits256 plugins:(HashmapE 264 ...)
//	v5 beta  : seqno:(## 33) wallet_id:(global_id:int32 wc:int8 version:(## 8) subwallet:uint32)
//	           public_key:bits256 extensions:(HashmapE 256 int8)
//	v5r1     : is_signature_allowed:Bool seqno:uint32 wallet_id:uint32 public_key:bits256
//	           extensions:(HashmapE 256 int1)
//	highload v2: subwallet_id:uint32 last_cleaned:uint64 public_key:bits256 old_queries:(HashmapE 64 ...)
func DataBits(p Params, seqno uint32) ([]bool, error) {
	var b bl
	switch p.Ver {
	case V1R1, V1R2, V1R3, V2R1, V2R2:
		b.u(uint64(seqno), 32)
		b.bytes(p.PubKey[:])
	case V3R1, V3R2:
		b.u(uint64(seqno), 32)
		b.u(uint64(p.SubWalletOf()), 32)
		b.bytes(p.PubKey[:])
	case V4R1, V4R2:
		b.u(uint64(seqno), 32)
		b.u(uint64(p.SubWalletOf()), 32)
		b.bytes(p.PubKey[:])
		b.bit(false)
	case V5Beta:
		b.u(uint64(seqno), 33)
		b.i(int64(p.NetworkOf()), 32)
		b.i(int64(int8(p.Workchain)), 8)
		b.u(0, 8)
		b.u(uint64(p.SubWalletOf()), 32)
		b.bytes(p.PubKey[:])
		b.bit(false)
	case V5R1:
		if p.SubWalletOf() > 0x7fff {
			return nil, fmt.Errorf("v5r1 subwallet number has 15 bits")
		}
		b.bit(true)
		b.u(uint64(seqno), 32)
		b.u(uint64(V5R1WalletID(p.Workchain, p.SubWalletOf(), p.NetworkOf())), 32)
		b.bytes(p.PubKey[:])
		b.bit(false)
	case HighloadV2, HighloadV2R1, HighloadV2R2:
		b.u(uint64(p.SubWalletOf()), 32)
		b.u(0, 64)
		b.bytes(p.PubKey[:])
		b.bit(false)
	default:
		return nil, fmt.Errorf("no data layout for %v", p.Ver)
	}
	return b, nil
}

// HasSeqno tells whether the data layout stores a seqno.
func HasSeqno(v Version) bool {
	switch v {
	case HighloadV2, HighloadV2R1, HighloadV2R2, HighloadV1R1, HighloadV1R2, V3R2Lockup:
		return false
	}
	return true
}

func DataCell(p Params, seqno uint32) (*cell.Cell, error) {
	b, err := DataBits(p, seqno)
	if err != nil {
		return nil, err
	}
	return cell.New(b, false), nil
}

// StateInit encodes
//
//	_ split_depth:(Maybe (## 5)) special:(Maybe TickTock) code:(Maybe ^Cell)
//	  data:(Maybe ^Cell) library:(HashmapE 256 SimpleLib) = StateInit;
//
// with no split depth, no special, empty library; code / data may be nil.
func StateInit(code, data *cell.Cell) *cell.Cell {
	var b bl
	var refs []*cell.Cell
	b.bit(false)
	b.bit(false)
	b.bit(code != nil)
	if code != nil {
		refs = append(refs, code)
	}
	b.bit(data != nil)
	if data != nil {
		refs = append(refs, data)
	}
	b.bit(false)
	return newCell(b, refs...)
}

// InitialState is the StateInit a fresh wallet is deployed with.
func InitialState(p Params) (*cell.Cell, error) {
	code := Code(p.Ver)
	if code == nil {
		return nil, fmt.Errorf("no published code for %v", p.Ver)
	}
	data, err := DataCell(p, 0)
	if err != nil {
		return nil, err
	}
	return StateInit(code, data), nil
}

// Address = representation hash of the initial StateInit (block.tlb:
// "addr_std ... address:bits256" of a contract is the hash of its StateInit).
func Address(p Params) (cell.Hash, error) {
	si, err := InitialState(p)
	if err != nil {
		return cell.Hash{}, err
	}
	if si.Err() != nil {
		return cell.Hash{}, si.Err()
	}
	return si.Hash(), nil
}

func mustHex(s string) []byte {
	b, err := hex.DecodeString(s)
	if err != nil {
		panic(err)
	}
	return b
}
