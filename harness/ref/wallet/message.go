package wallet

import (
	"crypto/ed25519"
	"errors"
	"fmt"
	"math/big"

	rbits "verifharness/ref/bits"
	"verifharness/ref/cell"
)

// rd is a read cursor over the bits and references of one cell.
type rd struct {
	bits []bool
	pos  int
	refs []*cell.Cell
	rpos int
}

var errShort = errors.New("reference decoder: cell underflow")

func open(c *cell.Cell) *rd { return &rd{bits: c.Bits, refs: c.Refs} }

func (r *rd) left() int     { return len(r.bits) - r.pos }
func (r *rd) refsLeft() int { return len(r.refs) - r.rpos }
func (r *rd) take(n int) ([]bool, error) {
	if n < 0 || r.left() < n {
		return nil, errShort
	}
	out := r.bits[r.pos : r.pos+n]
	r.pos += n
	return out, nil
}
func (r *rd) u(n int) (uint64, error) {
	b, err := r.take(n)
	if err != nil {
		return 0, err
	}
	return rbits.ToUint(b), nil
}
func (r *rd) bit() (bool, error) {
	b, err := r.take(1)
	if err != nil {
		return false, err
	}
	return b[0], nil
}
func (r *rd) bytes(n int) ([]byte, error) {
	b, err := r.take(8 * n)
	if err != nil {
		return nil, err
	}
	return rbits.ToBytes(b), nil
}
func (r *rd) ref() (*cell.Cell, error) {
	if r.refsLeft() < 1 {
		return nil, errShort
	}
	c := r.refs[r.rpos]
	r.rpos++
	return c, nil
}

// rest packs what is left (bits and references) into a cell of its own —
// what TVM sees as the remaining slice.
func (r *rd) rest() *cell.Cell {
	return cell.New(append([]bool(nil), r.bits[r.pos:]...), false, r.refs[r.rpos:]...)
}

// grams reads "nanograms$_ amount:(VarUInteger 16)": 4-bit byte length, then the bytes.
func (r *rd) grams() (*big.Int, error) {
	l, err := r.u(4)
	if err != nil {
		return nil, err
	}
	b, err := r.take(int(l) * 8)
	if err != nil {
		return nil, err
	}
	return rbits.ToBigUint(b), nil
}

// StateInitParts is a decoded StateInit.
type StateInitParts struct {
	SplitDepth *uint8
	Special    *uint8
	Code, Data *cell.Cell
	Library    *cell.Cell
}

func (r *rd) stateInit() (*StateInitParts, error) {
	var s StateInitParts
	b, err := r.bit()
	if err != nil {
		return nil, err
	}
	if b {
		v, err := r.u(5)
		if err != nil {
			return nil, err
		}
		x := uint8(v)
		s.SplitDepth = &x
	}
	if b, err = r.bit(); err != nil {
		return nil, err
	}
	if b {
		v, err := r.u(2)
		if err != nil {
			return nil, err
		}
		x := uint8(v)
		s.Special = &x
	}
	for _, dst := range []**cell.Cell{&s.Code, &s.Data, &s.Library} {
		if b, err = r.bit(); err != nil {
			return nil, err
		}
		if b {
			if *dst, err = r.ref(); err != nil {
				return nil, err
			}
		}
	}
	return &s, nil
}

// ParseStateInit decodes a StateInit that occupies a whole cell.
func ParseStateInit(c *cell.Cell) (*StateInitParts, error) {
	r := open(c)
	s, err := r.stateInit()
	if err != nil {
		return nil, err
	}
	if r.left() != 0 || r.refsLeft() != 0 {
		return nil, fmt.Errorf("trailing data after StateInit")
	}
	return s, nil
}

// Cell re-encodes the decoded StateInit (canonical, as its own cell).
func (s *StateInitParts) Cell() *cell.Cell {
	var b bl
	var refs []*cell.Cell
	b.bit(s.SplitDepth != nil)
	if s.SplitDepth != nil {
		b.u(uint64(*s.SplitDepth), 5)
	}
	b.bit(s.Special != nil)
	if s.Special != nil {
		b.u(uint64(*s.Special), 2)
	}
	for _, c := range []*cell.Cell{s.Code, s.Data, s.Library} {
		b.bit(c != nil)
		if c != nil {
			refs = append(refs, c)
		}
	}
	return newCell(b, refs...)
}

// msgTail reads "init:(Maybe (Either StateInit ^StateInit)) body:(Either X ^X)".
func (r *rd) msgTail() (init *StateInitParts, initInRef bool, body *cell.Cell, bodyInRef bool, err error) {
	has, err := r.bit()
	if err != nil {
		return
	}
	if has {
		var inRef bool
		if inRef, err = r.bit(); err != nil {
			return
		}
		if inRef {
			var c *cell.Cell
			if c, err = r.ref(); err != nil {
				return
			}
			if init, err = ParseStateInit(c); err != nil {
				return
			}
			initInRef = true
		} else if init, err = r.stateInit(); err != nil {
			return
		}
	}
	if bodyInRef, err = r.bit(); err != nil {
		return
	}
	if bodyInRef {
		if body, err = r.ref(); err != nil {
			return
		}
		if r.left() != 0 || r.refsLeft() != 0 {
			err = fmt.Errorf("data after the body reference")
		}
		return
	}
	body = r.rest()
	return
}

// ExtIn is a decoded external inbound message
//
//	ext_in_msg_info$10 src:MsgAddressExt dest:MsgAddressInt import_fee:Grams
//	init:(Maybe (Either StateInit ^StateInit)) body:(Either X ^X)
type ExtIn struct {
	DestWC    int8
	Dest      [32]byte
	ImportFee *big.Int
	Init      *StateInitParts
	InitInRef bool
	Body      *cell.Cell // the body as a cell of its own
	BodyInRef bool
}

func (r *rd) addrStd() (wc int8, a [32]byte, err error) {
	tag, err := r.u(2)
	if err != nil {
		return
	}
	if tag != 2 {
		err = fmt.Errorf("address tag %d, want addr_std$10", tag)
		return
	}
	any, err := r.bit()
	if err != nil {
		return
	}
	if any {
		err = fmt.Errorf("anycast address")
		return
	}
	w, err := r.u(8)
	if err != nil {
		return
	}
	b, err := r.bytes(32)
	if err != nil {
		return
	}
	copy(a[:], b)
	return int8(uint8(w)), a, nil
}

func ParseExtIn(root *cell.Cell) (*ExtIn, error) {
	if root.Exotic {
		return nil, fmt.Errorf("exotic root")
	}
	r := open(root)
	tag, err := r.u(2)
	if err != nil {
		return nil, err
	}
	if tag != 2 {
		return nil, fmt.Errorf("message tag %02b, want ext_in_msg_info$10", tag)
	}
	src, err := r.u(2)
	if err != nil {
		return nil, err
	}
	if src != 0 {
		return nil, fmt.Errorf("source is not addr_none")
	}
	var m ExtIn
	if m.DestWC, m.Dest, err = r.addrStd(); err != nil {
		return nil, err
	}
	if m.ImportFee, err = r.grams(); err != nil {
		return nil, err
	}
	if m.Init, m.InitInRef, m.Body, m.BodyInRef, err = r.msgTail(); err != nil {
		return nil, err
	}
	return &m, nil
}

// IntMsg is a decoded internal message as a wallet is asked to send it
//
//	int_msg_info$0 ihr_disabled:Bool bounce:Bool bounced:Bool src:MsgAddress dest:MsgAddressInt
//	value:CurrencyCollection ihr_fee:Grams fwd_fee:Grams created_lt:uint64 created_at:uint32
type IntMsg struct {
	IhrDisabled, Bounce, Bounced bool
	SrcNone                      bool
	SrcWC                        int8
	Src                          [32]byte
	DestWC                       int8
	Dest                         [32]byte
	Amount                       *big.Int
	Extra                        *cell.Cell
	IhrFee, FwdFee               *big.Int
	CreatedLt                    uint64
	CreatedAt                    uint32
	Init                         *StateInitParts
	Body                         *cell.Cell
	BodyInRef                    bool
}

func ParseInt(root *cell.Cell) (*IntMsg, error) {
	r := open(root)
	tag, err := r.bit()
	if err != nil {
		return nil, err
	}
	if tag {
		return nil, fmt.Errorf("not int_msg_info$0")
	}
	var m IntMsg
	if m.IhrDisabled, err = r.bit(); err != nil {
		return nil, err
	}
	if m.Bounce, err = r.bit(); err != nil {
		return nil, err
	}
	if m.Bounced, err = r.bit(); err != nil {
		return nil, err
	}
	if r.left() < 2 {
		return nil, errShort
	}
	if !r.bits[r.pos] && !r.bits[r.pos+1] { // addr_none$00 (the sender is filled in by the chain)
		r.pos += 2
		m.SrcNone = true
	} else if m.SrcWC, m.Src, err = r.addrStd(); err != nil {
		return nil, err
	}
	if m.DestWC, m.Dest, err = r.addrStd(); err != nil {
		return nil, err
	}
	if m.Amount, err = r.grams(); err != nil {
		return nil, err
	}
	extra, err := r.bit()
	if err != nil {
		return nil, err
	}
	if extra {
		if m.Extra, err = r.ref(); err != nil {
			return nil, err
		}
	}
	if m.IhrFee, err = r.grams(); err != nil {
		return nil, err
	}
	if m.FwdFee, err = r.grams(); err != nil {
		return nil, err
	}
	if m.CreatedLt, err = r.u(64); err != nil {
		return nil, err
	}
	at, err := r.u(32)
	if err != nil {
		return nil, err
	}
	m.CreatedAt = uint32(at)
	if m.Init, _, m.Body, m.BodyInRef, err = r.msgTail(); err != nil {
		return nil, err
	}
	return &m, nil
}

// Snake reads a snake-format byte string: the bits of the cell from
// skipBits on, continued in the first reference of each cell.
func Snake(c *cell.Cell, skipBits int) ([]byte, error) {
	var all []bool
	for depth := 0; c != nil; depth++ {
		if depth > 4096 {
			return nil, fmt.Errorf("snake too long")
		}
		b := c.Bits
		if depth == 0 {
			if len(b) < skipBits {
				return nil, errShort
			}
			b = b[skipBits:]
		}
		all = append(all, b...)
		if len(c.Refs) > 1 {
			return nil, fmt.Errorf("snake cell with %d references", len(c.Refs))
		}
		if len(c.Refs) == 1 {
			c = c.Refs[0]
		} else {
			c = nil
		}
	}
	if len(all)%8 != 0 {
		return nil, fmt.Errorf("snake data is not a whole number of bytes")
	}
	return rbits.ToBytes(all), nil
}

// ---- signature placement ----

// SigFirst: v1..v4 and the highload wallets start the body with the
// 512-bit signature and sign the representation hash of the rest of the
// slice ("var signature = in_msg~load_bits(512); ... check_signature(slice_hash(in_msg), ...)").
// v5 (beta and r1) end the body with the signature and sign the hash of the
// cell made of the preceding bits and all references
// ("signed_slice~get_last_bits(512) ... check_signature(signed_slice.slice_hash() ...)").
func SigFirst(v Version) bool { return v != V5Beta && v != V5R1 }

// SplitSigned separates a body into signature and the signed cell.
func SplitSigned(v Version, body *cell.Cell) (sig []byte, signed *cell.Cell, err error) {
	if body.Exotic || len(body.Bits) < 512 {
		return nil, nil, fmt.Errorf("body too short for a signature")
	}
	n := len(body.Bits)
	if SigFirst(v) {
		sig = rbits.ToBytes(body.Bits[:512])
		signed = cell.New(append([]bool(nil), body.Bits[512:]...), false, body.Refs...)
	} else {
		sig = rbits.ToBytes(body.Bits[n-512:])
		signed = cell.New(append([]bool(nil), body.Bits[:n-512]...), false, body.Refs...)
	}
	return sig, signed, nil
}

// Verify tells whether body carries a valid signature of pub.
func Verify(v Version, body *cell.Cell, pub []byte) bool {
	if len(pub) != ed25519.PublicKeySize {
		return false
	}
	sig, signed, err := SplitSigned(v, body)
	if err != nil || signed.Err() != nil {
		return false
	}
	h := signed.Hash()
	return ed25519.Verify(ed25519.PublicKey(pub), h[:], sig)
}

// Sign is the independent signer: it puts the signature of the unsigned
// cell where the version expects it.
func Sign(v Version, unsigned *cell.Cell, priv ed25519.PrivateKey) *cell.Cell {
	h := unsigned.Hash()
	sig := rbits.BytesBits(ed25519.Sign(priv, h[:]))
	var b []bool
	if SigFirst(v) {
		b = append(append(b, sig...), unsigned.Bits...)
	} else {
		b = append(append(b, unsigned.Bits...), sig...)
	}
	return cell.New(b, false, unsigned.Refs...)
}

// ---- what a body asks the wallet to do ----

type Out struct {
	Mode uint8
	Msg  *cell.Cell
}

// Request is the decoded content of a signed body.
type Request struct {
	Magic      uint32 // v5: 0x7369676e "sign" (external) / 0x73696e74 "sint" (internal)
	SubWallet  uint32 // v3, v4, highload; v5 beta: the subwallet field of the 80-bit id
	WalletID   uint32 // v5r1
	BetaNet    int32  // v5 beta wallet id fields
	BetaWC     int8
	BetaVer    uint8
	ValidUntil uint32
	Seqno      uint32
	Op         uint8  // v4: 0 = simple send; v5 beta: the 1-bit op
	QueryID    uint64 // highload v2
	// Msgs in the order the body lists them: v3/v4 in body order (= send
	// order), highload in dictionary key order (= send order), v5 from the
	// outermost OutList cell inwards (TVM performs the innermost first).
	Msgs        []Out
	HasExtended bool // v5r1 has_other_actions
}

const (
	MagicSignedExternal = 0x7369676e
	MagicSignedInternal = 0x73696e74
	actionSendMsg       = 0x0ec3c86d
)

// outList reads
//
//	out_list_empty$_ = OutList 0;
//	out_list$_ {n:#} prev:^(OutList n) action:OutAction = OutList (n + 1);
//	action_send_msg#0ec3c86d mode:(## 8) out_msg:^(MessageRelaxed Any) = OutAction;
//
// outermost first.
func outList(c *cell.Cell) ([]Out, error) {
	var out []Out
	for n := 0; ; n++ {
		if n > 300 {
			return nil, fmt.Errorf("action list longer than 300")
		}
		if c.Exotic {
			return nil, fmt.Errorf("exotic cell in action list")
		}
		if len(c.Bits) == 0 && len(c.Refs) == 0 {
			return out, nil
		}
		if len(c.Bits) != 40 || len(c.Refs) != 2 {
			return nil, fmt.Errorf("action cell with %d bits, %d refs", len(c.Bits), len(c.Refs))
		}
		if rbits.ToUint(c.Bits[:32]) != actionSendMsg {
			return nil, fmt.Errorf("action tag %08x", rbits.ToUint(c.Bits[:32]))
		}
		out = append(out, Out{Mode: uint8(rbits.ToUint(c.Bits[32:40])), Msg: c.Refs[1]})
		c = c.Refs[0]
	}
}

// Decode reads a signed body of the given version.
func Decode(v Version, body *cell.Cell) (*Request, error) {
	_, signed, err := SplitSigned(v, body)
	if err != nil {
		return nil, err
	}
	r := open(signed)
	var q Request
	u32 := func(dst *uint32) {
		if err != nil {
			return
		}
		var x uint64
		x, err = r.u(32)
		*dst = uint32(x)
	}
	switch v {
	case V3R1, V3R2, V4R1, V4R2:
		// subwallet_id:uint32 valid_until:uint32 msg_seqno:uint32 [v4: op:uint8] (mode:uint8 ^msg)*
		u32(&q.SubWallet)
		u32(&q.ValidUntil)
		u32(&q.Seqno)
		if err == nil && (v == V4R1 || v == V4R2) {
			var op uint64
			op, err = r.u(8)
			q.Op = uint8(op)
		}
		if err != nil {
			return nil, err
		}
		for r.refsLeft() > 0 {
			mode, err := r.u(8)
			if err != nil {
				return nil, err
			}
			m, _ := r.ref()
			q.Msgs = append(q.Msgs, Out{uint8(mode), m})
		}
		if r.left() != 0 {
			return nil, fmt.Errorf("%d stray bits after the messages", r.left())
		}
	case HighloadV2, HighloadV2R1, HighloadV2R2:
		// subwallet_id:uint32 query_id:uint64 messages:(HashmapE 16 (mode:uint8 ^msg))
		u32(&q.SubWallet)
		if err != nil {
			return nil, err
		}
		if q.QueryID, err = r.u(64); err != nil {
			return nil, err
		}
		has, err := r.bit()
		if err != nil {
			return nil, err
		}
		if has {
			root, err := r.ref()
			if err != nil {
				return nil, err
			}
			prev := -1
			err = walkDict(root, 16, nil, func(key []bool, val *rd) error {
				k := int(rbits.ToUint(key))
				if k <= prev {
					return fmt.Errorf("dictionary keys out of order")
				}
				prev = k
				mode, err := val.u(8)
				if err != nil {
					return err
				}
				m, err := val.ref()
				if err != nil {
					return err
				}
				if val.left() != 0 || val.refsLeft() != 0 {
					return fmt.Errorf("stray data in dictionary value")
				}
				q.Msgs = append(q.Msgs, Out{uint8(mode), m})
				return nil
			})
			if err != nil {
				return nil, err
			}
		}
		if r.left() != 0 || r.refsLeft() != 0 {
			return nil, fmt.Errorf("stray data after the dictionary")
		}
	case V5R1:
		// signed_request$_ (magic) wallet_id:(## 32) valid_until:(## 32) msg_seqno:(## 32)
		//   out_actions:(Maybe OutList) has_other_actions:(## 1) other_actions:... signature:bits512
		u32(&q.Magic)
		u32(&q.WalletID)
		u32(&q.ValidUntil)
		u32(&q.Seqno)
		if err != nil {
			return nil, err
		}
		has, err := r.bit()
		if err != nil {
			return nil, err
		}
		if has {
			l, err := r.ref()
			if err != nil {
				return nil, err
			}
			if q.Msgs, err = outList(l); err != nil {
				return nil, err
			}
		}
		if q.HasExtended, err = r.bit(); err != nil {
			return nil, err
		}
		if !q.HasExtended && (r.left() != 0 || r.refsLeft() != 0) {
			return nil, fmt.Errorf("stray data after has_other_actions=0")
		}
	case V5Beta:
		// (magic) wallet_id:(## 80) valid_until:(## 32) msg_seqno:(## 32) op:(## 1) signature:bits512 ^OutList
		u32(&q.Magic)
		var x uint64
		if err == nil {
			x, err = r.u(32)
			q.BetaNet = int32(uint32(x))
		}
		if err == nil {
			x, err = r.u(8)
			q.BetaWC = int8(uint8(x))
		}
		if err == nil {
			x, err = r.u(8)
			q.BetaVer = uint8(x)
		}
		u32(&q.SubWallet)
		u32(&q.ValidUntil)
		u32(&q.Seqno)
		if err == nil {
			x, err = r.u(1)
			q.Op = uint8(x)
		}
		if err != nil {
			return nil, err
		}
		l, err := r.ref()
		if err != nil {
			return nil, err
		}
		if q.Msgs, err = outList(l); err != nil {
			return nil, err
		}
		if r.left() != 0 || r.refsLeft() != 0 {
			return nil, fmt.Errorf("stray data in v5 beta body")
		}
	default:
		return nil, fmt.Errorf("no body layout for %v", v)
	}
	return &q, nil
}

// walkDict visits the leaves of "Hashmap n X" in key order.
//
//	hm_edge#_ {n:#} {X:Type} {l:#} {m:#} label:(HmLabel ~l n) {n = (~m) + l} node:(HashmapNode m X)
//	hmn_leaf#_ value:X = HashmapNode 0 X;  hmn_fork#_ left:^(Hashmap n X) right:^(Hashmap n X) = HashmapNode (n+1) X
//	hml_short$0 len:(Unary ~n) s:(n * Bit) | hml_long$10 n:(#<= m) s:(n * Bit) | hml_same$11 v:Bit n:(#<= m)
func walkDict(c *cell.Cell, n int, prefix []bool, leaf func(key []bool, val *rd) error) error {
	if c.Exotic {
		return fmt.Errorf("exotic cell in dictionary")
	}
	r := open(c)
	var label []bool
	b, err := r.bit()
	if err != nil {
		return err
	}
	if !b { // hml_short
		l := 0
		for {
			x, err := r.bit()
			if err != nil {
				return err
			}
			if !x {
				break
			}
			l++
		}
		if l > n {
			return fmt.Errorf("label longer than the key")
		}
		if label, err = r.take(l); err != nil {
			return err
		}
	} else {
		b2, err := r.bit()
		if err != nil {
			return err
		}
		w := rbits.LimWidth(uint64(n))
		if !b2 { // hml_long
			l, err := r.u(w)
			if err != nil {
				return err
			}
			if int(l) > n {
				return fmt.Errorf("label longer than the key")
			}
			if label, err = r.take(int(l)); err != nil {
				return err
			}
		} else { // hml_same
			v, err := r.bit()
			if err != nil {
				return err
			}
			l, err := r.u(w)
			if err != nil {
				return err
			}
			if int(l) > n {
				return fmt.Errorf("label longer than the key")
			}
			label = make([]bool, l)
			for i := range label {
				label[i] = v
			}
		}
	}
	key := append(append([]bool(nil), prefix...), label...)
	m := n - len(label)
	if m == 0 {
		return leaf(key, r)
	}
	if r.left() != 0 || r.refsLeft() != 2 {
		return fmt.Errorf("fork node with %d bits, %d refs", r.left(), r.refsLeft())
	}
	if err := walkDict(r.refs[r.rpos], m-1, append(append([]bool(nil), key...), false), leaf); err != nil {
		return err
	}
	return walkDict(r.refs[r.rpos+1], m-1, append(append([]bool(nil), key...), true), leaf)
}
