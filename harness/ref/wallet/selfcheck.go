package wallet

import (
	"crypto/ed25519"
	"encoding/base64"
	"encoding/hex"
	"fmt"

	rboc "verifharness/ref/boc"
	"verifharness/ref/cell"
)

// SelfCheckResult says what the model was validated against.
type SelfCheckResult struct {
	CodesParsed        int `json:"codes_parsed"`
	CodeHashesPinned   int `json:"code_hashes_pinned"`
	AddressVectors     int `json:"address_vectors"`
	WalletIDVectors    int `json:"wallet_id_vectors"`
	CapturedDecoded    int `json:"captured_messages_decoded"`
	CapturedInnerMsgs  int `json:"captured_inner_messages_matched"`
	CapturedSigsOK     int `json:"captured_signatures_verified"`
	CapturedSigsForged int `json:"captured_signatures_rejected_for_other_keys"`
}

func readOne(b64 string) (*cell.Cell, error) {
	b, err := base64.StdEncoding.DecodeString(b64)
	if err != nil {
		return nil, err
	}
	roots, _, _, err := rboc.Read(b)
	if err != nil {
		return nil, err
	}
	if len(roots) != 1 {
		return nil, fmt.Errorf("%d roots", len(roots))
	}
	if roots[0].Err() != nil {
		return nil, roots[0].Err()
	}
	return roots[0], nil
}

// ReadBocBase64 parses a single-root base64 bag of cells with the reference reader.
func ReadBocBase64(b64 string) (*cell.Cell, error) { return readOne(b64) }

// SelfCheck validates the model against literal published data: code
// hashes, address vectors of real wallets, the wallet-id examples of the v5
// specification and external messages captured from the network.
func SelfCheck() (SelfCheckResult, error) {
	var res SelfCheckResult
	codeOnce.Do(loadCodes)
	if codeErr != nil {
		return res, codeErr
	}
	res.CodesParsed = len(codeCells)
	for v, want := range wellKnownCodeHash {
		c := Code(v)
		if c == nil {
			return res, fmt.Errorf("no code for %v", v)
		}
		h := c.Hash()
		if hex.EncodeToString(h[:]) != want {
			return res, fmt.Errorf("code hash of %v is %x, published %s", v, h, want)
		}
		res.CodeHashesPinned++
	}

	// v5 beta is deployed as a library cell pointing at the code with this hash
	if c := Code(V5Beta); c == nil || c.Type() != cell.Library || hex.EncodeToString(c.Data()[1:33]) != "e4cf3b2f4c6d6a61ea0f2b5447d266785b26af3637db2deee6bcd1aa826f3412" {
		return res, fmt.Errorf("v5 beta code is not the published library reference")
	}
	res.CodeHashesPinned++

	// real wallets: public key -> address (mainnet accounts)
	type av struct {
		ver       Version
		pub, addr string
		net       *int32
	}
	testnet, mainnet := int32(TestnetGlobalID), int32(MainnetGlobalID)
	v5pub := ed25519.PrivateKey(mustHex("7c94066ee822c97aa6992fa1c506bfd56d0d8fed2f1027070af7e0a683d46fb671ced1c4c69e53eb7ede24658375f56c142d22cdb21d0728138cb53b817e454e")).Public().(ed25519.PublicKey)
	for _, a := range []av{
		{V3R2, "f96db56e72de2e84e0aef780428e439a6c84e0b27bc2b2591075785479f2e9c3", "f3a069b7fc4631da4401de03eddd7cd30caca618c6ad0e3ac3fa454370b73a96", nil},
		{V4R1, "6f58b9fecb87e847825a7ecf3ae1f32b5578eee156ac10b398e2f1d67c12ca05", "17afeaaa61cb575e3e340a296da6bf55bc6b996cfab1d9f87840b2b6dc4cf613", nil},
		{V4R2, "7843fd9de6cd858154d9a914b8c3cd0bf1dc5af3a0c1dd273586568fc4d1c002", "8f2983152d1480ba6af25e087d672232080b294dc8992525e35e4ff6d601f405", nil},
		{V5R1, hex.EncodeToString(v5pub), "aa7bd5aa1614bc01f5460cfdb14224cb8db7a89612c6b2f21b6e043a0b75d3e6", &testnet},
		{V5R1, hex.EncodeToString(v5pub), "827137ba7a1ad871a8a8605e8dba799666abb952dfe9eff6e9dfa96700ae16f4", &mainnet},
	} {
		p := Params{Ver: a.ver, NetworkID: a.net}
		copy(p.PubKey[:], mustHex(a.pub))
		h, err := Address(p)
		if err != nil {
			return res, err
		}
		if hex.EncodeToString(h[:]) != a.addr {
			return res, fmt.Errorf("address of the %v vector is %x, want %s", a.ver, h, a.addr)
		}
		res.AddressVectors++
	}
	for _, w := range []struct {
		wc, net int32
		want    uint32
	}{{0, TestnetGlobalID, 2147483645}, {0, MainnetGlobalID, 2147483409}, {-1, MainnetGlobalID, 8388369}, {-1, TestnetGlobalID, 8388605}} {
		if got := V5R1WalletID(w.wc, 0, w.net); got != w.want {
			return res, fmt.Errorf("v5r1 wallet id (wc %d, net %d) = %d, want %d", w.wc, w.net, got, w.want)
		}
		res.WalletIDVectors++
	}

	for _, cm := range captured {
		root, err := readOne(cm.Boc)
		if err != nil {
			return res, fmt.Errorf("captured %s: %v", cm.Name, err)
		}
		ext, err := ParseExtIn(root)
		if err != nil {
			return res, fmt.Errorf("captured %s: %v", cm.Name, err)
		}
		req, err := Decode(cm.Ver, ext.Body)
		if err != nil {
			return res, fmt.Errorf("captured %s: %v", cm.Name, err)
		}
		res.CapturedDecoded++
		switch cm.Ver {
		case V4R1, V4R2, V3R1, V3R2:
			if req.SubWallet != DefaultSubWalletBase {
				return res, fmt.Errorf("captured %s: sub-wallet %d after the signature (signature placement wrong?)", cm.Name, req.SubWallet)
			}
		case V5R1:
			if req.Magic != MagicSignedExternal || (req.WalletID != V5R1WalletID(0, 0, MainnetGlobalID) && req.WalletID != V5R1WalletID(0, 0, TestnetGlobalID)) {
				return res, fmt.Errorf("captured %s: magic %08x wallet id %d", cm.Name, req.Magic, req.WalletID)
			}
		case V5Beta:
			if req.Magic != MagicSignedExternal || (req.BetaNet != MainnetGlobalID && req.BetaNet != TestnetGlobalID) || req.BetaWC != 0 || req.BetaVer != 0 {
				return res, fmt.Errorf("captured %s: magic %08x net %d wc %d", cm.Name, req.Magic, req.BetaNet, req.BetaWC)
			}
		case HighloadV2R2:
			if ts := req.QueryID >> 32; ts < 1_500_000_000 || ts > 2_000_000_000 {
				return res, fmt.Errorf("captured %s: query id %d does not start with a timestamp", cm.Name, req.QueryID)
			}
		}
		if cm.WantMsgs != nil {
			if len(req.Msgs) != len(cm.WantMsgs) {
				return res, fmt.Errorf("captured %s: %d inner messages, want %d", cm.Name, len(req.Msgs), len(cm.WantMsgs))
			}
			for i, w := range cm.WantMsgs {
				wc, err := readOne(w)
				if err != nil {
					return res, err
				}
				if req.Msgs[i].Msg.Hash() != wc.Hash() || int(req.Msgs[i].Mode) != cm.WantModes[i] {
					return res, fmt.Errorf("captured %s: inner message %d differs", cm.Name, i)
				}
				if _, err := ParseInt(req.Msgs[i].Msg); err != nil {
					return res, fmt.Errorf("captured %s: inner message %d: %v", cm.Name, i, err)
				}
				res.CapturedInnerMsgs++
			}
		}
		if cm.PubKeyHex != "" {
			pub := mustHex(cm.PubKeyHex)
			if !Verify(cm.Ver, ext.Body, pub) {
				return res, fmt.Errorf("captured %s: signature does not verify under the reference verifier", cm.Name)
			}
			res.CapturedSigsOK++
			for i := 0; i < 32; i++ {
				other := append([]byte(nil), pub...)
				other[i] ^= 1
				if Verify(cm.Ver, ext.Body, other) {
					return res, fmt.Errorf("captured %s: verifies under a different key", cm.Name)
				}
				res.CapturedSigsForged++
			}
			// the other placement must not verify
			if Verify(V4R2, ext.Body, pub) {
				return res, fmt.Errorf("captured %s: verifies with the signature-first layout too", cm.Name)
			}
		}
	}
	return res, nil
}
