package wallet

import (
	"crypto/ed25519"
	"crypto/hmac"
	"crypto/sha256"
	"encoding/base64"
	"encoding/binary"
	"encoding/hex"
)

// ProofMessage is the byte string a wallet signs for a TON Connect
// "ton_proof" item (ton-connect/docs requests-responses.md, "Address proof
// signature (ton_proof)"):
//
//	message   = utf8("ton-proof-item-v2/") ++ Address ++ AppDomain ++ Timestamp ++ Payload
//	Address   = workchain: 32-bit big endian ++ hash: 256 bits
//	AppDomain = length: 32-bit little endian ++ utf8 domain
//	Timestamp = 64-bit little endian unix seconds
//	signature = Ed25519Sign(privkey, sha256(0xffff ++ utf8("ton-connect") ++ sha256(message)))
func ProofMessage(workchain int32, addr [32]byte, domain string, ts int64, payload string) []byte {
	m := []byte("ton-proof-item-v2/")
	m = binary.BigEndian.AppendUint32(m, uint32(workchain))
	m = append(m, addr[:]...)
	m = binary.LittleEndian.AppendUint32(m, uint32(len(domain)))
	m = append(m, domain...)
	m = binary.LittleEndian.AppendUint64(m, uint64(ts))
	m = append(m, payload...)
	inner := sha256.Sum256(m)
	full := append([]byte{0xff, 0xff}, "ton-connect"...)
	full = append(full, inner[:]...)
	out := sha256.Sum256(full)
	return out[:]
}

// SignProof is the independent wallet-side signer; the result is the
// base64 signature of the proof item.
func SignProof(priv ed25519.PrivateKey, workchain int32, addr [32]byte, domain string, ts int64, payload string) string {
	return base64.StdEncoding.EncodeToString(ed25519.Sign(priv, ProofMessage(workchain, addr, domain, ts, payload)))
}

// VerifyProof is the reference verifier of a proof signature.
func VerifyProof(pub []byte, sigB64 string, workchain int32, addr [32]byte, domain string, ts int64, payload string) bool {
	sig, err := base64.StdEncoding.DecodeString(sigB64)
	if err != nil || len(pub) != ed25519.PublicKeySize {
		return false
	}
	return ed25519.Verify(ed25519.PublicKey(pub), ProofMessage(workchain, addr, domain, ts, payload), sig)
}

// ServerPayload crafts a payload in the format of tongo's tonconnect server
// (this part is not a TON standard; it is the server's own token format and
// is reproduced here only to be able to present tokens with a chosen
// embedded time or made under another secret):
//
//	hex( nonce:8 bytes ++ time:uint64 big endian ++ first 16 bytes of HMAC-SHA256(secret, nonce ++ time) )
func ServerPayload(secret string, nonce [8]byte, unixTime int64) string {
	p := append([]byte(nil), nonce[:]...)
	p = binary.BigEndian.AppendUint64(p, uint64(unixTime))
	h := hmac.New(sha256.New, []byte(secret))
	h.Write(p)
	p = append(p, h.Sum(nil)[:16]...)
	return hex.EncodeToString(p)
}
