// Package tl is the reference model of the TL (Type Language) wire format
// for the subset of the language that TON's lite_api.tl uses. It is written
// from the TL specification (core.telegram.org/mtproto/TL, .../serialize) and
// the comments at the top of ton/tl/generate/scheme/lite_api.tl; it shares no
// code with tongo and must not import it.
//
// Schema subset:
//
//	name.space.constructor#hexid field:type ... = name.space.Type;
//	---functions---
//	name.space.function#hexid field:type ... = name.space.ResultType;
//
// field types: int long int256 bytes string Bool # true, declared types,
// vectors written `(vector T)` or `vector<T>`, and `flag.N?T` conditionals
// (flag is an earlier field of type #).
//
// Wire format (all that the interpreter in codec.go implements):
//   - int / # : 4 bytes little-endian; long: 8 bytes little-endian;
//     int256: 32 raw bytes
//   - bytes / string: L<254: one length byte, else 0xfe + 3-byte little-endian
//     length; then the data; then zero bytes up to a multiple of 4
//   - a type written with a lower-case last component (tonNode.blockIdExt,
//     vector, int, true) is *bare*: only the fields of that constructor
//   - a type written with an upper-case last component (Bool,
//     liteServer.BlockLink) is *boxed*: the 32-bit constructor id, then the
//     fields of the chosen constructor
//   - the constructor id is the number after '#' in the schema line, written
//     as a 32-bit little-endian integer ("#6752eb78" -> 78 eb 52 67). This is
//     the standard TL rule; it is pinned by real lite-server bytes in the
//     repository (ton/testdata/get-last-config-all-1.bin starts 81 28 83 85 =
//     liteServer.masterchainInfo#85832881) and by the overlay-id vectors of
//     liteclient/overlay_id_test.go (sha256 over 29 d3 9e 4d ‖ ..., i.e.
//     tonNode.shardPublicOverlayId#4d9ed329); see SelfCheck.
//   - Bool is boxed: boolTrue#997275b5, boolFalse#bc799737
//   - vector: 32-bit little-endian count, then the elements (bare vector has
//     no constructor id of its own)
//   - `flag.N?T` is on the wire iff bit N of the value of field `flag` is set;
//     `true` has an empty serialisation
//   - a function call is the function's id followed by its arguments; the
//     answer is a boxed value of the result type
package tl

import (
	"fmt"
	"strconv"
	"strings"
	"unicode"
)

type Kind int

const (
	KInt Kind = iota
	KLong
	KInt256
	KBytes
	KString
	KBool
	KNat
	KTrue
	KVector
	KBare  // Name = constructor name
	KBoxed // Name = type name
)

func (k Kind) String() string {
	return [...]string{"int", "long", "int256", "bytes", "string", "Bool", "#", "true", "vector", "bare", "boxed"}[k]
}

// Type is a type expression of the subset.
type Type struct {
	Kind Kind
	Name string // KBare: constructor name, KBoxed: type name
	Elem *Type  // KVector
}

func (t Type) String() string {
	switch t.Kind {
	case KVector:
		return "(vector " + t.Elem.String() + ")"
	case KBare, KBoxed:
		return t.Name
	}
	return t.Kind.String()
}

type Field struct {
	Name      string
	Cond      bool   // written as flag.N?T
	CondField string // name of the flag field
	CondBit   int
	Type      Type
}

func (f Field) String() string {
	if f.Cond {
		return fmt.Sprintf("%s:%s.%d?%s", f.Name, f.CondField, f.CondBit, f.Type)
	}
	return f.Name + ":" + f.Type.String()
}

// Combinator is one schema line: a constructor or a function.
type Combinator struct {
	Name     string
	ID       uint32
	HasID    bool
	Fields   []Field
	Result   string
	Function bool
	Line     int
	Text     string
}

// Text form, as a schema line.
func (c *Combinator) String() string { return c.text(false) }

// text prints the line; with shortID the constructor id is written without
// leading zero digits (TL: `#` followed by 1..8 hex digits, "#1a2b" = 0x00001a2b).
func (c *Combinator) text(shortID bool) string {
	var sb strings.Builder
	sb.WriteString(c.Name)
	if c.HasID && shortID {
		fmt.Fprintf(&sb, "#%x", c.ID)
	} else if c.HasID {
		fmt.Fprintf(&sb, "#%08x", c.ID)
	}
	for _, f := range c.Fields {
		sb.WriteByte(' ')
		sb.WriteString(f.String())
	}
	sb.WriteString(" = " + c.Result + ";")
	return sb.String()
}

// FlagBits returns, per flag field name, the sorted distinct bits that
// conditionals of this line consult.
func (c *Combinator) FlagBits() map[string][]int {
	out := map[string][]int{}
	for _, f := range c.Fields {
		if !f.Cond {
			continue
		}
		dup := false
		for _, b := range out[f.CondField] {
			dup = dup || b == f.CondBit
		}
		if !dup {
			out[f.CondField] = append(out[f.CondField], f.CondBit)
		}
	}
	for _, v := range out {
		for i := 1; i < len(v); i++ {
			for j := i; j > 0 && v[j] < v[j-1]; j-- {
				v[j], v[j-1] = v[j-1], v[j]
			}
		}
	}
	return out
}

func (c *Combinator) FieldIndex(name string) int {
	for i, f := range c.Fields {
		if f.Name == name {
			return i
		}
	}
	return -1
}

type Schema struct {
	Constructors []*Combinator
	Functions    []*Combinator
	// ShortIDs makes String print constructor ids without leading zero digits.
	ShortIDs bool
	byName   map[string]*Combinator
	byType   map[string][]*Combinator
}

func (s *Schema) Constructor(name string) *Combinator { return s.byName[name] }

// TypeConstructors lists the constructors of a type in declaration order.
func (s *Schema) TypeConstructors(typeName string) []*Combinator { return s.byType[typeName] }

// TypeNames lists the declared type names in order of first appearance.
func (s *Schema) TypeNames() []string {
	var out []string
	seen := map[string]bool{}
	for _, c := range s.Constructors {
		if !seen[c.Result] {
			seen[c.Result] = true
			out = append(out, c.Result)
		}
	}
	return out
}

func (s *Schema) Function(name string) *Combinator {
	for _, f := range s.Functions {
		if f.Name == name {
			return f
		}
	}
	return nil
}

// String prints the schema as text that Parse accepts.
func (s *Schema) String() string {
	var sb strings.Builder
	for _, c := range s.Constructors {
		sb.WriteString(c.text(s.ShortIDs))
		sb.WriteByte('\n')
	}
	sb.WriteString("\n---functions---\n\n")
	for _, c := range s.Functions {
		sb.WriteString(c.text(s.ShortIDs))
		sb.WriteByte('\n')
	}
	return sb.String()
}

// New builds a schema from combinators (used by generators of random schemas).
func New(constructors, functions []*Combinator) (*Schema, error) {
	s := &Schema{byName: map[string]*Combinator{}, byType: map[string][]*Combinator{}}
	for _, c := range constructors {
		if s.byName[c.Name] != nil {
			return nil, fmt.Errorf("duplicate constructor %s", c.Name)
		}
		c.Function = false
		s.byName[c.Name] = c
		s.byType[c.Result] = append(s.byType[c.Result], c)
		s.Constructors = append(s.Constructors, c)
	}
	for _, f := range functions {
		f.Function = true
		s.Functions = append(s.Functions, f)
	}
	if err := s.resolve(); err != nil {
		return nil, err
	}
	return s, nil
}

// IsBareName applies TL's rule: an identifier whose last component starts
// with a lower-case letter names a constructor (bare type), otherwise a type.
func IsBareName(id string) bool {
	last := id
	if i := strings.LastIndexByte(id, '.'); i >= 0 {
		last = id[i+1:]
	}
	return last != "" && unicode.IsLower(rune(last[0]))
}

// ---- tokenizer ----

type tok struct {
	s    string
	line int
}

func isIdentStart(c byte) bool {
	return c >= 'a' && c <= 'z' || c >= 'A' && c <= 'Z' || c == '_'
}
func isIdentChar(c byte) bool { return isIdentStart(c) || c >= '0' && c <= '9' }
func isHex(c byte) bool       { return c >= '0' && c <= '9' || c >= 'a' && c <= 'f' || c >= 'A' && c <= 'F' }

func tokenize(text string) ([]tok, error) {
	var out []tok
	line := 1
	for i := 0; i < len(text); {
		c := text[i]
		switch {
		case c == '\n':
			line++
			i++
		case c == ' ' || c == '\t' || c == '\r':
			i++
		case c == '/' && i+1 < len(text) && text[i+1] == '/':
			for i < len(text) && text[i] != '\n' {
				i++
			}
		case strings.HasPrefix(text[i:], "---functions---"):
			out = append(out, tok{"---functions---", line})
			i += len("---functions---")
		case isIdentStart(c):
			j := i
			for j < len(text) && (isIdentChar(text[j]) || text[j] == '.' && j+1 < len(text) && isIdentStart(text[j+1])) {
				j++
			}
			out = append(out, tok{text[i:j], line})
			i = j
		case c >= '0' && c <= '9':
			j := i
			for j < len(text) && text[j] >= '0' && text[j] <= '9' {
				j++
			}
			out = append(out, tok{text[i:j], line})
			i = j
		case c == '#':
			j := i + 1
			for j < len(text) && isHex(text[j]) {
				j++
			}
			out = append(out, tok{text[i:j], line})
			i = j
		case strings.IndexByte(":;=()<>?.", c) >= 0:
			out = append(out, tok{string(c), line})
			i++
		default:
			return nil, fmt.Errorf("line %d: unexpected character %q", line, c)
		}
	}
	return out, nil
}

// ---- parser ----

type parser struct {
	t []tok
	i int
}

func (p *parser) peek() string {
	if p.i < len(p.t) {
		return p.t[p.i].s
	}
	return ""
}
func (p *parser) line() int {
	if p.i < len(p.t) {
		return p.t[p.i].line
	}
	if len(p.t) > 0 {
		return p.t[len(p.t)-1].line
	}
	return 0
}
func (p *parser) next() string { s := p.peek(); p.i++; return s }
func (p *parser) expect(s string) error {
	if p.peek() != s {
		return fmt.Errorf("line %d: expected %q, found %q", p.line(), s, p.peek())
	}
	p.i++
	return nil
}

func isIdent(s string) bool { return s != "" && isIdentStart(s[0]) }

// Parse reads schema text. Without a ---functions--- separator every line is
// a constructor.
func Parse(text string) (*Schema, error) {
	toks, err := tokenize(text)
	if err != nil {
		return nil, err
	}
	p := &parser{t: toks}
	var cons, funs []*Combinator
	inFun := false
	for p.i < len(p.t) {
		if p.peek() == "---functions---" {
			p.i++
			inFun = true
			continue
		}
		c, err := p.combinator()
		if err != nil {
			return nil, err
		}
		if inFun {
			funs = append(funs, c)
		} else {
			cons = append(cons, c)
		}
	}
	return New(cons, funs)
}

// ParseLine parses one combinator line (e.g. a line quoted from the official
// schema that the file under test only has as a comment).
func ParseLine(text string) (*Combinator, error) {
	toks, err := tokenize(text)
	if err != nil {
		return nil, err
	}
	p := &parser{t: toks}
	c, err := p.combinator()
	if err != nil {
		return nil, err
	}
	if p.i != len(p.t) {
		return nil, fmt.Errorf("trailing tokens after combinator")
	}
	return c, nil
}

func (p *parser) combinator() (*Combinator, error) {
	c := &Combinator{Line: p.line()}
	start := p.i
	name := p.next()
	if !isIdent(name) {
		return nil, fmt.Errorf("line %d: expected combinator name, found %q", c.Line, name)
	}
	c.Name = name
	if strings.HasPrefix(p.peek(), "#") && len(p.peek()) > 1 {
		h := p.next()[1:]
		if len(h) > 8 {
			return nil, fmt.Errorf("line %d: constructor id %q longer than 32 bits", c.Line, h)
		}
		v, err := strconv.ParseUint(h, 16, 32)
		if err != nil {
			return nil, fmt.Errorf("line %d: bad constructor id %q", c.Line, h)
		}
		c.ID, c.HasID = uint32(v), true
	}
	for p.peek() != "=" {
		if p.i >= len(p.t) {
			return nil, fmt.Errorf("line %d: unterminated combinator %s", c.Line, c.Name)
		}
		f, err := p.field()
		if err != nil {
			return nil, err
		}
		c.Fields = append(c.Fields, f)
	}
	p.i++ // "="
	res := p.next()
	if !isIdent(res) {
		return nil, fmt.Errorf("line %d: expected result type, found %q", c.Line, res)
	}
	c.Result = res
	if err := p.expect(";"); err != nil {
		return nil, err
	}
	var parts []string
	for _, t := range p.t[start:p.i] {
		parts = append(parts, t.s)
	}
	c.Text = strings.Join(parts, " ")
	return c, nil
}

func (p *parser) field() (Field, error) {
	var f Field
	name := p.next()
	if !isIdent(name) {
		return f, fmt.Errorf("line %d: expected field name, found %q", p.line(), name)
	}
	f.Name = name
	if err := p.expect(":"); err != nil {
		return f, err
	}
	// conditional: ident "." number "?"
	if isIdent(p.peek()) && p.i+3 < len(p.t) && p.t[p.i+1].s == "." && p.t[p.i+3].s == "?" {
		bit, err := strconv.Atoi(p.t[p.i+2].s)
		if err != nil || bit < 0 || bit > 31 {
			return f, fmt.Errorf("line %d: bad flag bit %q", p.line(), p.t[p.i+2].s)
		}
		f.Cond, f.CondField, f.CondBit = true, p.peek(), bit
		p.i += 4
	}
	t, err := p.typeExpr()
	if err != nil {
		return f, err
	}
	f.Type = t
	return f, nil
}

func (p *parser) typeExpr() (Type, error) {
	s := p.next()
	switch {
	case s == "#":
		return Type{Kind: KNat}, nil
	case s == "(":
		head := p.next()
		if head != "vector" {
			return Type{}, fmt.Errorf("line %d: only (vector T) is supported, found (%s", p.line(), head)
		}
		el, err := p.typeExpr()
		if err != nil {
			return Type{}, err
		}
		if err := p.expect(")"); err != nil {
			return Type{}, err
		}
		return Type{Kind: KVector, Elem: &el}, nil
	case s == "vector":
		if err := p.expect("<"); err != nil {
			return Type{}, err
		}
		el, err := p.typeExpr()
		if err != nil {
			return Type{}, err
		}
		if err := p.expect(">"); err != nil {
			return Type{}, err
		}
		return Type{Kind: KVector, Elem: &el}, nil
	case isIdent(s):
		switch s {
		case "int":
			return Type{Kind: KInt}, nil
		case "long":
			return Type{Kind: KLong}, nil
		case "int256":
			return Type{Kind: KInt256}, nil
		case "bytes":
			return Type{Kind: KBytes}, nil
		case "string":
			return Type{Kind: KString}, nil
		case "Bool":
			return Type{Kind: KBool}, nil
		case "true":
			return Type{Kind: KTrue}, nil
		}
		if IsBareName(s) {
			return Type{Kind: KBare, Name: s}, nil
		}
		return Type{Kind: KBoxed, Name: s}, nil
	}
	return Type{}, fmt.Errorf("line %d: unexpected %q in type expression", p.line(), s)
}

// resolve checks that every reference has a target and every conditional
// names an earlier # field.
func (s *Schema) resolve() error {
	var check func(c *Combinator, t Type) error
	check = func(c *Combinator, t Type) error {
		switch t.Kind {
		case KVector:
			return check(c, *t.Elem)
		case KBare:
			if s.byName[t.Name] == nil {
				return fmt.Errorf("line %d (%s): unknown constructor %s", c.Line, c.Name, t.Name)
			}
		case KBoxed:
			if len(s.byType[t.Name]) == 0 {
				return fmt.Errorf("line %d (%s): unknown type %s", c.Line, c.Name, t.Name)
			}
		}
		return nil
	}
	all := append(append([]*Combinator{}, s.Constructors...), s.Functions...)
	for _, c := range all {
		for i, f := range c.Fields {
			if err := check(c, f.Type); err != nil {
				return err
			}
			if f.Cond {
				j := c.FieldIndex(f.CondField)
				if j < 0 || j >= i || c.Fields[j].Type.Kind != KNat || c.Fields[j].Cond {
					return fmt.Errorf("line %d (%s): conditional %s refers to %q which is not an earlier # field", c.Line, c.Name, f.Name, f.CondField)
				}
			}
			if f.Type.Kind == KTrue && !f.Cond {
				return fmt.Errorf("line %d (%s): unconditional field of type true", c.Line, c.Name)
			}
		}
		if c.Function && len(s.byType[c.Result]) == 0 {
			return fmt.Errorf("line %d: function %s returns unknown type %s", c.Line, c.Name, c.Result)
		}
	}
	return nil
}

// Line returns the schema line of a constructor or function ("" if unknown).
func (s *Schema) Line(name string) string {
	if c := s.byName[name]; c != nil {
		return c.String()
	}
	if f := s.Function(name); f != nil {
		return f.String()
	}
	return ""
}
