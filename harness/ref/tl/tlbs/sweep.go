package tlbs

import "fmt"

// WidthSweep returns a deterministic schema whose declarations together use
// every width of one primitive family: 0 = (## n) for n = 1..64, 1 = uintN
// for n = 1..64, 128, 256, 2 = intN for n = 1..64, 128, 256, 257,
// 3 = VarUInteger n for n = 2..32 and every bitsN the library ships.
// Random schemas hit a given width only now and then; the sweep makes the
// width axis exhaustive in every run.
func WidthSweep(which int) *Schema {
	s := &Schema{}
	var widths []int
	var mk func(n int) Type
	name := ""
	switch which % 4 {
	case 0:
		name = "Natw"
		for n := 1; n <= 64; n++ {
			widths = append(widths, n)
		}
		mk = func(n int) Type { return Type{K: NatW, N: n} }
	case 1:
		name = "Uintw"
		for n := 1; n <= 64; n++ {
			widths = append(widths, n)
		}
		widths = append(widths, 128, 256)
		mk = func(n int) Type { return Type{K: Uint, N: n} }
	case 2:
		name = "Intw"
		for n := 1; n <= 64; n++ {
			widths = append(widths, n)
		}
		widths = append(widths, 128, 256, 257)
		mk = func(n int) Type { return Type{K: Int, N: n} }
	default:
		name = "Varw"
		for n := 2; n <= 32; n++ {
			widths = append(widths, n)
		}
		mk = func(n int) Type { return Type{K: VarUInt, N: n} }
	}
	// pack the widths into constructors of at most ~900 bits
	budget := func(n int) int {
		if which%4 == 3 {
			return 8*(n-1) + 6
		}
		return n
	}
	var cur *Constructor
	used := 0
	k := 0
	flush := func() {
		if cur != nil {
			s.Decls = append(s.Decls, cur)
		}
		cur = nil
	}
	for _, n := range widths {
		if cur == nil || used+budget(n) > 900 || len(cur.Fields) >= 12 {
			flush()
			k++
			cur = &Constructor{Name: fmt.Sprintf("sweep_%s%d", name, k), Tag: fmt.Sprintf("#%02x", 0xa0+k), Result: fmt.Sprintf("Sweep%s%d", name, k)}
			used = 8
		}
		cur.Fields = append(cur.Fields, Field{Name: fmt.Sprintf("f%d", n), Type: mk(n)})
		used += budget(n)
	}
	flush()
	if which%4 == 3 {
		k++
		c := &Constructor{Name: fmt.Sprintf("sweep_bits%d", k), Tag: "$101", Result: fmt.Sprintf("SweepBits%d", k)}
		for _, n := range []int{80, 96, 128, 256} {
			c.Fields = append(c.Fields, Field{Name: fmt.Sprintf("b%d", n), Type: Type{K: Bits, N: n}})
		}
		s.Decls = append(s.Decls, c)
		k++
		c2 := &Constructor{Name: fmt.Sprintf("sweep_bits%d", k), Tag: "$110", Result: fmt.Sprintf("SweepBits%d", k)}
		for _, n := range []int{264, 320, 352} {
			c2.Fields = append(c2.Fields, Field{Name: fmt.Sprintf("b%d", n), Type: Type{K: Bits, N: n}})
		}
		s.Decls = append(s.Decls, c2)
	}
	return s
}
