// Package tlbs is a small reference model of TL-B for the constructs that
// tongo's abi/schemas use (C09): an AST that prints as TL-B text, a generator
// of random schemas and values, and an encoder into reference cells
// (harness/ref/cell). Written from the TL-B description in the TON
// documentation (block.tlb conventions); it shares no code with tongo.
//
//	uintN intN bitsN (## n) # Bool Coins MsgAddress Cell ^T (Maybe T) (Maybe ^T)
//	(Either T ^T) (Either A B) (HashmapE n T) (VarUInteger n) ^[ f:T ... ]
//	constructors with #hex and $bin tags, multi-constructor types
//
// Encoding rules implemented here:
//   - uintN / (## n) / #: N-bit big-endian unsigned (# = 32 bits); intN: N-bit
//     two's complement; bitsN: N raw bits; Bool: one bit
//   - Coins = VarUInteger 16; VarUInteger n: len:(#< n) as ceil(log2 n) bits,
//     then len bytes big-endian, len minimal
//   - MsgAddress: addr_none$00, or addr_std$10 anycast:(Maybe Anycast)=0
//     workchain_id:int8 address:bits256
//   - Cell in-line: the bits and references of the given cell are appended
//   - ^T: T serialised into a fresh cell that is appended as a reference
//   - Maybe T: bit 0, or bit 1 followed by T; Either A B: bit 0 + A or bit 1 + B
//   - HashmapE n T: bit 0 if empty, else bit 1 and a reference to the root of
//     Hashmap n T (hm_edge: label, then two references, or the value in a leaf),
//     with the label constructor the TON node picks (crypto/vm/dict.cpp)
//   - a constructor writes its tag (#hex: 4 bits per digit, $bin: one bit per
//     digit, none for `_`/`#_`/`$_`/absent), then its fields in order
package tlbs

import (
	"encoding/hex"
	"fmt"
	"math/big"
	"sort"
	"strconv"
	"strings"

	"verifharness/ref/cell"
)

type Kind string

const (
	Uint     Kind = "uint"     // uintN
	Int      Kind = "int"      // intN
	Bits     Kind = "bits"     // bitsN
	NatW     Kind = "natw"     // (## N)
	Nat      Kind = "nat"      // #
	Bool     Kind = "bool"     //
	Coins    Kind = "coins"    //
	Addr     Kind = "addr"     // MsgAddress
	Cell     Kind = "cell"     // Cell (in-line)
	Ref      Kind = "ref"      // ^A
	Maybe    Kind = "maybe"    // (Maybe A)
	Either   Kind = "either"   // (Either A B)
	HashmapE Kind = "hashmape" // (HashmapE N A)
	Hashmap  Kind = "hashmap"  // (Hashmap N A), never empty
	VarUInt  Kind = "varuint"  // (VarUInteger N)
	Anon     Kind = "anon"     // [ fields ]  (only under ^)
	Named    Kind = "named"    // a declared type
)

type Type struct {
	K      Kind    `json:"k"`
	N      int     `json:"n,omitempty"`
	A      *Type   `json:"a,omitempty"`
	B      *Type   `json:"b,omitempty"`
	Fields []Field `json:"fields,omitempty"`
	Name   string  `json:"name,omitempty"`
	// Alias: another spelling of the same type in the schema text (Coins as
	// "Grams"; MsgAddress as "MsgAddressInt", whose values are never addr_none).
	Alias string `json:"alias,omitempty"`
}

type Field struct {
	Name string `json:"name"`
	Type Type   `json:"type"`
}

type Constructor struct {
	Name   string  `json:"name"`
	Tag    string  `json:"tag"` // "#1a2b", "$0110", "" (no tag)
	Fields []Field `json:"fields"`
	Result string  `json:"result"`
}

type Schema struct {
	Decls []*Constructor `json:"decls"`
}

func (s *Schema) TypeNames() []string {
	var out []string
	seen := map[string]bool{}
	for _, d := range s.Decls {
		if !seen[d.Result] {
			seen[d.Result] = true
			out = append(out, d.Result)
		}
	}
	return out
}

func (s *Schema) Constructors(typeName string) []*Constructor {
	var out []*Constructor
	for _, d := range s.Decls {
		if d.Result == typeName {
			out = append(out, d)
		}
	}
	return out
}

func (s *Schema) Constructor(typeName, ctor string) *Constructor {
	for _, d := range s.Decls {
		if d.Result == typeName && d.Name == ctor {
			return d
		}
	}
	return nil
}

// ---- text ----

func (t Type) String() string {
	switch t.K {
	case Uint:
		return "uint" + strconv.Itoa(t.N)
	case Int:
		return "int" + strconv.Itoa(t.N)
	case Bits:
		return "bits" + strconv.Itoa(t.N)
	case NatW:
		return fmt.Sprintf("(## %d)", t.N)
	case Nat:
		return "#"
	case Bool:
		return "Bool"
	case Coins:
		if t.Alias != "" {
			return t.Alias
		}
		return "Coins"
	case Addr:
		if t.Alias != "" {
			return t.Alias
		}
		return "MsgAddress"
	case Cell:
		return "Cell"
	case Ref:
		return "^" + t.A.String()
	case Maybe:
		return "(Maybe " + t.A.String() + ")"
	case Either:
		return "(Either " + t.A.String() + " " + t.B.String() + ")"
	case HashmapE:
		return fmt.Sprintf("(HashmapE %d %s)", t.N, t.A.String())
	case Hashmap:
		return fmt.Sprintf("(Hashmap %d %s)", t.N, t.A.String())
	case VarUInt:
		return fmt.Sprintf("(VarUInteger %d)", t.N)
	case Anon:
		var parts []string
		for _, f := range t.Fields {
			parts = append(parts, f.String())
		}
		return "[" + strings.Join(parts, " ") + "]"
	case Named:
		return t.Name
	}
	return "?"
}

// String prints name:type; a field without a name is a bare ^T.
func (f Field) String() string {
	if f.Name == "" {
		return f.Type.String()
	}
	return f.Name + ":" + f.Type.String()
}

func (c *Constructor) String() string {
	var sb strings.Builder
	sb.WriteString(c.Name + c.Tag)
	for _, f := range c.Fields {
		sb.WriteString(" " + f.String())
	}
	sb.WriteString(" = " + c.Result + ";")
	return sb.String()
}

func (s *Schema) String() string {
	var sb strings.Builder
	for _, d := range s.Decls {
		sb.WriteString(d.String() + "\n")
	}
	return sb.String()
}

// ---- values ----
//
//	Uint NatW Nat Coins VarUInt Int   *big.Int
//	Bits                              []byte (N/8 bytes, N a multiple of 8)
//	Bool                              bool
//	Addr                              *Address (nil = addr_none)
//	Cell                              *CellV
//	Ref                               the value of A
//	Maybe                             *MaybeV
//	Either                            *EitherV
//	HashmapE                          []Entry sorted by key, distinct
//	Anon                              *Object (Ctor "")
//	Named                             *Object
type (
	Address struct {
		Workchain int8
		Addr      [32]byte
	}
	CellV struct {
		Bits []bool
		Refs []*CellV
	}
	MaybeV struct {
		Present bool
		V       any
	}
	EitherV struct {
		Right bool
		V     any
	}
	Entry struct {
		Key *big.Int // N-bit unsigned
		V   any
	}
	Object struct {
		Ctor   string
		Fields []any
	}
)

func (c *CellV) ToCell() *cell.Cell {
	refs := make([]*cell.Cell, len(c.Refs))
	for i, r := range c.Refs {
		refs[i] = r.ToCell()
	}
	return cell.New(append([]bool{}, c.Bits...), false, refs...)
}

// ---- encoder ----

type builder struct {
	bits []bool
	refs []*cell.Cell
}

func (b *builder) uint(v *big.Int, n int) error {
	if v.Sign() < 0 || v.BitLen() > n {
		return fmt.Errorf("%s does not fit %d unsigned bits", v, n)
	}
	for i := n - 1; i >= 0; i-- {
		b.bits = append(b.bits, v.Bit(i) == 1)
	}
	return nil
}

func (b *builder) int(v *big.Int, n int) error {
	lim := new(big.Int).Lsh(big.NewInt(1), uint(n-1))
	if v.Cmp(lim) >= 0 || v.Cmp(new(big.Int).Neg(lim)) < 0 {
		return fmt.Errorf("%s does not fit %d signed bits", v, n)
	}
	u := new(big.Int).Set(v)
	if u.Sign() < 0 {
		u.Add(u, new(big.Int).Lsh(big.NewInt(1), uint(n)))
	}
	return b.uint(u, n)
}

func (b *builder) cell() (*cell.Cell, error) {
	if len(b.bits) > 1023 || len(b.refs) > 4 {
		return nil, fmt.Errorf("cell overflow: %d bits, %d refs", len(b.bits), len(b.refs))
	}
	return cell.New(b.bits, false, b.refs...), nil
}

func bitLen(n int) int { return big.NewInt(int64(n)).BitLen() }

func (b *builder) varUint(v *big.Int, n int) error {
	raw := v.Bytes()
	if v.Sign() < 0 || len(raw) > n-1 {
		return fmt.Errorf("%s does not fit VarUInteger %d", v, n)
	}
	if err := b.uint(big.NewInt(int64(len(raw))), bitLen(n-1)); err != nil {
		return err
	}
	return b.uint(v, 8*len(raw))
}

func tagBits(tag string) ([]bool, error) {
	if tag == "" || tag == "#_" || tag == "$_" {
		return nil, nil
	}
	var out []bool
	switch tag[0] {
	case '#':
		for _, c := range tag[1:] {
			v, err := strconv.ParseUint(string(c), 16, 8)
			if err != nil {
				return nil, fmt.Errorf("bad tag %q", tag)
			}
			for i := 3; i >= 0; i-- {
				out = append(out, v>>uint(i)&1 == 1)
			}
		}
	case '$':
		for _, c := range tag[1:] {
			if c != '0' && c != '1' {
				return nil, fmt.Errorf("bad tag %q", tag)
			}
			out = append(out, c == '1')
		}
	default:
		return nil, fmt.Errorf("bad tag %q", tag)
	}
	return out, nil
}

// Encode serialises a value of a declared type into a cell.
func (s *Schema) Encode(typeName string, v *Object) (*cell.Cell, error) {
	b := &builder{}
	if err := s.encode(b, Type{K: Named, Name: typeName}, v); err != nil {
		return nil, err
	}
	return b.cell()
}

func (s *Schema) encodeFields(b *builder, fs []Field, vals []any) error {
	if len(fs) != len(vals) {
		return fmt.Errorf("field count mismatch")
	}
	for i, f := range fs {
		if err := s.encode(b, f.Type, vals[i]); err != nil {
			return fmt.Errorf("%s: %w", f.Name, err)
		}
	}
	return nil
}

func (s *Schema) encode(b *builder, t Type, v any) error {
	switch t.K {
	case Uint, NatW:
		return b.uint(v.(*big.Int), t.N)
	case Nat:
		return b.uint(v.(*big.Int), 32)
	case Int:
		return b.int(v.(*big.Int), t.N)
	case Bits:
		raw := v.([]byte)
		if len(raw)*8 != t.N {
			return fmt.Errorf("bits%d given %d bytes", t.N, len(raw))
		}
		b.bits = append(b.bits, cell.BytesBits(raw)...)
	case Bool:
		b.bits = append(b.bits, v.(bool))
	case Coins:
		return b.varUint(v.(*big.Int), 16)
	case VarUInt:
		return b.varUint(v.(*big.Int), t.N)
	case Addr:
		a := v.(*Address)
		if a == nil {
			b.bits = append(b.bits, false, false)
			return nil
		}
		b.bits = append(b.bits, true, false, false) // addr_std$10, anycast: nothing$0
		if err := b.int(big.NewInt(int64(a.Workchain)), 8); err != nil {
			return err
		}
		b.bits = append(b.bits, cell.BytesBits(a.Addr[:])...)
	case Cell:
		c := v.(*CellV)
		b.bits = append(b.bits, c.Bits...)
		for _, r := range c.Refs {
			b.refs = append(b.refs, r.ToCell())
		}
	case Ref:
		nb := &builder{}
		if err := s.encode(nb, *t.A, v); err != nil {
			return err
		}
		c, err := nb.cell()
		if err != nil {
			return err
		}
		b.refs = append(b.refs, c)
	case Maybe:
		m := v.(*MaybeV)
		b.bits = append(b.bits, m.Present)
		if m.Present {
			return s.encode(b, *t.A, m.V)
		}
	case Either:
		e := v.(*EitherV)
		b.bits = append(b.bits, e.Right)
		if e.Right {
			return s.encode(b, *t.B, e.V)
		}
		return s.encode(b, *t.A, e.V)
	case HashmapE, Hashmap:
		es := v.([]Entry)
		if t.K == HashmapE {
			if len(es) == 0 {
				b.bits = append(b.bits, false)
				return nil
			}
			b.bits = append(b.bits, true)
		} else if len(es) == 0 {
			return fmt.Errorf("Hashmap cannot be empty")
		}
		type kv struct {
			key []bool
			v   any
		}
		items := make([]kv, len(es))
		for i, e := range es {
			kb := &builder{}
			if err := kb.uint(e.Key, t.N); err != nil {
				return err
			}
			items[i] = kv{kb.bits, e.V}
		}
		// edge writes hm_edge (label, then value or two references) into nb
		var edge func(nb *builder, items []kv, m int) error
		edge = func(nb *builder, items []kv, m int) error {
			// longest common prefix of the remaining key bits
			l := len(items[0].key)
			for _, it := range items[1:] {
				k := 0
				for k < l && it.key[k] == items[0].key[k] {
					k++
				}
				l = k
			}
			nb.bits = append(nb.bits, hmLabel(items[0].key[:l], m)...)
			if len(items) == 1 {
				if l != m {
					return fmt.Errorf("dictionary: single key with unread bits")
				}
				return s.encode(nb, *t.A, items[0].v)
			}
			var left, right []kv
			for _, it := range items {
				rest := kv{it.key[l+1:], it.v}
				if it.key[l] {
					right = append(right, rest)
				} else {
					left = append(left, rest)
				}
			}
			if len(left) == 0 || len(right) == 0 {
				return fmt.Errorf("dictionary: duplicate keys")
			}
			for _, side := range [][]kv{left, right} {
				cb := &builder{}
				if err := edge(cb, side, m-l-1); err != nil {
					return err
				}
				c, err := cb.cell()
				if err != nil {
					return err
				}
				nb.refs = append(nb.refs, c)
			}
			return nil
		}
		if t.K == Hashmap {
			return edge(b, items, t.N) // the root edge sits in-line
		}
		rb := &builder{}
		if err := edge(rb, items, t.N); err != nil {
			return err
		}
		root, err := rb.cell()
		if err != nil {
			return err
		}
		b.refs = append(b.refs, root)
	case Anon:
		return s.encodeFields(b, t.Fields, v.(*Object).Fields)
	case Named:
		o := v.(*Object)
		c := s.Constructor(t.Name, o.Ctor)
		if c == nil {
			return fmt.Errorf("no constructor %s of %s", o.Ctor, t.Name)
		}
		tb, err := tagBits(c.Tag)
		if err != nil {
			return err
		}
		b.bits = append(b.bits, tb...)
		return s.encodeFields(b, c.Fields, o.Fields)
	default:
		return fmt.Errorf("unknown kind %q", t.K)
	}
	return nil
}

// hmLabel encodes HmLabel ~n m for label (n = len(label) <= m) with the
// constructor chosen by the TON node (append_dict_label in crypto/vm/dict.cpp).
func hmLabel(label []bool, m int) []bool {
	n := len(label)
	k := bitLen(m) // bits of (#<= m)
	same := n > 0
	for _, x := range label {
		same = same && x == label[0]
	}
	nb := &builder{}
	switch {
	case same && n > 1 && k < 2*n-1: // hml_same$11 v:Bit n:(#<= m)
		nb.bits = append(nb.bits, true, true, label[0])
		nb.uint(big.NewInt(int64(n)), k)
	case k < n: // hml_long$10 n:(#<= m) s:(n * Bit)
		nb.bits = append(nb.bits, true, false)
		nb.uint(big.NewInt(int64(n)), k)
		nb.bits = append(nb.bits, label...)
	default: // hml_short$0 len:(Unary ~n) s:(n * Bit)
		nb.bits = append(nb.bits, false)
		for i := 0; i < n; i++ {
			nb.bits = append(nb.bits, true)
		}
		nb.bits = append(nb.bits, false)
		nb.bits = append(nb.bits, label...)
	}
	return nb.bits
}

// ---- size bounds (so that generated schemas always fit a cell) ----

type Size struct{ Bits, Refs int }

func (s *Schema) MaxSize(t Type, memo map[string]Size) Size {
	switch t.K {
	case Uint, Int, Bits, NatW:
		return Size{t.N, 0}
	case Nat:
		return Size{32, 0}
	case Bool:
		return Size{1, 0}
	case Coins:
		return Size{4 + 64, 0} // values are kept below 2^63
	case VarUInt:
		return Size{bitLen(t.N-1) + 8*(t.N-1), 0}
	case Addr:
		return Size{267, 0}
	case Cell:
		return Size{MaxInlineCellBits, 1}
	case Ref:
		return Size{0, 1}
	case Maybe:
		a := s.MaxSize(*t.A, memo)
		return Size{1 + a.Bits, a.Refs}
	case Either:
		a, b := s.MaxSize(*t.A, memo), s.MaxSize(*t.B, memo)
		if b.Bits > a.Bits {
			a.Bits = b.Bits
		}
		if b.Refs > a.Refs {
			a.Refs = b.Refs
		}
		return Size{1 + a.Bits, a.Refs}
	case HashmapE:
		return Size{1, 1}
	case Hashmap:
		a := s.MaxSize(*t.A, memo)
		if a.Refs < 2 {
			a.Refs = 2
		}
		return Size{2 + bitLen(t.N) + t.N + a.Bits, a.Refs}
	case Anon:
		var z Size
		for _, f := range t.Fields {
			x := s.MaxSize(f.Type, memo)
			z.Bits += x.Bits
			z.Refs += x.Refs
		}
		return z
	case Named:
		if v, ok := memo[t.Name]; ok {
			return v
		}
		var z Size
		for _, c := range s.Constructors(t.Name) {
			tb, _ := tagBits(c.Tag)
			x := Size{len(tb), 0}
			for _, f := range c.Fields {
				y := s.MaxSize(f.Type, memo)
				x.Bits += y.Bits
				x.Refs += y.Refs
			}
			if x.Bits > z.Bits {
				z.Bits = x.Bits
			}
			if x.Refs > z.Refs {
				z.Refs = x.Refs
			}
		}
		memo[t.Name] = z
		return z
	}
	return Size{}
}

const MaxInlineCellBits = 96

// ---- random values ----

type Rand interface {
	Intn(n int) int
	Uint64() uint64
	Bytes(n int) []byte
}

func randBig(r Rand, bits int) *big.Int {
	if bits <= 0 {
		return new(big.Int)
	}
	switch r.Intn(6) {
	case 0:
		return new(big.Int)
	case 1:
		return new(big.Int).Sub(new(big.Int).Lsh(big.NewInt(1), uint(bits)), big.NewInt(1))
	case 2:
		return big.NewInt(1)
	}
	raw := r.Bytes((bits + 7) / 8)
	v := new(big.Int).SetBytes(raw)
	return v.And(v, new(big.Int).Sub(new(big.Int).Lsh(big.NewInt(1), uint(bits)), big.NewInt(1)))
}

func randCell(r Rand, depth int) *CellV {
	c := &CellV{}
	n := r.Intn(MaxInlineCellBits + 1)
	if r.Intn(4) == 0 {
		n = []int{0, 1, 7, 8, 9, MaxInlineCellBits}[r.Intn(6)]
	}
	raw := r.Bytes((n + 7) / 8)
	for i := 0; i < n; i++ {
		c.Bits = append(c.Bits, raw[i/8]>>(7-uint(i%8))&1 == 1)
	}
	if depth < 2 && r.Intn(3) == 0 {
		c.Refs = append(c.Refs, randCell(r, depth+1))
	}
	return c
}

// Random draws a value of type t.
func (s *Schema) Random(r Rand, t Type) any {
	switch t.K {
	case Uint, NatW:
		return randBig(r, t.N)
	case Nat:
		return randBig(r, 32)
	case Int:
		v := randBig(r, t.N)
		if v.Bit(t.N-1) == 1 { // reinterpret as two's complement
			v.Sub(v, new(big.Int).Lsh(big.NewInt(1), uint(t.N)))
		}
		return v
	case Bits:
		return r.Bytes(t.N / 8)
	case Bool:
		return r.Intn(2) == 1
	case Coins:
		return randBig(r, 63)
	case VarUInt:
		return randBig(r, 8*r.Intn(t.N))
	case Addr:
		if r.Intn(3) == 0 && t.Alias != "MsgAddressInt" {
			return (*Address)(nil)
		}
		a := &Address{Workchain: int8(r.Intn(256))}
		copy(a.Addr[:], r.Bytes(32))
		return a
	case Cell:
		return randCell(r, 0)
	case Ref:
		return s.Random(r, *t.A)
	case Maybe:
		if r.Intn(2) == 0 {
			return &MaybeV{}
		}
		return &MaybeV{Present: true, V: s.Random(r, *t.A)}
	case Either:
		if r.Intn(2) == 0 {
			return &EitherV{V: s.Random(r, *t.A)}
		}
		return &EitherV{Right: true, V: s.Random(r, *t.B)}
	case HashmapE, Hashmap:
		n := r.Intn(5)
		if t.K == Hashmap {
			n = 1 + r.Intn(4)
		}
		seen := map[string]bool{}
		var es []Entry
		for i := 0; i < n; i++ {
			k := randBig(r, t.N)
			if r.Intn(2) == 0 && len(es) > 0 { // share a long prefix with an earlier key
				k = new(big.Int).Xor(es[0].Key, big.NewInt(int64(1+r.Intn(3))))
				if k.BitLen() > t.N {
					continue
				}
			}
			if seen[k.String()] {
				continue
			}
			seen[k.String()] = true
			es = append(es, Entry{Key: k, V: s.Random(r, *t.A)})
		}
		sort.Slice(es, func(i, j int) bool { return es[i].Key.Cmp(es[j].Key) < 0 })
		if len(es) == 0 && t.K == Hashmap {
			es = []Entry{{Key: randBig(r, t.N), V: s.Random(r, *t.A)}}
		}
		if es == nil {
			es = []Entry{}
		}
		return es
	case Anon:
		o := &Object{Fields: make([]any, len(t.Fields))}
		for i, f := range t.Fields {
			o.Fields[i] = s.Random(r, f.Type)
		}
		return o
	case Named:
		cs := s.Constructors(t.Name)
		return s.RandomCtor(r, cs[r.Intn(len(cs))])
	}
	panic("tlbs: unknown kind " + string(t.K))
}

func (s *Schema) RandomCtor(r Rand, c *Constructor) *Object {
	o := &Object{Ctor: c.Name, Fields: make([]any, len(c.Fields))}
	for i, f := range c.Fields {
		o.Fields[i] = s.Random(r, f.Type)
	}
	return o
}

// ---- JSON form of values (schema-directed) ----

func cellJSON(c *CellV) any {
	var sb strings.Builder
	for _, b := range c.Bits {
		if b {
			sb.WriteByte('1')
		} else {
			sb.WriteByte('0')
		}
	}
	refs := []any{}
	for _, r := range c.Refs {
		refs = append(refs, cellJSON(r))
	}
	return map[string]any{"bits": sb.String(), "refs": refs}
}

func cellFromJSON(j any) (*CellV, error) {
	m, ok := j.(map[string]any)
	if !ok {
		return nil, fmt.Errorf("cell: bad JSON")
	}
	c := &CellV{}
	bs, _ := m["bits"].(string)
	for _, ch := range bs {
		c.Bits = append(c.Bits, ch == '1')
	}
	rs, _ := m["refs"].([]any)
	for _, r := range rs {
		x, err := cellFromJSON(r)
		if err != nil {
			return nil, err
		}
		c.Refs = append(c.Refs, x)
	}
	return c, nil
}

func scalarJSON(t Type, v any) any {
	switch t.K {
	case Uint, NatW, Nat, Int, Coins, VarUInt:
		return v.(*big.Int).String()
	case Bits:
		return hex.EncodeToString(v.([]byte))
	case Bool:
		return v.(bool)
	case Addr:
		a := v.(*Address)
		if a == nil {
			return nil
		}
		return map[string]any{"wc": int(a.Workchain), "addr": hex.EncodeToString(a.Addr[:])}
	case Cell:
		return cellJSON(v.(*CellV))
	}
	panic("tlbs: no JSON form for kind " + string(t.K))
}

// ToJSON renders a value of type t (see FromJSON for the inverse).
func (s *Schema) ToJSON(t Type, v any) any {
	switch t.K {
	case Named:
		o := v.(*Object)
		c := s.Constructor(t.Name, o.Ctor)
		fs := make([]any, len(o.Fields))
		for i, f := range c.Fields {
			fs[i] = s.ToJSON(f.Type, o.Fields[i])
		}
		return map[string]any{"c": o.Ctor, "f": fs}
	case Ref:
		return s.ToJSON(*t.A, v)
	case Maybe:
		m := v.(*MaybeV)
		if !m.Present {
			return map[string]any{"present": false}
		}
		return map[string]any{"present": true, "v": s.ToJSON(*t.A, m.V)}
	case Either:
		e := v.(*EitherV)
		if e.Right {
			return map[string]any{"right": true, "v": s.ToJSON(*t.B, e.V)}
		}
		return map[string]any{"right": false, "v": s.ToJSON(*t.A, e.V)}
	case HashmapE, Hashmap:
		out := []any{}
		for _, e := range v.([]Entry) {
			out = append(out, map[string]any{"k": e.Key.String(), "v": s.ToJSON(*t.A, e.V)})
		}
		return out
	case Anon:
		o := v.(*Object)
		fs := make([]any, len(o.Fields))
		for i, f := range t.Fields {
			fs[i] = s.ToJSON(f.Type, o.Fields[i])
		}
		return map[string]any{"f": fs}
	}
	return scalarJSON(t, v)
}

func (s *Schema) FromJSON(t Type, j any) (any, error) {
	bad := func() (any, error) { return nil, fmt.Errorf("JSON %T does not fit %s", j, t) }
	switch t.K {
	case Uint, NatW, Nat, Int, Coins, VarUInt:
		str, ok := j.(string)
		v, ok2 := new(big.Int).SetString(str, 10)
		if !ok || !ok2 {
			return bad()
		}
		return v, nil
	case Bits:
		str, _ := j.(string)
		b, err := hex.DecodeString(str)
		if err != nil {
			return bad()
		}
		return b, nil
	case Bool:
		b, ok := j.(bool)
		if !ok {
			return bad()
		}
		return b, nil
	case Addr:
		if j == nil {
			return (*Address)(nil), nil
		}
		m, ok := j.(map[string]any)
		if !ok {
			return bad()
		}
		wc, _ := m["wc"].(float64)
		a := &Address{Workchain: int8(wc)}
		str, _ := m["addr"].(string)
		b, _ := hex.DecodeString(str)
		copy(a.Addr[:], b)
		return a, nil
	case Cell:
		return cellFromJSON(j)
	case Ref:
		return s.FromJSON(*t.A, j)
	case Maybe:
		m, ok := j.(map[string]any)
		if !ok {
			return bad()
		}
		if p, _ := m["present"].(bool); !p {
			return &MaybeV{}, nil
		}
		v, err := s.FromJSON(*t.A, m["v"])
		return &MaybeV{Present: true, V: v}, err
	case Either:
		m, ok := j.(map[string]any)
		if !ok {
			return bad()
		}
		if r, _ := m["right"].(bool); r {
			v, err := s.FromJSON(*t.B, m["v"])
			return &EitherV{Right: true, V: v}, err
		}
		v, err := s.FromJSON(*t.A, m["v"])
		return &EitherV{V: v}, err
	case HashmapE, Hashmap:
		arr, ok := j.([]any)
		if !ok {
			return bad()
		}
		es := []Entry{}
		for _, x := range arr {
			m, ok := x.(map[string]any)
			if !ok {
				return bad()
			}
			ks, _ := m["k"].(string)
			k, ok := new(big.Int).SetString(ks, 10)
			if !ok {
				return bad()
			}
			v, err := s.FromJSON(*t.A, m["v"])
			if err != nil {
				return nil, err
			}
			es = append(es, Entry{Key: k, V: v})
		}
		return es, nil
	case Anon, Named:
		m, ok := j.(map[string]any)
		if !ok {
			return bad()
		}
		fs, _ := m["f"].([]any)
		fields := t.Fields
		o := &Object{}
		if t.K == Named {
			o.Ctor, _ = m["c"].(string)
			c := s.Constructor(t.Name, o.Ctor)
			if c == nil {
				return bad()
			}
			fields = c.Fields
		}
		if len(fs) != len(fields) {
			return bad()
		}
		o.Fields = make([]any, len(fs))
		for i, f := range fields {
			v, err := s.FromJSON(f.Type, fs[i])
			if err != nil {
				return nil, err
			}
			o.Fields[i] = v
		}
		return o, nil
	}
	return bad()
}

// ---- matching a foreign cell against a value, modulo dictionary label forms ----
//
// The declaration `HashmapE n X` does not prescribe which HmLabel constructor
// an edge uses (hml_short / hml_long / hml_same are all valid; only the TON
// node's canonical form is unique). Match therefore walks the expected value
// and a cell produced by somebody else in parallel: everything outside
// dictionaries must be bit- and reference-exact, a dictionary must be a
// well-formed Hashmap n X with exactly the expected keys, in any label form,
// and every leaf must hold exactly the expected value.

type slice struct {
	bits []bool
	refs []*cell.Cell
	bi   int
	ri   int
}

func newSlice(c *cell.Cell) *slice { return &slice{bits: c.Bits, refs: c.Refs} }

func (s *slice) take(n int) ([]bool, error) {
	if s.bi+n > len(s.bits) {
		return nil, fmt.Errorf("cell has %d bits left, need %d", len(s.bits)-s.bi, n)
	}
	out := s.bits[s.bi : s.bi+n]
	s.bi += n
	return out, nil
}

func (s *slice) ref() (*cell.Cell, error) {
	if s.ri >= len(s.refs) {
		return nil, fmt.Errorf("cell has no reference left")
	}
	s.ri++
	return s.refs[s.ri-1], nil
}

func (s *slice) done() error {
	if s.bi != len(s.bits) || s.ri != len(s.refs) {
		return fmt.Errorf("%d bits and %d references left over", len(s.bits)-s.bi, len(s.refs)-s.ri)
	}
	return nil
}

func (s *Schema) hasDict(t Type, seen map[string]bool) bool {
	switch t.K {
	case HashmapE, Hashmap:
		return true
	case Ref, Maybe:
		return s.hasDict(*t.A, seen)
	case Either:
		return s.hasDict(*t.A, seen) || s.hasDict(*t.B, seen)
	case Anon:
		for _, f := range t.Fields {
			if s.hasDict(f.Type, seen) {
				return true
			}
		}
	case Named:
		if seen[t.Name] {
			return false
		}
		seen[t.Name] = true
		for _, c := range s.Constructors(t.Name) {
			for _, f := range c.Fields {
				if s.hasDict(f.Type, seen) {
					return true
				}
			}
		}
	}
	return false
}

// Match reports whether got is an encoding of v; relaxed says that it is one
// only because a dictionary uses a non-canonical label form.
func (s *Schema) Match(typeName string, v *Object, got *cell.Cell) (relaxed bool, err error) {
	want, err := s.Encode(typeName, v)
	if err != nil {
		return false, err
	}
	if want.Hash() == got.Hash() {
		return false, nil
	}
	sl := newSlice(got)
	if err := s.match(Type{K: Named, Name: typeName}, v, sl); err != nil {
		return false, err
	}
	return true, sl.done()
}

func bitsEqual(a, b []bool) bool {
	if len(a) != len(b) {
		return false
	}
	for i := range a {
		if a[i] != b[i] {
			return false
		}
	}
	return true
}

func (s *Schema) matchFields(fs []Field, vals []any, sl *slice) error {
	for i, f := range fs {
		if err := s.match(f.Type, vals[i], sl); err != nil {
			return fmt.Errorf("%s: %w", f.Name, err)
		}
	}
	return nil
}

func (s *Schema) match(t Type, v any, sl *slice) error {
	if !s.hasDict(t, map[string]bool{}) {
		b := &builder{}
		if err := s.encode(b, t, v); err != nil {
			return err
		}
		got, err := sl.take(len(b.bits))
		if err != nil {
			return err
		}
		if !bitsEqual(got, b.bits) {
			return fmt.Errorf("bits differ: got %s want %s", bitStr(got), bitStr(b.bits))
		}
		for _, r := range b.refs {
			g, err := sl.ref()
			if err != nil {
				return err
			}
			if g.Hash() != r.Hash() {
				return fmt.Errorf("referenced cell differs")
			}
		}
		return nil
	}
	switch t.K {
	case Ref:
		r, err := sl.ref()
		if err != nil {
			return err
		}
		in := newSlice(r)
		if err := s.match(*t.A, v, in); err != nil {
			return err
		}
		return in.done()
	case Maybe:
		m := v.(*MaybeV)
		b, err := sl.take(1)
		if err != nil {
			return err
		}
		if b[0] != m.Present {
			return fmt.Errorf("Maybe bit is %v", b[0])
		}
		if m.Present {
			return s.match(*t.A, m.V, sl)
		}
		return nil
	case Either:
		e := v.(*EitherV)
		b, err := sl.take(1)
		if err != nil {
			return err
		}
		if b[0] != e.Right {
			return fmt.Errorf("Either bit is %v", b[0])
		}
		if e.Right {
			return s.match(*t.B, e.V, sl)
		}
		return s.match(*t.A, e.V, sl)
	case Anon:
		return s.matchFields(t.Fields, v.(*Object).Fields, sl)
	case Named:
		o := v.(*Object)
		c := s.Constructor(t.Name, o.Ctor)
		tb, _ := tagBits(c.Tag)
		got, err := sl.take(len(tb))
		if err != nil {
			return err
		}
		if !bitsEqual(got, tb) {
			return fmt.Errorf("constructor tag: got %s want %s", bitStr(got), bitStr(tb))
		}
		return s.matchFields(c.Fields, o.Fields, sl)
	case HashmapE, Hashmap:
		es := v.([]Entry)
		if t.K == HashmapE {
			b, err := sl.take(1)
			if err != nil {
				return err
			}
			if b[0] != (len(es) > 0) {
				return fmt.Errorf("HashmapE bit is %v for %d entries", b[0], len(es))
			}
			if len(es) == 0 {
				return nil
			}
		}
		i := 0
		// walk reads one hm_edge from in; whole says that the edge must use up its cell
		var walk func(in *slice, whole bool, prefix []bool, m int) error
		walk = func(in *slice, whole bool, prefix []bool, m int) error {
			label, err := readLabel(in, m)
			if err != nil {
				return err
			}
			key := append(append([]bool{}, prefix...), label...)
			if len(label) == m { // leaf
				if i >= len(es) {
					return fmt.Errorf("dictionary has more than %d keys", len(es))
				}
				kb := &builder{}
				kb.uint(es[i].Key, t.N)
				if !bitsEqual(kb.bits, key) {
					return fmt.Errorf("dictionary key %d is %s, want %s", i, bitStr(key), bitStr(kb.bits))
				}
				if err := s.match(*t.A, es[i].V, in); err != nil {
					return fmt.Errorf("value of key %d: %w", i, err)
				}
				i++
				if whole {
					return in.done()
				}
				return nil
			}
			if whole && (in.bi != len(in.bits) || len(in.refs) != 2) {
				return fmt.Errorf("fork node with %d extra bits and %d references", len(in.bits)-in.bi, len(in.refs))
			}
			for side := 0; side < 2; side++ {
				c, err := in.ref()
				if err != nil {
					return fmt.Errorf("fork node: %w", err)
				}
				k2 := append(append([]bool{}, key...), side == 1)
				if err := walk(newSlice(c), true, k2, m-len(label)-1); err != nil {
					return err
				}
			}
			return nil
		}
		if t.K == Hashmap {
			if err := walk(sl, false, nil, t.N); err != nil {
				return err
			}
		} else {
			root, err := sl.ref()
			if err != nil {
				return err
			}
			if err := walk(newSlice(root), true, nil, t.N); err != nil {
				return err
			}
		}
		if i != len(es) {
			return fmt.Errorf("dictionary has %d keys, want %d", i, len(es))
		}
		return nil
	}
	return fmt.Errorf("match: unexpected kind %s", t.K)
}

// readLabel reads HmLabel ~n m in any of its three forms.
func readLabel(in *slice, m int) ([]bool, error) {
	b, err := in.take(1)
	if err != nil {
		return nil, err
	}
	k := bitLen(m)
	num := func(bits []bool) int {
		v := 0
		for _, x := range bits {
			v <<= 1
			if x {
				v |= 1
			}
		}
		return v
	}
	if !b[0] { // hml_short$0 len:(Unary ~n) s:(n * Bit)
		n := 0
		for {
			u, err := in.take(1)
			if err != nil {
				return nil, err
			}
			if !u[0] {
				break
			}
			n++
		}
		if n > m {
			return nil, fmt.Errorf("label longer than the remaining key")
		}
		return in.take(n)
	}
	b2, err := in.take(1)
	if err != nil {
		return nil, err
	}
	if !b2[0] { // hml_long$10 n:(#<= m) s:(n * Bit)
		nb, err := in.take(k)
		if err != nil {
			return nil, err
		}
		if num(nb) > m {
			return nil, fmt.Errorf("label longer than the remaining key")
		}
		return in.take(num(nb))
	}
	// hml_same$11 v:Bit n:(#<= m)
	vb, err := in.take(1)
	if err != nil {
		return nil, err
	}
	nb, err := in.take(k)
	if err != nil {
		return nil, err
	}
	if num(nb) > m {
		return nil, fmt.Errorf("label longer than the remaining key")
	}
	out := make([]bool, num(nb))
	for i := range out {
		out[i] = vb[0]
	}
	return out, nil
}

func bitStr(b []bool) string {
	var sb strings.Builder
	for i, x := range b {
		if i >= 80 {
			fmt.Fprintf(&sb, "...(%d bits)", len(b))
			break
		}
		if x {
			sb.WriteByte('1')
		} else {
			sb.WriteByte('0')
		}
	}
	return sb.String()
}
