package tlbs

import (
	"fmt"
	"strings"
)

var (
	typeWords = []string{"Swap", "PayTo", "Params", "Order", "Asset", "Step", "Body", "Info", "Wallet", "Item", "Action", "Config"}
	ctorWords = []string{"swap", "pay_to", "params", "order", "native", "jetton", "step_params", "body", "info", "ok", "transfer", "notify"}
	fldWords  = []string{"query_id", "amount", "owner", "dest", "payload", "flags", "kind", "limit", "next", "min_out", "ref_fee", "addr", "state", "hash"}
)

type sgen struct {
	r     Rand
	s     *Schema
	memo  map[string]Size
	names []string // declared type names (usable as references)
	n     int
}

func (g *sgen) pick(xs []int) int { return xs[g.r.Intn(len(xs))] }

func (g *sgen) uintN() int {
	switch g.r.Intn(5) {
	case 0:
		return g.pick([]int{8, 16, 32, 64})
	case 1:
		return g.pick([]int{128, 256})
	case 2:
		return g.pick([]int{1, 2, 3, 4, 7, 9, 15, 17, 31, 33, 63})
	}
	return 1 + g.r.Intn(64)
}

func (g *sgen) named() (Type, bool) {
	if len(g.names) == 0 {
		return Type{}, false
	}
	return Type{K: Named, Name: g.names[g.r.Intn(len(g.names))]}, true
}

// simple: a type that sits in-line and needs no reference of its own.
func (g *sgen) simple() Type {
	switch g.r.Intn(12) {
	case 0, 1:
		return Type{K: Uint, N: g.uintN()}
	case 2:
		n := g.uintN()
		if g.r.Intn(6) == 0 {
			n = 257
		}
		return Type{K: Int, N: n}
	case 3:
		return Type{K: Bits, N: g.pick([]int{80, 96, 128, 256, 264, 320, 352, 512})}
	case 4:
		return Type{K: NatW, N: g.uintN()}
	case 5:
		return Type{K: Nat}
	case 6:
		return Type{K: Bool}
	case 7:
		if g.r.Intn(4) == 0 {
			return Type{K: Coins, Alias: "Grams"}
		}
		return Type{K: Coins}
	case 8:
		if g.r.Intn(4) == 0 {
			return Type{K: Addr, Alias: "MsgAddressInt"}
		}
		return Type{K: Addr}
	case 9:
		n := 2 + g.r.Intn(31)
		if g.r.Intn(3) == 0 {
			n = g.pick([]int{16, 32, 3, 7})
		}
		return Type{K: VarUInt, N: n}
	}
	if t, ok := g.named(); ok {
		return t
	}
	return Type{K: Uint, N: g.uintN()}
}

func ptr(t Type) *Type { return &t }

func (g *sgen) anon(depth int) Type {
	n := 1 + g.r.Intn(5)
	t := Type{K: Anon}
	var used Size
	for i := 0; i < n; i++ {
		ft := g.fieldType(depth + 1)
		sz := g.s.MaxSize(ft, g.memo)
		if used.Bits+sz.Bits > 1000 || used.Refs+sz.Refs > 4 {
			continue
		}
		used.Bits += sz.Bits
		used.Refs += sz.Refs
		t.Fields = append(t.Fields, Field{Name: fmt.Sprintf("%s_%d", fldWords[g.r.Intn(len(fldWords))], i), Type: ft})
	}
	if len(t.Fields) == 0 {
		t.Fields = []Field{{Name: "x_0", Type: Type{K: Uint, N: 8}}}
	}
	return t
}

func (g *sgen) refTarget(depth int) Type {
	switch g.r.Intn(6) {
	case 0:
		return Type{K: Cell}
	case 1:
		return Type{K: Bits, N: g.pick([]int{256, 512})}
	case 2:
		if depth < 2 {
			return g.anon(depth)
		}
	case 3:
		return Type{K: Uint, N: g.uintN()}
	}
	if t, ok := g.named(); ok {
		return t
	}
	return Type{K: Cell}
}

func (g *sgen) fieldType(depth int) Type {
	switch g.r.Intn(14) {
	case 0, 1, 2, 3, 4, 5:
		return g.simple()
	case 6:
		return Type{K: Ref, A: ptr(g.refTarget(depth))}
	case 7: // (Maybe T)
		var a Type
		switch g.r.Intn(7) {
		case 0:
			a = Type{K: Coins}
		case 1:
			a = Type{K: Addr}
		case 2:
			a = Type{K: Uint, N: g.pick([]int{8, 16, 32, 64, 5, 12})}
		case 3:
			a = Type{K: NatW, N: g.pick([]int{256, 12, 32})}
		case 4, 5: // (Maybe (Either T ^T)), as in wallets.xml
			x := Type{K: Cell}
			if t, ok := g.named(); ok && g.r.Intn(3) > 0 {
				x = t
			}
			a = Type{K: Either, A: &x, B: ptr(Type{K: Ref, A: ptr(x)})}
		default:
			if t, ok := g.named(); ok {
				a = t
			} else {
				a = Type{K: Bool}
			}
		}
		return Type{K: Maybe, A: &a}
	case 8: // (Maybe ^T)
		a := Type{K: Cell}
		if t, ok := g.named(); ok && g.r.Intn(2) == 0 {
			a = t
		}
		if g.r.Intn(5) == 0 { // a built-in type behind the reference, e.g. (Maybe ^MsgAddress)
			a = []Type{{K: Addr}, {K: Coins}, {K: Uint, N: g.uintN()}, {K: Bits, N: 256}}[g.r.Intn(4)]
		}
		return Type{K: Maybe, A: ptr(Type{K: Ref, A: &a})}
	case 9: // (Either T ^T)
		a := Type{K: Cell}
		if t, ok := g.named(); ok && g.r.Intn(2) == 0 {
			a = t
		}
		return Type{K: Either, A: &a, B: ptr(Type{K: Ref, A: ptr(a)})}
	case 10: // (Either A B), both in-line
		a, b := g.simple(), g.simple()
		if a.String() == b.String() {
			b = Type{K: Bool}
			if a.K == Bool {
				b = Type{K: Nat}
			}
		}
		return Type{K: Either, A: &a, B: &b}
	case 11, 12: // (HashmapE n T)
		n := g.pick([]int{8, 16, 32, 64, 256, 256, 96, 128})
		if g.r.Intn(4) == 0 {
			n = 1 + g.r.Intn(64)
		}
		var a Type
		switch g.r.Intn(6) {
		case 0:
			a = Type{K: Uint, N: g.uintN()}
		case 1:
			a = Type{K: Coins}
		case 2:
			a = Type{K: Addr}
		case 5: // the rest of the leaf is the value: (HashmapE 32 Cell), (Hashmap 256 Cell)
			a = Type{K: Cell}
		case 3:
			if t, ok := g.named(); ok {
				a = Type{K: Ref, A: &t}
			} else {
				a = Type{K: Ref, A: ptr(Type{K: Cell})}
			}
		default:
			if t, ok := g.named(); ok {
				a = t
			} else {
				a = Type{K: Bool}
			}
		}
		if sz := g.s.MaxSize(a, g.memo); sz.Bits > 700 {
			a = Type{K: Uint, N: 32}
		}
		if g.r.Intn(4) == 0 { // (Hashmap n T): never empty, the root edge is in-line
			if sz := g.s.MaxSize(a, g.memo); sz.Bits > 300 || n > 256 {
				a = Type{K: Uint, N: 32}
			}
			return Type{K: Hashmap, N: n, A: &a}
		}
		return Type{K: HashmapE, N: n, A: &a}
	default: // Cell in-line
		return Type{K: Cell}
	}
}

func (g *sgen) ctorFields(tagLen int) []Field {
	n := g.r.Intn(7)
	if g.r.Intn(3) == 0 {
		n = 1 + g.r.Intn(3)
	}
	used := Size{Bits: tagLen}
	var out []Field
	names := map[string]bool{}
	for i := 0; i < n; i++ {
		ft := g.fieldType(0)
		sz := g.s.MaxSize(ft, g.memo)
		if used.Bits+sz.Bits > 1000 || used.Refs+sz.Refs > 4 {
			continue
		}
		used.Bits += sz.Bits
		used.Refs += sz.Refs
		name := fldWords[g.r.Intn(len(fldWords))]
		for names[name] {
			name = fmt.Sprintf("%s_%d", fldWords[g.r.Intn(len(fldWords))], g.r.Intn(90))
		}
		names[name] = true
		switch {
		case ft.K == Ref && g.r.Intn(4) == 0:
			name = "" // a bare ^T field
		case g.r.Intn(14) == 0:
			name = "_"
		}
		out = append(out, Field{Name: name, Type: ft})
	}
	return out
}

func (g *sgen) hexTag(digits int) string {
	const hx = "0123456789abcdef"
	var sb strings.Builder
	sb.WriteByte('#')
	for i := 0; i < digits; i++ {
		sb.WriteByte(hx[g.r.Intn(16)])
	}
	return sb.String()
}

// RandomSchema draws 1..maxTypes type declarations; later types may use
// earlier ones. Every constructor fits one cell for every value Random draws.
func RandomSchema(r Rand, maxTypes int) *Schema {
	g := &sgen{r: r, s: &Schema{}, memo: map[string]Size{}}
	nt := 1 + r.Intn(maxTypes)
	for t := 0; t < nt; t++ {
		g.n++
		tn := fmt.Sprintf("%s%d", typeWords[r.Intn(len(typeWords))], g.n)
		k := 1
		if r.Intn(4) == 0 {
			k = 2 + r.Intn(4)
		}
		var tags []string
		if k == 1 {
			switch r.Intn(10) {
			case 0, 1, 2, 3:
				tags = []string{""}
			case 4:
				tags = []string{"#_"}
			case 5:
				tags = []string{"$_"}
			case 6, 7, 8:
				tags = []string{g.hexTag([]int{8, 8, 2, 1, 4, 6}[r.Intn(6)])}
			default:
				w := 1 + r.Intn(8)
				tags = []string{"$" + fmt.Sprintf("%0*b", w, r.Intn(1<<uint(w)))}
			}
		} else if r.Intn(2) == 0 {
			d := []int{8, 2, 1, 4}[r.Intn(4)]
			seen := map[string]bool{}
			for len(tags) < k {
				x := g.hexTag(d)
				if !seen[x] {
					seen[x] = true
					tags = append(tags, x)
				}
			}
		} else {
			w := 1
			for 1<<uint(w) < k {
				w++
			}
			w += r.Intn(2)
			perm := r.Intn(1 << uint(w))
			for i := 0; i < k; i++ {
				tags = append(tags, "$"+fmt.Sprintf("%0*b", w, (perm+i)%(1<<uint(w))))
			}
		}
		for i := 0; i < k; i++ {
			tb, _ := tagBits(tags[i])
			cn := fmt.Sprintf("%s%d", ctorWords[r.Intn(len(ctorWords))], g.n)
			if k > 1 {
				cn = fmt.Sprintf("%s%d_v%d", ctorWords[r.Intn(len(ctorWords))], g.n, i)
			}
			g.s.Decls = append(g.s.Decls, &Constructor{Name: cn, Tag: tags[i], Result: tn, Fields: g.ctorFields(len(tb))})
		}
		delete(g.memo, tn)
		g.names = append(g.names, tn)
	}
	return g.s
}
