package tl

import (
	"encoding/hex"
	"fmt"
	"strconv"
)

// Rand is the slice of mon.Rng the generator needs (kept as an interface so
// that this package depends on nothing).
type Rand interface {
	Intn(n int) int
	Uint64() uint64
	Bytes(n int) []byte
}

// GenOpts steers random value generation.
type GenOpts struct {
	// BytesLen picks the length of the next bytes/string value.
	BytesLen func(r Rand) int
	// VecLen picks the length of the next vector (depth = nesting of declared types).
	VecLen func(r Rand, depth int) int
	// Flags, when non-nil, fixes the value of the flag fields of the
	// *top-level* object: for every flag name the bits listed in FlagMask
	// are forced to the bits of Flags; other bits stay random.
	Flags    map[string]uint32
	FlagMask map[string]uint32
	// Ctor forces the constructor of the top-level boxed value ("" = random).
	Ctor string
}

// BoundaryLens are the byte-string lengths around the encoding's edges.
var BoundaryLens = []int{0, 1, 2, 3, 4, 253, 254, 255, 256, 1100}

func DefaultBytesLen(r Rand) int {
	switch r.Intn(4) {
	case 0:
		return BoundaryLens[r.Intn(len(BoundaryLens))]
	case 1:
		return r.Intn(1101)
	default:
		return r.Intn(40)
	}
}

func DefaultVecLen(r Rand, depth int) int {
	if depth > 1 {
		return r.Intn(3)
	}
	switch r.Intn(6) {
	case 0:
		return 0
	case 1:
		return 1
	case 2:
		return 5 + r.Intn(20)
	default:
		return r.Intn(5)
	}
}

func (o *GenOpts) bytesLen(r Rand) int {
	if o != nil && o.BytesLen != nil {
		return o.BytesLen(r)
	}
	return DefaultBytesLen(r)
}

func (o *GenOpts) vecLen(r Rand, d int) int {
	if o != nil && o.VecLen != nil {
		return o.VecLen(r, d)
	}
	return DefaultVecLen(r, d)
}

var edge32 = []uint32{0, 1, 0x7fffffff, 0x80000000, 0xffffffff, 0xff, 0x100, 0xfe, 0x01020304}
var edge64 = []uint64{0, 1, 0x7fffffffffffffff, 0x8000000000000000, 0xffffffffffffffff, 0x0102030405060708}

// Random draws a value of type t.
func (s *Schema) Random(r Rand, t Type, o *GenOpts) any { return s.random(r, t, o, 0, true) }

// RandomObject draws the fields of combinator c (constructor or function).
func (s *Schema) RandomObject(r Rand, c *Combinator, o *GenOpts) *Object {
	return s.randomObject(r, c, o, 0, true)
}

func (s *Schema) random(r Rand, t Type, o *GenOpts, depth int, top bool) any {
	switch t.Kind {
	case KInt, KNat:
		if r.Intn(4) == 0 {
			return edge32[r.Intn(len(edge32))]
		}
		return uint32(r.Uint64())
	case KLong:
		if r.Intn(4) == 0 {
			return edge64[r.Intn(len(edge64))]
		}
		return r.Uint64()
	case KInt256:
		var x [32]byte
		switch r.Intn(8) {
		case 0:
		case 1:
			for i := range x {
				x[i] = 0xff
			}
		default:
			copy(x[:], r.Bytes(32))
		}
		return x
	case KBytes:
		return r.Bytes(o.bytesLen(r))
	case KString:
		return string(r.Bytes(o.bytesLen(r)))
	case KBool:
		return r.Intn(2) == 1
	case KTrue:
		return True{}
	case KVector:
		n := o.vecLen(r, depth)
		out := make([]any, n)
		for i := range out {
			out[i] = s.random(r, *t.Elem, o, depth+1, false)
		}
		return out
	case KBare:
		return s.randomObject(r, s.byName[t.Name], o, depth+1, top)
	case KBoxed:
		cs := s.byType[t.Name]
		c := cs[r.Intn(len(cs))]
		if top && o != nil && o.Ctor != "" {
			for _, x := range cs {
				if x.Name == o.Ctor {
					c = x
				}
			}
		}
		return s.randomObject(r, c, o, depth+1, top)
	}
	panic("tl reference: unknown kind")
}

func (s *Schema) randomObject(r Rand, c *Combinator, o *GenOpts, depth int, top bool) *Object {
	obj := &Object{Ctor: c.Name, Fields: make([]any, len(c.Fields))}
	used := map[string]uint32{}
	for name, bits := range c.FlagBits() {
		for _, b := range bits {
			used[name] |= 1 << uint(b)
		}
	}
	for i, f := range c.Fields {
		if f.Cond {
			flag := obj.Fields[c.FieldIndex(f.CondField)].(uint32)
			if flag>>uint(f.CondBit)&1 == 0 {
				continue
			}
		}
		if f.Type.Kind == KNat {
			if mask, isFlag := used[f.Name]; isFlag {
				// a flag field: used bits uniformly random (or forced), the other bits mostly zero
				v := uint32(r.Uint64()) & mask
				if r.Intn(3) == 0 {
					v |= uint32(r.Uint64()) &^ mask
				}
				if top && o != nil && o.Flags != nil {
					if fv, ok := o.Flags[f.Name]; ok {
						fm := o.FlagMask[f.Name]
						v = v&^fm | fv&fm
					}
				}
				obj.Fields[i] = v
				continue
			}
		}
		obj.Fields[i] = s.random(r, f.Type, o, depth, false)
	}
	return obj
}

// ---- JSON form (schema-directed) ----
//
//	int, #   number          long    decimal string     int256, bytes, string   hex string
//	Bool     true/false      true    true               absent   null
//	vector   array           object  {"c": constructor, "f": [fields]}

func ToJSON(v any) any {
	switch x := v.(type) {
	case nil:
		return nil
	case uint32:
		return x
	case uint64:
		return strconv.FormatUint(x, 10)
	case [32]byte:
		return hex.EncodeToString(x[:])
	case []byte:
		return hex.EncodeToString(x)
	case string:
		return hex.EncodeToString([]byte(x))
	case bool:
		return x
	case True:
		return true
	case []any:
		out := make([]any, len(x))
		for i := range x {
			out[i] = ToJSON(x[i])
		}
		return out
	case *Object:
		fs := make([]any, len(x.Fields))
		for i := range x.Fields {
			fs[i] = ToJSON(x.Fields[i])
		}
		return map[string]any{"c": x.Ctor, "f": fs}
	}
	panic(fmt.Sprintf("tl reference: ToJSON(%T)", v))
}

// FromJSON rebuilds a value of type t from the output of ToJSON after a JSON
// round trip (numbers are float64 or json.Number-like strings).
func (s *Schema) FromJSON(t Type, j any) (any, error) {
	bad := func() (any, error) { return nil, fmt.Errorf("JSON %T does not fit %s", j, t) }
	switch t.Kind {
	case KInt, KNat:
		f, ok := j.(float64)
		if !ok {
			return bad()
		}
		return uint32(f), nil
	case KLong:
		str, ok := j.(string)
		if !ok {
			return bad()
		}
		v, err := strconv.ParseUint(str, 10, 64)
		return v, err
	case KInt256:
		str, ok := j.(string)
		b, err := hex.DecodeString(str)
		if !ok || err != nil || len(b) != 32 {
			return bad()
		}
		var x [32]byte
		copy(x[:], b)
		return x, nil
	case KBytes, KString:
		str, ok := j.(string)
		b, err := hex.DecodeString(str)
		if !ok || err != nil {
			return bad()
		}
		if t.Kind == KString {
			return string(b), nil
		}
		return b, nil
	case KBool:
		b, ok := j.(bool)
		if !ok {
			return bad()
		}
		return b, nil
	case KTrue:
		return True{}, nil
	case KVector:
		arr, ok := j.([]any)
		if !ok {
			return bad()
		}
		out := make([]any, len(arr))
		for i := range arr {
			e, err := s.FromJSON(*t.Elem, arr[i])
			if err != nil {
				return nil, err
			}
			out[i] = e
		}
		return out, nil
	case KBare, KBoxed:
		m, ok := j.(map[string]any)
		if !ok {
			return bad()
		}
		name, _ := m["c"].(string)
		c := s.byName[name]
		if c == nil {
			return bad()
		}
		return s.ObjectFromJSON(c, j)
	}
	return bad()
}

// ObjectFromJSON rebuilds the fields of combinator c (also for functions).
func (s *Schema) ObjectFromJSON(c *Combinator, j any) (*Object, error) {
	m, ok := j.(map[string]any)
	if !ok {
		return nil, fmt.Errorf("JSON %T is not an object of %s", j, c.Name)
	}
	fs, ok := m["f"].([]any)
	if !ok || len(fs) != len(c.Fields) {
		return nil, fmt.Errorf("JSON object of %s has the wrong field count", c.Name)
	}
	o := &Object{Ctor: c.Name, Fields: make([]any, len(fs))}
	for i, f := range c.Fields {
		if fs[i] == nil {
			continue
		}
		v, err := s.FromJSON(f.Type, fs[i])
		if err != nil {
			return nil, fmt.Errorf("%s.%s: %w", c.Name, f.Name, err)
		}
		o.Fields[i] = v
	}
	return o, nil
}
