package tl

import (
	"bytes"
	"crypto/sha256"
	"encoding/base64"
	"encoding/hex"
	"fmt"
	"os"
	"path/filepath"
)

// SelfCheck pins the model on data it did not produce:
//
//  1. ton/testdata/get-last-config-all-{1,2}.bin are answers captured from a
//     real lite server (liteServer.masterchainInfo, liteServer.configInfo with
//     two long byte strings). The model must decode each as a boxed value of
//     the function's result type, consume every byte, and re-encode it to the
//     same bytes. This fixes the byte order of constructor ids, the integer
//     layout and the long form / padding of byte strings.
//  2. The overlay-id vectors in liteclient/overlay_id_test.go are network
//     constants: sha256 over the boxed tonNode.shardPublicOverlayId.
//  3. A few byte-string encodings spelled out in the TL documentation.
//
// It returns the parsed lite_api.tl and the number of facts checked.
func SelfCheck(repoRoot string) (*Schema, int, error) {
	text, err := os.ReadFile(filepath.Join(repoRoot, "liteclient", "lite_api.tl"))
	if err != nil {
		return nil, 0, err
	}
	s, err := Parse(string(text))
	if err != nil {
		return nil, 0, fmt.Errorf("lite_api.tl: %w", err)
	}
	if len(s.Constructors) < 30 || len(s.Functions) < 20 {
		return nil, 0, fmt.Errorf("lite_api.tl: only %d constructors and %d functions parsed", len(s.Constructors), len(s.Functions))
	}
	facts := 0
	// printing and re-parsing is the identity
	s2, err := Parse(s.String())
	if err != nil || s2.String() != s.String() {
		return nil, 0, fmt.Errorf("schema print/parse round trip failed: %v", err)
	}
	facts++

	for _, f := range []struct{ file, typ, ctor string }{
		{"get-last-config-all-1.bin", "liteServer.MasterchainInfo", "liteServer.masterchainInfo"},
		{"get-last-config-all-2.bin", "liteServer.ConfigInfo", "liteServer.configInfo"},
	} {
		raw, err := os.ReadFile(filepath.Join(repoRoot, "ton", "testdata", f.file))
		if err != nil {
			continue // the file is not part of this tree; nothing to pin against
		}
		t := Type{Kind: KBoxed, Name: f.typ}
		v, rest, err := s.Decode(t, raw)
		if err != nil {
			return nil, 0, fmt.Errorf("%s: reference decoder rejects real lite-server bytes: %w", f.file, err)
		}
		if len(rest) != 0 {
			return nil, 0, fmt.Errorf("%s: %d bytes left after decoding", f.file, len(rest))
		}
		if v.(*Object).Ctor != f.ctor {
			return nil, 0, fmt.Errorf("%s: decoded as %s", f.file, v.(*Object).Ctor)
		}
		back, err := s.Encode(t, v)
		if err != nil || !bytes.Equal(back, raw) {
			return nil, 0, fmt.Errorf("%s: re-encoding differs from the real bytes (%v)", f.file, err)
		}
		facts++
	}

	// overlay ids (literal vectors of liteclient/overlay_id_test.go)
	zs, _ := base64.StdEncoding.DecodeString("XplPz01CXAps5qeSWUtxcyBfdAo5zVb1N979KLSKD24=")
	var zsh [32]byte
	copy(zsh[:], zs)
	for _, v := range []struct {
		wc   uint32
		want string
	}{
		{0xffffffff, "c684cd30e81e3ad7159bbef689daea0021dae2b90dd1a65d14fe8cc11f3523b1"},
		{0, "9435c212dc0ec51dac686410e9ba98f4b6fc7d5f08aeb9164109178eb950ddec"},
	} {
		c := s.Constructor("tonNode.shardPublicOverlayId")
		if c == nil {
			break
		}
		b, err := s.EncodeBoxed(c, &Object{Ctor: c.Name, Fields: []any{v.wc, uint64(1) << 63, zsh}})
		if err != nil {
			return nil, 0, err
		}
		h := sha256.Sum256(b)
		if hex.EncodeToString(h[:]) != v.want {
			return nil, 0, fmt.Errorf("overlay id vector: got %x want %s", h, v.want)
		}
		facts++
	}

	// byte strings
	for _, v := range []struct {
		n    int
		head string
		tot  int
	}{
		{0, "00000000", 4}, {1, "01aa0000", 4}, {2, "02aaaa00", 4}, {3, "03aaaaaa", 4}, {4, "04aaaaaa", 8},
		{253, "fdaaaaaa", 256}, {254, "fefe0000", 260}, {255, "feff0000", 260}, {256, "fe000100", 260}, {65536, "fe000001", 65540},
	} {
		enc := EncodeBytes(bytes.Repeat([]byte{0xaa}, v.n))
		if len(enc) != v.tot || hex.EncodeToString(enc[:4]) != v.head {
			return nil, 0, fmt.Errorf("byte string of %d: got %x.. (%d bytes)", v.n, enc[:4], len(enc))
		}
		d, rest, err := DecodeBytes(enc)
		if err != nil || len(rest) != 0 || len(d) != v.n {
			return nil, 0, fmt.Errorf("byte string of %d does not decode: %v", v.n, err)
		}
		facts++
	}
	return s, facts, nil
}
