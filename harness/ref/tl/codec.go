package tl

import (
	"bytes"
	"encoding/binary"
	"fmt"
)

// Abstract values, by type kind:
//
//	int, #   uint32 (the 32-bit pattern; TL's int is signed, the wire does not care)
//	long     uint64
//	int256   [32]byte
//	bytes    []byte
//	string   string
//	Bool     bool
//	true     True{}
//	vector   []any
//	bare / boxed declared type   *Object
//
// An absent conditional field is nil in Object.Fields.
type Object struct {
	Ctor   string
	Fields []any // positional, len == len(constructor.Fields)
}

type True struct{}

const (
	BoolTrueID  uint32 = 0x997275b5 // boolTrue#997275b5 = Bool;
	BoolFalseID uint32 = 0xbc799737 // boolFalse#bc799737 = Bool;
)

func le32(v uint32) []byte { var b [4]byte; binary.LittleEndian.PutUint32(b[:], v); return b[:] }
func le64(v uint64) []byte { var b [8]byte; binary.LittleEndian.PutUint64(b[:], v); return b[:] }

// EncodeBytes is the TL `bytes`/`string` serialisation.
func EncodeBytes(data []byte) []byte {
	var out []byte
	if len(data) < 254 {
		out = append(out, byte(len(data)))
	} else {
		if len(data) >= 1<<24 {
			panic("tl reference: byte string of 2^24 bytes or more has no TL serialisation")
		}
		out = append(out, 0xfe, byte(len(data)), byte(len(data)>>8), byte(len(data)>>16))
	}
	out = append(out, data...)
	for len(out)%4 != 0 {
		out = append(out, 0)
	}
	return out
}

// Encode serialises v as a value of type t.
func (s *Schema) Encode(t Type, v any) ([]byte, error) {
	var buf bytes.Buffer
	if err := s.encode(&buf, t, v); err != nil {
		return nil, err
	}
	return buf.Bytes(), nil
}

// EncodeFields serialises the fields of o (no constructor id): the bare form
// of a constructor, or the argument part of a function call.
func (s *Schema) EncodeFields(c *Combinator, o *Object) ([]byte, error) {
	var buf bytes.Buffer
	if err := s.encodeFields(&buf, c, o); err != nil {
		return nil, err
	}
	return buf.Bytes(), nil
}

// EncodeBoxed serialises id ‖ fields. For a function this is the request.
func (s *Schema) EncodeBoxed(c *Combinator, o *Object) ([]byte, error) {
	if !c.HasID {
		return nil, fmt.Errorf("%s has no constructor id in the schema", c.Name)
	}
	var buf bytes.Buffer
	buf.Write(le32(c.ID))
	if err := s.encodeFields(&buf, c, o); err != nil {
		return nil, err
	}
	return buf.Bytes(), nil
}

func (s *Schema) encode(buf *bytes.Buffer, t Type, v any) error {
	bad := func() error { return fmt.Errorf("value %T does not fit type %s", v, t) }
	switch t.Kind {
	case KInt, KNat:
		x, ok := v.(uint32)
		if !ok {
			return bad()
		}
		buf.Write(le32(x))
	case KLong:
		x, ok := v.(uint64)
		if !ok {
			return bad()
		}
		buf.Write(le64(x))
	case KInt256:
		x, ok := v.([32]byte)
		if !ok {
			return bad()
		}
		buf.Write(x[:])
	case KBytes:
		x, ok := v.([]byte)
		if !ok {
			return bad()
		}
		buf.Write(EncodeBytes(x))
	case KString:
		x, ok := v.(string)
		if !ok {
			return bad()
		}
		buf.Write(EncodeBytes([]byte(x)))
	case KBool:
		x, ok := v.(bool)
		if !ok {
			return bad()
		}
		if x {
			buf.Write(le32(BoolTrueID))
		} else {
			buf.Write(le32(BoolFalseID))
		}
	case KTrue:
		if _, ok := v.(True); !ok {
			return bad()
		}
	case KVector:
		x, ok := v.([]any)
		if !ok {
			return bad()
		}
		buf.Write(le32(uint32(len(x))))
		for _, e := range x {
			if err := s.encode(buf, *t.Elem, e); err != nil {
				return err
			}
		}
	case KBare:
		o, ok := v.(*Object)
		if !ok || o.Ctor != t.Name {
			return bad()
		}
		return s.encodeFields(buf, s.byName[t.Name], o)
	case KBoxed:
		o, ok := v.(*Object)
		if !ok {
			return bad()
		}
		c := s.byName[o.Ctor]
		if c == nil || c.Result != t.Name {
			return fmt.Errorf("constructor %s is not of type %s", o.Ctor, t.Name)
		}
		if !c.HasID {
			return fmt.Errorf("%s has no constructor id", c.Name)
		}
		buf.Write(le32(c.ID))
		return s.encodeFields(buf, c, o)
	}
	return nil
}

func (s *Schema) encodeFields(buf *bytes.Buffer, c *Combinator, o *Object) error {
	if c == nil || o == nil || len(o.Fields) != len(c.Fields) {
		return fmt.Errorf("object does not match combinator")
	}
	for i, f := range c.Fields {
		if f.Cond {
			flag, ok := o.Fields[c.FieldIndex(f.CondField)].(uint32)
			if !ok {
				return fmt.Errorf("%s.%s: flag field has no value", c.Name, f.CondField)
			}
			present := flag>>uint(f.CondBit)&1 == 1
			if present != (o.Fields[i] != nil) {
				return fmt.Errorf("%s.%s: presence contradicts %s bit %d", c.Name, f.Name, f.CondField, f.CondBit)
			}
			if !present {
				continue
			}
		}
		if err := s.encode(buf, f.Type, o.Fields[i]); err != nil {
			return fmt.Errorf("%s.%s: %w", c.Name, f.Name, err)
		}
	}
	return nil
}

// ---- decoding ----

type reader struct {
	b []byte
	i int
}

func (r *reader) take(n int) ([]byte, error) {
	if n < 0 || r.i+n > len(r.b) {
		return nil, fmt.Errorf("short input: need %d bytes at offset %d of %d", n, r.i, len(r.b))
	}
	out := r.b[r.i : r.i+n]
	r.i += n
	return out, nil
}

// DecodeBytes reads one TL byte string; strict: the padding must be zero.
func DecodeBytes(b []byte) (data, rest []byte, err error) {
	r := &reader{b: b}
	d, err := r.bytes()
	return d, b[r.i:], err
}

func (r *reader) bytes() ([]byte, error) {
	h, err := r.take(1)
	if err != nil {
		return nil, err
	}
	n, used := int(h[0]), 1
	switch {
	case h[0] == 0xff:
		return nil, fmt.Errorf("length byte 0xff")
	case h[0] == 0xfe:
		l, err := r.take(3)
		if err != nil {
			return nil, err
		}
		n, used = int(l[0])|int(l[1])<<8|int(l[2])<<16, 4
	}
	d, err := r.take(n)
	if err != nil {
		return nil, err
	}
	for (used+n)%4 != 0 {
		p, err := r.take(1)
		if err != nil {
			return nil, err
		}
		if p[0] != 0 {
			return nil, fmt.Errorf("non-zero padding")
		}
		used++
	}
	return append([]byte{}, d...), nil
}

// Decode reads one value of type t and returns the unread rest.
func (s *Schema) Decode(t Type, b []byte) (v any, rest []byte, err error) {
	r := &reader{b: b}
	v, err = s.decode(r, t)
	return v, b[r.i:], err
}

// DecodeFields reads the fields of c (bare form).
func (s *Schema) DecodeFields(c *Combinator, b []byte) (*Object, []byte, error) {
	r := &reader{b: b}
	o, err := s.decodeFields(r, c)
	return o, b[r.i:], err
}

func (s *Schema) decode(r *reader, t Type) (any, error) {
	switch t.Kind {
	case KInt, KNat:
		b, err := r.take(4)
		if err != nil {
			return nil, err
		}
		return binary.LittleEndian.Uint32(b), nil
	case KLong:
		b, err := r.take(8)
		if err != nil {
			return nil, err
		}
		return binary.LittleEndian.Uint64(b), nil
	case KInt256:
		b, err := r.take(32)
		if err != nil {
			return nil, err
		}
		var x [32]byte
		copy(x[:], b)
		return x, nil
	case KBytes:
		return r.bytes()
	case KString:
		b, err := r.bytes()
		return string(b), err
	case KBool:
		b, err := r.take(4)
		if err != nil {
			return nil, err
		}
		switch binary.LittleEndian.Uint32(b) {
		case BoolTrueID:
			return true, nil
		case BoolFalseID:
			return false, nil
		}
		return nil, fmt.Errorf("bad Bool constructor %x", b)
	case KTrue:
		return True{}, nil
	case KVector:
		b, err := r.take(4)
		if err != nil {
			return nil, err
		}
		n := int(binary.LittleEndian.Uint32(b))
		if n > len(r.b) { // every element of the subset except `true` takes >= 4 bytes
			return nil, fmt.Errorf("vector count %d exceeds input", n)
		}
		out := make([]any, 0, n)
		for i := 0; i < n; i++ {
			e, err := s.decode(r, *t.Elem)
			if err != nil {
				return nil, err
			}
			out = append(out, e)
		}
		return out, nil
	case KBare:
		return s.decodeFields(r, s.byName[t.Name])
	case KBoxed:
		b, err := r.take(4)
		if err != nil {
			return nil, err
		}
		id := binary.LittleEndian.Uint32(b)
		for _, c := range s.byType[t.Name] {
			if c.HasID && c.ID == id {
				return s.decodeFields(r, c)
			}
		}
		return nil, fmt.Errorf("constructor id %08x is not of type %s", id, t.Name)
	}
	return nil, fmt.Errorf("unknown kind")
}

func (s *Schema) decodeFields(r *reader, c *Combinator) (*Object, error) {
	o := &Object{Ctor: c.Name, Fields: make([]any, len(c.Fields))}
	for i, f := range c.Fields {
		if f.Cond {
			flag := o.Fields[c.FieldIndex(f.CondField)].(uint32)
			if flag>>uint(f.CondBit)&1 == 0 {
				continue
			}
		}
		v, err := s.decode(r, f.Type)
		if err != nil {
			return nil, fmt.Errorf("%s.%s: %w", c.Name, f.Name, err)
		}
		o.Fields[i] = v
	}
	return o, nil
}

// Equal compares two abstract values (nil and empty byte strings are equal).
func Equal(a, b any) bool {
	switch x := a.(type) {
	case nil:
		return b == nil
	case []byte:
		y, ok := b.([]byte)
		return ok && bytes.Equal(x, y)
	case []any:
		y, ok := b.([]any)
		if !ok || len(x) != len(y) {
			return false
		}
		for i := range x {
			if !Equal(x[i], y[i]) {
				return false
			}
		}
		return true
	case *Object:
		y, ok := b.(*Object)
		if !ok || x == nil || y == nil {
			return ok && x == y
		}
		if x.Ctor != y.Ctor || len(x.Fields) != len(y.Fields) {
			return false
		}
		for i := range x.Fields {
			if !Equal(x.Fields[i], y.Fields[i]) {
				return false
			}
		}
		return true
	default:
		return a == b
	}
}

// Diff names the first place where two values differ ("" if equal).
func Diff(s *Schema, a, b any) string { return diff(s, "", a, b) }

func diff(s *Schema, path string, a, b any) string {
	if Equal(a, b) {
		return ""
	}
	switch x := a.(type) {
	case []any:
		y, ok := b.([]any)
		if !ok {
			break
		}
		if len(x) != len(y) {
			return fmt.Sprintf("%s: vector length %d vs %d", path, len(x), len(y))
		}
		for i := range x {
			if d := diff(s, fmt.Sprintf("%s[%d]", path, i), x[i], y[i]); d != "" {
				return d
			}
		}
	case *Object:
		y, ok := b.(*Object)
		if !ok || x == nil || y == nil {
			break
		}
		if x.Ctor != y.Ctor {
			return fmt.Sprintf("%s: constructor %s vs %s", path, x.Ctor, y.Ctor)
		}
		c := s.Constructor(x.Ctor)
		if c == nil {
			for _, f := range s.Functions {
				if f.Name == x.Ctor {
					c = f
				}
			}
		}
		for i := range x.Fields {
			name := fmt.Sprint(i)
			if c != nil && i < len(c.Fields) {
				name = c.Fields[i].Name
			}
			if i < len(y.Fields) {
				if d := diff(s, path+"."+name, x.Fields[i], y.Fields[i]); d != "" {
					return d
				}
			}
		}
	}
	return fmt.Sprintf("%s: %s vs %s", path, short(a), short(b))
}

func short(v any) string {
	switch x := v.(type) {
	case nil:
		return "absent"
	case []byte:
		if len(x) > 16 {
			return fmt.Sprintf("bytes[%d]%x...", len(x), x[:16])
		}
		return fmt.Sprintf("bytes[%d]%x", len(x), x)
	case [32]byte:
		return fmt.Sprintf("int256:%x", x[:])
	case string:
		if len(x) > 24 {
			return fmt.Sprintf("string[%d]%q...", len(x), x[:24])
		}
		return fmt.Sprintf("%q", x)
	case *Object:
		return "object " + x.Ctor
	case []any:
		return fmt.Sprintf("vector[%d]", len(x))
	}
	return fmt.Sprintf("%T:%v", v, v)
}
