package tl

import (
	"fmt"
	"strings"
)

// SchemaOpts steers RandomSchema. The rates are "one in N" (0 = never).
type SchemaOpts struct {
	MaxDecls      int // constructors besides liteServer.error (1..MaxDecls)
	MaxFunctions  int
	ForwardRef    int // a field may refer to a type declared later
	EmptyCtor     int // a single-constructor type may have no fields
	ModeInSum     int // a constructor of a multi-constructor type may have mode-conditional fields
	Interleave    int // constructors of one type need not be adjacent
	Enum          int // a multi-constructor type may consist of field-less constructors only (boolTrue/boolFalse idiom)
	NestedVectors int
}

var (
	namespaces = []string{"ab", "tonNode", "liteServer", "liteServer.debug", "x", "overlay.node"}
	words      = []string{"block", "blockId", "info", "state", "proof", "entry", "link", "account", "message", "data", "config", "item"}
	variants   = []string{"Alpha", "Beta", "Gamma", "Delta", "Omega"}
	fieldWords = []string{"id", "seqno", "root_hash", "data", "proof", "count", "lt", "flags2", "value", "key_block", "x", "after_lt", "init_c7"}
)

func upperFirst(s string) string { return strings.ToUpper(s[:1]) + s[1:] }

type schemaGen struct {
	r       Rand
	o       SchemaOpts
	ids     map[uint32]bool
	n       int
	singles []*Combinator // single-constructor types usable as bare references
	sums    []string      // multi-constructor type names usable as boxed references
}

func (g *schemaGen) id() uint32 {
	for {
		v := uint32(g.r.Uint64())
		switch g.r.Intn(8) {
		case 0:
			v &= 0x00ffffff // leading zero digits
		case 1:
			v |= 0xff000000
		}
		if !g.ids[v] {
			g.ids[v] = true
			return v
		}
	}
}

func one(r Rand, in int) bool { return in > 0 && r.Intn(in) == 0 }

func (g *schemaGen) builtin() Type {
	return Type{Kind: []Kind{KInt, KInt, KLong, KLong, KInt256, KBytes, KBytes, KString, KBool, KNat}[g.r.Intn(10)]}
}

func (g *schemaGen) typ(depth int) Type {
	switch x := g.r.Intn(10); {
	case x < 5:
		return g.builtin()
	case x < 7:
		if depth >= 2 || (depth >= 1 && !one(g.r, g.o.NestedVectors)) {
			return g.builtin()
		}
		el := g.typ(depth + 1)
		return Type{Kind: KVector, Elem: &el}
	case x < 9:
		if len(g.singles) > 0 {
			return Type{Kind: KBare, Name: g.singles[g.r.Intn(len(g.singles))].Name}
		}
	default:
		if len(g.sums) > 0 {
			return Type{Kind: KBoxed, Name: g.sums[g.r.Intn(len(g.sums))]}
		}
	}
	return g.builtin()
}

func (g *schemaGen) fields(allowMode bool, minFields int) []Field {
	n := minFields + g.r.Intn(7)
	if g.r.Intn(4) == 0 {
		n = minFields + g.r.Intn(3)
	}
	var out []Field
	hasMode := false
	modeAt := -1
	if allowMode && g.r.Intn(5) < 2 {
		hasMode = true
		if n == 0 {
			n = 1
		}
		modeAt = g.r.Intn(n)
		if g.r.Intn(2) == 0 {
			modeAt = 0
		}
	}
	used := map[string]bool{"mode": true}
	for i := 0; i < n; i++ {
		if i == modeAt {
			out = append(out, Field{Name: "mode", Type: Type{Kind: KNat}})
			continue
		}
		name := fieldWords[g.r.Intn(len(fieldWords))]
		for used[name] {
			name = fmt.Sprintf("%s_%d", fieldWords[g.r.Intn(len(fieldWords))], g.r.Intn(90))
		}
		used[name] = true
		f := Field{Name: name, Type: g.typ(0)}
		if hasMode && i > modeAt && g.r.Intn(5) < 3 {
			f.Cond, f.CondField = true, "mode"
			f.CondBit = g.r.Intn(32)
			switch g.r.Intn(6) {
			case 0:
				f.CondBit = 0
			case 1:
				f.CondBit = 31
			}
			if g.r.Intn(10) == 0 {
				f.Type = Type{Kind: KTrue}
			}
		}
		out = append(out, f)
	}
	return out
}

func (g *schemaGen) name() (ctor, typ string) {
	g.n++
	ns := namespaces[g.r.Intn(len(namespaces))]
	w := fmt.Sprintf("%s%d", words[g.r.Intn(len(words))], g.n)
	return ns + "." + w, ns + "." + upperFirst(w)
}

// RandomSchema draws a schema of the subset tongo's TL generator is meant to
// support (see DESIGN.md §5 C09): every single-constructor type is called
// like its constructor (ns.foo = ns.Foo), bare references go to
// single-constructor types, boxed references to multi-constructor types, the
// only flag field is called `mode`, and liteServer.error is declared.
func RandomSchema(r Rand, o SchemaOpts) *Schema {
	g := &schemaGen{r: r, o: o, ids: map[uint32]bool{}}
	errC := &Combinator{Name: "liteServer.error", HasID: true, ID: g.id(), Result: "liteServer.Error",
		Fields: []Field{{Name: "code", Type: Type{Kind: KInt}}, {Name: "message", Type: Type{Kind: KString}}}}
	total := 1 + r.Intn(o.MaxDecls)
	if r.Intn(4) == 0 {
		total = 1 + r.Intn(6)
	}
	var cons []*Combinator
	var pending []*Combinator // constructors of interleaved sum types, placed later
	var forward []int         // indices into cons of declarations that want a forward reference
	errAt := r.Intn(3)
	for len(cons)+len(pending) < total {
		if len(cons) == errAt {
			cons = append(cons, errC)
			errAt = -1
		}
		left := total - len(cons) - len(pending)
		if r.Intn(5) == 0 && left >= 2 {
			k := 2 + r.Intn(4)
			if k > left {
				k = left
			}
			cn, tn := g.name()
			inter := one(r, o.Interleave)
			enum := one(r, o.Enum)
			for v := 0; v < k; v++ {
				c := &Combinator{Name: cn + variants[v], HasID: true, ID: g.id(), Result: tn}
				min := 0
				if r.Intn(3) > 0 {
					min = 1
				}
				if !enum {
					c.Fields = g.fields(one(r, o.ModeInSum), min)
				}
				if inter && v > 0 {
					pending = append(pending, c)
				} else {
					cons = append(cons, c)
				}
			}
			g.sums = append(g.sums, tn)
			continue
		}
		cn, tn := g.name()
		c := &Combinator{Name: cn, HasID: true, ID: g.id(), Result: tn}
		if one(r, o.EmptyCtor) {
			// no fields
		} else {
			c.Fields = g.fields(true, 1)
		}
		if one(r, o.ForwardRef) {
			forward = append(forward, len(cons))
		}
		cons = append(cons, c)
		g.singles = append(g.singles, c)
		if len(pending) > 0 && r.Intn(2) == 0 {
			cons = append(cons, pending[0])
			pending = pending[1:]
		}
	}
	cons = append(cons, pending...)
	if errAt >= 0 {
		cons = append(cons, errC)
	}
	// a schema that asks for one of the rarer shapes gets at least one instance of it
	if o.EmptyCtor > 0 {
		have := false
		for _, c := range g.singles {
			have = have || len(c.Fields) == 0
		}
		if !have {
			cn, tn := g.name()
			c := &Combinator{Name: cn, HasID: true, ID: g.id(), Result: tn}
			cons = append(cons, c)
			g.singles = append(g.singles, c)
		}
	}
	var enumUser *Combinator
	enumType := ""
	if o.Enum > 0 {
		// at least one enum-like type, and one struct that holds it every way a type can be held:
		// plain field, mode-conditional field, vector element (a function returning it is added below)
		for _, tn := range g.sums {
			all := true
			for _, c := range g.byTypeCount(cons, tn) {
				all = all && len(c.Fields) == 0
			}
			if all {
				enumType = tn
				break
			}
		}
		if enumType == "" {
			cn, tn := g.name()
			k := 2 + r.Intn(4)
			for v := 0; v < k; v++ {
				cons = append(cons, &Combinator{Name: cn + variants[v], HasID: true, ID: g.id(), Result: tn})
			}
			g.sums = append(g.sums, tn)
			enumType = tn
		}
		et := Type{Kind: KBoxed, Name: enumType}
		cn, tn := g.name()
		enumUser = &Combinator{Name: cn, HasID: true, ID: g.id(), Result: tn, Fields: []Field{
			{Name: "kind", Type: et},
			{Name: "mode", Type: Type{Kind: KNat}},
			{Name: "seqno", Type: Type{Kind: KInt}},
			{Name: "state", Type: et, Cond: true, CondField: "mode", CondBit: r.Intn(32)},
			{Name: "item", Type: Type{Kind: KVector, Elem: &et}},
			{Name: "lt", Type: Type{Kind: KLong}}}}
		cons = append(cons, enumUser)
		g.singles = append(g.singles, enumUser)
	}
	if o.ModeInSum > 0 {
		have := false
		for _, c := range cons {
			if len(g.byTypeCount(cons, c.Result)) > 1 && c.FieldIndex("mode") >= 0 {
				for _, f := range c.Fields {
					have = have || f.Cond
				}
			}
		}
		if !have {
			cn, tn := g.name()
			cons = append(cons,
				&Combinator{Name: cn + "Alpha", HasID: true, ID: g.id(), Result: tn, Fields: []Field{{Name: "id", Type: Type{Kind: KLong}}}},
				&Combinator{Name: cn + "Beta", HasID: true, ID: g.id(), Result: tn, Fields: []Field{
					{Name: "mode", Type: Type{Kind: KNat}},
					{Name: "lt", Type: Type{Kind: KLong}, Cond: true, CondField: "mode", CondBit: r.Intn(32)},
					{Name: "data", Type: Type{Kind: KBytes}}}})
			g.sums = append(g.sums, tn)
		}
	}
	if o.ForwardRef > 0 && len(forward) == 0 {
		if len(g.singles) < 2 {
			cn, tn := g.name()
			c := &Combinator{Name: cn, HasID: true, ID: g.id(), Result: tn, Fields: []Field{{Name: "id", Type: Type{Kind: KInt}}}}
			cons = append(cons, c)
			g.singles = append(g.singles, c)
		}
		for i, c := range cons {
			if c != errC && len(g.byTypeCount(cons, c.Result)) == 1 && c != g.singles[len(g.singles)-1] {
				forward = append(forward, i)
				break
			}
		}
	}
	// forward references: add a field that names a single-constructor type declared later
	for _, i := range forward {
		var later []*Combinator
		for _, c := range cons[i+1:] {
			if c != errC && len(g.byTypeCount(cons, c.Result)) == 1 && !refersTo(cons, c, cons[i].Name) {
				later = append(later, c)
			}
		}
		if len(later) == 0 {
			continue
		}
		t := later[r.Intn(len(later))]
		cons[i].Fields = append(cons[i].Fields, Field{Name: fmt.Sprintf("fwd_%d", i), Type: Type{Kind: KBare, Name: t.Name}})
	}
	var funs []*Combinator
	nf := r.Intn(o.MaxFunctions + 1)
	for i := 0; i < nf; i++ {
		g.n++
		ns := []string{"liteServer", "liteProxy", "ab"}[r.Intn(3)]
		f := &Combinator{Name: fmt.Sprintf("%s.get%s%d", ns, upperFirst(words[r.Intn(len(words))]), g.n), HasID: true, ID: g.id()}
		if r.Intn(5) > 0 {
			f.Fields = g.fields(true, 1)
		}
		res := cons[r.Intn(len(cons))]
		for res == errC { // the error type is never a function's declared result
			res = cons[r.Intn(len(cons))]
		}
		f.Result = res.Result
		funs = append(funs, f)
	}
	if enumType != "" && o.MaxFunctions > 0 {
		g.n++
		funs = append(funs, &Combinator{Name: fmt.Sprintf("liteServer.getKind%d", g.n), HasID: true, ID: g.id(), Result: enumType,
			Fields: []Field{{Name: "id", Type: Type{Kind: KInt}}, {Name: "want", Type: Type{Kind: KBoxed, Name: enumType}}}})
		if r.Intn(2) == 0 {
			g.n++
			funs = append(funs, &Combinator{Name: fmt.Sprintf("liteServer.getKinds%d", g.n), HasID: true, ID: g.id(), Result: enumUser.Result})
		}
	}
	s, err := New(cons, funs)
	if err != nil {
		panic("tl reference: random schema does not resolve: " + err.Error())
	}
	return s
}

func (g *schemaGen) byTypeCount(cons []*Combinator, typ string) []*Combinator {
	var out []*Combinator
	for _, c := range cons {
		if c.Result == typ {
			out = append(out, c)
		}
	}
	return out
}

// refersTo reports whether c (transitively) contains a value of constructor
// target; used to keep forward references from closing a cycle.
func refersTo(cons []*Combinator, c *Combinator, target string) bool {
	seen := map[string]bool{}
	var walk func(c *Combinator) bool
	var inType func(t Type) bool
	inType = func(t Type) bool {
		switch t.Kind {
		case KVector:
			return inType(*t.Elem)
		case KBare:
			if t.Name == target {
				return true
			}
			for _, x := range cons {
				if x.Name == t.Name {
					return walk(x)
				}
			}
		case KBoxed:
			for _, x := range cons {
				if x.Result == t.Name && walk(x) {
					return true
				}
			}
		}
		return false
	}
	walk = func(c *Combinator) bool {
		if c.Name == target {
			return true
		}
		if seen[c.Name] {
			return false
		}
		seen[c.Name] = true
		for _, f := range c.Fields {
			if inType(f.Type) {
				return true
			}
		}
		return false
	}
	return walk(c)
}
