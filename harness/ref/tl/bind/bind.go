// Package bind moves abstract TL values (ref/tl) into and out of Go values of
// arbitrary generated types, positionally and by reflection only. It knows
// nothing about tongo: a constructor is a struct whose i-th field holds the
// i-th schema field that is not of type `true`; a multi-constructor type is a
// struct whose field 0 is a string called SumType (holding the Go name of the
// chosen field) followed by one struct field per constructor in declaration
// order; a conditional field is a pointer or a slice (nil = absent).
package bind

import (
	"fmt"
	"reflect"

	"verifharness/ref/tl"
)

func isSum(t reflect.Type) bool {
	if t.Kind() != reflect.Struct || t.NumField() == 0 {
		return false
	}
	f := t.Field(0)
	return f.Name == "SumType" && f.Type.Kind() == reflect.String
}

// goFields returns the indices of the schema fields that have a Go field.
func goFields(c *tl.Combinator) []int {
	var idx []int
	for i, f := range c.Fields {
		if f.Type.Kind != tl.KTrue {
			idx = append(idx, i)
		}
	}
	return idx
}

// Populate stores abstract value v of schema type t into dst (settable).
func Populate(s *tl.Schema, t tl.Type, v any, dst reflect.Value) error {
	switch t.Kind {
	case tl.KInt, tl.KNat:
		x := v.(uint32)
		switch dst.Kind() {
		case reflect.Uint32, reflect.Uint, reflect.Uint64:
			dst.SetUint(uint64(x))
		case reflect.Int32, reflect.Int, reflect.Int64:
			dst.SetInt(int64(int32(x)))
		default:
			return fmt.Errorf("go kind %s cannot hold %s", dst.Kind(), t)
		}
	case tl.KLong:
		x := v.(uint64)
		switch dst.Kind() {
		case reflect.Uint64:
			dst.SetUint(x)
		case reflect.Int64:
			dst.SetInt(int64(x))
		default:
			return fmt.Errorf("go kind %s cannot hold %s", dst.Kind(), t)
		}
	case tl.KInt256:
		x := v.([32]byte)
		if dst.Kind() != reflect.Array || dst.Len() != 32 || dst.Type().Elem().Kind() != reflect.Uint8 {
			return fmt.Errorf("go type %s cannot hold int256", dst.Type())
		}
		reflect.Copy(dst, reflect.ValueOf(x[:]))
	case tl.KBytes:
		x := v.([]byte)
		if dst.Kind() != reflect.Slice || dst.Type().Elem().Kind() != reflect.Uint8 {
			return fmt.Errorf("go type %s cannot hold bytes", dst.Type())
		}
		if len(x) == 0 && nilForEmpty() {
			dst.SetBytes(nil) // nil is Go's natural empty byte string
		} else {
			dst.SetBytes(append(make([]byte, 0, len(x)), x...))
		}
	case tl.KString:
		if dst.Kind() != reflect.String {
			return fmt.Errorf("go type %s cannot hold string", dst.Type())
		}
		dst.SetString(v.(string))
	case tl.KBool:
		if dst.Kind() != reflect.Bool {
			return fmt.Errorf("go type %s cannot hold Bool", dst.Type())
		}
		dst.SetBool(v.(bool))
	case tl.KVector:
		x := v.([]any)
		if dst.Kind() != reflect.Slice {
			return fmt.Errorf("go type %s cannot hold a vector", dst.Type())
		}
		if len(x) == 0 && nilForEmpty() {
			dst.Set(reflect.Zero(dst.Type())) // nil slice = empty vector
			return nil
		}
		sl := reflect.MakeSlice(dst.Type(), len(x), len(x))
		for i := range x {
			if err := Populate(s, *t.Elem, x[i], sl.Index(i)); err != nil {
				return err
			}
		}
		dst.Set(sl)
	case tl.KBare, tl.KBoxed:
		o := v.(*tl.Object)
		return PopulateObject(s, o, dst)
	default:
		return fmt.Errorf("cannot populate %s", t)
	}
	return nil
}

// PopulateObject stores o into a constructor struct or a sum-type struct.
func PopulateObject(s *tl.Schema, o *tl.Object, dst reflect.Value) error {
	c := s.Constructor(o.Ctor)
	if c == nil {
		c = s.Function(o.Ctor)
	}
	if c == nil {
		return fmt.Errorf("unknown combinator %s", o.Ctor)
	}
	if dst.Kind() != reflect.Struct {
		return fmt.Errorf("go type %s cannot hold %s", dst.Type(), o.Ctor)
	}
	if isSum(dst.Type()) {
		cs := s.TypeConstructors(c.Result)
		k := -1
		for i := range cs {
			if cs[i] == c {
				k = i
			}
		}
		if k < 0 || dst.NumField() != len(cs)+1 {
			return fmt.Errorf("go sum type %s has %d variants, schema type %s has %d", dst.Type(), dst.NumField()-1, c.Result, len(cs))
		}
		dst.Field(0).SetString(dst.Type().Field(k + 1).Name)
		return populateFields(s, c, o, dst.Field(k+1))
	}
	return populateFields(s, c, o, dst)
}

func populateFields(s *tl.Schema, c *tl.Combinator, o *tl.Object, dst reflect.Value) error {
	idx := goFields(c)
	if dst.Kind() != reflect.Struct || dst.NumField() != len(idx) {
		return fmt.Errorf("go type %s does not have the %d fields of %s", dst.Type(), len(idx), c.Name)
	}
	for gi, si := range idx {
		f, fv := c.Fields[si], dst.Field(gi)
		if !fv.CanSet() {
			return fmt.Errorf("%s field %d not settable", dst.Type(), gi)
		}
		if f.Cond {
			if fv.Kind() != reflect.Pointer && fv.Kind() != reflect.Slice {
				return fmt.Errorf("%s.%s is conditional but go field %s is %s", c.Name, f.Name, dst.Type().Field(gi).Name, fv.Type())
			}
			if o.Fields[si] == nil {
				fv.Set(reflect.Zero(fv.Type()))
				continue
			}
			if fv.Kind() == reflect.Pointer {
				p := reflect.New(fv.Type().Elem())
				if err := Populate(s, f.Type, o.Fields[si], p.Elem()); err != nil {
					return fmt.Errorf("%s.%s: %w", c.Name, f.Name, err)
				}
				fv.Set(p)
				continue
			}
		}
		if err := Populate(s, f.Type, o.Fields[si], fv); err != nil {
			return fmt.Errorf("%s.%s: %w", c.Name, f.Name, err)
		}
	}
	return nil
}

// Extract reads the abstract value of schema type t out of src.
func Extract(s *tl.Schema, t tl.Type, src reflect.Value) (any, error) {
	switch t.Kind {
	case tl.KInt, tl.KNat:
		switch src.Kind() {
		case reflect.Uint32, reflect.Uint, reflect.Uint64:
			return uint32(src.Uint()), nil
		case reflect.Int32, reflect.Int, reflect.Int64:
			return uint32(src.Int()), nil
		}
	case tl.KLong:
		switch src.Kind() {
		case reflect.Uint64:
			return src.Uint(), nil
		case reflect.Int64:
			return uint64(src.Int()), nil
		}
	case tl.KInt256:
		if src.Kind() == reflect.Array && src.Len() == 32 {
			var x [32]byte
			for i := range x {
				x[i] = byte(src.Index(i).Uint())
			}
			return x, nil
		}
	case tl.KBytes:
		if src.Kind() == reflect.Slice && src.Type().Elem().Kind() == reflect.Uint8 {
			return append([]byte{}, src.Bytes()...), nil
		}
	case tl.KString:
		if src.Kind() == reflect.String {
			return src.String(), nil
		}
	case tl.KBool:
		if src.Kind() == reflect.Bool {
			return src.Bool(), nil
		}
	case tl.KVector:
		if src.Kind() == reflect.Slice {
			out := make([]any, src.Len())
			for i := range out {
				e, err := Extract(s, *t.Elem, src.Index(i))
				if err != nil {
					return nil, err
				}
				out[i] = e
			}
			return out, nil
		}
	case tl.KBare:
		return ExtractObject(s, s.Constructor(t.Name), src)
	case tl.KBoxed:
		cs := s.TypeConstructors(t.Name)
		if isSum(src.Type()) {
			return ExtractObject(s, cs[0], src)
		}
		if len(cs) != 1 {
			return nil, fmt.Errorf("go type %s is not a sum type but %s has %d constructors", src.Type(), t.Name, len(cs))
		}
		return ExtractObject(s, cs[0], src)
	}
	return nil, fmt.Errorf("go type %s cannot hold %s", src.Type(), t)
}

// ExtractObject reads a constructor struct; when src is a sum-type struct,
// c only names the type and the SumType string selects the constructor.
func ExtractObject(s *tl.Schema, c *tl.Combinator, src reflect.Value) (*tl.Object, error) {
	if src.Kind() != reflect.Struct {
		return nil, fmt.Errorf("go type %s cannot hold %s", src.Type(), c.Name)
	}
	if isSum(src.Type()) {
		cs := s.TypeConstructors(c.Result)
		if src.NumField() != len(cs)+1 {
			return nil, fmt.Errorf("go sum type %s has %d variants, schema type %s has %d", src.Type(), src.NumField()-1, c.Result, len(cs))
		}
		name := src.Field(0).String()
		for k := range cs {
			if src.Type().Field(k+1).Name == name {
				return extractFields(s, cs[k], src.Field(k+1))
			}
		}
		return nil, fmt.Errorf("SumType %q names no variant of %s", name, src.Type())
	}
	return extractFields(s, c, src)
}

func extractFields(s *tl.Schema, c *tl.Combinator, src reflect.Value) (*tl.Object, error) {
	idx := goFields(c)
	if src.Kind() != reflect.Struct || src.NumField() != len(idx) {
		return nil, fmt.Errorf("go type %s does not have the %d fields of %s", src.Type(), len(idx), c.Name)
	}
	o := &tl.Object{Ctor: c.Name, Fields: make([]any, len(c.Fields))}
	gi := 0
	for si, f := range c.Fields {
		var bit bool
		if f.Cond {
			flag, ok := o.Fields[c.FieldIndex(f.CondField)].(uint32)
			if !ok {
				return nil, fmt.Errorf("%s: flag %s has no value", c.Name, f.CondField)
			}
			bit = flag>>uint(f.CondBit)&1 == 1
		}
		if f.Type.Kind == tl.KTrue {
			// no Go field: presence is the mode bit itself
			if bit {
				o.Fields[si] = tl.True{}
			}
			continue
		}
		fv := src.Field(gi)
		gi++
		if f.Cond {
			switch fv.Kind() {
			case reflect.Pointer:
				if fv.IsNil() {
					continue // absent
				}
				fv = fv.Elem()
			case reflect.Slice:
				// a slice cannot tell "absent" from "present and empty":
				// empty + bit clear = absent, anything else = present
				if fv.Len() == 0 && !bit {
					continue
				}
			default:
				return nil, fmt.Errorf("%s.%s is conditional but go field is %s", c.Name, f.Name, fv.Type())
			}
		}
		v, err := Extract(s, f.Type, fv)
		if err != nil {
			return nil, fmt.Errorf("%s.%s: %w", c.Name, f.Name, err)
		}
		o.Fields[si] = v
	}
	return o, nil
}

var emptyToggle uint64

// nilForEmpty alternates between the two Go representations of an empty
// byte string / vector (nil and empty non-nil), so that both are exercised.
func nilForEmpty() bool {
	emptyToggle++
	return emptyToggle%2 == 1
}
