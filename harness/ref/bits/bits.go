// Package bits is the ideal bit-list model: a []bool with a read cursor.
// It shares no code with tongo's boc.BitString.
package bits

import (
	"errors"
	"math/big"
	"strings"
)

var ErrRange = errors.New("model: out of range")

type List struct {
	B   []bool
	Cap int
	Cur int
}

func New(capacity int) *List { return &List{Cap: capacity} }

func FromBools(b []bool) *List { return &List{B: append([]bool(nil), b...), Cap: len(b)} }

func (l *List) Len() int      { return len(l.B) }
func (l *List) Avail() int    { return len(l.B) - l.Cur }
func (l *List) Room() int     { return l.Cap - len(l.B) }
func (l *List) Clone() *List  { return &List{B: append([]bool(nil), l.B...), Cap: l.Cap, Cur: l.Cur} }
func (l *List) Reset()        { l.Cur = 0 }
func (l *List) Rest() []bool  { return l.B[l.Cur:] }

// --- writes: all-or-nothing in the model ---

func (l *List) fits(n int) bool { return n >= 0 && len(l.B)+n <= l.Cap }

func (l *List) WriteBits(b []bool) error {
	if !l.fits(len(b)) {
		return ErrRange
	}
	l.B = append(l.B, b...)
	return nil
}

func UintBits(v uint64, n int) []bool {
	out := make([]bool, n)
	for i := 0; i < n; i++ {
		sh := n - 1 - i
		if sh < 64 {
			out[i] = (v>>uint(sh))&1 == 1
		}
	}
	return out
}

// IntBits is n-bit two's complement of v (n in 1..64).
func IntBits(v int64, n int) []bool { return UintBits(uint64(v), n) }

// BigBits is the n-bit two's complement (or unsigned) representation of v.
func BigBits(v *big.Int, n int) []bool {
	x := new(big.Int).Set(v)
	if x.Sign() < 0 {
		x.Add(x, new(big.Int).Lsh(big.NewInt(1), uint(n)))
	}
	out := make([]bool, n)
	for i := 0; i < n; i++ {
		out[i] = x.Bit(n-1-i) == 1
	}
	return out
}

func BytesBits(b []byte) []bool {
	out := make([]bool, 0, len(b)*8)
	for _, x := range b {
		for i := 7; i >= 0; i-- {
			out = append(out, (x>>uint(i))&1 == 1)
		}
	}
	return out
}

func UnaryBits(n int) []bool {
	out := make([]bool, n+1)
	for i := 0; i < n; i++ {
		out[i] = true
	}
	return out
}

// LimWidth is the number of bits of "#<= n": the bit length of n.
func LimWidth(n uint64) int {
	w := 0
	for n > 0 {
		w++
		n >>= 1
	}
	return w
}

// --- reads ---

func (l *List) Take(n int) ([]bool, error) {
	if n < 0 || l.Avail() < n {
		return nil, ErrRange
	}
	out := l.B[l.Cur : l.Cur+n]
	l.Cur += n
	return out, nil
}

func (l *List) Peek(n int) ([]bool, error) {
	if n < 0 || l.Avail() < n {
		return nil, ErrRange
	}
	return l.B[l.Cur : l.Cur+n], nil
}

func ToUint(b []bool) uint64 {
	var v uint64
	for _, x := range b {
		v <<= 1
		if x {
			v |= 1
		}
	}
	return v
}

// ToInt interprets b (1..64 bits) as two's complement.
func ToInt(b []bool) int64 {
	if len(b) == 0 {
		return 0
	}
	v := ToUint(b)
	if b[0] && len(b) < 64 {
		v |= ^uint64(0) << uint(len(b))
	}
	return int64(v)
}

func ToBigUint(b []bool) *big.Int {
	v := new(big.Int)
	for _, x := range b {
		v.Lsh(v, 1)
		if x {
			v.SetBit(v, 0, 1)
		}
	}
	return v
}

func ToBigInt(b []bool) *big.Int {
	v := ToBigUint(b)
	if len(b) > 0 && b[0] {
		v.Sub(v, new(big.Int).Lsh(big.NewInt(1), uint(len(b))))
	}
	return v
}

func ToBytes(b []bool) []byte {
	out := make([]byte, (len(b)+7)/8)
	for i, x := range b {
		if x {
			out[i/8] |= 1 << uint(7-i%8)
		}
	}
	return out
}

// ReadUnary counts ones up to the terminating zero.
func (l *List) ReadUnary() (int, error) {
	n := 0
	for {
		if l.Avail() < 1 {
			return 0, ErrRange
		}
		b := l.B[l.Cur]
		l.Cur++
		if !b {
			return n, nil
		}
		n++
	}
}

// --- Fift hex ---

const hexdigits = "0123456789ABCDEF"

// FiftHex prints the bit list in TON's hex form: nibbles, and if the length
// is not a multiple of 4 a completion tag (1 then zeros) and a trailing "_".
func FiftHex(b []bool) string {
	bb := append([]bool(nil), b...)
	tag := false
	if len(bb)%4 != 0 {
		tag = true
		bb = append(bb, true)
		for len(bb)%4 != 0 {
			bb = append(bb, false)
		}
	}
	var sb strings.Builder
	for i := 0; i < len(bb); i += 4 {
		sb.WriteByte(hexdigits[ToUint(bb[i:i+4])])
	}
	if tag {
		sb.WriteByte('_')
	}
	return sb.String()
}

func Equal(a, b []bool) bool {
	if len(a) != len(b) {
		return false
	}
	for i := range a {
		if a[i] != b[i] {
			return false
		}
	}
	return true
}

func String(b []bool) string {
	var sb strings.Builder
	for _, x := range b {
		if x {
			sb.WriteByte('1')
		} else {
			sb.WriteByte('0')
		}
	}
	return sb.String()
}
