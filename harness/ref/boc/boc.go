// Package boc is the reference bag-of-cells writer and strict reader,
// written from boc.tlb and crypto/vm/boc.cpp of the TON node. It shares no
// code with tongo.
package boc

import (
	"encoding/binary"
	"errors"
	"fmt"
	"hash/crc32"

	"verifharness/ref/cell"
)

const (
	MagicGeneric = 0xb5ee9c72
	MagicIdx     = 0x68ff65f3
	MagicIdxCRC  = 0xacc3a728
)

var castagnoli = crc32.MakeTable(crc32.Castagnoli)

// Options of the reference writer. Zero value = generic magic, no index, no
// CRC, minimal widths, depth-first order.
type Options struct {
	Magic      uint32
	Index      bool
	CRC        bool
	CacheBits  bool   // requires Index
	RefSize    int    // 0 = minimal; otherwise forced (1..4 valid; must be >= minimal)
	OffSize    int    // 0 = minimal; otherwise forced (1..8)
	WithHashes func(i int, c *cell.Cell) bool // per cell: store hashes/depths in front of the data
	Order      []*cell.Cell                   // explicit topological order (parents before children); nil = default
	RootsLast  bool                           // irrelevant when Order is given
	// Tamper, if set, may change the hash and depth that a with-hashes cell stores for its k-th
	// significant level (i = position of the cell in the bag). nil = the correct values. The result
	// is NOT a conforming bag (the strict reader rejects it); for negative inputs only.
	Tamper func(i int, c *cell.Cell, k int, h *cell.Hash, d *int)
}

func minBytes(v uint64) int {
	n := 1
	for v >= 256 {
		v >>= 8
		n++
	}
	return n
}

func putN(b []byte, v uint64, n int) []byte {
	for i := n - 1; i >= 0; i-- {
		b = append(b, byte(v>>(8*uint(i))))
	}
	return b
}

// TopoOrder returns all distinct cells (de-duplicated by representation
// hash) reachable from roots, every cell before all of its children.
// perm, if non-nil, randomises the choice among admissible orders: it is
// called with n and must return a value in [0,n).
func TopoOrder(roots []*cell.Cell, perm func(n int) int) []*cell.Cell {
	// canonical instance per hash
	canon := map[cell.Hash]*cell.Cell{}
	var collect func(c *cell.Cell)
	seenPtr := map[*cell.Cell]bool{}
	collect = func(c *cell.Cell) {
		if seenPtr[c] {
			return
		}
		seenPtr[c] = true
		if _, ok := canon[c.Hash()]; !ok {
			canon[c.Hash()] = c
		}
		for _, r := range c.Refs {
			collect(r)
		}
	}
	for _, r := range roots {
		collect(r)
	}
	// Kahn's algorithm on the de-duplicated graph
	indeg := map[cell.Hash]int{}
	for _, c := range canon {
		if _, ok := indeg[c.Hash()]; !ok {
			indeg[c.Hash()] = 0
		}
		for _, r := range c.Refs {
			indeg[r.Hash()]++
		}
	}
	// deterministic initial ready list: discovery order from roots
	var ready []*cell.Cell
	added := map[cell.Hash]bool{}
	var disc []*cell.Cell
	var dfs func(c *cell.Cell)
	vis := map[cell.Hash]bool{}
	dfs = func(c *cell.Cell) {
		h := c.Hash()
		if vis[h] {
			return
		}
		vis[h] = true
		disc = append(disc, canon[h])
		for _, r := range c.Refs {
			dfs(r)
		}
	}
	for _, r := range roots {
		dfs(r)
	}
	for _, c := range disc {
		if indeg[c.Hash()] == 0 && !added[c.Hash()] {
			ready = append(ready, c)
			added[c.Hash()] = true
		}
	}
	var out []*cell.Cell
	for len(ready) > 0 {
		k := 0
		if perm != nil {
			k = perm(len(ready))
		}
		c := ready[k]
		ready = append(ready[:k], ready[k+1:]...)
		out = append(out, c)
		for _, r := range c.Refs {
			h := r.Hash()
			indeg[h]--
			if indeg[h] == 0 && !added[h] {
				added[h] = true
				ready = append(ready, canon[h])
			}
		}
	}
	return out
}

// Write serialises the DAGs under roots.
func Write(roots []*cell.Cell, o Options) ([]byte, error) {
	for _, r := range roots {
		if err := r.Err(); err != nil {
			return nil, err
		}
	}
	if o.Magic == 0 {
		o.Magic = MagicGeneric
	}
	if o.Magic != MagicGeneric {
		o.Index = true
		o.CacheBits = false
		o.CRC = o.Magic == MagicIdxCRC
		if len(roots) != 1 {
			return nil, errors.New("idx formats have exactly one root")
		}
	}
	if o.CacheBits && !o.Index {
		return nil, errors.New("cache bits need an index")
	}
	order := o.Order
	if order == nil {
		order = TopoOrder(roots, nil)
	}
	pos := map[cell.Hash]int{}
	for i, c := range order {
		pos[c.Hash()] = i
	}
	if o.Magic != MagicGeneric && pos[roots[0].Hash()] != 0 {
		return nil, errors.New("idx formats need the root first")
	}
	n := len(order)
	refSize := minBytes(uint64(n))
	if o.RefSize != 0 {
		if o.RefSize < refSize {
			return nil, errors.New("ref size too small")
		}
		refSize = o.RefSize
	}
	// in-degree for cache bits
	indeg := make([]int, n)
	for _, c := range order {
		for _, r := range c.Refs {
			indeg[pos[r.Hash()]]++
		}
	}
	var data []byte
	ends := make([]uint64, n)
	for i, c := range order {
		wh := o.WithHashes != nil && o.WithHashes(i, c)
		d1 := c.D1(c.Mask())
		if wh {
			d1 |= 16
		}
		data = append(data, d1, c.D2())
		if wh {
			lv := c.SignificantLevels()
			hs, ds := make([]cell.Hash, len(lv)), make([]int, len(lv))
			for k, l := range lv {
				hs[k], ds[k] = c.HashAt(l), c.DepthAt(l)
				if o.Tamper != nil {
					o.Tamper(i, c, k, &hs[k], &ds[k])
				}
			}
			for k := range lv {
				data = append(data, hs[k][:]...)
			}
			for k := range lv {
				data = append(data, byte(ds[k]>>8), byte(ds[k]))
			}
		}
		data = append(data, c.Data()...)
		for _, r := range c.Refs {
			j, ok := pos[r.Hash()]
			if !ok || j <= i {
				return nil, fmt.Errorf("order is not topological at %d", i)
			}
			data = putN(data, uint64(j), refSize)
		}
		ends[i] = uint64(len(data))
	}
	maxOff := uint64(len(data))
	if o.CacheBits {
		maxOff = maxOff*2 + 1
	}
	offSize := minBytes(maxOff)
	if o.OffSize != 0 {
		if o.OffSize < offSize {
			return nil, errors.New("offset size too small")
		}
		offSize = o.OffSize
	}
	out := make([]byte, 0, len(data)+64+n*offSize)
	out = binary.BigEndian.AppendUint32(out, o.Magic)
	if o.Magic == MagicGeneric {
		var f byte = byte(refSize)
		if o.Index {
			f |= 0x80
		}
		if o.CRC {
			f |= 0x40
		}
		if o.CacheBits {
			f |= 0x20
		}
		out = append(out, f)
	} else {
		out = append(out, byte(refSize))
	}
	out = append(out, byte(offSize))
	out = putN(out, uint64(n), refSize)
	out = putN(out, uint64(len(roots)), refSize)
	out = putN(out, 0, refSize)
	out = putN(out, uint64(len(data)), offSize)
	if o.Magic == MagicGeneric {
		for _, r := range roots {
			out = putN(out, uint64(pos[r.Hash()]), refSize)
		}
	}
	if o.Index {
		for i := range order {
			v := ends[i]
			if o.CacheBits {
				v *= 2
				if indeg[i] > 1 {
					v++
				}
			}
			out = putN(out, v, offSize)
		}
	}
	out = append(out, data...)
	if o.CRC {
		out = binary.LittleEndian.AppendUint32(out, crc32.Checksum(out, castagnoli))
	}
	return out, nil
}

// Header is what the strict reader saw.
type Header struct {
	Magic     uint32
	Index     bool
	CRC       bool
	CacheBits bool
	Flags     int
	RefSize   int
	OffSize   int
	Cells     int
	Roots     int
	Absent    int
	DataSize  int
	RootIdx   []int
	IndexVals []uint64
	WithHash  int // number of cells that carried stored hashes
}

func getN(b []byte, n int) uint64 {
	var v uint64
	for i := 0; i < n; i++ {
		v = v<<8 | uint64(b[i])
	}
	return v
}

// Read parses a bag of cells strictly: every header field, index entry,
// stored hash and the CRC are verified. It returns the roots, all cells in
// file order and the header.
func Read(b []byte) ([]*cell.Cell, []*cell.Cell, *Header, error) {
	if len(b) < 6 {
		return nil, nil, nil, errors.New("short")
	}
	h := &Header{Magic: binary.BigEndian.Uint32(b)}
	fb := b[4]
	switch h.Magic {
	case MagicGeneric:
		h.Index, h.CRC, h.CacheBits = fb&0x80 != 0, fb&0x40 != 0, fb&0x20 != 0
		h.Flags = int(fb>>3) & 3
		h.RefSize = int(fb & 7)
	case MagicIdx, MagicIdxCRC:
		h.Index, h.CRC = true, h.Magic == MagicIdxCRC
		h.RefSize = int(fb)
	default:
		return nil, nil, nil, errors.New("magic")
	}
	// has_cache_bits without has_idx: allowed by the TL-B scheme, rejected by the
	// C++ node; accepted here (there is simply no index to carry the bits).
	if h.Flags != 0 {
		return nil, nil, nil, errors.New("flags != 0")
	}
	if h.RefSize < 1 || h.RefSize > 4 {
		return nil, nil, nil, errors.New("ref size")
	}
	h.OffSize = int(b[5])
	if h.OffSize < 1 || h.OffSize > 8 {
		return nil, nil, nil, errors.New("off size")
	}
	p := 6
	need := func(n int) error {
		if n < 0 || p+n > len(b) {
			return errors.New("truncated")
		}
		return nil
	}
	if err := need(3*h.RefSize + h.OffSize); err != nil {
		return nil, nil, nil, err
	}
	h.Cells = int(getN(b[p:], h.RefSize))
	h.Roots = int(getN(b[p+h.RefSize:], h.RefSize))
	h.Absent = int(getN(b[p+2*h.RefSize:], h.RefSize))
	h.DataSize = int(getN(b[p+3*h.RefSize:], h.OffSize))
	p += 3*h.RefSize + h.OffSize
	if h.Cells < 1 || h.Roots < 1 || h.Absent != 0 || h.Roots > h.Cells {
		return nil, nil, nil, fmt.Errorf("counts cells=%d roots=%d absent=%d", h.Cells, h.Roots, h.Absent)
	}
	if h.Magic == MagicGeneric {
		if err := need(h.Roots * h.RefSize); err != nil {
			return nil, nil, nil, err
		}
		for i := 0; i < h.Roots; i++ {
			h.RootIdx = append(h.RootIdx, int(getN(b[p:], h.RefSize)))
			p += h.RefSize
		}
	} else {
		if h.Roots != 1 {
			return nil, nil, nil, errors.New("idx format with roots != 1")
		}
		h.RootIdx = []int{0}
	}
	if h.Index {
		if err := need(h.Cells * h.OffSize); err != nil {
			return nil, nil, nil, err
		}
		for i := 0; i < h.Cells; i++ {
			h.IndexVals = append(h.IndexVals, getN(b[p:], h.OffSize))
			p += h.OffSize
		}
	}
	if err := need(h.DataSize); err != nil {
		return nil, nil, nil, err
	}
	data := b[p : p+h.DataSize]
	p += h.DataSize
	if h.CRC {
		if err := need(4); err != nil {
			return nil, nil, nil, err
		}
		if binary.LittleEndian.Uint32(b[p:]) != crc32.Checksum(b[:p], castagnoli) {
			return nil, nil, nil, errors.New("crc mismatch")
		}
		p += 4
	}
	if p != len(b) {
		return nil, nil, nil, errors.New("trailing bytes")
	}
	type raw struct {
		c        *cell.Cell
		refs     []int
		mask     uint8
		stored   []byte
		withHash bool
		end      int
	}
	raws := make([]raw, h.Cells)
	q := 0
	for i := 0; i < h.Cells; i++ {
		if q+2 > len(data) {
			return nil, nil, nil, fmt.Errorf("cell %d: truncated descriptors", i)
		}
		d1, d2 := data[q], data[q+1]
		q += 2
		nrefs := int(d1 & 7)
		exotic := d1&8 != 0
		wh := d1&16 != 0
		mask := d1 >> 5
		if nrefs > 4 {
			return nil, nil, nil, fmt.Errorf("cell %d: %d refs", i, nrefs)
		}
		r := raw{mask: mask, withHash: wh}
		if wh {
			k := (popcount(mask) + 1) * 34
			if q+k > len(data) {
				return nil, nil, nil, fmt.Errorf("cell %d: truncated hashes", i)
			}
			r.stored = data[q : q+k]
			q += k
			h.WithHash++
		}
		nbytes := int(d2>>1) + int(d2&1)
		if q+nbytes+nrefs*h.RefSize > len(data) {
			return nil, nil, nil, fmt.Errorf("cell %d: truncated data", i)
		}
		bitsv := cell.BytesBits(data[q : q+nbytes])
		if d2&1 != 0 {
			// strip completion tag
			k := len(bitsv) - 1
			for k >= 0 && !bitsv[k] {
				k--
			}
			if k < len(bitsv)-8 || k < 0 {
				return nil, nil, nil, fmt.Errorf("cell %d: bad completion tag", i)
			}
			bitsv = bitsv[:k]
		}
		q += nbytes
		for k := 0; k < nrefs; k++ {
			j := int(getN(data[q:], h.RefSize))
			q += h.RefSize
			if j <= i || j >= h.Cells {
				return nil, nil, nil, fmt.Errorf("cell %d: ref %d out of order/range", i, j)
			}
			r.refs = append(r.refs, j)
		}
		r.c = cell.New(bitsv, exotic)
		r.end = q
		raws[i] = r
	}
	if q != len(data) {
		return nil, nil, nil, errors.New("cell data size mismatch")
	}
	for i := h.Cells - 1; i >= 0; i-- {
		for _, j := range raws[i].refs {
			raws[i].c.Refs = append(raws[i].c.Refs, raws[j].c)
		}
	}
	all := make([]*cell.Cell, h.Cells)
	for i := h.Cells - 1; i >= 0; i-- {
		c := raws[i].c
		all[i] = c
		if err := c.Err(); err != nil {
			return nil, nil, nil, fmt.Errorf("cell %d: %v", i, err)
		}
		if c.Mask() != raws[i].mask {
			return nil, nil, nil, fmt.Errorf("cell %d: level mask in d1 is %d, derived %d", i, raws[i].mask, c.Mask())
		}
		if raws[i].withHash {
			st := raws[i].stored
			n := popcount(raws[i].mask) + 1
			for k, l := range c.SignificantLevels() {
				hh := c.HashAt(l)
				if string(st[32*k:32*k+32]) != string(hh[:]) {
					return nil, nil, nil, fmt.Errorf("cell %d: stored hash %d wrong", i, k)
				}
				d := c.DepthAt(l)
				if int(st[32*n+2*k])<<8|int(st[32*n+2*k+1]) != d {
					return nil, nil, nil, fmt.Errorf("cell %d: stored depth %d wrong", i, k)
				}
			}
		}
		if h.Index {
			v := h.IndexVals[i]
			if h.CacheBits {
				v >>= 1
			}
			if int(v) != raws[i].end {
				return nil, nil, nil, fmt.Errorf("index entry %d = %d, cell ends at %d", i, v, raws[i].end)
			}
		}
	}
	var roots []*cell.Cell
	for _, ri := range h.RootIdx {
		if ri < 0 || ri >= h.Cells {
			return nil, nil, nil, errors.New("root index out of range")
		}
		roots = append(roots, all[ri])
	}
	return roots, all, h, nil
}

func popcount(m uint8) int {
	n := 0
	for ; m != 0; m &= m - 1 {
		n++
	}
	return n
}
