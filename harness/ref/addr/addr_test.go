package addr

import "testing"

func TestSelfCheck(t *testing.T) {
	n, err := SelfCheck("/repo")
	if err != nil {
		t.Fatal(err)
	}
	t.Logf("%d vectors", n)
}
