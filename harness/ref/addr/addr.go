// Package addr is the reference model of TON address forms and shard-id
// arithmetic, written from the TON documentation ("smart contract
// addresses": user-friendly form = tag ‖ workchain ‖ hash ‖ CRC16-XMODEM,
// base64 / base64url; raw form "wc:hex"), block.tlb (MsgAddressInt,
// ShardIdent) and the node's shard helpers' *description* (a shard id is the
// prefix bits followed by a single 1 and zeros). It shares no code with tongo
// and uses neither encoding/base64 nor encoding/base32 nor a CRC library:
// the tables below are spelled out so that the model is independent of what
// tongo links against.
package addr

import (
	"errors"
	"fmt"
	"strconv"
	"strings"
)

// ---------------------------------------------------------------- CRC16

// CRC16 is CRC-16/XMODEM: polynomial x^16+x^12+x^5+1 (0x1021), initial
// value 0, no reflection, no final xor; computed one bit at a time.
func CRC16(data []byte) uint16 {
	var reg uint16
	for _, b := range data {
		for i := 7; i >= 0; i-- {
			in := (b >> uint(i)) & 1
			top := byte(reg >> 15)
			reg <<= 1
			if top^in == 1 {
				reg ^= 0x1021
			}
		}
	}
	return reg
}

// ---------------------------------------------------------------- base64

const (
	AlphaStd = "ABCDEFGHIJKLMNOPQRSTUVWXYZabcdefghijklmnopqrstuvwxyz0123456789+/"
	AlphaURL = "ABCDEFGHIJKLMNOPQRSTUVWXYZabcdefghijklmnopqrstuvwxyz0123456789-_"
)

// Alphabet returns the 64 digits of the standard or URL-safe alphabet.
func Alphabet(url bool) string {
	if url {
		return AlphaURL
	}
	return AlphaStd
}

// B64Encode encodes b (length must be a multiple of 3: no padding is ever
// needed for the 36-byte address form).
func B64Encode(b []byte, url bool) string {
	if len(b)%3 != 0 {
		panic("addr.B64Encode: length not a multiple of 3")
	}
	al := Alphabet(url)
	var sb strings.Builder
	for i := 0; i < len(b); i += 3 {
		v := uint32(b[i])<<16 | uint32(b[i+1])<<8 | uint32(b[i+2])
		sb.WriteByte(al[v>>18&63])
		sb.WriteByte(al[v>>12&63])
		sb.WriteByte(al[v>>6&63])
		sb.WriteByte(al[v&63])
	}
	return sb.String()
}

// B64Decode decodes an unpadded string whose length is a multiple of 4;
// digits of both alphabets are accepted (as wallets do).
func B64Decode(s string) ([]byte, error) {
	if len(s)%4 != 0 {
		return nil, errors.New("length not a multiple of 4")
	}
	val := func(c byte) int {
		switch {
		case c >= 'A' && c <= 'Z':
			return int(c - 'A')
		case c >= 'a' && c <= 'z':
			return int(c-'a') + 26
		case c >= '0' && c <= '9':
			return int(c-'0') + 52
		case c == '+' || c == '-':
			return 62
		case c == '/' || c == '_':
			return 63
		}
		return -1
	}
	out := make([]byte, 0, len(s)/4*3)
	for i := 0; i < len(s); i += 4 {
		var v uint32
		for k := 0; k < 4; k++ {
			d := val(s[i+k])
			if d < 0 {
				return nil, fmt.Errorf("not a base64 digit at %d", i+k)
			}
			v = v<<6 | uint32(d)
		}
		out = append(out, byte(v>>16), byte(v>>8), byte(v))
	}
	return out, nil
}

// ---------------------------------------------------------------- user-friendly form

// Friendly renders the 48-character user-friendly form:
// tag (0x11 bounceable, 0x51 non-bounceable, +0x80 test-only) ‖ workchain
// (signed byte) ‖ 32-byte account hash ‖ CRC16 big-endian.
func Friendly(wc int8, hash [32]byte, bounceable, testnet, url bool) string {
	tag := byte(0x11)
	if !bounceable {
		tag = 0x51
	}
	if testnet {
		tag |= 0x80
	}
	buf := make([]byte, 0, 36)
	buf = append(buf, tag, byte(wc))
	buf = append(buf, hash[:]...)
	c := CRC16(buf)
	buf = append(buf, byte(c>>8), byte(c))
	return B64Encode(buf, url)
}

type FriendlyInfo struct {
	Workchain  int8
	Hash       [32]byte
	Bounceable bool
	Testnet    bool
}

// ParseFriendly is the strict reader of the user-friendly form.
func ParseFriendly(s string) (FriendlyInfo, error) {
	var fi FriendlyInfo
	if len(s) != 48 {
		return fi, errors.New("user-friendly form has 48 characters")
	}
	b, err := B64Decode(s)
	if err != nil {
		return fi, err
	}
	if CRC16(b[:34]) != uint16(b[34])<<8|uint16(b[35]) {
		return fi, errors.New("checksum")
	}
	tag := b[0]
	if tag&0x80 != 0 {
		fi.Testnet = true
		tag &^= 0x80
	}
	switch tag {
	case 0x11:
		fi.Bounceable = true
	case 0x51:
	default:
		return fi, errors.New("unknown tag")
	}
	fi.Workchain = int8(b[1])
	copy(fi.Hash[:], b[2:34])
	return fi, nil
}

// ---------------------------------------------------------------- raw form, TL, TL-B

const hexdigits = "0123456789abcdef"

func hexOf(b []byte, upper bool) string {
	var sb strings.Builder
	for _, x := range b {
		sb.WriteByte(hexdigits[x>>4])
		sb.WriteByte(hexdigits[x&15])
	}
	if upper {
		return strings.ToUpper(sb.String())
	}
	return sb.String()
}

// Raw renders "workchain:64 hex digits".
func Raw(wc int32, hash [32]byte, upper bool) string {
	return strconv.FormatInt(int64(wc), 10) + ":" + hexOf(hash[:], upper)
}

// ParseRaw reads "wc:hex"; hex shorter than 64 digits is left-filled with
// zeros (the behaviour tongo documents in its tests), either case accepted.
func ParseRaw(s string) (int32, [32]byte, error) {
	var h [32]byte
	i := strings.IndexByte(s, ':')
	if i < 0 {
		return 0, h, errors.New("no colon")
	}
	w, err := strconv.ParseInt(s[:i], 10, 32)
	if err != nil {
		return 0, h, err
	}
	hx := s[i+1:]
	if len(hx) > 64 {
		return 0, h, errors.New("too long")
	}
	hx = strings.Repeat("0", 64-len(hx)) + hx
	for k := 0; k < 64; k++ {
		c := hx[k]
		var d byte
		switch {
		case c >= '0' && c <= '9':
			d = c - '0'
		case c >= 'a' && c <= 'f':
			d = c - 'a' + 10
		case c >= 'A' && c <= 'F':
			d = c - 'A' + 10
		default:
			return 0, h, errors.New("not hex")
		}
		if k%2 == 0 {
			h[k/2] = d << 4
		} else {
			h[k/2] |= d
		}
	}
	return int32(w), h, nil
}

// TL is the lite-server form liteServer.accountId workchain:int id:int256:
// 4 bytes little-endian two's complement, then the 32 bytes.
func TL(wc int32, hash [32]byte) []byte {
	u := uint32(wc)
	out := []byte{byte(u), byte(u >> 8), byte(u >> 16), byte(u >> 24)}
	return append(out, hash[:]...)
}

func uintBits(v uint64, n int) []bool {
	out := make([]bool, n)
	for i := 0; i < n; i++ {
		out[i] = v>>(uint(n-1-i))&1 == 1
	}
	return out
}

func bytesBits(b []byte) []bool {
	out := make([]bool, 0, 8*len(b))
	for _, x := range b {
		out = append(out, uintBits(uint64(x), 8)...)
	}
	return out
}

// AddrStdBits encodes
//
//	addr_std$10 anycast:(Maybe Anycast) workchain_id:int8 address:bits256 = MsgAddressInt;
//	anycast_info$_ depth:(#<= 30) { depth >= 1 } rewrite_pfx:(bits depth) = Anycast;
//
// depth 0 means "no anycast". (#<= 30) is a 5-bit field.
func AddrStdBits(depth int, rewritePfx uint32, wc int8, hash [32]byte) []bool {
	out := []bool{true, false}
	if depth == 0 {
		out = append(out, false)
	} else {
		out = append(out, true)
		out = append(out, uintBits(uint64(depth), 5)...)
		out = append(out, uintBits(uint64(rewritePfx), depth)...)
	}
	out = append(out, uintBits(uint64(uint8(wc)), 8)...)
	return append(out, bytesBits(hash[:])...)
}

// Rewrite applies an anycast rewrite: the first depth bits of the address
// are replaced by rewrite_pfx (most significant bit of the prefix first).
func Rewrite(hash [32]byte, depth int, rewritePfx uint32) [32]byte {
	out := hash
	for i := 0; i < depth; i++ {
		bit := rewritePfx>>(uint(depth-1-i))&1 == 1
		m := byte(0x80) >> uint(i%8)
		if bit {
			out[i/8] |= m
		} else {
			out[i/8] &^= m
		}
	}
	return out
}

// ---------------------------------------------------------------- shards

// MakeShard builds the shard id for the first n bits of prefix (taken from
// the top of the word): those bits, a single 1, zeros. 0 <= n <= 63.
func MakeShard(prefix uint64, n int) uint64 {
	var s uint64
	for i := 0; i < n; i++ {
		if prefix>>(63-uint(i))&1 == 1 {
			s |= 1 << (63 - uint(i))
		}
	}
	return s | 1<<(63-uint(n))
}

// ShardLen is the prefix length of a shard id (position of the lowest 1
// counted from the top); ok=false for 0, which is not a shard id.
func ShardLen(s uint64) (n int, ok bool) {
	if s == 0 {
		return 0, false
	}
	low := 0
	for s>>uint(low)&1 == 0 {
		low++
	}
	return 63 - low, true
}

func bitOfAddr(a [32]byte, i int) bool { return a[i/8]>>(7-uint(i%8))&1 == 1 }
func bitOfWord(w uint64, i int) bool   { return w>>(63-uint(i))&1 == 1 }

// Contains: the shard's prefix is a binary prefix of the 256-bit address.
func Contains(s uint64, a [32]byte) bool {
	n, ok := ShardLen(s)
	if !ok {
		return false
	}
	for i := 0; i < n; i++ {
		if bitOfWord(s, i) != bitOfAddr(a, i) {
			return false
		}
	}
	return true
}

// IsAncestor: a's prefix is a (not necessarily proper) prefix of b's prefix.
func IsAncestor(a, b uint64) bool {
	na, ok1 := ShardLen(a)
	nb, ok2 := ShardLen(b)
	if !ok1 || !ok2 || na > nb {
		return false
	}
	for i := 0; i < na; i++ {
		if bitOfWord(a, i) != bitOfWord(b, i) {
			return false
		}
	}
	return true
}

// Intersects: the two shards share accounts, i.e. one is an ancestor of the other.
func Intersects(a, b uint64) bool { return IsAncestor(a, b) || IsAncestor(b, a) }

// Child appends one bit (false = left, 0) to the shard's prefix.
func Child(s uint64, right bool) uint64 {
	n, _ := ShardLen(s)
	p := s &^ (1 << (63 - uint(n))) // the prefix bits alone
	if right {
		p |= 1 << (63 - uint(n))
	}
	return MakeShard(p, n+1)
}

// Parent drops the last bit of the prefix (n >= 1).
func Parent(s uint64) uint64 {
	n, _ := ShardLen(s)
	return MakeShard(s, n-1)
}

// ---------------------------------------------------------------- ADNL

const alphaB32 = "abcdefghijklmnopqrstuvwxyz234567"

// ADNLToBase32: byte 0x2d ‖ 32-byte ADNL address ‖ CRC16 big-endian (35
// bytes = 56 base32 digits, lower case); the first digit is always 'f' and
// is dropped, leaving 55 characters.
func ADNLToBase32(a [32]byte) string {
	buf := append([]byte{0x2d}, a[:]...)
	c := CRC16(buf)
	buf = append(buf, byte(c>>8), byte(c))
	var bits []bool
	bits = append(bits, bytesBits(buf)...)
	var sb strings.Builder
	for i := 0; i < len(bits); i += 5 {
		v := 0
		for k := 0; k < 5; k++ {
			v <<= 1
			if bits[i+k] {
				v |= 1
			}
		}
		sb.WriteByte(alphaB32[v])
	}
	return sb.String()[1:]
}

// ParseADNL is the strict reader of the 55-character form.
func ParseADNL(s string) ([32]byte, error) {
	var out [32]byte
	if len(s) != 55 {
		return out, errors.New("adnl base32 form has 55 characters")
	}
	s = "f" + s
	var bits []bool
	for i := 0; i < len(s); i++ {
		v := strings.IndexByte(alphaB32, s[i])
		if v < 0 {
			return out, errors.New("not a base32 digit")
		}
		bits = append(bits, uintBits(uint64(v), 5)...)
	}
	buf := make([]byte, 35)
	for i, b := range bits {
		if b {
			buf[i/8] |= 0x80 >> uint(i%8)
		}
	}
	if buf[0] != 0x2d {
		return out, errors.New("first byte")
	}
	if CRC16(buf[:33]) != uint16(buf[33])<<8|uint16(buf[34]) {
		return out, errors.New("checksum")
	}
	copy(out[:], buf[1:33])
	return out, nil
}
