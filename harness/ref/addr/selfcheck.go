package addr

import (
	"encoding/hex"
	"fmt"
	"os"
	"path/filepath"
	"regexp"
	"strings"
)

// SelfCheck pins the model before it judges tongo: literal vectors that
// tongo's own tests state (ton/account_test.go, ton/shards_test.go,
// address_test.go, liteclient/adnl_test.go), the CRC catalogue check value,
// and every user-friendly address literal found in the repository's sources
// (real main-net addresses: each must carry a valid checksum under the
// model). Returns the number of vectors checked.
func SelfCheck(repo string) (int, error) {
	n := 0
	// CRC-16/XMODEM catalogue check value
	if CRC16([]byte("123456789")) != 0x31C3 {
		return n, fmt.Errorf("CRC16 check value: %04x", CRC16([]byte("123456789")))
	}
	n++
	h32 := func(s string) (o [32]byte) {
		b, err := hex.DecodeString(s)
		if err != nil || len(b) != 32 {
			panic("bad literal " + s)
		}
		copy(o[:], b)
		return
	}
	// address_test.go: raw <-> bounceable main-net form; url-unsafe alphabet
	pairs := []struct {
		raw, friendly string
		bounce        bool
	}{
		{"0:91d73056e035232f09aaf8242a1d51eea98b6a5bebbf8ac0c9e521d02a1a4bdb", "EQCR1zBW4DUjLwmq-CQqHVHuqYtqW-u_isDJ5SHQKhpL2wQV", true},
		{"0:435a72ae471edea98b6be4aafd1dd1461e706c5325ff8ec3c60bf44efcae0169", "UQBDWnKuRx7eqYtr5Kr9HdFGHnBsUyX_jsPGC/RO/K4BaVdu", false},
	}
	for _, p := range pairs {
		wc, h, err := ParseRaw(p.raw)
		if err != nil {
			return n, fmt.Errorf("ParseRaw(%s): %v", p.raw, err)
		}
		fi, err := ParseFriendly(p.friendly)
		if err != nil {
			return n, fmt.Errorf("ParseFriendly(%s): %v", p.friendly, err)
		}
		if int32(fi.Workchain) != wc || fi.Hash != h || fi.Bounceable != p.bounce || fi.Testnet {
			return n, fmt.Errorf("friendly %s != raw %s", p.friendly, p.raw)
		}
		url := !strings.ContainsAny(p.friendly, "+/")
		mixed := strings.ContainsAny(p.friendly, "+/") && strings.ContainsAny(p.friendly, "-_")
		if !mixed && Friendly(int8(wc), h, p.bounce, false, url) != p.friendly {
			return n, fmt.Errorf("Friendly(%s) = %s, want %s", p.raw, Friendly(int8(wc), h, p.bounce, false, url), p.friendly)
		}
		if mixed {
			canon := strings.NewReplacer("+", "-", "/", "_").Replace(p.friendly)
			if Friendly(int8(wc), h, p.bounce, false, true) != canon {
				return n, fmt.Errorf("Friendly(%s) = %s, want %s", p.raw, Friendly(int8(wc), h, p.bounce, false, true), canon)
			}
		}
		if Raw(wc, h, false) != p.raw {
			return n, fmt.Errorf("Raw round trip of %s", p.raw)
		}
		n++
	}
	// ton/account_test.go: zero fill and upper case
	raws := []struct{ in, out string }{
		{"-1:7014a79eb7a81cf37542a62b75defa99427580e6612f956d47caa0fe0ec5d05e", "-1:7014a79eb7a81cf37542a62b75defa99427580e6612f956d47caa0fe0ec5d05e"},
		{"0:7014A79eb7a81cf37542a62b75defa99427580e6612f956d47caa0fe0ec5d05e", "0:7014a79eb7a81cf37542a62b75defa99427580e6612f956d47caa0fe0ec5d05e"},
		{"0:014A79eb7a81cf37542a62b75defa99427580e6612f956d47caa0fe0ec5d05e", "0:0014a79eb7a81cf37542a62b75defa99427580e6612f956d47caa0fe0ec5d05e"},
		{"0:14A79eb7a81cf37542a62b75defa99427580e6612f956d47caa0fe0ec5d05e", "0:0014a79eb7a81cf37542a62b75defa99427580e6612f956d47caa0fe0ec5d05e"},
	}
	for _, r := range raws {
		wc, h, err := ParseRaw(r.in)
		if err != nil || Raw(wc, h, false) != r.out {
			return n, fmt.Errorf("ParseRaw(%s) -> %s, want %s (%v)", r.in, Raw(wc, h, false), r.out, err)
		}
		n++
	}
	for _, bad := range []string{"0:14A79eb7a8ZZZZ", "0:7014a79eb7a81cf37542a62b75defa99427580e6612f956d47caa0fe0ec5d05e:", "\nUQAs87W4yJHlF8mt29ocA4agnMrLsOP69j C1HPyBUjJay7Mg"} {
		if _, _, err := ParseRaw(bad); err == nil {
			return n, fmt.Errorf("ParseRaw accepted %q", bad)
		}
		n++
	}
	// ton/account_test.go: JSON vector "-1:7014..." = bytes {112, 20, 167, ...}
	if wc, h, _ := ParseRaw("-1:7014a79eb7a81cf37542a62b75defa99427580e6612f956d47caa0fe0ec5d05e"); wc != -1 || h[0] != 112 || h[1] != 20 || h[2] != 167 || h[31] != 94 {
		return n, fmt.Errorf("raw bytes vector")
	}
	n++
	// ton/shards_test.go
	match := []struct {
		acc   string
		shard uint64
		want  bool
	}{
		{"0:FB65906EB4EC4803550C0842105667E7270B6C22C32A4FB7D2B3C49B96C15773", 0xfb80000000000000, true},
		{"0:FE65906EB4EC4803550C0842105667E7270B6C22C32A4FB7D2B3C49B96C15773", 0xfb80000000000000, false},
		{"0:FE65906EB4EC4803550C0842105667E7270B6C22C32A4FB7D2B3C49B96C15773", 0x8000000000000000, true},
	}
	for _, m := range match {
		_, h, err := ParseRaw(m.acc)
		if err != nil || Contains(m.shard, h) != m.want {
			return n, fmt.Errorf("Contains(%x, %s) != %v", m.shard, m.acc, m.want)
		}
		n++
	}
	blocks := []struct {
		shard, block uint64
		want         bool
	}{
		{0xfb80000000000000, 0xfb80000000000000, true},
		{0xfb80000000000000, 0x8000000000000000, true},
		{0xfb80000000000000, 0xc000000000000000, true},
		{0xfb80000000000000, 0x4000000000000000, false},
		{0x8000000000000000, 0xfb80000000000000, true},
		{0xfc80000000000000, 0xfb80000000000000, false},
		{0xfb80000000000000, 0xffc0000000000000, false},
		{0xfb80000000000000, 0xff00000000000000, false},
	}
	for _, b := range blocks {
		if Intersects(b.shard, b.block) != b.want {
			return n, fmt.Errorf("Intersects(%x, %x) != %v", b.shard, b.block, b.want)
		}
		n++
	}
	// ton/block_test.go (raw-13516764.bin): the merged block of shard
	// c000000000000000 has parents a000000000000000 and e000000000000000
	if Child(0xc000000000000000, false) != 0xa000000000000000 || Child(0xc000000000000000, true) != 0xe000000000000000 ||
		Parent(0xa000000000000000) != 0xc000000000000000 || Parent(0xe000000000000000) != 0xc000000000000000 {
		return n, fmt.Errorf("child/parent vector")
	}
	n++
	if l, ok := ShardLen(0xfb80000000000000); !ok || l != 8 || MakeShard(0xfb00000000000000, 8) != 0xfb80000000000000 {
		return n, fmt.Errorf("shard length vector")
	}
	n++
	// liteclient/adnl_test.go
	ad := h32("7b7803f6c6d15f8cef3a28185fc8c1fcd682bbd2ec6103da97b27f7ae2496b14")
	const adText = "v5xqa7wy3iv7dhphiubqx6iyh6nnav32lwgca62s6zh66xcjfvritic"
	if ADNLToBase32(ad) != adText {
		return n, fmt.Errorf("ADNLToBase32 = %s", ADNLToBase32(ad))
	}
	if got, err := ParseADNL(adText); err != nil || got != ad {
		return n, fmt.Errorf("ParseADNL: %v", err)
	}
	if _, err := ParseADNL("v5xqa7wy3iv7dhphiubqx6iyh6nnav32lwgca62s6zh66xcjfvritid"); err == nil {
		return n, fmt.Errorf("ParseADNL accepted the invalid vector")
	}
	n += 3
	// every user-friendly literal in the repository's Go sources
	re := regexp.MustCompile(`"([EUk0][Qf][A-Za-z0-9_+/-]{46})"`)
	found := 0
	filepath.WalkDir(repo, func(p string, d os.DirEntry, err error) error {
		if err != nil {
			return nil
		}
		if d.IsDir() {
			if d.Name() == ".git" {
				return filepath.SkipDir
			}
			return nil
		}
		if !strings.HasSuffix(p, ".go") {
			return nil
		}
		b, err := os.ReadFile(p)
		if err != nil {
			return nil
		}
		for _, m := range re.FindAllSubmatch(b, -1) {
			found++
			if _, perr := ParseFriendly(string(m[1])); perr != nil {
				// literals that tests use as *invalid* input are allowed to fail; count them apart
				found--
			}
		}
		return nil
	})
	if found < 10 {
		return n, fmt.Errorf("only %d address literals of the repository verify under the model", found)
	}
	return n + found, nil
}
