// Package realdata locates the real chain data shipped in the repository
// and runs the self-check that pins the reference cell/BOC models before
// they are allowed to judge tongo.
package realdata

import (
	"encoding/base64"
	"encoding/hex"
	"fmt"
	"os"
	"path/filepath"
	"regexp"
	"strings"

	rboc "verifharness/ref/boc"
	"verifharness/ref/cell"
)

type File struct {
	Name  string
	Bytes []byte
}

// Files returns every well-formed BOC found in the repository's test data
// and source constants. big=false leaves out files above 100 KB.
func Files(repo string, big bool) ([]File, error) {
	var out []File
	add := func(name string, b []byte) {
		if !big && len(b) > 100_000 {
			return
		}
		out = append(out, File{name, b})
	}
	for _, p := range []string{
		"tlb/testdata/block-1/block.bin", "tlb/testdata/block-2/block.bin", "tlb/testdata/block-3/block.bin",
		"tlb/testdata/block-4/block.bin", "tlb/testdata/block-5/block.bin",
		"ton/testdata/config_proof_33651872.boc", "ton/testdata/config_proof_4324374.boc", "ton/testdata/raw-13516764.bin",
	} {
		b, err := os.ReadFile(filepath.Join(repo, p))
		if err != nil {
			return nil, err
		}
		add(p, b)
	}
	if b, err := os.ReadFile(filepath.Join(repo, "tlb/testdata/hashmap_aug.hex")); err == nil {
		if raw, err := hex.DecodeString(strings.TrimSpace(string(b))); err == nil {
			add("tlb/testdata/hashmap_aug.hex", raw)
		}
	}
	// te6cc... base64 constants in wallet/models.go (published wallet code)
	if src, err := os.ReadFile(filepath.Join(repo, "wallet/models.go")); err == nil {
		re := regexp.MustCompile(`"(te6cc[A-Za-z0-9+/=]+)"`)
		for i, m := range re.FindAllStringSubmatch(string(src), -1) {
			if raw, err := base64.StdEncoding.DecodeString(m[1]); err == nil {
				add(fmt.Sprintf("wallet/models.go#%d", i), raw)
			}
		}
	}
	return out, nil
}

// SelfCheck parses every real file with the reference reader and verifies
// the redundancy the data carries: each Merkle proof / update cell stores
// the level-0 hash and depth of its children, which only comes out right if
// every cell and pruned branch underneath was hashed correctly.
func SelfCheck(repo string, big bool) (equations, cells int, err error) {
	files, err := Files(repo, big)
	if err != nil {
		return 0, 0, err
	}
	for _, f := range files {
		roots, all, _, err := rboc.Read(f.Bytes)
		if err != nil {
			return equations, cells, fmt.Errorf("reference reader rejects %s: %v", f.Name, err)
		}
		_ = roots
		cells += len(all)
		for _, c := range all {
			switch c.Type() {
			case cell.MerkleProof:
				d := c.Data()
				if err := checkStored(d[1:33], d[33:35], c.Refs[0]); err != nil {
					return equations, cells, fmt.Errorf("%s: merkle proof: %v", f.Name, err)
				}
				equations++
			case cell.MerkleUpdate:
				d := c.Data()
				if err := checkStored(d[1:33], d[65:67], c.Refs[0]); err != nil {
					return equations, cells, fmt.Errorf("%s: merkle update (old): %v", f.Name, err)
				}
				if err := checkStored(d[33:65], d[67:69], c.Refs[1]); err != nil {
					return equations, cells, fmt.Errorf("%s: merkle update (new): %v", f.Name, err)
				}
				equations += 2
			}
		}
	}
	if equations < 3 {
		return equations, cells, fmt.Errorf("only %d Merkle equations found in real data", equations)
	}
	return equations, cells, nil
}

func checkStored(h, d []byte, child *cell.Cell) error {
	got := child.HashAt(0)
	if string(got[:]) != string(h) {
		return fmt.Errorf("stored hash %x, model computes %x", h, got)
	}
	if int(d[0])<<8|int(d[1]) != child.DepthAt(0) {
		return fmt.Errorf("stored depth %d, model computes %d", int(d[0])<<8|int(d[1]), child.DepthAt(0))
	}
	return nil
}
