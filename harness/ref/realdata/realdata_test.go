package realdata

import "testing"

func TestSelfCheck(t *testing.T) {
	eq, cells, err := SelfCheck("/repo", true)
	t.Logf("equations=%d cells=%d", eq, cells)
	if err != nil {
		t.Fatal(err)
	}
}
