// Package adnl is a reference implementation of ADNL-over-TCP (the transport
// lite servers speak), written from the protocol description with the Go
// standard library only. It shares no code with tongo and must never import
// it. It provides: key handling (Ed25519 identity -> X25519 agreement), the
// 256-byte handshake (both sides), the frame codec over continuous AES-CTR
// streams, a Peer that speaks the session over a net.Conn while keeping byte
// offsets of every frame, the adnl.message.query/answer envelope, and (in
// proxy.go / server.go) a fault-injecting byte-stream proxy and a listener
// with refuse/close controls.
//
// Protocol, as implemented here:
//
//	key id          = sha256( c6 b4 13 48 || ed25519 public key )      (TL pub.ed25519)
//	handshake       = key id(32) || client ephemeral ed25519 pub(32) || sha256(params)(32) || E(params)(160)
//	shared secret   = X25519( sha512(seed)[:32] , montgomery-u(peer ed25519 pub) ),  u = (1+y)/(1-y) mod 2^255-19
//	E               = AES-256-CTR, key = shared[0:16] || hash[16:32], iv = hash[0:4] || shared[20:32]
//	params          = rx key(0:32) || tx key(32:64) || rx iv(64:80) || tx iv(80:96) || padding(96:160)   (client's view)
//	frame           = E_dir( len:uint32le || nonce(32) || payload || sha256(nonce || payload) ),  len = 64 + |payload|
//	                  one continuous CTR stream per direction
//	after handshake = server sends a frame with an empty payload
package adnl

import (
	"bytes"
	"crypto/aes"
	"crypto/cipher"
	"crypto/ecdh"
	"crypto/ed25519"
	"crypto/sha256"
	"crypto/sha512"
	"encoding/binary"
	"errors"
	"fmt"
	"io"
	"math/big"
	"net"
	"sync"
)

const (
	HandshakeSize = 256
	FrameOverhead = 4 + 32 + 32
	// MaxFrameLen is the largest value of the length field the reference peer
	// accepts (the C++ node accepts up to 1<<24).
	MaxFrameLen = 1 << 24
	MinFrameLen = 64
)

var (
	MagicPing      = []byte{0x9a, 0x2b, 0x08, 0x4d} // tcp.ping random_id:long
	MagicPong      = []byte{0x03, 0xfb, 0x69, 0xdc} // tcp.pong random_id:long
	MagicQuery     = []byte{0x7a, 0xf9, 0x8b, 0xb4} // adnl.message.query query_id:int256 query:bytes
	MagicAnswer    = []byte{0x16, 0x84, 0xac, 0x0f} // adnl.message.answer query_id:int256 answer:bytes
	MagicLSQuery   = []byte{0xdf, 0x06, 0x8c, 0x79} // liteServer.query data:bytes
	MagicAuthNonce = []byte{0xb6, 0x4a, 0x5d, 0xe3} // tcp.authentificationNonce nonce:bytes
	MagicLSError   = []byte{0x48, 0xe1, 0xa9, 0xbb} // liteServer.error code:int message:string
)

// ---------------------------------------------------------------- keys

var (
	p25519 = new(big.Int).Sub(new(big.Int).Lsh(big.NewInt(1), 255), big.NewInt(19))
	one    = big.NewInt(1)
)

// EdPubToMontgomery converts a compressed Ed25519 point (only y matters) to
// the Montgomery u coordinate, little endian.
func EdPubToMontgomery(pub []byte) ([]byte, error) {
	if len(pub) != 32 {
		return nil, errors.New("ed25519 public key must be 32 bytes")
	}
	le := make([]byte, 32)
	copy(le, pub)
	le[31] &= 0x7f // drop the sign bit of x
	be := make([]byte, 32)
	for i := range le {
		be[31-i] = le[i]
	}
	y := new(big.Int).SetBytes(be)
	if y.Cmp(p25519) >= 0 {
		return nil, errors.New("non-canonical y")
	}
	num := new(big.Int).Add(one, y)
	den := new(big.Int).Sub(one, y)
	den.Mod(den, p25519)
	if den.Sign() == 0 {
		return nil, errors.New("y = 1 has no montgomery image")
	}
	den.ModInverse(den, p25519)
	u := num.Mul(num, den)
	u.Mod(u, p25519)
	ub := u.Bytes()
	out := make([]byte, 32)
	for i := range ub {
		out[i] = ub[len(ub)-1-i]
	}
	return out, nil
}

// Identity is an Ed25519 key pair used as an ADNL identity.
type Identity struct {
	Seed [32]byte
	Pub  [32]byte
}

func NewIdentity(seed []byte) *Identity {
	var id Identity
	copy(id.Seed[:], seed)
	priv := ed25519.NewKeyFromSeed(id.Seed[:])
	copy(id.Pub[:], priv.Public().(ed25519.PublicKey))
	return &id
}

// KeyID is the ADNL short id of an Ed25519 public key.
func KeyID(pub []byte) [32]byte {
	h := sha256.New()
	h.Write([]byte{0xc6, 0xb4, 0x13, 0x48})
	h.Write(pub)
	var out [32]byte
	copy(out[:], h.Sum(nil))
	return out
}

// Shared computes the X25519 agreement between this identity's secret scalar
// and a peer's Ed25519 public key.
func (id *Identity) Shared(peerEdPub []byte) ([]byte, error) {
	u, err := EdPubToMontgomery(peerEdPub)
	if err != nil {
		return nil, err
	}
	h := sha512.Sum512(id.Seed[:])
	priv, err := ecdh.X25519().NewPrivateKey(h[:32])
	if err != nil {
		return nil, err
	}
	pub, err := ecdh.X25519().NewPublicKey(u)
	if err != nil {
		return nil, err
	}
	return priv.ECDH(pub)
}

func handshakeCipher(shared, hash []byte) (cipher.Stream, error) {
	key := append(append([]byte{}, shared[:16]...), hash[16:32]...)
	iv := append(append([]byte{}, hash[:4]...), shared[20:32]...)
	blk, err := aes.NewCipher(key)
	if err != nil {
		return nil, err
	}
	return cipher.NewCTR(blk, iv), nil
}

// ---------------------------------------------------------------- handshake

// Params are the 160 bytes of session parameters chosen by the client.
type Params [160]byte

// BuildHandshake is the client side: the 256-byte packet a client with the
// given ephemeral identity sends to the server with public key serverPub.
func BuildHandshake(ephemeral *Identity, serverPub []byte, p Params) ([]byte, error) {
	shared, err := ephemeral.Shared(serverPub)
	if err != nil {
		return nil, err
	}
	hash := sha256.Sum256(p[:])
	st, err := handshakeCipher(shared, hash[:])
	if err != nil {
		return nil, err
	}
	out := make([]byte, HandshakeSize)
	kid := KeyID(serverPub)
	copy(out[0:32], kid[:])
	copy(out[32:64], ephemeral.Pub[:])
	copy(out[64:96], hash[:])
	st.XORKeyStream(out[96:], p[:])
	return out, nil
}

// HandshakeError says which step of the server-side handshake failed.
type HandshakeError struct{ Reason string }

func (e *HandshakeError) Error() string { return "adnl handshake: " + e.Reason }

// OpenHandshake is the server side: validates the key id, derives the shared
// secret, decrypts the parameters and checks their hash.
func (id *Identity) OpenHandshake(pkt []byte) (Params, error) {
	var p Params
	if len(pkt) != HandshakeSize {
		return p, &HandshakeError{"short-packet"}
	}
	kid := KeyID(id.Pub[:])
	if !bytes.Equal(pkt[0:32], kid[:]) {
		return p, &HandshakeError{"unknown-key-id"}
	}
	shared, err := id.Shared(pkt[32:64])
	if err != nil {
		return p, &HandshakeError{"bad-ephemeral-key"}
	}
	st, err := handshakeCipher(shared, pkt[64:96])
	if err != nil {
		return p, &HandshakeError{"cipher"}
	}
	st.XORKeyStream(p[:], pkt[96:256])
	h := sha256.Sum256(p[:])
	if !bytes.Equal(h[:], pkt[64:96]) {
		return p, &HandshakeError{"params-hash-mismatch"}
	}
	return p, nil
}

func ctr(key, iv []byte) cipher.Stream {
	blk, err := aes.NewCipher(key)
	if err != nil {
		panic(err)
	}
	return cipher.NewCTR(blk, iv)
}

// ServerStreams returns the server's receive (client->server) and transmit
// (server->client) key streams for the session parameters.
func (p *Params) ServerStreams() (rx, tx cipher.Stream) {
	return ctr(p[32:64], p[80:96]), ctr(p[0:32], p[64:80])
}

// ClientStreams returns the client's receive and transmit key streams.
func (p *Params) ClientStreams() (rx, tx cipher.Stream) {
	return ctr(p[0:32], p[64:80]), ctr(p[32:64], p[80:96])
}

// ---------------------------------------------------------------- frames

// EncodeFrame returns the plaintext of one frame.
func EncodeFrame(nonce [32]byte, payload []byte) []byte {
	b := make([]byte, 0, FrameOverhead+len(payload))
	b = binary.LittleEndian.AppendUint32(b, uint32(64+len(payload)))
	b = append(b, nonce[:]...)
	b = append(b, payload...)
	h := sha256.New()
	h.Write(nonce[:])
	h.Write(payload)
	return h.Sum(b)
}

// FrameError says why the strict reader rejected a frame.
type FrameError struct{ Reason string }

func (e *FrameError) Error() string { return "adnl frame: " + e.Reason }

// ReadFrame reads and validates one frame from r, decrypting with st. The
// number of stream bytes consumed is returned in every case. io.EOF is
// returned only when the stream ends exactly on a frame boundary.
func ReadFrame(r io.Reader, st cipher.Stream) (payload []byte, nonce [32]byte, consumed int, err error) {
	var lb [4]byte
	n, err := io.ReadFull(r, lb[:])
	consumed += n
	if err != nil {
		if err == io.EOF {
			return nil, nonce, consumed, io.EOF
		}
		return nil, nonce, consumed, &FrameError{"truncated-length: " + err.Error()}
	}
	st.XORKeyStream(lb[:], lb[:])
	l := binary.LittleEndian.Uint32(lb[:])
	if l < MinFrameLen {
		return nil, nonce, consumed, &FrameError{fmt.Sprintf("length-too-small(%d)", l)}
	}
	if l > MaxFrameLen {
		return nil, nonce, consumed, &FrameError{fmt.Sprintf("length-too-big(%d)", l)}
	}
	body := make([]byte, l)
	n, err = io.ReadFull(r, body)
	consumed += n
	if err != nil {
		return nil, nonce, consumed, &FrameError{"truncated-body: " + err.Error()}
	}
	st.XORKeyStream(body, body)
	copy(nonce[:], body[:32])
	payload = body[32 : l-32]
	h := sha256.Sum256(body[:l-32])
	if !bytes.Equal(h[:], body[l-32:]) {
		return nil, nonce, consumed, &FrameError{"checksum-mismatch"}
	}
	return payload, nonce, consumed, nil
}

// ---------------------------------------------------------------- peer

// Span is the half-open range of stream offsets one frame occupies.
type Span struct{ Start, End int64 }

// Peer is the server end of one ADNL session over a byte stream.
type Peer struct {
	Conn   io.ReadWriteCloser
	Params Params

	rx cipher.Stream // only the reading goroutine
	r  io.Reader

	wmu sync.Mutex // serialises writers: key stream order = wire order
	tx  cipher.Stream
	// lmu guards the transmit log only, so that TxLog / TxBytes never wait behind a writer that is
	// blocked in Conn.Write (a peer that stopped reading)
	lmu    sync.Mutex
	txOff  int64
	txLog  []Span
	txRaw  []byte
	keepTx bool

	rxOff int64 // only the reading goroutine
}

// NonceSource supplies frame nonces (deterministic in checks).
type NonceSource func() [32]byte

// Accept performs the server side of the handshake on conn: reads the
// 256-byte packet, validates it and sends the empty confirmation frame.
// logTx makes the peer remember the stream span of every frame it sends.
func (id *Identity) Accept(conn io.ReadWriteCloser, nonce [32]byte, logTx bool) (*Peer, error) {
	return id.AcceptCoalesced(conn, nonce, logTx, nil, nil)
}

// AcceptCoalesced is Accept with further frames (extra payloads with their nonces) written behind
// the empty confirmation frame in the very same Write, as a server does that has something to say
// the moment a session is up.
func (id *Identity) AcceptCoalesced(conn io.ReadWriteCloser, nonce [32]byte, logTx bool, extraNonces [][32]byte, extra [][]byte) (*Peer, error) {
	pkt := make([]byte, HandshakeSize)
	if n, err := io.ReadFull(conn, pkt); err != nil {
		return nil, &HandshakeError{fmt.Sprintf("short-read(%d): %v", n, err)}
	}
	p, err := id.OpenHandshake(pkt)
	if err != nil {
		return nil, err
	}
	peer := &Peer{Conn: conn, Params: p, keepTx: logTx, r: conn, rxOff: HandshakeSize}
	peer.rx, peer.tx = p.ServerStreams()
	if len(extra) > 0 {
		err = peer.SendBatch(append([][32]byte{nonce}, extraNonces...), append([][]byte{nil}, extra...))
	} else {
		err = peer.Send(nonce, nil)
	}
	if err != nil {
		return nil, err
	}
	return peer, nil
}

// Send writes one frame. Safe for concurrent use.
func (p *Peer) Send(nonce [32]byte, payload []byte) error {
	b := EncodeFrame(nonce, payload)
	p.wmu.Lock()
	defer p.wmu.Unlock()
	p.tx.XORKeyStream(b, b)
	p.lmu.Lock()
	if p.keepTx {
		p.txLog = append(p.txLog, Span{p.txOff, p.txOff + int64(len(b))})
		p.txRaw = append(p.txRaw, b...)
	}
	p.txOff += int64(len(b))
	p.lmu.Unlock()
	_, err := p.Conn.Write(b)
	return err
}

// SendBatch writes several frames with a single Write (coalesced on the wire).
func (p *Peer) SendBatch(nonces [][32]byte, payloads [][]byte) error {
	p.wmu.Lock()
	defer p.wmu.Unlock()
	var all []byte
	for i := range payloads {
		b := EncodeFrame(nonces[i], payloads[i])
		p.tx.XORKeyStream(b, b)
		p.lmu.Lock()
		if p.keepTx {
			p.txLog = append(p.txLog, Span{p.txOff, p.txOff + int64(len(b))})
			p.txRaw = append(p.txRaw, b...)
		}
		p.txOff += int64(len(b))
		p.lmu.Unlock()
		all = append(all, b...)
	}
	_, err := p.Conn.Write(all)
	return err
}

// TxLog returns the spans of the frames sent so far (index 0 is the
// handshake confirmation) and the total number of bytes written.
func (p *Peer) TxLog() ([]Span, int64) {
	p.lmu.Lock()
	defer p.lmu.Unlock()
	return append([]Span(nil), p.txLog...), p.txOff
}

// TxBytes returns a copy of every byte written so far (only when the peer
// was created with logTx).
func (p *Peer) TxBytes() []byte {
	p.lmu.Lock()
	defer p.lmu.Unlock()
	return append([]byte(nil), p.txRaw...)
}

// Recv reads the next frame. Only one goroutine may call it. span is the
// range of client->server stream offsets (handshake included) it occupied.
func (p *Peer) Recv() (payload []byte, span Span, err error) {
	payload, _, n, err := ReadFrame(p.r, p.rx)
	span = Span{p.rxOff, p.rxOff + int64(n)}
	p.rxOff += int64(n)
	return payload, span, err
}

func (p *Peer) Close() error { return p.Conn.Close() }

// CloseAbruptly closes a TCP connection with SO_LINGER 0 (RST instead of FIN).
func (p *Peer) CloseAbruptly() error {
	if tc, ok := p.Conn.(*net.TCPConn); ok {
		tc.SetLinger(0)
	}
	return p.Conn.Close()
}

// ---------------------------------------------------------------- TL envelope

// TLBytes encodes a TL `bytes` value (length prefix + padding to 4).
func TLBytes(b []byte) []byte {
	var out []byte
	if len(b) < 254 {
		out = append(out, byte(len(b)))
	} else {
		out = append(out, 254, byte(len(b)), byte(len(b)>>8), byte(len(b)>>16))
	}
	out = append(out, b...)
	for len(out)%4 != 0 {
		out = append(out, 0)
	}
	return out
}

// ParseTLBytes decodes a TL `bytes` value and returns what follows it.
func ParseTLBytes(b []byte) (val, rest []byte, err error) {
	if len(b) == 0 {
		return nil, nil, errors.New("tl bytes: empty")
	}
	var l, hdr int
	switch {
	case b[0] < 254:
		l, hdr = int(b[0]), 1
	case b[0] == 254:
		if len(b) < 4 {
			return nil, nil, errors.New("tl bytes: short long-form header")
		}
		l, hdr = int(b[1])|int(b[2])<<8|int(b[3])<<16, 4
	default:
		return nil, nil, errors.New("tl bytes: first byte 255")
	}
	if len(b) < hdr+l {
		return nil, nil, errors.New("tl bytes: shorter than its length")
	}
	end := hdr + l
	pad := (4 - end%4) % 4
	if len(b) < end+pad {
		return nil, nil, errors.New("tl bytes: padding missing")
	}
	for _, c := range b[end : end+pad] {
		if c != 0 {
			return nil, nil, errors.New("tl bytes: non-zero padding")
		}
	}
	return b[hdr:end], b[end+pad:], nil
}

// ParseQuery decodes adnl.message.query.
func ParseQuery(payload []byte) (id [32]byte, query []byte, err error) {
	if len(payload) < 36 || !bytes.Equal(payload[:4], MagicQuery) {
		return id, nil, errors.New("not an adnl.message.query")
	}
	copy(id[:], payload[4:36])
	q, rest, err := ParseTLBytes(payload[36:])
	if err != nil {
		return id, nil, err
	}
	if len(rest) != 0 {
		return id, nil, errors.New("adnl.message.query: trailing bytes")
	}
	return id, q, nil
}

// BuildAnswer encodes adnl.message.answer.
func BuildAnswer(id [32]byte, answer []byte) []byte {
	out := append([]byte{}, MagicAnswer...)
	out = append(out, id[:]...)
	return append(out, TLBytes(answer)...)
}

// IsPing reports whether payload is tcp.ping and returns the matching pong.
func IsPing(payload []byte) (pong []byte, ok bool) {
	if len(payload) == 12 && bytes.Equal(payload[:4], MagicPing) {
		return append(append([]byte{}, MagicPong...), payload[4:]...), true
	}
	return nil, false
}

// ---------------------------------------------------------------- self-check

// SelfCheck runs the reference client half against the reference server half
// over an in-memory pipe and checks RFC 7748 / RFC 8032 derived facts that do
// not depend on either implementation under test.
func SelfCheck() error {
	// u-coordinate of the Ed25519 base point (y = 4/5) is 9.
	basePt := []byte{0x58, 0x66, 0x66, 0x66, 0x66, 0x66, 0x66, 0x66, 0x66, 0x66, 0x66, 0x66, 0x66, 0x66, 0x66, 0x66,
		0x66, 0x66, 0x66, 0x66, 0x66, 0x66, 0x66, 0x66, 0x66, 0x66, 0x66, 0x66, 0x66, 0x66, 0x66, 0x66}
	u, err := EdPubToMontgomery(basePt)
	if err != nil {
		return err
	}
	want := make([]byte, 32)
	want[0] = 9
	if !bytes.Equal(u, want) {
		return fmt.Errorf("montgomery image of the base point is %x, want 9", u)
	}
	// DH symmetry: both sides derive the same secret, and the Montgomery image
	// of an Ed25519 public key equals the X25519 public key of the same scalar.
	a := NewIdentity(bytes.Repeat([]byte{0x11}, 32))
	b := NewIdentity(bytes.Repeat([]byte{0x22}, 32))
	h := sha512.Sum512(a.Seed[:])
	ap, err := ecdh.X25519().NewPrivateKey(h[:32])
	if err != nil {
		return err
	}
	ua, _ := EdPubToMontgomery(a.Pub[:])
	if !bytes.Equal(ap.PublicKey().Bytes(), ua) {
		return errors.New("montgomery(ed25519 pub) != x25519 public key of the same scalar")
	}
	s1, err := a.Shared(b.Pub[:])
	if err != nil {
		return err
	}
	s2, err := b.Shared(a.Pub[:])
	if err != nil {
		return err
	}
	if !bytes.Equal(s1, s2) {
		return errors.New("shared secrets differ")
	}
	// handshake + frames round trip, client half vs server half
	var p Params
	for i := range p {
		p[i] = byte(i*7 + 3)
	}
	hs, err := BuildHandshake(a, b.Pub[:], p)
	if err != nil {
		return err
	}
	got, err := b.OpenHandshake(hs)
	if err != nil {
		return err
	}
	if got != p {
		return errors.New("handshake parameters do not round-trip")
	}
	hs[100] ^= 1
	if _, err := b.OpenHandshake(hs); err == nil {
		return errors.New("corrupted handshake accepted")
	}
	crx, ctx := p.ClientStreams()
	srx, stx := p.ServerStreams()
	var stream bytes.Buffer
	var n1, n2 [32]byte
	n1[0], n2[0] = 1, 2
	for _, f := range [][]byte{EncodeFrame(n1, nil), EncodeFrame(n2, []byte("hello")), EncodeFrame(n1, bytes.Repeat([]byte{7}, 300))} {
		ctx.XORKeyStream(f, f)
		stream.Write(f)
	}
	for i, wantLen := range []int{0, 5, 300} {
		pl, _, _, err := ReadFrame(&stream, srx)
		if err != nil || len(pl) != wantLen {
			return fmt.Errorf("frame %d: %v len %d", i, err, len(pl))
		}
	}
	f := EncodeFrame(n1, []byte("x"))
	stx.XORKeyStream(f, f)
	f[40] ^= 0x10
	if _, _, _, err := ReadFrame(bytes.NewReader(f), crx); err == nil {
		return errors.New("corrupted frame accepted")
	}
	v, rest, err := ParseTLBytes(TLBytes(bytes.Repeat([]byte{1}, 300)))
	if err != nil || len(v) != 300 || len(rest) != 0 {
		return errors.New("TL bytes do not round-trip")
	}
	return nil
}
