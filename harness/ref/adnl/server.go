package adnl

import (
	"errors"
	"net"
	"sync"
	"sync/atomic"
	"time"
)

// Server accepts ADNL-over-TCP connections for one identity and hands every
// session that completed the handshake to OnPeer (in its own goroutine). It
// can be told to turn clients away for a while, in two ways: accept the TCP
// connection and close it at once, or stop listening altogether.
type Server struct {
	ID     *Identity
	OnPeer func(*Peer)
	// OnHandshakeError is told about connections whose handshake the
	// reference rejected (never called for deliberately refused ones).
	OnHandshakeError func(error)
	Nonce            NonceSource
	LogTx            bool
	// HandshakeTimeout bounds the wait for the 256 handshake bytes (default 30 s).
	HandshakeTimeout time.Duration
	// Piggyback, when set, is asked once per session for payloads to send behind the handshake
	// confirmation in the same write (nil = just the confirmation).
	Piggyback func() [][]byte

	// handshakeDelay (nanoseconds): the TCP connection is accepted at once, the handshake is
	// answered only after this long (SetHandshakeDelay).
	handshakeDelay atomic.Int64

	addr string
	mu   sync.Mutex
	ln   net.Listener
	// gen is bumped by every StopListening so that an old accept loop ends
	gen        int
	turnAway   atomic.Bool
	closed     bool
	peers      map[*Peer]struct{}
	Accepted   atomic.Int64 // sessions established
	TurnedAway atomic.Int64 // TCP connections accepted and closed while refusing
	// SlowHandshakes counts the connections whose handshake answer was held back
	SlowHandshakes atomic.Int64
	wg             sync.WaitGroup
}

// Listen starts a server on addr ("127.0.0.1:0" picks a port; the port is
// kept for ResumeListening). setup fills in the exported fields (at least
// OnPeer) before the first connection is accepted.
func Listen(addr string, id *Identity, nonce NonceSource, setup func(*Server)) (*Server, error) {
	ln, err := net.Listen("tcp", addr)
	if err != nil {
		return nil, err
	}
	s := &Server{ID: id, Nonce: nonce, addr: ln.Addr().String(), ln: ln, peers: map[*Peer]struct{}{}}
	if setup != nil {
		setup(s)
	}
	if s.OnPeer == nil {
		s.OnPeer = func(p *Peer) { p.Close() }
	}
	s.wg.Add(1)
	go s.acceptLoop(ln)
	return s, nil
}

func (s *Server) Addr() string { return s.addr }

func (s *Server) acceptLoop(ln net.Listener) {
	defer s.wg.Done()
	for {
		c, err := ln.Accept()
		if err != nil {
			return
		}
		if s.turnAway.Load() {
			s.TurnedAway.Add(1)
			c.Close()
			continue
		}
		s.wg.Add(1)
		go func() {
			defer s.wg.Done()
			hto := s.HandshakeTimeout
			if hto <= 0 {
				hto = 30 * time.Second
			}
			if d := time.Duration(s.handshakeDelay.Load()); d > 0 {
				s.SlowHandshakes.Add(1)
				time.Sleep(d)
			}
			c.SetReadDeadline(time.Now().Add(hto))
			var n [32]byte
			if s.Nonce != nil {
				n = s.Nonce()
			}
			var extra [][]byte
			var extraNonces [][32]byte
			if s.Piggyback != nil {
				extra = s.Piggyback()
				for range extra {
					var en [32]byte
					if s.Nonce != nil {
						en = s.Nonce()
					}
					extraNonces = append(extraNonces, en)
				}
			}
			p, err := s.ID.AcceptCoalesced(c, n, s.LogTx, extraNonces, extra)
			if err != nil {
				c.Close()
				if s.OnHandshakeError != nil {
					s.OnHandshakeError(err)
				}
				return
			}
			c.SetReadDeadline(time.Time{})
			s.mu.Lock()
			if s.closed {
				s.mu.Unlock()
				c.Close()
				return
			}
			s.peers[p] = struct{}{}
			s.mu.Unlock()
			s.Accepted.Add(1)
			s.OnPeer(p)
			s.mu.Lock()
			delete(s.peers, p)
			s.mu.Unlock()
		}()
	}
}

// TurnAway(true): new TCP connections are accepted and closed immediately.
func (s *Server) TurnAway(on bool) { s.turnAway.Store(on) }

// SetHandshakeDelay: connections accepted from now on get their handshake answered only after d
// (0 = at once again; connections already waiting keep their delay).
func (s *Server) SetHandshakeDelay(d time.Duration) { s.handshakeDelay.Store(int64(d)) }

// StopListening closes the listening socket (connection refused for clients).
func (s *Server) StopListening() {
	s.mu.Lock()
	defer s.mu.Unlock()
	if s.ln != nil {
		s.ln.Close()
		s.ln = nil
	}
}

// ResumeListening listens again on the same address. The port may have been
// taken by somebody else in the meantime; the caller decides what that means.
func (s *Server) ResumeListening() error {
	s.mu.Lock()
	defer s.mu.Unlock()
	if s.closed {
		return errors.New("server closed")
	}
	if s.ln != nil {
		return nil
	}
	var err error
	for i := 0; i < 40; i++ {
		var ln net.Listener
		ln, err = net.Listen("tcp", s.addr)
		if err == nil {
			s.ln = ln
			s.wg.Add(1)
			go s.acceptLoop(ln)
			return nil
		}
		time.Sleep(25 * time.Millisecond)
	}
	return err
}

// Peers returns the sessions currently open.
func (s *Server) Peers() []*Peer {
	s.mu.Lock()
	defer s.mu.Unlock()
	out := make([]*Peer, 0, len(s.peers))
	for p := range s.peers {
		out = append(out, p)
	}
	return out
}

// ClosePeers closes every open session (RST when abrupt) and returns how many.
func (s *Server) ClosePeers(abrupt bool) int {
	ps := s.Peers()
	for _, p := range ps {
		if abrupt {
			p.CloseAbruptly()
		} else {
			p.Close()
		}
	}
	return len(ps)
}

// Close stops the server and all its sessions.
func (s *Server) Close() {
	s.mu.Lock()
	s.closed = true
	if s.ln != nil {
		s.ln.Close()
		s.ln = nil
	}
	s.mu.Unlock()
	s.ClosePeers(false)
}
