package adnl

import (
	"io"
	"net"
	"sync"
	"sync/atomic"
	"time"
)

// Direction of a byte stream through the proxy.
const (
	ClientToServer = 0
	ServerToClient = 1
)

// FaultKind enumerates the single faults the proxy can inject.
type FaultKind int

const (
	NoFault   FaultKind = iota
	BitFlip             // XOR one bit of the byte at Offset
	ByteSubst           // replace the byte at Offset by a different value
	Truncate            // forward bytes [0,Offset) and then close both sides
	Duplicate           // bytes [Offset,Offset+Len) appear twice
	Delete              // bytes [Offset,Offset+Len) are dropped
)

func (k FaultKind) String() string {
	return [...]string{"none", "bitflip", "bytesubst", "truncate", "duplicate", "delete"}[k]
}

// Fault is one modification of one direction's byte stream at a stream
// offset (offset 0 = first byte the sender wrote on the connection).
type Fault struct {
	Kind   FaultKind
	Dir    int
	Offset int64
	Bit    uint // BitFlip: 0..7
	Delta  byte // ByteSubst: added to the byte (1..255)
	Len    int  // Duplicate / Delete
}

// ChunkMode selects how the proxy re-segments a direction.
type ChunkMode int

const (
	ChunkPass     ChunkMode = iota // forward whatever each read returned
	ChunkOneByte                   // every byte in its own write
	ChunkRandom                    // random segment sizes, heavy on tiny ones
	ChunkCoalesce                  // gather for a while, then write everything at once
)

func (m ChunkMode) String() string {
	return [...]string{"pass", "onebyte", "random", "coalesce"}[m]
}

// Plan describes what a proxy does to the connections it carries.
type Plan struct {
	Chunk    [2]ChunkMode
	MaxPause time.Duration // random pause 0..MaxPause between some writes
	Fault    Fault
	Rand     func() uint64 // source for segment sizes and pauses (called under a lock)
}

// Proxy is a TCP byte-stream proxy in front of one upstream address.
type Proxy struct {
	ln       net.Listener
	upstream string
	plan     Plan
	rmu      sync.Mutex

	Forwarded [2]atomic.Int64 // bytes written towards the receiver, per direction
	Applied   atomic.Bool     // the fault's offset was reached
	// ActualLen is the number of bytes really duplicated/deleted (clipped to
	// the read that carried Offset).
	ActualLen atomic.Int64
	Segments  [2]atomic.Int64
	done      sync.WaitGroup
	conns     sync.Map
}

// NewProxy listens on listenAddr (e.g. "127.0.0.1:0").
func NewProxy(listenAddr, upstream string, plan Plan) (*Proxy, error) {
	ln, err := net.Listen("tcp", listenAddr)
	if err != nil {
		return nil, err
	}
	p := &Proxy{ln: ln, upstream: upstream, plan: plan}
	p.done.Add(1)
	go p.acceptLoop()
	return p, nil
}

func (p *Proxy) Addr() string { return p.ln.Addr().String() }

// Close stops accepting and closes every carried connection.
func (p *Proxy) Close() {
	p.ln.Close()
	p.conns.Range(func(k, _ any) bool { k.(net.Conn).Close(); return true })
	p.done.Wait()
}

func (p *Proxy) rnd() uint64 {
	p.rmu.Lock()
	defer p.rmu.Unlock()
	if p.plan.Rand == nil {
		return 0
	}
	return p.plan.Rand()
}

func (p *Proxy) acceptLoop() {
	defer p.done.Done()
	for {
		c, err := p.ln.Accept()
		if err != nil {
			return
		}
		u, err := net.Dial("tcp", p.upstream)
		if err != nil {
			c.Close()
			continue
		}
		p.conns.Store(c, true)
		p.conns.Store(u, true)
		p.done.Add(2)
		closeBoth := func() { c.Close(); u.Close() }
		go p.pump(ClientToServer, c, u, closeBoth)
		go p.pump(ServerToClient, u, c, closeBoth)
	}
}

func halfClose(c net.Conn) {
	if tc, ok := c.(*net.TCPConn); ok {
		tc.CloseWrite()
	} else {
		c.Close()
	}
}

// pump copies src -> dst applying the plan for direction dir.
func (p *Proxy) pump(dir int, src, dst net.Conn, closeBoth func()) {
	defer p.done.Done()
	buf := make([]byte, 64<<10)
	var off int64
	f := p.plan.Fault
	faulty := f.Kind != NoFault && f.Dir == dir
	mode := p.plan.Chunk[dir]
	var pending []byte
	flush := func(b []byte) bool {
		for len(b) > 0 {
			n := len(b)
			switch mode {
			case ChunkOneByte:
				n = 1
			case ChunkRandom:
				r := p.rnd()
				switch r % 10 {
				case 0, 1, 2:
					n = 1
				case 3, 4:
					n = 2 + int((r>>8)%6)
				case 5, 6:
					n = 8 + int((r>>8)%93)
				case 7, 8:
					n = 100 + int((r>>8)%1900)
				default:
					n = 1 + int((r>>8)%(64<<10))
				}
				if n > len(b) {
					n = len(b)
				}
			}
			if _, err := dst.Write(b[:n]); err != nil {
				return false
			}
			p.Forwarded[dir].Add(int64(n))
			p.Segments[dir].Add(1)
			b = b[n:]
			if p.plan.MaxPause > 0 && mode != ChunkPass {
				every := uint64(32)
				if mode == ChunkOneByte {
					every = 512
				}
				if r := p.rnd(); r%every == 0 {
					time.Sleep(time.Duration((r >> 8) % uint64(p.plan.MaxPause+1)))
				}
			}
		}
		return true
	}
	for {
		if mode == ChunkCoalesce && len(pending) > 0 {
			src.SetReadDeadline(time.Now().Add(3 * time.Millisecond))
		} else {
			src.SetReadDeadline(time.Time{})
		}
		n, err := src.Read(buf)
		data := buf[:n]
		stop := false
		if faulty && n > 0 && !p.Applied.Load() && f.Offset < off+int64(n) && f.Offset >= off {
			i := int(f.Offset - off)
			applied := func() { p.Applied.Store(true) }
			// Applied is published after ActualLen (below): an observer that sees Applied must see the final length
			switch f.Kind {
			case BitFlip:
				data[i] ^= 1 << (f.Bit & 7)
			case ByteSubst:
				d := f.Delta
				if d == 0 {
					d = 1
				}
				data[i] += d
			case Truncate:
				data = data[:i]
				stop = true
			case Duplicate:
				l := f.Len
				if l < 1 {
					l = 1
				}
				if i+l > n {
					l = n - i
				}
				p.ActualLen.Store(int64(l))
				nd := make([]byte, 0, n+l)
				nd = append(nd, data[:i+l]...)
				nd = append(nd, data[i:i+l]...)
				nd = append(nd, data[i+l:]...)
				data = nd
			case Delete:
				l := f.Len
				if l < 1 {
					l = 1
				}
				if i+l > n {
					l = n - i
				}
				p.ActualLen.Store(int64(l))
				nd := make([]byte, 0, n-l)
				nd = append(nd, data[:i]...)
				nd = append(nd, data[i+l:]...)
				data = nd
			}
			applied()
		}
		off += int64(n)
		if mode == ChunkCoalesce {
			pending = append(pending, data...)
			timeout := false
			if ne, ok := err.(net.Error); ok && ne.Timeout() {
				timeout, err = true, nil
			}
			if timeout || err != nil || stop || len(pending) > 256<<10 {
				if !flush(pending) {
					closeBoth()
					return
				}
				pending = pending[:0]
			}
		} else if len(data) > 0 {
			if !flush(data) {
				closeBoth()
				return
			}
		}
		if stop {
			closeBoth()
			return
		}
		if err != nil {
			if err == io.EOF {
				// orderly end of this direction: propagate the FIN, keep the other direction
				halfClose(dst)
			} else {
				closeBoth()
			}
			return
		}
	}
}
