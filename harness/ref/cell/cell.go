// Package cell is the reference model of a TON cell: bit string, exotic
// type, references; level mask, per-level representation hash and depth as
// defined by the TON whitepaper / crypto/vm/cells/DataCell.cpp. It shares no
// code with tongo and is validated against redundancy in real chain data
// (see SelfCheck in package refcheck).
package cell

import (
	"crypto/sha256"
	"fmt"
	"math/bits"
)

const (
	Ordinary     = 0
	PrunedBranch = 1
	Library      = 2
	MerkleProof  = 3
	MerkleUpdate = 4
)

type Hash = [32]byte

// Cell is an abstract cell. Bits are the data bits (for exotic cells the
// first 8 bits are the type byte). Treat as immutable once hashed.
type Cell struct {
	Bits   []bool
	Exotic bool
	Refs   []*Cell

	done   bool
	mask   uint8
	hashes [4]Hash // indexed by level 0..3
	depths [4]int
	have   [4]bool
	err    error
}

func New(bits []bool, exotic bool, refs ...*Cell) *Cell {
	return &Cell{Bits: bits, Exotic: exotic, Refs: refs}
}

// Type returns the exotic type byte (0 for ordinary cells).
func (c *Cell) Type() int {
	if !c.Exotic {
		return Ordinary
	}
	if len(c.Bits) < 8 {
		return -1
	}
	t := 0
	for i := 0; i < 8; i++ {
		t <<= 1
		if c.Bits[i] {
			t |= 1
		}
	}
	return t
}

func (c *Cell) byteAt(i int) int {
	v := 0
	for k := 0; k < 8; k++ {
		v <<= 1
		if c.Bits[8*i+k] {
			v |= 1
		}
	}
	return v
}

func (c *Cell) bytesAt(i, n int) []byte {
	out := make([]byte, n)
	for k := 0; k < n; k++ {
		out[k] = byte(c.byteAt(i + k))
	}
	return out
}

// Mask derives the level mask from the cell's type and children:
// ordinary = OR of children; pruned branch = its second data byte;
// library = 0; Merkle proof/update = (OR of children) >> 1.
func (c *Cell) Mask() uint8 {
	c.compute()
	return c.mask
}

func (c *Cell) Level() int { return bits.Len8(c.Mask()) }

// Data returns the data bytes padded with the completion tag.
func (c *Cell) Data() []byte { return PadBits(c.Bits) }

func PadBits(b []bool) []byte {
	out := make([]byte, (len(b)+7)/8)
	for i, x := range b {
		if x {
			out[i/8] |= 1 << uint(7-i%8)
		}
	}
	if len(b)%8 != 0 {
		out[len(out)-1] |= 1 << uint(7-len(b)%8)
	}
	return out
}

// D1 for a given (applied) mask; D2 from the bit length.
func (c *Cell) D1(mask uint8) byte {
	d := byte(len(c.Refs)) | mask<<5
	if c.Exotic {
		d |= 8
	}
	return d
}
func (c *Cell) D2() byte { return byte(len(c.Bits)/8 + (len(c.Bits)+7)/8) }

// Validate checks the structural rules of exotic cells.
func (c *Cell) Validate() error {
	if len(c.Bits) > 1023 || len(c.Refs) > 4 {
		return fmt.Errorf("cell too big")
	}
	if !c.Exotic {
		return nil
	}
	if len(c.Bits) < 8 {
		return fmt.Errorf("exotic cell without type byte")
	}
	switch c.Type() {
	case PrunedBranch:
		if len(c.Bits) < 16 {
			return fmt.Errorf("pruned branch too short")
		}
		m := c.byteAt(1)
		if m < 1 || m > 7 {
			return fmt.Errorf("pruned branch mask %d", m)
		}
		if len(c.Bits) != 16+bits.OnesCount8(uint8(m))*(256+16) || len(c.Refs) != 0 {
			return fmt.Errorf("pruned branch size")
		}
	case Library:
		if len(c.Bits) != 8+256 || len(c.Refs) != 0 {
			return fmt.Errorf("library cell size")
		}
	case MerkleProof:
		if len(c.Bits) != 8+256+16 || len(c.Refs) != 1 {
			return fmt.Errorf("merkle proof size")
		}
	case MerkleUpdate:
		if len(c.Bits) != 8+2*(256+16) || len(c.Refs) != 2 {
			return fmt.Errorf("merkle update size")
		}
	default:
		return fmt.Errorf("unknown exotic type %d", c.Type())
	}
	return nil
}

func (c *Cell) compute() {
	if c.done {
		return
	}
	c.done = true
	if err := c.Validate(); err != nil {
		c.err = err
		return
	}
	var m uint8
	for _, r := range c.Refs {
		r.compute()
		if r.err != nil {
			c.err = r.err
			return
		}
		m |= r.mask
	}
	switch c.Type() {
	case Ordinary:
		c.mask = m
	case PrunedBranch:
		c.mask = uint8(c.byteAt(1))
	case Library:
		c.mask = 0
	case MerkleProof, MerkleUpdate:
		c.mask = m >> 1
	}
}

func (c *Cell) Err() error { c.compute(); return c.err }

// HashAt returns the hash of the cell at level l (0..3). Level 3 is the
// representation hash.
func (c *Cell) HashAt(l int) Hash {
	h, _ := c.at(l)
	return h
}

func (c *Cell) DepthAt(l int) int {
	_, d := c.at(l)
	return d
}

// Hash is the representation hash.
func (c *Cell) Hash() Hash { return c.HashAt(3) }
func (c *Cell) Depth() int { return c.DepthAt(3) }

func (c *Cell) at(l int) (Hash, int) {
	c.compute()
	if c.err != nil {
		return Hash{}, 0
	}
	if l > 3 {
		l = 3
	}
	full := c.mask
	eff := full & (uint8(1)<<uint(l) - 1) // levels above l do not count
	typ := c.Type()
	if typ == PrunedBranch && eff != full {
		// hash of the replaced cell at this level is stored in the data
		idx := bits.OnesCount8(eff)
		n := bits.OnesCount8(full)
		var h Hash
		copy(h[:], c.bytesAt(2+32*idx, 32))
		d := c.bytesAt(2+32*n+2*idx, 2)
		return h, int(d[0])<<8 | int(d[1])
	}
	// the hash at level l equals the hash at the highest significant level <= l
	lv := bits.Len8(eff)
	if c.have[lv] {
		return c.hashes[lv], c.depths[lv]
	}
	h := sha256.New()
	h.Write([]byte{c.D1(eff), c.D2()})
	if lv == 0 || typ == PrunedBranch {
		h.Write(c.Data())
	} else {
		// data replaced by the hash at the previous significant level
		prev := eff &^ (uint8(1) << uint(lv-1))
		ph, _ := c.at(bits.Len8(prev))
		h.Write(ph[:])
	}
	cl := lv
	if typ == MerkleProof || typ == MerkleUpdate {
		cl = lv + 1
	}
	depth := 0
	for _, r := range c.Refs {
		d := r.DepthAt(cl)
		h.Write([]byte{byte(d >> 8), byte(d)})
		if d+1 > depth {
			depth = d + 1
		}
	}
	for _, r := range c.Refs {
		x := r.HashAt(cl)
		h.Write(x[:])
	}
	var out Hash
	copy(out[:], h.Sum(nil))
	c.hashes[lv], c.depths[lv], c.have[lv] = out, depth, true
	return out, depth
}

// HashesCount is the number of hashes a "with hashes" serialisation stores.
func (c *Cell) HashesCount() int { return bits.OnesCount8(c.Mask()) + 1 }

// SignificantLevels lists the levels at which the cell has its own hash.
func (c *Cell) SignificantLevels() []int {
	out := []int{0}
	for l := 1; l <= 3; l++ {
		if c.Mask()&(1<<uint(l-1)) != 0 {
			out = append(out, l)
		}
	}
	return out
}

// Walk visits every distinct cell (by pointer) once, children first.
func Walk(root *Cell, f func(*Cell)) {
	seen := map[*Cell]bool{}
	type fr struct {
		c *Cell
		i int
	}
	st := []fr{{root, 0}}
	seen[root] = true
	for len(st) > 0 {
		t := &st[len(st)-1]
		if t.i < len(t.c.Refs) {
			ch := t.c.Refs[t.i]
			t.i++
			if !seen[ch] {
				seen[ch] = true
				st = append(st, fr{ch, 0})
			}
			continue
		}
		f(t.c)
		st = st[:len(st)-1]
	}
}

// --- constructors for well-formed exotic cells ---

func bytesBits(b []byte) []bool {
	out := make([]bool, 0, 8*len(b))
	for _, x := range b {
		for i := 7; i >= 0; i-- {
			out = append(out, x>>uint(i)&1 == 1)
		}
	}
	return out
}

// NewPruned builds the pruned-branch cell that replaces `orig` in a proof of
// level newLevel (1..3, must exceed orig's level), as
// CellBuilder::create_pruned_branch does: mask = orig.mask | 1<<(newLevel-1),
// followed by orig's hashes and depths at each of orig's significant levels.
func NewPruned(orig *Cell, newLevel int) *Cell {
	if newLevel <= orig.Level() || newLevel > 3 {
		panic("NewPruned: level")
	}
	mask := orig.Mask() | 1<<uint(newLevel-1)
	data := []byte{PrunedBranch, mask}
	for _, l := range orig.SignificantLevels() {
		h := orig.HashAt(l)
		data = append(data, h[:]...)
	}
	for _, l := range orig.SignificantLevels() {
		d := orig.DepthAt(l)
		data = append(data, byte(d>>8), byte(d))
	}
	return New(bytesBits(data), true)
}

// NewPrunedRaw builds a pruned branch with arbitrary stored hashes/depths.
func NewPrunedRaw(mask uint8, hashes []Hash, depths []int) *Cell {
	data := []byte{PrunedBranch, mask}
	for _, h := range hashes {
		data = append(data, h[:]...)
	}
	for _, d := range depths {
		data = append(data, byte(d>>8), byte(d))
	}
	return New(bytesBits(data), true)
}

func NewLibrary(h Hash) *Cell {
	return New(bytesBits(append([]byte{Library}, h[:]...)), true)
}

func NewMerkleProof(child *Cell) *Cell {
	h := child.HashAt(0)
	d := child.DepthAt(0)
	data := append([]byte{MerkleProof}, h[:]...)
	data = append(data, byte(d>>8), byte(d))
	return New(bytesBits(data), true, child)
}

func NewMerkleUpdate(a, b *Cell) *Cell {
	ha, hb := a.HashAt(0), b.HashAt(0)
	da, db := a.DepthAt(0), b.DepthAt(0)
	data := append([]byte{MerkleUpdate}, ha[:]...)
	data = append(data, hb[:]...)
	data = append(data, byte(da>>8), byte(da), byte(db>>8), byte(db))
	return New(bytesBits(data), true, a, b)
}

// BytesBits is exported for generators.
func BytesBits(b []byte) []bool { return bytesBits(b) }
