package dict

import (
	"errors"
	"fmt"

	rboc "verifharness/ref/boc"
	"verifharness/ref/cell"
	"verifharness/ref/realdata"
)

// Stats says what the self-check read from the repository's real data.
type Stats struct {
	Dicts       int    `json:"dictionaries"`
	Entries     int    `json:"entries"`
	Pruned      int    `json:"pruned_subtrees_stepped_over"`
	Short       int    `json:"labels_short"`
	Long        int    `json:"labels_long"`
	Same        int    `json:"labels_same"`
	CrossChecks int    `json:"key_equals_field_inside_value"`
	Widths      [4]int `json:"dicts_by_width_32_64_96_256"`
	Rebuilt     int    `json:"rebuilt_by_reference_writer_to_same_hash"`
}

// rebuild writes the parsed augmented dictionary again with canonical
// labels (fork extras replayed in order) and compares the root hash with the
// cell the TON node produced: this pins the writer and the canonical label rule.
func rebuild(orig *cell.Cell, n int, p *Parsed, st *Stats) error {
	if len(p.Pruned) > 0 || len(p.Entries) == 0 {
		return nil
	}
	i := 0
	b := &Builder{N: n, Aug: true, Fork: func(l, r Value) Value { v := p.ForkExtras[i]; i++; return v }}
	root, _, err := b.Root(p.Entries)
	if err != nil {
		return fmt.Errorf("reference writer: %v", err)
	}
	if root.Hash() != orig.Hash() {
		return errors.New("reference writer (canonical labels) does not reproduce the node's dictionary cell")
	}
	st.Rebuilt++
	return nil
}

func (s *Stats) add(p *Parsed, n int) {
	s.Dicts++
	s.Entries += len(p.Entries)
	s.Pruned += len(p.Pruned)
	s.Short += p.Forms[Short]
	s.Long += p.Forms[Long]
	s.Same += p.Forms[Same]
	switch n {
	case 32:
		s.Widths[0]++
	case 64:
		s.Widths[1]++
	case 96:
		s.Widths[2]++
	case 256:
		s.Widths[3]++
	}
}

func uintAt(b []bool, at, w int) (uint64, error) {
	if at+w > len(b) {
		return 0, errors.New("short")
	}
	var v uint64
	for i := 0; i < w; i++ {
		v <<= 1
		if b[at+i] {
			v |= 1
		}
	}
	return v, nil
}

// nanograms$_ amount:(VarUInteger 16) = Grams;  var_uint$_ {n:#} len:(#< n) value:(uint (len * 8))
func gramsLen(b []bool, at int) (int, error) {
	l, err := uintAt(b, at, 4)
	if err != nil {
		return 0, err
	}
	if at+4+8*int(l) > len(b) {
		return 0, errors.New("short grams")
	}
	return 4 + 8*int(l), nil
}

// currencies$_ grams:Grams other:ExtraCurrencyCollection;  extra_currencies$_ dict:(HashmapE 32 (VarUInteger 32))
func ccLen(b []bool, at int) (nb, nr int, err error) {
	g, err := gramsLen(b, at)
	if err != nil {
		return 0, 0, err
	}
	d, err := uintAt(b, at+g, 1)
	if err != nil {
		return 0, 0, err
	}
	return g + 1, int(d), nil
}

// SplitCurrencyCollection is the extra of ShardAccountBlocks, OutMsgDescr
// and the per-account transaction dictionaries.
func SplitCurrencyCollection(b []bool, refs []*cell.Cell) (int, int, error) {
	return ccLen(b, 0)
}

// import_fees$_ fees_collected:Grams value_imported:CurrencyCollection = ImportFees;
func splitImportFees(b []bool, refs []*cell.Cell) (int, int, error) {
	g, err := gramsLen(b, 0)
	if err != nil {
		return 0, 0, err
	}
	nb, nr, err := ccLen(b, g)
	return g + nb, nr, err
}

// depth_balance$_ split_depth:(#<= 30) balance:CurrencyCollection = DepthBalanceInfo;
func splitDepthBalance(b []bool, refs []*cell.Cell) (int, int, error) {
	nb, nr, err := ccLen(b, 5)
	return 5 + nb, nr, err
}

func tag(c *cell.Cell, w int) uint64 {
	v, err := uintAt(c.Bits, 0, w)
	if err != nil {
		return ^uint64(0)
	}
	return v
}

func sameBits(a, b []bool) bool {
	if len(a) != len(b) {
		return false
	}
	for i := range a {
		if a[i] != b[i] {
			return false
		}
	}
	return true
}

// augE parses an in-line HashmapAugE (bit, root reference, root extra).
func augE(c *cell.Cell, n int, split func([]bool, []*cell.Cell) (int, int, error), pruned bool, st *Stats) (*Parsed, error) {
	if c.Exotic {
		return nil, nil // pruned away
	}
	if len(c.Bits) < 1 {
		return nil, errors.New("HashmapAugE: empty cell")
	}
	if !c.Bits[0] {
		return &Parsed{}, nil
	}
	if len(c.Refs) < 1 {
		return nil, errors.New("ahme_root without reference")
	}
	r := &Reader{N: n, SplitExtra: split, AllowPruned: pruned}
	p, err := r.Parse(c.Refs[0])
	if err != nil {
		return nil, err
	}
	// the root extra after the bit must parse and be all that is left
	nb, nr, err := split(c.Bits[1:], c.Refs[1:])
	if err != nil || nb != len(c.Bits)-1 || nr != len(c.Refs)-1 {
		return nil, fmt.Errorf("root extra of HashmapAugE does not account for the cell (%v)", err)
	}
	st.add(p, n)
	if err := rebuild(c.Refs[0], n, p, st); err != nil {
		return nil, err
	}
	return p, nil
}

// checkBlock reads the dictionaries of one block:
//
//	block#11ef55aa global_id:int32 info:^BlockInfo value_flow:^ValueFlow state_update:^(MERKLE_UPDATE ShardState) extra:^BlockExtra
//	block_extra#4a33f6fd in_msg_descr:^InMsgDescr out_msg_descr:^OutMsgDescr account_blocks:^ShardAccountBlocks …
//	_ (HashmapAugE 256 InMsg ImportFees) = InMsgDescr;  _ (HashmapAugE 256 OutMsg CurrencyCollection) = OutMsgDescr;
//	_ (HashmapAugE 256 AccountBlock CurrencyCollection) = ShardAccountBlocks;
//	acc_trans#5 account_addr:bits256 transactions:(HashmapAug 64 ^Transaction CurrencyCollection) state_update:^(HASH_UPDATE Account)
//	transaction$0111 account_addr:bits256 lt:uint64 …
func checkBlock(root *cell.Cell, st *Stats) error {
	if len(root.Refs) != 4 {
		return errors.New("block without 4 references")
	}
	extra := root.Refs[3]
	if tag(extra, 32) != 0x4a33f6fd || len(extra.Refs) < 3 {
		return errors.New("block_extra not found")
	}
	in, err := augE(extra.Refs[0], 256, splitImportFees, false, st)
	if err != nil {
		return fmt.Errorf("InMsgDescr: %v", err)
	}
	for _, e := range in.Entries {
		// msg_import_ext$000 msg:^(Message Any) transaction:^Transaction: the key is the hash of msg
		if len(e.Val.Bits) >= 3 && !e.Val.Bits[0] && !e.Val.Bits[1] && !e.Val.Bits[2] && len(e.Val.Refs) == 2 {
			h := e.Val.Refs[0].Hash()
			if !sameBits(cell.BytesBits(h[:]), e.Key) {
				return errors.New("InMsgDescr: key differs from the hash of the imported external message")
			}
			st.CrossChecks++
		}
	}
	if _, err := augE(extra.Refs[1], 256, SplitCurrencyCollection, false, st); err != nil {
		return fmt.Errorf("OutMsgDescr: %v", err)
	}
	ab, err := augE(extra.Refs[2], 256, SplitCurrencyCollection, false, st)
	if err != nil {
		return fmt.Errorf("ShardAccountBlocks: %v", err)
	}
	for _, e := range ab.Entries {
		v := e.Val
		if len(v.Bits) < 260 || len(v.Refs) < 1 || tag(cell.New(v.Bits, false), 4) != 5 {
			return errors.New("AccountBlock: not acc_trans#5")
		}
		if !sameBits(v.Bits[4:260], e.Key) {
			return errors.New("AccountBlock: account_addr differs from the dictionary key")
		}
		st.CrossChecks++
		// the transactions dictionary sits in-line; the last reference is state_update
		inl := cell.New(v.Bits[260:], false, v.Refs[:len(v.Refs)-1]...)
		tr, err := (&Reader{N: 64, SplitExtra: SplitCurrencyCollection}).Parse(inl)
		if err != nil {
			return fmt.Errorf("transactions of an AccountBlock: %v", err)
		}
		st.add(tr, 64)
		if err := rebuild(inl, 64, tr, st); err != nil {
			return err
		}
		for _, t := range tr.Entries {
			if len(t.Val.Bits) != 0 || len(t.Val.Refs) != 1 {
				return errors.New("transactions: value is not a lone reference")
			}
			tx := t.Val.Refs[0]
			if len(tx.Bits) < 4+256+64 || tag(tx, 4) != 7 {
				return errors.New("transactions: value is not transaction$0111")
			}
			if !sameBits(tx.Bits[4:260], e.Key) || !sameBits(tx.Bits[260:324], t.Key) {
				return errors.New("transactions: account_addr / lt differ from the dictionary keys")
			}
			st.CrossChecks++
		}
	}
	// state_update: both sides of the Merkle update
	if su := root.Refs[2]; su.Type() == cell.MerkleUpdate {
		for _, side := range su.Refs {
			if err := checkState(side, st); err != nil {
				return err
			}
		}
	}
	return nil
}

// checkState reads the dictionaries of a (possibly pruned) shard state:
//
//	split_state#5f327da5 left:^ShardStateUnsplit right:^ShardStateUnsplit = ShardState;
//	shard_state#9023afe2 … out_msg_queue_info:^OutMsgQueueInfo before_split:(## 1) accounts:^ShardAccounts ^[…] custom:(Maybe ^McStateExtra)
//	_ (HashmapAugE 256 ShardAccount DepthBalanceInfo) = ShardAccounts;
//	account_descr$_ account:^Account last_trans_hash:bits256 last_trans_lt:uint64 = ShardAccount;
//	account$1 addr:MsgAddressInt …;  addr_std$10 anycast:(Maybe Anycast) workchain_id:int8 address:bits256
//	masterchain_state_extra#cc26 shard_hashes:ShardHashes config:ConfigParams …
//	_ (HashmapE 32 ^(BinTree ShardDescr)) = ShardHashes;  _ config_addr:bits256 config:^(Hashmap 32 ^Cell) = ConfigParams;
func checkState(c *cell.Cell, st *Stats) error {
	if c.Exotic {
		return nil
	}
	switch tag(c, 32) {
	case 0x5f327da5:
		for _, r := range c.Refs {
			if err := checkState(r, st); err != nil {
				return err
			}
		}
		return nil
	case 0x9023afe2:
	default:
		return errors.New("shard state: unknown tag")
	}
	if len(c.Refs) < 3 {
		return errors.New("shard state with fewer than 3 references")
	}
	acc, err := augE(c.Refs[1], 256, splitDepthBalance, true, st)
	if err != nil {
		return fmt.Errorf("ShardAccounts: %v", err)
	}
	if acc != nil {
		for _, e := range acc.Entries {
			if len(e.Val.Bits) != 256+64 || len(e.Val.Refs) != 1 {
				return errors.New("ShardAccount: value is not ^Account bits256 uint64")
			}
			a := e.Val.Refs[0]
			// account$1 addr_std$10 nothing$0 workchain_id:int8 address:bits256
			if !a.Exotic && len(a.Bits) >= 12+256 && a.Bits[0] && a.Bits[1] && !a.Bits[2] && !a.Bits[3] {
				if !sameBits(a.Bits[12:268], e.Key) {
					return errors.New("ShardAccounts: account address differs from the dictionary key")
				}
				st.CrossChecks++
			}
		}
	}
	if len(c.Refs) == 4 && !c.Refs[3].Exotic && tag(c.Refs[3], 16) == 0xcc26 {
		x := c.Refs[3]
		if len(x.Bits) < 17 {
			return errors.New("McStateExtra too short")
		}
		ri := 0
		if x.Bits[16] {
			sh, err := (&Reader{N: 32, AllowPruned: true}).Parse(x.Refs[0])
			if err != nil {
				return fmt.Errorf("ShardHashes: %v", err)
			}
			st.add(sh, 32)
			ri = 1
		}
		if len(x.Refs) <= ri {
			return errors.New("McStateExtra without config reference")
		}
		if cfg := x.Refs[ri]; !cfg.Exotic {
			p, err := (&Reader{N: 32, AllowPruned: true}).Parse(cfg)
			if err != nil {
				return fmt.Errorf("ConfigParams: %v", err)
			}
			for _, e := range p.Entries {
				if len(e.Val.Bits) != 0 || len(e.Val.Refs) != 1 {
					return errors.New("ConfigParams: value is not a lone reference")
				}
			}
			st.add(p, 32)
		}
	}
	return nil
}

// SelfCheck reads every dictionary the navigation above reaches in the
// repository's real blocks and config proofs. The reader itself enforces
// full-width, strictly ascending keys; on top of that the values of
// several dictionaries repeat their own key (account address, transaction
// lt, message hash), which only matches if every label on the path was
// decoded correctly.
func SelfCheck(repo string, big bool) (Stats, error) {
	var st Stats
	files, err := realdata.Files(repo, big)
	if err != nil {
		return st, err
	}
	for _, f := range files {
		roots, _, _, err := rboc.Read(f.Bytes)
		if err != nil {
			return st, fmt.Errorf("%s: %v", f.Name, err)
		}
		root := roots[0]
		switch {
		case !root.Exotic && tag(root, 32) == 0x11ef55aa:
			if err := checkBlock(root, &st); err != nil {
				return st, fmt.Errorf("%s: %v", f.Name, err)
			}
		case root.Type() == cell.MerkleProof:
			if err := checkState(root.Refs[0], &st); err != nil {
				return st, fmt.Errorf("%s: %v", f.Name, err)
			}
		case f.Name == "tlb/testdata/hashmap_aug.hex":
			if _, err := augE(root, 256, SplitCurrencyCollection, false, &st); err != nil {
				return st, fmt.Errorf("%s: %v", f.Name, err)
			}
		}
	}
	if st.Dicts < 5 || st.Entries < 50 || st.CrossChecks < 20 || st.Rebuilt < 5 {
		return st, fmt.Errorf("self-check saw too little: %+v", st)
	}
	// writer against reader on the real dictionaries is done by the callers' workloads;
	// here: label codec round trip over every (form, n, m) with m <= 40
	for m := 0; m <= 40; m++ {
		for n := 0; n <= m; n++ {
			for pat := 0; pat < 3; pat++ {
				lab := make([]bool, n)
				for i := range lab {
					lab[i] = pat == 1 || (pat == 2 && (i*7+n)%3 == 0)
				}
				for _, f := range []Form{Canonical, Short, Long, Same} {
					enc, err := EncodeLabel(lab, m, f)
					if err != nil {
						if f == Same && !allSame(lab) {
							continue
						}
						return st, err
					}
					if f != Canonical && len(enc) != LabelSize(f, n, m) {
						return st, fmt.Errorf("label size formula wrong for %v n=%d m=%d", f, n, m)
					}
					if f == Canonical {
						for _, g := range Feasible(lab, m, 1023) {
							if LabelSize(g, n, m) < len(enc) {
								return st, fmt.Errorf("canonical label is not the shortest for n=%d m=%d", n, m)
							}
						}
					}
					got, used, _, err := DecodeLabel(append(enc, true, false, true), m)
					if err != nil || used != len(enc) || !sameBits(got, lab) {
						return st, fmt.Errorf("label round trip failed for %v n=%d m=%d", f, n, m)
					}
				}
			}
		}
	}
	return st, nil
}
