package dict

// Key-set generators shared by the dictionary checks (C05, C18): the
// adversarial shapes named in DESIGN.md §5 C05. They only produce bit
// strings; no dictionary code is involved.

// Rand is the part of the harness PRNG the generators need (*mon.Rng has it).
type Rand interface {
	Intn(n int) int
	Range(lo, hi int) int
	Bool() bool
	Chance(num, den int) bool
	Bits(n int) []bool
}

func fill(n int, v bool) []bool {
	b := make([]bool, n)
	for i := range b {
		b[i] = v
	}
	return b
}

func incr(b []bool) bool { // +1, false on wrap-around
	for i := len(b) - 1; i >= 0; i-- {
		b[i] = !b[i]
		if b[i] {
			return true
		}
	}
	return false
}

type keySet struct {
	m     map[string]bool
	keys  [][]bool
	limit int
}

func (s *keySet) add(b []bool) {
	k := KeyString(b)
	if s.m[k] || len(s.keys) >= s.limit {
		return
	}
	s.m[k] = true
	s.keys = append(s.keys, append([]bool(nil), b...))
}

var Shapes = []string{"empty", "single-zero", "single-one", "single-random", "pair-first-bit", "pair-last-bit", "pair-bit-j",
	"common-prefix", "runs", "dense-range", "min-max", "random-small", "random-large", "full", "clustered", "sign-straddle"}

// GenKeys returns a set of distinct n-bit strings of the named shape.
func GenKeys(r Rand, n int, shape string, large int) [][]bool {
	space := 1 << 30
	if n < 30 {
		space = 1 << uint(n)
	}
	s := &keySet{m: map[string]bool{}, limit: space}
	rnd := func() []bool { return r.Bits(n) }
	switch shape {
	case "empty":
	case "single-zero":
		s.add(fill(n, false))
	case "single-one":
		s.add(fill(n, true))
	case "single-random":
		s.add(rnd())
	case "pair-first-bit", "pair-last-bit", "pair-bit-j":
		a := rnd()
		j := 0
		if shape == "pair-last-bit" {
			j = n - 1
		} else if shape == "pair-bit-j" {
			j = r.Intn(n)
		}
		b := append([]bool(nil), a...)
		b[j] = !b[j]
		s.add(a)
		s.add(b)
	case "common-prefix":
		// all keys share exactly p leading bits
		p := []int{0, 1, 6, 7, 8, 9, n - 2, n - 1, r.Intn(n)}[r.Intn(9)]
		if p < 0 {
			p = 0
		}
		if p > n-1 {
			p = n - 1
		}
		pre := r.Bits(p)
		if r.Chance(1, 3) {
			pre = fill(p, r.Bool())
		}
		cnt := r.Range(2, 8)
		for i := 0; i < cnt*3 && len(s.keys) < cnt; i++ {
			k := append(append([]bool(nil), pre...), r.Bits(n-p)...)
			if i < 2 {
				k[p] = i == 1 // both sides of the fork exist
			}
			s.add(k)
		}
	case "runs":
		// keys made of runs of equal bits, each at least 8 long where the width allows
		cnt := r.Range(1, 10)
		for i := 0; i < cnt*3 && len(s.keys) < cnt; i++ {
			k := make([]bool, 0, n)
			v := r.Bool()
			for len(k) < n {
				l := r.Range(8, 40)
				if r.Chance(1, 4) {
					l = r.Range(8, n+8)
				}
				for j := 0; j < l && len(k) < n; j++ {
					k = append(k, v)
				}
				v = !v
			}
			s.add(k)
		}
		if r.Bool() {
			s.add(fill(n, false))
		}
		if r.Bool() {
			s.add(fill(n, true))
		}
	case "dense-range":
		base := rnd()
		if r.Chance(1, 3) {
			// sit just below a carry into a high bit
			for i := n / 2; i < n; i++ {
				base[i] = true
			}
			for i := n - 3; i >= 0 && i < n; i++ {
				base[i] = r.Bool()
			}
		}
		cnt := r.Range(2, 70)
		for i := 0; i < cnt; i++ {
			s.add(base)
			if !incr(base) {
				break
			}
		}
	case "min-max":
		s.add(fill(n, false))
		s.add(fill(n, true))
		if n > 1 && r.Bool() {
			mn := fill(n, false) // signed minimum 100…0
			mn[0] = true
			mx := fill(n, true) // signed maximum 011…1
			mx[0] = false
			s.add(mn)
			s.add(mx)
		}
		if r.Bool() {
			s.add(rnd())
		}
	case "random-small":
		cnt := r.Range(2, 30)
		for i := 0; i < cnt*3 && len(s.keys) < cnt; i++ {
			s.add(rnd())
		}
	case "random-large":
		cnt := r.Range(30, large)
		for i := 0; i < cnt*2 && len(s.keys) < cnt; i++ {
			s.add(rnd())
		}
	case "full":
		// every key of a narrow type, or a complete sub-tree under a random prefix
		w := n
		if w > 6 {
			w = r.Range(1, 6)
		}
		pre := r.Bits(n - w)
		suf := fill(w, false)
		for {
			s.add(append(append([]bool(nil), pre...), suf...))
			if !incr(suf) {
				break
			}
		}
	case "clustered":
		// near-duplicates: keys differing from another key in one bit or in the tail only
		s.add(rnd())
		cnt := r.Range(3, 40)
		for i := 0; i < cnt*3 && len(s.keys) < cnt; i++ {
			k := append([]bool(nil), s.keys[r.Intn(len(s.keys))]...)
			switch r.Intn(3) {
			case 0:
				j := r.Intn(n)
				k[j] = !k[j]
			case 1:
				t := r.Intn(n)
				copy(k[t:], r.Bits(n-t))
			default:
				j := n - 1 - r.Intn(min(n, 9))
				k[j] = !k[j]
			}
			s.add(k)
		}
	case "sign-straddle":
		// small magnitudes on both sides of zero when read as signed: 0, 1, 2, …, -1, -2, …
		cnt := r.Range(2, 12)
		up := fill(n, false)
		dn := fill(n, true)
		for i := 0; i < cnt; i++ {
			if r.Bool() {
				s.add(up)
			}
			if r.Bool() {
				s.add(dn)
			}
			incr(up)
			// decrement dn
			for j := n - 1; j >= 0; j-- {
				dn[j] = !dn[j]
				if !dn[j] {
					break
				}
			}
		}
		s.add(fill(n, true))
		s.add(fill(n, false))
	default:
		panic("unknown shape " + shape)
	}
	return s.keys
}
