// Package dict is the reference model of TON dictionaries (Hashmap,
// HashmapE, HashmapAug, HashmapAugE) over reference cells. The abstract
// value of a dictionary is a Go map from the key bit string to the value
// (the bits and references that follow the label in the leaf). The package
// is written from the TL-B definitions in block.tlb (quoted above each
// function) and the label-selection rule of crypto/vm/dict.cpp; it shares no
// code with tongo and imports nothing of it.
package dict

import (
	"errors"
	"fmt"
	"sort"

	"verifharness/ref/cell"
)

// Value is an opaque TL-B value as it sits in a cell: some bits and some
// references.
type Value struct {
	Bits []bool
	Refs []*cell.Cell
}

// Entry is one key of a dictionary. Extra is only used by the augmented
// variants.
type Entry struct {
	Key   []bool
	Val   Value
	Extra Value
}

// Form selects the constructor of HmLabel.
type Form int

const (
	Canonical Form = iota // the form the TON node itself would choose
	Short                 // hml_short$0
	Long                  // hml_long$10
	Same                  // hml_same$11
)

func (f Form) String() string {
	return [...]string{"canonical", "short", "long", "same"}[f]
}

// KeyString renders a bit string as "0101…", the map key of the model.
func KeyString(b []bool) string {
	s := make([]byte, len(b))
	for i, x := range b {
		s[i] = '0'
		if x {
			s[i] = '1'
		}
	}
	return string(s)
}

func KeyBits(s string) []bool {
	b := make([]bool, len(s))
	for i := range s {
		b[i] = s[i] == '1'
	}
	return b
}

// limWidth is the width of "#<= m": the number of bits of m.
func limWidth(m int) int {
	w := 0
	for m > 0 {
		w++
		m >>= 1
	}
	return w
}

func allSame(b []bool) bool {
	for _, x := range b {
		if x != b[0] {
			return false
		}
	}
	return true
}

// LabelSize is the number of bits the given constructor needs for a label
// of n bits when at most m are possible.
//
//	hml_short$0 {m:#} {n:#} len:(Unary ~n) {n <= m} s:(n * Bit) = HmLabel ~n m;   1 + (n+1) + n
//	hml_long$10 {m:#} n:(#<= m) s:(n * Bit) = HmLabel ~n m;                       2 + |#<= m| + n
//	hml_same$11 {m:#} v:Bit n:(#<= m) = HmLabel ~n m;                             2 + 1 + |#<= m|
func LabelSize(f Form, n, m int) int {
	switch f {
	case Short:
		return 2*n + 2
	case Long:
		return 2 + limWidth(m) + n
	case Same:
		return 3 + limWidth(m)
	}
	panic("LabelSize: form")
}

// CanonicalForm is the constructor the TON node picks (crypto/vm/dict.cpp,
// append_dict_label): hml_same when all bits are equal, n > 1 and it is
// strictly shorter than hml_short; otherwise hml_long when it is strictly
// shorter than hml_short; otherwise hml_short.
func CanonicalForm(label []bool, m int) Form {
	n, k := len(label), limWidth(m)
	if n > 1 && allSame(label) && k < 2*n-1 {
		return Same
	}
	if k < n {
		return Long
	}
	return Short
}

// Feasible lists the constructors that can represent label at all (hml_same
// needs equal bits) and whose encoding fits into room bits.
func Feasible(label []bool, m, room int) []Form {
	var out []Form
	for _, f := range []Form{Short, Long, Same} {
		if f == Same && !allSame(label) {
			continue
		}
		if LabelSize(f, len(label), m) <= room {
			out = append(out, f)
		}
	}
	return out
}

func uintBits(v, w int) []bool {
	out := make([]bool, w)
	for i := 0; i < w; i++ {
		out[i] = v>>(uint(w-1-i))&1 == 1
	}
	return out
}

// EncodeLabel writes label as HmLabel ~n m with the given constructor.
func EncodeLabel(label []bool, m int, f Form) ([]bool, error) {
	n := len(label)
	if n > m {
		return nil, fmt.Errorf("label of %d bits, at most %d possible", n, m)
	}
	if f == Canonical {
		f = CanonicalForm(label, m)
	}
	var out []bool
	switch f {
	case Short:
		// $0, then Unary ~n = n ones and a zero, then the bits
		out = append(out, false)
		for i := 0; i < n; i++ {
			out = append(out, true)
		}
		out = append(out, false)
		out = append(out, label...)
	case Long:
		out = append(out, true, false)
		out = append(out, uintBits(n, limWidth(m))...)
		out = append(out, label...)
	case Same:
		if !allSame(label) {
			return nil, errors.New("hml_same needs equal bits")
		}
		v := false
		if n > 0 {
			v = label[0]
		}
		out = append(out, true, true, v)
		out = append(out, uintBits(n, limWidth(m))...)
	default:
		return nil, errors.New("unknown label form")
	}
	return out, nil
}

// DecodeLabel reads HmLabel ~n m from the front of bits. It returns the
// label, the number of bits consumed and the constructor seen.
func DecodeLabel(bits []bool, m int) (label []bool, used int, f Form, err error) {
	short := errors.New("label runs past the end of the cell")
	if len(bits) < 1 {
		return nil, 0, 0, short
	}
	take := func(at, w int) (int, bool) {
		if at+w > len(bits) {
			return 0, false
		}
		v := 0
		for i := 0; i < w; i++ {
			v <<= 1
			if bits[at+i] {
				v |= 1
			}
		}
		return v, true
	}
	if !bits[0] {
		// hml_short$0 len:(Unary ~n) {n <= m} s:(n * Bit)
		n, p := 0, 1
		for {
			if p >= len(bits) {
				return nil, 0, 0, short
			}
			if !bits[p] {
				p++
				break
			}
			n++
			p++
		}
		if n > m {
			return nil, 0, 0, fmt.Errorf("hml_short: n=%d exceeds m=%d", n, m)
		}
		if p+n > len(bits) {
			return nil, 0, 0, short
		}
		return append([]bool(nil), bits[p:p+n]...), p + n, Short, nil
	}
	if len(bits) < 2 {
		return nil, 0, 0, short
	}
	k := limWidth(m)
	if !bits[1] {
		// hml_long$10 n:(#<= m) s:(n * Bit)
		n, ok := take(2, k)
		if !ok {
			return nil, 0, 0, short
		}
		if n > m {
			return nil, 0, 0, fmt.Errorf("hml_long: n=%d exceeds m=%d", n, m)
		}
		if 2+k+n > len(bits) {
			return nil, 0, 0, short
		}
		return append([]bool(nil), bits[2+k:2+k+n]...), 2 + k + n, Long, nil
	}
	// hml_same$11 v:Bit n:(#<= m)
	if len(bits) < 3 {
		return nil, 0, 0, short
	}
	v := bits[2]
	n, ok := take(3, k)
	if !ok {
		return nil, 0, 0, short
	}
	if n > m {
		return nil, 0, 0, fmt.Errorf("hml_same: n=%d exceeds m=%d", n, m)
	}
	label = make([]bool, n)
	for i := range label {
		label[i] = v
	}
	return label, 3 + k, Same, nil
}

// ---------------------------------------------------------------- writer

// Chooser picks the label constructor for one edge. depth is the number of
// key bits already consumed above this edge, room the number of bits the
// label may take in its cell. Returning Canonical is always allowed.
type Chooser func(label []bool, m, depth, room int) Form

// Builder writes dictionaries.
type Builder struct {
	N      int     // key width
	Choose Chooser // nil = canonical labels
	// Aug turns the writer into HashmapAug: every leaf stores Entry.Extra in
	// front of the value and every fork stores Fork(left extra, right extra)
	// after its two references.
	Aug  bool
	Fork func(left, right Value) Value
}

// SortEntries orders entries by key bits (false < true), the order of a
// dictionary traversal.
func SortEntries(es []Entry) {
	sort.Slice(es, func(i, j int) bool { return Less(es[i].Key, es[j].Key) })
}

// Less compares two bit strings of equal length lexicographically.
func Less(a, b []bool) bool {
	for i := 0; i < len(a) && i < len(b); i++ {
		if a[i] != b[i] {
			return !a[i]
		}
	}
	return len(a) < len(b)
}

// Root builds the cell of a non-empty Hashmap n X (or HashmapAug n X Y)
// and returns it together with the root's extra.
//
//	hm_edge#_ {n:#} {X:Type} {l:#} {m:#} label:(HmLabel ~l n) {n = (~m) + l} node:(HashmapNode m X) = Hashmap n X;
//	hmn_leaf#_ {X:Type} value:X = HashmapNode 0 X;
//	hmn_fork#_ {n:#} {X:Type} left:^(Hashmap n X) right:^(Hashmap n X) = HashmapNode (n + 1) X;
//	ahm_edge#_ … label:(HmLabel ~l n) {n = (~m) + l} node:(HashmapAugNode m X Y) = HashmapAug n X Y;
//	ahmn_leaf#_ {X:Type} {Y:Type} extra:Y value:X = HashmapAugNode 0 X Y;
//	ahmn_fork#_ {n:#} {X:Type} {Y:Type} left:^(HashmapAug n X Y) right:^(HashmapAug n X Y) extra:Y = HashmapAugNode (n + 1) X Y;
func (b *Builder) Root(entries []Entry) (*cell.Cell, Value, error) {
	if len(entries) == 0 {
		return nil, Value{}, errors.New("Hashmap n X cannot be empty")
	}
	es := append([]Entry(nil), entries...)
	SortEntries(es)
	for i := range es {
		if len(es[i].Key) != b.N {
			return nil, Value{}, fmt.Errorf("key of %d bits in a %d-bit dictionary", len(es[i].Key), b.N)
		}
		if i > 0 && !Less(es[i-1].Key, es[i].Key) {
			return nil, Value{}, errors.New("duplicate key")
		}
	}
	return b.edge(es, 0)
}

// edge writes the sub-dictionary holding es, all of which agree on their
// first `depth` bits.
func (b *Builder) edge(es []Entry, depth int) (*cell.Cell, Value, error) {
	m := b.N - depth // bits still to be determined: Hashmap m X
	first, last := es[0].Key, es[len(es)-1].Key
	l := 0
	for depth+l < b.N && first[depth+l] == last[depth+l] {
		l++
	}
	label := first[depth : depth+l]
	var payload []bool
	var refs []*cell.Cell
	var extra Value
	if len(es) == 1 {
		// l == m: leaf
		if b.Aug {
			extra = es[0].Extra
			payload = append(payload, extra.Bits...)
			refs = append(refs, extra.Refs...)
		}
		payload = append(payload, es[0].Val.Bits...)
		refs = append(refs, es[0].Val.Refs...)
	} else {
		// fork on bit depth+l; entries are sorted, so the split point is the first key with a 1 there
		split := sort.Search(len(es), func(i int) bool { return es[i].Key[depth+l] })
		if split == 0 || split == len(es) {
			return nil, Value{}, errors.New("internal: empty side of a fork")
		}
		lc, le, err := b.edge(es[:split], depth+l+1)
		if err != nil {
			return nil, Value{}, err
		}
		rc, re, err := b.edge(es[split:], depth+l+1)
		if err != nil {
			return nil, Value{}, err
		}
		refs = append(refs, lc, rc)
		if b.Aug {
			if b.Fork == nil {
				return nil, Value{}, errors.New("augmented dictionary needs Fork")
			}
			extra = b.Fork(le, re)
			payload = append(payload, extra.Bits...)
			refs = append(refs, extra.Refs...)
		}
	}
	room := 1023 - len(payload)
	f := Canonical
	if b.Choose != nil {
		f = b.Choose(label, m, depth, room)
	}
	lb, err := EncodeLabel(label, m, f)
	if err != nil {
		return nil, Value{}, err
	}
	if len(lb) > room || len(refs) > 4 {
		return nil, Value{}, fmt.Errorf("node does not fit into a cell (%d label + %d payload bits, %d refs)", len(lb), len(payload), len(refs))
	}
	return cell.New(append(lb, payload...), false, refs...), extra, nil
}

// HashmapE returns the in-line part of a HashmapE n X: one bit, plus the
// reference to the root when non-empty.
//
//	hme_empty$0 {n:#} {X:Type} = HashmapE n X;
//	hme_root$1 {n:#} {X:Type} root:^(Hashmap n X) = HashmapE n X;
func (b *Builder) HashmapE(entries []Entry) (Value, error) {
	if b.Aug {
		return Value{}, errors.New("use HashmapAugE")
	}
	if len(entries) == 0 {
		return Value{Bits: []bool{false}}, nil
	}
	root, _, err := b.Root(entries)
	if err != nil {
		return Value{}, err
	}
	return Value{Bits: []bool{true}, Refs: []*cell.Cell{root}}, nil
}

// HashmapAugE returns the in-line part of a HashmapAugE n X Y.
//
//	ahme_empty$0 {n:#} {X:Type} {Y:Type} extra:Y = HashmapAugE n X Y;
//	ahme_root$1 {n:#} {X:Type} {Y:Type} root:^(HashmapAug n X Y) extra:Y = HashmapAugE n X Y;
func (b *Builder) HashmapAugE(entries []Entry, emptyExtra Value) (Value, error) {
	if !b.Aug {
		return Value{}, errors.New("use HashmapE")
	}
	if len(entries) == 0 {
		return Value{Bits: append([]bool{false}, emptyExtra.Bits...), Refs: emptyExtra.Refs}, nil
	}
	root, extra, err := b.Root(entries)
	if err != nil {
		return Value{}, err
	}
	return Value{Bits: append([]bool{true}, extra.Bits...), Refs: append([]*cell.Cell{root}, extra.Refs...)}, nil
}

// ---------------------------------------------------------------- reader

// ErrPruned is returned by Lookup when the path to the key runs into a
// pruned branch.
var ErrPruned = errors.New("path is pruned")

// Reader parses dictionaries strictly.
type Reader struct {
	N int
	// SplitExtra makes the reader parse HashmapAug: given what follows the
	// label (and, in a fork, the two child references) it reports how many
	// bits and references the extra Y occupies.
	SplitExtra func(bits []bool, refs []*cell.Cell) (nbits, nrefs int, err error)
	// AllowPruned lets Parse step over pruned-branch cells (dictionaries
	// inside Merkle proofs); they are reported in Parsed.Pruned.
	AllowPruned bool
}

type PrunedAt struct {
	Prefix []bool
	Cell   *cell.Cell
}

// Parsed is the outcome of a full traversal.
type Parsed struct {
	Entries    []Entry // in traversal order (left before right)
	ForkExtras []Value // augmented only, children before parent: the order in which Builder calls Fork
	Pruned     []PrunedAt
	Forms      [4]int // label constructors seen, indexed by Form
	Nodes      int
	MaxDepth   int
}

// Map returns the abstract value.
func (p *Parsed) Map() map[string]Value {
	m := make(map[string]Value, len(p.Entries))
	for _, e := range p.Entries {
		m[KeyString(e.Key)] = e.Val
	}
	return m
}

// Parse walks the Hashmap n X (HashmapAug n X Y) rooted at c. Besides the
// grammar it verifies what the grammar implies: all keys have N bits and
// come out strictly ascending.
func (r *Reader) Parse(c *cell.Cell) (*Parsed, error) {
	p := &Parsed{}
	if err := r.walk(c, nil, p, 1); err != nil {
		return nil, err
	}
	for i := range p.Entries {
		if len(p.Entries[i].Key) != r.N {
			return nil, fmt.Errorf("key %d has %d bits, want %d", i, len(p.Entries[i].Key), r.N)
		}
		if i > 0 && !Less(p.Entries[i-1].Key, p.Entries[i].Key) {
			return nil, fmt.Errorf("keys %d and %d are not strictly ascending", i-1, i)
		}
	}
	return p, nil
}

func (r *Reader) walk(c *cell.Cell, prefix []bool, p *Parsed, depth int) error {
	if c.Exotic {
		if c.Type() == cell.PrunedBranch && r.AllowPruned {
			p.Pruned = append(p.Pruned, PrunedAt{append([]bool(nil), prefix...), c})
			return nil
		}
		return fmt.Errorf("exotic cell (type %d) at prefix %q", c.Type(), KeyString(prefix))
	}
	p.Nodes++
	if depth > p.MaxDepth {
		p.MaxDepth = depth
	}
	m := r.N - len(prefix)
	label, used, form, err := DecodeLabel(c.Bits, m)
	if err != nil {
		return fmt.Errorf("at prefix %q: %v", KeyString(prefix), err)
	}
	p.Forms[form]++
	key := append(append([]bool(nil), prefix...), label...)
	rest := c.Bits[used:]
	if len(label) == m {
		// HashmapNode 0 X: leaf
		e := Entry{Key: key}
		refs := c.Refs
		if r.SplitExtra != nil {
			nb, nr, err := r.SplitExtra(rest, refs)
			if err != nil || nb > len(rest) || nr > len(refs) {
				return fmt.Errorf("leaf %q: extra does not parse: %v", KeyString(key), err)
			}
			e.Extra = Value{rest[:nb], refs[:nr]}
			rest, refs = rest[nb:], refs[nr:]
		}
		e.Val = Value{rest, refs}
		p.Entries = append(p.Entries, e)
		return nil
	}
	// HashmapNode (m-l) X with m-l > 0: fork
	if len(c.Refs) < 2 {
		return fmt.Errorf("fork at %q has %d references", KeyString(key), len(c.Refs))
	}
	if r.SplitExtra == nil {
		if len(rest) != 0 || len(c.Refs) != 2 {
			return fmt.Errorf("fork at %q carries %d extra bits and %d references", KeyString(key), len(rest), len(c.Refs))
		}
	} else {
		nb, nr, err := r.SplitExtra(rest, c.Refs[2:])
		if err != nil {
			return fmt.Errorf("fork at %q: extra does not parse: %v", KeyString(key), err)
		}
		if nb != len(rest) || nr != len(c.Refs)-2 {
			return fmt.Errorf("fork at %q: %d bits / %d refs after the extra", KeyString(key), len(rest)-nb, len(c.Refs)-2-nr)
		}
	}
	for side := 0; side < 2; side++ {
		if err := r.walk(c.Refs[side], append(append([]bool(nil), key...), side == 1), p, depth+1); err != nil {
			return err
		}
	}
	if r.SplitExtra != nil {
		p.ForkExtras = append(p.ForkExtras, Value{rest, c.Refs[2:]})
	}
	return nil
}

// Lookup follows the one path that can hold key. Cells off the path are
// never touched (they may be pruned). found=false means the dictionary
// provably does not contain the key.
func (r *Reader) Lookup(c *cell.Cell, key []bool) (val Value, found bool, err error) {
	if len(key) != r.N {
		return Value{}, false, fmt.Errorf("key of %d bits, dictionary has %d", len(key), r.N)
	}
	pos := 0
	for {
		if c.Exotic {
			if c.Type() == cell.PrunedBranch {
				return Value{}, false, ErrPruned
			}
			return Value{}, false, fmt.Errorf("exotic cell (type %d) on the path", c.Type())
		}
		m := r.N - pos
		label, used, _, err := DecodeLabel(c.Bits, m)
		if err != nil {
			return Value{}, false, err
		}
		for i, b := range label {
			if key[pos+i] != b {
				return Value{}, false, nil
			}
		}
		pos += len(label)
		rest := c.Bits[used:]
		if pos == r.N {
			refs := c.Refs
			if r.SplitExtra != nil {
				nb, nr, err := r.SplitExtra(rest, refs)
				if err != nil || nb > len(rest) || nr > len(refs) {
					return Value{}, false, fmt.Errorf("leaf extra does not parse: %v", err)
				}
				rest, refs = rest[nb:], refs[nr:]
			}
			return Value{rest, refs}, true, nil
		}
		if len(c.Refs) < 2 {
			return Value{}, false, fmt.Errorf("fork with %d references", len(c.Refs))
		}
		side := 0
		if key[pos] {
			side = 1
		}
		pos++
		c = c.Refs[side]
	}
}

// ParseE reads the in-line HashmapE n X from the front of (bits, refs) and
// returns the parsed dictionary (nil Entries when empty) and what it consumed.
func (r *Reader) ParseE(bits []bool, refs []*cell.Cell) (*Parsed, int, int, error) {
	if len(bits) < 1 {
		return nil, 0, 0, errors.New("HashmapE: no bit")
	}
	if !bits[0] {
		return &Parsed{}, 1, 0, nil
	}
	if len(refs) < 1 {
		return nil, 0, 0, errors.New("hme_root without reference")
	}
	p, err := r.Parse(refs[0])
	if err == nil && len(p.Entries) == 0 && len(p.Pruned) == 0 {
		err = errors.New("hme_root with an empty Hashmap")
	}
	return p, 1, 1, err
}
