package dict

import (
	"os"
	"testing"
)

func repo() string {
	if v := os.Getenv("VERIF_REPO"); v != "" {
		return v
	}
	return "/repo"
}

// The reference reader must read every dictionary of the real blocks and
// config proofs (sorted distinct keys of full width, key repeated inside the value).
func TestSelfCheck(t *testing.T) {
	st, err := SelfCheck(repo(), true)
	t.Logf("%+v", st)
	if err != nil {
		t.Fatal(err)
	}
}
