package reg

import (
	"bytes"
	"fmt"
	"math/big"
	"reflect"
	"unsafe"

	"github.com/tonkeeper/tongo/boc"
)

// EqOpts tunes semantic equality.
type EqOpts struct {
	// ReverseVmStack: a decoded VmStack lists its entries in the reverse order
	// of the encoded one (API convention: arguments top-first, results bottom-first).
	ReverseVmStack bool
}

// Equal compares two values of the same type semantically: big integers by
// value, bit strings by length+bits, cells by representation hash, nil and
// empty slices alike, func fields and the private hash caches of
// Message/Transaction ignored, everything else field by field including
// unexported containers. Returns "" or the path of the first difference.
// Both values must be addressable.
func Equal(a, b reflect.Value, o EqOpts) string {
	return eq(a, b, "", o, 0)
}

func bitsOf(s boc.BitString) []byte {
	n := s.GetWriteCursor()
	buf := s.Buffer()
	out := make([]byte, (n+7)/8)
	copy(out, buf)
	if n%8 != 0 && len(out) > 0 {
		out[len(out)-1] &= 0xff << uint(8-n%8)
	}
	return out
}

func cellHash(c *boc.Cell) (h []byte, err error) {
	defer func() {
		if r := recover(); r != nil {
			err = fmt.Errorf("panic: %v", r)
		}
	}()
	return c.Hash()
}

func open(v reflect.Value) reflect.Value {
	if v.CanInterface() || !v.CanAddr() {
		return v
	}
	return reflect.NewAt(v.Type(), unsafe.Pointer(v.UnsafeAddr())).Elem()
}

func eq(a, b reflect.Value, path string, o EqOpts, depth int) string {
	if depth > 200 {
		return ""
	}
	a, b = open(a), open(b)
	t := a.Type()
	if t != b.Type() {
		return path + ": type " + t.String() + " vs " + b.Type().String()
	}
	// cells (boc.Cell, tlb.Any and anything convertible to boc.Cell)
	if t.Kind() == reflect.Struct && t.ConvertibleTo(tCell) && t.NumField() == tCell.NumField() && (t == tCell || t == tAny) {
		ca := a.Convert(tCell).Interface().(boc.Cell)
		cb := b.Convert(tCell).Interface().(boc.Cell)
		ha, ea := cellHash(&ca)
		hb, eb := cellHash(&cb)
		if (ea != nil) != (eb != nil) || !bytes.Equal(ha, hb) {
			return path + ": cells differ"
		}
		return ""
	}
	if t.Kind() == reflect.Struct && t.ConvertibleTo(tBitString) && (t == tBitString || t == tSnake || t == tChunked) {
		sa := a.Convert(tBitString).Interface().(boc.BitString)
		sb := b.Convert(tBitString).Interface().(boc.BitString)
		if sa.GetWriteCursor() != sb.GetWriteCursor() || !bytes.Equal(bitsOf(sa), bitsOf(sb)) {
			return fmt.Sprintf("%s: bit strings differ (%d vs %d bits)", path, sa.GetWriteCursor(), sb.GetWriteCursor())
		}
		return ""
	}
	if t.Kind() == reflect.Struct && t.ConvertibleTo(tBigInt) {
		xa := (*big.Int)(unsafe.Pointer(a.UnsafeAddr()))
		xb := (*big.Int)(unsafe.Pointer(b.UnsafeAddr()))
		if xa.Cmp(xb) != 0 {
			return fmt.Sprintf("%s: %s vs %s", path, xa.String(), xb.String())
		}
		return ""
	}
	if t == tMagic {
		return "" // a Magic field carries no information beyond the tag written in the struct definition
	}
	if gn := genericName(t); gn == "Hashmap" || gn == "HashmapAug" {
		return eqHashmap(a, b, path, o, depth)
	}
	switch t.Kind() {
	case reflect.Bool:
		if a.Bool() != b.Bool() {
			return fmt.Sprintf("%s: %v vs %v", path, a.Bool(), b.Bool())
		}
	case reflect.Int, reflect.Int8, reflect.Int16, reflect.Int32, reflect.Int64:
		if a.Int() != b.Int() {
			return fmt.Sprintf("%s: %d vs %d", path, a.Int(), b.Int())
		}
	case reflect.Uint, reflect.Uint8, reflect.Uint16, reflect.Uint32, reflect.Uint64, reflect.Uintptr:
		if a.Uint() != b.Uint() {
			return fmt.Sprintf("%s: %d vs %d", path, a.Uint(), b.Uint())
		}
	case reflect.Float32, reflect.Float64:
		if a.Float() != b.Float() {
			return path + ": floats differ"
		}
	case reflect.String:
		if a.String() != b.String() {
			return fmt.Sprintf("%s: %q vs %q", path, trunc(a.String()), trunc(b.String()))
		}
	case reflect.Array:
		for i := 0; i < a.Len(); i++ {
			if d := eq(a.Index(i), b.Index(i), fmt.Sprintf("%s[%d]", path, i), o, depth+1); d != "" {
				return d
			}
		}
	case reflect.Slice:
		if a.Len() != b.Len() {
			return fmt.Sprintf("%s: len %d vs %d", path, a.Len(), b.Len())
		}
		rev := o.ReverseVmStack && t == tVmStack
		for i := 0; i < a.Len(); i++ {
			j := i
			if rev {
				j = a.Len() - 1 - i
			}
			if d := eq(a.Index(i), b.Index(j), fmt.Sprintf("%s[%d]", path, i), o, depth+1); d != "" {
				return d
			}
		}
	case reflect.Pointer:
		if a.IsNil() != b.IsNil() {
			return fmt.Sprintf("%s: nil=%v vs nil=%v", path, a.IsNil(), b.IsNil())
		}
		if !a.IsNil() {
			if t.Elem() == tCell {
				ha, ea := cellHash(a.Interface().(*boc.Cell))
				hb, eb := cellHash(b.Interface().(*boc.Cell))
				if (ea != nil) != (eb != nil) || !bytes.Equal(ha, hb) {
					return path + ": cells differ"
				}
				return ""
			}
			return eq(a.Elem(), b.Elem(), path, o, depth+1)
		}
	case reflect.Interface:
		if a.IsNil() != b.IsNil() {
			return fmt.Sprintf("%s: nil=%v vs nil=%v", path, a.IsNil(), b.IsNil())
		}
		if !a.IsNil() {
			ea, eb := a.Elem(), b.Elem()
			if ea.Type() != eb.Type() {
				return fmt.Sprintf("%s: dynamic type %s vs %s", path, ea.Type(), eb.Type())
			}
			// make addressable copies
			ca := reflect.New(ea.Type()).Elem()
			ca.Set(ea)
			cb := reflect.New(eb.Type()).Elem()
			cb.Set(eb)
			return eq(ca, cb, path, o, depth+1)
		}
	case reflect.Struct:
		if t.NumField() > 0 && t.Field(0).Type == tSumType && t.Field(0).Name == "SumType" {
			// tagged union: same constructor, equal content of that constructor; the other arms are
			// filler (zero values) and carry no meaning
			if a.Field(0).String() != b.Field(0).String() {
				return fmt.Sprintf("%s.SumType: %q vs %q", path, a.Field(0).String(), b.Field(0).String())
			}
			if f, ok := t.FieldByName(a.Field(0).String()); ok && a.Field(0).String() != "SumType" {
				return eq(a.FieldByIndex(f.Index), b.FieldByIndex(f.Index), path+"."+f.Name, o, depth+1)
			}
			return ""
		}
		for i := 0; i < t.NumField(); i++ {
			f := t.Field(i)
			if f.Type.Kind() == reflect.Func {
				continue
			}
			if !f.IsExported() && f.Name == "hash" {
				continue // lazily filled identity caches of Message / Transaction
			}
			if d := eq(a.Field(i), b.Field(i), path+"."+f.Name, o, depth+1); d != "" {
				return d
			}
		}
	case reflect.Map:
		if a.Len() != b.Len() {
			return path + ": map sizes differ"
		}
	case reflect.Func, reflect.Chan, reflect.UnsafePointer:
	}
	return ""
}

func trunc(s string) string {
	if len(s) > 40 {
		return s[:40] + "..."
	}
	return s
}

// eqHashmap compares two Hashmap values as mappings (the listing order of a
// built dictionary and of a decoded one may differ for signed keys).
func eqHashmap(a, b reflect.Value, path string, o EqOpts, depth int) string {
	ka, kb := open(a.FieldByName("keys")), open(b.FieldByName("keys"))
	va, vb := open(a.FieldByName("values")), open(b.FieldByName("values"))
	if !ka.IsValid() || !va.IsValid() {
		return ""
	}
	if ka.Len() != kb.Len() || va.Len() != vb.Len() || ka.Len() != va.Len() {
		return fmt.Sprintf("%s: %d keys/%d values vs %d keys/%d values", path, ka.Len(), va.Len(), kb.Len(), vb.Len())
	}
	idx := map[string]int{}
	for i := 0; i < kb.Len(); i++ {
		idx[fmt.Sprintf("%v", open(kb.Index(i)).Interface())] = i
	}
	for i := 0; i < ka.Len(); i++ {
		k := fmt.Sprintf("%v", open(ka.Index(i)).Interface())
		j, ok := idx[k]
		if !ok {
			return fmt.Sprintf("%s: key %s missing after decode", path, trunc(k))
		}
		if d := eq(va.Index(i), vb.Index(j), fmt.Sprintf("%s[%s]", path, trunc(k)), o, depth+1); d != "" {
			return d
		}
	}
	// extras of HashmapAug are compared as-is when present
	if ea, eb := a.FieldByName("extra"), b.FieldByName("extra"); ea.IsValid() && eb.IsValid() {
		return eq(ea, eb, path+".extra", o, depth+1)
	}
	return ""
}

// JSONCapable reports whether values of type t can survive encoding/json in
// both directions as far as the type structure tells: every struct that hides
// state in unexported fields must bring its own pair of JSON methods.
func JSONCapable(t reflect.Type) bool { return jsonCapable(t, map[reflect.Type]bool{}) }

var (
	tJSONMarshaler   = reflect.TypeOf((*interface{ MarshalJSON() ([]byte, error) })(nil)).Elem()
	tJSONUnmarshaler = reflect.TypeOf((*interface{ UnmarshalJSON([]byte) error })(nil)).Elem()
)

func jsonCapable(t reflect.Type, seen map[reflect.Type]bool) bool {
	if seen[t] {
		return true
	}
	seen[t] = true
	pt := reflect.PointerTo(t)
	m := t.Implements(tJSONMarshaler) || pt.Implements(tJSONMarshaler)
	u := pt.Implements(tJSONUnmarshaler)
	if m && u {
		return true
	}
	if m != u {
		return false
	}
	switch t.Kind() {
	case reflect.Struct:
		for i := 0; i < t.NumField(); i++ {
			f := t.Field(i)
			if !f.IsExported() {
				return false
			}
			if !jsonCapable(f.Type, seen) {
				return false
			}
		}
	case reflect.Pointer, reflect.Slice, reflect.Array:
		return jsonCapable(t.Elem(), seen)
	case reflect.Interface, reflect.Map, reflect.Func, reflect.Chan:
		return false
	}
	return true
}
