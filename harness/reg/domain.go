package reg

import (
	"reflect"
	"sort"

	"github.com/tonkeeper/tongo/abi"
	"github.com/tonkeeper/tongo/boc"
	"github.com/tonkeeper/tongo/tlb"
)

// fixups narrow a reflectively filled struct to its TL-B domain where the Go
// representation can hold more than the schema can express (a field that is
// present only when a flag says so, a flags word with a bounded range).
var fixups = map[reflect.Type]func(g *Gen, v reflect.Value){}

// envelopes generate the ABI "opcode + typed body" wrappers whose Value field
// is an interface: empty, a known typed body with its opcode, or an unknown
// body kept as a cell.
var envelopes = map[reflect.Type]func(g *Gen, v reflect.Value, depth int){}

func sortedKeys[V any](m map[string]V) []string {
	out := make([]string, 0, len(m))
	for k := range m {
		out = append(out, k)
	}
	sort.Strings(out)
	return out
}

// opcodes shared by several operation names (the decoder returns the first
// that parses): the constructor check would be ambiguous for them.
func sharedOpcodes() map[uint32]bool {
	cnt := map[uint32]int{}
	for _, c := range MsgOpCodes {
		cnt[c]++
	}
	out := map[uint32]bool{}
	for c, n := range cnt {
		if n > 1 {
			out[c] = true
		}
	}
	return out
}

func init() {
	// (flags . 0)?BlockCreateStats: present iff flags == 1, flags <= 1
	fixups[reflect.TypeOf(tlb.McStateExtraOther{})] = func(g *Gen, v reflect.Value) {
		m := v.Addr().Interface().(*tlb.McStateExtraOther)
		if g.R.Bool() {
			m.Flags = 1
		} else {
			m.Flags = 0
			m.BlockCreateStats = tlb.BlockCreateStats{}
		}
	}

	shared := sharedOpcodes()
	knownCodes := map[uint32]bool{}
	for _, c := range MsgOpCodes {
		knownCodes[c] = true
	}
	// config:key_block?ConfigParams
	fixups[reflect.TypeOf(tlb.McBlockExtra{})] = func(g *Gen, v reflect.Value) {
		m := v.Addr().Interface().(*tlb.McBlockExtra)
		if !m.KeyBlock {
			m.Config = tlb.ConfigParams{}
		}
	}
	inNames := sortedKeys(abi.KnownMsgInTypes)
	envelopes[reflect.TypeOf(abi.InMsgBody{})] = func(g *Gen, v reflect.Value, depth int) {
		b := v.Addr().Interface().(*abi.InMsgBody)
		switch {
		case g.R.Chance(1, 6) || depth > g.MaxDepth:
			*b = abi.InMsgBody{SumType: abi.EmptyMsgOp}
		case g.R.Chance(1, 6):
			// unknown body as the decoder represents it: the whole body cell (>= 32 bits, starting
			// with an opcode nobody registered) and that opcode
			c := boc.NewCell()
			var code uint32
			for {
				code = uint32(g.R.Uint64())
				if !knownCodes[code] && code != 0 {
					break
				}
			}
			c.WriteUint(uint64(code), 32)
			for _, bit := range g.R.Bits(g.R.Intn(200)) {
				c.WriteBit(bit)
			}
			if g.R.Bool() {
				c.AddRef(g.SmallCell(1))
			}
			*b = abi.InMsgBody{SumType: abi.UnknownMsgOp, OpCode: &code, Value: c}
		default:
			for tries := 0; tries < 20; tries++ {
				name := inNames[g.R.Intn(len(inNames))]
				code, ok := MsgOpCodes[name]
				if !ok || shared[code] {
					continue
				}
				val := reflect.New(reflect.TypeOf(abi.KnownMsgInTypes[name])).Elem()
				g.fill(val, "", depth+1)
				c := code
				*b = abi.InMsgBody{SumType: name, OpCode: &c, Value: val.Interface()}
				g.Trace = append(g.Trace, "abi.InMsgBody."+name)
				return
			}
			*b = abi.InMsgBody{SumType: abi.EmptyMsgOp}
		}
	}
	outNames := sortedKeys(abi.KnownMsgExtOutTypes)
	envelopes[reflect.TypeOf(abi.ExtOutMsgBody{})] = func(g *Gen, v reflect.Value, depth int) {
		b := v.Addr().Interface().(*abi.ExtOutMsgBody)
		if g.R.Chance(1, 5) || depth > g.MaxDepth || len(outNames) == 0 {
			*b = abi.ExtOutMsgBody{SumType: abi.EmptyMsgOp}
			return
		}
		for tries := 0; tries < 20; tries++ {
			name := outNames[g.R.Intn(len(outNames))]
			code, ok := MsgOpCodes[name]
			if !ok {
				continue
			}
			val := reflect.New(reflect.TypeOf(abi.KnownMsgExtOutTypes[name])).Elem()
			g.fill(val, "", depth+1)
			c := code
			*b = abi.ExtOutMsgBody{SumType: name, OpCode: &c, Value: val.Interface()}
			g.Trace = append(g.Trace, "abi.ExtOutMsgBody."+name)
			return
		}
		*b = abi.ExtOutMsgBody{SumType: abi.EmptyMsgOp}
	}
	jNames := sortedKeys(abi.KnownJettonTypes)
	envelopes[reflect.TypeOf(abi.JettonPayload{})] = func(g *Gen, v reflect.Value, depth int) {
		b := v.Addr().Interface().(*abi.JettonPayload)
		if g.R.Chance(1, 4) || depth > g.MaxDepth || len(jNames) == 0 {
			*b = abi.JettonPayload{SumType: abi.EmptyJettonOp}
			return
		}
		name := jNames[g.R.Intn(len(jNames))]
		code, ok := abi.JettonOpCodes[name]
		if !ok {
			*b = abi.JettonPayload{SumType: abi.EmptyJettonOp}
			return
		}
		val := reflect.New(reflect.TypeOf(abi.KnownJettonTypes[name])).Elem()
		g.fill(val, "", depth+1)
		c := uint32(code)
		*b = abi.JettonPayload{SumType: name, OpCode: &c, Value: val.Interface()}
		g.Trace = append(g.Trace, "abi.JettonPayload."+name)
	}
	nNames := sortedKeys(abi.KnownNFTTypes)
	envelopes[reflect.TypeOf(abi.NFTPayload{})] = func(g *Gen, v reflect.Value, depth int) {
		b := v.Addr().Interface().(*abi.NFTPayload)
		if g.R.Chance(1, 4) || depth > g.MaxDepth || len(nNames) == 0 {
			*b = abi.NFTPayload{SumType: abi.EmptyNFTOp}
			return
		}
		name := nNames[g.R.Intn(len(nNames))]
		code, ok := abi.NFTOpCodes[name]
		if !ok {
			*b = abi.NFTPayload{SumType: abi.EmptyNFTOp}
			return
		}
		val := reflect.New(reflect.TypeOf(abi.KnownNFTTypes[name])).Elem()
		g.fill(val, "", depth+1)
		c := uint32(code)
		*b = abi.NFTPayload{SumType: name, OpCode: &c, Value: val.Interface()}
		g.Trace = append(g.Trace, "abi.NFTPayload."+name)
	}
}

// AddrSweep returns message addresses covering every bit length 0..511 of the
// variable-length and external kinds (the random generator hits a given
// length only now and then), with workchains inside and outside the int8
// range and with/without anycast.
func AddrSweep(r interface{ Bits(int) []bool; Uint64() uint64 }) []tlb.MsgAddress {
	mk := func(n int) boc.BitString {
		bs := boc.NewBitString(n)
		for _, b := range r.Bits(n) {
			bs.WriteBit(b)
		}
		return bs
	}
	var out []tlb.MsgAddress
	for n := 0; n <= 511; n++ {
		ext := mk(n)
		out = append(out, tlb.MsgAddress{SumType: "AddrExtern", AddrExtern: &ext})
		for k, wc := range []int32{int32(int8(r.Uint64())), 128 + int32(r.Uint64()%1000000), -129 - int32(r.Uint64()%1000000)} {
			var a tlb.MsgAddress
			a.SumType = "AddrVar"
			a.AddrVar = &struct {
				Anycast     tlb.Maybe[tlb.Anycast]
				AddrLen     tlb.Uint9
				WorkchainId int32
				Address     boc.BitString
			}{AddrLen: tlb.Uint9(n), WorkchainId: wc, Address: mk(n)}
			if (n+k)%3 == 0 {
				d := uint32(1 + r.Uint64()%30)
				a.AddrVar.Anycast = tlb.Maybe[tlb.Anycast]{Exists: true, Value: tlb.Anycast{Depth: d, RewritePfx: uint32(r.Uint64() & (uint64(1)<<d - 1))}}
			}
			out = append(out, a)
		}
	}
	return out
}
