// Package reg is the registry of tongo's TL-B types (generated from the
// tongo sources by cmd/genregistry into registry_gen.go) plus hand-kept
// instantiations of the generic combinators, a reflective value generator
// that follows the types' domain rules, and semantic equality.
package reg

import (
	"reflect"
	"sort"

	"github.com/tonkeeper/tongo/boc"
	"github.com/tonkeeper/tongo/tlb"
)

type Entry struct {
	Name string
	Type reflect.Type
}

var all = map[string]Entry{}

func add(name string, t reflect.Type) { all[name] = Entry{name, t} }

func inst[T any](name string) { add(name, reflect.TypeOf((*T)(nil)).Elem()) }

// Deny lists exported types of the scanned packages that are not TL-B
// values (helpers, codecs, clients). Printed in the evidence.
var Deny = map[string]string{
	"tlb.Decoder": "codec object", "tlb.Encoder": "codec object", "tlb.Tag": "parsed tag helper",
	"tlb.SumType": "constructor-name marker (string)", "tlb.Magic": "tag marker, meaningful only as a struct field with a tag",
	"tlb.HashMapAugExtraList": "generic helper",
	"tlb.BlockchainConfig":    "Go-side view of ConfigParams built by ConvertBlockchainConfig, not a TL-B codec type",
	"tlb.ShardDescription": "convenience struct filled by hand", "tlb.ValidatorSetsCommon": "projection helper",
	"wallet.Message": "Sendable helper (amount/address/body), converted by ToInternal; not a cell layout",
	"wallet.SimpleTransfer": "Sendable helper", "wallet.RawMessage": "pair of cell and mode handed to the wallet, not a cell layout",
	"wallet.Wallet": "client object", "wallet.Version": "enum of wallet versions (int)", "wallet.Options": "options", "wallet.Option": "options",
	"wallet.SimpleMockBlockchain": "mock", "wallet.Sendable": "interface", "wallet.MessageConfig": "options",
	"wallet.ContractDeploy": "Sendable helper", "wallet.NextMsgParams": "helper", "wallet.MessageConfigV5": "options", "wallet.V5MsgType": "enum (int)",
	"wallet.MessageMode": "uint8 alias used as argument",
	"abi.ContractInterface": "enum", "abi.MethodInvocationResult": "result holder", "abi.ContractDescription": "inspection result",
	"abi.MethodDescription": "inspection result", "abi.InterfaceDescription": "inspection result", "abi.InvokeFn": "func", "abi.Executor": "interface",
	"abi.MsgOpName": "string alias", "abi.MsgOpCode": "uint32 alias", "abi.JettonOpName": "string alias", "abi.JettonOpCode": "uint32 alias",
	"abi.NFTOpName": "string alias", "abi.NFTOpCode": "uint32 alias", "abi.ContractError": "error holder",
}

func init() {
	// generic combinators: representative instantiations
	inst[tlb.Maybe[tlb.Uint5]]("tlb.Maybe[Uint5]")
	inst[tlb.Maybe[tlb.Grams]]("tlb.Maybe[Grams]")
	inst[tlb.Maybe[tlb.Ref[boc.Cell]]]("tlb.Maybe[Ref[Cell]]")
	inst[tlb.Maybe[tlb.MsgAddress]]("tlb.Maybe[MsgAddress]")
	inst[tlb.Either[tlb.Uint7, tlb.Int33]]("tlb.Either[Uint7,Int33]")
	inst[tlb.Either[tlb.Grams, tlb.Ref[tlb.Grams]]]("tlb.Either[Grams,Ref[Grams]]")
	inst[tlb.EitherRef[tlb.StateInit]]("tlb.EitherRef[StateInit]")
	inst[tlb.EitherRef[tlb.Any]]("tlb.EitherRef[Any]")
	inst[tlb.EitherRef[tlb.Uint64]]("tlb.EitherRef[Uint64]")
	inst[tlb.Ref[tlb.Uint32]]("tlb.Ref[Uint32]")
	inst[tlb.Ref[tlb.Message]]("tlb.Ref[Message]")
	inst[tlb.Ref[boc.Cell]]("tlb.Ref[Cell]")
	inst[tlb.Ref[tlb.Any]]("tlb.Ref[Any]")
	inst[tlb.Hashmap[tlb.Uint8, tlb.Uint16]]("tlb.Hashmap[Uint8,Uint16]")
	inst[tlb.HashmapE[tlb.Uint32, tlb.VarUInteger32]]("tlb.HashmapE[Uint32,VarUInteger32]")
	inst[tlb.HashmapE[tlb.Bits256, tlb.SimpleLib]]("tlb.HashmapE[Bits256,SimpleLib]")
	inst[tlb.HashmapE[tlb.Uint16, tlb.Ref[tlb.Any]]]("tlb.HashmapE[Uint16,Ref[Any]]")
	inst[tlb.HashmapE[tlb.Int16, tlb.Grams]]("tlb.HashmapE[Int16,Grams]")
	inst[tlb.HashmapE[tlb.Bits256, tlb.Ref[tlb.ContentData]]]("tlb.HashmapE[Bits256,Ref[ContentData]]")
	inst[tlb.HashmapAugE[tlb.Uint32, tlb.Uint8, tlb.Uint16]]("tlb.HashmapAugE[Uint32,Uint8,Uint16]")
	inst[tlb.HashmapAug[tlb.Uint32, tlb.Uint8, tlb.Uint16]]("tlb.HashmapAug[Uint32,Uint8,Uint16]")
	inst[tlb.BinTree[tlb.ShardDesc]]("tlb.BinTree[ShardDesc]")
	inst[tlb.MerkleProof[tlb.ShardStateUnsplit]]("tlb.MerkleProof[ShardStateUnsplit]")
	inst[tlb.MerkleUpdate[tlb.ShardState]]("tlb.MerkleUpdate[ShardState]")
	inst[boc.Cell]("boc.Cell")
}

// Types returns the registry sorted by name, deny-listed entries removed.
func Types() []Entry {
	var out []Entry
	for n, e := range all {
		if _, denied := Deny[n]; denied {
			continue
		}
		out = append(out, e)
	}
	sort.Slice(out, func(i, j int) bool { return out[i].Name < out[j].Name })
	return out
}

func Lookup(name string) (Entry, bool) { e, ok := all[name]; return e, ok }

// Count returns (registered, denied).
func Count() (int, int) {
	d := 0
	for n := range all {
		if _, ok := Deny[n]; ok {
			d++
		}
	}
	return len(all), d
}
