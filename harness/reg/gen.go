package reg

import (
	"fmt"
	"math"
	"math/big"
	"reflect"
	"regexp"
	"strconv"
	"strings"
	"unsafe"

	"github.com/tonkeeper/tongo/boc"
	"github.com/tonkeeper/tongo/tlb"

	"verifharness/mon"
)

const tlbPkg = "github.com/tonkeeper/tongo/tlb"

var (
	tCell      = reflect.TypeOf(boc.Cell{})
	tBitString = reflect.TypeOf(boc.BitString{})
	tAny       = reflect.TypeOf(tlb.Any{})
	tBigInt    = reflect.TypeOf(big.Int{})
	tMagic     = reflect.TypeOf(tlb.Magic(0))
	tSumType   = reflect.TypeOf(tlb.SumType(""))
	tMsgAddr   = reflect.TypeOf(tlb.MsgAddress{})
	tAnycast   = reflect.TypeOf(tlb.Anycast{})
	tGrams     = reflect.TypeOf(tlb.Grams(0))
	tSCoins    = reflect.TypeOf(tlb.SignedCoins(0))
	tSnake     = reflect.TypeOf(tlb.SnakeData{})
	tChunked   = reflect.TypeOf(tlb.ChunkedData{})
	tBytes     = reflect.TypeOf(tlb.Bytes{})
	tText      = reflect.TypeOf(tlb.Text(""))
	tFixedText = reflect.TypeOf(tlb.FixedLengthText(""))
	tUnary     = reflect.TypeOf(tlb.Unary(0))
	tAccStatus = reflect.TypeOf(tlb.AccountStatus(""))
	tAccChange = reflect.TypeOf(tlb.AccStatusChange(""))
	tSkip      = reflect.TypeOf(tlb.ComputeSkipReason(""))
	tVmStack   = reflect.TypeOf(tlb.VmStack{})
	tVmValue   = reflect.TypeOf(tlb.VmStackValue{})
	tVmSlice   = reflect.TypeOf(tlb.VmCellSlice{})

	reIntName = regexp.MustCompile(`^(Uint|Int)(\d+)$`)
	reVarUint = regexp.MustCompile(`^VarUInteger(\d+)$`)
)

var nonEmptyLists = map[string]bool{"wallet.W5ExtendedActions": true, "abi.W5ExtendedActions": true}

// Gen builds in-domain values of registry types by reflection.
type Gen struct {
	R        *mon.Rng
	MaxDepth int
	// TopArm >= 0 forces the constructor of the first union met (round-robin coverage).
	TopArm int
	// Bound selects the boundary-value index for integers (-1 = random mix).
	Bound int
	// Trace records the constructors chosen, "Type.Arm".
	Trace   []string
	topUsed bool
	// Exotic (opt-in, default off): cells in reference positions are now and
	// then exotic cells (see exotic.go). Consumes no randomness when off.
	Exotic bool
	// LongLists (opt-in, default off): lists now and then take their longest
	// forms (see exotic.go). Consumes no randomness when off.
	LongLists bool
	// ExoticSeen counts the exotic cells placed (coverage fact).
	ExoticSeen int
}

func NewGen(r *mon.Rng) *Gen { return &Gen{R: r, MaxDepth: 5, TopArm: -1, Bound: -1} }

// New returns an addressable value of type t.
func (g *Gen) New(t reflect.Type) reflect.Value {
	v := reflect.New(t).Elem()
	g.fill(v, "", 0)
	return v
}

// SmallCell returns a random ordinary cell tree (tongo cell).
func (g *Gen) SmallCell(depth int) *boc.Cell {
	c := boc.NewCell()
	n := g.R.Intn(200)
	if g.R.Chance(1, 8) {
		n = mon.Pick(g.R, []int{0, 1, 7, 8, 9, 255, 256, 1023})
	}
	for _, b := range g.R.Bits(n) {
		c.WriteBit(b)
	}
	if depth < 2 {
		for i := 0; i < g.R.Intn(3); i++ {
			c.AddRef(g.SmallCell(depth + 1))
		}
	}
	return c
}

func (g *Gen) bitString(n int) boc.BitString {
	bs := boc.NewBitString(n)
	for _, b := range g.R.Bits(n) {
		bs.WriteBit(b)
	}
	return bs
}

func (g *Gen) pickBound(n int) int {
	if g.Bound >= 0 {
		return g.Bound % n
	}
	return g.R.Intn(n)
}

func (g *Gen) uintN(n int) uint64 {
	if n <= 0 {
		return 0
	}
	max := ^uint64(0)
	if n < 64 {
		max = uint64(1)<<uint(n) - 1
	}
	switch g.pickBound(8) {
	case 0:
		return 0
	case 1:
		return max
	case 2:
		return 1 & max
	case 3:
		return max - 1&max
	case 4:
		return max>>1 + 1 // top bit only
	case 5:
		return max >> 1
	default:
		return g.R.Uint64() & max
	}
}

func (g *Gen) intN(n int) int64 {
	if n <= 0 {
		return 0
	}
	min := int64(-1) << uint(n-1)
	max := -(min + 1)
	switch g.pickBound(9) {
	case 0:
		return 0
	case 1:
		return -1
	case 2:
		return min
	case 3:
		return max
	case 4:
		if n > 1 {
			return min + 1
		}
		return min
	case 5:
		if n > 1 {
			return max - 1
		}
		return max
	case 6:
		if n > 1 {
			return 1
		}
		return 0
	default:
		if n == 1 {
			return -int64(g.R.Intn(2))
		}
		r := int64(g.R.Uint64() & uint64(max))
		if g.R.Bool() {
			return -r - 1
		}
		return r
	}
}

func (g *Gen) bigUint(n int) *big.Int {
	one := big.NewInt(1)
	max := new(big.Int).Sub(new(big.Int).Lsh(one, uint(n)), one)
	switch g.pickBound(7) {
	case 0:
		return new(big.Int)
	case 1:
		return max
	case 2:
		return big.NewInt(1)
	case 3:
		return new(big.Int).Sub(max, one)
	case 4:
		return new(big.Int).Lsh(one, uint(n-1))
	default:
		return g.R.BigBits(n)
	}
}

func (g *Gen) bigInt(n int) *big.Int {
	one := big.NewInt(1)
	min := new(big.Int).Neg(new(big.Int).Lsh(one, uint(n-1)))
	max := new(big.Int).Sub(new(big.Int).Lsh(one, uint(n-1)), one)
	switch g.pickBound(8) {
	case 0:
		return new(big.Int)
	case 1:
		return big.NewInt(-1)
	case 2:
		return min
	case 3:
		return max
	case 4:
		return new(big.Int).Add(min, one)
	case 5:
		return big.NewInt(1)
	default:
		r := g.R.BigBits(n - 1)
		if g.R.Bool() {
			r.Neg(r)
			r.Sub(r, one)
		}
		return r
	}
}

func setBig(v reflect.Value, x *big.Int) {
	// v is a named type whose underlying type is big.Int
	p := (*big.Int)(unsafe.Pointer(v.UnsafeAddr()))
	p.Set(x)
}

func genericName(t reflect.Type) string {
	if t.PkgPath() != tlbPkg {
		return ""
	}
	n := t.Name()
	if i := strings.IndexByte(n, '['); i > 0 {
		return n[:i]
	}
	return ""
}

func magicOfTag(tag string) (uint32, bool) {
	if i := strings.IndexAny(tag, "#$"); i >= 0 {
		base := 16
		if tag[i] == '$' {
			base = 2
		}
		s := tag[i+1:]
		if s == "_" || s == "" {
			return 0, true
		}
		v, err := strconv.ParseUint(s, base, 32)
		if err == nil {
			return uint32(v), true
		}
	}
	return 0, false
}

// access makes an unexported field settable (harness-only).
func access(f reflect.Value) reflect.Value {
	if f.CanSet() {
		return f
	}
	if !f.CanAddr() {
		return f
	}
	return reflect.NewAt(f.Type(), unsafe.Pointer(f.UnsafeAddr())).Elem()
}

func (g *Gen) fill(v reflect.Value, tag string, depth int) {
	t := v.Type()
	deep := depth > g.MaxDepth
	// ---- exact types
	switch t {
	case tCell:
		if g.Exotic && g.R.Chance(1, 2) {
			v.Set(reflect.ValueOf(*g.exoticCell(tag != tagViaPointer, true)))
			return
		}
		v.Set(reflect.ValueOf(*g.SmallCell(0)))
		return
	case tAny:
		if g.Exotic && tag == tagBehindRef && g.R.Chance(1, 2) {
			v.Set(reflect.ValueOf(tlb.Any(*g.exoticCell(true, false))))
			return
		}
		v.Set(reflect.ValueOf(tlb.Any(*g.SmallCell(0))))
		return
	case tBitString:
		v.Set(reflect.ValueOf(g.bitString(g.R.Intn(64))))
		return
	case tMagic:
		if m, ok := magicOfTag(tag); ok {
			v.SetUint(uint64(m))
		}
		return
	case tSumType:
		return
	case tGrams:
		vals := []uint64{0, 1, 255, 256, 1<<32 - 1, 1 << 32, 1<<63 - 1, 1 << 63, math.MaxUint64, g.R.Uint64(), g.R.Uint64() >> uint(g.R.Intn(64))}
		v.SetUint(vals[g.pickBound(len(vals))])
		return
	case tSCoins:
		vals := []int64{0, 1, -1, 255, -256, math.MaxInt64, math.MinInt64 + 1, math.MinInt64, int64(g.R.Uint64()), int64(g.R.Uint64()) >> uint(g.R.Intn(64))}
		v.SetInt(vals[g.pickBound(len(vals))])
		return
	case tUnary:
		v.SetUint(uint64(mon.Pick(g.R, []int{0, 1, 2, 7, 31, 62, 63, 64, 100})))
		return
	case tAccStatus:
		v.SetString(string(mon.Pick(g.R, []tlb.AccountStatus{tlb.AccountNone, tlb.AccountUninit, tlb.AccountActive, tlb.AccountFrozen})))
		return
	case tAccChange:
		v.SetString(string(mon.Pick(g.R, []tlb.AccStatusChange{tlb.AccStatusChangeUnchanged, tlb.AccStatusChangeFrozen, tlb.AccStatusChangeDeleted})))
		return
	case tSkip:
		v.SetString(string(mon.Pick(g.R, []tlb.ComputeSkipReason{tlb.ComputeSkipReasonNoState, tlb.ComputeSkipReasonBadState, tlb.ComputeSkipReasonNoGas, tlb.ComputeSkipSuspended})))
		return
	case tSnake, tChunked:
		n := mon.Pick(g.R, []int{0, 1, 8, 9, 64, 500, 1000, 1022, 1023, 1024, 1031, 2046, 2047, 3000, g.R.Intn(2500)})
		bs := g.bitString(n)
		v.Set(reflect.ValueOf(bs).Convert(t))
		return
	case tBytes:
		n := mon.Pick(g.R, []int{0, 1, 2, 126, 127, 128, 254, 255, 256, 1000, g.R.Intn(400)})
		v.SetBytes(g.R.Bytes(n))
		return
	case tText:
		v.SetString(g.utf8(mon.Pick(g.R, []int{0, 1, 2, 126, 127, 128, 254, 255, 1000, g.R.Intn(300)})))
		return
	case tFixedText:
		v.SetString(g.utf8(mon.Pick(g.R, []int{0, 1, 2, 50, 100, 120, g.R.Intn(100)})))
		return
	case tAnycast:
		d := g.R.Range(1, 30)
		if g.R.Chance(1, 4) {
			d = mon.Pick(g.R, []int{1, 2, 29, 30})
		}
		v.Field(0).SetUint(uint64(d))
		v.Field(1).SetUint(g.R.Uint64() & (uint64(1)<<uint(d) - 1))
		return
	case tMsgAddr:
		g.msgAddress(v, depth)
		return
	case tVmStack:
		n := g.R.Intn(7)
		if deep {
			n = 0
		}
		s := reflect.MakeSlice(t, n, n)
		for i := 0; i < n; i++ {
			g.fill(s.Index(i), "", depth+1)
		}
		v.Set(s)
		return
	case tVmValue:
		g.vmValue(v, depth)
		return
	case tVmSlice:
		val, err := tlb.CellToVmCellSlice(g.SmallCell(1))
		if err == nil {
			v.Set(reflect.ValueOf(val.VmStkSlice))
		}
		return
	}
	// ---- tlb named integers
	if t.PkgPath() == tlbPkg {
		if m := reIntName.FindStringSubmatch(t.Name()); m != nil {
			n, _ := strconv.Atoi(m[2])
			switch {
			case t.Kind() >= reflect.Uint && t.Kind() <= reflect.Uint64:
				v.SetUint(g.uintN(n))
			case t.Kind() >= reflect.Int && t.Kind() <= reflect.Int64:
				v.SetInt(g.intN(n))
			case t.ConvertibleTo(tBigInt):
				if m[1] == "Uint" {
					setBig(v, g.bigUint(n))
				} else {
					setBig(v, g.bigInt(n))
				}
			}
			return
		}
		if m := reVarUint.FindStringSubmatch(t.Name()); m != nil && t.ConvertibleTo(tBigInt) {
			n, _ := strconv.Atoi(m[1])
			bytes := 0
			if n > 1 {
				bytes = g.R.Intn(n) // 0..n-1 bytes
				if g.R.Chance(1, 3) {
					bytes = n - 1
				}
			}
			x := new(big.Int)
			if bytes > 0 {
				b := g.R.Bytes(bytes)
				if g.R.Chance(1, 3) {
					for i := range b {
						b[i] = 0xff
					}
				}
				x.SetBytes(b)
			}
			setBig(v, x)
			return
		}
		switch genericName(t) {
		case "Maybe":
			ex := g.R.Bool() && !deep
			v.Field(0).SetBool(ex)
			if ex {
				g.fill(v.Field(1), "", depth+1)
			}
			return
		case "Either":
			r := g.R.Bool()
			v.Field(0).SetBool(r)
			if r {
				g.fill(v.Field(2), "", depth+1)
			} else {
				g.fill(v.Field(1), "", depth+1)
			}
			return
		case "EitherRef":
			v.Field(0).SetBool(g.R.Bool())
			if v.Field(0).Bool() {
				g.fill(v.Field(1), tagBehindRef, depth+1)
			} else {
				g.fill(v.Field(1), "", depth+1)
			}
			return
		case "Ref":
			g.fill(v.Field(0), tagBehindRef, depth+1)
			return
		case "Hashmap", "HashmapE":
			g.hashmap(v, genericName(t) == "Hashmap", depth)
			return
		case "HashmapAug", "HashmapAugE", "BinTree":
			return // encoders are declared not implemented; decode side is exercised elsewhere
		case "MerkleProof", "MerkleUpdate":
			// fall through to the generic struct rule (their codecs decide)
		}
	}
	if fn := envelopes[t]; fn != nil {
		fn(g, v, depth)
		return
	}
	if t.ConvertibleTo(tBigInt) && t.Kind() == reflect.Struct && t != tBigInt {
		setBig(v, g.bigUint(64))
		return
	}
	// ---- kinds
	switch t.Kind() {
	case reflect.Bool:
		v.SetBool(g.R.Bool())
	case reflect.Uint8:
		v.SetUint(g.uintN(8))
	case reflect.Uint16:
		v.SetUint(g.uintN(16))
	case reflect.Uint32:
		v.SetUint(g.uintN(32))
	case reflect.Uint64, reflect.Uint:
		v.SetUint(g.uintN(64))
	case reflect.Int8:
		v.SetInt(g.intN(8))
	case reflect.Int16:
		v.SetInt(g.intN(16))
	case reflect.Int32:
		v.SetInt(g.intN(32))
	case reflect.Int64, reflect.Int:
		v.SetInt(g.intN(64))
	case reflect.String:
		v.SetString(g.utf8(g.R.Intn(20)))
	case reflect.Array:
		if t.Elem().Kind() == reflect.Uint8 {
			b := g.R.Bytes(t.Len())
			switch g.pickBound(5) {
			case 0:
				for i := range b {
					b[i] = 0
				}
			case 1:
				for i := range b {
					b[i] = 0xff
				}
			}
			reflect.Copy(v, reflect.ValueOf(b))
		} else {
			for i := 0; i < t.Len(); i++ {
				g.fill(v.Index(i), "", depth+1)
			}
		}
	case reflect.Slice:
		if t.Elem().Kind() == reflect.Uint8 {
			v.SetBytes(g.R.Bytes(g.R.Intn(40)))
			return
		}
		n := g.R.Intn(4)
		if g.LongLists {
			n = g.longList(t, n)
		}
		if deep {
			n = 0
		}
		if nonEmptyLists[t.String()] && n == 0 {
			n = 1 // the TL-B list has no empty form; absence is expressed by the enclosing Maybe
		}
		s := reflect.MakeSlice(t, n, n)
		for i := 0; i < n; i++ {
			g.fill(s.Index(i), "", depth+1)
		}
		v.Set(s)
	case reflect.Pointer:
		optional := strings.HasPrefix(tag, "maybe")
		if optional && (deep || g.R.Bool()) {
			return // nil
		}
		if deep && depth > g.MaxDepth+6 {
			return // recursion guard for non-optional self references: leave nil (encode will report an error)
		}
		p := reflect.New(t.Elem())
		g.fill(p.Elem(), tagViaPointer, depth+1)
		v.Set(p)
	case reflect.Struct:
		if _, ok := t.FieldByName("SumType"); ok && t.Field(0).Type == tSumType {
			g.sum(v, depth)
			return
		}
		for i := 0; i < t.NumField(); i++ {
			f := t.Field(i)
			if !f.IsExported() {
				continue
			}
			g.fill(v.Field(i), f.Tag.Get("tlb"), depth+1)
		}
		if fx := fixups[t]; fx != nil {
			fx(g, v)
		}
	case reflect.Interface, reflect.Map, reflect.Func, reflect.Chan:
		// left zero
	}
}

func (g *Gen) utf8(n int) string {
	alphabet := []rune("abcXYZ 019_-éжø中😀")
	var sb strings.Builder
	for sb.Len() < n {
		r := mon.Pick(g.R, alphabet)
		if sb.Len()+len(string(r)) > n {
			r = 'a'
		}
		sb.WriteRune(r)
	}
	return sb.String()
}

// Arms lists the constructor fields of a union struct.
func Arms(t reflect.Type) []reflect.StructField {
	var out []reflect.StructField
	for i := 0; i < t.NumField(); i++ {
		f := t.Field(i)
		if f.Type == tSumType || !f.IsExported() {
			continue
		}
		if _, ok := f.Tag.Lookup("tlbSumType"); ok {
			out = append(out, f)
		}
	}
	return out
}

func cheapArm(f reflect.StructField) bool {
	t := f.Type
	if t.Kind() == reflect.Pointer {
		t = t.Elem()
	}
	switch t.Kind() {
	case reflect.Struct:
		return t.NumField() == 0
	case reflect.Bool, reflect.Int8, reflect.Int16, reflect.Int32, reflect.Int64, reflect.Uint8, reflect.Uint16, reflect.Uint32, reflect.Uint64:
		return true
	}
	return false
}

func (g *Gen) sum(v reflect.Value, depth int) {
	t := v.Type()
	arms := Arms(t)
	if len(arms) == 0 {
		return
	}
	k := g.R.Intn(len(arms))
	if depth > g.MaxDepth {
		for i, a := range arms {
			if cheapArm(a) {
				k = i
				break
			}
		}
	}
	if !g.topUsed && g.TopArm >= 0 {
		k = g.TopArm % len(arms)
	}
	g.topUsed = true
	a := arms[k]
	g.Trace = append(g.Trace, t.String()+"."+a.Name)
	v.Field(0).SetString(a.Name)
	g.fill(v.FieldByIndex(a.Index), "", depth+1)
}

func (g *Gen) msgAddress(v reflect.Value, depth int) {
	var a tlb.MsgAddress
	k := g.R.Intn(4)
	if !g.topUsed && g.TopArm >= 0 {
		k = g.TopArm % 4
	}
	g.topUsed = true
	anycast := func() tlb.Maybe[tlb.Anycast] {
		var m tlb.Maybe[tlb.Anycast]
		if g.R.Chance(1, 3) {
			m.Exists = true
			g.fill(reflect.ValueOf(&m.Value).Elem(), "", depth+1)
		}
		return m
	}
	switch k {
	case 0:
		a.SumType = "AddrNone"
	case 1:
		a.SumType = "AddrExtern"
		bs := g.bitString(mon.Pick(g.R, []int{0, 1, 7, 8, 9, 64, 255, 256, 510, 511, g.R.Intn(512)}))
		a.AddrExtern = &bs
	case 2:
		a.SumType = "AddrStd"
		a.AddrStd.Anycast = anycast()
		a.AddrStd.WorkchainId = int8(g.intN(8))
		copy(a.AddrStd.Address[:], g.R.Bytes(32))
	case 3:
		a.SumType = "AddrVar"
		n := mon.Pick(g.R, []int{0, 1, 8, 255, 256, 257, 511, g.R.Intn(512)})
		a.AddrVar = &struct {
			Anycast     tlb.Maybe[tlb.Anycast]
			AddrLen     tlb.Uint9
			WorkchainId int32
			Address     boc.BitString
		}{Anycast: anycast(), AddrLen: tlb.Uint9(n), WorkchainId: int32(g.intN(32)), Address: g.bitString(n)}
	}
	g.Trace = append(g.Trace, "tlb.MsgAddress."+string(a.SumType))
	v.Set(reflect.ValueOf(a))
}

func (g *Gen) vmValue(v reflect.Value, depth int) {
	// every encodable constructor (VmStkCont and VmStkTuple encoders are declared not implemented)
	names := []string{"VmStkNull", "VmStkTinyInt", "VmStkInt", "VmStkNan", "VmStkCell", "VmStkSlice", "VmStkBuilder"}
	k := g.R.Intn(len(names))
	if !g.topUsed && g.TopArm >= 0 {
		all := append(names, "VmStkCont", "VmStkTuple")
		k = g.TopArm % len(all)
		names = all
	}
	g.topUsed = true
	name := names[k]
	g.Trace = append(g.Trace, "tlb.VmStackValue."+name)
	v.Field(0).SetString(name)
	f := v.FieldByName(name)
	switch name {
	case "VmStkSlice":
		g.fill(f, "", depth+1)
	case "VmStkCont", "VmStkTuple":
		// zero value; encoder reports "not implemented"
	default:
		g.fill(f, "", depth+1)
	}
}

func (g *Gen) hashmap(v reflect.Value, nonEmpty bool, depth int) {
	// Hashmap[K,V]{keys, values ...}; HashmapE{m Hashmap}. Fill through the exported Put method.
	put := v.Addr().MethodByName("Put")
	if !put.IsValid() {
		if f := v.FieldByName("m"); f.IsValid() { // HashmapE wraps a Hashmap
			put = access(f).Addr().MethodByName("Put")
		}
	}
	if !put.IsValid() {
		return
	}
	kt, vt := put.Type().In(0), put.Type().In(1)
	n := g.R.Intn(7)
	if depth > g.MaxDepth {
		n = 0
	}
	if nonEmpty && n == 0 {
		n = 1
	}
	seen := map[string]bool{}
	for i := 0; i < n; i++ {
		k := reflect.New(kt).Elem()
		sub := &Gen{R: g.R, MaxDepth: g.MaxDepth, TopArm: -1, Bound: -1, topUsed: true}
		sub.fill(k, "", depth+1)
		key := fmt.Sprint(k.Interface())
		if seen[key] {
			continue
		}
		seen[key] = true
		val := reflect.New(vt).Elem()
		g.fill(val, "", depth+2)
		put.Call([]reflect.Value{k, val})
	}
}
