package reg

import (
	"reflect"

	"github.com/tonkeeper/tongo/boc"

	"verifharness/bridge"
	"verifharness/mon"
	"verifharness/ref/cell"
)

// Opt-in input classes of the generator (Gen.Exotic, Gen.LongLists). Both are
// off by default and consume no randomness when off, so that the value
// streams of the checks that do not ask for them stay what they were.

// position markers handed down as the `tag` argument of fill (they contain
// none of the characters the tag rules look at)
const (
	tagBehindRef  = "^ref" // content of Ref[T] / of the right arm of EitherRef[T]
	tagViaPointer = "*ptr" // target of a pointer field
)

// exoticCell returns a well-formed exotic cell that a reference may point to
// where the schema says ^Cell: a library cell (type 2, 256-bit hash) or a
// Merkle proof cell (type 3, hash and depth of its ordinary child). Both have
// level 0, so that tongo's in-memory builder (which keeps no level mask)
// hashes them and their parents by the book. Pruned branches are left out:
// tongo's decoder skips them by design (they stand for absent data).
//
// library=false restricts the choice to Merkle cells: positions decoded
// through a pointer (`*boc.Cell` with ^ / maybe^) are declared "library cell
// as a ref is not implemented" by the decoder. merkle=false restricts it to
// library cells: where the schema has ^X with X = Any (a message body, a
// payload), a library cell stands for the X it resolves to, whereas a Merkle
// cell is not the serialisation of any X (only ^Cell can hold one).
func (g *Gen) exoticCell(library, merkle bool) *boc.Cell {
	g.ExoticSeen++
	if library && (!merkle || g.R.Chance(2, 3)) {
		c := boc.NewCellExotic(boc.LibraryCell)
		_ = c.WriteUint(uint64(cell.Library), 8)
		_ = c.WriteBytes(g.R.Bytes(32))
		return c
	}
	child := g.SmallCell(1)
	rc := cell.NewMerkleProof(bridge.FromTongo(child))
	c := boc.NewCellExotic(boc.MerkleProofCell)
	for _, b := range rc.Bits {
		_ = c.WriteBit(b)
	}
	_ = c.AddRef(child)
	return c
}

// longList now and then replaces a list length 0..3 by the longest forms the
// list type allows: PayloadV1toV4 holds at most 4 messages (one cell's
// references), PayloadHighload up to 254 (a dictionary), the wallet-v5 action
// lists are chains of references.
func (g *Gen) longList(t reflect.Type, n int) int {
	if !g.R.Chance(1, 4) {
		return n
	}
	switch t.String() {
	case "wallet.PayloadV1toV4":
		return 4
	case "wallet.PayloadHighload":
		return mon.Pick(g.R, []int{4, 5, 17, 100, 254})
	case "wallet.W5Actions":
		return mon.Pick(g.R, []int{4, 10, 255})
	case "wallet.W5ExtendedActions":
		return mon.Pick(g.R, []int{4, 10, 100})
	}
	return n
}
