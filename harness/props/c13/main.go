// C13 — the pool picks a healthy, current server and its waits never hang.
//
// Workload A (this file): exhaustive selection grid through the real
// updateBest against a specification function written from the statement.
// Workload B (sched.go, run in race-instrumented child processes): waiting
// under random and directed schedules; oracles = porcupine (soundness of
// "ok"), completeness, deadlines, watchdog, race detector.
// See DESIGN.md §5 C13; hooks: /verif/proposed/hook-c13.diff.
package main

import (
	"bufio"
	"context"
	"fmt"
	"os"
	"path/filepath"
	"regexp"
	"runtime"
	"sort"
	"strings"
	"sync"
	"sync/atomic"
	"time"

	"github.com/tonkeeper/tongo/liteapi/pool"
	"github.com/tonkeeper/tongo/liteclient"
	"github.com/tonkeeper/tongo/ton"

	"verifharness/mon"
)

var R *mon.Run

// hookPoints are the scheduling points added by hook-c13.diff.
var hookPoints = []string{"unsubscribe.enter", "notify.send", "subscribe.compared", "wait.ctx", "wait.head", "sethead.publish"}

// ---------------------------------------------------------------------------
// Workload A: selection grid
// ---------------------------------------------------------------------------

// sconn is a scripted connection: the three observables the selection rule
// reads (alive?, head seqno, round-trip time) are plain fields.
type sconn struct {
	id    int
	alive bool
	seqno uint32
	rtt   time.Duration
}

func (c *sconn) ID() int { return c.id }
func (c *sconn) MasterHead() ton.BlockIDExt {
	return ton.BlockIDExt{BlockID: ton.BlockID{Seqno: c.seqno}}
}
func (c *sconn) SetMasterHead(ton.BlockIDExt)          {}
func (c *sconn) IsOK() bool                            { return c.alive }
func (c *sconn) Client() *liteclient.Client            { return nil }
func (c *sconn) Run(ctx context.Context, archive bool) {}
func (c *sconn) IsArchiveNode() bool                   { return false }
func (c *sconn) AverageRoundTrip() time.Duration       { return c.rtt }
func (c *sconn) Status() pool.ConnStatus               { return pool.ConnStatus{Connected: c.alive} }

var _ pool.VerifConn = (*sconn)(nil)

// specAllowed is the specification function, written from the statement of
// C13 only. It returns the set (bitmask over index+1; bit 0 = "no choice") of
// choices the statement allows after a refresh. prev is the previous choice
// (-1 = none).
func specAllowed(bestPing bool, cs []sconn, prev int) (allowed uint32, class string) {
	newest := 0
	for _, c := range cs {
		if int(c.seqno) > newest {
			newest = int(c.seqno)
		}
	}
	var elig []int
	for i, c := range cs {
		if c.alive && int(c.seqno)+1 >= newest { // alive and at most one block behind the newest head known
			elig = append(elig, i)
		}
	}
	if len(elig) == 0 {
		return 1 << uint(prev+1), "none-eligible" // the previous choice is kept
	}
	if !bestPing {
		return 1 << uint(elig[0]+1), "first-working" // first in configuration order
	}
	lowest := cs[elig[0]].rtt
	for _, i := range elig {
		if cs[i].rtt < lowest {
			lowest = cs[i].rtt
		}
	}
	for _, i := range elig {
		if cs[i].rtt == lowest { // ties: any of them
			allowed |= 1 << uint(i+1)
		}
	}
	return allowed, "best-ping"
}

const perConnStates = 30 // alive{T,F} x seqno{0..4} x rtt{0,1,2} ms (0 = no pong measured yet, the value of every fresh connection)

func setState(c *sconn, s int) {
	c.alive = s%2 == 0
	c.seqno = uint32((s / 2) % 5)
	c.rtt = time.Duration(s/10) * time.Millisecond
}

type gridAgg struct {
	calls   int64
	configs int64
	classes map[string]int64
}

// gridUnit enumerates all pools of k connections whose first connection is in
// state first (or all states of the first one when first < 0).
func gridUnit(k, first int, agg *gridAgg) {
	cs := make([]sconn, k)
	vc := make([]pool.VerifConn, k)
	for i := range cs {
		cs[i].id = i
		vc[i] = &cs[i]
	}
	pools := [2]*pool.ConnPool{pool.VerifNewPool(pool.FirstWorkingConnection, vc), pool.VerifNewPool(pool.BestPingStrategy, vc)}
	names := [2]string{"first-working", "best-ping"}
	total := 1
	for i := 0; i < k; i++ {
		total *= perConnStates
	}
	lo, hi := 0, total
	if first >= 0 {
		per := total / perConnStates
		lo, hi = first*per, (first+1)*per
	}
	for cfg := lo; cfg < hi; cfg++ {
		x := cfg
		for i := k - 1; i >= 0; i-- {
			setState(&cs[i], x%perConnStates)
			x /= perConnStates
		}
		agg.configs++
		for s := 0; s < 2; s++ {
			for prev := -1; prev < k; prev++ {
				allowed, class := specAllowed(s == 1, cs, prev)
				pools[s].VerifSetBest(prev)
				pools[s].VerifUpdateBest()
				got := -1
				if b := pools[s].VerifBest(); b != nil {
					sc, ok := b.(*sconn)
					if !ok {
						R.Violation("selection-mismatch@"+names[s]+"/foreign-connection", map[string]any{"k": k})
						continue
					}
					got = sc.id
				}
				agg.calls++
				keptOrMoved := "moved"
				if got == prev {
					keptOrMoved = "kept"
				}
				agg.classes[fmt.Sprintf("A/k%d/%s/%s/allowed%02x/%s", k, names[s], class, allowed, keptOrMoved)]++
				if allowed&(1<<uint(got+1)) == 0 {
					why := "wrong-connection"
					switch {
					case class == "none-eligible":
						why = "choice-changed-without-eligible-connection"
					case got == prev && got >= 0 && allowed&(1<<uint(got+1)) == 0 && !cs[got].alive:
						why = "kept-dead-previous-although-one-qualifies"
					case got >= 0 && !cs[got].alive:
						why = "chose-dead-connection"
					case got == -1:
						why = "no-choice-although-one-qualifies"
					case class == "best-ping":
						why = "not-lowest-rtt-among-qualifying-or-too-far-behind"
					case class == "first-working":
						why = "not-first-qualifying-in-configuration-order"
					}
					conf := make([]map[string]any, k)
					for i := range cs {
						conf[i] = map[string]any{"index": i, "alive": cs[i].alive, "seqno": cs[i].seqno, "rtt_ms": int(cs[i].rtt / time.Millisecond)}
					}
					R.Violation("selection-mismatch@"+names[s]+"/"+why, map[string]any{
						"strategy": names[s], "connections": conf, "previous_choice": prev, "chosen": got, "allowed_mask_bit_i_plus_1": allowed})
				}
			}
		}
	}
}

func workloadA() {
	type unit struct{ k, first int }
	var units []unit
	for k := 1; k <= 3; k++ {
		units = append(units, unit{k, -1})
	}
	for f := 0; f < perConnStates; f++ {
		units = append(units, unit{4, f})
	}
	var expected int64
	p := int64(1)
	for k := 1; k <= 4; k++ {
		p *= perConnStates
		expected += p * 2 * int64(k+1)
	}
	var mu sync.Mutex
	total := gridAgg{classes: map[string]int64{}}
	aborted := int32(0)
	ch := make(chan unit)
	var wg sync.WaitGroup
	workers := runtime.GOMAXPROCS(0)
	if workers > 16 {
		workers = 16
	}
	for w := 0; w < workers; w++ {
		wg.Add(1)
		go func() {
			defer wg.Done()
			for u := range ch {
				agg := gridAgg{classes: map[string]int64{}}
				if p := mon.Guard(func() { gridUnit(u.k, u.first, &agg) }); p != nil {
					atomic.StoreInt32(&aborted, 1)
					R.Violation("panic@"+p.Site+"/updateBest", map[string]any{"panic": p.Value, "k": u.k, "stack": mon.Trunc(p.Stack, 1500)})
				}
				mu.Lock()
				total.calls += agg.calls
				total.configs += agg.configs
				for c, n := range agg.classes {
					total.classes[c] += n
				}
				mu.Unlock()
			}
		}()
	}
	for _, u := range units {
		ch <- u
	}
	close(ch)
	wg.Wait()
	for c, n := range total.classes {
		R.EvalN(n, c)
	}
	R.Count("grid_pool_configurations", total.configs)
	R.Count("grid_updateBest_calls", total.calls)
	R.Extra("grid_expected_calls", expected)
	R.SetExhaustive(total.calls == expected && aborted == 0)
	// two literal cases
	for _, s := range []struct {
		bp bool
		cs []sconn
		pr int
	}{
		{false, []sconn{{0, true, 2, 3e6}, {1, true, 4, 1e6}, {2, true, 3, 2e6}}, 0},
		{true, []sconn{{0, false, 4, 1e6}, {1, true, 3, 2e6}, {2, true, 4, 2e6}, {3, true, 0, 1e6}}, 3},
	} {
		vc := make([]pool.VerifConn, len(s.cs))
		for i := range s.cs {
			vc[i] = &s.cs[i]
		}
		st := pool.Strategy(pool.FirstWorkingConnection)
		if s.bp {
			st = pool.BestPingStrategy
		}
		p := pool.VerifNewPool(st, vc)
		p.VerifSetBest(s.pr)
		p.VerifUpdateBest()
		allowed, _ := specAllowed(s.bp, s.cs, s.pr)
		var desc []string
		for _, c := range s.cs {
			desc = append(desc, fmt.Sprintf("#%d alive=%v seqno=%d rtt=%v", c.id, c.alive, c.seqno, c.rtt))
		}
		R.Sample(map[string]any{"kind": "grid", "strategy": string(st), "connections": desc, "previous": s.pr,
			"chosen": p.VerifBest().ID(), "spec_allows_mask_bit_i_plus_1": allowed})
	}
}

// ---------------------------------------------------------------------------
// Workload C: configuration order through the registration path
// ---------------------------------------------------------------------------

// workloadC registers connections through pool.VerifNewConnection (the
// production registration: servers finish connecting in any order, the pool
// keeps them in configuration = id order, the first one registered is the
// choice before the first refresh) in every order, and compares the choice
// after a refresh with the specification function, whose "configuration
// order" is the order of the ids.
func workloadC() {
	names := map[bool]string{false: "first-working", true: "best-ping"}
	var calls int64
	for k := 1; k <= 4; k++ {
		var perms [][]int
		var gen func(cur []int, used int)
		gen = func(cur []int, used int) {
			if len(cur) == k {
				perms = append(perms, append([]int(nil), cur...))
				return
			}
			for i := 0; i < k; i++ {
				if used&(1<<uint(i)) == 0 {
					gen(append(cur, i), used|1<<uint(i))
				}
			}
		}
		gen(nil, 0)
		heads := 1
		for i := 0; i < k; i++ {
			heads *= 3
		}
		for _, order := range perms {
			for _, bestPing := range []bool{false, true} {
				for hs := 0; hs < heads; hs++ {
					strategy := pool.Strategy(pool.FirstWorkingConnection)
					if bestPing {
						strategy = pool.BestPingStrategy
					}
					p := pool.VerifNewPool(strategy, nil)
					conns := make([]*pool.VerifConnection, k)
					cs := make([]sconn, k)
					x := hs
					for i := 0; i < k; i++ {
						// rtt falls with the id, so that best-ping and first-working disagree
						cs[i] = sconn{id: i, alive: true, seqno: uint32(3 + x%3), rtt: time.Duration(k-i) * time.Millisecond}
						x /= 3
					}
					for _, id := range order {
						conns[id] = p.VerifNewConnection(id, true, cs[id].rtt)
					}
					prev := -1
					if b := p.VerifBest(); b != nil {
						prev = b.ID()
					}
					if prev != order[0] {
						R.Seen("observed", "the choice before the first refresh is not the first connection registered")
					}
					for i := 0; i < k; i++ { // at most 4 publications: the 10-slot update channel takes them without a Run loop
						conns[i].SetMasterHead(ton.BlockIDExt{BlockID: ton.BlockID{Workchain: -1, Shard: 0x8000000000000000, Seqno: cs[i].seqno}})
					}
					for am := 0; am < 1<<uint(k); am++ {
						for i := 0; i < k; i++ {
							cs[i].alive = am&(1<<uint(i)) != 0
							conns[i].SetAlive(cs[i].alive)
						}
						before := -1
						if b := p.VerifBest(); b != nil {
							before = b.ID()
						}
						allowed, class := specAllowed(bestPing, cs, before)
						p.VerifUpdateBest()
						got := -1
						if b := p.VerifBest(); b != nil {
							got = b.ID()
						}
						calls++
						R.Eval(fmt.Sprintf("C/k%d/%s/%s/order%v/allowed%02x", k, names[bestPing], class, order, allowed))
						if got < -1 || got >= k || allowed&(1<<uint(got+1)) == 0 {
							conf := make([]map[string]any, k)
							for i := range cs {
								conf[i] = map[string]any{"id": i, "alive": cs[i].alive, "seqno": cs[i].seqno, "rtt_ms": int(cs[i].rtt / time.Millisecond)}
							}
							why := "wrong-connection"
							if !bestPing && class == "first-working" {
								why = "not-first-qualifying-in-configuration-order"
							}
							R.Violation("selection-mismatch@"+names[bestPing]+"/registered-out-of-order/"+why, map[string]any{
								"strategy": names[bestPing], "registration_order": order, "connections_by_id": conf, "previous_choice": before,
								"chosen": got, "allowed_mask_bit_id_plus_1": allowed})
						}
					}
				}
			}
		}
	}
	R.Count("registration_order_updateBest_calls", calls)
}

// ---------------------------------------------------------------------------
// parent: jobs for workload B, race logs, verdict
// ---------------------------------------------------------------------------

type schedJob struct {
	Kind  string `json:"kind"` // "random" | "directed"
	Start int    `json:"start"`
	Count int    `json:"count"`
	Par   int    `json:"par"`
}

var poolFuncRe = regexp.MustCompile(`liteapi/pool\.\(\*(\w+)\)\.(\w+)`)

func workloadB() {
	raceDir, err := os.MkdirTemp("", "verif-c13-race-")
	if err != nil {
		R.HarnessError("mkdtemp: %v", err)
		return
	}
	defer os.RemoveAll(raceDir)
	nRandom := R.N(200, 20000)
	children, par := 4, 6
	if R.Thorough() {
		children, par = 16, 5
	}
	var jobs []mon.Job
	jobs = append(jobs, mon.Job{Name: "sched", Input: schedJob{Kind: "directed", Par: 12}})
	per := (nRandom + children - 1) / children
	for s := 0; s < nRandom; s += per {
		c := per
		if s+c > nRandom {
			c = nRandom - s
		}
		jobs = append(jobs, mon.Job{Name: "sched", Input: schedJob{Kind: "random", Start: s, Count: c, Par: par}})
	}
	R.Extra("random_scenarios_planned", nRandom)
	opts := mon.ChildOpts{
		Parallel: len(jobs),
		Timeout:  time.Duration(R.N(4, 14)) * time.Minute,
		Env:      []string{"GORACE=halt_on_error=0 exitcode=0 log_path=" + filepath.Join(raceDir, "race")},
	}
	R.RunJobs(jobs, opts, func(c mon.Crash) {
		if c.TimedOut {
			R.Inconclusive("scheduling child exceeded its wall-clock watchdog")
			return
		}
		class := mon.FatalClass(c.Stderr)
		if strings.Contains(c.Stderr, "tonkeeper/tongo/liteapi/pool") && class != "died" {
			site := "?"
			if m := poolFuncRe.FindStringSubmatch(c.Stderr); m != nil {
				site = m[1] + "." + m[2]
			}
			R.Violation("fatal@pool."+site+"/"+class, map[string]any{"exit": c.ExitInfo, "stderr": c.Stderr})
			return
		}
		R.HarnessError("scheduling child died: %s %s", c.ExitInfo, mon.Trunc(c.Stderr, 600))
	})
	collectRaces(raceDir)
}

// collectRaces parses the race detector's logs of the children. A report
// whose accesses are in tongo code is a violation; one entirely inside the
// harness is a harness error.
func collectRaces(dir string) {
	files, _ := filepath.Glob(filepath.Join(dir, "race.*"))
	reports := 0
	for _, f := range files {
		fh, err := os.Open(f)
		if err != nil {
			continue
		}
		sc := bufio.NewScanner(fh)
		sc.Buffer(make([]byte, 1<<20), 64<<20)
		var block []string
		flush := func() {
			if len(block) == 0 {
				return
			}
			reports++
			classifyRace(block)
			block = nil
		}
		in := false
		for sc.Scan() {
			l := sc.Text()
			if strings.HasPrefix(l, "WARNING: DATA RACE") {
				flush()
				in = true
			}
			if in {
				if strings.HasPrefix(l, "==================") && len(block) > 0 {
					flush()
					in = false
					continue
				}
				block = append(block, l)
			}
		}
		flush()
		fh.Close()
	}
	R.Count("race_reports", int64(reports))
}

func classifyRace(block []string) {
	// the first non-runtime frame after each access header
	var tops []string
	for i, l := range block {
		t := strings.TrimSpace(l)
		isHdr := strings.HasPrefix(t, "Read at") || strings.HasPrefix(t, "Write at") || strings.HasPrefix(t, "Previous read at") ||
			strings.HasPrefix(t, "Previous write at") || strings.HasPrefix(t, "Atomic") || strings.HasPrefix(t, "Previous atomic")
		if strings.HasPrefix(l, "WARNING") || !isHdr {
			continue
		}
		for j := i + 1; j < len(block); j++ {
			fr := strings.TrimSpace(block[j])
			if fr == "" {
				break
			}
			if strings.HasPrefix(fr, "/") || strings.HasPrefix(fr, "runtime.") || strings.HasPrefix(fr, "sync.") || strings.HasPrefix(fr, "sync/atomic.") {
				continue
			}
			if k := strings.LastIndex(fr, "("); k > 0 {
				fr = fr[:k]
			}
			tops = append(tops, strings.TrimPrefix(fr, "github.com/tonkeeper/tongo/"))
			break
		}
	}
	inTongo := false
	for _, t := range tops {
		if strings.HasPrefix(t, "liteapi/") || strings.HasPrefix(t, "liteclient") || strings.HasPrefix(t, "ton.") {
			inTongo = true
		}
	}
	sort.Strings(tops)
	text := mon.Trunc(strings.Join(block, "\n"), 6000)
	if inTongo {
		R.Violation("race@"+strings.Join(tops, "+"), map[string]any{"report": text})
		return
	}
	R.HarnessError("data race inside the harness: %s", mon.Trunc(text, 1500))
}

func main() {
	if mon.IsWorker() {
		mon.WorkerMain(map[string]func(*mon.Worker){"sched": schedWorker})
	}
	tier := "quick"
	if len(os.Args) > 1 {
		tier = os.Args[1]
	}
	R = mon.Start("C13", tier)
	R.Rule = "A: every pool of 1..4 scripted connections x alive{T,F} x seqno{0..4} x rtt{0,1,2} ms x both strategies x every previous choice (incl. none) goes through the real updateBest and the choice is compared with a specification function written from the statement (all calls compared; distinct = classes (k, strategy, rule branch, allowed set, kept/moved)). " +
		"C: every registration order of 1..4 connections (ids registered out of order, as servers finish connecting) x heads{3,4,5} x every liveness pattern x both strategies: choice after a refresh against the same specification function with configuration order = id order. " +
		"B: real connections + real Run loop under random and directed schedules driven from 6 hook points; per scenario: porcupine (set->max per connection, switch, wait(n)=ok legal iff head of the best connection >= n, error results always legal), completeness (head >= n published on the connection that was best during the whole wait, >= 300 ms before the deadline, call made >= 100 ms before it => ok), deadline (return <= 2 s after the timeout or the cancellation, <= 500 ms when no directed hold was active), an error only once the timeout elapsed or the context was cancelled (which error is not judged), BestMasterchainClient's head (and client) from a connection that was the choice during the call, directed: cancellation long before the timeout, one late insufficient head, head published into a full update channel for a registered waiter, awaited head queued together with a newer head of another connection (both orders), refresh to a connection one block behind followed by a wait for the seqno the former choice had delivered (directed, and as a quiet epilogue of every random switch scenario), random: timed stalls of the Run loop while all connections publish, ticker-driven refresh under head traffic, 30 s watchdog with goroutine dump, race detector; non-trivial = a scenario in which at least one hook point was reached; distinct = distinct global orders of (actor, hook point) events"
	R.Assume("liveness and round-trip time of a connection come from a live liteclient in production; here they are scripted (pool.VerifConnection wraps the real *connection: head, lock and publication are the production code)")
	R.Assume("seqnos near 2^32 are not part of the grid (seqno+1 overflows there; no masterchain reaches that height)")
	R.Assume("completeness is only decided for waits during which the best connection did not change")
	R.Assume("timing verdicts are replaced by 'inconclusive' when the lateness probe (5 ms sleeper) saw the machine stall")
	if !raceEnabled {
		R.HarnessError("built without -race: the race monitor cannot see")
	}
	t := time.Now()
	workloadA()
	R.Extra("wall_grid_s", time.Since(t).Seconds())
	if p := mon.Guard(workloadC); p != nil {
		R.Violation("panic@"+p.Site+"/registration", map[string]any{"panic": p.Value, "stack": mon.Trunc(p.Stack, 1500)})
	}
	t = time.Now()
	workloadB()
	R.Extra("wall_schedules_s", time.Since(t).Seconds())
	if n := R.SetSize("hook_points"); n != len(hookPoints) {
		R.HarnessError("only %d of %d hook points were ever reached", n, len(hookPoints))
	}
	os.Exit(R.Finish())
}
