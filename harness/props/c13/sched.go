// C13 workload B: waiting under random and directed schedules (runs in a
// race-instrumented child process, several scenarios at a time).
package main

import (
	"context"
	"encoding/binary"
	"encoding/json"
	"errors"
	"fmt"
	"regexp"
	"runtime"
	"sort"
	"strconv"
	"strings"
	"sync"
	"sync/atomic"
	"time"

	"github.com/anishathalye/porcupine"
	"github.com/tonkeeper/tongo/liteapi/pool"
	"github.com/tonkeeper/tongo/ton"

	"verifharness/mon"
)

const (
	slack         = 2 * time.Second        // deadline monitor (DESIGN 2.6)
	cSlack        = 300 * time.Millisecond // completeness: publication -> waiter, in-process
	latSlack      = 500 * time.Millisecond // prompt return after the deadline / the cancellation when nothing held the goroutines
	callMargin    = 100 * time.Millisecond // completeness: the call itself must precede the deadline by this much
	watchdogAfter = 30 * time.Second
	sleepBudget   = 100 * time.Millisecond // total sleep the hook may inject per scenario
	autoHoldMax   = 30 * time.Millisecond
	maxEvents     = 20000
)

// ---------------------------------------------------------------------------
// lateness probe
// ---------------------------------------------------------------------------

type latenessProbe struct {
	mu      sync.Mutex
	start   time.Time
	buckets map[int64]time.Duration // 50 ms buckets since start -> worst lateness
}

var probe = &latenessProbe{buckets: map[int64]time.Duration{}}

func (l *latenessProbe) run() {
	l.start = time.Now()
	go func() {
		for {
			t := time.Now()
			time.Sleep(5 * time.Millisecond)
			now := time.Now()
			late := now.Sub(t) - 5*time.Millisecond
			b0, b1 := int64(t.Sub(l.start)/(50*time.Millisecond)), int64(now.Sub(l.start)/(50*time.Millisecond))
			l.mu.Lock()
			for b := b0; b <= b1; b++ {
				if l.buckets[b] < late {
					l.buckets[b] = late
				}
			}
			l.mu.Unlock()
		}
	}()
}

// worst lateness observed in [from, to]; a window the probe never sampled
// counts as a stall of the window's length.
func (l *latenessProbe) worst(from, to time.Time) time.Duration {
	b0, b1 := int64(from.Sub(l.start)/(50*time.Millisecond)), int64(to.Sub(l.start)/(50*time.Millisecond))
	var w time.Duration
	l.mu.Lock()
	defer l.mu.Unlock()
	for b := b0; b <= b1; b++ {
		v, ok := l.buckets[b]
		if !ok && b < b1 {
			v = 50 * time.Millisecond
		}
		if v > w {
			w = v
		}
	}
	return w
}

// ---------------------------------------------------------------------------
// hook dispatch: goroutine id -> actor
// ---------------------------------------------------------------------------

type hubT struct {
	mu           sync.RWMutex
	m            map[uint64]*actor
	unattributed atomic.Int64
}

var hub = &hubT{m: map[uint64]*actor{}}

func goid() uint64 {
	var buf [64]byte
	n := runtime.Stack(buf[:], false)
	s := strings.TrimPrefix(string(buf[:n]), "goroutine ")
	if i := strings.IndexByte(s, ' '); i > 0 {
		id, _ := strconv.ParseUint(s[:i], 10, 64)
		return id
	}
	return 0
}

func (h *hubT) register(id uint64, a *actor) { h.mu.Lock(); h.m[id] = a; h.mu.Unlock() }
func (h *hubT) unregister(id uint64)         { h.mu.Lock(); delete(h.m, id); h.mu.Unlock() }
func (h *hubT) lookup(id uint64) *actor      { h.mu.RLock(); a := h.m[id]; h.mu.RUnlock(); return a }

func hookCallback(point string) {
	a := hub.lookup(goid())
	if a == nil {
		hub.unattributed.Add(1)
		return
	}
	a.sc.onPoint(a, point)
}

// ---------------------------------------------------------------------------
// scenario, actors, operations
// ---------------------------------------------------------------------------

type op struct {
	Actor       string `json:"actor"`
	Kind        string `json:"kind"` // set | wait | bmc | switch
	Conn        int    `json:"conn,omitempty"`
	N           uint32 `json:"n,omitempty"`
	TimeoutMs   int64  `json:"timeout_ms,omitempty"`
	CancelMs    int64  `json:"cancel_after_ms,omitempty"` // -1: never cancelled
	Call        int64  `json:"call_ns"`
	Ret         int64  `json:"ret_ns"`
	Res         string `json:"res"`
	OutConn     int    `json:"out_conn,omitempty"`
	OutSeq      uint32 `json:"out_seqno,omitempty"`
	OutClient   int    `json:"out_client,omitempty"` // bmc: id of the connection whose client was returned (-1: not observable)
	Best        int    `json:"best,omitempty"`
	HeadsSeen   int    `json:"heads_seen,omitempty"` // wait.head hook hits during the call
	Registered  bool   `json:"registered,omitempty"` // subscribe went past the head comparison (no fast path)
	CancelledAt int64  `json:"cancelled_at_ns,omitempty"`
	Done        bool   `json:"done"`
	known       bool   // bmc: returned head was published by the harness
}

type actor struct {
	sc   *scenario
	kind string // run | pub | w | sw | drv
	role string
	rng  *mon.Rng
	gid  uint64
	mu   sync.Mutex
	ops  []*op
	cur  *op
}

type evt struct{ role, kind, point string }

type gate struct {
	kind, point string
	nth, seen   int
	used        bool
	auto        bool
	until       string
	maxHold     time.Duration
	reached     chan struct{}
	release     chan struct{}
	once        sync.Once
	expired     atomic.Bool
	reachedAt   atomic.Int64 // ns since the scenario start
	releasedAt  atomic.Int64
}

func (g *gate) open() { g.once.Do(func() { close(g.release) }) }

type scenario struct {
	w        *mon.Worker
	name     string
	rng      *mon.Rng
	t0       time.Time
	p        *pool.ConnPool
	conns    []*pool.VerifConnection // indexed by connection id
	initBest int                     // the pool's choice before any refresh (the first connection registered)
	desc     map[string]any
	perturb  int
	budget   atomic.Int64
	counts   map[string]*atomic.Int64
	chain    atomic.Uint32
	tag      atomic.Uint64
	runStop  context.CancelFunc
	wgW      sync.WaitGroup
	wgP      sync.WaitGroup
	wgR      sync.WaitGroup
	maxPlan  time.Duration
	mu       sync.Mutex
	events   []evt
	gates    []*gate
	actors   []*actor
	pubHeads map[ton.BlockIDExt]struct{}
	panics   int
	sigs     []string
}

func newScenario(w *mon.Worker, name string, rng *mon.Rng) *scenario {
	sc := &scenario{w: w, name: name, rng: rng, t0: time.Now(), counts: map[string]*atomic.Int64{}, pubHeads: map[ton.BlockIDExt]struct{}{}, desc: map[string]any{"scenario": name}}
	for _, p := range hookPoints {
		sc.counts[p] = &atomic.Int64{}
	}
	sc.budget.Store(int64(sleepBudget))
	return sc
}

func (sc *scenario) now() int64 { return int64(time.Since(sc.t0)) }

func (sc *scenario) build(nConns int, strategy pool.Strategy, interval time.Duration, alive func(i int) bool, rtt func(i int) time.Duration) {
	order := make([]int, nConns)
	for i := range order {
		order[i] = i
	}
	sc.buildOrdered(order, strategy, interval, alive, rtt)
}

// buildOrdered registers the connections (ids 0..n-1) in the given order, the
// way servers finish connecting in any order in production. The pool keeps
// them in configuration (id) order; its choice before the first refresh is
// the first one registered.
func (sc *scenario) buildOrdered(order []int, strategy pool.Strategy, interval time.Duration, alive func(i int) bool, rtt func(i int) time.Duration) {
	sc.p = pool.VerifNewPool(strategy, nil)
	sc.p.VerifSetUpdateInterval(interval)
	sc.conns = make([]*pool.VerifConnection, len(order))
	for _, id := range order {
		sc.conns[id] = sc.p.VerifNewConnection(id, alive(id), rtt(id))
	}
	if b := sc.p.VerifBest(); b != nil {
		sc.initBest = b.ID()
	}
	sc.desc["connections"], sc.desc["strategy"], sc.desc["update_interval"] = len(order), string(strategy), interval.String()
	sc.desc["registration_order"], sc.desc["initial_choice"] = fmt.Sprint(order), sc.initBest
}

func (sc *scenario) count(point string) int64 { return sc.counts[point].Load() }

func (sc *scenario) awaitCount(point string, atLeast int64, max time.Duration) bool {
	end := time.Now().Add(max)
	for sc.count(point) < atLeast {
		if time.Now().After(end) {
			return false
		}
		time.Sleep(200 * time.Microsecond)
	}
	return true
}

func (sc *scenario) hold(kind, point string, nth int, maxHold time.Duration) *gate {
	g := &gate{kind: kind, point: point, nth: nth, maxHold: maxHold, reached: make(chan struct{}), release: make(chan struct{})}
	sc.mu.Lock()
	sc.gates = append(sc.gates, g)
	sc.mu.Unlock()
	return g
}

func (sc *scenario) holdAuto(kind, point, until string) *gate {
	g := sc.hold(kind, point, 1, autoHoldMax)
	g.auto, g.until = true, until
	return g
}

// holdTimed parks the nth goroutine of the kind that reaches the point for d
// (a stall, not a directed schedule: running out of d is the plan).
func (sc *scenario) holdTimed(kind, point string, nth int, d time.Duration) *gate {
	g := sc.hold(kind, point, nth, d)
	g.auto = true // until stays empty: only the timer (or open) ends it
	return g
}

func (sc *scenario) onPoint(a *actor, point string) {
	c := sc.counts[point]
	if c == nil {
		sc.w.Seen("unknown_hook_points", point)
		return
	}
	c.Add(1)
	var g *gate
	sc.mu.Lock()
	if len(sc.events) < maxEvents {
		sc.events = append(sc.events, evt{a.role, a.kind, point})
	}
	for _, x := range sc.gates {
		if !x.used && x.kind == a.kind && x.point == point {
			x.seen++
			if x.seen == x.nth {
				x.used = true
				g = x
			}
			break
		}
	}
	sc.mu.Unlock()
	if point == "wait.head" || point == "subscribe.compared" {
		a.mu.Lock()
		if a.cur != nil {
			if point == "wait.head" {
				a.cur.HeadsSeen++
			} else {
				a.cur.Registered = true
			}
		}
		a.mu.Unlock()
	}
	if g != nil {
		g.reachedAt.Store(sc.now())
		defer func() { g.releasedAt.Store(sc.now()) }()
		close(g.reached)
		t := time.NewTimer(g.maxHold)
		defer t.Stop()
		if g.auto && g.until == "" {
			select {
			case <-g.release:
			case <-t.C:
			}
			return
		}
		if g.auto {
			base := sc.count(g.until)
			if g.until == point {
				base = sc.count(point) // somebody else must arrive
			}
			tick := time.NewTicker(100 * time.Microsecond)
			defer tick.Stop()
			for {
				select {
				case <-g.release:
					return
				case <-t.C:
					g.expired.Store(true)
					return
				case <-tick.C:
					if sc.count(g.until) > base {
						return
					}
				}
			}
		}
		select {
		case <-g.release:
		case <-t.C:
			g.expired.Store(true)
		}
		return
	}
	if sc.perturb == 0 {
		return
	}
	r := a.rng.Intn(100)
	switch {
	case sc.perturb == 1 && r < 20, sc.perturb == 2 && r < 35:
		runtime.Gosched()
	case sc.perturb == 1 && r < 25, sc.perturb == 2 && r < 55:
		sc.nap(time.Duration(a.rng.Range(1, 200)) * time.Microsecond)
	case sc.perturb == 2 && r < 60:
		sc.nap(time.Duration(a.rng.Range(200, 2000)) * time.Microsecond)
	}
}

func (sc *scenario) nap(d time.Duration) {
	if sc.budget.Add(-int64(d)) < 0 {
		runtime.Gosched()
		return
	}
	time.Sleep(d)
}

// adopt registers the calling goroutine as an actor (the scenario driver).
func (sc *scenario) adopt(kind, role string) (*actor, func()) {
	a := &actor{sc: sc, kind: kind, role: role, rng: sc.rng.Fork(role, 0), gid: goid()}
	sc.mu.Lock()
	sc.actors = append(sc.actors, a)
	sc.mu.Unlock()
	hub.register(a.gid, a)
	return a, func() { hub.unregister(a.gid) }
}

func (sc *scenario) spawn(kind, role string, wg *sync.WaitGroup, f func(a *actor)) *actor {
	a := &actor{sc: sc, kind: kind, role: role, rng: sc.rng.Fork(role, 0)}
	sc.mu.Lock()
	sc.actors = append(sc.actors, a)
	sc.mu.Unlock()
	wg.Add(1)
	ready := make(chan struct{})
	go func() {
		defer wg.Done()
		id := goid()
		a.mu.Lock()
		a.gid = id
		a.mu.Unlock()
		hub.register(id, a)
		defer hub.unregister(id)
		close(ready)
		if p := mon.Guard(func() { f(a) }); p != nil {
			sc.mu.Lock()
			sc.panics++
			sc.mu.Unlock()
			if p.Site == "?" {
				sc.w.HarnessError(fmt.Sprintf("harness panic in %s/%s: %s\n%s", sc.name, role, p.Value, mon.Trunc(p.Stack, 1200)))
			} else {
				opn := "?"
				a.mu.Lock()
				if a.cur != nil {
					opn = a.cur.Kind
				}
				a.mu.Unlock()
				sc.w.Violation("panic@"+p.Site+"/"+kind+"/"+opn, map[string]any{"scenario": sc.name, "panic": p.Value, "stack": mon.Trunc(p.Stack, 2000)})
			}
		}
	}()
	<-ready
	return a
}

func (a *actor) begin(o *op) *op {
	o.Actor = a.role
	a.mu.Lock()
	a.ops = append(a.ops, o)
	a.cur = o
	o.Call = a.sc.now()
	a.mu.Unlock()
	return o
}

func (a *actor) end(o *op, res string, fill func(o *op)) {
	ret := a.sc.now()
	a.mu.Lock()
	o.Ret, o.Res, o.Done = ret, res, true
	if fill != nil {
		fill(o)
	}
	a.cur = nil
	a.mu.Unlock()
}

func (sc *scenario) mkHead(conn int, seqno uint32) ton.BlockIDExt {
	h := ton.BlockIDExt{BlockID: ton.BlockID{Workchain: -1, Shard: 0x8000000000000000, Seqno: seqno}}
	h.RootHash[0] = byte(conn)
	binary.BigEndian.PutUint32(h.RootHash[1:5], seqno)
	binary.BigEndian.PutUint64(h.FileHash[0:8], sc.tag.Add(1))
	sc.mu.Lock()
	sc.pubHeads[h] = struct{}{}
	sc.mu.Unlock()
	return h
}

func (sc *scenario) doSet(a *actor, conn int, seqno uint32) {
	h := sc.mkHead(conn, seqno)
	o := a.begin(&op{Kind: "set", Conn: conn, N: seqno})
	sc.conns[conn].SetMasterHead(h)
	a.end(o, "ok", nil)
}

func classifyErr(err error) string {
	switch {
	case err == nil:
		return "ok"
	case errors.Is(err, context.Canceled):
		return "cancel"
	case errors.Is(err, context.DeadlineExceeded):
		return "deadline"
	case err.Error() == "timeout":
		return "timeout"
	}
	return "err:" + mon.Trunc(err.Error(), 60)
}

// doWait calls WaitMasterchainSeqno; cancelAfter < 0 means the context is never cancelled.
func (sc *scenario) doWait(a *actor, n uint32, timeout, cancelAfter time.Duration) *op {
	ctx, cancel := context.WithCancel(context.Background())
	defer cancel()
	o := &op{Kind: "wait", N: n, TimeoutMs: timeout.Milliseconds(), CancelMs: -1}
	var cancelledAt atomic.Int64
	if cancelAfter >= 0 {
		o.CancelMs = cancelAfter.Milliseconds()
	}
	a.begin(o)
	if cancelAfter >= 0 {
		t := time.AfterFunc(cancelAfter, func() { cancelledAt.Store(sc.now()); cancel() })
		defer t.Stop()
	}
	err := sc.p.WaitMasterchainSeqno(ctx, n, timeout)
	a.end(o, classifyErr(err), func(o *op) { o.CancelledAt = cancelledAt.Load() })
	return o
}

func (sc *scenario) doBMC(a *actor, timeout time.Duration) *op {
	o := a.begin(&op{Kind: "bmc", TimeoutMs: timeout.Milliseconds(), CancelMs: -1})
	ctx, cancel := context.WithTimeout(context.Background(), timeout)
	defer cancel()
	cli, head, err := sc.p.BestMasterchainClient(ctx)
	a.end(o, classifyErr(err), func(o *op) {
		o.OutClient = -1
		if err == nil {
			o.OutConn, o.OutSeq = int(head.RootHash[0]), head.Seqno
			if cli != nil { // the scripted connections hand out one distinct client each (hook-C13-registration-and-client)
				for _, c := range sc.conns {
					if c.Client() == cli {
						o.OutClient = c.ID()
					}
				}
			}
			sc.mu.Lock()
			_, o.known = sc.pubHeads[head]
			sc.mu.Unlock()
		}
	})
	return o
}

func (sc *scenario) doSwitch(a *actor) {
	o := a.begin(&op{Kind: "switch"})
	sc.p.VerifUpdateBest()
	b := sc.p.VerifBest()
	a.end(o, "ok", func(o *op) { o.Best = b.ID() })
}

func (sc *scenario) startRun() {
	ctx, cancel := context.WithCancel(context.Background())
	sc.runStop = cancel
	sc.spawn("run", "run", &sc.wgR, func(a *actor) { sc.p.Run(ctx) })
}

func waitTimeout(wg *sync.WaitGroup, d time.Duration) bool {
	done := make(chan struct{})
	go func() { wg.Wait(); close(done) }()
	t := time.NewTimer(d)
	defer t.Stop()
	select {
	case <-done:
		return true
	case <-t.C:
		return false
	}
}

// waitWatched waits for the waiters until 30 s after the last deadline (+ slack).
// Once a first scenario of this process has been found blocked after the full
// 30 s, the others that are already overdue are dumped after 10 s: the run is
// a violation anyway and should end.
func (sc *scenario) waitWatched(wg *sync.WaitGroup) bool {
	done := make(chan struct{})
	go func() { wg.Wait(); close(done) }()
	tick := time.NewTicker(250 * time.Millisecond)
	defer tick.Stop()
	for {
		select {
		case <-done:
			return true
		case <-tick.C:
			limit := sc.maxPlan + slack + watchdogAfter
			if blockedScenarios.Load() > 0 {
				limit = sc.maxPlan + slack + 10*time.Second
			}
			if time.Since(sc.t0) > limit {
				return false
			}
		}
	}
}

func (sc *scenario) violate(sig string, witness any) {
	sc.mu.Lock()
	seen := false
	for _, x := range sc.sigs {
		seen = seen || x == sig
	}
	if !seen {
		sc.sigs = append(sc.sigs, sig)
	}
	sc.mu.Unlock()
	sc.w.Violation(sig, witness)
}

// outcome records, for directed scenarios, what the scenario ended with.
func (sc *scenario) outcome() {
	if !strings.HasPrefix(sc.name, "directed/") {
		return
	}
	sc.mu.Lock()
	o := "held"
	if len(sc.sigs) > 0 {
		o = strings.Join(sc.sigs, ", ")
	}
	sc.mu.Unlock()
	sc.w.Seen("directed_outcomes", sc.name+" -> "+o)
}

// finish waits for the actors (watchdog), stops the pool and evaluates.
func (sc *scenario) finish(stopPublishers func()) {
	defer sc.outcome()
	okW := sc.waitWatched(&sc.wgW)
	if stopPublishers != nil {
		stopPublishers()
	}
	if !okW {
		sc.watchdog("a waiter")
		return
	}
	if !waitTimeout(&sc.wgP, watchdogAfter) {
		sc.watchdog("SetMasterHead")
		return
	}
	if sc.runStop != nil {
		sc.runStop()
		if !waitTimeout(&sc.wgR, watchdogAfter) {
			sc.watchdog("the Run loop")
			return
		}
	}
	sc.evaluate(true)
}

// ---------------------------------------------------------------------------
// watchdog
// ---------------------------------------------------------------------------

var blockedScenarios atomic.Int64

var gHeader = regexp.MustCompile(`^goroutine (\d+) \[([^\]]*)\]`)
var poolFrame = regexp.MustCompile(`liteapi/pool\.\(\*(\w+)\)\.(\w+)`)

func (sc *scenario) watchdog(what string) {
	blockedScenarios.Add(1)
	sc.w.Count("watchdog_fired", 1)
	now := time.Now()
	if l := probe.worst(now.Add(-watchdogAfter), now); l > 5*time.Second {
		sc.w.Inconclusive("watchdog fired while the machine was stalling")
		return
	}
	buf := make([]byte, 8<<20)
	n := runtime.Stack(buf, true)
	mine := map[uint64]*actor{}
	sc.mu.Lock()
	for _, a := range sc.actors {
		a.mu.Lock()
		mine[a.gid] = a
		a.mu.Unlock()
	}
	sc.mu.Unlock()
	type parked struct{ fn, state string }
	var where []parked
	var stacks []string
	for _, blk := range strings.Split(string(buf[:n]), "\n\n") {
		m := gHeader.FindStringSubmatch(blk)
		if m == nil {
			continue
		}
		id, _ := strconv.ParseUint(m[1], 10, 64)
		a := mine[id]
		if a == nil {
			continue
		}
		if strings.Contains(blk, "main.hookCallback") {
			sc.w.Inconclusive("watchdog fired while the harness itself held a goroutine at a hook point")
			return
		}
		f := poolFrame.FindStringSubmatch(blk)
		if f == nil {
			continue
		}
		state := m[2]
		if i := strings.IndexByte(state, ','); i > 0 {
			state = state[:i]
		}
		if f[2] == "Run" && state == "select" {
			continue // the idle Run loop
		}
		where = append(where, parked{f[2], state})
		stacks = append(stacks, "["+a.role+"] "+mon.Trunc(blk, 1400))
	}
	fnSet := map[string]bool{}
	sendInNotify, lockInUnsub, sendInSetHead, lockInHead := false, false, false, false
	for _, p := range where {
		fnSet[p.fn] = true
		if p.fn == "SetMasterHead" && p.state == "chan send" {
			sendInSetHead = true
		}
		if p.fn == "MasterHead" && strings.Contains(p.state, "Lock") {
			lockInHead = true
		}
		if p.fn == "notifySubscribers" && p.state == "chan send" {
			sendInNotify = true
		}
		if p.fn == "unsubscribe" && strings.Contains(p.state, "Lock") {
			lockInUnsub = true
		}
	}
	var fns []string
	for f := range fnSet {
		fns = append(fns, f)
	}
	sort.Strings(fns)
	sig := "deadlock@pool." + strings.Join(fns, "+")
	if sendInNotify && lockInUnsub {
		// the cycle: the sender holds the read lock and waits for a reader that waits for the write lock;
		// everything else parked in the pool is collateral
		sig = "deadlock@pool.notifySubscribers+unsubscribe"
	} else if sendInSetHead && lockInHead {
		// the cycle: SetMasterHead waits for room in the update channel while holding the connection's
		// lock; whoever must drain the channel (or blocks the drainer) waits for that lock in MasterHead
		sig = "deadlock@pool.SetMasterHead+MasterHead"
	}
	if len(fns) == 0 {
		sig = "blocked@outside-pool"
		sc.w.HarnessError(fmt.Sprintf("%s: watchdog fired but no actor is parked in pool code", sc.name))
		return
	}
	if len(stacks) > 8 {
		stacks = stacks[:8]
	}
	sc.violate(sig, map[string]any{"scenario": sc.desc, "still_blocked_after": (sc.maxPlan + slack + watchdogAfter).String(), "watched": what,
		"pending_ops": sc.pending(), "stacks": stacks, "hook_counts": sc.countsMap()})
	sc.evaluate(false)
}

func (sc *scenario) pending() []op {
	var out []op
	sc.mu.Lock()
	as := append([]*actor(nil), sc.actors...)
	sc.mu.Unlock()
	for _, a := range as {
		a.mu.Lock()
		if a.cur != nil && len(out) < 12 {
			out = append(out, *a.cur)
		}
		a.mu.Unlock()
	}
	return out
}

func (sc *scenario) countsMap() map[string]int64 {
	m := map[string]int64{}
	for k, v := range sc.counts {
		m[k] = v.Load()
	}
	return m
}

// ---------------------------------------------------------------------------
// evaluation
// ---------------------------------------------------------------------------

type pState struct {
	heads [4]uint32
	best  int8
}
type pIn struct {
	kind uint8 // 0 set 1 wait 2 bmc 3 switch
	conn int8
	n    uint32
}
type pOut struct {
	ok   bool
	conn int8
	seq  uint32
	best int8
}

// the sequential specification (DESIGN C13, oracle B); initBest is the pool's
// choice before the first refresh
func pModelFor(initBest int) porcupine.Model {
	m := pModel
	m.Init = func() interface{} { return pState{best: int8(initBest)} }
	return m
}

var pModel = porcupine.Model{
	Init: func() interface{} { return pState{} },
	Step: func(state, input, output interface{}) (bool, interface{}) {
		st, in, out := state.(pState), input.(pIn), output.(pOut)
		switch in.kind {
		case 0: // set(s) -> max
			if in.n > st.heads[in.conn] {
				st.heads[in.conn] = in.n
			}
			return true, st
		case 1: // wait(n) = ok legal iff the best connection's head >= n; errors always legal
			if !out.ok {
				return true, st
			}
			return st.heads[st.best] >= in.n, st
		case 2: // BestMasterchainClient = ok(h from connection c): c must already have reported h, h >= 1
			if !out.ok {
				return true, st
			}
			return out.seq >= 1 && st.heads[out.conn] >= out.seq, st
		default: // switch: the observed new choice
			st.best = out.best
			return true, st
		}
	},
}

func (sc *scenario) allOps() []*op {
	var all []*op
	sc.mu.Lock()
	as := append([]*actor(nil), sc.actors...)
	sc.mu.Unlock()
	for _, a := range as {
		a.mu.Lock()
		for _, o := range a.ops {
			c := *o
			all = append(all, &c)
		}
		a.mu.Unlock()
	}
	sort.Slice(all, func(i, j int) bool { return all[i].Call < all[j].Call })
	return all
}

// bestDuring returns the connection that was the pool's choice during the
// whole interval [from, to], or -1 if a switch may have changed it.
func bestDuring(switches []*op, init int, from, to int64) int {
	best := init
	for _, s := range switches { // sequential (one switcher), sorted by Call
		if s.Ret < from {
			best = s.Best
			continue
		}
		if s.Call > to {
			break
		}
		if !s.Done || s.Best != best {
			return -1
		}
	}
	return best
}

// bestsDuring returns every connection that may have been the pool's choice
// at some moment of [from, to].
func bestsDuring(switches []*op, init int, from, to int64) map[int]bool {
	best := init
	out := map[int]bool{}
	for _, s := range switches { // sequential (one switcher), sorted by Call
		if s.Done && s.Ret < from {
			best = s.Best
			continue
		}
		if s.Call > to {
			break
		}
		if s.Done {
			out[s.Best] = true
		} else {
			return nil // a refresh that never returned: anything
		}
	}
	out[best] = true
	return out
}

func (sc *scenario) abs(ns int64) time.Time { return sc.t0.Add(time.Duration(ns)) }

func trimOps(all []*op, focus *op) []op {
	var out []op
	for _, o := range all {
		if focus != nil && (o.Ret < focus.Call-int64(50*time.Millisecond) && o.Done || o.Call > focus.Ret && focus.Done) {
			continue
		}
		if len(out) < 150 {
			out = append(out, *o)
		}
	}
	return out
}

func (sc *scenario) evaluate(complete bool) {
	w := sc.w
	all := sc.allOps()
	var sets, switches []*op
	for _, o := range all {
		switch o.Kind {
		case "set":
			sets = append(sets, o)
		case "switch":
			switches = append(switches, o)
		}
	}
	// interleaving signature + coverage facts
	sc.mu.Lock()
	events := sc.events
	sc.mu.Unlock()
	var sb strings.Builder
	for i, e := range events {
		sb.WriteString(e.role)
		sb.WriteByte(':')
		sb.WriteString(e.point)
		sb.WriteByte(' ')
		if i > 0 && events[i-1].role != e.role {
			w.Seen("hook_order_pairs", events[i-1].kind+":"+events[i-1].point+" > "+e.kind+":"+e.point)
		}
	}
	for p, c := range sc.counts {
		if n := c.Load(); n > 0 {
			w.Seen("hook_points", p)
			w.Count("hook_hits/"+p, n)
		}
	}
	fp := ""
	if len(events) > 0 {
		fp = fmt.Sprintf("B/%016x/%d", mon.Hash64(sb.String()), len(events))
		w.Seen("interleaving_signatures", fp)
	}
	w.Eval(fp)
	w.Count("scenarios", 1)
	sc.mu.Lock()
	for _, g := range sc.gates {
		if g.used {
			w.Count("directed_holds_reached", 1)
			if g.expired.Load() {
				w.Count("directed_holds_expired", 1)
			}
		} else {
			w.Count("directed_holds_not_reached", 1)
		}
	}
	sc.mu.Unlock()

	// an explicit hold that ran into its own time limit means the directed schedule did not unfold as
	// planned (the harness, not the pool, kept a goroutine parked): no timing verdicts for this scenario
	disturbed := false
	sc.mu.Lock()
	for _, g := range sc.gates {
		if !g.auto && g.expired.Load() {
			disturbed = true
		}
	}
	sc.mu.Unlock()
	if disturbed {
		w.Inconclusive("a directed hold expired: schedule did not unfold as planned")
	}
	timingOK := func(from, to int64, limit time.Duration) bool {
		return !disturbed && probe.worst(sc.abs(from), sc.abs(to)) <= limit
	}
	// intervals during which a directed (explicit) hold kept some goroutine of this scenario parked
	type iv struct{ from, to int64 }
	var holds []iv
	sc.mu.Lock()
	for _, g := range sc.gates {
		if g.used && !g.auto {
			to := g.releasedAt.Load()
			if to == 0 {
				to = sc.now()
			}
			holds = append(holds, iv{g.reachedAt.Load(), to})
		}
	}
	sc.mu.Unlock()
	heldDuring := func(from, to int64) bool {
		for _, h := range holds {
			if h.from <= to && h.to >= from {
				return true
			}
		}
		return false
	}

	for _, o := range all {
		w.Count("ops/"+o.Kind, 1)
		if !o.Done || (o.Kind != "wait" && o.Kind != "bmc") {
			continue
		}
		site := "WaitMasterchainSeqno"
		if o.Kind == "bmc" {
			site = "BestMasterchainClient"
		}
		w.Count("results/"+o.Kind+"/"+strings.SplitN(o.Res, ":", 2)[0], 1)
		wit := func(extra map[string]any) map[string]any {
			m := map[string]any{"scenario": sc.desc, "op": *o, "history": trimOps(all, o)}
			for k, v := range extra {
				m[k] = v
			}
			return m
		}
		timeout := time.Duration(o.TimeoutMs) * time.Millisecond
		elapsed := time.Duration(o.Ret - o.Call)
		// the moment from which the statement demands an error: the timeout, or the cancellation if that
		// came first (its real time, not the planned one)
		deadline, after := o.Call+int64(timeout), "timeout"
		if o.CancelledAt > 0 && o.CancelledAt < deadline {
			deadline, after = o.CancelledAt, "cancel"
		}
		limit := time.Duration(deadline - o.Call)
		resClass := o.Res
		if strings.HasPrefix(resClass, "err:") {
			resClass = "other-error"
		}
		// result kinds: the statement asks for success or *an* error; which error is not its business
		// (recorded only). An error is legal once the timeout has elapsed or the context is cancelled.
		if o.Res != "ok" {
			w.Seen("error_kinds", o.Kind+"/"+o.Res)
			cancelled := o.CancelledAt != 0 && o.CancelledAt <= o.Ret
			if elapsed < timeout-2*time.Millisecond && !cancelled {
				sig := "early-error@"
				switch o.Res {
				case "timeout", "deadline":
					sig = "early-timeout@"
				case "cancel":
					sig = "spurious-cancel@"
				}
				sc.violate(sig+site, wit(map[string]any{"elapsed": elapsed.String()}))
			}
		}
		// deadline monitor: measured from the call. Two bounds: `slack` always; `latSlack` when no directed
		// hold kept any goroutine of this scenario parked between the deadline and the return.
		w.Count("deadline_checked", 1)
		late := time.Duration(o.Ret - deadline)
		cls := "/no-head-updates"
		if o.HeadsSeen > 0 {
			cls = "/after-head-updates"
		}
		if after == "cancel" {
			cls = "/after-cancel"
		}
		if o.Kind == "bmc" {
			cls = ""
		}
		switch {
		case late > slack:
			if !timingOK(o.Call, o.Ret, slack/4) {
				if !disturbed {
					w.Inconclusive("late return while the machine was stalling")
				}
			} else {
				sc.violate("late-return@"+site+cls, wit(map[string]any{"elapsed": elapsed.String(), "allowed": (limit + slack).String(),
					"head_updates_received_during_call": o.HeadsSeen, "error_due_after": after}))
			}
		case late > latSlack:
			switch {
			case heldDuring(deadline, o.Ret):
				w.Count("prompt_return_unjudged_directed_hold", 1)
			case !timingOK(deadline, o.Ret, latSlack/5):
				if !disturbed {
					w.Inconclusive("late return while the machine was stalling")
				}
			default:
				sc.violate("late-return@"+site+cls, wit(map[string]any{"elapsed": elapsed.String(), "allowed": (limit + latSlack).String(),
					"head_updates_received_during_call": o.HeadsSeen, "error_due_after": after}))
			}
		default:
			w.Count("prompt_return_checked", 1)
		}
		// completeness: a qualifying head on the connection that was the choice during the whole call,
		// published - and the call made - well before the deadline (a call that starts with its context
		// already cancelled, or about to be, may legitimately see the cancellation first)
		if x := bestDuring(switches, sc.initBest, o.Call, o.Ret); x >= 0 {
			need := o.N
			if o.Kind == "bmc" {
				need = 1
			}
			var hit *op
			for _, s := range sets {
				if s.Done && s.Conn == x && s.N >= need && s.Ret <= deadline-int64(cSlack) {
					hit = s
					break
				}
			}
			if hit != nil && o.Call > deadline-int64(callMargin) {
				w.Count("completeness_unjudged_call_too_close_to_deadline", 1)
				hit = nil
			}
			if hit != nil {
				w.Count("completeness_obligations", 1)
				if o.Res != "ok" {
					from := hit.Ret
					if o.Call > from {
						from = o.Call
					}
					if !timingOK(from, o.Ret, cSlack/4) {
						if !disturbed {
							w.Inconclusive("missed head while the machine was stalling")
						}
					} else {
						sc.violate("missed-head@"+site+"/"+resClass, wit(map[string]any{"published": *hit, "best_connection": x,
							"margin_before_deadline": time.Duration(deadline - hit.Ret).String()}))
					}
				}
			}
		}
		// BestMasterchainClient hands out the chosen connection: the head (and the client, when the hook
		// makes clients distinguishable) must belong to a connection that was the choice at some moment of the call
		if o.Kind == "bmc" && o.Res == "ok" && o.known {
			if may := bestsDuring(switches, sc.initBest, o.Call, o.Ret); may != nil {
				w.Count("bmc_connection_checked", 1)
				if !may[o.OutConn] {
					sc.violate("head-of-a-connection-that-was-not-the-choice@"+site, wit(map[string]any{"head_of_connection": o.OutConn, "choices_during_the_call": fmt.Sprint(may)}))
				}
				if o.OutClient >= 0 {
					w.Count("bmc_client_checked", 1)
					if !may[o.OutClient] {
						sc.violate("client-of-a-connection-that-was-not-the-choice@"+site, wit(map[string]any{"client_of_connection": o.OutClient, "choices_during_the_call": fmt.Sprint(may)}))
					}
				}
			}
		}
		if o.Kind == "wait" && o.Res == "ok" && o.Registered {
			w.Count("results/wait/ok-by-notification", 1)
		}
		if o.Kind == "bmc" && o.Res == "ok" && !o.known {
			sc.violate("fabricated-head@"+site, wit(nil))
		}
	}

	sample := func(pres string) {
		var lines []string
		for _, o := range all {
			if (o.Kind == "wait" || o.Kind == "bmc") && len(lines) < 6 {
				lines = append(lines, fmt.Sprintf("%s %s(n=%d, timeout=%dms, cancel_after=%dms) -> %s after %v (head updates received: %d)",
					o.Actor, o.Kind, o.N, o.TimeoutMs, o.CancelMs, o.Res, time.Duration(o.Ret-o.Call).Round(time.Millisecond), o.HeadsSeen))
			}
		}
		w.Sample(map[string]any{"kind": "schedule", "scenario": sc.desc, "operations": len(all), "hook_events": len(events),
			"hook_counts": sc.countsMap(), "waits": lines, "porcupine": pres})
	}
	if !complete {
		sample("not run (scenario blocked)")
		return
	}
	// porcupine
	var hist []porcupine.Operation
	for i, o := range all {
		if !o.Done {
			return
		}
		var in pIn
		var out pOut
		switch o.Kind {
		case "set":
			in = pIn{kind: 0, conn: int8(o.Conn), n: o.N}
		case "wait":
			in, out = pIn{kind: 1, n: o.N}, pOut{ok: o.Res == "ok"}
		case "bmc":
			in, out = pIn{kind: 2}, pOut{ok: o.Res == "ok", conn: int8(o.OutConn), seq: o.OutSeq}
			if out.ok && (o.OutConn < 0 || o.OutConn >= len(sc.conns)) {
				continue // already reported as fabricated
			}
		case "switch":
			in, out = pIn{kind: 3}, pOut{best: int8(o.Best)}
		}
		hist = append(hist, porcupine.Operation{ClientId: i, Input: in, Output: out, Call: o.Call, Return: o.Ret})
	}
	if len(hist) == 0 {
		return
	}
	pt := 20 * time.Second
	if w.Thorough() {
		pt = 60 * time.Second
	}
	t := time.Now()
	res := porcupine.CheckOperationsTimeout(pModelFor(sc.initBest), hist, pt)
	w.Count("porcupine/"+string(res), 1)
	w.Count("porcupine_ops_checked", int64(len(hist)))
	if d := time.Since(t); d > time.Second {
		w.Count("porcupine_slow_over_1s", 1)
	}
	sample(string(res))
	switch res {
	case porcupine.Unknown:
		w.Inconclusive("porcupine timed out")
	case porcupine.Illegal:
		// pick the signature suffix by a direct look at the ok results; porcupine's verdict is the authority
		cls := "order"
		var focus *op
		for _, o := range all {
			if o.Res != "ok" || (o.Kind != "wait" && o.Kind != "bmc") {
				continue
			}
			any, onBest := false, false
			for _, s := range sets {
				if s.N >= o.N && s.Call <= o.Ret {
					any = true
					if b := bestDuring(switches, sc.initBest, o.Call, o.Ret); b == -1 || b == s.Conn {
						onBest = true
					}
				}
			}
			if o.Kind == "wait" && !any {
				cls, focus = "no-such-head-published", o
				break
			}
			if o.Kind == "wait" && !onBest {
				cls, focus = "head-only-on-a-connection-that-was-not-the-choice", o
			}
		}
		sc.violate("unsound-ok@porcupine/"+cls, map[string]any{"scenario": sc.desc, "op": focus, "history": trimOps(all, focus)})
	}
}

// ---------------------------------------------------------------------------
// random scenarios
// ---------------------------------------------------------------------------

type waitPlan struct {
	delay, timeout, cancel time.Duration
	rel                    int
	far, bmc               bool
}

func ms(n int) time.Duration { return time.Duration(n) * time.Millisecond }

func randomScenario(w *mon.Worker, name string, rng *mon.Rng, pre func(sc *scenario)) {
	sc := newScenario(w, name, rng)
	nConns := mon.Pick(rng, []int{1, 1, 2, 2, 3, 4})
	strategy := pool.Strategy(pool.BestPingStrategy)
	if rng.Bool() {
		strategy = pool.FirstWorkingConnection
	}
	mode := "fixed"
	interval := time.Hour
	if nConns > 1 && rng.Bool() {
		mode = "switch"
	} else if rng.Chance(2, 3) {
		mode = "ticker"
		interval = time.Duration(rng.Range(500, 5000)) * time.Microsecond
	}
	sc.perturb = rng.Intn(3)
	// servers finish connecting in any order: register the ids in a random order. Outside "switch" mode
	// only the first one registered (the initial choice) is alive, so no refresh can move the choice.
	order := rng.Perm(nConns)
	alive := func(i int) bool { return i == order[0] || mode == "switch" }
	rtt := func(i int) time.Duration { return ms(rng.Range(0, 3)) } // 0 = no pong measured yet
	sc.buildOrdered(order, strategy, interval, alive, rtt)
	sc.desc["mode"], sc.desc["perturbation"] = mode, sc.perturb
	if pre != nil {
		pre(sc)
	}
	// the Run loop stalls now and then in the middle of a notification round while every connection
	// (the choice and the others) keeps publishing, bursts included: updates of several connections
	// pile up in the shared channel and are picked up together
	if nConns > 1 && rng.Bool() {
		n := rng.Range(3, 6)
		for k := 0; k < n; k++ {
			sc.holdTimed("run", "notify.send", rng.Range(1, 15), ms(rng.Range(3, 15)))
		}
		sc.desc["run_loop_stalls"] = n
		w.Count("random_scenarios_with_run_loop_stalls", 1)
	}
	drv, release := sc.adopt("drv", "drv")
	defer release()
	base := uint32(0)
	if rng.Chance(2, 3) {
		base = 100
	}
	sc.chain.Store(base)
	if base > 0 {
		for c := range sc.conns {
			sc.doSet(drv, c, base-uint32(rng.Intn(2)))
		}
	}
	sc.startRun()
	duration := ms(rng.Range(250, 800))
	var stopped atomic.Bool
	running := func() bool { return !stopped.Load() && time.Since(sc.t0) < duration }

	// head publishers
	for c := range sc.conns {
		c := c
		nPub := 1
		if rng.Chance(1, 5) {
			nPub = 2
		}
		for k := 0; k < nPub; k++ {
			style := rng.Intn(3) // 0 monotone, 1 non-monotone, 2 bursts
			lo, hi := rng.Range(2, 20), rng.Range(20, 60)
			sc.spawn("pub", fmt.Sprintf("pub%d.%d", c, k), &sc.wgP, func(a *actor) {
				next := func() uint32 {
					if a.rng.Bool() {
						return sc.chain.Add(1)
					}
					cur, lag := sc.chain.Load(), uint32(a.rng.Intn(3))
					if style == 1 {
						lag = uint32(a.rng.Intn(5))
					}
					if cur > lag {
						return cur - lag
					}
					return cur
				}
				for running() {
					if style == 2 {
						for i, n := 0, a.rng.Range(2, 12); i < n && running(); i++ {
							sc.doSet(a, c, next())
						}
						time.Sleep(ms(a.rng.Range(20, 150)))
						continue
					}
					sc.doSet(a, c, next())
					time.Sleep(ms(a.rng.Range(lo, hi)))
				}
			})
		}
	}
	// best-connection switches
	if mode == "switch" {
		sc.spawn("sw", "sw", &sc.wgP, func(a *actor) {
			for running() {
				c := sc.conns[a.rng.Intn(len(sc.conns))]
				if a.rng.Bool() {
					c.SetAlive(a.rng.Chance(3, 4))
				} else {
					c.SetRTT(ms(a.rng.Range(1, 3)))
				}
				sc.doSwitch(a)
				time.Sleep(ms(a.rng.Range(3, 40)))
			}
		})
	}
	// waiters
	nW := mon.Pick(rng, []int{1, 2, 3, 4, 6, 8, 16, 32})
	sc.desc["waiters"] = nW
	for i := 0; i < nW; i++ {
		var plans []waitPlan
		total := time.Duration(0)
		for k, n := 0, rng.Range(1, 3); k < n; k++ {
			pl := waitPlan{delay: ms(rng.Intn(150)), timeout: ms(rng.Range(50, 400)), cancel: -1, rel: rng.Range(-2, 6)}
			if rng.Chance(1, 4) {
				pl.cancel = time.Duration(rng.Intn(int(pl.timeout*6/5/time.Microsecond))) * time.Microsecond
			}
			pl.far = rng.Chance(1, 8)
			pl.bmc = rng.Chance(1, 8)
			plans = append(plans, pl)
			total += pl.delay + pl.timeout
		}
		if total > sc.maxPlan {
			sc.maxPlan = total
		}
		sc.spawn("w", fmt.Sprintf("w%d", i), &sc.wgW, func(a *actor) {
			for _, pl := range plans {
				time.Sleep(pl.delay)
				if pl.bmc {
					sc.doBMC(a, pl.timeout)
					continue
				}
				target := int64(sc.chain.Load()) + int64(pl.rel)
				if pl.far {
					target += 100000
				}
				if target < 0 {
					target = 0
				}
				sc.doWait(a, uint32(target), pl.timeout, pl.cancel)
			}
		})
	}
	if mode == "switch" {
		sc.switchTail(w, drv, running, &stopped)
	}
	sc.finish(func() { stopped.Store(true) })
}

// switchTail ends a "switch" scenario with a quiet epilogue: publishers and the
// switcher have stopped; the connection with the oldest head becomes the only
// live one; if it is at most one block behind (so a refresh makes it the
// choice) a caller waits for its next seqno - usually one that an earlier
// choice has already delivered to waiters - and the connection reports exactly
// that seqno, nothing else. The caller must return ok.
func (sc *scenario) switchTail(w *mon.Worker, drv *actor, running func() bool, stopped *atomic.Bool) {
	for running() {
		time.Sleep(ms(2))
	}
	stopped.Store(true)
	if !waitTimeout(&sc.wgP, 5*time.Second) {
		return // finish() will deal with whoever is stuck
	}
	low, lowHead, top := -1, uint32(0), uint32(0)
	for id, c := range sc.conns {
		h := c.MasterHead().Seqno
		if low < 0 || h < lowHead {
			low, lowHead = id, h
		}
		if h > top {
			top = h
		}
	}
	if lowHead == 0 || lowHead+1 < top {
		w.Count("switch_tail_skipped", 1)
		return
	}
	for id, c := range sc.conns {
		c.SetAlive(id == low)
	}
	sc.doSwitch(drv)
	if b := sc.p.VerifBest(); b == nil || b.ID() != low {
		w.Count("switch_tail_skipped", 1) // the grid decides selection; here it only sets the stage
		return
	}
	n := lowHead + 1
	if n <= top {
		w.Count("switch_tail_waits_for_a_seqno_seen_before_the_switch", 1)
	} else {
		w.Count("switch_tail_waits_for_a_new_seqno", 1)
	}
	timeout := ms(700)
	if d := time.Since(sc.t0) + timeout; d > sc.maxPlan {
		sc.maxPlan = d
	}
	sc.spawn("w", "w.tail", &sc.wgW, func(a *actor) { sc.doWait(a, n, timeout, -1) })
	time.Sleep(ms(20))
	sc.doSet(drv, low, n)
}

// ---------------------------------------------------------------------------
// directed scenarios
// ---------------------------------------------------------------------------

func oneConn(w *mon.Worker, name string, rng *mon.Rng, base uint32) (*scenario, *actor, func()) {
	sc := newScenario(w, name, rng)
	strategy := pool.Strategy(pool.BestPingStrategy)
	if rng.Bool() {
		strategy = pool.FirstWorkingConnection
	}
	sc.build(1, strategy, time.Hour, func(int) bool { return true }, func(int) time.Duration { return ms(1) })
	drv, release := sc.adopt("drv", "drv")
	sc.chain.Store(base)
	if base > 0 {
		sc.doSet(drv, 0, base)
	}
	sc.startRun()
	return sc, drv, release
}

// (i) a waiter has left the select (timeout | cancel | satisfied) but has not
// yet called unsubscribe x two notifications in a row.
func directedLeaveVsTwoNotifications(w *mon.Worker, variant string, rng *mon.Rng) {
	base := uint32(100)
	if variant == "bmc" {
		base = 0
	}
	sc, drv, release := oneConn(w, "directed/leave-"+variant+"-x-two-notifications", rng, base)
	defer release()
	sc.desc["schedule"] = "hold the waiter at unsubscribe.enter; publish two heads; let the Run loop reach its second notify.send; release the waiter; then a second waiter must still be served"
	g := sc.hold("w", "unsubscribe.enter", 1, 20*time.Second)
	head := base
	sc.maxPlan = 1600 * time.Millisecond
	switch variant {
	case "timeout":
		to := ms(rng.Range(50, 90))
		sc.spawn("w", "w0", &sc.wgW, func(a *actor) { sc.doWait(a, base+1000, to, -1) })
	case "cancel":
		sc.spawn("w", "w0", &sc.wgW, func(a *actor) { sc.doWait(a, base+1000, ms(400), ms(40)) })
	case "ok":
		sc.spawn("w", "w0", &sc.wgW, func(a *actor) { sc.doWait(a, base+1, ms(400), -1) })
		sc.awaitCount("subscribe.compared", 1, time.Second)
		time.Sleep(ms(5))
		head++
		sc.doSet(drv, 0, head)
	case "bmc":
		sc.spawn("w", "w0", &sc.wgW, func(a *actor) { sc.doBMC(a, ms(400)) })
		sc.awaitCount("subscribe.compared", 1, time.Second)
		time.Sleep(ms(5))
		head++
		sc.doSet(drv, 0, head)
	}
	select {
	case <-g.reached:
	case <-time.After(5 * time.Second):
		w.Inconclusive("directed schedule: the waiter never reached unsubscribe")
		g.open()
		sc.finish(nil)
		return
	}
	n0 := sc.count("notify.send")
	sc.doSet(drv, 0, head+1)
	sc.doSet(drv, 0, head+2)
	head += 2
	sc.desc["second_notify_send_reached"] = sc.awaitCount("notify.send", n0+2, 300*time.Millisecond)
	time.Sleep(ms(20))
	g.open()
	// the pool must still serve a new waiter
	sc.spawn("w", "w1", &sc.wgW, func(a *actor) { sc.doWait(a, head+1, ms(1500), -1) })
	time.Sleep(ms(30))
	sc.spawn("pub", "pub0.0", &sc.wgP, func(a *actor) { sc.doSet(a, 0, head+1) })
	sc.finish(nil)
}

// (ii) head updates arrive more often than the timeout while the target is far away.
func directedFrequentHeads(w *mon.Worker, rng *mon.Rng) {
	sc, _, release := oneConn(w, "directed/frequent-heads-x-far-target", rng, 100)
	defer release()
	timeout, every := ms(rng.Range(120, 180)), ms(rng.Range(30, 50))
	sc.desc["schedule"] = fmt.Sprintf("one waiter, target far away, timeout %v; a new head every %v until the waiter returns (at most 3.4 s)", timeout, every)
	sc.maxPlan = timeout
	var done atomic.Bool
	sc.spawn("w", "w0", &sc.wgW, func(a *actor) { sc.doWait(a, 100+100000, timeout, -1); done.Store(true) })
	sc.spawn("pub", "pub0.0", &sc.wgP, func(a *actor) {
		for i := uint32(1); !done.Load() && time.Since(sc.t0) < 3400*time.Millisecond; i++ {
			sc.doSet(a, 0, 100+i)
			time.Sleep(every)
		}
	})
	sc.finish(nil)
}

// a head published between the head comparison in subscribe and the
// registration of the waiter must still reach the waiter.
func directedSubscribeVsPublish(w *mon.Worker, rng *mon.Rng) {
	sc, drv, release := oneConn(w, "directed/subscribe-compared-x-publish", rng, 100)
	defer release()
	sc.desc["schedule"] = "hold the waiter in subscribe after the head comparison; publish the awaited head; give the Run loop 30 ms; release the waiter"
	g := sc.hold("w", "subscribe.compared", 1, 5*time.Second)
	sc.maxPlan = ms(1500)
	sc.spawn("w", "w0", &sc.wgW, func(a *actor) { sc.doWait(a, 101, ms(1500), -1) })
	select {
	case <-g.reached:
	case <-time.After(5 * time.Second):
		w.Inconclusive("directed schedule: the waiter never reached subscribe.compared")
	}
	sc.doSet(drv, 0, 101)
	time.Sleep(ms(30))
	g.open()
	sc.finish(nil)
}

// a waiter that has just been woken by an insufficient head is held before it
// looks at its channel again, while an insufficient and then the awaited head
// are delivered: the awaited head must not be lost behind the unread one.
func directedWokenWaiterVsTwoHeads(w *mon.Worker, rng *mon.Rng) {
	sc, drv, release := oneConn(w, "directed/woken-waiter-x-two-more-heads", rng, 100)
	defer release()
	sc.desc["schedule"] = "waiter for 103 is woken by 101 and held at wait.head; 102 and 103 are published and notified; the waiter is released; nothing else is published: it must return ok"
	g := sc.hold("w", "wait.head", 1, 5*time.Second)
	sc.maxPlan = ms(1200)
	sc.spawn("w", "w0", &sc.wgW, func(a *actor) { sc.doWait(a, 103, ms(1200), -1) })
	sc.awaitCount("subscribe.compared", 1, time.Second)
	time.Sleep(ms(5))
	sc.doSet(drv, 0, 101)
	select {
	case <-g.reached:
	case <-time.After(5 * time.Second):
		w.Inconclusive("directed schedule: the waiter never reached wait.head")
		g.open()
		sc.finish(nil)
		return
	}
	n0 := sc.count("notify.send")
	sc.doSet(drv, 0, 102)
	sc.doSet(drv, 0, 103)
	sc.desc["both_notified"] = sc.awaitCount("notify.send", n0+2, 300*time.Millisecond)
	time.Sleep(ms(20))
	g.open()
	sc.finish(nil)
}

// the update channel (10 slots) is full and a publisher of the best connection
// is parked in SetMasterHead x a new waiter subscribes x the Run loop goes on
// to its next notification.
func directedFullChannelVsSubscribe(w *mon.Worker, rng *mon.Rng) {
	sc := newScenario(w, "directed/full-update-channel-x-subscribe", rng)
	sc.build(3, pool.BestPingStrategy, time.Hour, func(int) bool { return true }, func(int) time.Duration { return ms(1) })
	sc.desc["schedule"] = "waiters w0 (far target) and w2 (target 102) registered; hold the Run loop at notify.send; queue 10 heads of connection 1 (channel full); publishers of connection 1, then of the best connection 0 (head 102), call SetMasterHead; start waiter w1 (queues for the pool lock); release the Run loop; nothing else is published: w2 must be woken by 102"
	drv, release := sc.adopt("drv", "drv")
	defer release()
	sc.startRun() // nothing published yet: the first update the Run loop sees is the one it is held on
	sc.maxPlan = ms(1500)
	g := sc.hold("run", "notify.send", 1, 20*time.Second)
	sc.spawn("w", "w0", &sc.wgW, func(a *actor) { sc.doWait(a, 100+100000, ms(1200), -1) })
	// w2 waits for exactly the head that the best connection reports while the update channel is full:
	// that report must reach it (a publication that gives up on a full channel loses the wake-up)
	sc.spawn("w", "w2", &sc.wgW, func(a *actor) { sc.doWait(a, 102, ms(1200), -1) })
	sc.awaitCount("subscribe.compared", 2, time.Second)
	time.Sleep(ms(5))
	sc.doSet(drv, 0, 101)
	select {
	case <-g.reached:
	case <-time.After(5 * time.Second):
		w.Inconclusive("directed schedule: the Run loop never reached notify.send")
		g.open()
		sc.finish(nil)
		return
	}
	for i := uint32(1); i <= 10; i++ {
		sc.doSet(drv, 1, i) // not the best connection: queued, will be dropped by notifySubscribers
	}
	n := sc.count("sethead.publish")
	sc.spawn("pub", "pub1.0", &sc.wgP, func(a *actor) { sc.doSet(a, 1, 11) })
	sc.awaitCount("sethead.publish", n+1, time.Second)
	time.Sleep(ms(10))
	sc.spawn("pub", "pub0.0", &sc.wgP, func(a *actor) { sc.doSet(a, 0, 102) })
	sc.awaitCount("sethead.publish", n+2, time.Second)
	time.Sleep(ms(10))
	sc.spawn("w", "w1", &sc.wgW, func(a *actor) { sc.doWait(a, 102, ms(1200), -1) })
	time.Sleep(ms(30))
	g.open()
	sc.finish(nil)
}

// a context cancelled long before the timeout: the call must come back with an
// error promptly after the cancellation, whether or not heads keep arriving
// (the random waits are too short for the prompt-return bound to bite).
func directedCancelLongBeforeTimeout(w *mon.Worker, variant string, rng *mon.Rng) {
	sc, _, release := oneConn(w, "directed/cancel-long-before-timeout/"+variant, rng, 100)
	defer release()
	timeout, cancelAfter := ms(4000), ms(rng.Range(40, 80))
	sc.desc["schedule"] = fmt.Sprintf("one waiter, target far away, timeout %v, context cancelled after %v; %s", timeout, cancelAfter,
		map[string]string{"quiet": "no head is published", "heads": "a new (insufficient) head every 30 ms"}[variant])
	sc.maxPlan = timeout
	var done atomic.Bool
	sc.spawn("w", "w0", &sc.wgW, func(a *actor) { sc.doWait(a, 100+100000, timeout, cancelAfter); done.Store(true) })
	if variant == "heads" {
		sc.spawn("pub", "pub0.0", &sc.wgP, func(a *actor) {
			for i := uint32(1); !done.Load() && time.Since(sc.t0) < timeout+time.Second; i++ {
				sc.doSet(a, 0, 100+i)
				time.Sleep(ms(30))
			}
		})
	}
	sc.finish(nil)
}

// one insufficient head shortly before the timeout must not buy the waiter more time.
func directedLateHeadVsTimeout(w *mon.Worker, rng *mon.Rng) {
	sc, drv, release := oneConn(w, "directed/late-insufficient-head-x-timeout", rng, 100)
	defer release()
	timeout := ms(800)
	at := ms(rng.Range(600, 680))
	sc.desc["schedule"] = fmt.Sprintf("one waiter, target far away, timeout %v; a single insufficient head after %v; the call must end at its timeout", timeout, at)
	sc.maxPlan = timeout
	sc.spawn("w", "w0", &sc.wgW, func(a *actor) { sc.doWait(a, 100+100000, timeout, -1) })
	time.Sleep(at)
	sc.doSet(drv, 0, 101)
	sc.finish(nil)
}

// BestMasterchainClient while the chosen connection has not reported a head
// yet and another connection has: the caller must be served by the chosen
// connection (here: once it reports), not by whichever connection has a head.
func directedBMCBeforeFirstHeadOfTheChoice(w *mon.Worker, rng *mon.Rng) {
	sc := newScenario(w, "directed/bmc-x-choice-without-head-x-other-with-head", rng)
	strategy := pool.Strategy(pool.BestPingStrategy)
	if rng.Bool() {
		strategy = pool.FirstWorkingConnection
	}
	order := rng.Perm(3)
	sc.buildOrdered(order, strategy, time.Hour, func(int) bool { return true }, func(i int) time.Duration { return ms(1 + i) })
	choice := sc.initBest
	sc.desc["schedule"] = fmt.Sprintf("3 connections, no refresh; the two that are not the choice (%d) report head 50; BestMasterchainClient is called; 100 ms later the choice reports head 50", choice)
	drv, release := sc.adopt("drv", "drv")
	defer release()
	sc.startRun()
	sc.maxPlan = ms(600)
	for c := range sc.conns {
		if c != choice {
			sc.doSet(drv, c, 50)
		}
	}
	time.Sleep(ms(10))
	sc.spawn("w", "w0", &sc.wgW, func(a *actor) { sc.doBMC(a, ms(600)) })
	time.Sleep(ms(100))
	sc.doSet(drv, choice, 50)
	sc.finish(nil)
}

// the refresh driven by the Run loop's ticker: the choice dies while heads of
// every connection keep arriving much more often than the refresh interval.
// After "a refresh" the choice must be the live connection; a Run loop whose
// refresh is starved by head updates never gets there.
func directedTickerRefreshUnderHeadTraffic(w *mon.Worker, rng *mon.Rng) {
	sc := newScenario(w, "directed/ticker-refresh-x-head-traffic", rng)
	strategy := pool.Strategy(pool.BestPingStrategy)
	if rng.Bool() {
		strategy = pool.FirstWorkingConnection
	}
	interval := ms(100) // far above the gap between two head updates, also on a loaded machine
	order := rng.Perm(2)
	sc.buildOrdered(order, strategy, interval, func(int) bool { return true }, func(int) time.Duration { return ms(1) })
	first := sc.initBest
	other := 1 - first
	sc.desc["schedule"] = fmt.Sprintf("2 live connections, refresh every %v, both report a new head every ~4 ms; after 150 ms connection %d (the choice) dies; the choice must become %d", interval, first, other)
	_, release := sc.adopt("drv", "drv")
	defer release()
	sc.startRun()
	var stop atomic.Bool
	sc.spawn("pub", "pub.all", &sc.wgP, func(a *actor) {
		for !stop.Load() && time.Since(sc.t0) < 10*time.Second {
			n := sc.chain.Add(1)
			sc.doSet(a, 0, n)
			sc.doSet(a, 1, n)
			time.Sleep(ms(4))
		}
	})
	time.Sleep(ms(150))
	// make sure the pool's choice is the one about to die (a refresh may have moved it among equals)
	if b := sc.p.VerifBest(); b != nil {
		first = b.ID()
		other = 1 - first
	}
	sc.conns[first].SetAlive(false)
	died := time.Now()
	allowed := 10*interval + latSlack // 1.5 s for a 100 ms ticker
	moved := false
	for time.Since(died) < allowed {
		if b := sc.p.VerifBest(); b != nil && b.ID() == other {
			moved = true
			break
		}
		time.Sleep(time.Millisecond)
	}
	took := time.Since(died)
	stop.Store(true)
	w.Count("ticker_refresh_observed", 1)
	switch {
	case moved:
		sc.desc["choice_moved_after"] = took.String()
	case probe.worst(died, time.Now()) > latSlack/5:
		w.Inconclusive("ticker refresh not seen while the machine was stalling")
	default:
		sc.violate("stale-choice@Run/no-refresh-while-head-updates-arrive", map[string]any{"scenario": sc.desc, "waited": took.String(),
			"refresh_interval": interval.String(), "hook_counts": sc.countsMap()})
	}
	sc.finish(nil)
}

// the update channel is shared by all connections: while the Run loop is busy,
// the awaited head of the choice and a strictly newer head of another
// connection are queued together (both arrival orders). The head of the
// choice must still reach the waiter - a newer head of a connection that is
// not the choice says nothing about the choice.
func directedQueuedTogetherWithNewerHeadOfAnother(w *mon.Worker, order string, rng *mon.Rng) {
	sc := newScenario(w, "directed/awaited-head-queued-with-newer-head-of-another-connection/"+order, rng)
	strategy := pool.Strategy(pool.BestPingStrategy)
	if rng.Bool() {
		strategy = pool.FirstWorkingConnection
	}
	sc.buildOrdered(rng.Perm(2), strategy, time.Hour, func(int) bool { return true }, func(int) time.Duration { return ms(1) })
	choice := sc.initBest
	other := 1 - choice
	sc.desc["schedule"] = fmt.Sprintf("2 connections, no refresh, the choice is %d; waiter for 102 registered; the choice reports 101 and the Run loop is held at notify.send; then (%s) the choice reports 102 and connection %d reports 103; the Run loop is released; nothing else is published: the waiter must return ok", choice, order, other)
	drv, release := sc.adopt("drv", "drv")
	defer release()
	sc.doSet(drv, choice, 100)
	sc.doSet(drv, other, 100)
	sc.startRun()
	sc.maxPlan = ms(1200)
	g := sc.hold("run", "notify.send", 1, 20*time.Second)
	sc.spawn("w", "w0", &sc.wgW, func(a *actor) { sc.doWait(a, 102, ms(1200), -1) })
	sc.awaitCount("subscribe.compared", 1, time.Second)
	time.Sleep(ms(5))
	sc.doSet(drv, choice, 101)
	select {
	case <-g.reached:
	case <-time.After(5 * time.Second):
		w.Inconclusive("directed schedule: the Run loop never reached notify.send")
		g.open()
		sc.finish(nil)
		return
	}
	if order == "choice-first" {
		sc.doSet(drv, choice, 102)
		sc.doSet(drv, other, 103)
	} else {
		sc.doSet(drv, other, 103)
		sc.doSet(drv, choice, 102)
	}
	time.Sleep(ms(10))
	g.open()
	sc.finish(nil)
}

// a refresh moves the choice to a connection that is one block behind (the
// former choice died); a caller then waits for the seqno that the former
// choice had already delivered to waiters; the new choice reports it. What
// the pool has told waiters about another connection is no reason to withhold
// this report.
func directedSwitchToLaggingThenAwaitDeliveredSeqno(w *mon.Worker, rng *mon.Rng) {
	sc := newScenario(w, "directed/switch-to-lagging-connection-x-wait-for-seqno-already-delivered", rng)
	strategy := pool.Strategy(pool.BestPingStrategy)
	if rng.Bool() {
		strategy = pool.FirstWorkingConnection
	}
	sc.buildOrdered(rng.Perm(2), strategy, time.Hour, func(int) bool { return true }, func(int) time.Duration { return ms(1) })
	a0 := sc.initBest
	b0 := 1 - a0
	sc.desc["schedule"] = fmt.Sprintf("2 connections at head 100, the choice is %d; waiter w0 for 101; %d reports 101 (w0 returns ok); %d dies, refresh: the choice is %d (one block behind); waiter w1 for 101; %d reports 101; nothing else is published: w1 must return ok", a0, a0, a0, b0, b0)
	drv, release := sc.adopt("drv", "drv")
	defer release()
	sc.doSet(drv, a0, 100)
	sc.doSet(drv, b0, 100)
	sc.startRun()
	sc.maxPlan = ms(2200)
	var firstDone atomic.Bool
	sc.spawn("w", "w0", &sc.wgW, func(a *actor) { sc.doWait(a, 101, ms(1000), -1); firstDone.Store(true) })
	sc.awaitCount("subscribe.compared", 1, time.Second)
	time.Sleep(ms(5))
	sc.doSet(drv, a0, 101)
	for end := time.Now().Add(1500 * time.Millisecond); !firstDone.Load() && time.Now().Before(end); {
		time.Sleep(time.Millisecond)
	}
	sc.conns[a0].SetAlive(false)
	sc.doSwitch(drv)
	if b := sc.p.VerifBest(); b == nil || b.ID() != b0 {
		w.Inconclusive("directed schedule: the refresh did not move the choice (selection is judged by the grid)")
		sc.finish(nil)
		return
	}
	time.Sleep(ms(5))
	sc.spawn("w", "w1", &sc.wgW, func(a *actor) { sc.doWait(a, 101, ms(1000), -1) })
	sc.awaitCount("subscribe.compared", 2, time.Second)
	time.Sleep(ms(5))
	sc.doSet(drv, b0, 101)
	sc.finish(nil)
}

func kindAt(point string) string {
	switch point {
	case "notify.send":
		return "run"
	case "sethead.publish":
		return "pub"
	}
	return "w"
}

type directedCase struct {
	name string
	run  func(w *mon.Worker, rng *mon.Rng)
}

func directedCases(thorough bool) []directedCase {
	var cs []directedCase
	reps := 1
	if thorough {
		reps = 3
	}
	for r := 0; r < reps; r++ {
		for _, v := range []string{"timeout", "cancel", "ok", "bmc"} {
			v := v
			cs = append(cs, directedCase{"leave-" + v, func(w *mon.Worker, rng *mon.Rng) { directedLeaveVsTwoNotifications(w, v, rng) }})
		}
		cs = append(cs, directedCase{"frequent-heads", directedFrequentHeads})
		cs = append(cs, directedCase{"subscribe-vs-publish", directedSubscribeVsPublish})
		cs = append(cs, directedCase{"woken-waiter-vs-two-heads", directedWokenWaiterVsTwoHeads})
		cs = append(cs, directedCase{"full-channel-vs-subscribe", directedFullChannelVsSubscribe})
		cs = append(cs, directedCase{"switch-to-lagging-then-await-delivered-seqno", directedSwitchToLaggingThenAwaitDeliveredSeqno})
		for _, v := range []string{"choice-first", "other-first"} {
			v := v
			cs = append(cs, directedCase{"queued-with-newer-head-of-another-" + v, func(w *mon.Worker, rng *mon.Rng) { directedQueuedTogetherWithNewerHeadOfAnother(w, v, rng) }})
		}
		for _, v := range []string{"quiet", "heads"} {
			v := v
			cs = append(cs, directedCase{"cancel-long-before-timeout-" + v, func(w *mon.Worker, rng *mon.Rng) { directedCancelLongBeforeTimeout(w, v, rng) }})
		}
		cs = append(cs, directedCase{"late-head-vs-timeout", directedLateHeadVsTimeout})
		cs = append(cs, directedCase{"bmc-before-first-head-of-the-choice", directedBMCBeforeFirstHeadOfTheChoice})
		cs = append(cs, directedCase{"ticker-refresh-under-head-traffic", directedTickerRefreshUnderHeadTraffic})
	}
	pairs := [][2]string{{"unsubscribe.enter", "notify.send"}, {"subscribe.compared", "sethead.publish"}}
	perPair := 1
	if thorough {
		pairs = nil
		for _, p := range hookPoints {
			for _, q := range hookPoints {
				pairs = append(pairs, [2]string{p, q})
			}
		}
		perPair = 5
	}
	for _, pq := range pairs {
		for r := 0; r < perPair; r++ {
			pq, r := pq, r
			name := fmt.Sprintf("directed/hold-%s-until-%s/%d", pq[0], pq[1], r)
			cs = append(cs, directedCase{"pair", func(w *mon.Worker, rng *mon.Rng) {
				randomScenario(w, name, rng, func(sc *scenario) {
					sc.holdAuto(kindAt(pq[0]), pq[0], pq[1])
					sc.desc["schedule"] = "hold the first " + kindAt(pq[0]) + " goroutine at " + pq[0] + " until another goroutine passes " + pq[1] + " (at most 30 ms)"
				})
			}})
		}
	}
	return cs
}

// ---------------------------------------------------------------------------
// worker entry
// ---------------------------------------------------------------------------

func schedWorker(w *mon.Worker) {
	var job schedJob
	if err := json.Unmarshal(w.Job, &job); err != nil {
		w.HarnessError("bad job: " + err.Error())
		return
	}
	probe.run()
	pool.VerifSetHook(hookCallback)
	if job.Par <= 0 {
		job.Par = 4
	}
	sem := make(chan struct{}, job.Par)
	var wg sync.WaitGroup
	launch := func(f func()) {
		sem <- struct{}{}
		wg.Add(1)
		go func() {
			defer wg.Done()
			defer func() { <-sem }()
			if p := mon.Guard(f); p != nil {
				w.HarnessError("scenario driver panicked: " + p.Value + "\n" + mon.Trunc(p.Stack, 1500))
			}
		}()
	}
	switch job.Kind {
	case "directed":
		for i, c := range directedCases(w.Thorough()) {
			i, c := i, c
			launch(func() {
				c.run(w, w.Rng("directed/"+c.name, i))
				w.Count("directed_scenarios", 1)
			})
		}
	default:
		for i := job.Start; i < job.Start+job.Count; i++ {
			i := i
			launch(func() {
				if blockedScenarios.Load() >= 1 {
					w.Count("random_scenarios_skipped_after_a_deadlock", 1)
					return
				}
				randomScenario(w, fmt.Sprintf("random/%d", i), w.Rng("sched", i), nil)
				w.Count("random_scenarios", 1)
			})
		}
	}
	wg.Wait()
	if n := hub.unattributed.Load(); n > 0 {
		w.Count("hook_hits_from_unregistered_goroutines", n)
	}
}
