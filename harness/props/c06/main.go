// C06 — bit-string and cell primitives behave like an ideal bit list.
// Lock-step execution of the same operation sequence on boc.BitString /
// boc.Cell and on ref/bits.List; see DESIGN.md §5 C06.
package main

import (
	"encoding/json"
	"fmt"
	"math/big"
	"os"
	"sync"
	"sync/atomic"

	"github.com/tonkeeper/tongo/boc"

	"verifharness/mon"
	rb "verifharness/ref/bits"
)

var R *mon.Run

// realBits reads the written bits of a BitString straight from its buffer
// (independent of every read method under test).
func realBits(s *boc.BitString) []bool {
	n := s.GetWriteCursor()
	buf := s.Buffer()
	out := make([]bool, n)
	for i := 0; i < n; i++ {
		if i/8 >= len(buf) {
			return out[:i]
		}
		out[i] = buf[i/8]&(1<<uint(7-i%8)) != 0
	}
	return out
}

func bsOf(bits []bool, capacity int) *boc.BitString {
	s := boc.NewBitString(capacity)
	for _, b := range bits {
		if err := s.WriteBit(b); err != nil {
			R.HarnessError("cannot build fixture: %v", err)
		}
	}
	return &s
}

func viol(sig string, w map[string]any) { R.Violation(sig, w) }

func pattern(kind int, n int, rng *mon.Rng) []bool {
	out := make([]bool, n)
	switch kind {
	case 0:
		for i := range out {
			out[i] = true
		}
	case 1:
		for i := range out {
			out[i] = i%2 == 0
		}
	default:
		out = rng.Bits(n)
	}
	return out
}

// guard runs f; a panic inside tongo is a violation of "returns exactly the
// values written" / "fails with an error".
func guard(op string, w map[string]any, f func()) bool {
	if p := mon.Guard(f); p != nil {
		w["panic"] = p.Value
		w["stack"] = mon.Trunc(p.Stack, 1500)
		viol("panic@"+p.Site+"/"+op+"/"+mon.PanicClass(p.Value), w)
		return false
	}
	return true
}

// ---------------------------------------------------------------- A: integer readers, exhaustive

func sectionReadUint() {
	lens := []int{1023, 1016, 1000, 64, 57, 9, 8, 1}
	if !R.Thorough() {
		lens = []int{1023, 1016, 64, 9}
	}
	paths := map[string]int64{}
	for li, L := range lens {
		for pk := 0; pk < 3; pk++ {
			bitsv := pattern(pk, L, R.Rng("readuint", li*3+pk))
			s := bsOf(bitsv, L)
			for off := 0; off <= L; off++ {
				for w := 0; w <= 64; w++ {
					path := "loop"
					if off%8 == 0 && w%8 == 0 {
						path = "aligned"
					} else if w < 57 {
						path = "lt57"
					}
					wantErr := off+w > L
					var want uint64
					if !wantErr {
						want = rb.ToUint(bitsv[off : off+w])
					}
					// ReadUint
					s.ResetCounter()
					s.Skip(off)
					var got uint64
					var err error
					wit := map[string]any{"len": L, "offset": off, "width": w, "pattern": pk, "path": path}
					if !guard("ReadUint", wit, func() { got, err = s.ReadUint(w) }) {
						continue
					}
					R.Eval(fmt.Sprintf("RU/%d/%d/%d/%v", L, off, w, pk))
					paths[path]++
					if wantErr && err != nil && s.BitsAvailableForRead() != L-off {
						viol("cursor-moved-by-failed-read@ReadUint", wit)
					}
					if wantErr != (err != nil) {
						wit["err"] = fmt.Sprint(err)
						viol("error-mismatch@ReadUint/"+path, wit)
					} else if !wantErr && got != want {
						wit["got"], wit["want"] = got, want
						viol("value-mismatch@ReadUint/"+path, wit)
					} else if !wantErr && s.BitsAvailableForRead() != L-off-w {
						viol("cursor-mismatch@ReadUint/"+path, wit)
					}
					// PickUint: same value, cursor unchanged
					s.ResetCounter()
					s.Skip(off)
					if guard("PickUint", wit, func() { got, err = s.PickUint(w) }) {
						R.Eval("")
						if wantErr != (err != nil) {
							viol("error-mismatch@PickUint/"+path, wit)
						} else if !wantErr && (got != want || s.BitsAvailableForRead() != L-off) {
							wit["got"], wit["want"] = got, want
							viol("value-mismatch@PickUint/"+path, wit)
						}
					}
					// ReadInt (width >= 1)
					if w >= 1 {
						s.ResetCounter()
						s.Skip(off)
						var gi int64
						if guard("ReadInt", wit, func() { gi, err = s.ReadInt(w) }) {
							R.Eval("")
							if wantErr && err != nil && s.BitsAvailableForRead() != L-off {
								viol("cursor-moved-by-failed-read@ReadInt", wit)
							}
							if wantErr != (err != nil) {
								viol("error-mismatch@ReadInt/"+path, wit)
							} else if !wantErr && gi != rb.ToInt(bitsv[off:off+w]) {
								wit["got"], wit["want"] = gi, rb.ToInt(bitsv[off:off+w])
								viol("value-mismatch@ReadInt", wit)
							}
						}
					}
				}
			}
		}
	}
	for k, v := range paths {
		R.Count("readuint_path_"+k, v)
	}
}

// ---------------------------------------------------------------- B: byte / bits readers at every offset

func sectionReadBytes() {
	L := 1023
	for pk := 0; pk < 3; pk++ {
		bitsv := pattern(pk, L, R.Rng("readbytes", pk))
		s := bsOf(bitsv, L)
		for off := 0; off <= L; off++ {
			wit := map[string]any{"len": L, "offset": off, "pattern": pk}
			// ReadBit
			s.ResetCounter()
			s.Skip(off)
			var b bool
			var err error
			if guard("ReadBit", wit, func() { b, err = s.ReadBit() }) {
				R.Eval(fmt.Sprintf("RBit/%d/%d", off, pk))
				if (off+1 > L) != (err != nil) || (err == nil && b != bitsv[off]) {
					viol("mismatch@ReadBit", wit)
				}
			}
			// ReadByte
			s.ResetCounter()
			s.Skip(off)
			var by byte
			if guard("ReadByte", wit, func() { by, err = s.ReadByte() }) {
				R.Eval(fmt.Sprintf("RByte/%d/%d", off, pk))
				if (off+8 > L) != (err != nil) {
					viol("error-mismatch@ReadByte", wit)
				} else if err == nil && by != byte(rb.ToUint(bitsv[off:off+8])) {
					viol("value-mismatch@ReadByte", wit)
				}
			}
			// ReadBytes(k)
			for _, k := range []int{0, 1, 2, 3, 7, 8, 9, 31, 32, 33, 64, 127, 128} {
				s.ResetCounter()
				s.Skip(off)
				var bs []byte
				wit["k"] = k
				if guard("ReadBytes", wit, func() { bs, err = s.ReadBytes(k) }) {
					R.Eval(fmt.Sprintf("RBytes/%d/%d/%d", off%16, k, pk))
					if (off+8*k > L) != (err != nil) {
						viol("error-mismatch@ReadBytes", wit)
					} else if err == nil && !rb.Equal(rb.BytesBits(bs), bitsv[off:off+8*k]) {
						viol("value-mismatch@ReadBytes", wit)
					} else if err == nil && s.BitsAvailableForRead() != L-off-8*k {
						viol("cursor-mismatch@ReadBytes", wit)
					}
				}
			}
			delete(wit, "k")
			// ReadBits(n)
			ns := []int{0, 1, 2, 7, 8, 9, 15, 16, 17, 63, 64, 65, 256, 267, 1015, 1016, 1022, 1023}
			if off < 8 || R.Thorough() {
				ns = nil
				for n := 0; n <= 64; n++ {
					ns = append(ns, n)
				}
				for n := 1010; n <= 1023; n++ {
					ns = append(ns, n)
				}
			}
			for _, n := range ns {
				s.ResetCounter()
				s.Skip(off)
				var sub boc.BitString
				wit["n"] = n
				if guard("ReadBits", wit, func() { sub, err = s.ReadBits(n) }) {
					R.Eval(fmt.Sprintf("RBits/%d/%d/%d", off%8, n, pk))
					if (off+n > L) != (err != nil) {
						viol("error-mismatch@ReadBits", wit)
					} else if err == nil {
						got := realBits(&sub)
						if !rb.Equal(got, bitsv[off:off+n]) {
							viol("value-mismatch@ReadBits", wit)
						}
						// the returned string must behave as an n-bit list when read and re-written
						dst := boc.NewBitString(n + 8)
						dst.WriteBit(true)
						if guard("WriteBitString", wit, func() { err = dst.WriteBitString(sub) }) {
							if err != nil || !rb.Equal(realBits(&dst)[1:], bitsv[off:off+n]) {
								viol("value-mismatch@WriteBitString(ReadBits)", wit)
							}
						}
					}
				}
			}
			delete(wit, "n")
		}
	}
}

// ---------------------------------------------------------------- C: big integers

func bigBoundaries(n int, signed bool, rng *mon.Rng) []*big.Int {
	one := big.NewInt(1)
	var vals []*big.Int
	if signed {
		min := new(big.Int).Neg(new(big.Int).Lsh(one, uint(n-1)))
		max := new(big.Int).Sub(new(big.Int).Lsh(one, uint(n-1)), one)
		vals = append(vals, min, max, big.NewInt(0), big.NewInt(-1))
		if n > 1 {
			vals = append(vals, new(big.Int).Add(min, one))
		}
		if n > 2 {
			vals = append(vals, big.NewInt(1), new(big.Int).Sub(max, one))
			r := rng.BigBits(n - 1)
			vals = append(vals, r, new(big.Int).Sub(new(big.Int).Neg(r), one))
		}
	} else {
		max := new(big.Int).Sub(new(big.Int).Lsh(one, uint(n)), one)
		vals = append(vals, big.NewInt(0), max, rng.BigBits(n))
		if n > 1 {
			vals = append(vals, big.NewInt(1), new(big.Int).Sub(max, one), new(big.Int).Lsh(one, uint(n-1)))
		}
	}
	return vals
}

func sectionBig() {
	for n := 1; n <= 257; n++ {
		for off := 0; off < 8; off++ {
			for _, signed := range []bool{false, true} {
				rng := R.Rng("big", n*16+off*2+b2i(signed))
				for vi, v := range bigBoundaries(n, signed, rng) {
					wit := map[string]any{"width": n, "offset": off, "signed": signed, "value": v.String()}
					s := boc.NewBitString(off + n + 3)
					pre := pattern(2, off, rng)
					for _, b := range pre {
						s.WriteBit(b)
					}
					var err error
					ok := guard("WriteBig", wit, func() {
						if signed {
							err = s.WriteBigInt(v, n)
						} else {
							err = s.WriteBigUint(v, n)
						}
					})
					if !ok {
						continue
					}
					R.Eval(fmt.Sprintf("big/%d/%d/%v/%d", n, off, signed, vi))
					if err != nil {
						wit["err"] = err.Error()
						viol("error@WriteBig/in-range-value", wit)
						continue
					}
					want := append(append([]bool{}, pre...), rb.BigBits(v, n)...)
					if !rb.Equal(realBits(&s), want) {
						wit["got"], wit["want"] = rb.String(realBits(&s)), rb.String(want)
						viol("bits-mismatch@WriteBig/"+sgn(signed), wit)
						continue
					}
					s.WriteBit(true) // something after the number
					s.ResetCounter()
					s.Skip(off)
					var got *big.Int
					if !guard("ReadBig", wit, func() {
						if signed {
							got, err = s.ReadBigInt(n)
						} else {
							got, err = s.ReadBigUint(n)
						}
					}) {
						continue
					}
					cls := "aligned-width"
					if (signed && (n-1)%8 != 0) || (!signed && n%8 != 0) {
						cls = "unaligned-width"
					}
					if err != nil {
						wit["err"] = err.Error()
						viol("error@ReadBig/"+sgn(signed), wit)
					} else if got.Cmp(v) != 0 {
						wit["got"] = got.String()
						viol("value-mismatch@ReadBig/"+sgn(signed)+"/"+cls, wit)
					} else if s.BitsAvailableForRead() != 1 {
						viol("cursor-mismatch@ReadBig/"+sgn(signed), wit)
					}
				}
			}
			// read past the end must fail
			s := bsOf(pattern(0, off+n-1, nil), off+n-1)
			s.Skip(off)
			var err error
			wit := map[string]any{"width": n, "offset": off, "len": off + n - 1}
			if guard("ReadBigUint-short", wit, func() { _, err = s.ReadBigUint(n) }) && err == nil {
				viol("no-error@ReadBigUint/short", wit)
			}
			s.ResetCounter()
			s.Skip(off)
			if guard("ReadBigInt-short", wit, func() { _, err = s.ReadBigInt(n) }) && err == nil {
				viol("no-error@ReadBigInt/short", wit)
			}
			R.Eval("")
		}
	}
}

func sgn(s bool) string {
	if s {
		return "signed"
	}
	return "unsigned"
}
func b2i(b bool) int {
	if b {
		return 1
	}
	return 0
}

// ---------------------------------------------------------------- D: integer writers at every alignment

func sectionWriteInts() {
	for pre := 0; pre < 8; pre++ {
		for w := 0; w <= 64; w++ {
			rng := R.Rng("wint", pre*65+w)
			var uvals []uint64
			max := ^uint64(0)
			if w < 64 {
				max = (uint64(1) << uint(w)) - 1
			}
			uvals = append(uvals, 0, max, max>>1, rng.Uint64()&max)
			if w > 0 {
				uvals = append(uvals, 1, uint64(1)<<uint(w-1))
			}
			for _, v := range uvals {
				s := boc.NewBitString(pre + w + 1)
				p := pattern(2, pre, rng)
				for _, b := range p {
					s.WriteBit(b)
				}
				wit := map[string]any{"prefix": pre, "width": w, "value": v}
				var err error
				if !guard("WriteUint", wit, func() { err = s.WriteUint(v, w) }) {
					continue
				}
				R.Eval(fmt.Sprintf("WU/%d/%d/%d", pre, w, v))
				want := append(append([]bool{}, p...), rb.UintBits(v, w)...)
				if err != nil || !rb.Equal(realBits(&s), want) {
					wit["err"] = fmt.Sprint(err)
					viol("mismatch@WriteUint", wit)
					continue
				}
				s.Skip(pre)
				got, err := s.ReadUint(w)
				if err != nil || got != v {
					wit["got"] = got
					viol("roundtrip@WriteUint/ReadUint", wit)
				}
			}
			if w == 0 {
				continue
			}
			var ivals []int64
			imin := int64(-1) << uint(w-1)
			imax := -(imin + 1)
			ivals = append(ivals, 0, -1, imin, imax)
			if w > 1 {
				r := int64(rng.Uint64() & uint64(imax))
				ivals = append(ivals, 1, imin+1, imax-1, r, -r-1)
			}
			for _, v := range ivals {
				if w == 1 && v != 0 && v != -1 {
					continue
				}
				s := boc.NewBitString(pre + w + 1)
				p := pattern(2, pre, rng)
				for _, b := range p {
					s.WriteBit(b)
				}
				wit := map[string]any{"prefix": pre, "width": w, "value": v}
				var err error
				if !guard("WriteInt", wit, func() { err = s.WriteInt(v, w) }) {
					continue
				}
				R.Eval(fmt.Sprintf("WI/%d/%d/%d", pre, w, v))
				want := append(append([]bool{}, p...), rb.IntBits(v, w)...)
				if err != nil || !rb.Equal(realBits(&s), want) {
					wit["err"] = fmt.Sprint(err)
					wit["got"], wit["want"] = rb.String(realBits(&s)), rb.String(want)
					viol("mismatch@WriteInt", wit)
					continue
				}
				s.Skip(pre)
				got, err := s.ReadInt(w)
				if err != nil || got != v {
					wit["got"] = got
					viol("roundtrip@WriteInt/ReadInt", wit)
				}
			}
		}
	}
}

// ---------------------------------------------------------------- E: unary and bounded integers

func sectionUnaryLim() {
	for n := 0; n <= 1022; n++ {
		for _, pre := range []int{0, 1, 5} {
			if pre+n+1 > 1023 {
				continue
			}
			s := boc.NewBitString(1023)
			for i := 0; i < pre; i++ {
				s.WriteBit(true)
			}
			wit := map[string]any{"n": n, "prefix": pre}
			var err error
			if !guard("WriteUnary", wit, func() { err = s.WriteUnary(uint(n)) }) {
				continue
			}
			R.Eval(fmt.Sprintf("unary/%d/%d", n, pre))
			want := append(pattern(0, pre, nil), rb.UnaryBits(n)...)
			if err != nil || !rb.Equal(realBits(&s), want) {
				viol("mismatch@WriteUnary", wit)
				continue
			}
			// pre ones + n ones + zero: reading unary from 0 gives pre+n
			var got uint
			if guard("ReadUnary", wit, func() { got, err = s.ReadUnary() }) {
				if err != nil || int(got) != pre+n || s.BitsAvailableForRead() != 0 {
					wit["got"] = got
					viol("mismatch@ReadUnary", wit)
				}
			}
		}
	}
	// unterminated unary must fail
	for _, L := range []int{0, 1, 63, 64, 1023} {
		s := bsOf(pattern(0, L, nil), L)
		var err error
		wit := map[string]any{"len": L}
		if guard("ReadUnary-unterminated", wit, func() { _, err = s.ReadUnary() }) && err == nil {
			viol("no-error@ReadUnary/unterminated", wit)
		}
		R.Eval("")
	}
	// #<= n
	var ns []uint64
	for k := 0; k < 63; k++ {
		p := uint64(1) << uint(k)
		ns = append(ns, p-1, p, p+1)
	}
	ns = append(ns, 0, 3, 5, 6, 100, 1000, 1<<62+12345)
	for _, n := range ns {
		if n > 1<<62+12345 {
			continue
		}
		w := rb.LimWidth(n)
		rng := R.Rng("lim", int(n%100000))
		for _, v := range []uint64{0, n, n / 2, rng.Uint64() % (n + 1)} {
			s := boc.NewBitString(80)
			s.WriteBit(true)
			wit := map[string]any{"n": n, "value": v, "width": w}
			var err error
			if !guard("WriteLimUint", wit, func() { err = s.WriteLimUint(int(v), int(n)) }) {
				continue
			}
			R.Eval(fmt.Sprintf("lim/%d/%d", n, v))
			want := append([]bool{true}, rb.UintBits(v, w)...)
			if err != nil || !rb.Equal(realBits(&s), want) {
				wit["got"], wit["want"] = rb.String(realBits(&s)), rb.String(want)
				viol("mismatch@WriteLimUint", wit)
				continue
			}
			s.Skip(1)
			var got uint
			if guard("ReadLimUint", wit, func() { got, err = s.ReadLimUint(int(n)) }) {
				if err != nil || uint64(got) != v || s.BitsAvailableForRead() != 0 {
					wit["got"] = got
					viol("mismatch@ReadLimUint", wit)
				}
			}
		}
	}
}

// ---------------------------------------------------------------- F: random write sequences then random reads

type target struct {
	name string
	bs   *boc.BitString // when the target is a bare bit string
	cell *boc.Cell      // when the target is a cell
}

func (t *target) bitString() *boc.BitString {
	if t.cell != nil {
		x := t.cell.RawBitString()
		return &x
	}
	return t.bs
}

func newTarget(kind int, capacity int) *target {
	switch kind {
	case 0:
		s := boc.NewBitString(capacity)
		return &target{name: "BitString", bs: &s}
	case 1:
		return &target{name: "Cell", cell: boc.NewCell()}
	default:
		// a cell obtained from DeserializeBoc advertises capacity 1023
		src := boc.NewCell()
		b, err := src.ToBoc()
		if err != nil {
			R.HarnessError("ToBoc of empty cell: %v", err)
			return &target{name: "Cell", cell: boc.NewCell()}
		}
		cs, err := boc.DeserializeBoc(b)
		if err != nil || len(cs) != 1 {
			R.HarnessError("DeserializeBoc of empty cell: %v", err)
			return &target{name: "Cell", cell: boc.NewCell()}
		}
		return &target{name: "ParsedCell", cell: cs[0]}
	}
}

type wop struct {
	Op   string `json:"op"`
	N    int    `json:"n,omitempty"`
	U    uint64 `json:"u,omitempty"`
	I    int64  `json:"i,omitempty"`
	Big  string `json:"big,omitempty"`
	Bits string `json:"bits,omitempty"`
}

func genWrite(rng *mon.Rng) (wop, []bool) {
	switch rng.Intn(13) {
	case 11:
		// a nested bit string that its owner has partly read already: its value is still all of its bits
		bits := rng.Bits(rng.Range(1, 90))
		return wop{Op: "WriteBitString(partly-read)", Bits: rb.String(bits), N: rng.Range(1, len(bits))}, bits
	case 12:
		bits := rng.Bits(rng.Range(1, 90))
		return wop{Op: "Append(partly-read)", Bits: rb.String(bits), N: rng.Intn(len(bits) + 1)}, bits
	case 0:
		b := rng.Bool()
		return wop{Op: "WriteBit", N: b2i(b)}, []bool{b}
	case 1:
		w := rng.Intn(65)
		v := rng.Uint64()
		if w < 64 {
			v &= (uint64(1) << uint(w)) - 1
		}
		return wop{Op: "WriteUint", N: w, U: v}, rb.UintBits(v, w)
	case 2:
		w := rng.Range(1, 64)
		v := int64(rng.Uint64())
		if w < 64 {
			v >>= uint(64 - w) // arithmetic shift keeps it in range
		}
		return wop{Op: "WriteInt", N: w, I: v}, rb.IntBits(v, w)
	case 3:
		w := rng.Range(1, 257)
		v := rng.BigBits(w)
		return wop{Op: "WriteBigUint", N: w, Big: v.String()}, rb.BigBits(v, w)
	case 4:
		w := rng.Range(1, 257)
		v := rng.BigBits(w - 1)
		if rng.Bool() {
			v.Neg(v)
			v.Sub(v, big.NewInt(1))
		}
		return wop{Op: "WriteBigInt", N: w, Big: v.String()}, rb.BigBits(v, w)
	case 5:
		b := rng.Bytes(rng.Intn(20))
		return wop{Op: "WriteBytes", Bits: mon.Hex(b)}, rb.BytesBits(b)
	case 6:
		n := rng.Intn(70)
		return wop{Op: "WriteUnary", N: n}, rb.UnaryBits(n)
	case 7:
		n := rng.Uint64() >> uint(rng.Range(2, 63))
		v := rng.Uint64() % (n + 1)
		return wop{Op: "WriteLimUint", N: int(n), U: v}, rb.UintBits(v, rb.LimWidth(n))
	case 8:
		bits := rng.Bits(rng.Intn(130))
		return wop{Op: "WriteBitString", Bits: rb.String(bits)}, bits
	case 9:
		bits := rng.Bits(rng.Intn(40))
		return wop{Op: "WriteBitArray", Bits: rb.String(bits)}, bits
	default:
		// nested bit string obtained by ReadBits at an unaligned cursor of another string
		bits := rng.Bits(rng.Range(1, 90))
		return wop{Op: "WriteBitString(ReadBits)", Bits: rb.String(bits), N: rng.Range(1, 7)}, bits
	}
}

func applyWrite(t *target, o wop, bitsv []bool) (err error) {
	bigv := func() *big.Int { v, _ := new(big.Int).SetString(o.Big, 10); return v }
	if t.cell != nil {
		c := t.cell
		switch o.Op {
		case "WriteBit":
			return c.WriteBit(o.N == 1)
		case "WriteUint":
			return c.WriteUint(o.U, o.N)
		case "WriteInt":
			return c.WriteInt(o.I, o.N)
		case "WriteBigUint":
			return c.WriteBigUint(bigv(), o.N)
		case "WriteBigInt":
			return c.WriteBigInt(bigv(), o.N)
		case "WriteBytes":
			return c.WriteBytes(rb.ToBytes(bitsv))
		case "WriteUnary":
			return c.WriteUnary(uint(o.N))
		case "WriteLimUint":
			return c.WriteLimUint(int(o.U), o.N)
		case "WriteBitString", "WriteBitArray":
			return c.WriteBitString(*bsOf(bitsv, len(bitsv)))
		case "WriteBitString(partly-read)", "Append(partly-read)":
			return c.WriteBitString(partlyRead(bitsv, o.N))
		default:
			return c.WriteBitString(nested(bitsv, o.N))
		}
	}
	s := t.bs
	switch o.Op {
	case "WriteBit":
		return s.WriteBit(o.N == 1)
	case "WriteUint":
		return s.WriteUint(o.U, o.N)
	case "WriteInt":
		return s.WriteInt(o.I, o.N)
	case "WriteBigUint":
		return s.WriteBigUint(bigv(), o.N)
	case "WriteBigInt":
		return s.WriteBigInt(bigv(), o.N)
	case "WriteBytes":
		return s.WriteBytes(rb.ToBytes(bitsv))
	case "WriteUnary":
		return s.WriteUnary(uint(o.N))
	case "WriteLimUint":
		return s.WriteLimUint(int(o.U), o.N)
	case "WriteBitString":
		return s.WriteBitString(*bsOf(bitsv, len(bitsv)))
	case "WriteBitArray":
		return s.WriteBitArray(bitsv)
	case "WriteBitString(partly-read)":
		return s.WriteBitString(partlyRead(bitsv, o.N))
	case "Append(partly-read)":
		if len(bitsv) > s.BitsAvailableForWrite() {
			// Append would grow the target; the capacity rule is judged through WriteBitString
			return s.WriteBitString(partlyRead(bitsv, o.N))
		}
		s.Append(partlyRead(bitsv, o.N))
		return nil
	default:
		return s.WriteBitString(nested(bitsv, o.N))
	}
}

// partlyRead returns a BitString holding bitsv whose read cursor stands at k
// (its owner has consumed a prefix, the way a decoder peels a tag off).
func partlyRead(bitsv []bool, k int) boc.BitString {
	s := bsOf(bitsv, len(bitsv))
	for i := 0; i < k; i++ {
		if _, err := s.ReadBit(); err != nil {
			R.HarnessError("partlyRead fixture: %v", err)
		}
	}
	return *s
}

// nested returns a BitString holding bitsv that was produced by ReadBits at
// cursor `skip` of a longer string (so it went through the reader paths).
func nested(bitsv []bool, skip int) boc.BitString {
	all := append(pattern(0, skip, nil), bitsv...)
	all = append(all, true, true, true)
	s := bsOf(all, len(all))
	s.Skip(skip)
	sub, err := s.ReadBits(len(bitsv))
	if err != nil {
		R.HarnessError("nested fixture: %v", err)
	}
	return sub
}

func sectionRandom() {
	nseq := R.N(6000, 2000000)
	var wg sync.WaitGroup
	var next int64 = -1
	for g := 0; g < 16; g++ {
		wg.Add(1)
		go func() {
			defer wg.Done()
			for {
				i := int(atomic.AddInt64(&next, 1))
				if i >= nseq {
					return
				}
				randomSequence(i)
			}
		}()
	}
	wg.Wait()
}

func randomSequence(i int) {
	{
		rng := R.Rng("seq", i)
		kind := rng.Intn(3)
		capacity := 1023
		if kind == 0 {
			capacity = mon.Pick(rng, []int{1023, 1023, 512, 64, 100, 7, 8, 9})
		}
		t := newTarget(kind, capacity)
		model := rb.New(capacity)
		var trace []wop
		nw := rng.Range(1, 60)
		overflowed := false
		for k := 0; k < nw && !overflowed; k++ {
			o, bitsv := genWrite(rng)
			trace = append(trace, o)
			before := model.Len()
			fits := model.Room() >= len(bitsv)
			var err error
			wit := map[string]any{"target": t.name, "capacity": capacity, "ops": trace, "seq": i}
			if !guard(o.Op, wit, func() { err = applyWrite(t, o, bitsv) }) {
				overflowed = true
				break
			}
			if fits {
				model.WriteBits(bitsv)
				if err != nil {
					wit["err"] = err.Error()
					viol("error@"+o.Op+"/fits/"+t.name, wit)
					overflowed = true
					break
				}
				if room, wc := roomOf(t), t.bitString().GetWriteCursor(); room != model.Room() || wc != model.Len() {
					wit["available_for_write"], wit["write_cursor"], wit["want_room"], wit["want_len"] = room, wc, model.Room(), model.Len()
					viol("capacity-mismatch@"+o.Op+"/"+t.name, wit)
					overflowed = true
					break
				}
			} else {
				overflowed = true
				R.Count("overflow_writes", 1)
				if err == nil {
					viol("no-error@"+o.Op+"/overflow/"+t.name, wit)
				}
				// previously written data must be intact
				got := realBits(t.bitString())
				if len(got) < before || !rb.Equal(got[:before], model.B[:before]) {
					viol("prefix-corrupted@"+o.Op+"/overflow/"+t.name, wit)
				}
				break
			}
		}
		got := realBits(t.bitString())
		if !overflowed {
			if !rb.Equal(got, model.B) {
				viol("content-mismatch@write-sequence/"+t.name, map[string]any{"seq": i, "ops": trace,
					"got": rb.String(got), "want": rb.String(model.B)})
				R.Eval("")
				return
			}
		} else {
			// continue the read phase on what is actually there, as long as the prefix was fine
			model = rb.FromBools(got)
		}
		R.Eval(fmt.Sprintf("seq/%d", i))
		if i < 2 {
			R.Sample(map[string]any{"kind": "write-sequence", "target": t.name, "ops": trace, "bits": len(model.B)})
		}
		readPhase(t, model, rng, i, trace)
	}
}

func readPhase(t *target, model *rb.List, rng *mon.Rng, seq int, wtrace []wop) {
	var s *boc.BitString
	if t.cell != nil {
		// Cell methods forward to the embedded bit string; exercise through the cell
		t.cell.ResetCounters()
	} else {
		s = t.bs
		s.ResetCounter()
	}
	model.Reset()
	nr := rng.Range(1, 80)
	var rtrace []string
	for k := 0; k < nr; k++ {
		op := rng.Intn(15)
		avail := model.Avail()
		// choose a width mostly within range, sometimes beyond
		width := func(max int) int {
			if rng.Chance(1, 12) {
				return rng.Intn(max + 1)
			}
			m := max
			if avail < m {
				m = avail
			}
			return rng.Intn(m + 1)
		}
		wit := map[string]any{"seq": seq, "target": t.name, "writes": wtrace, "reads": rtrace, "cursor": model.Cur, "len": model.Len()}
		mismatch := func(name string) {
			wit["reads"] = append(rtrace, name)
			viol("mismatch@"+name+"/sequence", wit)
		}
		var err error
		switch op {
		case 0:
			w := width(64)
			rtrace = append(rtrace, fmt.Sprintf("ReadUint(%d)", w))
			var got uint64
			if !guard("ReadUint", wit, func() {
				if t.cell != nil {
					got, err = t.cell.ReadUint(w)
				} else {
					got, err = s.ReadUint(w)
				}
			}) {
				return
			}
			want, merr := model.Take(w)
			if (merr != nil) != (err != nil) || (err == nil && got != rb.ToUint(want)) {
				mismatch("ReadUint")
				return
			}
		case 1:
			w := width(64)
			rtrace = append(rtrace, fmt.Sprintf("PickUint(%d)", w))
			var got uint64
			if !guard("PickUint", wit, func() {
				if t.cell != nil {
					got, err = t.cell.PickUint(w)
				} else {
					got, err = s.PickUint(w)
				}
			}) {
				return
			}
			want, merr := model.Peek(w)
			if (merr != nil) != (err != nil) || (err == nil && got != rb.ToUint(want)) {
				mismatch("PickUint")
				return
			}
		case 2:
			w := width(64)
			if w == 0 {
				w = 1
			}
			rtrace = append(rtrace, fmt.Sprintf("ReadInt(%d)", w))
			var got int64
			if !guard("ReadInt", wit, func() {
				if t.cell != nil {
					got, err = t.cell.ReadInt(w)
				} else {
					got, err = s.ReadInt(w)
				}
			}) {
				return
			}
			want, merr := model.Take(w)
			if (merr != nil) != (err != nil) || (err == nil && got != rb.ToInt(want)) {
				mismatch("ReadInt")
				return
			}
		case 3:
			w := width(257)
			if w == 0 {
				w = 1
			}
			rtrace = append(rtrace, fmt.Sprintf("ReadBigUint(%d)", w))
			var got *big.Int
			if !guard("ReadBigUint", wit, func() {
				if t.cell != nil {
					got, err = t.cell.ReadBigUint(w)
				} else {
					got, err = s.ReadBigUint(w)
				}
			}) {
				return
			}
			want, merr := model.Take(w)
			if (merr != nil) != (err != nil) || (err == nil && got.Cmp(rb.ToBigUint(want)) != 0) {
				mismatch("ReadBigUint")
				return
			}
		case 4:
			w := width(257)
			if w == 0 {
				w = 1
			}
			rtrace = append(rtrace, fmt.Sprintf("ReadBigInt(%d)", w))
			var got *big.Int
			if !guard("ReadBigInt", wit, func() {
				if t.cell != nil {
					got, err = t.cell.ReadBigInt(w)
				} else {
					got, err = s.ReadBigInt(w)
				}
			}) {
				return
			}
			want, merr := model.Take(w)
			if (merr != nil) != (err != nil) || (err == nil && got.Cmp(rb.ToBigInt(want)) != 0) {
				mismatch("ReadBigInt")
				return
			}
		case 5:
			w := width(40)
			rtrace = append(rtrace, fmt.Sprintf("ReadBytes(%d)", w))
			var got []byte
			if !guard("ReadBytes", wit, func() {
				if t.cell != nil {
					got, err = t.cell.ReadBytes(w)
				} else {
					got, err = s.ReadBytes(w)
				}
			}) {
				return
			}
			want, merr := model.Take(8 * w)
			if (merr != nil) != (err != nil) || (err == nil && !rb.Equal(rb.BytesBits(got), want)) {
				mismatch("ReadBytes")
				return
			}
		case 6:
			w := width(300)
			if model.Cur%8 == 0 && rng.Chance(1, 3) {
				w = 8 * rng.Intn(avail/8+1) // whole bytes at a byte boundary
			}
			rtrace = append(rtrace, fmt.Sprintf("ReadBits(%d)", w))
			var got boc.BitString
			if !guard("ReadBits", wit, func() {
				if t.cell != nil {
					got, err = t.cell.ReadBits(w)
				} else {
					got, err = s.ReadBits(w)
				}
			}) {
				return
			}
			want, merr := model.Take(w)
			if (merr != nil) != (err != nil) || (err == nil && !rb.Equal(realBits(&got), want)) {
				mismatch("ReadBits")
				return
			}
			if err == nil && rng.Bool() && !mutateAndCompare(t, model, rng, &got, "ReadBits", &rtrace, wit) {
				return
			}
		case 7:
			rtrace = append(rtrace, "ReadBit")
			var got bool
			if !guard("ReadBit", wit, func() {
				if t.cell != nil {
					got, err = t.cell.ReadBit()
				} else {
					got, err = s.ReadBit()
				}
			}) {
				return
			}
			want, merr := model.Take(1)
			if (merr != nil) != (err != nil) || (err == nil && got != want[0]) {
				mismatch("ReadBit")
				return
			}
		case 8:
			w := width(200)
			rtrace = append(rtrace, fmt.Sprintf("Skip(%d)", w))
			if !guard("Skip", wit, func() {
				if t.cell != nil {
					err = t.cell.Skip(w)
				} else {
					err = s.Skip(w)
				}
			}) {
				return
			}
			_, merr := model.Take(w)
			if (merr != nil) != (err != nil) {
				mismatch("Skip")
				return
			}
		case 9:
			rtrace = append(rtrace, "ReadUnary")
			var got uint
			if !guard("ReadUnary", wit, func() {
				if t.cell != nil {
					got, err = t.cell.ReadUnary()
				} else {
					got, err = s.ReadUnary()
				}
			}) {
				return
			}
			save := model.Cur
			want, merr := model.ReadUnary()
			if (merr != nil) != (err != nil) || (err == nil && int(got) != want) {
				mismatch("ReadUnary")
				return
			}
			if merr != nil {
				// a failed unary read consumed the remaining ones in tongo; follow the real cursor
				model.Cur = save
				model.Cur = model.Len() - availOf(t, s)
			}
		case 10:
			n := rng.Uint64() >> uint(rng.Range(8, 63))
			rtrace = append(rtrace, fmt.Sprintf("ReadLimUint(%d)", n))
			var got uint
			if !guard("ReadLimUint", wit, func() {
				if t.cell != nil {
					got, err = t.cell.ReadLimUint(int(n))
				} else {
					got, err = s.ReadLimUint(int(n))
				}
			}) {
				return
			}
			want, merr := model.Take(rb.LimWidth(n))
			if (merr != nil) != (err != nil) || (err == nil && uint64(got) != rb.ToUint(want)) {
				mismatch("ReadLimUint")
				return
			}
		case 11:
			rtrace = append(rtrace, "Reset")
			if t.cell != nil {
				t.cell.ResetCounters()
			} else {
				s.ResetCounter()
			}
			model.Reset()
		case 12:
			rtrace = append(rtrace, "ReadRemainingBits")
			if rng.Chance(3, 4) {
				continue // rarely: it ends the sequence
			}
			var got boc.BitString
			if !guard("ReadRemainingBits", wit, func() {
				if t.cell != nil {
					got = t.cell.ReadRemainingBits()
				} else {
					got = s.ReadRemainingBits()
				}
			}) {
				return
			}
			want, _ := model.Take(model.Avail())
			if !rb.Equal(realBits(&got), want) {
				mismatch("ReadRemainingBits")
				return
			}
			if !mutateAndCompare(t, model, rng, &got, "ReadRemainingBits", &rtrace, wit) {
				return
			}
		case 14:
			// a write in the middle of the reads: the new bits are appended, the read cursor stays, what was
			// written before still reads the same (overflowing writes are the capacity sections' business)
			o, bitsv := genWrite(rng)
			if model.Room() < len(bitsv) {
				continue
			}
			rtrace = append(rtrace, fmt.Sprintf("%s(%d bits)", o.Op, len(bitsv)))
			wit["write"] = o
			if !guard(o.Op, wit, func() { err = applyWrite(t, o, bitsv) }) {
				return
			}
			if err != nil {
				wit["err"] = err.Error()
				viol("error@"+o.Op+"/fits/interleaved/"+t.name, wit)
				return
			}
			model.WriteBits(bitsv)
			if got := realBits(t.bitString()); !rb.Equal(got, model.B) {
				wit["got"], wit["want"] = rb.String(got), rb.String(model.B)
				viol("content-mismatch@interleaved-write/"+t.name, wit)
				return
			}
			R.Count("interleaved_writes", 1)
		case 13:
			if t.cell == nil {
				continue
			}
			rtrace = append(rtrace, "CopyRemaining")
			var c2 *boc.Cell
			if !guard("CopyRemaining", wit, func() { c2 = t.cell.CopyRemaining() }) {
				return
			}
			x := c2.RawBitString()
			if !rb.Equal(realBits(&x), model.Rest()) || t.cell.BitsAvailableForRead() != model.Avail() {
				mismatch("CopyRemaining")
				return
			}
			// writing to the copy is the copy's business
			if guard("write to CopyRemaining()", wit, func() { c2.WriteUint(rng.Uint64(), rng.Intn(17)); c2.AddRef(boc.NewCell()) }) {
				if got := realBits(t.bitString()); !rb.Equal(got, model.B) || t.cell.RefsSize() != 0 {
					wit["reads"] = append(rtrace, "write to the copy")
					viol("source-changed-by-write-to-derived@CopyRemaining/"+t.name, wit)
					return
				}
			}
		}
		// cursor agreement after every step. A failed read must leave the cursor where it was:
		// otherwise the reads that follow no longer return the values written (they come back
		// shifted). The one exception is a failed ReadUnary, which by its nature has consumed the
		// run of ones it could not finish (everything up to the end): only errors can follow, never
		// wrong data; it is handled in its own case above.
		if av := availOf(t, s); av != model.Avail() {
			if err != nil {
				wit["reads"] = rtrace
				wit["available_after_failed_read"], wit["available_before"] = av, model.Avail()
				viol("cursor-moved-by-failed-read@"+lastOp(rtrace), wit)
				return
			}
			mismatch("cursor")
			return
		}
		R.Count("read_ops", 1)
	}
}

func roomOf(t *target) int {
	if t.cell != nil {
		return t.cell.BitsAvailableForWrite()
	}
	return t.bs.BitsAvailableForWrite()
}

func availOf(t *target, s *boc.BitString) int {
	if t.cell != nil {
		return t.cell.BitsAvailableForRead()
	}
	return s.BitsAvailableForRead()
}

// ---------------------------------------------------------------- G: capacity

func sectionCapacity() {
	writers := []string{"WriteBit", "WriteUint", "WriteInt", "WriteBigUint", "WriteBigInt", "WriteBytes", "WriteUnary", "WriteLimUint", "WriteBitString", "WriteBitArray"}
	for kind := 0; kind < 3; kind++ {
		for k := 0; k <= 24; k++ {
			for _, wname := range writers {
				for _, over := range []int{0, 1} { // exactly fits / one bit too many
					need := k + over
					if need == 0 {
						continue
					}
					if wname == "WriteBytes" && need%8 != 0 {
						continue
					}
					if wname == "WriteBit" && need != 1 {
						continue
					}
					if wname == "WriteLimUint" && need > 60 {
						continue
					}
					t := newTarget(kind, 1023)
					rng := R.Rng("cap", kind*1000+k*10+over)
					pre := rng.Bits(1023 - k)
					wit := map[string]any{"target": t.name, "free": k, "write_bits": need, "writer": wname}
					ok := guard("fill", wit, func() {
						var err error
						if t.cell != nil {
							err = t.cell.WriteBitString(*bsOf(pre, len(pre)))
						} else {
							err = t.bs.WriteBitArray(pre)
						}
						if err != nil {
							wit["err"] = err.Error()
							viol("error@fill-within-capacity/"+t.name, wit)
						}
					})
					if !ok {
						continue
					}
					var o wop
					var bitsv []bool
					switch wname {
					case "WriteBit":
						o, bitsv = wop{Op: wname, N: 1}, []bool{true}
					case "WriteUint":
						if need > 64 {
							continue
						}
						v := rng.Uint64() >> uint(64-need)
						o, bitsv = wop{Op: wname, N: need, U: v}, rb.UintBits(v, need)
					case "WriteInt":
						if need > 64 {
							continue
						}
						o, bitsv = wop{Op: wname, N: need, I: -1}, rb.IntBits(-1, need)
					case "WriteBigUint":
						v := rng.BigBits(need)
						o, bitsv = wop{Op: wname, N: need, Big: v.String()}, rb.BigBits(v, need)
					case "WriteBigInt":
						v := big.NewInt(-1)
						o, bitsv = wop{Op: wname, N: need, Big: v.String()}, rb.BigBits(v, need)
					case "WriteBytes":
						b := rng.Bytes(need / 8)
						o, bitsv = wop{Op: wname}, rb.BytesBits(b)
					case "WriteUnary":
						o, bitsv = wop{Op: wname, N: need - 1}, rb.UnaryBits(need-1)
					case "WriteLimUint":
						n := (uint64(1) << uint(need)) - 1
						v := rng.Uint64() % (n + 1)
						o, bitsv = wop{Op: wname, N: int(n), U: v}, rb.UintBits(v, need)
					default:
						bitsv = rng.Bits(need)
						o = wop{Op: wname}
					}
					var err error
					if !guard(wname, wit, func() { err = applyWrite(t, o, bitsv) }) {
						continue
					}
					R.Eval(fmt.Sprintf("cap/%s/%s/%d/%d", t.name, wname, k, over))
					got := realBits(t.bitString())
					if over == 0 {
						if err != nil {
							wit["err"] = err.Error()
							viol("error@"+wname+"/exactly-fits/"+t.name, wit)
						} else if !rb.Equal(got, append(append([]bool{}, pre...), bitsv...)) {
							viol("content-mismatch@"+wname+"/exactly-fits/"+t.name, wit)
						}
					} else {
						if err == nil {
							viol("no-error@"+wname+"/overflow/"+t.name, wit)
						}
						if len(got) < len(pre) || !rb.Equal(got[:len(pre)], pre) {
							viol("prefix-corrupted@"+wname+"/overflow/"+t.name, wit)
						}
					}
				}
			}
		}
	}
	// references
	for kind := 1; kind < 3; kind++ {
		t := newTarget(kind, 1023)
		c := t.cell
		var kids []*boc.Cell
		for i := 0; i < 4; i++ {
			k := boc.NewCell()
			k.WriteUint(uint64(i), 8)
			kids = append(kids, k)
			if err := c.AddRef(k); err != nil {
				viol("error@AddRef/within-4/"+t.name, map[string]any{"i": i, "err": err.Error()})
			}
		}
		if err := c.AddRef(boc.NewCell()); err == nil {
			viol("no-error@AddRef/5th/"+t.name, map[string]any{})
		}
		if c.RefsSize() != 4 {
			viol("refs-corrupted@AddRef/5th/"+t.name, map[string]any{"refs": c.RefsSize()})
		}
		for i := 0; i < 4; i++ {
			r, err := c.NextRef()
			if err != nil || r != kids[i] {
				viol("mismatch@NextRef/"+t.name, map[string]any{"i": i, "err": fmt.Sprint(err)})
			}
		}
		wit := map[string]any{"target": t.name}
		guard("NextRef-past-end", wit, func() {
			if _, err := c.NextRef(); err == nil {
				viol("no-error@NextRef/past-end/"+t.name, wit)
			}
		})
		R.Eval("refs/" + t.name)
		// fewer than 4 refs: NextRef past the last one
		for n := 0; n < 4; n++ {
			c := boc.NewCell()
			for i := 0; i < n; i++ {
				c.AddRef(boc.NewCell())
			}
			for i := 0; i < n; i++ {
				if _, err := c.NextRef(); err != nil {
					viol("error@NextRef/present", map[string]any{"n": n, "i": i})
				}
			}
			if _, err := c.NextRef(); err == nil {
				viol("no-error@NextRef/past-end", map[string]any{"n": n})
			}
			R.Eval(fmt.Sprintf("refs-n/%d", n))
		}
	}
	// CopyRemaining with refs at random cursors
	for i := 0; i < R.N(300, 5000); i++ {
		rng := R.Rng("copyrem", i)
		c := boc.NewCell()
		bitsv := rng.Bits(rng.Intn(1024))
		c.WriteBitString(*bsOf(bitsv, len(bitsv)))
		nrefs := rng.Intn(5)
		var kids []*boc.Cell
		for k := 0; k < nrefs; k++ {
			kid := boc.NewCell()
			kid.WriteUint(uint64(k), 8)
			kids = append(kids, kid)
			c.AddRef(kid)
		}
		cur := rng.Intn(len(bitsv) + 1)
		rc := rng.Intn(nrefs + 1)
		c.Skip(cur)
		for k := 0; k < rc; k++ {
			c.NextRef()
		}
		wit := map[string]any{"len": len(bitsv), "cursor": cur, "refs": nrefs, "refcursor": rc}
		var c2 *boc.Cell
		if !guard("CopyRemaining", wit, func() { c2 = c.CopyRemaining() }) {
			continue
		}
		R.Eval(fmt.Sprintf("copyrem/%d/%d/%d", cur%8, nrefs, rc))
		x := c2.RawBitString()
		okRefs := c2.RefsSize() == nrefs-rc
		for k, r := range c2.Refs() {
			if rc+k >= len(kids) || r != kids[rc+k] {
				okRefs = false
			}
		}
		if !rb.Equal(realBits(&x), bitsv[cur:]) || !okRefs || c.BitsAvailableForRead() != len(bitsv)-cur || c.RefsAvailableForRead() != nrefs-rc {
			viol("mismatch@CopyRemaining", wit)
		}
	}
}

// ---------------------------------------------------------------- I: Fift hex and JSON text form

func sectionFift() {
	for L := 0; L <= 1023; L++ {
		for pk := 0; pk < 4; pk++ {
			var bitsv []bool
			if pk == 3 {
				bitsv = make([]bool, L) // zeros
			} else {
				bitsv = pattern(pk, L, R.Rng("fift", L*4+pk))
			}
			s := bsOf(bitsv, L)
			wit := map[string]any{"len": L, "pattern": pk}
			var hx string
			if !guard("ToFiftHex", wit, func() { hx = s.ToFiftHex() }) {
				continue
			}
			R.Eval(fmt.Sprintf("fift/%d/%d", L, pk))
			if want := rb.FiftHex(bitsv); hx != want {
				wit["got"], wit["want"] = mon.Trunc(hx, 80), mon.Trunc(want, 80)
				viol("mismatch@ToFiftHex", wit)
			}
			var back *boc.BitString
			var err error
			if !guard("BitStringFromFiftHex", wit, func() { back, err = boc.BitStringFromFiftHex(hx) }) {
				continue
			}
			if err != nil || back == nil || !rb.Equal(realBits(back), bitsv) {
				wit["err"] = fmt.Sprint(err)
				viol("roundtrip@FiftHex", wit)
			}
			// JSON form
			if L%7 == 0 || R.Thorough() {
				var js []byte
				if guard("BitString.MarshalJSON", wit, func() { js, err = json.Marshal(*s) }) {
					var s2 boc.BitString
					if err != nil || !json.Valid(js) {
						viol("invalid-json@BitString", wit)
					} else if guard("BitString.UnmarshalJSON", wit, func() { err = json.Unmarshal(js, &s2) }) {
						if err != nil || !rb.Equal(realBits(&s2), bitsv) {
							viol("roundtrip@BitString.JSON", wit)
						}
					}
				}
			}
			// a string read from the middle of another one prints the same
			if L > 0 && L < 1000 {
				sub := nested(bitsv, 1+L%7)
				if guard("ToFiftHex(nested)", wit, func() { hx = sub.ToFiftHex() }) {
					if hx != rb.FiftHex(bitsv) {
						viol("mismatch@ToFiftHex/nested", wit)
					}
				}
				sub = alignedSub(bitsv)
				if guard("ToFiftHex(aligned-sub)", wit, func() { hx = sub.ToFiftHex() }) {
					if hx != rb.FiftHex(bitsv) {
						viol("mismatch@ToFiftHex/aligned-sub", wit)
					}
				}
			}
		}
	}
}

// alignedSub returns bitsv as produced by ReadBits at an aligned cursor of a
// string that continues with ones (the byte-copy fast path).
func alignedSub(bitsv []bool) boc.BitString {
	all := append(append([]bool{}, bitsv...), pattern(0, 16, nil)...)
	s := bsOf(all, len(all))
	sub, err := s.ReadBits(len(bitsv))
	if err != nil {
		R.HarnessError("alignedSub: %v", err)
	}
	return sub
}

func main() {
	tier := "quick"
	if len(os.Args) > 1 {
		tier = os.Args[1]
	}
	R = mon.Start("C06", tier)
	R.Rule = "lock-step of boc.BitString/boc.Cell against an ideal []bool model; exhaustive (offset x width x pattern) for ReadUint/PickUint/ReadInt, every offset for byte/bit readers, every big-int width 1..257 x offset 0..7 x boundary values, every writer at every alignment, capacity seams, random write-then-read sequences (with further writes in between the reads) on bare strings, fresh cells and cells parsed from a BOC; random sequences of AddRef/NewRef/NextRef/ResetCounters/CopyRemaining/Refs on built and parsed cells against a slot list with a cursor; Grow and Append beyond the capacity (content, read-back, capacity after Grow); values handed out by ReadBits / ReadRemainingBits / CopyRemaining / Copy are written to (Append, Grow+WriteBit, On/Off) and the source must still hold and read what was written (every offset 0..71 x width 0..72 plus inside the random sequences); sequences that start from a string parsed from Fift hex / JSON (tagged and untagged lengths 0..72 and up to 1023), handed out by ReadBits / ReadRemainingBits / Copy, poked with On beyond its length, or from a cell parsed with content: enlarged with Grow / Append, written to zeros first through every writer, then random writes, read back raw, by ReadUint, ReadBits and as Fift hex; a case is non-trivial when it executed at least one tongo operation whose result was compared with the model; distinct = distinct (operation, length, offset, width, pattern/value) tuples or distinct sequence seeds"
	R.Assume("the ideal model (harness/ref/bits, a []bool and a cursor) is correct")
	R.Assume("values that do not fit the requested width, negative widths and widths > 64 (> 257 for big ints), zero-width signed/big integers are outside the stated domain and not generated")
	R.Assume("after an overflowing write only the previously written prefix is compared (the statement promises nothing about the partial tail)")
	sectionReadUint()
	sectionReadBytes()
	sectionBig()
	sectionWriteInts()
	sectionUnaryLim()
	sectionRandom()
	sectionCapacity()
	sectionRefSequences()
	sectionGrow()
	sectionMutateDerived()
	sectionStartFromDerived()
	sectionFift()
	R.Sample(map[string]any{"kind": "exhaustive-read", "example": "len=1023 offset=57 width=57 pattern=random -> ReadUint/PickUint/ReadInt vs model"})
	os.Exit(R.Finish())
}

func lastOp(trace []string) string {
	if len(trace) == 0 {
		return "?"
	}
	op := trace[len(trace)-1]
	for i := 0; i < len(op); i++ {
		if op[i] == '(' {
			return op[:i]
		}
	}
	return op
}
