// C06, additions: the reference slots of a cell as an operation SEQUENCE
// (AddRef / NewRef / NextRef / ResetCounters / CopyRemaining in any order,
// on built and on parsed cells), and bit strings that grow (Grow, Append
// beyond the capacity).
package main

import (
	"fmt"

	"github.com/tonkeeper/tongo/boc"

	"verifharness/mon"
	rb "verifharness/ref/bits"
)

// ---------------------------------------------------------------- J: reference slots and the reference cursor

// kidID is what a child cell made by newKid holds (32 bits), -1 for anything else.
func kidID(c *boc.Cell) int64 {
	if c == nil {
		return -1
	}
	x := c.RawBitString()
	b := realBits(&x)
	if len(b) != 32 {
		return -1
	}
	return int64(rb.ToUint(b))
}

func newKid(id int64) *boc.Cell {
	k := boc.NewCell()
	if err := k.WriteUint(uint64(id), 32); err != nil {
		R.HarnessError("cannot build a child cell: %v", err)
	}
	return k
}

func sectionRefSequences() {
	n := R.N(3000, 200000)
	opsSeen := map[string]int64{}
	for i := 0; i < n; i++ {
		rng := R.Rng("refseq", i)
		// model: the ids of the children in slot order, the reference cursor, and the bits with their cursor
		var ids []int64
		cur := 0
		bitsv := rng.Bits(rng.Intn(200))
		bits := rb.FromBools(bitsv)
		nextID := int64(1000 * (i%1000 + 1))
		c := boc.NewCell()
		if err := c.WriteBitString(*bsOf(bitsv, len(bitsv))); err != nil {
			R.HarnessError("refseq fixture: %v", err)
			return
		}
		start := rng.Intn(5)
		for k := 0; k < start; k++ {
			c.AddRef(newKid(nextID))
			ids = append(ids, nextID)
			nextID++
		}
		name := "Cell"
		if rng.Chance(1, 3) {
			// the same cell after a trip through a BOC
			b, err := c.ToBoc()
			var cs []*boc.Cell
			if err == nil {
				cs, err = boc.DeserializeBoc(b)
			}
			if err != nil || len(cs) != 1 {
				R.HarnessError("refseq: cannot pass a cell through a BOC: %v", err)
				return
			}
			c, name = cs[0], "ParsedCell"
		}
		var trace []string
		wit := func() map[string]any {
			return map[string]any{"seq": i, "target": name, "initial_refs": start, "ops": trace, "model_refs": len(ids), "model_ref_cursor": cur}
		}
		bad := func(sig string, extra string) {
			w := wit()
			w["detail"] = extra
			viol(sig+"/"+name, w)
		}
		nops := rng.Range(1, 30)
		ok := true
		for k := 0; k < nops && ok; k++ {
			op := rng.Intn(9)
			switch op {
			case 0, 1: // NextRef
				trace = append(trace, "NextRef")
				var r *boc.Cell
				var err error
				if !guard("NextRef", wit(), func() { r, err = c.NextRef() }) {
					ok = false
					break
				}
				if cur >= len(ids) {
					if err == nil {
						bad("no-error@NextRef/past-end/sequence", "")
						ok = false
					}
				} else {
					if err != nil || kidID(r) != ids[cur] {
						bad("mismatch@NextRef/sequence", fmt.Sprintf("err=%v got child %d, want %d", err, kidID(r), ids[cur]))
						ok = false
					}
					cur++
				}
			case 2: // AddRef
				trace = append(trace, "AddRef")
				kid := newKid(nextID)
				var err error
				if !guard("AddRef", wit(), func() { err = c.AddRef(kid) }) {
					ok = false
					break
				}
				if len(ids) >= 4 {
					if err == nil {
						bad("no-error@AddRef/5th/sequence", "")
						ok = false
					}
				} else {
					if err != nil {
						bad("error@AddRef/within-4/sequence", err.Error())
						ok = false
					}
					ids = append(ids, nextID)
				}
				nextID++
			case 3: // NewRef
				trace = append(trace, "NewRef")
				var kid *boc.Cell
				var err error
				if !guard("NewRef", wit(), func() { kid, err = c.NewRef() }) {
					ok = false
					break
				}
				if len(ids) >= 4 {
					if err == nil {
						bad("no-error@NewRef/5th/sequence", "")
						ok = false
					}
				} else {
					if err != nil || kid == nil {
						bad("error@NewRef/within-4/sequence", fmt.Sprint(err))
						ok = false
						break
					}
					// the new child is writable and is the cell in the new slot
					if werr := kid.WriteUint(uint64(nextID), 32); werr != nil {
						bad("error@NewRef/child-not-writable/sequence", werr.Error())
						ok = false
					}
					ids = append(ids, nextID)
				}
				nextID++
			case 4: // ResetCounters rewinds both cursors
				trace = append(trace, "ResetCounters")
				c.ResetCounters()
				cur = 0
				bits.Reset()
			case 5: // CopyRemaining: the unread bits and the unread references, the source keeps its cursors
				trace = append(trace, "CopyRemaining")
				var c2 *boc.Cell
				if !guard("CopyRemaining", wit(), func() { c2 = c.CopyRemaining() }) {
					ok = false
					break
				}
				x := c2.RawBitString()
				good := rb.Equal(realBits(&x), bits.Rest()) && c2.RefsSize() == len(ids)-cur
				for j, r := range c2.Refs() {
					if cur+j >= len(ids) || kidID(r) != ids[cur+j] {
						good = false
					}
				}
				// the copy reads like a fresh cell holding the rest
				for j := cur; good && j < len(ids); j++ {
					r, err := c2.NextRef()
					if err != nil || kidID(r) != ids[j] {
						good = false
					}
				}
				if _, err := c2.NextRef(); good && err == nil {
					good = false
				}
				if !good {
					bad("mismatch@CopyRemaining/sequence", "")
					ok = false
				}
			case 6: // some bits are read in between
				w := rng.Intn(20)
				trace = append(trace, fmt.Sprintf("ReadUint(%d)", w))
				got, err := c.ReadUint(w)
				want, merr := bits.Take(w)
				if (merr != nil) != (err != nil) || (err == nil && got != rb.ToUint(want)) {
					bad("mismatch@ReadUint/ref-sequence", "")
					ok = false
				}
			case 7: // Refs() / RefsSize() list all slots whatever the cursor
				trace = append(trace, "Refs")
				rs := c.Refs()
				good := len(rs) == len(ids) && c.RefsSize() == len(ids)
				for j := range rs {
					if j < len(ids) && kidID(rs[j]) != ids[j] {
						good = false
					}
				}
				if !good {
					bad("mismatch@Refs/sequence", fmt.Sprintf("%d refs listed, RefsSize %d", len(rs), c.RefsSize()))
					ok = false
				}
			case 8: // a bit is appended in between (references and bits are independent)
				if bits.Len() >= 1023 {
					continue
				}
				b := rng.Bool()
				trace = append(trace, "WriteBit")
				if err := c.WriteBit(b); err != nil {
					bad("error@WriteBit/ref-sequence", err.Error())
					ok = false
				}
				bits.B = append(bits.B, b)
			}
			if !ok {
				break
			}
			opsSeen[lastOp(trace)]++
			if c.RefsAvailableForRead() != len(ids)-cur || c.RefsSize() != len(ids) {
				bad("ref-cursor-mismatch@"+lastOp(trace)+"/sequence", fmt.Sprintf("RefsAvailableForRead %d RefsSize %d", c.RefsAvailableForRead(), c.RefsSize()))
				ok = false
			} else if c.BitsAvailableForRead() != bits.Avail() {
				bad("bit-cursor-mismatch@"+lastOp(trace)+"/ref-sequence", fmt.Sprintf("BitsAvailableForRead %d, want %d", c.BitsAvailableForRead(), bits.Avail()))
				ok = false
			}
		}
		R.Eval(fmt.Sprintf("refseq/%d", i))
		if i < 1 {
			R.Sample(map[string]any{"kind": "reference-sequence", "target": name, "ops": trace})
		}
	}
	for k, v := range opsSeen {
		R.Count("refseq_op_"+k, v)
	}
}

// ---------------------------------------------------------------- K: bit strings that grow

// sectionGrow: Grow(k) adds k bits of capacity; Append(b) never fails: when b
// does not fit the string grows. Afterwards the string holds what it held
// plus ALL bits of b (wherever b's read cursor stands), and every bit reads back.
// The exact capacity after a growing Append is not stated anywhere, so no
// overflow verdict is derived from it (capKnown).
func sectionGrow() {
	n := R.N(4000, 200000)
	var grew, growOverflow int64
	for i := 0; i < n; i++ {
		rng := R.Rng("grow", i)
		capacity := mon.Pick(rng, []int{0, 1, 7, 8, 9, 15, 16, 17, 31, 32, 33, 64, 100, 1023})
		s := boc.NewBitString(capacity)
		model := rb.New(capacity)
		capKnown := true
		init := rng.Bits(rng.Intn(capacity + 1))
		if err := s.WriteBitArray(init); err != nil {
			viol("error@fill-within-capacity/BitString", map[string]any{"capacity": capacity, "bits": len(init), "err": err.Error()})
			continue
		}
		model.WriteBits(init)
		var trace []string
		wit := func() map[string]any {
			return map[string]any{"seq": i, "capacity": capacity, "initial_bits": len(init), "ops": trace}
		}
		ok := true
		nops := rng.Range(1, 6)
		for k := 0; k < nops && ok; k++ {
			op := rng.Intn(4)
			if !capKnown && op >= 2 {
				op = 0
			}
			switch op {
			case 0, 1: // Append, the source possibly partly read
				b := rng.Bits(rng.Intn(90))
				rd := 0
				if len(b) > 0 && op == 1 {
					rd = rng.Intn(len(b) + 1)
				}
				trace = append(trace, fmt.Sprintf("Append(%d bits, %d of them read)", len(b), rd))
				src := partlyRead(b, rd)
				if !guard("Append", wit(), func() { s.Append(src) }) {
					ok = false
					break
				}
				if len(b) > model.Room() {
					model.Cap = model.Len() + len(b) // at least; the exact value is unknown
					capKnown = false
					grew++
				}
				model.WriteBits(b)
			case 2: // Grow
				g := rng.Intn(70)
				trace = append(trace, fmt.Sprintf("Grow(%d)", g))
				if !guard("Grow", wit(), func() { s.Grow(g) }) {
					ok = false
					break
				}
				model.Cap += g
			case 3: // a plain write against the (known) capacity: exactly what fits, or one bit too many
				room := model.Room()
				over := rng.Intn(2)
				b := rng.Bits(room + over)
				trace = append(trace, fmt.Sprintf("WriteBitString(%d bits, room %d)", len(b), room))
				var err error
				if !guard("WriteBitString", wit(), func() { err = s.WriteBitString(*bsOf(b, len(b))) }) {
					ok = false
					break
				}
				if over == 0 {
					if err != nil {
						w := wit()
						w["err"] = err.Error()
						viol("error@WriteBitString/fits-after-Grow", w)
						ok = false
						break
					}
					model.WriteBits(b)
				} else {
					growOverflow++
					if err == nil {
						viol("no-error@WriteBitString/overflow-after-Grow", wit())
					}
					got := realBits(&s)
					if len(got) < model.Len() || !rb.Equal(got[:model.Len()], model.B) {
						viol("prefix-corrupted@WriteBitString/overflow-after-Grow", wit())
					}
					ok = false // the tail after a failed write is unspecified
				}
			}
			if ok && capKnown && s.BitsAvailableForWrite() != model.Room() {
				w := wit()
				w["available_for_write"], w["want"] = s.BitsAvailableForWrite(), model.Room()
				viol("capacity-mismatch@"+lastOp(trace), w)
				ok = false
			}
		}
		R.Eval(fmt.Sprintf("grow/%d", i))
		if !ok {
			continue
		}
		got := realBits(&s)
		if !rb.Equal(got, model.B) {
			w := wit()
			w["got"], w["want"] = rb.String(got), rb.String(model.B)
			viol("content-mismatch@grown-BitString", w)
			continue
		}
		// everything reads back through the read methods
		s.ResetCounter()
		model.Reset()
		for model.Avail() > 0 {
			w := rng.Range(1, 64)
			if w > model.Avail() {
				w = model.Avail()
			}
			var v uint64
			var err error
			if !guard("ReadUint(grown)", wit(), func() { v, err = s.ReadUint(w) }) {
				break
			}
			want, _ := model.Take(w)
			if err != nil || v != rb.ToUint(want) {
				viol("mismatch@ReadUint/grown-BitString", wit())
				break
			}
		}
		if _, err := s.ReadBit(); err == nil {
			viol("no-error@ReadBit/past-end/grown-BitString", wit())
		}
	}
	R.Count("appends_that_grew", grew)
	R.Count("overflow_after_grow", growOverflow)
}

// ---------------------------------------------------------------- L: writing to what a read handed out

// mutateDerived writes to a bit string that a read method returned, in every
// way the API offers for a value of one's own: Append (grows it), Grow and
// WriteBit, On/Off inside its capacity. Returns what it did.
func mutateDerived(rng *mon.Rng, d *boc.BitString) string {
	switch rng.Intn(4) {
	case 0:
		b := rng.Bits(rng.Range(1, 40))
		d.Append(*bsOf(b, len(b)))
		return fmt.Sprintf("Append(%d bits)", len(b))
	case 1:
		total := d.GetWriteCursor() + d.BitsAvailableForWrite()
		n := 0
		for k := 0; k < 12 && total > 0; k++ {
			i := rng.Intn(total)
			if rng.Bool() {
				d.On(i)
			} else {
				d.Off(i)
			}
			n++
		}
		return fmt.Sprintf("On/Off x%d", n)
	case 2:
		g := rng.Range(1, 40)
		d.Grow(g)
		for k := 0; k < g; k++ {
			d.WriteBit(rng.Bool())
		}
		return fmt.Sprintf("Grow(%d)+WriteBit x%d", g, g)
	default:
		n := 0
		for d.BitsAvailableForWrite() > 0 && n < 64 {
			d.WriteBit(rng.Bool())
			n++
		}
		b := rng.Bits(16)
		d.Append(*bsOf(b, len(b)))
		return fmt.Sprintf("WriteBit x%d, Append(16 bits)", n)
	}
}

// mutateAndCompare (inside the random sequences): the value `got` that op just
// returned is written to; the source must still hold exactly the bits written
// to it (the reads that follow in the sequence check the read methods too).
func mutateAndCompare(t *target, model *rb.List, rng *mon.Rng, got *boc.BitString, op string, rtrace *[]string, wit map[string]any) bool {
	var what string
	if !guard("write to "+op+"()", wit, func() { what = mutateDerived(rng, got) }) {
		return false
	}
	*rtrace = append(*rtrace, "write to the result: "+what)
	R.Count("derived_values_written_to", 1)
	if now := realBits(t.bitString()); !rb.Equal(now, model.B) {
		wit["reads"] = *rtrace
		wit["source_now"], wit["want"] = rb.String(now), rb.String(model.B)
		viol("source-changed-by-write-to-derived@"+op+"/"+t.name, wit)
		return false
	}
	return true
}

// sectionMutateDerived: every cursor offset 0..71 x every width 0..72 (all
// combinations of byte-aligned / unaligned cursor and whole-byte / ragged
// width), the source continuing behind the part read; sources: a bare string
// with a tight buffer, a fresh cell (spare buffer), a cell parsed from a BOC.
func sectionMutateDerived() {
	const L = 200
	var aligned int64
	for kind := 0; kind < 3; kind++ {
		rng := R.Rng("mutate-derived", kind)
		bitsv := rng.Bits(L)
		for off := 0; off <= 71; off++ {
			for w := 0; w <= 73; w++ {
				remaining := w == 73 // ReadRemainingBits instead of ReadBits(w)
				for _, via := range []string{"ReadBits", "Copy"} {
					if via == "Copy" && (w != 0 || kind != 0) {
						continue
					}
					// a fresh source every time
					var src *boc.BitString
					var srcCell *boc.Cell
					name := "BitString"
					switch kind {
					case 0:
						src = bsOf(bitsv, L)
					case 1:
						name = "Cell"
						srcCell = boc.NewCell()
						srcCell.WriteBitString(*bsOf(bitsv, L))
					default:
						name = "ParsedCell"
						c := boc.NewCell()
						c.WriteBitString(*bsOf(bitsv, L))
						b, err := c.ToBoc()
						var cs []*boc.Cell
						if err == nil {
							cs, err = boc.DeserializeBoc(b)
						}
						if err != nil || len(cs) != 1 {
							R.HarnessError("mutate-derived: cannot pass a cell through a BOC: %v", err)
							return
						}
						srcCell = cs[0]
					}
					raw := func() []bool {
						if srcCell != nil {
							x := srcCell.RawBitString()
							return realBits(&x)
						}
						return realBits(src)
					}
					wit := map[string]any{"source": name, "len": L, "offset": off, "width": w, "derived_by": via}
					var d boc.BitString
					var err error
					want := bitsv[off : off+w%73]
					if remaining {
						want = bitsv[off:]
						wit["derived_by"] = "ReadRemainingBits"
					}
					okc := guard(via, wit, func() {
						switch {
						case via == "Copy":
							src.Skip(off)
							d = src.Copy()
						case srcCell != nil:
							srcCell.Skip(off)
							if remaining {
								d = srcCell.ReadRemainingBits()
							} else {
								d, err = srcCell.ReadBits(w)
							}
						default:
							src.Skip(off)
							if remaining {
								d = src.ReadRemainingBits()
							} else {
								d, err = src.ReadBits(w)
							}
						}
					})
					if !okc {
						continue
					}
					if via == "Copy" {
						want = bitsv
					}
					R.Eval(fmt.Sprintf("mutder/%s/%s/%d/%d", name, wit["derived_by"], off, w))
					if err != nil || !rb.Equal(realBits(&d), want) {
						viol("value-mismatch@"+fmt.Sprint(wit["derived_by"])+"/before-mutation", wit)
						continue
					}
					if off%8 == 0 && len(want)%8 == 0 {
						aligned++
					}
					mr := R.Rng("mutate-derived-op", kind*10000+off*100+w)
					for round := 0; round < 3; round++ {
						var what string
						if !guard("write to the result of "+fmt.Sprint(wit["derived_by"]), wit, func() { what = mutateDerived(mr, &d) }) {
							break
						}
						wit["written_to_result"] = what
						if now := raw(); !rb.Equal(now, bitsv) {
							wit["source_now"], wit["want"] = rb.String(now), rb.String(bitsv)
							viol("source-changed-by-write-to-derived@"+fmt.Sprint(wit["derived_by"])+"/"+name, wit)
							break
						}
					}
					// and the rest of the source still reads as written
					if via != "Copy" && !remaining {
						rest := bitsv[off+w:]
						var got boc.BitString
						if srcCell != nil {
							got = srcCell.ReadRemainingBits()
						} else {
							got = src.ReadRemainingBits()
						}
						if !rb.Equal(realBits(&got), rest) {
							viol("source-changed-by-write-to-derived@"+fmt.Sprint(wit["derived_by"])+"/rest-reads-differently/"+name, wit)
						}
					}
				}
			}
		}
	}
	R.Count("derived_aligned_whole_byte_cases", aligned)
}

// ---------------------------------------------------------------- M: sequences that do not start from an empty string

// sectionStartFromDerived: the bit string that is written to was not built by
// the write API from scratch: it was parsed from its Fift-hex text (tagged and
// untagged lengths) or from JSON, handed out by ReadBits / ReadRemainingBits /
// Copy, parsed from a BOC with content, or bits beyond its length were poked
// with On. It is enlarged where necessary (Grow / Append), then written to -
// ZEROS FIRST, through every writer - then random writes; everything must read
// back as the ideal list says (raw buffer, ReadUint chunks, ReadBits, ToFiftHex).
func sectionStartFromDerived() {
	var lens []int
	for L := 0; L <= 72; L++ {
		lens = append(lens, L)
	}
	lens = append(lens, 100, 255, 256, 257, 511, 1000, 1016, 1019, 1020, 1021, 1022, 1023)
	starts := []string{"BitStringFromFiftHex", "UnmarshalJSON", "ReadBits(aligned)", "ReadBits(unaligned)", "ReadRemainingBits", "Copy", "On-beyond-len", "ParsedCell(content)"}
	zeroWriters := []string{"WriteBit(0)", "WriteUint(0)", "WriteInt(0)", "WriteBytes(00..)", "WriteBitArray(0..)", "WriteBigUint(0)", "WriteUnary(0)", "WriteBitString(0..)", "Append(0..)"}
	seen := map[string]int64{}
	caseNo := 0
	for _, L := range lens {
		for pk := 0; pk < 3; pk++ {
			for si, start := range starts {
				caseNo++
				rng := R.Rng("from-derived", caseNo)
				var bitsv []bool
				if pk == 2 {
					bitsv = make([]bool, L)
				} else {
					bitsv = pattern(pk*2, L, rng) // ones / random
				}
				zw := zeroWriters[(caseNo+si)%len(zeroWriters)]
				wit := map[string]any{"start": start, "len": L, "pattern": pk, "first_write": zw}
				t, ok := startObject(start, bitsv, rng, wit)
				if !ok {
					continue
				}
				if t.cell != nil && zw == "Append(0..)" {
					zw = "WriteBit(0)"
					wit["first_write"] = zw
				}
				seen[start]++
				model := rb.FromBools(bitsv)
				model.Cap = 1 << 20
				if got := realBits(t.bitString()); !rb.Equal(got, bitsv) {
					wit["got"], wit["want"] = rb.String(got), rb.String(bitsv)
					viol("value-mismatch@"+start+"/start", wit)
					continue
				}
				// room for what follows: a cell has 1023 bits; a bare string is grown explicitly
				budget := 1023 - L
				if t.bs != nil {
					budget = rng.Range(1, 150)
					if rng.Bool() {
						wit["enlarged_by"] = fmt.Sprintf("Grow(%d)", budget)
						if !guard("Grow", wit, func() { t.bs.Grow(budget) }) {
							continue
						}
					} else {
						// Append enlarges by itself; the appended bits start with zeros
						b := append(make([]bool, rng.Range(1, 9)), rng.Bits(rng.Intn(20))...)
						wit["enlarged_by"] = fmt.Sprintf("Append(%s)", rb.String(b))
						if !guard("Append", wit, func() { t.bs.Append(*bsOf(b, len(b))) }) {
							continue
						}
						model.WriteBits(b)
						g := budget
						wit["enlarged_by"] = fmt.Sprintf("Append(%s), Grow(%d)", rb.String(b), g)
						if !guard("Grow", wit, func() { t.bs.Grow(g) }) {
							continue
						}
					}
				}
				var trace []wop
				good := true
				step := func(o wop, b []bool) {
					if !good || len(b) > budget {
						return
					}
					trace = append(trace, o)
					wit["writes"] = trace
					var err error
					if !guard(o.Op, wit, func() { err = applyDerivedWrite(t, o, b) }) {
						good = false
						return
					}
					if err != nil {
						wit["err"] = err.Error()
						viol("error@"+o.Op+"/fits/after-"+start, wit)
						good = false
						return
					}
					budget -= len(b)
					model.WriteBits(b)
				}
				// zeros first
				zn := rng.Range(1, 24)
				switch zw {
				case "WriteBit(0)":
					step(wop{Op: "WriteBit", N: 0}, []bool{false})
				case "WriteUint(0)":
					step(wop{Op: "WriteUint", N: zn, U: 0}, make([]bool, zn))
				case "WriteInt(0)":
					step(wop{Op: "WriteInt", N: zn, I: 0}, make([]bool, zn))
				case "WriteBytes(00..)":
					step(wop{Op: "WriteBytes"}, make([]bool, 8*(1+zn%3)))
				case "WriteBitArray(0..)":
					step(wop{Op: "WriteBitArray"}, make([]bool, zn))
				case "WriteBigUint(0)":
					step(wop{Op: "WriteBigUint", N: zn, Big: "0"}, make([]bool, zn))
				case "WriteUnary(0)":
					step(wop{Op: "WriteUnary", N: 0}, []bool{false})
				case "WriteBitString(0..)":
					step(wop{Op: "WriteBitString"}, make([]bool, zn))
				default:
					step(wop{Op: "Append(partly-read)", N: 0}, make([]bool, zn))
				}
				for k := 0; k < rng.Intn(6) && good; k++ {
					o, b := genWrite(rng)
					step(o, b)
				}
				R.Eval(fmt.Sprintf("fromderived/%s/%d/%d/%s", start, L, pk, zw))
				if !good {
					continue
				}
				s := t.bitString()
				if got := realBits(s); !rb.Equal(got, model.B) {
					wit["got"], wit["want"] = rb.String(got), rb.String(model.B)
					viol("content-mismatch@writes-after-"+start, wit)
					continue
				}
				// through the read methods and the text form
				s.ResetCounter()
				model.Reset()
				readOK := true
				for model.Avail() > 0 && readOK {
					w := rng.Range(1, 64)
					if w > model.Avail() {
						w = model.Avail()
					}
					var v uint64
					var err error
					if !guard("ReadUint", wit, func() { v, err = s.ReadUint(w) }) {
						readOK = false
						break
					}
					want, _ := model.Take(w)
					if err != nil || v != rb.ToUint(want) {
						viol("mismatch@ReadUint/after-"+start, wit)
						readOK = false
					}
				}
				if !readOK {
					continue
				}
				s.ResetCounter()
				var all boc.BitString
				var hx string
				var err error
				if guard("ReadBits(all)", wit, func() { all, err = s.ReadBits(len(model.B)); hx = s.ToFiftHex() }) {
					if err != nil || !rb.Equal(realBits(&all), model.B) {
						viol("mismatch@ReadBits/after-"+start, wit)
					} else if hx != rb.FiftHex(model.B) {
						wit["got"], wit["want"] = mon.Trunc(hx, 80), mon.Trunc(rb.FiftHex(model.B), 80)
						viol("mismatch@ToFiftHex/after-"+start, wit)
					}
				}
			}
		}
	}
	for k, v := range seen {
		R.Count("start_from_"+k, v)
	}
}

// startObject makes the object a sequence starts from; it holds bitsv.
func startObject(start string, bitsv []bool, rng *mon.Rng, wit map[string]any) (*target, bool) {
	L := len(bitsv)
	var s *boc.BitString
	var err error
	switch start {
	case "BitStringFromFiftHex":
		text := rb.FiftHex(bitsv)
		wit["text"] = mon.Trunc(text, 80)
		if !guard(start, wit, func() { s, err = boc.BitStringFromFiftHex(text) }) {
			return nil, false
		}
		if err != nil || s == nil {
			wit["err"] = fmt.Sprint(err)
			viol("roundtrip@FiftHex", wit)
			return nil, false
		}
	case "UnmarshalJSON":
		text := `"` + rb.FiftHex(bitsv) + `"`
		wit["text"] = mon.Trunc(text, 80)
		s = new(boc.BitString)
		if !guard(start, wit, func() { err = s.UnmarshalJSON([]byte(text)) }) {
			return nil, false
		}
		if err != nil {
			wit["err"] = err.Error()
			viol("roundtrip@BitString.JSON", wit)
			return nil, false
		}
	case "ReadBits(aligned)", "ReadBits(unaligned)", "ReadRemainingBits":
		skip := 8 * rng.Intn(3)
		if start == "ReadBits(unaligned)" {
			skip = rng.Range(1, 7)
		}
		all := append(pattern(0, skip, nil), bitsv...)
		if start != "ReadRemainingBits" {
			all = append(all, pattern(0, 24, nil)...) // the source goes on with ones
		}
		src := bsOf(all, len(all))
		src.Skip(skip)
		var sub boc.BitString
		if !guard(start, wit, func() {
			if start == "ReadRemainingBits" {
				sub = src.ReadRemainingBits()
			} else {
				sub, err = src.ReadBits(L)
			}
		}) {
			return nil, false
		}
		if err != nil {
			R.HarnessError("startObject %s: %v", start, err)
			return nil, false
		}
		s = &sub
	case "Copy":
		// a copy of a string whose buffer holds more than its own bits: itself read out of the middle of ones
		all := append(append([]bool{}, bitsv...), pattern(0, 24, nil)...)
		src := bsOf(all, len(all))
		sub, e := src.ReadBits(L)
		if e != nil {
			R.HarnessError("startObject Copy: %v", e)
			return nil, false
		}
		var cp boc.BitString
		if !guard(start, wit, func() { cp = sub.Copy() }) {
			return nil, false
		}
		s = &cp
	case "On-beyond-len":
		capacity := L + rng.Range(1, 40)
		x := boc.NewBitString(capacity)
		x.WriteBitArray(bitsv)
		var pokes []int
		for k := 0; k < 6; k++ {
			i := L + rng.Intn(capacity-L)
			pokes = append(pokes, i)
			if !guard("On", wit, func() { err = x.On(i) }) {
				return nil, false
			}
			if err != nil {
				wit["err"], wit["poke"] = err.Error(), i
				viol("error@On/within-capacity", wit)
				return nil, false
			}
		}
		wit["On"] = pokes
		s = &x
	default: // ParsedCell(content)
		c := boc.NewCell()
		c.WriteBitString(*bsOf(bitsv, L))
		b, e := c.ToBoc()
		var cs []*boc.Cell
		if e == nil {
			cs, e = boc.DeserializeBoc(b)
		}
		if e != nil || len(cs) != 1 {
			R.HarnessError("startObject: cannot pass a cell through a BOC: %v", e)
			return nil, false
		}
		return &target{name: "ParsedCell", cell: cs[0]}, true
	}
	return &target{name: "BitString", bs: s}, true
}

// applyDerivedWrite is applyWrite without its detour for an Append that does not fit (here the room was made first).
func applyDerivedWrite(t *target, o wop, bitsv []bool) error {
	if t.bs != nil && o.Op == "Append(partly-read)" {
		t.bs.Append(partlyRead(bitsv, o.N))
		return nil
	}
	return applyWrite(t, o, bitsv)
}
