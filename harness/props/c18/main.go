// C18 — generated Merkle proofs commit to the original tree and reveal the
// value. Oracle: the proof bytes are read by the strict reference BOC reader
// and hashed by the reference cell model; the proof tree is walked in
// parallel with the original tree; the proven key is looked up inside the
// proof by the reference dictionary reader. See DESIGN.md §5 C18.
package main

import (
	"bytes"
	"fmt"
	"os"
	"reflect"
	"runtime"
	"sync"

	tboc "github.com/tonkeeper/tongo/boc"
	"github.com/tonkeeper/tongo/tlb"

	"verifharness/bridge"
	"verifharness/gen"
	"verifharness/mon"
	rbits "verifharness/ref/bits"
	rboc "verifharness/ref/boc"
	"verifharness/ref/cell"
	"verifharness/ref/dict"
	"verifharness/ref/realdata"
)

var R *mon.Run

// ------------------------------------------------------------------ checking one proof against its original

type proofStats struct {
	pruned, kept int
	keptExotic int
}

// classify how a pruned-branch cell found in a proof differs from the one
// that must replace `orig` (01 ‖ 01 ‖ hash ‖ depth; the original trees are
// ordinary, so the proof has level 1).
func prunedDefect(p, orig *cell.Cell) string {
	want := cell.NewPruned(orig, 1)
	if rbits.Equal(p.Bits, want.Bits) && len(p.Refs) == 0 {
		return ""
	}
	if len(p.Bits) != len(want.Bits) || len(p.Refs) != 0 {
		return "size"
	}
	g, w := p.Data(), want.Data()
	switch {
	case g[1] != w[1]:
		return "mask"
	case !bytes.Equal(g[2:34], w[2:34]):
		return "hash"
	case !bytes.Equal(g[34:36], w[34:36]):
		return "depth"
	}
	return "other"
}

// verifyProof checks everything the property says about the proof bytes
// that does not depend on dictionaries. src names the producer for
// signatures. It returns the pruned tree under the Merkle-proof root.
func verifyProof(src string, proof []byte, orig *cell.Cell, wit map[string]any) (*cell.Cell, proofStats, bool) {
	var st proofStats
	wit["proof_boc"] = mon.HexTrunc(proof, 1500)
	roots, _, _, err := rboc.Read(proof)
	if err != nil {
		wit["reference_reader"] = err.Error()
		R.Violation("invalid-proof-boc@"+src, wit)
		return nil, st, false
	}
	if len(roots) != 1 {
		wit["roots"] = len(roots)
		R.Violation("proof-root-count@"+src, wit)
		return nil, st, false
	}
	pr := roots[0]
	if !pr.Exotic || pr.Type() != cell.MerkleProof || pr.Err() != nil || len(pr.Refs) != 1 {
		wit["root_type"], wit["root_exotic"], wit["root_bits"] = pr.Type(), pr.Exotic, len(pr.Bits)
		R.Violation("root-not-merkle-proof@"+src, wit)
		return nil, st, false
	}
	d := pr.Data()
	oh := orig.Hash()
	if !bytes.Equal(d[1:33], oh[:]) {
		wit["stored_hash"], wit["original_root_hash"] = mon.Hex(d[1:33]), mon.Hex(oh[:])
		R.Violation("root-hash-mismatch@"+src, wit)
		return nil, st, false
	}
	if sd := int(d[33])<<8 | int(d[34]); sd != orig.Depth() {
		wit["stored_depth"], wit["original_root_depth"] = sd, orig.Depth()
		R.Violation("root-depth-mismatch@"+src, wit)
		return nil, st, false
	}
	body := pr.Refs[0]
	// walk the proof and the original in parallel
	type pair struct{ p, o *cell.Cell }
	seen := map[pair]bool{}
	ok := true
	var walk func(p, o *cell.Cell, path string)
	walk = func(p, o *cell.Cell, path string) {
		if !ok || seen[pair{p, o}] {
			return
		}
		seen[pair{p, o}] = true
		if o.Exotic && p.Exotic && p.Type() == o.Type() && rbits.Equal(p.Bits, o.Bits) && len(p.Refs) == len(o.Refs) && p.Type() != cell.PrunedBranch {
			// an exotic cell of the original (a library cell) kept as it is
			st.kept++
			st.keptExotic++
			return
		}
		if o.Exotic && !p.Exotic {
			wit["path"], wit["original_type"] = path, o.Type()
			R.Violation("exotic-cell-lost-its-type@"+src, wit)
			ok = false
			return
		}
		if p.Exotic {
			if p.Type() != cell.PrunedBranch {
				wit["path"], wit["type"] = path, p.Type()
				R.Violation("unexpected-exotic-cell@"+src, wit)
				ok = false
				return
			}
			if what := prunedDefect(p, o); what != "" {
				want := cell.NewPruned(o, 1)
				wit["path"], wit["pruned_cell"], wit["want"] = path, mon.Hex(p.Data()), mon.Hex(want.Data())
				wit["replaced_subtree_depth"], wit["replaced_subtree_refs"] = o.Depth(), len(o.Refs)
				R.Violation("pruned-cell-mismatch/"+what+"@"+src, wit)
				ok = false
				return
			}
			st.pruned++
			return
		}
		if !rbits.Equal(p.Bits, o.Bits) || len(p.Refs) != len(o.Refs) {
			wit["path"], wit["proof_cell"], wit["original_cell"] = path, rbits.FiftHex(p.Bits), rbits.FiftHex(o.Bits)
			wit["proof_refs"], wit["original_refs"] = len(p.Refs), len(o.Refs)
			R.Violation("cell-differs-from-original@"+src, wit)
			ok = false
			return
		}
		st.kept++
		for i := range p.Refs {
			walk(p.Refs[i], o.Refs[i], fmt.Sprintf("%s/%d", path, i))
		}
	}
	walk(body, orig, "")
	if !ok {
		return nil, st, false
	}
	// the pruned tree as a whole has, at level zero, the hash and depth of the original root
	if h0 := body.HashAt(0); h0 != oh {
		wit["pruned_tree_hash_level0"], wit["original_root_hash"] = mon.Hex(h0[:]), mon.Hex(oh[:])
		R.Violation("pruned-tree-hash-mismatch@"+src, wit)
		return nil, st, false
	}
	if body.DepthAt(0) != orig.Depth() {
		wit["pruned_tree_depth_level0"], wit["original_root_depth"] = body.DepthAt(0), orig.Depth()
		R.Violation("pruned-tree-depth-mismatch@"+src, wit)
		return nil, st, false
	}
	// tongo's own parse of the proof reports the same root hash (ties C02 to the prover's output)
	var cs []*tboc.Cell
	var th []byte
	var terr error
	if p := mon.Guard(func() {
		cs, terr = tboc.DeserializeBoc(proof)
		if terr == nil && len(cs) == 1 {
			th, terr = cs[0].Hash()
		}
	}); p != nil {
		wit["panic"] = p.Value
		R.Violation("panic@"+p.Site+"/DeserializeBoc(proof)/"+src, wit)
		return nil, st, false
	}
	ph := pr.Hash()
	if terr != nil || len(cs) != 1 || !bytes.Equal(th, ph[:]) {
		wit["err"], wit["tongo_hash"], wit["reference_hash"] = fmt.Sprint(terr), mon.Hex(th), mon.Hex(ph[:])
		R.Violation("tongo-rereads-proof-differently@"+src, wit)
		return nil, st, false
	}
	delete(wit, "proof_boc")
	return body, st, true
}

// ------------------------------------------------------------------ dictionaries

type keyC interface {
	FixedSize() int
	Equal(other any) bool
	Compare(other any) (int, bool)
}

func keyOf[K keyC](b []bool) K {
	var k K
	v := reflect.ValueOf(&k).Elem()
	switch v.Kind() {
	case reflect.Uint8, reflect.Uint16, reflect.Uint32, reflect.Uint64:
		v.SetUint(rbits.ToUint(b))
	case reflect.Array:
		reflect.Copy(v, reflect.ValueOf(rbits.ToBytes(b)))
	default:
		panic("keyOf: unsupported key kind")
	}
	return k
}

func bitsOf[K keyC](k K) []bool {
	v := reflect.ValueOf(k)
	if v.Kind() == reflect.Array {
		bs := make([]byte, v.Len())
		for i := range bs {
			bs[i] = byte(v.Index(i).Uint())
		}
		return rbits.BytesBits(bs)
	}
	return rbits.UintBits(v.Uint(), k.FixedSize())
}

// value kinds: how the leaf value is drawn and which Go type ProveKeyInHashmap is asked for
type valKind struct {
	name  string
	gen   func(r *mon.Rng, i int, room int) dict.Value
	prove func(p *tboc.MerkleProver, root *tboc.Cell, key tboc.BitString) (dict.Value, []byte, error)
}

func gramsBits(v uint64) []bool {
	l := 0
	for x := v; x > 0; x >>= 8 {
		l++
	}
	return append(rbits.UintBits(uint64(l), 4), rbits.UintBits(v, 8*l)...)
}

func leafTree(r *mon.Rng) *cell.Cell {
	c := cell.New(r.Bits(r.Intn(40)), false)
	for i := 0; i < r.Intn(3); i++ {
		c.Refs = append(c.Refs, cell.New(r.Bits(r.Intn(40)), false))
	}
	return c
}

func proveU32(p *tboc.MerkleProver, root *tboc.Cell, key tboc.BitString) (dict.Value, []byte, error) {
	v, proof, err := tlb.ProveKeyInHashmap[uint32](p, root, key)
	return dict.Value{Bits: rbits.UintBits(uint64(v), 32)}, proof, err
}

func libraryCell(r *mon.Rng) *cell.Cell {
	var h cell.Hash
	copy(h[:], r.Bytes(32))
	return cell.NewLibrary(h)
}

var valKinds = []*valKind{
	// the value references a library cell (an exotic cell that stays in the proof); such a tree exists only as a parsed BOC
	{"Any-with-library-ref", func(r *mon.Rng, i, room int) dict.Value {
		v := dict.Value{Bits: r.Bits(r.Intn(min(room, 100) + 1))}
		if i%2 == 0 {
			v.Refs = append(v.Refs, libraryCell(r))
		} else {
			v.Refs = append(v.Refs, cell.New(r.Bits(r.Intn(40)), false, libraryCell(r)))
		}
		return v
	}, func(p *tboc.MerkleProver, root *tboc.Cell, key tboc.BitString) (dict.Value, []byte, error) {
		v, proof, err := tlb.ProveKeyInHashmap[tlb.Any](p, root, key)
		if err != nil {
			return dict.Value{}, proof, err
		}
		c := tboc.Cell(v)
		rc := bridge.FromTongo(&c)
		return dict.Value{Bits: rc.Bits, Refs: rc.Refs}, proof, nil
	}},
	{"uint32", func(r *mon.Rng, i, room int) dict.Value { return dict.Value{Bits: r.Bits(32)} }, proveU32},
	// every key carries the same value: equal leaves and sub-trees become one cell when the dictionary travels as a BOC
	{"uint32-constant", func(r *mon.Rng, i, room int) dict.Value { return dict.Value{Bits: rbits.UintBits(0xC0FFEE, 32)} }, proveU32},
	{"Grams", func(r *mon.Rng, i, room int) dict.Value {
		return dict.Value{Bits: gramsBits(r.Uint64() >> uint(1+r.Intn(63)))}
	}, func(p *tboc.MerkleProver, root *tboc.Cell, key tboc.BitString) (dict.Value, []byte, error) {
		v, proof, err := tlb.ProveKeyInHashmap[tlb.Grams](p, root, key)
		return dict.Value{Bits: gramsBits(uint64(v))}, proof, err
	}},
	{"Any", func(r *mon.Rng, i, room int) dict.Value {
		v := dict.Value{Bits: r.Bits(r.Intn(min(room, 200) + 1))}
		for k := 0; k < r.Intn(4); k++ {
			v.Refs = append(v.Refs, leafTree(r))
		}
		return v
	}, func(p *tboc.MerkleProver, root *tboc.Cell, key tboc.BitString) (dict.Value, []byte, error) {
		v, proof, err := tlb.ProveKeyInHashmap[tlb.Any](p, root, key)
		if err != nil {
			return dict.Value{}, proof, err
		}
		c := tboc.Cell(v)
		rc := bridge.FromTongo(&c)
		return dict.Value{Bits: rc.Bits, Refs: rc.Refs}, proof, nil
	}},
}

func sameValue(a, b dict.Value) bool {
	if !rbits.Equal(a.Bits, b.Bits) || len(a.Refs) != len(b.Refs) {
		return false
	}
	for i := range a.Refs {
		if a.Refs[i].Hash() != b.Refs[i].Hash() {
			return false
		}
	}
	return true
}

func showValue(v dict.Value) string {
	s := rbits.FiftHex(v.Bits)
	for _, r := range v.Refs {
		h := r.Hash()
		s += " ^" + mon.Hex(h[:6])
	}
	return mon.Trunc(s, 100)
}

// widthOps: tongo's own encoder and tongo's own decoding of a proof, per key width
type widthOps struct {
	n int
	// HashmapE[K, uint32] built by Put, marshalled; returns the cell holding the HashmapE
	encodeU32 func(keys [][]bool, vals []dict.Value) (*tboc.Cell, error)
	// MerkleProof[Hashmap[K, V]] decoded from the proof root; entries in tongo's order
	decodeProof map[string]func(proofRoot *tboc.Cell) ([]dict.Entry, error)
}

func decodeProofAs[K keyC, V any](abs func(V) dict.Value) func(*tboc.Cell) ([]dict.Entry, error) {
	return func(proofRoot *tboc.Cell) ([]dict.Entry, error) {
		var mp tlb.MerkleProof[tlb.Hashmap[K, V]]
		if err := tlb.Unmarshal(proofRoot, &mp); err != nil {
			return nil, err
		}
		ks, vs := mp.VirtualRoot.Keys(), mp.VirtualRoot.Values()
		if len(ks) != len(vs) {
			return nil, fmt.Errorf("%d keys, %d values", len(ks), len(vs))
		}
		out := make([]dict.Entry, len(ks))
		for i := range ks {
			out[i] = dict.Entry{Key: bitsOf(ks[i]), Val: abs(vs[i])}
		}
		return out, nil
	}
}

func mkWidth[K keyC]() *widthOps {
	var k K
	u32 := decodeProofAs[K, uint32](func(v uint32) dict.Value { return dict.Value{Bits: rbits.UintBits(uint64(v), 32)} })
	return &widthOps{
		n: k.FixedSize(),
		encodeU32: func(keys [][]bool, vals []dict.Value) (*tboc.Cell, error) {
			var d tlb.HashmapE[K, uint32]
			for i := range keys {
				d.Put(keyOf[K](keys[i]), uint32(rbits.ToUint(vals[i].Bits)))
			}
			out := tboc.NewCell()
			return out, tlb.Marshal(out, d)
		},
		decodeProof: map[string]func(*tboc.Cell) ([]dict.Entry, error){
			"uint32": u32, "uint32-constant": u32,
			"Grams": decodeProofAs[K, tlb.Grams](func(v tlb.Grams) dict.Value { return dict.Value{Bits: gramsBits(uint64(v))} }),
			"Any": decodeProofAs[K, tlb.Any](func(v tlb.Any) dict.Value {
				c := tboc.Cell(v)
				rc := bridge.FromTongo(&c)
				return dict.Value{Bits: rc.Bits, Refs: rc.Refs}
			}),
			"Any-with-library-ref": decodeProofAs[K, tlb.Any](func(v tlb.Any) dict.Value {
				c := tboc.Cell(v)
				rc := bridge.FromTongo(&c)
				return dict.Value{Bits: rc.Bits, Refs: rc.Refs}
			}),
		},
	}
}

var widths = []*widthOps{mkWidth[tlb.Uint8](), mkWidth[tlb.Uint16](), mkWidth[tlb.Uint32](), mkWidth[tlb.Uint64](), mkWidth[tlb.Bits256]()}

func tongoKey(b []bool) tboc.BitString {
	s := tboc.NewBitString(len(b))
	for _, x := range b {
		if err := s.WriteBit(x); err != nil {
			panic("harness: cannot write key bit")
		}
	}
	return s
}

func resetAll(c *tboc.Cell, seen map[*tboc.Cell]bool) {
	if seen[c] {
		return
	}
	seen[c] = true
	c.ResetCounters()
	for _, r := range c.Refs() {
		resetAll(r, seen)
	}
}

// sharedOnPath reports whether, on the way to key, the original tongo tree
// presents one and the same cell object as both children of a fork.
func sharedOnPath(root *tboc.Cell, rd *dict.Reader, key []bool) bool {
	c := root
	pos := 0
	for depth := 0; depth < 1100; depth++ {
		rc := cell.New(bridge.Bits(c.RawBitString()), false)
		label, _, _, err := dict.DecodeLabel(rc.Bits, rd.N-pos)
		if err != nil {
			return false
		}
		pos += len(label)
		refs := c.Refs()
		if pos >= rd.N || len(refs) < 2 {
			return false
		}
		if refs[0] == refs[1] {
			return true
		}
		side := 0
		if key[pos] {
			side = 1
		}
		pos++
		c = refs[side]
	}
	return false
}

func dictCase(idx int) {
	r := R.Rng("dict", idx)
	w := widths[idx%len(widths)]
	vk := valKinds[(idx/len(widths))%len(valKinds)]
	shape := dict.Shapes[1+(idx/(len(widths)*len(valKinds))+idx)%(len(dict.Shapes)-1)] // never "empty"
	n := w.n
	keys := dict.GenKeys(r, n, shape, 300)
	if idx%23 == 5 && n >= 64 {
		// a comb: key i has only bit i set, so the path to the last keys forks at (almost) every one of
		// up to 100 levels — deeper than any balanced dictionary of this size
		shape = "comb"
		keys = nil
		for i := 0; i < n && i < 100; i++ {
			k := make([]bool, n)
			k[i] = true
			keys = append(keys, k)
		}
	}
	if len(keys) == 0 {
		return
	}
	maxVal := 1023 - (2 + 10 + n)
	model := map[string]dict.Value{}
	var entries []dict.Entry
	for i, k := range keys {
		v := vk.gen(r, i, maxVal)
		model[dict.KeyString(k)] = v
		entries = append(entries, dict.Entry{Key: k, Val: v})
	}
	dict.SortEntries(entries)

	// the original dictionary as a tongo cell tree
	source := mon.Pick(r, []string{"reference-canonical", "reference-mixed-labels", "tongo-encoded"})
	if vk.name != "uint32" && vk.name != "uint32-constant" && source == "tongo-encoded" {
		source = "reference-canonical"
	}
	via := mon.Pick(r, []string{"in-memory", "boc"})
	if vk.name == "Any-with-library-ref" {
		via = "boc"
	}
	var root *tboc.Cell
	switch source {
	case "tongo-encoded":
		ks, vs := make([][]bool, len(entries)), make([]dict.Value, len(entries))
		for i, j := range r.Perm(len(entries)) {
			ks[i], vs[i] = entries[j].Key, entries[j].Val
		}
		holder, err := w.encodeU32(ks, vs)
		if err != nil || len(holder.Refs()) != 1 {
			R.HarnessError("tongo could not encode a %d-bit dictionary of %d keys: %v", n, len(ks), err)
			return
		}
		root = holder.Refs()[0]
		if via == "boc" {
			b, err := root.ToBoc()
			if err != nil {
				R.HarnessError("ToBoc: %v", err)
				return
			}
			cs, err := tboc.DeserializeBoc(b)
			if err != nil || len(cs) != 1 {
				R.HarnessError("DeserializeBoc of tongo's own dictionary: %v", err)
				return
			}
			root = cs[0]
		}
	default:
		b := &dict.Builder{N: n}
		if source == "reference-mixed-labels" {
			fr := r.Fork("labels", 0)
			b.Choose = func(label []bool, m, depth, room int) dict.Form {
				fs := dict.Feasible(label, m, room)
				if len(fs) == 0 {
					return dict.Canonical
				}
				return mon.Pick(fr, fs)
			}
		}
		rc, _, err := b.Root(entries)
		if err != nil {
			R.HarnessError("reference writer: %v", err)
			return
		}
		if via == "in-memory" {
			root, err = bridge.ToTongoBuilt(rc)
		} else {
			var cs []*tboc.Cell
			cs, _, err = bridge.ToTongoParsed([]*cell.Cell{rc}, rboc.Options{})
			if err == nil {
				root = cs[0]
			}
		}
		if err != nil {
			R.HarnessError("cannot deliver the dictionary to tongo: %v", err)
			return
		}
	}
	orig := bridge.FromTongo(root)
	rd := &dict.Reader{N: n}
	if p, err := rd.Parse(orig); err != nil || len(p.Entries) != len(entries) {
		R.HarnessError("the original dictionary does not read back (%s, %s): %v", source, via, err)
		return
	}
	src := "ProveKeyInHashmap"
	R.Seen("dict_sources", source+"/"+via)
	R.Seen("dict_shapes", shape)
	R.Seen("dict_widths", fmt.Sprint(n))
	R.Seen("dict_value_kinds", vk.name)
	R.Count("dictionaries", 1)
	base := func() map[string]any {
		w := map[string]any{"case": idx, "key_bits": n, "entries": len(entries), "shape": shape, "value_kind": vk.name, "dictionary_source": source, "delivered": via}
		var ks []string
		for i, e := range entries {
			if i >= 20 {
				ks = append(ks, fmt.Sprintf("...(+%d)", len(entries)-i))
				break
			}
			ks = append(ks, rbits.FiftHex(e.Key)+" => "+showValue(e.Val))
		}
		w["dictionary"] = ks
		if b, err := root.ToBoc(); err == nil {
			w["dictionary_boc"] = mon.HexTrunc(b, 1500)
		}
		return w
	}

	var shared *tboc.MerkleProver
	prover := func() (*tboc.MerkleProver, error) {
		// a fresh prover per proof for small dictionaries, one prover for all proofs otherwise
		if len(entries) <= 16 || shared == nil {
			p, err := tboc.NewMerkleProver(root)
			if len(entries) > 16 {
				shared = p
			}
			return p, err
		}
		return shared, nil
	}

	// ---- present keys: all (<= 64) or 64 sampled
	pick := make([]int, len(entries))
	for i := range pick {
		pick[i] = i
	}
	if len(pick) > 64 {
		pick = r.Perm(len(entries))[:64]
	}
	for _, i := range pick {
		e := entries[i]
		wit := base()
		wit["key"] = rbits.FiftHex(e.Key)
		var got dict.Value
		var proof []byte
		var err error
		p := mon.Guard(func() {
			var pv *tboc.MerkleProver
			pv, err = prover()
			if err != nil {
				return
			}
			resetAll(root, map[*tboc.Cell]bool{})
			got, proof, err = vk.prove(pv, root, tongoKey(e.Key))
		})
		if p != nil {
			wit["panic"], wit["stack"] = p.Value, mon.Trunc(p.Stack, 1200)
			R.Violation("panic@"+p.Site+"/"+src+"(present key)", wit)
			return
		}
		oh := orig.Hash()
		R.Eval(fmt.Sprintf("present/%x/%s", oh[:8], dict.KeyString(e.Key)))
		R.Count("proofs_present_keys", 1)
		if err != nil {
			wit["err"] = err.Error()
			R.Violation("error-for-present-key@"+src, wit)
			return
		}
		if !sameValue(got, e.Val) {
			wit["returned_value"], wit["want"] = showValue(got), showValue(e.Val)
			R.Violation("returned-value-mismatch@"+src, wit)
			return
		}
		body, st, ok := verifyProof(src, proof, orig, wit)
		if !ok {
			return
		}
		R.Count("pruned_cells_verified", int64(st.pruned))
		R.Count("kept_cells_verified", int64(st.kept))
		// the value is recoverable from the proof alone
		v, found, lerr := rd.Lookup(body, e.Key)
		if lerr != nil || !found || !sameValue(v, e.Val) {
			wit["lookup_in_proof"] = fmt.Sprintf("found=%v err=%v value=%s", found, lerr, showValue(v))
			wit["proof_boc"] = mon.HexTrunc(proof, 1500)
			cls := "wrong-value"
			if lerr == dict.ErrPruned {
				cls = "path-pruned"
				if sharedOnPath(root, rd, e.Key) {
					cls = "path-pruned/fork-with-identical-children"
				}
			} else if lerr != nil {
				cls = "proof-is-not-a-dictionary"
			} else if !found {
				cls = "key-not-in-proof"
			}
			R.Violation("value-not-recoverable/"+cls+"@"+src, wit)
			return
		}
		// tongo's own decoder reads the same pairs out of the proof as the reference does
		pp, perr := (&dict.Reader{N: n, AllowPruned: true}).Parse(body)
		if perr != nil {
			wit["reference_reader"] = perr.Error()
			R.Violation("value-not-recoverable/proof-is-not-a-dictionary@"+src, wit)
			return
		}
		R.Count("entries_visible_in_proofs", int64(len(pp.Entries)))
		var dec []dict.Entry
		var derr error
		if p := mon.Guard(func() {
			cs, err := tboc.DeserializeBoc(proof)
			if err != nil {
				derr = err
				return
			}
			dec, derr = w.decodeProof[vk.name](cs[0])
		}); p != nil {
			wit["panic"] = p.Value
			R.Violation("panic@"+p.Site+"/Unmarshal(MerkleProof[Hashmap])", wit)
			return
		}
		same := derr == nil && len(dec) == len(pp.Entries)
		for i := 0; same && i < len(dec); i++ {
			same = rbits.Equal(dec[i].Key, pp.Entries[i].Key) && sameValue(dec[i].Val, pp.Entries[i].Val)
		}
		if !same {
			wit["err"], wit["tongo_lists"], wit["reference_lists"] = fmt.Sprint(derr), len(dec), len(pp.Entries)
			wit["proof_boc"] = mon.HexTrunc(proof, 1500)
			R.Violation("tongo-decodes-proof-differently@"+src, wit)
			return
		}
		if idx < 40 && i == pick[0] && len(entries) > 2 && len(entries) < 7 {
			R.Sample(map[string]any{"kind": "dictionary proof", "key_bits": n, "entries": len(entries), "key": rbits.FiftHex(e.Key), "value": showValue(e.Val),
				"dictionary_source": source + "/" + via, "proof_bytes": len(proof), "pruned_cells": st.pruned, "kept_cells": st.kept, "original_root_hash": mon.Hex(oh[:])})
		}
	}

	// ---- absent keys: an error, never a proof
	type absent struct {
		key []bool
		tag string
	}
	var abs []absent
	seen := map[string]bool{}
	add := func(k []bool, tag string) {
		ks := dict.KeyString(k)
		if _, in := model[ks]; in || seen[ks] {
			return
		}
		seen[ks] = true
		abs = append(abs, absent{k, tag})
	}
	ones, zeros := make([]bool, n), make([]bool, n)
	for i := range ones {
		ones[i] = true
	}
	add(ones, "beyond-last-key")
	add(zeros, "before-first-key")
	for try := 0; try < 200 && len(abs) < 32; try++ {
		e := entries[r.Intn(len(entries))]
		k := append([]bool(nil), e.Key...)
		switch try % 4 {
		case 0:
			j := r.Intn(n)
			k[j] = !k[j]
			add(k, "one-bit-off-a-present-key")
		case 1:
			k[n-1] = !k[n-1]
			add(k, "last-bit-off-a-present-key")
		case 2:
			t := r.Intn(n)
			copy(k[t:], r.Bits(n-t))
			add(k, "present-prefix-other-tail")
		default:
			add(r.Bits(n), "random")
		}
	}
	for _, a := range abs {
		wit := base()
		wit["key"], wit["absent_key_kind"] = rbits.FiftHex(a.key), a.tag
		var proof []byte
		var err error
		p := mon.Guard(func() {
			var pv *tboc.MerkleProver
			pv, err = prover()
			if err != nil {
				return
			}
			resetAll(root, map[*tboc.Cell]bool{})
			_, proof, err = vk.prove(pv, root, tongoKey(a.key))
		})
		if p != nil {
			wit["panic"], wit["stack"] = p.Value, mon.Trunc(p.Stack, 1200)
			R.Violation("panic@"+p.Site+"/"+src+"(absent key)", wit)
			return
		}
		oh := orig.Hash()
		R.Eval(fmt.Sprintf("absent/%x/%s", oh[:8], dict.KeyString(a.key)))
		R.Count("proofs_absent_keys", 1)
		R.Seen("absent_key_kinds", a.tag)
		if err == nil {
			wit["proof_boc"] = mon.HexTrunc(proof, 1500)
			R.Violation("proof-for-absent-key/"+a.tag+"@"+src, wit)
			return
		}
	}
}

// ------------------------------------------------------------------ generic trees through the cursor API

func treeCase(idx int) {
	r := R.Rng("tree", idx)
	var rootRef *cell.Cell
	kind := mon.Pick(r, []string{"random-dag", "random-dag", "random-dag", "chain", "wide", "single-cell", "with-exotic-leaves", "deep-chain"})
	switch kind {
	case "with-exotic-leaves":
		// ordinary cells over library cells: exotic cells (of level 0) that stay in the proof
		var mk func(d int) *cell.Cell
		mk = func(d int) *cell.Cell {
			c := cell.New(r.Bits(r.Intn(60)), false)
			for k := 0; k < r.Range(1, 3); k++ {
				switch {
				case d >= 3 || r.Chance(1, 3):
					c.Refs = append(c.Refs, libraryCell(r))
				default:
					c.Refs = append(c.Refs, mk(d+1))
				}
			}
			return c
		}
		rootRef = mk(0)
	case "deep-chain":
		// more than 32 steps between the root and the pruned position
		rootRef = cell.New(r.Bits(8), false, cell.New(r.Bits(8), false), cell.New(r.Bits(9), false))
		for i := 0; i < r.Range(33, 90); i++ {
			if r.Bool() {
				rootRef = cell.New(r.Bits(r.Intn(20)), false, rootRef, cell.New(r.Bits(7), false))
			} else {
				rootRef = cell.New(r.Bits(r.Intn(20)), false, cell.New(r.Bits(7), false), rootRef)
			}
		}
	case "random-dag":
		rootRef = gen.RandomDag(r, gen.DagOpts{Nodes: r.Range(2, 60), SmallBits: r.Chance(2, 3)})
	case "chain":
		rootRef = gen.Chain(r, r.Range(1, 300))
	case "wide":
		rootRef = gen.Wide(r, r.Range(5, 200), r.Range(2, 4))
	default:
		rootRef = gen.Leaf(r, false)
	}
	if rootRef.Err() != nil {
		R.HarnessError("generator produced an invalid tree: %v", rootRef.Err())
		return
	}
	via := mon.Pick(r, []string{"in-memory", "boc"})
	if kind == "with-exotic-leaves" {
		via = "boc"
	}
	var root *tboc.Cell
	var err error
	if via == "in-memory" {
		root, err = bridge.ToTongoBuilt(rootRef)
	} else {
		var cs []*tboc.Cell
		cs, _, err = bridge.ToTongoParsed([]*cell.Cell{rootRef}, rboc.Options{})
		if err == nil {
			root = cs[0]
		}
	}
	if err != nil {
		R.HarnessError("cannot deliver a tree to tongo: %v", err)
		return
	}
	orig := bridge.FromTongo(root)
	if orig.Hash() != rootRef.Hash() {
		R.HarnessError("tree changed on the way to tongo")
		return
	}
	R.Seen("tree_kinds", kind+"/"+via)
	R.Count("trees", 1)
	src := "MerkleProver.CreateProof"
	sets := r.Range(2, 5)
	for s := 0; s < sets; s++ {
		wit := map[string]any{"case": idx, "tree_kind": kind, "delivered": via, "prune_set": s}
		if b, err := rboc.Write([]*cell.Cell{orig}, rboc.Options{}); err == nil {
			wit["tree_boc"] = mon.HexTrunc(b, 1500)
		}
		var paths [][]int
		var proof []byte
		style := mon.Pick(r, []string{"few", "few", "many", "root", "none", "nested", "leaves"})
		p := mon.Guard(func() {
			var pv *tboc.MerkleProver
			pv, err = tboc.NewMerkleProver(root)
			if err != nil {
				return
			}
			cur := pv.Cursor()
			descend := func(maxDepth int, toLeaf bool) (*tboc.Cursor, []int) {
				c, o := cur, orig
				var pth []int
				for d := 0; (toLeaf || d < maxDepth) && len(o.Refs) > 0 && d < 400; d++ {
					j := r.Intn(len(o.Refs))
					c, o = c.Ref(j), o.Refs[j]
					pth = append(pth, j)
				}
				return c, pth
			}
			switch style {
			case "none":
			case "root":
				cur.Prune()
				paths = append(paths, []int{})
			case "nested":
				// a node and one of its ancestors
				c, pth := descend(r.Range(2, 8), false)
				c.Prune()
				paths = append(paths, pth)
				if len(pth) > 1 {
					up := pth[:r.Range(1, len(pth)-1)]
					a := cur
					for _, j := range up {
						a = a.Ref(j)
					}
					a.Prune()
					paths = append(paths, up)
				}
			default:
				k := r.Range(1, 3)
				if style == "many" {
					k = r.Range(4, 20)
				}
				for i := 0; i < k; i++ {
					c, pth := descend(r.Range(1, 8), style == "leaves")
					if len(pth) == 0 {
						continue
					}
					c.Prune()
					paths = append(paths, pth)
				}
			}
			proof, err = pv.CreateProof(cur)
		})
		wit["prune_paths"], wit["prune_style"] = paths, style
		if p != nil {
			wit["panic"], wit["stack"] = p.Value, mon.Trunc(p.Stack, 1200)
			R.Violation("panic@"+p.Site+"/"+src, wit)
			return
		}
		oh := orig.Hash()
		R.Eval(fmt.Sprintf("tree/%x/%v", oh[:8], paths))
		R.Count("proofs_generic_trees", 1)
		R.Seen("prune_styles", style)
		if err != nil {
			wit["err"] = err.Error()
			R.Violation("error@"+src, wit)
			return
		}
		_, st, ok := verifyProof(src, proof, orig, wit)
		if !ok {
			return
		}
		R.Count("pruned_cells_verified", int64(st.pruned))
		R.Count("kept_cells_verified", int64(st.kept))
		if len(paths) > 0 && st.pruned == 0 {
			R.Count("prune_requests_without_pruned_cell", 1)
		}
		if idx < 3 && s == 0 {
			R.Sample(map[string]any{"kind": "generic tree proof", "tree_kind": kind, "prune_paths": paths, "proof_bytes": len(proof), "pruned_cells": st.pruned, "kept_cells": st.kept, "original_root_hash": mon.Hex(oh[:])})
		}
	}
}

func main() {
	tier := "quick"
	if len(os.Args) > 1 {
		tier = os.Args[1]
	}
	R = mon.Start("C18", tier)
	R.Rule = "dictionary proofs: tlb.ProveKeyInHashmap for every present key (<=64, else 64 sampled) and up to 32 absent keys of each dictionary (widths 8/16/32/64/256, C05's key-set shapes, written by the reference writer with canonical or mixed labels or by tongo, handed over in memory or through a BOC); generic proofs: MerkleProver cursor API over random DAGs/chains/wide trees with 2-5 prune sets each. Every proof is parsed by the strict reference BOC reader (which also re-derives every level mask), its root must be a type-3 cell with hash and depth of the original root, the pruned tree's level-0 hash/depth must equal them, the proof is walked in parallel with the original (pruned cell == 01 01 hash depth of the replaced sub-tree; other cells identical), the key is looked up inside the proof by the reference dictionary reader, tongo re-reads the proof to the same root hash and decodes the same pairs from it; absent key => error. evaluations = proofs requested; distinct = (original root hash, key | prune paths)"
	R.Assume("reference models harness/ref/cell, ref/boc, ref/dict are correct: pinned at start-up by the Merkle equations and dictionaries of the repository's real data")
	R.Assume("original trees hold ordinary cells only (pruneCells declares trees with exotic cells unsupported)")
	eq, cells, err := realdata.SelfCheck(mon.RepoRoot(), true)
	if err != nil {
		R.HarnessError("reference cell model failed its self-check: %v", err)
		os.Exit(R.Finish())
	}
	st, err := dict.SelfCheck(mon.RepoRoot(), true)
	if err != nil {
		R.HarnessError("reference dictionary model failed its self-check: %v", err)
		os.Exit(R.Finish())
	}
	R.Extra("model_selfcheck", map[string]any{"merkle_equations": eq, "cells": cells, "dictionaries": st})

	type job struct {
		f   func(int)
		idx int
	}
	var jobs []job
	for i := 0; i < R.N(300, 6000); i++ {
		jobs = append(jobs, job{dictCase, i})
	}
	for i := 0; i < R.N(300, 6000); i++ {
		jobs = append(jobs, job{treeCase, i})
	}
	workers := runtime.NumCPU()
	if workers > 16 {
		workers = 16
	}
	ch := make(chan job)
	var wg sync.WaitGroup
	for w := 0; w < workers; w++ {
		wg.Add(1)
		go func() {
			defer wg.Done()
			for j := range ch {
				if p := mon.Guard(func() { j.f(j.idx) }); p != nil {
					R.HarnessError("case %d panicked outside a guarded tongo call: %s\n%s", j.idx, p.Value, mon.Trunc(p.Stack, 1200))
				}
			}
		}()
	}
	for _, j := range jobs {
		ch <- j
	}
	close(ch)
	wg.Wait()
	os.Exit(R.Finish())
}
