// C18 — generated Merkle proofs commit to the original tree and reveal the
// value. Oracle: the proof bytes are read by the strict reference BOC reader
// and hashed by the reference cell model; the proof tree is walked in
// parallel with the original tree; the proven key is looked up inside the
// proof by the reference dictionary reader. See DESIGN.md §5 C18.
package main

import (
	"bytes"
	"fmt"
	"os"
	"reflect"
	"runtime"
	"sync"

	tboc "github.com/tonkeeper/tongo/boc"
	"github.com/tonkeeper/tongo/tlb"

	"verifharness/bridge"
	"verifharness/gen"
	"verifharness/mon"
	rbits "verifharness/ref/bits"
	rboc "verifharness/ref/boc"
	"verifharness/ref/cell"
	"verifharness/ref/dict"
	"verifharness/ref/realdata"
)

var R *mon.Run

// out receives what verifyProof observes: the Run in the main process, the
// worker's sink in the child process of the shared-prover section.
var out mon.Sink
var worker *mon.Worker

func harnessErr(format string, a ...any) {
	if worker != nil {
		worker.HarnessError(fmt.Sprintf(format, a...))
		return
	}
	R.HarnessError(format, a...)
}

// ------------------------------------------------------------------ checking one proof against its original

type proofStats struct {
	pruned, kept int
	keptExotic   int
	// pruned branches that were already part of the tree the proof was made from (a tree taken out of an earlier proof)
	sourcePruned int
	// Merkle proof / update cells of the source tree kept in the proof
	keptMerkle int
}

// prunedFor is the pruned-branch cell that stands for `orig` in a proof made
// from a tree of level 0 or 1: 01 ‖ 01 ‖ hash ‖ depth, hash and depth being
// those of the replaced sub-tree at level zero (for an ordinary sub-tree its
// representation hash; for a sub-tree that itself contains pruned branches,
// the hash of the complete sub-tree it stands for).
func prunedFor(orig *cell.Cell) *cell.Cell {
	return cell.NewPrunedRaw(1, []cell.Hash{orig.HashAt(0)}, []int{orig.DepthAt(0)})
}

// classify how a pruned-branch cell found in a proof differs from the one
// that must replace `orig`.
func prunedDefect(p, orig *cell.Cell) string {
	want := prunedFor(orig)
	if rbits.Equal(p.Bits, want.Bits) && len(p.Refs) == 0 {
		return ""
	}
	if len(p.Bits) != len(want.Bits) || len(p.Refs) != 0 {
		return "size"
	}
	g, w := p.Data(), want.Data()
	switch {
	case g[1] != w[1]:
		return "mask"
	case !bytes.Equal(g[2:34], w[2:34]):
		return "hash"
	case !bytes.Equal(g[34:36], w[34:36]):
		return "depth"
	}
	return "other"
}

func isPruned(c *cell.Cell) bool { return c.Exotic && c.Type() == cell.PrunedBranch }

// minimalPaths drops duplicates and every path that has another requested path as a proper prefix
// (pruning below a pruned position changes nothing).
func minimalPaths(paths [][]int) [][]int {
	key := func(p []int) string { return fmt.Sprint(p) }
	var out [][]int
	seen := map[string]bool{}
	for _, p := range paths {
		covered := false
		for _, q := range paths {
			if len(q) < len(p) {
				same := true
				for i := range q {
					if q[i] != p[i] {
						same = false
						break
					}
				}
				if same {
					covered = true
					break
				}
			}
		}
		if !covered && !seen[key(p)] {
			seen[key(p)] = true
			out = append(out, p)
		}
	}
	return out
}

// checkPositions: the cursor API prunes positions. The proof must have a
// pruned branch at every requested position (unless one of its ancestors was
// requested as well) and nowhere else.
func checkPositions(src string, body, orig *cell.Cell, requested [][]int, wit map[string]any) bool {
	min := minimalPaths(requested)
	expected := int64(0)
	for _, pth := range min {
		p, o := body, orig
		for k, j := range pth {
			if isPruned(p) && !isPruned(o) {
				wit["requested_position"], wit["pruned_at_its_ancestor"] = pth, pth[:k]
				out.Violation("pruned-above-the-requested-position@"+src, wit)
				return false
			}
			if j >= len(p.Refs) || j >= len(o.Refs) {
				harnessErr("requested position %v does not exist in the proof although all kept cells equal the original", pth)
				return false
			}
			p, o = p.Refs[j], o.Refs[j]
		}
		if !isPruned(p) {
			wit["requested_position"] = pth
			out.Violation("requested-position-not-pruned@"+src, wit)
			return false
		}
		if !isPruned(o) {
			expected++
		}
	}
	// number of positions (paths from the root) at which the proof has a pruned branch that the source tree did not have
	type pair struct{ p, o *cell.Cell }
	memo := map[pair]int64{}
	const sat = int64(1) << 40
	var count func(p, o *cell.Cell) int64
	count = func(p, o *cell.Cell) int64 {
		if isPruned(p) {
			if isPruned(o) {
				return 0
			}
			return 1
		}
		if v, ok := memo[pair{p, o}]; ok {
			return v
		}
		var n int64
		for i := range p.Refs {
			if i < len(o.Refs) {
				n += count(p.Refs[i], o.Refs[i])
			}
			if n > sat {
				n = sat
			}
		}
		memo[pair{p, o}] = n
		return n
	}
	if got := count(body, orig); got != expected {
		wit["requested_positions"], wit["positions_pruned_in_the_proof"], wit["positions_expected"] = min, got, expected
		out.Violation("pruned-where-not-requested@"+src, wit)
		return false
	}
	out.Count("prune_positions_verified", expected)
	return true
}

// verifyProof checks everything the property says about the proof bytes
// that does not depend on dictionaries. src names the producer for
// signatures. It returns the pruned tree under the Merkle-proof root.
// requested (nil = not compared) lists the positions pruned through the cursor API.
func verifyProof(src string, proof []byte, orig *cell.Cell, wit map[string]any, requested [][]int) (*cell.Cell, proofStats, bool) {
	var st proofStats
	wit["proof_boc"] = mon.HexTrunc(proof, 1500)
	roots, _, _, err := rboc.Read(proof)
	if err != nil {
		wit["reference_reader"] = err.Error()
		out.Violation("invalid-proof-boc@"+src, wit)
		return nil, st, false
	}
	if len(roots) != 1 {
		wit["roots"] = len(roots)
		out.Violation("proof-root-count@"+src, wit)
		return nil, st, false
	}
	pr := roots[0]
	if !pr.Exotic || pr.Type() != cell.MerkleProof || pr.Err() != nil || len(pr.Refs) != 1 {
		wit["root_type"], wit["root_exotic"], wit["root_bits"] = pr.Type(), pr.Exotic, len(pr.Bits)
		out.Violation("root-not-merkle-proof@"+src, wit)
		return nil, st, false
	}
	d := pr.Data()
	// the commitment is to the tree at level zero: for a tree of ordinary cells its representation hash,
	// for a tree that was itself taken out of a proof the hash of the complete tree it stands for
	oh := orig.HashAt(0)
	od := orig.DepthAt(0)
	if !bytes.Equal(d[1:33], oh[:]) {
		wit["stored_hash"], wit["original_root_hash"] = mon.Hex(d[1:33]), mon.Hex(oh[:])
		out.Violation("root-hash-mismatch@"+src, wit)
		return nil, st, false
	}
	if sd := int(d[33])<<8 | int(d[34]); sd != od {
		wit["stored_depth"], wit["original_root_depth"] = sd, od
		out.Violation("root-depth-mismatch@"+src, wit)
		return nil, st, false
	}
	body := pr.Refs[0]
	// walk the proof and the original in parallel
	// j is the number of Merkle proof / update cells of the source tree above the position: such a cell looks at
	// its children one level higher, so a pruned branch below j of them must answer for the levels 0..j
	type pair struct {
		p, o *cell.Cell
		j    int
	}
	seen := map[pair]bool{}
	ok := true
	isMerkle := func(c *cell.Cell) bool {
		return c.Exotic && (c.Type() == cell.MerkleProof || c.Type() == cell.MerkleUpdate)
	}
	// standsFor: p is a pruned branch that reports, at every level 0..j, the hash and depth of o
	standsFor := func(p, o *cell.Cell, j int) string {
		if !isPruned(p) || p.Err() != nil {
			return "size"
		}
		for l := 0; l <= j; l++ {
			if p.HashAt(l) != o.HashAt(l) {
				return fmt.Sprintf("hash-at-level-%d", l)
			}
			if p.DepthAt(l) != o.DepthAt(l) {
				return fmt.Sprintf("depth-at-level-%d", l)
			}
		}
		return ""
	}
	var walk func(p, o *cell.Cell, path string, j int)
	walk = func(p, o *cell.Cell, path string, j int) {
		if !ok || seen[pair{p, o, j}] {
			return
		}
		seen[pair{p, o, j}] = true
		if j > 2 {
			harnessErr("source tree with more than two nested Merkle cells")
			ok = false
			return
		}
		if isPruned(o) {
			// a pruned branch of the source tree: kept or pruned again, it is the same cell
			// (below a Merkle cell of the source: or a pruned branch that stands for it at the levels 0..j)
			same := p.Exotic && rbits.Equal(p.Bits, o.Bits) && len(p.Refs) == 0
			if !same && !(j > 0 && standsFor(p, o, j) == "") {
				wit["path"], wit["proof_cell"], wit["source_pruned_branch"] = path, mon.Hex(p.Data()), mon.Hex(o.Data())
				out.Violation("pruned-branch-of-the-source-tree-changed@"+src, wit)
				ok = false
				return
			}
			st.sourcePruned++
			return
		}
		if o.Exotic && !p.Exotic {
			wit["path"], wit["original_type"] = path, o.Type()
			out.Violation("exotic-cell-lost-its-type@"+src, wit)
			ok = false
			return
		}
		if p.Exotic && !(o.Exotic && p.Type() == o.Type()) {
			if p.Type() != cell.PrunedBranch {
				wit["path"], wit["type"] = path, p.Type()
				out.Violation("unexpected-exotic-cell@"+src, wit)
				ok = false
				return
			}
			what := ""
			if j == 0 {
				what = prunedDefect(p, o)
			} else {
				what = standsFor(p, o, j)
			}
			if what != "" {
				want := prunedFor(o)
				wit["path"], wit["pruned_cell"], wit["want_at_level_0"], wit["merkle_cells_of_the_source_above"] = path, mon.Hex(p.Data()), mon.Hex(want.Data()), j
				wit["replaced_subtree_depth"], wit["replaced_subtree_refs"] = o.Depth(), len(o.Refs)
				sfx := ""
				if j > 0 {
					sfx = "/below-a-merkle-cell-of-the-source"
				}
				out.Violation("pruned-cell-mismatch/"+what+sfx+"@"+src, wit)
				ok = false
				return
			}
			st.pruned++
			return
		}
		// a cell kept as it is: ordinary, or an exotic cell of the source (library cell, Merkle proof / update cell)
		if !rbits.Equal(p.Bits, o.Bits) || len(p.Refs) != len(o.Refs) {
			wit["path"], wit["proof_cell"], wit["original_cell"] = path, rbits.FiftHex(p.Bits), rbits.FiftHex(o.Bits)
			wit["proof_refs"], wit["original_refs"] = len(p.Refs), len(o.Refs)
			out.Violation("cell-differs-from-original@"+src, wit)
			ok = false
			return
		}
		st.kept++
		if p.Exotic {
			st.keptExotic++
		}
		cj := j
		if isMerkle(o) {
			cj++
			st.keptMerkle++
		}
		for i := range p.Refs {
			walk(p.Refs[i], o.Refs[i], fmt.Sprintf("%s/%d", path, i), cj)
		}
	}
	walk(body, orig, "", 0)
	if !ok {
		return nil, st, false
	}
	// the pruned tree as a whole has, at level zero, the hash and depth of the original root
	if h0 := body.HashAt(0); h0 != oh {
		wit["pruned_tree_hash_level0"], wit["original_root_hash"] = mon.Hex(h0[:]), mon.Hex(oh[:])
		out.Violation("pruned-tree-hash-mismatch@"+src, wit)
		return nil, st, false
	}
	if body.DepthAt(0) != od {
		wit["pruned_tree_depth_level0"], wit["original_root_depth"] = body.DepthAt(0), od
		out.Violation("pruned-tree-depth-mismatch@"+src, wit)
		return nil, st, false
	}
	if requested != nil && !checkPositions(src, body, orig, requested, wit) {
		return nil, st, false
	}
	// tongo's own parse of the proof reports the same root hash (ties C02 to the prover's output)
	var cs []*tboc.Cell
	var th []byte
	var terr error
	if p := mon.Guard(func() {
		cs, terr = tboc.DeserializeBoc(proof)
		if terr == nil && len(cs) == 1 {
			th, terr = cs[0].Hash()
		}
	}); p != nil {
		wit["panic"] = p.Value
		out.Violation("panic@"+p.Site+"/DeserializeBoc(proof)/"+src, wit)
		return nil, st, false
	}
	ph := pr.Hash()
	if terr != nil || len(cs) != 1 || !bytes.Equal(th, ph[:]) {
		wit["err"], wit["tongo_hash"], wit["reference_hash"] = fmt.Sprint(terr), mon.Hex(th), mon.Hex(ph[:])
		out.Violation("tongo-rereads-proof-differently@"+src, wit)
		return nil, st, false
	}
	delete(wit, "proof_boc")
	return body, st, true
}

// ------------------------------------------------------------------ dictionaries

type keyC interface {
	FixedSize() int
	Equal(other any) bool
	Compare(other any) (int, bool)
}

func keyOf[K keyC](b []bool) K {
	var k K
	v := reflect.ValueOf(&k).Elem()
	switch v.Kind() {
	case reflect.Uint8, reflect.Uint16, reflect.Uint32, reflect.Uint64:
		v.SetUint(rbits.ToUint(b))
	case reflect.Array:
		reflect.Copy(v, reflect.ValueOf(rbits.ToBytes(b)))
	default:
		panic("keyOf: unsupported key kind")
	}
	return k
}

func bitsOf[K keyC](k K) []bool {
	v := reflect.ValueOf(k)
	if v.Kind() == reflect.Array {
		bs := make([]byte, v.Len())
		for i := range bs {
			bs[i] = byte(v.Index(i).Uint())
		}
		return rbits.BytesBits(bs)
	}
	return rbits.UintBits(v.Uint(), k.FixedSize())
}

// value kinds: how the leaf value is drawn and which Go type ProveKeyInHashmap is asked for
type valKind struct {
	name  string
	gen   func(r *mon.Rng, i int, room int) dict.Value
	prove func(p *tboc.MerkleProver, root *tboc.Cell, key tboc.BitString) (dict.Value, []byte, error)
	// augmented dictionaries (HashmapAug n X Y): the extra of a leaf, of a fork, and its size for the reference reader
	extra func(r *mon.Rng) dict.Value
	fork  func(l, r dict.Value) dict.Value
	split func(bits []bool, refs []*cell.Cell) (int, int, error)
}

// The augmentation used here: extra = sum:uint16 note:^Cell, a fork carries the sum of its children
// (as the balance in ShardAccounts does) and a note cell of its own, so that forks have data after
// the label and a third reference.
type augExtra struct {
	Sum  uint16
	Note tboc.Cell `tlb:"^"`
}

type augLeaf struct {
	Extra augExtra
	Value uint32
}

func augNote(sum uint64) *cell.Cell { return cell.New(rbits.UintBits(sum^0xa5a5, 16), false) }

func gramsBits(v uint64) []bool {
	l := 0
	for x := v; x > 0; x >>= 8 {
		l++
	}
	return append(rbits.UintBits(uint64(l), 4), rbits.UintBits(v, 8*l)...)
}

func leafTree(r *mon.Rng) *cell.Cell {
	c := cell.New(r.Bits(r.Intn(40)), false)
	for i := 0; i < r.Intn(3); i++ {
		c.Refs = append(c.Refs, cell.New(r.Bits(r.Intn(40)), false))
	}
	return c
}

func proveU32(p *tboc.MerkleProver, root *tboc.Cell, key tboc.BitString) (dict.Value, []byte, error) {
	v, proof, err := tlb.ProveKeyInHashmap[uint32](p, root, key)
	return dict.Value{Bits: rbits.UintBits(uint64(v), 32)}, proof, err
}

func libraryCell(r *mon.Rng) *cell.Cell {
	var h cell.Hash
	copy(h[:], r.Bytes(32))
	return cell.NewLibrary(h)
}

var valKinds = []*valKind{
	// HashmapAug: what tlb.ProveKeyInHashmap is used for in practice (ShardAccounts, the transaction dictionaries of a block)
	{name: "aug-uint32", gen: func(r *mon.Rng, i, room int) dict.Value { return dict.Value{Bits: r.Bits(32)} },
		prove: func(p *tboc.MerkleProver, root *tboc.Cell, key tboc.BitString) (dict.Value, []byte, error) {
			v, proof, err := tlb.ProveKeyInHashmap[augLeaf](p, root, key)
			return dict.Value{Bits: rbits.UintBits(uint64(v.Value), 32)}, proof, err
		},
		extra: func(r *mon.Rng) dict.Value {
			sum := r.Uint64() & 0xffff
			return dict.Value{Bits: rbits.UintBits(sum, 16), Refs: []*cell.Cell{cell.New(r.Bits(r.Intn(30)), false)}}
		},
		fork: func(l, r dict.Value) dict.Value {
			sum := (rbits.ToUint(l.Bits) + rbits.ToUint(r.Bits)) & 0xffff
			return dict.Value{Bits: rbits.UintBits(sum, 16), Refs: []*cell.Cell{augNote(sum)}}
		},
		split: func(bits []bool, refs []*cell.Cell) (int, int, error) {
			if len(bits) < 16 || len(refs) < 1 {
				return 0, 0, fmt.Errorf("extra needs 16 bits and a reference, have %d and %d", len(bits), len(refs))
			}
			return 16, 1, nil
		}},
	// the value references a library cell (an exotic cell that stays in the proof); such a tree exists only as a parsed BOC
	{name: "Any-with-library-ref", gen: func(r *mon.Rng, i, room int) dict.Value {
		v := dict.Value{Bits: r.Bits(r.Intn(min(room, 100) + 1))}
		if i%2 == 0 {
			v.Refs = append(v.Refs, libraryCell(r))
		} else {
			v.Refs = append(v.Refs, cell.New(r.Bits(r.Intn(40)), false, libraryCell(r)))
		}
		return v
	}, prove: func(p *tboc.MerkleProver, root *tboc.Cell, key tboc.BitString) (dict.Value, []byte, error) {
		v, proof, err := tlb.ProveKeyInHashmap[tlb.Any](p, root, key)
		if err != nil {
			return dict.Value{}, proof, err
		}
		c := tboc.Cell(v)
		rc := bridge.FromTongo(&c)
		return dict.Value{Bits: rc.Bits, Refs: rc.Refs}, proof, nil
	}},
	{name: "uint32", gen: func(r *mon.Rng, i, room int) dict.Value { return dict.Value{Bits: r.Bits(32)} }, prove: proveU32},
	// every key carries the same value: equal leaves and sub-trees become one cell when the dictionary travels as a BOC
	{name: "uint32-constant", gen: func(r *mon.Rng, i, room int) dict.Value { return dict.Value{Bits: rbits.UintBits(0xC0FFEE, 32)} }, prove: proveU32},
	{name: "Grams", gen: func(r *mon.Rng, i, room int) dict.Value {
		return dict.Value{Bits: gramsBits(r.Uint64() >> uint(1+r.Intn(63)))}
	}, prove: func(p *tboc.MerkleProver, root *tboc.Cell, key tboc.BitString) (dict.Value, []byte, error) {
		v, proof, err := tlb.ProveKeyInHashmap[tlb.Grams](p, root, key)
		return dict.Value{Bits: gramsBits(uint64(v))}, proof, err
	}},
	{name: "Any", gen: func(r *mon.Rng, i, room int) dict.Value {
		v := dict.Value{Bits: r.Bits(r.Intn(min(room, 200) + 1))}
		for k := 0; k < r.Intn(4); k++ {
			v.Refs = append(v.Refs, leafTree(r))
		}
		return v
	}, prove: func(p *tboc.MerkleProver, root *tboc.Cell, key tboc.BitString) (dict.Value, []byte, error) {
		v, proof, err := tlb.ProveKeyInHashmap[tlb.Any](p, root, key)
		if err != nil {
			return dict.Value{}, proof, err
		}
		c := tboc.Cell(v)
		rc := bridge.FromTongo(&c)
		return dict.Value{Bits: rc.Bits, Refs: rc.Refs}, proof, nil
	}},
}

func sameValue(a, b dict.Value) bool {
	if !rbits.Equal(a.Bits, b.Bits) || len(a.Refs) != len(b.Refs) {
		return false
	}
	for i := range a.Refs {
		if a.Refs[i].Hash() != b.Refs[i].Hash() {
			return false
		}
	}
	return true
}

func showValue(v dict.Value) string {
	s := rbits.FiftHex(v.Bits)
	for _, r := range v.Refs {
		h := r.Hash()
		s += " ^" + mon.Hex(h[:6])
	}
	return mon.Trunc(s, 100)
}

// widthOps: tongo's own encoder and tongo's own decoding of a proof, per key width
type widthOps struct {
	n int
	// HashmapE[K, uint32] built by Put, marshalled; returns the cell holding the HashmapE
	encodeU32 func(keys [][]bool, vals []dict.Value) (*tboc.Cell, error)
	// MerkleProof[Hashmap[K, V]] decoded from the proof root; entries in tongo's order
	decodeProof map[string]func(proofRoot *tboc.Cell) ([]dict.Entry, error)
}

func decodeProofAs[K keyC, V any](abs func(V) dict.Value) func(*tboc.Cell) ([]dict.Entry, error) {
	return func(proofRoot *tboc.Cell) ([]dict.Entry, error) {
		var mp tlb.MerkleProof[tlb.Hashmap[K, V]]
		if err := tlb.Unmarshal(proofRoot, &mp); err != nil {
			return nil, err
		}
		ks, vs := mp.VirtualRoot.Keys(), mp.VirtualRoot.Values()
		if len(ks) != len(vs) {
			return nil, fmt.Errorf("%d keys, %d values", len(ks), len(vs))
		}
		out := make([]dict.Entry, len(ks))
		for i := range ks {
			out[i] = dict.Entry{Key: bitsOf(ks[i]), Val: abs(vs[i])}
		}
		return out, nil
	}
}

func mkWidth[K keyC]() *widthOps {
	var k K
	u32 := decodeProofAs[K, uint32](func(v uint32) dict.Value { return dict.Value{Bits: rbits.UintBits(uint64(v), 32)} })
	return &widthOps{
		n: k.FixedSize(),
		encodeU32: func(keys [][]bool, vals []dict.Value) (*tboc.Cell, error) {
			var d tlb.HashmapE[K, uint32]
			for i := range keys {
				d.Put(keyOf[K](keys[i]), uint32(rbits.ToUint(vals[i].Bits)))
			}
			out := tboc.NewCell()
			return out, tlb.Marshal(out, d)
		},
		decodeProof: map[string]func(*tboc.Cell) ([]dict.Entry, error){
			"uint32": u32, "uint32-constant": u32,
			"Grams": decodeProofAs[K, tlb.Grams](func(v tlb.Grams) dict.Value { return dict.Value{Bits: gramsBits(uint64(v))} }),
			"Any": decodeProofAs[K, tlb.Any](func(v tlb.Any) dict.Value {
				c := tboc.Cell(v)
				rc := bridge.FromTongo(&c)
				return dict.Value{Bits: rc.Bits, Refs: rc.Refs}
			}),
			"Any-with-library-ref": decodeProofAs[K, tlb.Any](func(v tlb.Any) dict.Value {
				c := tboc.Cell(v)
				rc := bridge.FromTongo(&c)
				return dict.Value{Bits: rc.Bits, Refs: rc.Refs}
			}),
		},
	}
}

// byte-aligned widths and widths that are a multiple of neither 8 nor 4 (the statement: key widths 8..256)
var widths = []*widthOps{mkWidth[tlb.Uint8](), mkWidth[tlb.Uint16](), mkWidth[tlb.Uint32](), mkWidth[tlb.Uint64](), mkWidth[tlb.Bits256](),
	mkWidth[tlb.Uint13](), mkWidth[tlb.Uint30](), mkWidth[tlb.Uint61](), mkWidth[tlb.Bits96]()}

func tongoKey(b []bool) tboc.BitString {
	s := tboc.NewBitString(len(b))
	for _, x := range b {
		if err := s.WriteBit(x); err != nil {
			panic("harness: cannot write key bit")
		}
	}
	return s
}

func resetAll(c *tboc.Cell, seen map[*tboc.Cell]bool) {
	if seen[c] {
		return
	}
	seen[c] = true
	c.ResetCounters()
	for _, r := range c.Refs() {
		resetAll(r, seen)
	}
}

// sharedOnPath reports whether, on the way to key, the original tongo tree
// presents one and the same cell object as both children of a fork.
func sharedOnPath(root *tboc.Cell, rd *dict.Reader, key []bool) bool {
	c := root
	pos := 0
	for depth := 0; depth < 1100; depth++ {
		rc := cell.New(bridge.Bits(c.RawBitString()), false)
		label, _, _, err := dict.DecodeLabel(rc.Bits, rd.N-pos)
		if err != nil {
			return false
		}
		pos += len(label)
		refs := c.Refs()
		if pos >= rd.N || len(refs) < 2 {
			return false
		}
		if refs[0] == refs[1] {
			return true
		}
		side := 0
		if key[pos] {
			side = 1
		}
		pos++
		c = refs[side]
	}
	return false
}

// readAll leaves every cell of the tree read to its end (bits and references), the state after a full decode.
func readAll(c *tboc.Cell, seen map[*tboc.Cell]bool) {
	if seen[c] {
		return
	}
	seen[c] = true
	c.ResetCounters()
	c.ReadRemainingBits()
	for {
		if _, err := c.NextRef(); err != nil {
			break
		}
	}
	for _, r := range c.Refs() {
		readAll(r, seen)
	}
}

// reprove takes the dictionary out of a proof (as tongo parses it) and asks for a proof of the same key again.
func reprove(vk *valKind, rd *dict.Reader, proof []byte, complete *cell.Cell, e dict.Entry, wit map[string]any) bool {
	src := "ProveKeyInHashmap(dictionary taken from a proof)"
	wit["key"] = rbits.FiftHex(e.Key)
	wit["first_proof_boc"] = mon.HexTrunc(proof, 1500)
	cs, err := tboc.DeserializeBoc(proof)
	if err != nil || len(cs) != 1 || len(cs[0].Refs()) != 1 {
		R.HarnessError("a verified proof does not parse any more: %v", err)
		return false
	}
	root2 := cs[0].Refs()[0]
	orig2 := bridge.FromTongo(root2)
	if orig2.Err() != nil || orig2.HashAt(0) != complete.HashAt(0) {
		R.HarnessError("the body of a verified proof does not have the level-0 hash of the dictionary")
		return false
	}
	var got dict.Value
	var proof2 []byte
	p := mon.Guard(func() {
		var pv *tboc.MerkleProver
		pv, err = tboc.NewMerkleProver(root2)
		if err != nil {
			return
		}
		got, proof2, err = vk.prove(pv, root2, tongoKey(e.Key))
	})
	if p != nil {
		wit["panic"], wit["stack"] = p.Value, mon.Trunc(p.Stack, 1200)
		R.Violation("panic@"+p.Site+"/"+src, wit)
		return false
	}
	oh := complete.Hash()
	R.Eval(fmt.Sprintf("reprove/%x/%s", oh[:8], dict.KeyString(e.Key)))
	R.Count("proofs_from_dictionaries_taken_out_of_a_proof", 1)
	R.Seen("source_tree_levels", fmt.Sprint(orig2.Level()))
	if err != nil {
		wit["err"] = err.Error()
		R.Violation("error-for-present-key@"+src, wit)
		return false
	}
	if !sameValue(got, e.Val) {
		wit["returned_value"], wit["want"] = showValue(got), showValue(e.Val)
		R.Violation("returned-value-mismatch@"+src, wit)
		return false
	}
	body2, st, ok := verifyProof(src, proof2, orig2, wit, nil)
	if !ok {
		return false
	}
	R.Count("pruned_branches_of_the_source_tree_verified", int64(st.sourcePruned))
	if v, found, lerr := rd.Lookup(body2, e.Key); lerr != nil || !found || !sameValue(v, e.Val) {
		wit["lookup_in_proof"] = fmt.Sprintf("found=%v err=%v value=%s", found, lerr, showValue(v))
		wit["proof_boc"] = mon.HexTrunc(proof2, 1500)
		R.Violation("value-not-recoverable@"+src, wit)
		return false
	}
	return true
}

func dictCase(idx int) {

	r := R.Rng("dict", idx)
	w := widths[idx%len(widths)]
	vk := valKinds[(idx/len(widths))%len(valKinds)]
	shape := dict.Shapes[1+(idx/(len(widths)*len(valKinds))+idx)%(len(dict.Shapes)-1)] // never "empty"
	n := w.n
	keys := dict.GenKeys(r, n, shape, 300)
	if idx%23 == 5 && n >= 64 {
		// a comb: key i has only bit i set, so the path to the last keys forks at (almost) every one of
		// n levels (up to 256) — deeper than any balanced dictionary of this size
		shape = "comb"
		keys = nil
		for i := 0; i < n; i++ {
			k := make([]bool, n)
			k[i] = true
			keys = append(keys, k)
		}
	}
	if len(keys) == 0 {
		return
	}
	maxVal := 1023 - (2 + 10 + n)
	model := map[string]dict.Value{}
	var entries []dict.Entry
	for i, k := range keys {
		v := vk.gen(r, i, maxVal)
		model[dict.KeyString(k)] = v
		e := dict.Entry{Key: k, Val: v}
		if vk.extra != nil {
			e.Extra = vk.extra(r)
		}
		entries = append(entries, e)
	}
	dict.SortEntries(entries)

	// the original dictionary as a tongo cell tree
	source := mon.Pick(r, []string{"reference-canonical", "reference-mixed-labels", "tongo-encoded"})
	if vk.name != "uint32" && vk.name != "uint32-constant" && source == "tongo-encoded" {
		source = "reference-canonical"
	}
	via := mon.Pick(r, []string{"in-memory", "boc"})
	if vk.name == "Any-with-library-ref" {
		via = "boc"
	}
	var root *tboc.Cell
	switch source {
	case "tongo-encoded":
		ks, vs := make([][]bool, len(entries)), make([]dict.Value, len(entries))
		for i, j := range r.Perm(len(entries)) {
			ks[i], vs[i] = entries[j].Key, entries[j].Val
		}
		holder, err := w.encodeU32(ks, vs)
		if err != nil || len(holder.Refs()) != 1 {
			R.HarnessError("tongo could not encode a %d-bit dictionary of %d keys: %v", n, len(ks), err)
			return
		}
		root = holder.Refs()[0]
		if via == "boc" {
			b, err := root.ToBoc()
			if err != nil {
				R.HarnessError("ToBoc: %v", err)
				return
			}
			cs, err := tboc.DeserializeBoc(b)
			if err != nil || len(cs) != 1 {
				R.HarnessError("DeserializeBoc of tongo's own dictionary: %v", err)
				return
			}
			root = cs[0]
		}
	default:
		b := &dict.Builder{N: n, Aug: vk.extra != nil, Fork: vk.fork}
		if source == "reference-mixed-labels" {
			fr := r.Fork("labels", 0)
			b.Choose = func(label []bool, m, depth, room int) dict.Form {
				fs := dict.Feasible(label, m, room)
				if len(fs) == 0 {
					return dict.Canonical
				}
				return mon.Pick(fr, fs)
			}
		}
		rc, _, err := b.Root(entries)
		if err != nil {
			R.HarnessError("reference writer: %v", err)
			return
		}
		if via == "in-memory" {
			root, err = bridge.ToTongoBuilt(rc)
		} else {
			var cs []*tboc.Cell
			cs, _, err = bridge.ToTongoParsed([]*cell.Cell{rc}, rboc.Options{})
			if err == nil {
				root = cs[0]
			}
		}
		if err != nil {
			R.HarnessError("cannot deliver the dictionary to tongo: %v", err)
			return
		}
	}
	orig := bridge.FromTongo(root)
	rd := &dict.Reader{N: n, SplitExtra: vk.split}
	if p, err := rd.Parse(orig); err != nil || len(p.Entries) != len(entries) {
		R.HarnessError("the original dictionary does not read back (%s, %s): %v", source, via, err)
		return
	}
	src := "ProveKeyInHashmap"
	R.Seen("dict_sources", source+"/"+via)
	R.Seen("dict_shapes", shape)
	R.Seen("dict_widths", fmt.Sprint(n))
	R.Seen("dict_value_kinds", vk.name)
	R.Count("dictionaries", 1)
	// State of the read cursors of the dictionary's cells when a proof is asked for: everything rewound,
	// or the state a program leaves behind that has decoded the dictionary (every cell read to its end)
	// and then rewinds the root cell it holds, as it must before reading it again.
	cursors := mon.Pick(r, []string{"all-rewound", "read-to-the-end-then-root-rewound"})
	R.Seen("dict_cursor_states", cursors)
	if cursors != "all-rewound" {
		readAll(root, map[*tboc.Cell]bool{})
	}
	rewind := func() {
		if cursors == "all-rewound" {
			resetAll(root, map[*tboc.Cell]bool{})
			return
		}
		root.ResetCounters()
	}
	base := func() map[string]any {
		w := map[string]any{"case": idx, "key_bits": n, "entries": len(entries), "shape": shape, "value_kind": vk.name, "dictionary_source": source, "delivered": via}
		var ks []string
		for i, e := range entries {
			if i >= 20 {
				ks = append(ks, fmt.Sprintf("...(+%d)", len(entries)-i))
				break
			}
			ks = append(ks, rbits.FiftHex(e.Key)+" => "+showValue(e.Val))
		}
		w["dictionary"] = ks
		if b, err := root.ToBoc(); err == nil {
			w["dictionary_boc"] = mon.HexTrunc(b, 1500)
		}
		return w
	}

	var shared *tboc.MerkleProver
	prover := func() (*tboc.MerkleProver, error) {
		// a fresh prover per proof for small dictionaries, one prover for all proofs otherwise
		if len(entries) <= 16 || shared == nil {
			p, err := tboc.NewMerkleProver(root)
			if len(entries) > 16 {
				shared = p
			}
			return p, err
		}
		return shared, nil
	}

	// ---- present keys: all (<= 64) or 64 sampled
	pick := make([]int, len(entries))
	for i := range pick {
		pick[i] = i
	}
	if len(pick) > 64 {
		pick = r.Perm(len(entries))[:64]
		if shape == "comb" {
			// sorted ascending, the first entries are the keys with the highest bit positions: the deepest leaves
			pick = pick[:0]
			for i := 0; i < 24; i++ {
				pick = append(pick, i)
			}
			for _, i := range r.Perm(len(entries) - 24)[:40] {
				pick = append(pick, 24+i)
			}
		}
	}
	reproved := 0
	for _, i := range pick {
		e := entries[i]
		wit := base()
		wit["key"] = rbits.FiftHex(e.Key)
		var got dict.Value
		var proof []byte
		var err error
		p := mon.Guard(func() {
			var pv *tboc.MerkleProver
			pv, err = prover()
			if err != nil {
				return
			}
			rewind()
			got, proof, err = vk.prove(pv, root, tongoKey(e.Key))
		})
		if p != nil {
			wit["panic"], wit["stack"] = p.Value, mon.Trunc(p.Stack, 1200)
			R.Violation("panic@"+p.Site+"/"+src+"(present key)", wit)
			return
		}
		oh := orig.Hash()
		R.Eval(fmt.Sprintf("present/%x/%s", oh[:8], dict.KeyString(e.Key)))
		R.Count("proofs_present_keys", 1)
		if err != nil {
			wit["err"] = err.Error()
			R.Violation("error-for-present-key@"+src, wit)
			return
		}
		if !sameValue(got, e.Val) {
			wit["returned_value"], wit["want"] = showValue(got), showValue(e.Val)
			R.Violation("returned-value-mismatch@"+src, wit)
			return
		}
		body, st, ok := verifyProof(src, proof, orig, wit, nil)
		if !ok {
			return
		}
		R.Count("pruned_cells_verified", int64(st.pruned))
		R.Count("kept_cells_verified", int64(st.kept))
		// the value is recoverable from the proof alone
		v, found, lerr := rd.Lookup(body, e.Key)
		if lerr != nil || !found || !sameValue(v, e.Val) {
			wit["lookup_in_proof"] = fmt.Sprintf("found=%v err=%v value=%s", found, lerr, showValue(v))
			wit["proof_boc"] = mon.HexTrunc(proof, 1500)
			cls := "wrong-value"
			if lerr == dict.ErrPruned {
				cls = "path-pruned"
				if sharedOnPath(root, rd, e.Key) {
					cls = "path-pruned/fork-with-identical-children"
				}
			} else if lerr != nil {
				cls = "proof-is-not-a-dictionary"
			} else if !found {
				cls = "key-not-in-proof"
			}
			R.Violation("value-not-recoverable/"+cls+"@"+src, wit)
			return
		}
		// tongo's own decoder reads the same pairs out of the proof as the reference does
		pp, perr := (&dict.Reader{N: n, AllowPruned: true, SplitExtra: vk.split}).Parse(body)
		if perr != nil {
			wit["reference_reader"] = perr.Error()
			R.Violation("value-not-recoverable/proof-is-not-a-dictionary@"+src, wit)
			return
		}
		R.Count("entries_visible_in_proofs", int64(len(pp.Entries)))
		if decode := w.decodeProof[vk.name]; decode != nil {
			var dec []dict.Entry
			var derr error
			if p := mon.Guard(func() {
				cs, err := tboc.DeserializeBoc(proof)
				if err != nil {
					derr = err
					return
				}
				dec, derr = decode(cs[0])
			}); p != nil {
				wit["panic"] = p.Value
				R.Violation("panic@"+p.Site+"/Unmarshal(MerkleProof[Hashmap])", wit)
				return
			}
			// The statement asks that the value of the proven key can be decoded from the proof; which other
			// pairs tongo's dictionary decoder lists for a partly pruned dictionary is not part of it (counted).
			var mine *dict.Entry
			for i := range dec {
				if rbits.Equal(dec[i].Key, e.Key) {
					mine = &dec[i]
				}
			}
			if derr != nil || mine == nil || !sameValue(mine.Val, e.Val) {
				wit["err"], wit["tongo_lists"] = fmt.Sprint(derr), len(dec)
				wit["proof_boc"] = mon.HexTrunc(proof, 1500)
				R.Violation("tongo-cannot-decode-the-proven-key-from-the-proof@"+src, wit)
				return
			}
			same := len(dec) == len(pp.Entries)
			for i := 0; same && i < len(dec); i++ {
				same = rbits.Equal(dec[i].Key, pp.Entries[i].Key) && sameValue(dec[i].Val, pp.Entries[i].Val)
			}
			if !same {
				R.Count("outside_statement/tongo_lists_other_pairs_of_a_pruned_dictionary_differently", 1)
			}
		}
		// ---- the dictionary found inside a proof is a dictionary one can prove from again (a tree of level 1):
		// the new proof commits to the level-0 hash of that tree, which is the hash of the complete dictionary
		if reproved < 3 && (i == pick[0] || r.Chance(1, 8)) {
			reproved++
			if !reprove(vk, rd, proof, orig, e, base()) {
				return
			}
		}
		if idx < 40 && i == pick[0] && len(entries) > 2 && len(entries) < 7 {
			R.Sample(map[string]any{"kind": "dictionary proof", "key_bits": n, "entries": len(entries), "key": rbits.FiftHex(e.Key), "value": showValue(e.Val),
				"dictionary_source": source + "/" + via, "proof_bytes": len(proof), "pruned_cells": st.pruned, "kept_cells": st.kept, "original_root_hash": mon.Hex(oh[:])})
		}
	}

	// ---- absent keys: an error, never a proof
	type absent struct {
		key []bool
		tag string
	}
	var abs []absent
	seen := map[string]bool{}
	add := func(k []bool, tag string) {
		ks := dict.KeyString(k)
		if _, in := model[ks]; in || seen[ks] {
			return
		}
		seen[ks] = true
		abs = append(abs, absent{k, tag})
	}
	ones, zeros := make([]bool, n), make([]bool, n)
	for i := range ones {
		ones[i] = true
	}
	add(ones, "beyond-last-key")
	add(zeros, "before-first-key")
	for try := 0; try < 200 && len(abs) < 32; try++ {
		e := entries[r.Intn(len(entries))]
		k := append([]bool(nil), e.Key...)
		switch try % 4 {
		case 0:
			j := r.Intn(n)
			k[j] = !k[j]
			add(k, "one-bit-off-a-present-key")
		case 1:
			k[n-1] = !k[n-1]
			add(k, "last-bit-off-a-present-key")
		case 2:
			t := r.Intn(n)
			copy(k[t:], r.Bits(n-t))
			add(k, "present-prefix-other-tail")
		default:
			add(r.Bits(n), "random")
		}
	}
	for _, a := range abs {
		wit := base()
		wit["key"], wit["absent_key_kind"] = rbits.FiftHex(a.key), a.tag
		var proof []byte
		var err error
		p := mon.Guard(func() {
			var pv *tboc.MerkleProver
			pv, err = prover()
			if err != nil {
				return
			}
			rewind()
			_, proof, err = vk.prove(pv, root, tongoKey(a.key))
		})
		if p != nil {
			wit["panic"], wit["stack"] = p.Value, mon.Trunc(p.Stack, 1200)
			R.Violation("panic@"+p.Site+"/"+src+"(absent key)", wit)
			return
		}
		oh := orig.Hash()
		R.Eval(fmt.Sprintf("absent/%x/%s", oh[:8], dict.KeyString(a.key)))
		R.Count("proofs_absent_keys", 1)
		R.Seen("absent_key_kinds", a.tag)
		if err == nil {
			wit["proof_boc"] = mon.HexTrunc(proof, 1500)
			R.Violation("proof-for-absent-key/"+a.tag+"@"+src, wit)
			return
		}
	}
}

// ------------------------------------------------------------------ generic trees through the cursor API

func treeCase(idx int) {
	r := R.Rng("tree", idx)
	var rootRef *cell.Cell
	kind := mon.Pick(r, []string{"random-dag", "random-dag", "random-dag", "chain", "wide", "single-cell", "with-exotic-leaves", "deep-chain", "with-pruned-branches", "taken-from-a-proof", "with-merkle-cells"})
	// ordinary cells over leaves made by `leaf`
	var over func(d int, leaf func() *cell.Cell) *cell.Cell
	over = func(d int, leaf func() *cell.Cell) *cell.Cell {
		c := cell.New(r.Bits(r.Intn(60)), false)
		for k := 0; k < r.Range(1, 3); k++ {
			switch {
			case d >= 3 || r.Chance(1, 3):
				c.Refs = append(c.Refs, leaf())
			default:
				c.Refs = append(c.Refs, over(d+1, leaf))
			}
		}
		return c
	}
	switch kind {
	case "with-exotic-leaves":
		// ordinary cells over library cells: exotic cells (of level 0) that stay in the proof
		rootRef = over(0, func() *cell.Cell { return libraryCell(r) })
	case "with-pruned-branches":
		// a partial tree (level 1): some sub-trees are pruned branches already, as in a tree received inside a proof
		rootRef = over(0, func() *cell.Cell {
			switch r.Intn(3) {
			case 0:
				return gen.RawPruned(r, 1)
			case 1:
				return libraryCell(r)
			}
			return cell.New(r.Bits(r.Intn(60)), false)
		})
		if rootRef.Level() == 0 {
			rootRef.Refs[0] = gen.RawPruned(r, 1)
			rootRef = cell.New(rootRef.Bits, false, rootRef.Refs...)
		}
	case "with-merkle-cells":
		// a tree that carries a Merkle proof or a Merkle update cell (a message, a block, a dictionary value with a
		// proof inside). tongo may refuse to make a proof from it (it does today: "unsupported cell type"); if it
		// returns one, that proof must commit to the tree like any other, whatever was pruned below the Merkle cell
		partial := func() *cell.Cell {
			x := over(0, func() *cell.Cell {
				if r.Chance(1, 3) {
					return gen.RawPruned(r, 1)
				}
				return cell.New(r.Bits(r.Intn(60)), false)
			})
			return x
		}
		merkle := func() *cell.Cell {
			if r.Chance(1, 3) {
				return cell.NewMerkleUpdate(partial(), partial())
			}
			return cell.NewMerkleProof(partial())
		}
		placed := false
		rootRef = over(0, func() *cell.Cell {
			if !placed || r.Chance(1, 4) {
				placed = true
				return merkle()
			}
			return cell.New(r.Bits(r.Intn(60)), false, cell.New(r.Bits(r.Intn(20)), false))
		})
	case "taken-from-a-proof":
		// the reference prover's output for a random DAG: the body of a proof is itself a tree one can prove from
		full := gen.RandomDag(r, gen.DagOpts{Nodes: r.Range(4, 40), SmallBits: true})
		cut := r.Range(1, 4)
		var prune func(c *cell.Cell, d int) *cell.Cell
		prune = func(c *cell.Cell, d int) *cell.Cell {
			if d > 0 && cut > 0 && r.Chance(1, 3) {
				cut--
				return prunedFor(c)
			}
			n := cell.New(c.Bits, c.Exotic)
			for _, x := range c.Refs {
				n.Refs = append(n.Refs, prune(x, d+1))
			}
			return n
		}
		rootRef = prune(full, 0)
		if rootRef.HashAt(0) != full.Hash() {
			R.HarnessError("reference pruning changed the level-0 hash")
			return
		}
	case "deep-chain":
		// more than 32 steps between the root and the pruned position
		rootRef = cell.New(r.Bits(8), false, cell.New(r.Bits(8), false), cell.New(r.Bits(9), false))
		for i := 0; i < r.Range(33, 90); i++ {
			if r.Bool() {
				rootRef = cell.New(r.Bits(r.Intn(20)), false, rootRef, cell.New(r.Bits(7), false))
			} else {
				rootRef = cell.New(r.Bits(r.Intn(20)), false, cell.New(r.Bits(7), false), rootRef)
			}
		}
	case "random-dag":
		rootRef = gen.RandomDag(r, gen.DagOpts{Nodes: r.Range(2, 60), SmallBits: r.Chance(2, 3)})
	case "chain":
		rootRef = gen.Chain(r, r.Range(1, 300))
	case "wide":
		rootRef = gen.Wide(r, r.Range(5, 200), r.Range(2, 4))
	default:
		rootRef = gen.Leaf(r, false)
	}
	if rootRef.Err() != nil {
		R.HarnessError("generator produced an invalid tree: %v", rootRef.Err())
		return
	}
	if rootRef.Level() > 1 {
		R.HarnessError("generator produced a tree of level %d", rootRef.Level())
		return
	}
	via := mon.Pick(r, []string{"in-memory", "boc"})
	hasExotic := false
	cell.Walk(rootRef, func(c *cell.Cell) { hasExotic = hasExotic || c.Exotic })
	if hasExotic {
		via = "boc"
	}
	var root *tboc.Cell
	var err error
	if via == "in-memory" {
		root, err = bridge.ToTongoBuilt(rootRef)
	} else {
		var cs []*tboc.Cell
		cs, _, err = bridge.ToTongoParsed([]*cell.Cell{rootRef}, rboc.Options{})
		if err == nil {
			root = cs[0]
		}
	}
	if err != nil {
		R.HarnessError("cannot deliver a tree to tongo: %v", err)
		return
	}
	orig := bridge.FromTongo(root)
	if orig.Hash() != rootRef.Hash() {
		R.HarnessError("tree changed on the way to tongo")
		return
	}
	// position of the first Merkle proof / update cell of the source tree (nil: none)
	var merklePath []int
	if kind == "with-merkle-cells" {
		var find func(o *cell.Cell, pth []int) bool
		find = func(o *cell.Cell, pth []int) bool {
			if o.Exotic && (o.Type() == cell.MerkleProof || o.Type() == cell.MerkleUpdate) {
				merklePath = append([]int{}, pth...)
				return true
			}
			for j, x := range o.Refs {
				if find(x, append(pth, j)) {
					return true
				}
			}
			return false
		}
		if !find(orig, nil) || len(merklePath) == 0 {
			R.HarnessError("generator: no Merkle cell below the root of a with-merkle-cells tree")
			return
		}
	}
	R.Seen("tree_kinds", kind+"/"+via)
	R.Seen("source_tree_levels", fmt.Sprint(orig.Level()))
	R.Count("trees", 1)
	src := "MerkleProver.CreateProof"
	sets := r.Range(2, 5)
	// one prover for all prune sets of the tree: every set gets its own Cursor(), all sets are marked first and
	// the proofs are created afterwards, in another order (a prover is read-only, every Cursor() has its own
	// set of positions); or a fresh prover per set
	shareProver := idx%3 == 0
	// a tree with a Merkle cell inside may be refused (an error is not a proof); what is refused is recorded
	refused := func(where string) {
		R.Count("trees_with_merkle_cells_refused", 1)
		R.Seen("trees_with_merkle_cells_refused_at", where)
	}
	var sharedProver *tboc.MerkleProver
	if shareProver {
		if p := mon.Guard(func() { sharedProver, err = tboc.NewMerkleProver(root) }); p != nil || err != nil {
			if p == nil && merklePath != nil {
				refused("NewMerkleProver")
				return
			}
			R.Violation("error@NewMerkleProver", map[string]any{"case": idx, "tree_kind": kind, "err": fmt.Sprint(err, p)})
			return
		}
		R.Count("trees_with_one_prover_and_several_live_cursors", 1)
	}
	treeBoc := ""
	if b, err := rboc.Write([]*cell.Cell{orig}, rboc.Options{}); err == nil {
		treeBoc = mon.HexTrunc(b, 1500)
	}
	type pruneSet struct {
		s      int
		wit    map[string]any
		paths  [][]int
		style  string
		pv     *tboc.MerkleProver
		cur    *tboc.Cursor
		failed bool
	}
	// mark: take a cursor and prune the positions of one set
	mark := func(s int) *pruneSet {
		r := r.Fork("prune-set", s)
		wit := map[string]any{"case": idx, "tree_kind": kind, "delivered": via, "prune_set": s, "one_prover_for_all_sets": shareProver, "tree_boc": treeBoc}
		paths := [][]int{}
		var err error
		style := mon.Pick(r, []string{"few", "few", "many", "root", "none", "nested", "leaves", "siblings-first", "siblings-first"})
		if merklePath != nil {
			style = mon.Pick(r, []string{"below-the-merkle-cell", "below-the-merkle-cell", "below-the-merkle-cell", "beside-the-merkle-cell", "the-merkle-cell-itself", "none", "few", "leaves"})
		}
		ps := &pruneSet{s: s, wit: wit, style: style}
		p := mon.Guard(func() {
			pv := sharedProver
			if pv == nil {
				pv, err = tboc.NewMerkleProver(root)
				if err != nil {
					return
				}
			}
			cur := pv.Cursor()
			ps.pv, ps.cur = pv, cur
			descendFrom := func(c *tboc.Cursor, o *cell.Cell, pth []int, maxDepth int, toLeaf bool) (*tboc.Cursor, *cell.Cell, []int) {
				pth = append([]int(nil), pth...)
				for d := 0; (toLeaf || d < maxDepth) && len(o.Refs) > 0 && d < 400; d++ {
					j := r.Intn(len(o.Refs))
					c, o = c.Ref(j), o.Refs[j]
					pth = append(pth, j)
				}
				return c, o, pth
			}
			descend := func(maxDepth int, toLeaf bool) (*tboc.Cursor, []int) {
				c, _, pth := descendFrom(cur, orig, nil, maxDepth, toLeaf)
				return c, pth
			}
			// the cursor, the reference cell and the path of the first Merkle cell of the source tree
			atMerkle := func() (*tboc.Cursor, *cell.Cell) {
				c, o := cur, orig
				for _, j := range merklePath {
					c, o = c.Ref(j), o.Refs[j]
				}
				return c, o
			}
			switch style {
			case "none":
			case "below-the-merkle-cell":
				for i := 0; i < r.Range(1, 3); i++ {
					c, o := atMerkle()
					j := r.Intn(len(o.Refs))
					c, _, pth := descendFrom(c.Ref(j), o.Refs[j], append(append([]int(nil), merklePath...), j), r.Intn(4), false)
					c.Prune()
					paths = append(paths, pth)
				}
			case "beside-the-merkle-cell":
				// a sibling of the Merkle cell, or of one of its ancestors
				if len(merklePath) > 0 {
					k := r.Intn(len(merklePath))
					c, o := cur, orig
					for _, j := range merklePath[:k] {
						c, o = c.Ref(j), o.Refs[j]
					}
					if len(o.Refs) > 1 {
						j := (merklePath[k] + 1 + r.Intn(len(o.Refs)-1)) % len(o.Refs)
						c.Ref(j).Prune()
						paths = append(paths, append(append([]int(nil), merklePath[:k]...), j))
					}
				}
			case "the-merkle-cell-itself":
				c, _ := atMerkle()
				c.Prune()
				paths = append(paths, append([]int(nil), merklePath...))
			case "root":
				cur.Prune()
				paths = append(paths, []int{})
			case "nested":
				// a node and one of its ancestors
				c, pth := descend(r.Range(2, 8), false)
				c.Prune()
				paths = append(paths, pth)
				if len(pth) > 1 {
					up := pth[:r.Range(1, len(pth)-1)]
					a := cur
					for _, j := range up {
						a = a.Ref(j)
					}
					a.Prune()
					paths = append(paths, up)
				}
			case "siblings-first":
				// cursors are values one keeps: take the cursors of all children of a node (and of some
				// grandchildren) first, decide which of them to prune afterwards, in another order
				type held struct {
					c   *tboc.Cursor
					pth []int
				}
				var hs []held
				for round := 0; round < r.Range(1, 3); round++ {
					c, o, pth := descendFrom(cur, orig, nil, r.Intn(6), false)
					for j := range o.Refs {
						cj := c.Ref(j)
						pj := append(append([]int(nil), pth...), j)
						hs = append(hs, held{cj, pj})
						if r.Bool() {
							for k := range o.Refs[j].Refs {
								hs = append(hs, held{cj.Ref(k), append(append([]int(nil), pj...), k)})
							}
						}
					}
				}
				if len(hs) > 1 {
					R.Count("prune_sets_with_several_cursors_held_before_pruning", 1)
				}
				for _, i := range r.Perm(len(hs)) {
					if r.Chance(1, 2) {
						hs[i].c.Prune()
						paths = append(paths, hs[i].pth)
					}
				}
			default:
				k := r.Range(1, 3)
				if style == "many" {
					k = r.Range(4, 20)
				}
				for i := 0; i < k; i++ {
					c, pth := descend(r.Range(1, 8), style == "leaves")
					if len(pth) == 0 {
						continue
					}
					c.Prune()
					paths = append(paths, pth)
				}
			}
		})
		ps.paths = paths
		wit["prune_paths"], wit["prune_style"] = paths, style
		if p != nil {
			wit["panic"], wit["stack"] = p.Value, mon.Trunc(p.Stack, 1200)
			R.Violation("panic@"+p.Site+"/"+src+"(cursor)", wit)
			ps.failed = true
		} else if err != nil {
			ps.failed = true
			if merklePath != nil {
				refused("NewMerkleProver")
				return ps
			}
			wit["err"] = err.Error()
			R.Violation("error@NewMerkleProver", wit)
		}
		return ps
	}
	// prove: create the proof of a marked set and verify it
	prove := func(ps *pruneSet) {
		if ps.failed {
			return
		}
		s, wit, paths, style := ps.s, ps.wit, ps.paths, ps.style
		var proof []byte
		var err error
		if p := mon.Guard(func() { proof, err = ps.pv.CreateProof(ps.cur) }); p != nil {
			wit["panic"], wit["stack"] = p.Value, mon.Trunc(p.Stack, 1200)
			R.Violation("panic@"+p.Site+"/"+src, wit)
			return
		}
		oh := orig.Hash()
		R.Eval(fmt.Sprintf("tree/%x/%v", oh[:8], paths))
		R.Count("proofs_generic_trees", 1)
		R.Seen("prune_styles", style)
		if err != nil {
			if merklePath != nil {
				refused("CreateProof/" + style)
				return
			}
			wit["err"] = err.Error()
			R.Violation("error@"+src, wit)
			return
		}
		if merklePath != nil {
			R.Count("proofs_returned_for_trees_with_merkle_cells", 1)
			R.Seen("proofs_returned_for_trees_with_merkle_cells_styles", style)
		}
		_, st, ok := verifyProof(src, proof, orig, wit, paths)
		if !ok {
			return
		}
		R.Count("pruned_cells_verified", int64(st.pruned))
		R.Count("kept_cells_verified", int64(st.kept))
		R.Count("pruned_branches_of_the_source_tree_verified", int64(st.sourcePruned))
		R.Count("merkle_cells_of_the_source_tree_kept_in_proofs", int64(st.keptMerkle))
		if idx < 3 && s == 0 {
			R.Sample(map[string]any{"kind": "generic tree proof", "tree_kind": kind, "prune_paths": paths, "proof_bytes": len(proof), "pruned_cells": st.pruned, "kept_cells": st.kept, "original_root_hash": mon.Hex(oh[:])})
		}
	}
	if shareProver {
		var marked []*pruneSet
		for s := 0; s < sets; s++ {
			marked = append(marked, mark(s))
		}
		for _, i := range r.Perm(len(marked)) {
			prove(marked[i])
		}
		return
	}
	for s := 0; s < sets; s++ {
		prove(mark(s))
	}
}

func main() {
	if mon.IsWorker() {
		mon.WorkerMain(map[string]func(*mon.Worker){"shared-prover": sharedWorker})
	}
	tier := "quick"
	if len(os.Args) > 1 {
		tier = os.Args[1]
	}
	R = mon.Start("C18", tier)
	out = R
	R.Rule = "dictionary proofs: tlb.ProveKeyInHashmap for every present key (<=64, else 64 sampled) and up to 32 absent keys of each dictionary (widths 8/16/32/64/256, C05's key-set shapes, written by the reference writer with canonical or mixed labels or by tongo, handed over in memory or through a BOC); generic proofs: MerkleProver cursor API over random DAGs/chains/wide trees with 2-5 prune sets each. Every proof is parsed by the strict reference BOC reader (which also re-derives every level mask), its root must be a type-3 cell with hash and depth of the original root, the pruned tree's level-0 hash/depth must equal them, the proof is walked in parallel with the original (pruned cell == 01 01 hash depth of the replaced sub-tree; other cells identical), the key is looked up inside the proof by the reference dictionary reader, tongo re-reads the proof to the same root hash and decodes the same pairs from it; absent key => error. evaluations = proofs requested; distinct = (original root hash, key | prune paths). Added input classes: key widths 13/30/61/96 (not multiples of 8 or 4); augmented dictionaries (HashmapAug: forks with data after the label and a third reference); a comb over the full key width (256 levels); dictionaries whose cells were read to their end before (only the root rewound); dictionaries and trees that already contain pruned branches (level 1: taken out of an earlier proof) - the proof commits to the level-0 hash and depth of the tree it was made from and a pruned branch of the source is kept as it is; cursor API: all children cursors of a node taken first and pruned later, several live cursors of one prover marked before any proof is created, and the positions of the pruned branches in the proof must be exactly the requested positions (minus those below another requested position); one prover shared by 8 goroutines (child process): each goroutine proves keys from its own parsed copy of the dictionary cells, or prunes positions of a common pool through its own Cursor(), all starting at the same moment; every proof is verified afterwards by the same oracle, a child that dies with a fatal run-time error is a violation fatal@.../shared-prover; source trees that carry a Merkle proof / update cell, with positions pruned below it, beside it and the Merkle cell itself: an error is accepted (counted), a returned proof must verify like any other (a pruned branch below j Merkle cells of the source must report the hash and depth of what it replaces at the levels 0..j)"
	R.Assume("reference models harness/ref/cell, ref/boc, ref/dict are correct: pinned at start-up by the Merkle equations and dictionaries of the repository's real data")
	R.Assume("source trees have level 0 or 1 (ordinary and library cells, and pruned branches of mask 1 as found in the body of a proof); pruned branches of higher levels are not tried; for trees containing Merkle proof / update cells an error instead of a proof is accepted (pruneCells declares them unsupported)")
	R.Assume("a MerkleProver may be used by several goroutines at once as long as each has its own Cursor (and, for ProveKeyInHashmap, its own cell tree to read): the prover is a read-only view of the tree")
	R.Assume("cursor API: Prune() marks the position of the cursor; the proof has pruned branches exactly at the marked positions that are not below another marked position")
	eq, cells, err := realdata.SelfCheck(mon.RepoRoot(), true)
	if err != nil {
		R.HarnessError("reference cell model failed its self-check: %v", err)
		os.Exit(R.Finish())
	}
	st, err := dict.SelfCheck(mon.RepoRoot(), true)
	if err != nil {
		R.HarnessError("reference dictionary model failed its self-check: %v", err)
		os.Exit(R.Finish())
	}
	R.Extra("model_selfcheck", map[string]any{"merkle_equations": eq, "cells": cells, "dictionaries": st})

	type job struct {
		f   func(int)
		idx int
	}
	var jobs []job
	for i := 0; i < R.N(400, 6000); i++ {
		jobs = append(jobs, job{dictCase, i})
	}
	for i := 0; i < R.N(300, 6000); i++ {
		jobs = append(jobs, job{treeCase, i})
	}
	workers := runtime.NumCPU()
	if workers > 16 {
		workers = 16
	}
	ch := make(chan job)
	var wg sync.WaitGroup
	for w := 0; w < workers; w++ {
		wg.Add(1)
		go func() {
			defer wg.Done()
			for j := range ch {
				if p := mon.Guard(func() { j.f(j.idx) }); p != nil {
					R.HarnessError("case %d panicked outside a guarded tongo call: %s\n%s", j.idx, p.Value, mon.Trunc(p.Stack, 1200))
				}
			}
		}()
	}
	for _, j := range jobs {
		ch <- j
	}
	close(ch)
	wg.Wait()
	sectionSharedProver()
	os.Exit(R.Finish())
}
