// One MerkleProver used by several goroutines at the same time.
//
// A prover is a read-only view of the tree it was made from: every Cursor()
// has its own set of positions and CreateProof builds a new tree. Programs
// therefore make one prover per state and answer proof requests on their
// request goroutines. The statement holds for each of those proofs: it
// commits to the root, every pruned branch carries the hash and depth of what
// it replaces, the value of the proven key can be read from it.
//
// The goroutines only call tongo and keep the bytes; every proof is verified
// afterwards, on one goroutine, by the same verifyProof as everywhere else
// (the reference models are not used concurrently). The whole section runs in
// a child process: a run-time abort that cannot be recovered ("concurrent map
// writes") ends the child, and the parent reports it as a violation.
package main

import (
	"encoding/json"
	"fmt"
	"sync"
	"time"

	tboc "github.com/tonkeeper/tongo/boc"
	"github.com/tonkeeper/tongo/tlb"

	"verifharness/bridge"
	"verifharness/gen"
	"verifharness/mon"
	rbits "verifharness/ref/bits"
	rboc "verifharness/ref/boc"
	"verifharness/ref/cell"
	"verifharness/ref/dict"
)

type sharedJob struct {
	From, To int // rounds
	G        int // goroutines sharing the prover of a round
}

const sharedSuffix = "/shared-prover"

type sharedResult struct {
	key    []bool  // dictionary rounds
	paths  [][]int // tree rounds
	val    uint32
	proof  []byte
	err    error
	panicV *mon.Panic
}

func sharedWorker(w *mon.Worker) {
	worker, out = w, w
	var j sharedJob
	if err := json.Unmarshal(w.Job, &j); err != nil || j.G <= 1 || j.To <= j.From {
		w.HarnessError("shared-prover worker: bad job")
		return
	}
	for k := j.From; k < j.To; k++ {
		rng := w.Rng("shared-prover", k)
		var ok bool
		if pn := mon.Guard(func() {
			if k%3 == 2 {
				ok = sharedTreeRound(w, k, rng, j.G)
			} else {
				ok = sharedDictRound(w, k, rng, j.G)
			}
		}); pn != nil {
			w.HarnessError(fmt.Sprintf("shared-prover round %d panicked outside a guarded tongo call: %s\n%s", k, pn.Value, mon.Trunc(pn.Stack, 1200)))
			return
		}
		if !ok {
			// one refuted round is enough: what is broken stays broken for the prover, later rounds repeat it
			return
		}
	}
}

// sharedDictRound: G goroutines, each walking its own parsed copy of the dictionary cells (reading moves the
// cells' cursors), ask one prover for proofs; they start with the same key at the same moment.
func sharedDictRound(w *mon.Worker, k int, rng *mon.Rng, G int) bool {
	n := mon.Pick(rng, []int{16, 32, 64, 256})
	shape := mon.Pick(rng, []string{"random-small", "random-large", "dense-range", "common-prefix", "clustered"})
	keys := dict.GenKeys(rng, n, shape, 60)
	if len(keys) < 2 {
		keys = dict.GenKeys(rng, n, "random-small", 60)
	}
	if len(keys) < 2 {
		return true
	}
	constant := rng.Chance(1, 4)
	var entries []dict.Entry
	for _, key := range keys {
		v := rng.Bits(32)
		if constant {
			v = rbits.UintBits(0xC0FFEE, 32)
		}
		entries = append(entries, dict.Entry{Key: key, Val: dict.Value{Bits: v}})
	}
	dict.SortEntries(entries)
	rc, _, err := (&dict.Builder{N: n}).Root(entries)
	if err != nil {
		w.HarnessError("shared-prover: reference writer: " + err.Error())
		return false
	}
	b, err := rboc.Write([]*cell.Cell{rc}, rboc.Options{})
	if err != nil {
		w.HarnessError("shared-prover: reference BOC writer: " + err.Error())
		return false
	}
	roots := make([]*tboc.Cell, G+1)
	for g := range roots {
		cs, err := tboc.DeserializeBoc(b)
		if err != nil || len(cs) != 1 {
			w.HarnessError(fmt.Sprintf("shared-prover: tongo does not read the dictionary: %v", err))
			return false
		}
		roots[g] = cs[0]
	}
	orig := bridge.FromTongo(roots[G])
	if orig.Hash() != rc.Hash() {
		w.HarnessError("shared-prover: dictionary changed on the way to tongo")
		return false
	}
	var pv *tboc.MerkleProver
	if pn := mon.Guard(func() { pv, err = tboc.NewMerkleProver(roots[G]) }); pn != nil || err != nil {
		w.Violation("error@NewMerkleProver", map[string]any{"round": k, "err": fmt.Sprint(err, pn)})
		return false
	}
	// the plan of every goroutine: two keys common to all of them first (the same sub-trees pruned for the
	// first time by all goroutines at once), then keys of its own
	common := [][]bool{entries[rng.Intn(len(entries))].Key, entries[rng.Intn(len(entries))].Key}
	res := make([][]sharedResult, G)
	for g := 0; g < G; g++ {
		for _, key := range common {
			res[g] = append(res[g], sharedResult{key: key})
		}
		for i := 0; i < 2; i++ {
			res[g] = append(res[g], sharedResult{key: entries[rng.Intn(len(entries))].Key})
		}
	}
	w.Begin(fmt.Sprintf("shared-prover/dictionary/round-%d", k), b)
	start := make(chan struct{})
	var wg sync.WaitGroup
	for g := 0; g < G; g++ {
		wg.Add(1)
		go func(g int) {
			defer wg.Done()
			<-start
			for i := range res[g] {
				r := &res[g][i]
				r.panicV = mon.Guard(func() {
					resetAll(roots[g], map[*tboc.Cell]bool{})
					r.val, r.proof, r.err = tlb.ProveKeyInHashmap[uint32](pv, roots[g], tongoKey(r.key))
				})
			}
		}(g)
	}
	close(start)
	wg.Wait()
	w.End()

	src := "ProveKeyInHashmap" + sharedSuffix
	rd := &dict.Reader{N: n}
	model := map[string]dict.Value{}
	for _, e := range entries {
		model[dict.KeyString(e.Key)] = e.Val
	}
	oh := orig.Hash()
	for g := 0; g < G; g++ {
		for i := range res[g] {
			r := &res[g][i]
			want := model[dict.KeyString(r.key)]
			wit := map[string]any{"round": k, "goroutine": g, "request": i, "goroutines_sharing_the_prover": G, "key_bits": n, "entries": len(entries),
				"shape": shape, "key": rbits.FiftHex(r.key), "dictionary_boc": mon.HexTrunc(b, 1500)}
			w.Eval(fmt.Sprintf("shared/dict/%x/%d/%d/%s", oh[:8], g, i, dict.KeyString(r.key)))
			w.Count("proofs_from_a_prover_shared_by_goroutines", 1)
			if r.panicV != nil {
				wit["panic"], wit["stack"] = r.panicV.Value, mon.Trunc(r.panicV.Stack, 1200)
				w.Violation("panic@"+r.panicV.Site+"/"+src, wit)
				return false
			}
			if r.err != nil {
				wit["err"] = r.err.Error()
				w.Violation("error-for-present-key@"+src, wit)
				return false
			}
			got := dict.Value{Bits: rbits.UintBits(uint64(r.val), 32)}
			if !sameValue(got, want) {
				wit["returned_value"], wit["want"] = showValue(got), showValue(want)
				w.Violation("returned-value-mismatch@"+src, wit)
				return false
			}
			body, st, ok := verifyProof(src, r.proof, orig, wit, nil)
			if !ok {
				return false
			}
			w.Count("pruned_cells_verified", int64(st.pruned))
			w.Count("kept_cells_verified", int64(st.kept))
			if v, found, lerr := rd.Lookup(body, r.key); lerr != nil || !found || !sameValue(v, want) {
				wit["lookup_in_proof"] = fmt.Sprintf("found=%v err=%v value=%s", found, lerr, showValue(v))
				wit["proof_boc"] = mon.HexTrunc(r.proof, 1500)
				w.Violation("value-not-recoverable@"+src, wit)
				return false
			}
		}
	}
	w.Seen("shared_prover_round_kinds", "dictionary")
	return true
}

// sharedTreeRound: the cursor API; every goroutine has its own Cursor() of the one prover and prunes positions
// out of a small common pool, so that the same sub-trees are pruned by several goroutines.
func sharedTreeRound(w *mon.Worker, k int, rng *mon.Rng, G int) bool {
	var rootRef *cell.Cell
	kind := mon.Pick(rng, []string{"random-dag", "random-dag", "wide", "chain"})
	switch kind {
	case "random-dag":
		rootRef = gen.RandomDag(rng, gen.DagOpts{Nodes: rng.Range(4, 50), SmallBits: true})
	case "wide":
		rootRef = gen.Wide(rng, rng.Range(5, 80), rng.Range(2, 4))
	default:
		rootRef = gen.Chain(rng, rng.Range(3, 60))
	}
	if rootRef.Err() != nil {
		w.HarnessError("shared-prover: generator produced an invalid tree")
		return false
	}
	b, err := rboc.Write([]*cell.Cell{rootRef}, rboc.Options{})
	if err != nil {
		w.HarnessError("shared-prover: reference BOC writer: " + err.Error())
		return false
	}
	var root *tboc.Cell
	if rng.Bool() {
		root, err = bridge.ToTongoBuilt(rootRef)
	} else {
		var cs []*tboc.Cell
		if cs, err = tboc.DeserializeBoc(b); err == nil {
			root = cs[0]
		}
	}
	if err != nil {
		w.HarnessError("shared-prover: cannot deliver a tree to tongo: " + err.Error())
		return false
	}
	orig := bridge.FromTongo(root)
	if orig.Hash() != rootRef.Hash() {
		w.HarnessError("shared-prover: tree changed on the way to tongo")
		return false
	}
	var pv *tboc.MerkleProver
	if pn := mon.Guard(func() { pv, err = tboc.NewMerkleProver(root) }); pn != nil || err != nil {
		w.Violation("error@NewMerkleProver", map[string]any{"round": k, "err": fmt.Sprint(err, pn)})
		return false
	}
	var pool [][]int
	for i := 0; i < rng.Range(2, 6); i++ {
		o := orig
		var pth []int
		for d := 0; d < rng.Range(1, 6) && len(o.Refs) > 0; d++ {
			j := rng.Intn(len(o.Refs))
			o = o.Refs[j]
			pth = append(pth, j)
		}
		if len(pth) > 0 {
			pool = append(pool, pth)
		}
	}
	if len(pool) == 0 {
		return true
	}
	res := make([]sharedResult, G)
	for g := range res {
		res[g].paths = [][]int{pool[0]}
		for _, p := range pool[1:] {
			if rng.Chance(2, 3) {
				res[g].paths = append(res[g].paths, p)
			}
		}
	}
	w.Begin(fmt.Sprintf("shared-prover/tree/round-%d", k), b)
	start := make(chan struct{})
	var wg sync.WaitGroup
	for g := 0; g < G; g++ {
		wg.Add(1)
		go func(g int) {
			defer wg.Done()
			r := &res[g]
			<-start
			r.panicV = mon.Guard(func() {
				cur := pv.Cursor()
				for _, pth := range r.paths {
					c := cur
					for _, j := range pth {
						c = c.Ref(j)
					}
					c.Prune()
				}
				r.proof, r.err = pv.CreateProof(cur)
			})
		}(g)
	}
	close(start)
	wg.Wait()
	w.End()

	src := "MerkleProver.CreateProof" + sharedSuffix
	oh := orig.Hash()
	for g := range res {
		r := &res[g]
		wit := map[string]any{"round": k, "goroutine": g, "goroutines_sharing_the_prover": G, "tree_kind": kind, "prune_paths": r.paths, "tree_boc": mon.HexTrunc(b, 1500)}
		w.Eval(fmt.Sprintf("shared/tree/%x/%d/%v", oh[:8], g, r.paths))
		w.Count("proofs_from_a_prover_shared_by_goroutines", 1)
		if r.panicV != nil {
			wit["panic"], wit["stack"] = r.panicV.Value, mon.Trunc(r.panicV.Stack, 1200)
			w.Violation("panic@"+r.panicV.Site+"/"+src, wit)
			return false
		}
		if r.err != nil {
			wit["err"] = r.err.Error()
			w.Violation("error@"+src, wit)
			return false
		}
		_, st, ok := verifyProof(src, r.proof, orig, wit, r.paths)
		if !ok {
			return false
		}
		w.Count("pruned_cells_verified", int64(st.pruned))
		w.Count("kept_cells_verified", int64(st.kept))
	}
	w.Seen("shared_prover_round_kinds", "tree/"+kind)
	return true
}

func sectionSharedProver() {
	rounds := R.N(600, 8000)
	const G = 8
	const children = 4
	var jobs []mon.Job
	for c := 0; c < children; c++ {
		jobs = append(jobs, mon.Job{Name: "shared-prover", Input: sharedJob{From: rounds * c / children, To: rounds * (c + 1) / children, G: G}})
	}
	R.RunJobs(jobs, mon.ChildOpts{Parallel: 2, Timeout: 10 * time.Minute}, func(c mon.Crash) {
		if c.TimedOut {
			R.Inconclusive("shared-prover section: the child's watchdog fired (machine too slow?)")
			return
		}
		R.Violation("fatal@"+mon.FatalClass(c.Stderr)+sharedSuffix, map[string]any{"exit": c.ExitInfo, "pending_case": c.Case, "tree_or_dictionary_boc": mon.HexTrunc(c.Input, 1500),
			"stderr": mon.Trunc(c.Stderr, 3000), "goroutines_sharing_the_prover": G})
	})
}
