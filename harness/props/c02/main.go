// C02 — cell hash, depth and level follow the representation-hash
// definition. Oracle: harness/ref/cell (validated against the Merkle
// equations of the real data at start-up). See DESIGN.md §5 C02.
package main

import (
	"bytes"
	"fmt"
	"os"
	"strings"

	tboc "github.com/tonkeeper/tongo/boc"
	"github.com/tonkeeper/tongo/tlb"

	"verifharness/bridge"
	"verifharness/gen"
	"verifharness/mon"
	rbits "verifharness/ref/bits"
	rboc "verifharness/ref/boc"
	"verifharness/ref/cell"
	"verifharness/ref/realdata"
)

var R *mon.Run

func typeName(c *cell.Cell) string {
	switch c.Type() {
	case cell.Ordinary:
		return "ordinary"
	case cell.PrunedBranch:
		return "pruned"
	case cell.Library:
		return "library"
	case cell.MerkleProof:
		return "merkle-proof"
	case cell.MerkleUpdate:
		return "merkle-update"
	}
	return "?"
}

// pairUp walks a tongo tree and a reference tree in parallel and returns the
// distinct (tongo cell, reference cell) pairs, children before parents.
func pairUp(t *tboc.Cell, r *cell.Cell) (ts []*tboc.Cell, rs []*cell.Cell, ok bool) {
	seen := map[*tboc.Cell]bool{}
	ok = true
	var walk func(t *tboc.Cell, r *cell.Cell, d int)
	walk = func(t *tboc.Cell, r *cell.Cell, d int) {
		if seen[t] || !ok {
			return
		}
		seen[t] = true
		tr := t.Refs()
		if len(tr) != len(r.Refs) || d > 1100 {
			ok = false
			return
		}
		for i := range tr {
			walk(tr[i], r.Refs[i], d+1)
		}
		ts = append(ts, t)
		rs = append(rs, r)
	}
	walk(t, r, 0)
	return
}

// checkTree compares every node's hash and level. source names how tongo
// obtained the tree (for signatures).
func checkTree(source string, t *tboc.Cell, r *cell.Cell, fresh bool, wit map[string]any) {
	if d := bridge.Diff(t, r); d != "" {
		wit["diff"] = d
		R.Violation("structure-mismatch@"+source, wit)
		return
	}
	ts, rs, ok := pairUp(t, r)
	if !ok {
		R.Violation("structure-mismatch@"+source, wit)
		return
	}
	hasher := tboc.NewHasher()
	for i := range ts {
		tc, rc := ts[i], rs[i]
		want := rc.Hash()
		cls := fmt.Sprintf("%s/mask%d", typeName(rc), rc.Mask())
		R.Seen("cell_classes", cls)
		var got []byte
		var err error
		p := mon.Guard(func() { got, err = hasher.Hash(tc) })
		if p != nil {
			wit["panic"], wit["class"] = p.Value, cls
			R.Violation("panic@"+p.Site+"/Hasher.Hash/"+source, wit)
			return
		}
		R.Eval("h/" + string(want[:8]))
		if err != nil {
			wit["err"], wit["class"] = err.Error(), cls
			R.Violation("error@Hasher.Hash/"+source+"/"+cls, wit)
			return
		}
		if !bytes.Equal(got, want[:]) {
			wit["got"], wit["want"], wit["class"], wit["bits"], wit["refs"] = mon.Hex(got), mon.Hex(want[:]), cls, len(rc.Bits), len(rc.Refs)
			R.Violation("hash-mismatch@"+source+"/"+cls, wit)
			return
		}
		if lv := tc.Level(); lv != rc.Level() {
			wit["got_level"], wit["want_level"], wit["class"] = lv, rc.Level(), cls
			R.Violation("level-mismatch@"+source+"/"+cls, wit)
			return
		}
		if fresh || i == len(ts)-1 {
			// no caching hasher
			var g2 []byte
			p := mon.Guard(func() { g2, err = tc.Hash() })
			if p != nil || err != nil || !bytes.Equal(g2, want[:]) {
				wit["class"] = cls
				R.Violation("hash-mismatch@Cell.Hash-vs-Hasher/"+source, wit)
				return
			}
			var hs string
			mon.Guard(func() { hs, err = tc.HashString() })
			if hs != mon.Hex(want[:]) {
				R.Violation("hash-mismatch@Cell.HashString/"+source, wit)
				return
			}
			h256, _ := tc.Hash256()
			if h256 != want {
				R.Violation("hash-mismatch@Cell.Hash256/"+source, wit)
				return
			}
		}
	}
}

func sectionSynthetic() {
	n := R.N(300, 30000)
	for i := 0; i < n; i++ {
		rng := R.Rng("dag", i)
		o := gen.DagOpts{Nodes: rng.Range(1, 120), Exotic: i%4 != 0, SmallBits: rng.Chance(1, 3)}
		root := gen.RandomDag(rng, o)
		if root.Err() != nil {
			R.HarnessError("generator produced an invalid DAG: %v", root.Err())
			return
		}
		wo := rboc.Options{Index: rng.Bool(), CRC: rng.Bool()}
		if rng.Chance(1, 3) {
			wo.WithHashes = func(int, *cell.Cell) bool { return rng.Bool() }
		}
		wit := map[string]any{"dag": i, "nodes": o.Nodes, "exotic": o.Exotic}
		var ts []*tboc.Cell
		var raw []byte
		var err error
		p := mon.Guard(func() { ts, raw, err = bridge.ToTongoParsed([]*cell.Cell{root}, wo) })
		if p != nil {
			wit["panic"], wit["boc"] = p.Value, mon.HexTrunc(raw, 4096)
			R.Violation("panic@"+p.Site+"/DeserializeBoc(reference BOC)", wit)
			continue
		}
		if err != nil || len(ts) != 1 {
			wit["err"] = fmt.Sprint(err)
			R.Violation("error@DeserializeBoc(reference BOC)", wit)
			continue
		}
		wit["boc"] = mon.HexTrunc(raw, 2048)
		checkTree("parsed", ts[0], root, o.Nodes <= 40, wit)
		if i < 2 {
			R.Sample(map[string]any{"kind": "synthetic DAG", "nodes": o.Nodes, "exotic": o.Exotic, "root_mask": root.Mask(), "root_hash": mon.Hex(hs(root.Hash())), "boc_bytes": len(raw)})
		}
		// (c) interference: reads between two hash calls; (d) cache reuse in random order
		interference(ts[0], root, rng, wit)
		// copies handed out by the readers are values of their own
		copiesAreIndependent("parsed", ts[0], root, rng, wit)
		if i%4 == 1 {
			multiRootHasher(root, rng, wo, map[string]any{"dag": i, "nodes": o.Nodes})
		}
	}
}

func hs(h cell.Hash) []byte { return h[:] }

func interference(t *tboc.Cell, r *cell.Cell, rng *mon.Rng, wit map[string]any) {
	ts, rs, ok := pairUp(t, r)
	if !ok {
		return
	}
	hasher := tboc.NewHasher()
	for k := 0; k < 12 && k < len(ts); k++ {
		j := rng.Intn(len(ts))
		tc, rc := ts[j], rs[j]
		var trace []string
		p := mon.Guard(func() {
			for s := 0; s < rng.Range(1, 6); s++ {
				switch rng.Intn(19) {
				case 0:
					w := rng.Intn(65)
					tc.ReadUint(w)
					trace = append(trace, fmt.Sprintf("ReadUint(%d)", w))
				case 1:
					w := rng.Intn(300)
					tc.ReadBits(w)
					trace = append(trace, fmt.Sprintf("ReadBits(%d)", w))
				case 2:
					tc.NextRef()
					trace = append(trace, "NextRef")
				case 3:
					w := rng.Intn(100)
					tc.Skip(w)
					trace = append(trace, fmt.Sprintf("Skip(%d)", w))
				case 4:
					tc.ResetCounters()
					trace = append(trace, "ResetCounters")
				case 5:
					tc.CopyRemaining()
					trace = append(trace, "CopyRemaining")
				case 6:
					tc.ReadBytes(rng.Intn(5))
					trace = append(trace, "ReadBytes")
				case 7:
					tc.PickUint(rng.Intn(33))
					trace = append(trace, "PickUint")
				case 8:
					tc.ReadRemainingBits()
					trace = append(trace, "ReadRemainingBits")
				case 9:
					tc.ReadBit()
					trace = append(trace, "ReadBit")
				case 10:
					w := rng.Range(1, 64)
					tc.ReadInt(w)
					trace = append(trace, fmt.Sprintf("ReadInt(%d)", w))
				case 11:
					w := rng.Range(1, 300)
					tc.ReadBigInt(w)
					trace = append(trace, fmt.Sprintf("ReadBigInt(%d)", w))
				case 12:
					w := rng.Range(1, 300)
					tc.ReadBigUint(w)
					trace = append(trace, fmt.Sprintf("ReadBigUint(%d)", w))
				case 13:
					tc.ReadUnary()
					trace = append(trace, "ReadUnary")
				case 14:
					m := rng.Range(1, 100000)
					tc.ReadLimUint(m)
					trace = append(trace, fmt.Sprintf("ReadLimUint(%d)", m))
				case 15:
					tc.GetLibraryHash()
					trace = append(trace, "GetLibraryHash")
				case 16:
					tc.GetMerkleRoot()
					trace = append(trace, "GetMerkleRoot")
				case 17:
					w := rng.Intn(129)
					tc.ReadBytes(w)
					trace = append(trace, fmt.Sprintf("ReadBytes(%d)", w))
				case 18:
					tc.BitsAvailableForRead()
					tc.RefsAvailableForRead()
					tc.BitSize()
					tc.RawBitString()
					trace = append(trace, "inspect")
				}
			}
		})
		if p != nil {
			// a panic in a reader is C06's business only if reads are in-domain; here widths are
			// legal, so report it
			wit["panic"], wit["trace"] = p.Value, trace
			R.Violation("panic@"+p.Site+"/read-between-hashes", wit)
			return
		}
		for _, op := range trace {
			if k := strings.IndexByte(op, '('); k >= 0 {
				op = op[:k]
			}
			R.Seen("interference_ops", typeName(rc)+"/"+op)
		}
		want := rc.Hash()
		got, err := tc.Hash()
		R.Eval("i/" + string(want[:8]) + fmt.Sprint(trace))
		if err != nil || !bytes.Equal(got, want[:]) {
			wit["trace"] = trace
			R.Violation("hash-changed-after-reads", wit)
			return
		}
		g2, err := hasher.Hash(tc)
		if err != nil || !bytes.Equal(g2, want[:]) {
			R.Violation("hash-mismatch@Hasher(random-order)", wit)
			return
		}
		s1, _ := hasher.HashString(tc)
		s2, _ := hasher.HashString(tc)
		if s1 != mon.Hex(want[:]) || s2 != s1 {
			R.Violation("hash-mismatch@Hasher.HashString", wit)
			return
		}
	}
}

// (f) every bit length 0..1023 with several fills: completion-tag handling
func sectionLengths() {
	for L := 0; L <= 1023; L++ {
		for pk := 0; pk < 3; pk++ {
			rng := R.Rng("len", L*3+pk)
			var bitsv []bool
			switch pk {
			case 0:
				bitsv = make([]bool, L)
			case 1:
				bitsv = rng.Bits(L)
			default:
				bitsv = make([]bool, L)
				for i := range bitsv {
					bitsv[i] = true
				}
			}
			rc := cell.New(bitsv, false)
			wit := map[string]any{"bits": L, "pattern": pk}
			// path 1: built in memory
			tc, err := bridge.ToTongoBuilt(rc)
			if err != nil {
				R.Violation("error@build/length", wit)
				continue
			}
			want := rc.Hash()
			got, err := tc.Hash()
			R.Eval(fmt.Sprintf("len/%d/%d", L, pk))
			if err != nil || !bytes.Equal(got, want[:]) {
				wit["got"], wit["want"] = mon.Hex(got), mon.Hex(want[:])
				R.Violation("hash-mismatch@built/ordinary/length", wit)
			}
			// path 2: NewCellWithBits(ReadBits(n)) from aligned and unaligned cursors of a longer string
			for _, skip := range []int{0, 8, 3} {
				if skip+L+9 > 1023 {
					continue
				}
				src := tboc.NewCell()
				all := append(append(ones(skip), bitsv...), ones(9)...)
				for _, b := range all {
					src.WriteBit(b)
				}
				src.Skip(skip)
				var sub tboc.BitString
				var c2 *tboc.Cell
				p := mon.Guard(func() {
					sub, err = src.ReadBits(L)
					if err == nil {
						c2 = tboc.NewCellWithBits(sub)
					}
				})
				if p != nil || err != nil {
					wit["skip"] = skip
					R.Violation("error@NewCellWithBits(ReadBits)", wit)
					continue
				}
				got, err := c2.Hash()
				R.Eval("")
				if err != nil || !bytes.Equal(got, want[:]) {
					wit["skip"], wit["got"], wit["want"] = skip, mon.Hex(got), mon.Hex(want[:])
					al := "unaligned"
					if skip%8 == 0 {
						al = "aligned"
					}
					R.Violation("hash-mismatch@NewCellWithBits(ReadBits)/"+al, wit)
				}
			}
		}
	}
}

func ones(n int) []bool {
	o := make([]bool, n)
	for i := range o {
		o[i] = true
	}
	return o
}

// (e) construction paths for ordinary DAGs
func sectionPaths() {
	n := R.N(200, 20000)
	for i := 0; i < n; i++ {
		rng := R.Rng("paths", i)
		root := gen.RandomDag(rng, gen.DagOpts{Nodes: rng.Range(1, 40), SmallBits: rng.Bool()})
		want := root.Hash()
		wit := map[string]any{"dag": i}
		// built in memory
		tc, err := bridge.ToTongoBuilt(root)
		if err != nil {
			R.Violation("error@build", wit)
			continue
		}
		checkTree("built", tc, root, true, wit)
		// reads between hashes and written-to copies, on cells that were built in memory
		interference(tc, root, rng, wit)
		copiesAreIndependent("built", tc, root, rng, wit)
		tc.ResetCounters()
		// CopyRemaining at cursor 0 is the same abstract cell
		var cp *tboc.Cell
		if p := mon.Guard(func() { tc.ResetCounters(); cp = tc.CopyRemaining() }); p != nil {
			R.Violation("panic@"+p.Site+"/CopyRemaining", wit)
		} else {
			got, err := cp.Hash()
			R.Eval("cp/" + string(want[:8]))
			if err != nil || !bytes.Equal(got, want[:]) {
				R.Violation("hash-mismatch@CopyRemaining", wit)
			}
		}
		// CopyRemaining at a random cursor = the cell holding the remaining bits and refs
		cur := rng.Intn(len(root.Bits) + 1)
		rc := rng.Intn(len(root.Refs) + 1)
		tc.ResetCounters()
		tc.Skip(cur)
		for k := 0; k < rc; k++ {
			tc.NextRef()
		}
		exp := cell.New(root.Bits[cur:], false, root.Refs[rc:]...)
		if p := mon.Guard(func() { cp = tc.CopyRemaining() }); p == nil {
			got, err := cp.Hash()
			w2 := exp.Hash()
			R.Eval(fmt.Sprintf("cpr/%d/%d/", cur%8, rc) + string(w2[:8]))
			if err != nil || !bytes.Equal(got, w2[:]) {
				wit["cursor"], wit["refcursor"] = cur, rc
				al := "unaligned"
				if cur%8 == 0 {
					al = "aligned"
				}
				R.Violation("hash-mismatch@CopyRemaining/"+al+"-cursor", wit)
			}
		}
		tc.ResetCounters()
		// tlb.Any round trip: Marshal(Any(cell)) gives a cell with the same content
		var viaAny *tboc.Cell
		if p := mon.Guard(func() {
			out := tboc.NewCell()
			err = tlb.Marshal(out, tlb.Any(*tc))
			viaAny = out
		}); p != nil {
			wit["panic"] = p.Value
			R.Violation("panic@"+p.Site+"/tlb.Marshal(Any)", wit)
		} else if err == nil {
			got, herr := viaAny.Hash()
			R.Eval("any/" + string(want[:8]))
			if herr != nil || !bytes.Equal(got, want[:]) {
				R.Violation("hash-mismatch@tlb.Any", wit)
			}
			var back tlb.Any
			viaAny.ResetCounters()
			if err := tlb.Unmarshal(viaAny, &back); err == nil {
				bc := tboc.Cell(back)
				got, herr := bc.Hash()
				if herr != nil || !bytes.Equal(got, want[:]) {
					R.Violation("hash-mismatch@tlb.Any/decoded", wit)
				}
			}
		}
		// serialise with tongo, parse with tongo: same hash
		if b, err := tc.ToBoc(); err == nil {
			if cs, err := tboc.DeserializeBoc(b); err == nil && len(cs) == 1 {
				got, herr := cs[0].Hash()
				R.Eval("rt/" + string(want[:8]))
				if herr != nil || !bytes.Equal(got, want[:]) {
					R.Violation("hash-mismatch@ToBoc-DeserializeBoc", wit)
				}
			}
		}
	}
}

// proof builder output: the Merkle proof produced by tongo, parsed by tongo,
// must hash (per node) as the reference says for the same structure
func sectionProver() {
	n := R.N(150, 15000)
	for i := 0; i < n; i++ {
		rng := R.Rng("prover", i)
		root := gen.RandomDag(rng, gen.DagOpts{Nodes: rng.Range(2, 40), SmallBits: true})
		tc, err := bridge.ToTongoBuilt(root)
		if err != nil {
			continue
		}
		wit := map[string]any{"dag": i}
		var proof []byte
		var path []int
		p := mon.Guard(func() {
			var pr *tboc.MerkleProver
			pr, err = tboc.NewMerkleProver(tc)
			if err != nil {
				return
			}
			cur := pr.Cursor()
			// prune a few random sub-trees
			for k := 0; k < rng.Range(1, 4); k++ {
				c := cur
				rcur := root
				var pth []int
				for d := 0; d < rng.Range(1, 6) && len(rcur.Refs) > 0; d++ {
					j := rng.Intn(len(rcur.Refs))
					c = c.Ref(j)
					rcur = rcur.Refs[j]
					pth = append(pth, j)
				}
				if len(pth) > 0 {
					c.Prune()
					path = append(path, pth...)
					path = append(path, -1)
				}
			}
			proof, err = pr.CreateProof(cur)
		})
		if p != nil {
			wit["panic"] = p.Value
			R.Violation("panic@"+p.Site+"/MerkleProver", wit)
			continue
		}
		if err != nil {
			continue
		}
		wit["prune_paths"] = path
		// reference reads the proof (strictly) and hashes it; tongo parses and hashes it
		rroots, _, _, rerr := rboc.Read(proof)
		if rerr != nil {
			wit["err"] = rerr.Error()
			R.Violation("invalid-proof-boc@MerkleProver.CreateProof", wit)
			continue
		}
		cs, err := tboc.DeserializeBoc(proof)
		if err != nil || len(cs) != 1 {
			R.Violation("error@DeserializeBoc(proof)", wit)
			continue
		}
		checkTree("prover-output", cs[0], rroots[0], true, wit)
	}
}

// the proof builder over trees that hold library cells: the kept cells of the proof, as tongo
// parses and hashes them, are the original cells (same type, same hash), and the virtual root
// hashes at level 0 to the original root hash
func sectionProverExotic() {
	n := R.N(120, 12000)
	for i := 0; i < n; i++ {
		rng := R.Rng("prover-exotic", i)
		var mk func(d int) *cell.Cell
		mk = func(d int) *cell.Cell {
			c := cell.New(rng.Bits(rng.Intn(80)), false)
			for k := 0; k < rng.Range(1, 3); k++ {
				if d >= 3 || rng.Chance(1, 3) {
					var h cell.Hash
					copy(h[:], rng.Bytes(32))
					c.Refs = append(c.Refs, cell.NewLibrary(h))
				} else {
					c.Refs = append(c.Refs, mk(d+1))
				}
			}
			return c
		}
		root := mk(0)
		ts, _, err := bridge.ToTongoParsed([]*cell.Cell{root}, rboc.Options{})
		if err != nil || len(ts) != 1 {
			R.HarnessError("deliver: %v", err)
			return
		}
		wit := map[string]any{"tree": i}
		var proof []byte
		p := mon.Guard(func() {
			var pr *tboc.MerkleProver
			pr, err = tboc.NewMerkleProver(ts[0])
			if err != nil {
				return
			}
			cur := pr.Cursor()
			c, o := cur, root
			for d := 0; d < rng.Range(1, 3) && len(o.Refs) > 0; d++ {
				j := rng.Intn(len(o.Refs))
				c, o = c.Ref(j), o.Refs[j]
			}
			if o != root && !o.Exotic {
				c.Prune()
			}
			proof, err = pr.CreateProof(cur)
		})
		if p != nil {
			wit["panic"] = p.Value
			R.Violation("panic@"+p.Site+"/MerkleProver(library leaves)", wit)
			continue
		}
		if err != nil {
			continue
		}
		rroots, _, _, rerr := rboc.Read(proof)
		if rerr != nil || len(rroots) != 1 || len(rroots[0].Refs) != 1 {
			wit["err"] = fmt.Sprint(rerr)
			R.Violation("invalid-proof-boc@MerkleProver.CreateProof(library leaves)", wit)
			continue
		}
		want := root.Hash()
		if h0 := rroots[0].Refs[0].HashAt(0); h0 != want {
			wit["virtual_root_hash"], wit["original_root_hash"] = mon.Hex(h0[:]), mon.Hex(want[:])
			R.Violation("hash-mismatch@prover-output/virtual-root-vs-original", wit)
			continue
		}
		cs, err := tboc.DeserializeBoc(proof)
		if err != nil || len(cs) != 1 {
			R.Violation("error@DeserializeBoc(proof)", wit)
			continue
		}
		checkTree("prover-output-with-library-cells", cs[0], rroots[0], true, wit)
	}
}

func sectionReal() {
	files, err := realdata.Files(mon.RepoRoot(), true)
	if err != nil {
		R.HarnessError("real data: %v", err)
		return
	}
	for _, f := range files {
		if !R.Thorough() && len(f.Bytes) > 100_000 &&
			f.Name != "tlb/testdata/block-1/block.bin" && f.Name != "tlb/testdata/block-3/block.bin" {
			continue
		}
		rroots, all, _, err := rboc.Read(f.Bytes)
		if err != nil {
			R.HarnessError("reference reader rejects %s: %v", f.Name, err)
			return
		}
		wit := map[string]any{"file": f.Name}
		var cs []*tboc.Cell
		p := mon.Guard(func() { cs, err = tboc.DeserializeBoc(f.Bytes) })
		if p != nil || err != nil || len(cs) != len(rroots) {
			wit["err"] = fmt.Sprint(err, p)
			R.Violation("error@DeserializeBoc(real)/"+f.Name, wit)
			continue
		}
		for i := range cs {
			checkTree("real", cs[i], rroots[i], false, wit)
		}
		R.Count("real_cells", int64(len(all)))
		R.Seen("real_files", f.Name)
	}
}

// depth limit: 1024 is fine, 1025 must be an error (no crash)
func sectionDepth() {
	for _, d := range []int{1, 1023, 1024, 1025, 1100} {
		rng := R.Rng("depth", d)
		root := gen.Chain(rng, d)
		tc, err := bridge.ToTongoBuilt(root)
		if err != nil {
			R.HarnessError("chain build: %v", err)
			continue
		}
		wit := map[string]any{"depth": d}
		var got []byte
		p := mon.Guard(func() { got, err = tc.Hash() })
		R.Eval(fmt.Sprintf("depth/%d", d))
		if p != nil {
			wit["panic"] = p.Value
			R.Violation("panic@"+p.Site+"/Hash(deep chain)", wit)
			continue
		}
		if d <= 1024 {
			want := root.Hash()
			if err != nil || !bytes.Equal(got, want[:]) {
				wit["err"] = fmt.Sprint(err)
				R.Violation("hash-mismatch@deep-chain", wit)
			}
		} else if err == nil {
			R.Violation("no-error@depth-over-1024", wit)
		}
	}
}

func main() {
	tier := "quick"
	if len(os.Args) > 1 {
		tier = os.Args[1]
	}
	R = mon.Start("C02", tier)
	R.Rule = "every node of every DAG is hashed by tongo (caching Hasher, and fresh Cell.Hash for small DAGs/roots) and by the reference model; levels compared; synthetic DAGs over all five cell types and masks 0..7 delivered through the reference BOC writer, every cell of the real blocks/proofs, every bit length 0..1023, read-interference, cache reuse, construction paths (built, ReadBits, CopyRemaining, tlb.Any, prover output); added after the audit: cells hashed while still being built (hash, write bits / add refs to the cell or a descendant, hash again through Cell.Hash/Hash256/HashString/ToBoc), copies from CopyRemaining/ReadBits/ReadRemainingBits written to while the source must keep its hash, 19 read operations incl. GetLibraryHash/GetMerkleRoot on parsed and built cells, library/Merkle cells built with NewCellExotic over level-0 trees, pruned branches storing depth 999..1023 under exactly enough ancestors to reach depth 1024 at a lower level, one Hasher over two roots that share sub-DAGs; round 4: bags whose with-hashes cells store one wrong hash or depth (root / inner / leaf / exotic / pruned cell; one level, the top level or all levels; random, another cell's or a one-bit-off hash) must be refused or hashed by the definition through Cell.Hash/Hash256/HashString/Hasher.Hash on every node, never by the stored value, and the proof builder must report the defined level-0 hash and depth of such a root; round 5: roots of non-zero level (lone pruned branch, proof body with pruned branches of level 1-3, Merkle proof / update above such bodies) and random exotic DAGs obtained through every exported bytes/text entry point (DeserializeBoc, DeserializeSingleRootBoc, the hex / base64 / SinglRoot / Must helpers, Cell.UnmarshalJSON and tlb.Any.UnmarshalJSON into fresh, used and struct-field receivers, MarshalJSON->UnmarshalJSON), every node's hash and level compared; non-trivial = a node whose hash was compared; distinct = distinct reference hashes (plus distinct interference traces)"
	R.Assume("reference hasher harness/ref/cell is correct: pinned at start-up by the Merkle proof/update equations in the repository's real data")
	R.Assume("levels 2-3 occur only in synthetic DAGs; there the model is vouched for by the specification text only")
	eq, cells, err := realdata.SelfCheck(mon.RepoRoot(), true)
	if err != nil {
		R.HarnessError("reference model failed its self-check: %v", err)
		os.Exit(R.Finish())
	}
	R.Extra("model_selfcheck", map[string]int{"merkle_equations": eq, "cells": cells})
	_ = rbits.Equal
	sectionLengths()
	sectionSynthetic()
	sectionPaths()
	sectionProver()
	sectionProverExotic()
	sectionIncremental()
	sectionBuiltExotic()
	sectionDepth()
	sectionDepthLevels()
	sectionLyingStoredHashes()
	sectionObtained()
	sectionReal()
	os.Exit(R.Finish())
}
