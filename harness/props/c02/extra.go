// C02, sections added after the coverage audit: hashes of cells that are still
// being built (hash, write, hash again), copies that are written to, exotic
// cells built in memory, depth limit at the lower hash levels, one Hasher over
// several roots.
package main

import (
	"bytes"
	"fmt"

	tboc "github.com/tonkeeper/tongo/boc"

	"verifharness/bridge"
	"verifharness/gen"
	"verifharness/mon"
	rboc "verifharness/ref/boc"
	"verifharness/ref/cell"
)

// writeBitsVia appends bits to a tongo cell through one of the writers.
func writeBitsVia(rng *mon.Rng, t *tboc.Cell, b []bool) error {
	i := 0
	for i < len(b) {
		n := len(b) - i
		switch rng.Intn(3) {
		case 0: // bit by bit
			if n > 9 {
				n = rng.Range(1, 9)
			}
			for k := 0; k < n; k++ {
				if err := t.WriteBit(b[i+k]); err != nil {
					return err
				}
			}
		case 1: // whole bytes
			if n < 8 {
				continue
			}
			n = 8 * rng.Range(1, n/8)
			if n > 256 {
				n = 256
			}
			by := make([]byte, n/8)
			for k := 0; k < n; k++ {
				if b[i+k] {
					by[k/8] |= 1 << uint(7-k%8)
				}
			}
			if err := t.WriteBytes(by); err != nil {
				return err
			}
		default:
			if n > 64 {
				n = 64
			}
			n = rng.Range(1, n)
			var v uint64
			for k := 0; k < n; k++ {
				v <<= 1
				if b[i+k] {
					v |= 1
				}
			}
			if err := t.WriteUint(v, n); err != nil {
				return err
			}
		}
		i += n
	}
	return nil
}

// observeHash reads the hash of t through one of the non-caching entry points
// (a caching Hasher is documented to be valid for read-only trees only).
func observeHash(api int, t *tboc.Cell) (name string, got []byte, err error, p *mon.Panic) {
	switch api % 4 {
	case 0:
		name = "Cell.Hash"
		p = mon.Guard(func() { got, err = t.Hash() })
	case 1:
		name = "Cell.Hash256"
		p = mon.Guard(func() {
			var h [32]byte
			h, err = t.Hash256()
			got = h[:]
		})
	case 2:
		name = "Cell.HashString"
		p = mon.Guard(func() {
			var s string
			s, err = t.HashString()
			got = []byte(s)
		})
	default:
		name = "ToBoc"
		p = mon.Guard(func() {
			var b []byte
			b, err = t.ToBoc()
			if err != nil {
				return
			}
			roots, _, _, rerr := rboc.Read(b)
			if rerr != nil || len(roots) != 1 {
				err = fmt.Errorf("reference reader: %v", rerr)
				return
			}
			h := roots[0].Hash()
			got = h[:]
		})
	}
	return
}

func wantFor(api int, h cell.Hash) []byte {
	if api%4 == 2 {
		return []byte(mon.Hex(h[:]))
	}
	return h[:]
}

// sectionIncremental: a cell is hashed while it is being built. After every
// further write (bits, references) to the cell itself or to a descendant the
// hash reported for the cell, its parent and its grandparent is the hash of
// the content at that moment.
func sectionIncremental() {
	n := R.N(250, 8000)
	for i := 0; i < n; i++ {
		rng := R.Rng("incr", i)
		total := gen.BitLen(rng)
		bitsv := rng.Bits(total)
		var kids []*cell.Cell
		var tkids []*tboc.Cell
		for k := rng.Intn(5); k > 0; k-- {
			kid := gen.RandomDag(rng, gen.DagOpts{Nodes: rng.Range(1, 6), SmallBits: true})
			tk, err := bridge.ToTongoBuilt(kid)
			if err != nil {
				R.HarnessError("incremental: build child: %v", err)
				return
			}
			kids, tkids = append(kids, kid), append(tkids, tk)
		}
		pbits, gbits := rng.Bits(rng.Intn(50)), rng.Bits(rng.Intn(50))
		tc, tp, tg := tboc.NewCell(), tboc.NewCell(), tboc.NewCell()
		if writeBitsVia(rng, tp, pbits) != nil || writeBitsVia(rng, tg, gbits) != nil || tp.AddRef(tc) != nil || tg.AddRef(tp) != nil {
			R.HarnessError("incremental: build ancestors")
			return
		}
		gAlso := rng.Bool() // the grandparent references the growing cell directly as well
		if gAlso {
			tg.AddRef(tc)
		}
		curBits, curRefs := 0, 0
		steps := rng.Range(2, 5)
		lastMut := "fresh"
		wit := map[string]any{"case": i, "total_bits": total, "refs": len(kids)}
		bad := false
		for s := 0; s <= steps && !bad; s++ {
			// the abstract content right now (fresh model cells: the model memoises too)
			rc := cell.New(bitsv[:curBits], false, kids[:curRefs]...)
			rp := cell.New(pbits, false, rc)
			rg := cell.New(gbits, false, rp)
			if gAlso {
				rg.Refs = append(rg.Refs, rc)
			}
			type ob struct {
				who string
				t   *tboc.Cell
				r   *cell.Cell
			}
			obs := []ob{{"self", tc, rc}, {"parent", tp, rp}, {"grandparent", tg, rg}}
			// not every cell at every step: a memo that is filled at one step must be seen stale at a later one
			for _, o := range obs {
				if s != 0 && s != steps && rng.Chance(1, 3) {
					continue
				}
				api := rng.Intn(4)
				name, got, err, p := observeHash(api, o.t)
				want := o.r.Hash()
				R.Eval(fmt.Sprintf("incr/%s/%s/%x", o.who, name, want[:8]))
				R.Seen("incremental", o.who+"/"+name+"/after-"+lastMut)
				w := map[string]any{"step": s, "bits_now": curBits, "refs_now": curRefs, "last_mutation": lastMut, "api": name}
				for k, v := range wit {
					w[k] = v
				}
				if p != nil {
					w["panic"] = p.Value
					R.Violation("panic@"+p.Site+"/hash-while-building", w)
					bad = true
					break
				}
				if err != nil || !bytes.Equal(got, wantFor(api, want)) {
					w["err"], w["got"], w["want"] = fmt.Sprint(err), mon.HexTrunc(got, 80), mon.Hex(want[:])
					if api%4 == 2 {
						w["got"] = string(got)
					}
					R.Violation("hash-mismatch@incremental/"+o.who+"/"+name, w)
					bad = true
					break
				}
				if lv := o.t.Level(); lv != 0 {
					R.Violation("level-mismatch@incremental/"+o.who, w)
					bad = true
					break
				}
			}
			if s == steps || bad {
				break
			}
			// mutate: more bits and/or one more reference; the last mutation completes the cell
			last := s == steps-1
			addBits := rng.Intn(total - curBits + 1)
			addRef := curRefs < len(kids) && rng.Bool()
			if last {
				addBits = total - curBits
				addRef = curRefs < len(kids)
			}
			if addBits == 0 && !addRef && curRefs < len(kids) {
				addRef = true
			}
			lastMut = ""
			if addBits > 0 {
				if err := writeBitsVia(rng, tc, bitsv[curBits:curBits+addBits]); err != nil {
					wit["err"] = err.Error()
					R.Violation("error@write-while-building", wit)
					bad = true
					break
				}
				curBits += addBits
				lastMut = "bits"
			}
			for addRef {
				if err := tc.AddRef(tkids[curRefs]); err != nil {
					wit["err"] = err.Error()
					R.Violation("error@AddRef-while-building", wit)
					bad = true
					break
				}
				curRefs++
				if lastMut == "" || lastMut == "bits" {
					lastMut += "+ref"
				}
				addRef = last && curRefs < len(kids)
			}
			if lastMut == "" {
				lastMut = "nothing"
			}
		}
	}
}

// copiesAreIndependent: what CopyRemaining / ReadBits / ReadRemainingBits hand
// out is a value of its own; writing to it (through the writers of the library)
// does not change the hash of the cell it was read from.
func copiesAreIndependent(source string, t *tboc.Cell, r *cell.Cell, rng *mon.Rng, wit map[string]any) {
	ts, rs, ok := pairUp(t, r)
	if !ok {
		return
	}
	onesBS := tboc.NewBitString(24)
	for k := 0; k < 24; k++ {
		onesBS.WriteBit(true)
	}
	for k := 0; k < 4 && k < len(ts); k++ {
		j := rng.Intn(len(ts))
		tc, rc := ts[j], rs[j]
		tc.ResetCounters()
		cur := 0
		if rng.Bool() && len(rc.Bits) > 0 {
			cur = rng.Intn(len(rc.Bits) + 1)
			if rng.Bool() {
				cur &^= 7
			}
		}
		op := ""
		p := mon.Guard(func() {
			tc.Skip(cur)
			switch rng.Intn(3) {
			case 0:
				op = "CopyRemaining"
				c2 := tc.CopyRemaining()
				c2.WriteUint(^uint64(0)>>1, rng.Range(1, 64))
				c2.WriteBit(true)
				c2.WriteBytes([]byte{0xff, 0xff})
				c2.AddRef(tboc.NewCell())
				if nr, err := c2.NewRef(); err == nil {
					nr.WriteUint(0xabc, 12)
				}
			case 1:
				op = "ReadBits"
				avail := tc.BitsAvailableForRead()
				bs, err := tc.ReadBits(rng.Intn(avail + 1))
				if err == nil {
					bs.WriteBit(true)
					bs.WriteUint(0xffff, 16)
					bs.Append(onesBS)
				}
			default:
				op = "ReadRemainingBits"
				bs := tc.ReadRemainingBits()
				bs.WriteBit(true)
				bs.Append(onesBS)
			}
		})
		w := map[string]any{"op": op, "cursor": cur, "bits": len(rc.Bits), "refs": len(rc.Refs)}
		for k, v := range wit {
			w[k] = v
		}
		if p != nil {
			w["panic"] = p.Value
			R.Violation("panic@"+p.Site+"/write-to-copy/"+op, w)
			return
		}
		want := rc.Hash()
		got, err := tc.Hash()
		R.Eval(fmt.Sprintf("copy/%s/%d/%x", op, cur%8, want[:8]))
		R.Seen("copies_written_to", fmt.Sprintf("%s/%s/cursor%%8=%d", source, op, cur%8))
		tc.ResetCounters()
		if err != nil || !bytes.Equal(got, want[:]) {
			w["got"], w["want"] = mon.Hex(got), mon.Hex(want[:])
			R.Violation("hash-changed-after-writing-to-copy/"+op, w)
			return
		}
	}
}

// buildAny builds a reference DAG, exotic cells included, with the in-memory
// API (NewCell / NewCellExotic, writers, AddRef). Only meaningful for DAGs in
// which every cell has level mask 0: the API cannot give a mask.
func buildAny(c *cell.Cell, memo map[*cell.Cell]*tboc.Cell) (*tboc.Cell, error) {
	if x, ok := memo[c]; ok {
		return x, nil
	}
	var t *tboc.Cell
	if c.Exotic {
		t = tboc.NewCellExotic(tboc.CellType(c.Type()))
	} else {
		t = tboc.NewCell()
	}
	for i := 0; i < len(c.Bits); {
		n := len(c.Bits) - i
		if n > 64 {
			n = 64
		}
		var v uint64
		for k := 0; k < n; k++ {
			v <<= 1
			if c.Bits[i+k] {
				v |= 1
			}
		}
		if err := t.WriteUint(v, n); err != nil {
			return nil, err
		}
		i += n
	}
	for _, r := range c.Refs {
		x, err := buildAny(r, memo)
		if err != nil {
			return nil, err
		}
		if err := t.AddRef(x); err != nil {
			return nil, err
		}
	}
	memo[c] = t
	return t, nil
}

// sectionBuiltExotic: library cells and Merkle proofs / updates over level-0
// trees, built in memory (all masks are 0, which is what the API produces).
func sectionBuiltExotic() {
	n := R.N(80, 4000)
	for i := 0; i < n; i++ {
		rng := R.Rng("built-exotic", i)
		var mk func(d int) *cell.Cell
		mk = func(d int) *cell.Cell {
			c := cell.New(rng.Bits(rng.Intn(90)), false)
			for k := rng.Intn(4); k > 0; k-- {
				var ch *cell.Cell
				switch x := rng.Intn(6); {
				case d >= 3 || x == 0:
					ch = cell.New(rng.Bits(gen.BitLen(rng)), false)
				case x == 1:
					var h cell.Hash
					copy(h[:], rng.Bytes(32))
					ch = cell.NewLibrary(h)
				case x == 2:
					ch = cell.NewMerkleProof(mk(d + 1))
				case x == 3:
					ch = cell.NewMerkleUpdate(mk(d+1), mk(d+1))
				default:
					ch = mk(d + 1)
				}
				c.Refs = append(c.Refs, ch)
			}
			return c
		}
		root := mk(0)
		switch rng.Intn(4) { // exotic roots as well
		case 0:
			root = cell.NewMerkleProof(root)
		case 1:
			root = cell.NewMerkleUpdate(root, mk(1))
		}
		allZero := root.Err() == nil
		cell.Walk(root, func(c *cell.Cell) { allZero = allZero && c.Mask() == 0 })
		if !allZero {
			R.HarnessError("built-exotic generator left level 0: %v", root.Err())
			return
		}
		wit := map[string]any{"tree": i}
		var t *tboc.Cell
		var err error
		if p := mon.Guard(func() { t, err = buildAny(root, map[*cell.Cell]*tboc.Cell{}) }); p != nil || err != nil {
			wit["err"] = fmt.Sprint(err, p)
			R.Violation("error@build/exotic-in-memory", wit)
			continue
		}
		checkTree("built-exotic", t, root, true, wit)
		// and through the serialiser: what it writes is the same DAG for the reference reader
		name, got, err, p := observeHash(3, t)
		want := root.Hash()
		R.Eval(fmt.Sprintf("bx/%x", want[:8]))
		if p != nil || err != nil || !bytes.Equal(got, want[:]) {
			wit["err"], wit["api"] = fmt.Sprint(err, p), name
			R.Violation("hash-mismatch@built-exotic/ToBoc-reference-reader", wit)
		}
	}
}

// sectionDepthLevels: the depth limit counts at every hash level. A pruned
// branch that stores depth d for one of its lower levels, under exactly 1024-d
// ordinary ancestors, gives a tree whose depth at that level is exactly 1024:
// legal, so it hashes (and to the reference value).
func sectionDepthLevels() {
	for mask := uint8(1); mask <= 7; mask++ {
		k := 0
		for m := mask; m != 0; m &= m - 1 {
			k++
		}
		for _, d := range []int{999, 1000, 1022, 1023} {
			for slot := 0; slot < k; slot++ {
				rng := R.Rng("depth-levels", int(mask)*10000+d*4+slot)
				hsx := make([]cell.Hash, k)
				ds := make([]int, k)
				for x := range hsx {
					copy(hsx[x][:], rng.Bytes(32))
					ds[x] = rng.Intn(d)
				}
				ds[slot] = d
				c := cell.NewPrunedRaw(mask, hsx, ds)
				for a := 0; a < 1024-d; a++ {
					refs := []*cell.Cell{c}
					if rng.Chance(1, 4) {
						refs = append(refs, cell.New(rng.Bits(rng.Intn(30)), false))
					}
					c = cell.New(rng.Bits(rng.Intn(30)), false, refs...)
				}
				maxDepth := func(c *cell.Cell) int {
					m := 0
					for l := 0; l <= 3; l++ {
						if x := c.DepthAt(l); x > m {
							m = x
						}
					}
					return m
				}
				top := "ordinary"
				if rng.Bool() {
					// a Merkle proof on top adds one to the depths of the levels it keeps
					if m := cell.NewMerkleProof(c); maxDepth(m) <= 1024 {
						c = m
						top = "merkle-proof"
					}
				}
				maxd := maxDepth(c)
				if c.Err() != nil || maxd > 1024 {
					R.HarnessError("depth-levels generator: err=%v depth=%d", c.Err(), maxd)
					return
				}
				wit := map[string]any{"pruned_mask": mask, "stored_depth": d, "slot": slot, "ancestors": 1024 - d, "top": top, "max_depth_over_levels": maxd}
				ts, raw, err := bridge.ToTongoParsed([]*cell.Cell{c}, rboc.Options{})
				if err != nil || len(ts) != 1 {
					wit["err"] = fmt.Sprint(err)
					R.Violation("error@DeserializeBoc(reference BOC)/depth-boundary", wit)
					continue
				}
				wit["boc"] = mon.HexTrunc(raw, 600)
				R.Seen("depth_boundary", fmt.Sprintf("mask%d/stored%d/%s/max%d", mask, d, top, maxd))
				checkTree("parsed/lower-level-depth-boundary", ts[0], c, false, wit)
			}
		}
	}
}

// multiRootHasher: one caching Hasher over the roots of one bag that share
// sub-DAGs, hex form first.
func multiRootHasher(root *cell.Cell, rng *mon.Rng, wo rboc.Options, wit map[string]any) {
	var pool []*cell.Cell
	cell.Walk(root, func(c *cell.Cell) { pool = append(pool, c) })
	extra := cell.New(rng.Bits(rng.Intn(64)), false)
	for j := rng.Range(1, 4); j > 0; j-- {
		extra.Refs = append(extra.Refs, mon.Pick(rng, pool))
	}
	if extra.Err() != nil {
		return
	}
	for l := 0; l <= 3; l++ {
		if extra.DepthAt(l) > 1024 {
			return
		}
	}
	roots := []*cell.Cell{root, extra}
	wo.Order = nil
	ts, _, err := bridge.ToTongoParsed(roots, wo)
	if err != nil || len(ts) != 2 {
		wit["err"] = fmt.Sprint(err)
		R.Violation("error@DeserializeBoc(reference BOC)/two-roots", wit)
		return
	}
	h := tboc.NewHasher()
	type step struct {
		k   int
		hex bool
	}
	for _, s := range []step{{1, true}, {0, false}, {1, false}, {0, true}, {1, true}} {
		want := roots[s.k].Hash()
		var got []byte
		var str string
		var err error
		p := mon.Guard(func() {
			if s.hex {
				str, err = h.HashString(ts[s.k])
			} else {
				got, err = h.Hash(ts[s.k])
			}
		})
		R.Eval(fmt.Sprintf("mr/%d/%v/%x", s.k, s.hex, want[:8]))
		okv := p == nil && err == nil && ((s.hex && str == mon.Hex(want[:])) || (!s.hex && bytes.Equal(got, want[:])))
		if !okv {
			wit["root"], wit["hex_form"], wit["err"] = s.k, s.hex, fmt.Sprint(err, p)
			R.Violation("hash-mismatch@Hasher(shared over roots)", wit)
			return
		}
	}
	if ts[1].Level() != extra.Level() {
		R.Violation("level-mismatch@parsed/second-root", wit)
	}
}
