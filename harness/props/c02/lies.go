// C02, round 4: bags of cells whose "with hashes" cells (d1 & 16) carry WRONG
// stored hashes or depths. The hash of a cell is what the representation-hash
// definition gives for its content, whatever the bag claims: tongo either
// refuses such a bag (at parse time or when asked for the hash) or reports the
// defined value; it never reports the stored lie. One lie per bag.
package main

import (
	"bytes"
	"fmt"

	tboc "github.com/tonkeeper/tongo/boc"

	"verifharness/gen"
	"verifharness/mon"
	rboc "verifharness/ref/boc"
	"verifharness/ref/cell"
)

func sectionLyingStoredHashes() {
	n := R.N(500, 25000)
	for i := 0; i < n; i++ {
		rng := R.Rng("lies", i)
		o := gen.DagOpts{Nodes: rng.Range(1, 40), Exotic: i%2 == 1, SmallBits: rng.Bool()}
		root := gen.RandomDag(rng, o)
		if root.Err() != nil {
			R.HarnessError("lies: generator produced an invalid DAG: %v", root.Err())
			return
		}
		order := rboc.TopoOrder([]*cell.Cell{root}, nil)
		// which cell lies
		classOf := func(k int, c *cell.Cell) string {
			switch {
			case c.Type() == cell.PrunedBranch:
				return "pruned"
			case c.Exotic:
				return "exotic"
			case k == 0:
				return "root"
			case len(c.Refs) == 0:
				return "leaf"
			}
			return "inner"
		}
		wantClass := []string{"root", "inner", "leaf", "exotic", "pruned", "any"}[i%6]
		var cand []int
		for k, c := range order {
			if wantClass == "any" || classOf(k, c) == wantClass {
				cand = append(cand, k)
			}
		}
		if len(cand) == 0 {
			for k := range order {
				cand = append(cand, k)
			}
		}
		ti := mon.Pick(rng, cand)
		target := order[ti]
		cls := classOf(ti, target)
		nlev := len(target.SignificantLevels())
		// what it lies about
		what := []string{"hash/one-level", "hash/all-levels", "depth/one-level", "hash+depth/all-levels", "hash/top-level"}[rng.Intn(5)]
		oneLevel := rng.Intn(nlev)
		if what == "hash/top-level" {
			oneLevel = nlev - 1
		}
		hashKind := rng.Intn(3)
		var lies []cell.Hash
		tamper := func(bi int, c *cell.Cell, k int, h *cell.Hash, d *int) {
			if bi != ti {
				return
			}
			all := what == "hash/all-levels" || what == "hash+depth/all-levels"
			if (what == "hash/one-level" || what == "hash/top-level") && k == oneLevel || all {
				switch hashKind {
				case 0:
					copy(h[:], rng.Bytes(32))
				case 1: // the hash of another cell of the bag (or of a cell that is not there)
					other := order[rng.Intn(len(order))]
					if other == c {
						other = cell.New(c.Bits, c.Exotic)
					}
					x := other.Hash()
					if x == *h {
						x[0] ^= 1
					}
					*h = x
				default:
					h[rng.Intn(32)] ^= 1 << uint(rng.Intn(8))
				}
				lies = append(lies, *h)
			}
			if what == "depth/one-level" && k == oneLevel || what == "hash+depth/all-levels" {
				nd := *d
				for nd == *d {
					switch rng.Intn(4) {
					case 0:
						nd = *d + 1
					case 1:
						nd = *d - 1
					case 2:
						nd = 0
					default:
						nd = rng.Intn(1024)
					}
					if nd < 0 {
						nd = *d
					}
				}
				*d = nd
			}
		}
		// some of the other cells carry (correct) stored hashes too
		others := make([]bool, len(order))
		if rng.Bool() {
			for k := range others {
				others[k] = rng.Chance(1, 3)
			}
		}
		wo := rboc.Options{Index: rng.Bool(), CRC: rng.Bool(), Order: order,
			WithHashes: func(bi int, c *cell.Cell) bool { return bi == ti || others[bi] },
			Tamper:     tamper}
		raw, err := rboc.Write([]*cell.Cell{root}, wo)
		if err != nil {
			R.HarnessError("lies: reference writer: %v", err)
			return
		}
		if _, _, _, rerr := rboc.Read(raw); rerr == nil {
			R.HarnessError("lies: the strict reference reader accepts the tampered bag (case %d, %s %s)", i, cls, what)
			return
		}
		wit := map[string]any{"case": i, "lying_cell": cls, "lying_cell_index": ti, "lying_cell_type": typeName(target), "lying_cell_mask": target.Mask(),
			"lie": what, "level_slot": oneLevel, "boc": mon.HexTrunc(raw, 3000)}
		R.Seen("lies", fmt.Sprintf("%s/%s/%s/mask%d", cls, what, typeName(target), target.Mask()))
		var ts []*tboc.Cell
		p := mon.Guard(func() { ts, err = tboc.DeserializeBoc(append([]byte(nil), raw...)) })
		if p != nil {
			wit["panic"] = p.Value
			R.Violation("panic@"+p.Site+"/DeserializeBoc(wrong stored hashes)", wit)
			continue
		}
		if err != nil || len(ts) != 1 {
			// refusing the bag is fine
			R.Eval(fmt.Sprintf("lie-rejected/%d", i))
			R.Count("lying_bags_rejected_at_parse", 1)
			continue
		}
		tcs, rcs, ok := pairUp(ts[0], root)
		if !ok {
			R.Violation("structure-mismatch@parsed/wrong-stored-hashes", wit)
			continue
		}
		isLie := func(got []byte) bool {
			for _, l := range lies {
				if bytes.Equal(got, l[:]) {
					return true
				}
			}
			return false
		}
		hasher := tboc.NewHasher()
		bad := false
		for k := range tcs {
			if bad {
				break
			}
			want := rcs[k].Hash()
			for api := 0; api < 4 && !bad; api++ {
				var name string
				var got []byte
				var err error
				var p *mon.Panic
				if api == 3 {
					name = "Hasher.Hash"
					p = mon.Guard(func() { got, err = hasher.Hash(tcs[k]) })
				} else {
					name, got, err, p = observeHash(api, tcs[k])
				}
				w := map[string]any{"api": name, "node_type": typeName(rcs[k]), "node_mask": rcs[k].Mask(), "node_is_lying_cell": rcs[k].Hash() == target.Hash()}
				for a, b := range wit {
					w[a] = b
				}
				if p != nil {
					w["panic"] = p.Value
					R.Violation("panic@"+p.Site+"/hash(wrong stored hashes)", w)
					bad = true
					break
				}
				R.Eval(fmt.Sprintf("lie/%s/%x", name, want[:8]))
				if err != nil {
					// refusing to hash a cell of such a bag is fine as well
					R.Count("lying_bags_rejected_at_hash", 1)
					continue
				}
				exp := wantFor(api, want) // hex text for HashString, raw bytes otherwise
				if !bytes.Equal(got, exp) {
					raw := got
					if api == 2 {
						raw = unhex(got)
					}
					w["got"], w["want"] = mon.Hex(raw), mon.Hex(want[:])
					if isLie(raw) {
						R.Violation("stored-lie-reported@with-hashes/"+cls+"/"+what, w)
					} else {
						R.Violation("hash-mismatch@with-hashes-lie/"+cls+"/"+what, w)
					}
					bad = true
				}
			}
			if !bad && tcs[k].Level() != rcs[k].Level() {
				R.Violation("level-mismatch@with-hashes-lie", wit)
				bad = true
			}
		}
		if bad || root.Mask() != 0 {
			continue
		}
		// the level-0 hash and depth of the root as the proof builder reports them (trees without
		// Merkle cells only: the builder does not take those)
		var proof []byte
		p = mon.Guard(func() {
			var pr *tboc.MerkleProver
			pr, err = tboc.NewMerkleProver(ts[0])
			if err != nil {
				return
			}
			proof, err = pr.CreateProof(pr.Cursor())
		})
		if p != nil {
			wit["panic"] = p.Value
			R.Violation("panic@"+p.Site+"/MerkleProver(wrong stored hashes)", wit)
			continue
		}
		if err != nil {
			continue
		}
		pr, _, _, rerr := rboc.Read(proof)
		if rerr != nil || len(pr) != 1 || pr[0].Type() != cell.MerkleProof || len(pr[0].Bits) != 8+256+16 {
			wit["err"] = fmt.Sprint(rerr)
			R.Violation("invalid-proof-boc@MerkleProver(wrong stored hashes)", wit)
			continue
		}
		data := cell.PadBits(pr[0].Bits)
		h0, d0 := root.HashAt(0), root.DepthAt(0)
		R.Eval(fmt.Sprintf("lie/prover/%x", h0[:8]))
		if !bytes.Equal(data[1:33], h0[:]) {
			wit["got"], wit["want"] = mon.Hex(data[1:33]), mon.Hex(h0[:])
			R.Violation("root-level0-hash@prover/with-hashes-lie/"+cls+"/"+what, wit)
		} else if gd := int(data[33])<<8 | int(data[34]); gd != d0 {
			wit["got_depth"], wit["want_depth"] = gd, d0
			R.Violation("root-depth@prover/with-hashes-lie/"+cls+"/"+what, wit)
		}
	}
}

func unhex(b []byte) []byte {
	out := make([]byte, 0, len(b)/2)
	v := func(c byte) byte {
		switch {
		case c >= '0' && c <= '9':
			return c - '0'
		case c >= 'a' && c <= 'f':
			return c - 'a' + 10
		}
		return 0
	}
	for i := 0; i+1 < len(b); i += 2 {
		out = append(out, v(b[i])<<4|v(b[i+1]))
	}
	return out
}
