// C02, round 5: "how the cell was obtained" covers every exported way of
// getting a cell from bytes or text: DeserializeBoc and its hex / base64 /
// single-root / Must variants, Cell.UnmarshalJSON and tlb.Any's JSON form
// (into a fresh and into an already used receiver). The roots include cells of
// non-zero level (a lone pruned branch, the body of a Merkle proof, Merkle
// cells above deeper pruned branches). Every node's hash and level is compared.
package main

import (
	"encoding/base64"
	"encoding/hex"
	"encoding/json"
	"fmt"
	"strings"

	tboc "github.com/tonkeeper/tongo/boc"
	"github.com/tonkeeper/tongo/tlb"

	"verifharness/gen"
	"verifharness/mon"
	rboc "verifharness/ref/boc"
	"verifharness/ref/cell"
)

// usedCell returns a cell that already holds something else and has been read from.
func usedCell(rng *mon.Rng) *tboc.Cell {
	c := tboc.NewCell()
	c.WriteUint(rng.Uint64(), 64)
	ch := tboc.NewCell()
	ch.WriteUint(7, 3)
	c.AddRef(ch)
	c.ReadUint(rng.Intn(60))
	c.NextRef()
	return c
}

func sectionObtained() {
	n := R.N(160, 12000)
	for i := 0; i < n; i++ {
		rng := R.Rng("obtained", i)
		var root *cell.Cell
		shape := ""
		body := func() *cell.Cell {
			// an ordinary tree in which some sub-trees have been replaced by pruned branches
			var mk func(d int) *cell.Cell
			mk = func(d int) *cell.Cell {
				c := cell.New(rng.Bits(rng.Intn(70)), false)
				for k := rng.Range(1, 3); k > 0; k-- {
					switch {
					case d >= 3 || rng.Chance(1, 3):
						orig := gen.RandomDag(rng, gen.DagOpts{Nodes: rng.Range(1, 5), SmallBits: true})
						c.Refs = append(c.Refs, cell.NewPruned(orig, rng.Range(1, 3)))
					case rng.Chance(1, 4):
						c.Refs = append(c.Refs, cell.New(rng.Bits(gen.BitLen(rng)), false))
					default:
						c.Refs = append(c.Refs, mk(d+1))
					}
				}
				return c
			}
			return mk(0)
		}
		switch i % 4 {
		case 0:
			root = gen.RandomDag(rng, gen.DagOpts{Nodes: rng.Range(1, 40), Exotic: true, SmallBits: rng.Bool()})
			shape = "random-exotic-dag"
		case 1:
			root = gen.RawPruned(rng, uint8(rng.Range(1, 7)))
			shape = "lone-pruned-branch"
		case 2:
			root = body()
			shape = "proof-body"
		default:
			b := body()
			if rng.Bool() {
				root = cell.NewMerkleProof(b)
				shape = "merkle-proof-over-body"
			} else {
				root = cell.NewMerkleUpdate(b, body())
				shape = "merkle-update-over-bodies"
			}
		}
		if root.Err() != nil {
			R.HarnessError("obtained: generator produced an invalid DAG (%s): %v", shape, root.Err())
			return
		}
		wo := rboc.Options{Index: rng.Bool(), CRC: rng.Bool()}
		if rng.Chance(1, 4) {
			wo.WithHashes = func(int, *cell.Cell) bool { return true }
		}
		raw, err := rboc.Write([]*cell.Cell{root}, wo)
		if err != nil {
			R.HarnessError("obtained: reference writer: %v", err)
			return
		}
		hx, b64 := hex.EncodeToString(raw), base64.StdEncoding.EncodeToString(raw)
		jsHex, _ := json.Marshal(hx)
		type holder struct {
			A tboc.Cell  `json:"a"`
			B *tboc.Cell `json:"b"`
			C tlb.Any    `json:"c"`
		}
		type path struct {
			name string
			get  func() (*tboc.Cell, error)
		}
		first := func(cs []*tboc.Cell, err error) (*tboc.Cell, error) {
			if err != nil {
				return nil, err
			}
			if len(cs) != 1 {
				return nil, fmt.Errorf("%d roots", len(cs))
			}
			return cs[0], nil
		}
		var parsed *tboc.Cell // for the JSON round trip of tongo's own text form
		paths := []path{
			{"DeserializeBoc", func() (*tboc.Cell, error) {
				c, err := first(tboc.DeserializeBoc(append([]byte(nil), raw...)))
				parsed = c
				return c, err
			}},
			{"DeserializeSingleRootBoc", func() (*tboc.Cell, error) { return tboc.DeserializeSingleRootBoc(append([]byte(nil), raw...)) }},
			{"DeserializeBocHex", func() (*tboc.Cell, error) { return first(tboc.DeserializeBocHex(hx)) }},
			{"DeserializeBocBase64", func() (*tboc.Cell, error) { return first(tboc.DeserializeBocBase64(b64)) }},
			{"DeserializeSinglRootHex", func() (*tboc.Cell, error) { return tboc.DeserializeSinglRootHex(hx) }},
			{"DeserializeSinglRootBase64", func() (*tboc.Cell, error) { return tboc.DeserializeSinglRootBase64(b64) }},
			{"MustDeserializeSinglRootHex", func() (*tboc.Cell, error) { return tboc.MustDeserializeSinglRootHex(hx), nil }},
			{"MustDeserializeSinglRootBase64", func() (*tboc.Cell, error) { return tboc.MustDeserializeSinglRootBase64(b64), nil }},
			{"Cell.UnmarshalJSON(fresh)", func() (*tboc.Cell, error) {
				var c tboc.Cell
				return &c, json.Unmarshal(jsHex, &c)
			}},
			{"Cell.UnmarshalJSON(used receiver)", func() (*tboc.Cell, error) {
				c := usedCell(rng)
				return c, c.UnmarshalJSON(jsHex)
			}},
			{"Cell.UnmarshalJSON(struct fields)", func() (*tboc.Cell, error) {
				var h holder
				err := json.Unmarshal([]byte(`{"a":`+string(jsHex)+`,"b":`+string(jsHex)+`}`), &h)
				if err != nil || h.B == nil {
					return nil, fmt.Errorf("struct fields: %v", err)
				}
				if rng.Bool() {
					return &h.A, nil
				}
				return h.B, nil
			}},
			{"tlb.Any.UnmarshalJSON(fresh)", func() (*tboc.Cell, error) {
				var a tlb.Any
				err := json.Unmarshal(jsHex, &a)
				c := tboc.Cell(a)
				return &c, err
			}},
			{"tlb.Any.UnmarshalJSON(used receiver)", func() (*tboc.Cell, error) {
				a := tlb.Any(*usedCell(rng))
				err := a.UnmarshalJSON(jsHex)
				c := tboc.Cell(a)
				return &c, err
			}},
			{"tlb.Any.UnmarshalJSON(struct field)", func() (*tboc.Cell, error) {
				var h holder
				err := json.Unmarshal([]byte(`{"c":`+string(jsHex)+`}`), &h)
				c := tboc.Cell(h.C)
				return &c, err
			}},
			{"Cell.MarshalJSON->UnmarshalJSON", func() (*tboc.Cell, error) {
				if parsed == nil {
					return nil, fmt.Errorf("nothing parsed")
				}
				js, err := json.Marshal(parsed)
				if err != nil {
					return nil, err
				}
				var c tboc.Cell
				return &c, json.Unmarshal(js, &c)
			}},
			{"tlb.Any.MarshalJSON->UnmarshalJSON", func() (*tboc.Cell, error) {
				if parsed == nil {
					return nil, fmt.Errorf("nothing parsed")
				}
				js, err := json.Marshal(tlb.Any(*parsed))
				if err != nil {
					return nil, err
				}
				var a tlb.Any
				err = json.Unmarshal(js, &a)
				c := tboc.Cell(a)
				return &c, err
			}},
		}
		for _, pth := range paths {
			wit := map[string]any{"case": i, "shape": shape, "root_mask": root.Mask(), "root_type": typeName(root), "obtained_through": pth.name, "boc": mon.HexTrunc(raw, 2000)}
			var c *tboc.Cell
			var err error
			p := mon.Guard(func() { c, err = pth.get() })
			R.Seen("obtained_paths", fmt.Sprintf("%s/%s/mask%d", pth.name, typeName(root), root.Mask()))
			if p != nil {
				wit["panic"] = p.Value
				R.Violation("panic@"+p.Site+"/obtain/"+pth.name, wit)
				continue
			}
			if err != nil || c == nil {
				wit["err"] = fmt.Sprint(err)
				R.Violation("error@obtain/"+pth.name, wit)
				continue
			}
			// fresh per-node Cell.Hash for the small trees, the caching Hasher always
			fam := pth.name // one signature family per entry point; the receiver variant stays in the witness
			if k := strings.IndexByte(fam, '('); k >= 0 {
				fam = fam[:k]
			}
			checkTree("obtained/"+fam, c, root, distinctNodes(root) <= 12, wit)
		}
	}
}

func distinctNodes(r *cell.Cell) int {
	n := 0
	cell.Walk(r, func(*cell.Cell) { n++ })
	return n
}
