// C01 — BOC serialisation round-trips and is canonical. Oracles: the
// reference BOC writer / strict reader (harness/ref/boc) and the reference
// cell hasher. See DESIGN.md §5 C01.
package main

import (
	"bytes"
	"encoding/base64"
	"encoding/hex"
	"fmt"
	"os"

	tboc "github.com/tonkeeper/tongo/boc"

	"verifharness/bridge"
	"verifharness/gen"
	"verifharness/mon"
	rboc "verifharness/ref/boc"
	"verifharness/ref/cell"
	"verifharness/ref/realdata"
)

var R *mon.Run

type opt struct{ idx, crc, cache bool }

func (o opt) String() string { return fmt.Sprintf("idx=%v,crc=%v,cache=%v", o.idx, o.crc, o.cache) }

var allOpts = func() []opt {
	var out []opt
	for i := 0; i < 8; i++ {
		out = append(out, opt{i&1 != 0, i&2 != 0, i&4 != 0})
	}
	return out
}()

func distinctCells(root *cell.Cell) int {
	seen := map[cell.Hash]bool{}
	cell.Walk(root, func(c *cell.Cell) { seen[c.Hash()] = true })
	return len(seen)
}

// serializeAndCheck serialises a tongo cell (which must equal the abstract
// DAG r) with every option combination and checks all round-trip claims.
// Returns the bytes per option (nil on failure) for canonicity comparisons.
func serializeAndCheck(source string, t *tboc.Cell, r *cell.Cell, wit map[string]any, opts []opt) map[opt][]byte {
	out := map[opt][]byte{}
	want := r.Hash()
	nDistinct := distinctCells(r)
	for _, o := range opts {
		w := map[string]any{"options": o.String(), "source": source}
		for k, v := range wit {
			w[k] = v
		}
		var b []byte
		var err error
		p := mon.Guard(func() { b, err = tboc.SerializeBoc(t, o.idx, o.crc, o.cache, 0) })
		if p != nil {
			w["panic"], w["stack"] = p.Value, mon.Trunc(p.Stack, 1200)
			R.Violation("panic@"+p.Site+"/SerializeBoc/"+source, w)
			continue
		}
		R.Eval(fmt.Sprintf("ser/%s/%x/%s", source, want[:8], o))
		if err != nil {
			w["err"] = err.Error()
			R.Violation("error@SerializeBoc/"+source, w)
			continue
		}
		out[o] = b
		w["boc"] = mon.HexTrunc(b, 1500)
		// tongo parses its own output (from a private copy of the bytes, see below)
		bc := append([]byte(nil), b...)
		var cs []*tboc.Cell
		p = mon.Guard(func() { cs, err = tboc.DeserializeBoc(bc) })
		if p != nil || err != nil || len(cs) != 1 {
			w["err"] = fmt.Sprint(err, p)
			R.Violation("error@DeserializeBoc(own output)/"+source, w)
			continue
		}
		if d := bridge.Diff(cs[0], r); d != "" {
			w["diff"] = d
			R.Violation("roundtrip-structure@"+source+"/"+o.String(), w)
			continue
		}
		if h, err := cs[0].Hash(); err != nil || !bytes.Equal(h, want[:]) {
			w["got"], w["want"] = mon.Hex(h), mon.Hex(want[:])
			R.Violation("roundtrip-hash@"+source, w)
			continue
		}
		// the parsed cells are values of their own: parsing leaves the input bytes alone, and what the
		// caller does with its buffer afterwards does not reach the cells
		if !parsedCellsOwnTheirData("own-output/"+source, bc, b, cs, []*cell.Cell{r}, w) {
			continue
		}
		// structurally equal input, same bytes: the parsed copy (half of the time after reads that moved
		// the cursors of some of its cells) serialises to exactly the bytes it was parsed from
		if nDistinct <= reserialiseLimit() {
			touched := "untouched"
			if trng := nextTouchRng(); trng.Bool() {
				touchCells(trng, cs[0])
				touched = "after-reads"
			}
			var b2 []byte
			p = mon.Guard(func() { b2, err = tboc.SerializeBoc(cs[0], o.idx, o.crc, o.cache, 0) })
			R.Eval("")
			R.Seen("reserialised", touched)
			if p != nil || err != nil || !bytes.Equal(b2, b) {
				w["err"], w["reserialised"] = fmt.Sprint(err, p), mon.HexTrunc(b2, 1500)
				R.Violation("reserialise-differs@"+source+"/"+touched, w)
				continue
			}
		}
		// the strict reference reader accepts it and reads the same DAG; every header field is verified there
		rroots, all, hdr, rerr := rboc.Read(b)
		if rerr != nil {
			w["err"] = rerr.Error()
			R.Violation("reference-reader-rejects@own-output/"+source+"/"+o.String(), w)
			continue
		}
		if len(rroots) != 1 || rroots[0].Hash() != want {
			R.Violation("reference-reader-different-dag@own-output/"+source, w)
			continue
		}
		if len(all) != nDistinct {
			w["cells_in_boc"], w["distinct_cells"] = len(all), nDistinct
			R.Violation("shared-subtree-stored-twice@"+source, w)
			continue
		}
		if hdr.Index != o.idx || hdr.CRC != o.crc || hdr.CacheBits != o.cache {
			R.Violation("header-flags@"+source, w)
		}
		R.Seen("header_shapes", fmt.Sprintf("ref%d/off%d/%s", hdr.RefSize, hdr.OffSize, o))
		// the next option serialises the same tree after some of its cells have been read from
		touchCells(nextTouchRng(), t)
	}
	return out
}

func sectionInMemory() {
	n := R.N(400, 6000)
	for i := 0; i < n; i++ {
		rng := R.Rng("mem", i)
		var root *cell.Cell
		shape := "random"
		switch i % 10 {
		case 0:
			root = gen.DiamondLadder(rng, rng.Range(1, 60), rng.Range(2, 4))
			shape = "diamond"
		case 1:
			root = gen.Chain(rng, rng.Range(1, 300))
			shape = "chain"
		case 2:
			// cross the 256-cell boundary of the ref-index width
			root = gen.Wide(rng, rng.Range(200, 330), rng.Range(2, 4))
			shape = "wide"
		default:
			root = gen.RandomDag(rng, gen.DagOpts{Nodes: rng.Range(1, 150), SmallBits: rng.Chance(1, 4)})
		}
		wit := map[string]any{"dag": i, "shape": shape}
		t, err := bridge.ToTongoBuilt(root)
		if err != nil {
			wit["err"] = err.Error()
			R.Violation("error@build", wit)
			continue
		}
		outs := serializeAndCheck("built/"+shape, t, root, wit, allOpts)
		if i < 2 {
			R.Sample(map[string]any{"kind": "in-memory DAG", "shape": shape, "distinct_cells": distinctCells(root), "bytes": len(outs[opt{}]), "root_hash": mon.Hex(hs(root.Hash()))})
		}
		// canonicity: a structural copy with fresh pointers (no sharing by pointer) gives the same bytes
		cp := gen.CloneFresh(root, rng, 200)
		t2, err := bridge.ToTongoBuilt(cp)
		if err == nil {
			for _, o := range allOpts {
				var b2 []byte
				p := mon.Guard(func() { b2, err = tboc.SerializeBoc(t2, o.idx, o.crc, o.cache, 0) })
				R.Eval("")
				if p != nil || err != nil {
					continue // reported by serializeAndCheck on the original if it is a real problem
				}
				if outs[o] != nil && !bytes.Equal(outs[o], b2) {
					wit["options"] = o.String()
					R.Violation("not-canonical@pointer-shared-vs-copied/"+shape, wit)
					break
				}
			}
		}
		// the convenience wrappers give the same bytes
		if b0 := outs[opt{}]; b0 != nil {
			if b, err := t.ToBoc(); err != nil || !bytes.Equal(b, b0) {
				R.Violation("wrapper-differs@ToBoc", wit)
			}
			if s, err := t.ToBocString(); err != nil || s != hex.EncodeToString(b0) {
				R.Violation("wrapper-differs@ToBocString", wit)
			}
			if s, err := t.ToBocBase64(); err != nil || s != base64.StdEncoding.EncodeToString(b0) {
				R.Violation("wrapper-differs@ToBocBase64", wit)
			}
			o := mon.Pick(rng, allOpts)
			if b, err := t.ToBocCustom(o.idx, o.crc, o.cache, 0); err != nil || !bytes.Equal(b, outs[o]) {
				R.Violation("wrapper-differs@ToBocCustom", wit)
			}
			if b, err := t.ToBocCustomWithHasher(tboc.NewHasher(), o.idx, o.crc, o.cache, 0); err != nil || !bytes.Equal(b, outs[o]) {
				R.Violation("wrapper-differs@ToBocCustomWithHasher", wit)
			}
			// helpers on the read side
			if cs, err := tboc.DeserializeBocHex(hex.EncodeToString(b0)); err != nil || len(cs) != 1 || bridge.Diff(cs[0], root) != "" {
				R.Violation("wrapper-differs@DeserializeBocHex", wit)
			}
			if cs, err := tboc.DeserializeBocBase64(base64.StdEncoding.EncodeToString(b0)); err != nil || len(cs) != 1 || bridge.Diff(cs[0], root) != "" {
				R.Violation("wrapper-differs@DeserializeBocBase64", wit)
			}
			if c, err := tboc.DeserializeSingleRootBoc(b0); err != nil || bridge.Diff(c, root) != "" {
				R.Violation("wrapper-differs@DeserializeSingleRootBoc", wit)
			}
			moreWrappers(t, root, rng, outs, wit)
			warmHasher(t, t2, rng, outs, wit)
		}
	}
}

func hs(h cell.Hash) []byte { return h[:] }

func sectionDepth() {
	for _, d := range []int{1022, 1023, 1024, 1025, 1026, 1500} {
		rng := R.Rng("depth", d)
		root := gen.Chain(rng, d)
		t, err := bridge.ToTongoBuilt(root)
		if err != nil {
			continue
		}
		wit := map[string]any{"depth": d}
		if d <= 1024 {
			serializeAndCheck("chain-depth-limit", t, root, wit, []opt{{}, {true, true, true}})
			continue
		}
		var b []byte
		p := mon.Guard(func() { b, err = tboc.SerializeBoc(t, false, false, false, 0) })
		R.Eval(fmt.Sprintf("depth/%d", d))
		if p != nil {
			wit["panic"] = p.Value
			R.Violation("panic@"+p.Site+"/SerializeBoc(too deep)", wit)
		} else if err == nil {
			// an over-deep tree must not be emitted as if it were fine
			wit["bytes"] = len(b)
			R.Violation("no-error@SerializeBoc/depth-over-1024", wit)
		}
	}
	// a foreign BOC holding a 1024-deep chain parses; hashing works
	root := gen.Chain(R.Rng("depthf", 0), 1024)
	ts, _, err := bridge.ToTongoParsed([]*cell.Cell{root}, rboc.Options{})
	if err != nil || len(ts) != 1 || bridge.Diff(ts[0], root) != "" {
		R.Violation("foreign-deep-chain", map[string]any{"err": fmt.Sprint(err)})
	}
	R.Eval("depth/foreign1024")
}

func randomWriterOptions(rng *mon.Rng, roots []*cell.Cell) (rboc.Options, string) {
	var o rboc.Options
	desc := ""
	switch {
	case len(roots) == 1 && rng.Chance(1, 5):
		o.Magic = rboc.MagicIdx
		desc = "lean-idx"
	case len(roots) == 1 && rng.Chance(1, 5):
		o.Magic = rboc.MagicIdxCRC
		desc = "lean-idx-crc"
	default:
		o.Magic = rboc.MagicGeneric
		o.Index = rng.Bool()
		o.CRC = rng.Bool()
		o.CacheBits = o.Index && rng.Bool()
		desc = fmt.Sprintf("generic/idx=%v/crc=%v/cache=%v", o.Index, o.CRC, o.CacheBits)
	}
	if rng.Chance(1, 3) {
		o.WithHashes = func(int, *cell.Cell) bool { return rng.Chance(1, 2) }
		desc += "/with-hashes"
	}
	if rng.Chance(1, 2) && o.Magic == rboc.MagicGeneric {
		o.Order = rboc.TopoOrder(roots, rng.Intn)
		desc += "/random-order"
	}
	if rng.Chance(1, 3) {
		o.RefSize = rng.Range(2, 4)
		desc += fmt.Sprintf("/ref%d", o.RefSize)
	}
	if rng.Chance(1, 3) {
		o.OffSize = rng.Range(4, 8)
		desc += fmt.Sprintf("/off%d", o.OffSize)
	}
	return o, desc
}

func sectionForeign() {
	n := R.N(250, 3000)
	for i := 0; i < n; i++ {
		rng := R.Rng("foreign", i)
		nroots := 1
		if rng.Chance(1, 4) {
			nroots = rng.Range(2, 4)
		}
		var roots []*cell.Cell
		base := gen.RandomDag(rng, gen.DagOpts{Nodes: rng.Range(1, 80), Exotic: i%3 != 0, SmallBits: rng.Chance(1, 3)})
		roots = append(roots, base)
		for k := 1; k < nroots; k++ {
			// further roots share sub-DAGs with the first one
			extra := cell.New(rng.Bits(rng.Intn(64)), false)
			var pool []*cell.Cell
			cell.Walk(base, func(c *cell.Cell) { pool = append(pool, c) })
			for j := 0; j < rng.Range(0, 3); j++ {
				extra.Refs = append(extra.Refs, mon.Pick(rng, pool))
			}
			roots = append(roots, extra)
		}
		interiorRoot := false
		if nroots > 1 && rng.Chance(1, 3) {
			// a root that is also an inner cell of another root
			var pool []*cell.Cell
			cell.Walk(base, func(c *cell.Cell) { pool = append(pool, c) })
			if c := mon.Pick(rng, pool); c.Hash() != base.Hash() {
				roots[len(roots)-1] = c
				interiorRoot = true
			}
		}
		wo, desc := randomWriterOptions(rng, roots)
		if interiorRoot {
			desc += "/inner-cell-as-root"
		}
		if wo.Order != nil && wo.Magic != rboc.MagicGeneric {
			wo.Order = nil
		}
		raw, err := rboc.Write(roots, wo)
		if err != nil {
			R.HarnessError("reference writer failed (%s): %v", desc, err)
			return
		}
		// the reference reader must read back its own output (self-check of the pair)
		rr, _, _, rerr := rboc.Read(raw)
		if rerr != nil || len(rr) != len(roots) || rr[0].Hash() != roots[0].Hash() {
			R.HarnessError("reference reader rejects reference writer output (%s): %v", desc, rerr)
			return
		}
		fam := "generic"
		if wo.Magic != rboc.MagicGeneric {
			fam = "lean"
		}
		wit := map[string]any{"case": i, "variant": desc, "roots": nroots, "boc": mon.HexTrunc(raw, 3000)}
		var ts []*tboc.Cell
		rawc := append([]byte(nil), raw...)
		p := mon.Guard(func() { ts, err = tboc.DeserializeBoc(rawc) })
		R.Eval("foreign/" + desc + "/" + mon.Hex(hs(roots[0].Hash())[:6]))
		R.Seen("foreign_variants", desc)
		if p != nil {
			wit["panic"] = p.Value
			R.Violation("panic@"+p.Site+"/DeserializeBoc(foreign)/"+fam, wit)
			continue
		}
		if err != nil {
			wit["err"] = err.Error()
			R.Violation("rejected@DeserializeBoc(foreign)/"+fam, wit)
			continue
		}
		if len(ts) != len(roots) {
			wit["got_roots"] = len(ts)
			R.Violation("root-count@DeserializeBoc(foreign)/"+fam, wit)
			continue
		}
		okAll := true
		for k := range roots {
			if d := bridge.Diff(ts[k], roots[k]); d != "" {
				wit["diff"], wit["root"] = d, k
				R.Violation("structure@DeserializeBoc(foreign)/"+fam, wit)
				okAll = false
				break
			}
			want := roots[k].Hash()
			var h []byte
			p := mon.Guard(func() { h, err = ts[k].Hash() })
			if p != nil || err != nil || !bytes.Equal(h, want[:]) {
				wit["root"], wit["got"], wit["want"] = k, mon.Hex(h), mon.Hex(want[:])
				R.Violation("hash@DeserializeBoc(foreign)/"+fam, wit)
				okAll = false
				break
			}
		}
		if !okAll {
			continue
		}
		if !parsedCellsOwnTheirData("foreign/"+fam, rawc, raw, ts, roots, wit) {
			continue
		}
		jk := rng.Intn(len(ts))
		jsonRoundTrip("parsed-foreign", ts[jk], roots[jk], wit)
		if i < 3 {
			R.Sample(map[string]any{"kind": "foreign BOC", "variant": desc, "roots": nroots, "bytes": len(raw)})
		}
		// re-serialise what tongo parsed
		k := rng.Intn(len(roots))
		os := allOpts
		if !R.Thorough() {
			os = []opt{mon.Pick(rng, allOpts), mon.Pick(rng, allOpts)}
		}
		serializeAndCheck("parsed-foreign", ts[k], roots[k], map[string]any{"case": i, "variant": desc}, os)
	}
}

func sectionReal() {
	files, err := realdata.Files(mon.RepoRoot(), true)
	if err != nil {
		R.HarnessError("%v", err)
		return
	}
	for _, f := range files {
		if !R.Thorough() && len(f.Bytes) > 100_000 && f.Name != "tlb/testdata/block-2/block.bin" {
			continue
		}
		rroots, all, hdr, err := rboc.Read(f.Bytes)
		if err != nil {
			R.HarnessError("reference reader rejects %s: %v", f.Name, err)
			return
		}
		wit := map[string]any{"file": f.Name}
		var ts []*tboc.Cell
		p := mon.Guard(func() { ts, err = tboc.DeserializeBoc(f.Bytes) })
		R.Eval("real/" + f.Name)
		if p != nil || err != nil || len(ts) != len(rroots) {
			wit["err"] = fmt.Sprint(err, p)
			R.Violation("error@DeserializeBoc(real)", wit)
			continue
		}
		R.Seen("real_files", fmt.Sprintf("%s cells=%d idx=%v crc=%v ref=%d off=%d", f.Name, len(all), hdr.Index, hdr.CRC, hdr.RefSize, hdr.OffSize))
		for k := range ts {
			if d := bridge.Diff(ts[k], rroots[k]); d != "" {
				wit["diff"] = d
				R.Violation("structure@DeserializeBoc(real)", wit)
				continue
			}
			want := rroots[k].Hash()
			if h, err := ts[k].Hash(); err != nil || !bytes.Equal(h, want[:]) {
				R.Violation("hash@DeserializeBoc(real)", wit)
				continue
			}
			os := []opt{{}, {true, true, false}}
			if R.Thorough() {
				os = allOpts
			}
			serializeAndCheck("real", ts[k], rroots[k], wit, os)
		}
	}
}

// giants: cross the 65 536-cell ref-width boundary and the 2^16 / 2^24 byte offset-width boundaries
func sectionGiants() {
	type g struct {
		name  string
		cells int
		big   bool
	}
	gs := []g{{"300-cells", 300, false}, {"70k-small-cells", 70_000, false}}
	if R.Thorough() {
		gs = append(gs, g{"70k-big-cells(>16MiB)", 70_000, true})
	}
	for gi, x := range gs {
		rng := R.Rng("giant", gi)
		var root *cell.Cell
		if !x.big {
			root = gen.Wide(rng, x.cells, 4)
		} else {
			// same shape, fat leaves
			lv := []*cell.Cell{}
			for i := 0; i < x.cells; i++ {
				b := rng.Bits(1023)
				lv = append(lv, cell.New(b, false))
			}
			for len(lv) > 1 {
				var nx []*cell.Cell
				for i := 0; i < len(lv); i += 4 {
					j := i + 4
					if j > len(lv) {
						j = len(lv)
					}
					nx = append(nx, cell.New(rng.Bits(1000), false, lv[i:j]...))
				}
				lv = nx
			}
			root = lv[0]
		}
		t, err := bridge.ToTongoBuilt(root)
		if err != nil {
			R.HarnessError("giant build: %v", err)
			continue
		}
		serializeAndCheck("giant/"+x.name, t, root, map[string]any{"giant": x.name}, []opt{{}, {true, true, true}})
	}
}

// boundaries: exactly 255/256/257 and 65535/65536/65537 distinct cells (ref-index width and
// the width of the header counters), and cell data of exactly 2^8k-1, 2^8k, 2^8k+1 bytes
// (offset width; with cache bits the index entries are doubled, so also around 2^8k/2)
func sectionBoundaries() {
	for _, n := range []int{1, 2, 3, 254, 255, 256, 257, 258, 65535, 65536, 65537} {
		root := gen.ExactCells(n)
		t, err := bridge.ToTongoBuilt(root)
		if err != nil {
			R.HarnessError("ExactCells build: %v", err)
			continue
		}
		os := allOpts
		if n > 1000 {
			os = []opt{{}, {true, true, true}, {true, false, false}}
		}
		serializeAndCheck(fmt.Sprintf("exact-cells/%d", n), t, root, map[string]any{"cells": n}, os)
	}
	for _, total := range []int{126, 127, 128, 129, 254, 255, 256, 257, 32766, 32767, 32768, 32769, 65534, 65535, 65536, 65537} {
		for _, refSize := range []int{1, 2} {
			root := gen.ExactBytes(total, refSize)
			if root == nil {
				continue
			}
			n := distinctCells(root)
			if (refSize == 1) != (n < 256) {
				continue // the chain's cell count does not give this reference size
			}
			t, err := bridge.ToTongoBuilt(root)
			if err != nil {
				continue
			}
			outs := serializeAndCheck(fmt.Sprintf("exact-bytes/%d", total), t, root, map[string]any{"data_bytes": total, "cells": n}, allOpts)
			if b := outs[opt{}]; b != nil {
				if _, _, hdr, err := rboc.Read(b); err == nil && hdr.DataSize != total {
					R.HarnessError("ExactBytes(%d,%d) produced %d data bytes", total, refSize, hdr.DataSize)
				}
			}
		}
	}
}

func main() {
	tier := "quick"
	if len(os.Args) > 1 {
		tier = os.Args[1]
	}
	R = mon.Start("C01", tier)
	R.Rule = "abstract cell DAGs (chains, wide trees, diamond ladders, random sharing; ordinary and all exotic types) are (1) built in memory and serialised with all 8 option combinations, (2) written by the reference writer with a random header variant (3 magics, index, CRC, cache bits, with-hashes cells, random topological order, non-minimal widths, 1-4 roots) and parsed by tongo, then re-serialised, (3) taken from the repository's real blocks/proofs; added after the audit: the smallest bags (empty cell, 1 bit, full cell with 4 refs, repeated refs) built and written by the reference writer with every forced ref/offset width, the input buffer overwritten after parsing (cells must not alias it), every parsed copy re-serialised to the same bytes (half of them after reads moved cursors) and the source tree read from between options, all string/base64/JSON/Must wrappers, a pre-warmed Hasher shared over serialisations, an inner cell listed as a root; each output is parsed by tongo and by the strict reference reader and compared with the abstract DAG and the reference hashes; non-trivial = a serialisation or parse that was compared; distinct = distinct (source, root hash, options/variant)"
	R.Assume("reference writer/reader (harness/ref/boc) and hasher (harness/ref/cell) are correct; pinned by parsing the real files and the Merkle equations they contain")
	R.Assume("has_cache_bits without has_idx is accepted by the reference reader (the TL-B scheme allows it, the C++ node does not); absent-cell counts other than 0 are not generated")
	if _, _, err := realdata.SelfCheck(mon.RepoRoot(), false); err != nil {
		R.HarnessError("reference model failed its self-check: %v", err)
		os.Exit(R.Finish())
	}
	sectionTiny()
	sectionInMemory()
	sectionBoundaries()
	sectionDepth()
	sectionForeign()
	sectionReal()
	sectionGiants()
	os.Exit(R.Finish())
}
