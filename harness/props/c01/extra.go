// C01, additions after the coverage audit: smallest bags, input-buffer
// independence of parsed cells, re-serialisation of parsed copies and of trees
// that have been read from, the remaining wrappers, a shared Hasher.
package main

import (
	"bytes"
	"encoding/base64"
	"encoding/hex"
	"encoding/json"
	"fmt"
	"strings"

	tboc "github.com/tonkeeper/tongo/boc"

	"verifharness/bridge"
	"verifharness/mon"
	rboc "verifharness/ref/boc"
	"verifharness/ref/cell"
)

var touchSeq int

func nextTouchRng() *mon.Rng {
	touchSeq++
	return R.Rng("touch", touchSeq)
}

// parsed copies of bags up to this many cells are serialised again (the giants only in the thorough tier)
func reserialiseLimit() int { return R.N(5000, 100_000) }

// touchCells moves the read cursors (bits and references) of a few cells of
// the tree, the way a decoder that has looked at them leaves them behind.
// Nothing is written.
func touchCells(rng *mon.Rng, t *tboc.Cell) {
	mon.Guard(func() {
		for k := rng.Range(2, 7); k > 0; k-- {
			c := t
			for d := rng.Intn(14); d > 0; d-- {
				rs := c.Refs()
				if len(rs) == 0 {
					break
				}
				c = rs[rng.Intn(len(rs))]
			}
			switch rng.Intn(6) {
			case 0:
				c.Skip(rng.Intn(c.BitsAvailableForRead() + 1))
			case 1:
				c.ReadUint(rng.Intn(65))
			case 2:
				c.NextRef()
			case 3: // read to the end
				c.ReadRemainingBits()
				for {
					if _, err := c.NextRef(); err != nil {
						break
					}
				}
			case 4:
				c.ReadBits(rng.Intn(c.BitsAvailableForRead() + 1))
			case 5:
				c.ReadBytes(rng.Intn(c.BitsAvailableForRead()/8 + 1))
			}
		}
	})
}

// parsedCellsOwnTheirData: `parsedFrom` is the buffer tongo parsed, `orig` an
// untouched copy of it. Parsing must not have changed the buffer, and after the
// caller overwrites its buffer the parsed cells are still the same cells.
func parsedCellsOwnTheirData(source string, parsedFrom, orig []byte, ts []*tboc.Cell, rs []*cell.Cell, wit map[string]any) bool {
	wit["parsed_from"] = source
	if k := strings.IndexByte(source, '/'); k >= 0 {
		source = source[:k] // one signature per family (own-output / foreign)
	}
	if !bytes.Equal(parsedFrom, orig) {
		R.Violation("input-bytes-changed-by-DeserializeBoc@"+source, wit)
		return false
	}
	for i := range parsedFrom {
		parsedFrom[i] ^= 0xff
	}
	R.Eval("")
	for k := range ts {
		if d := bridge.Diff(ts[k], rs[k]); d != "" {
			wit["diff"], wit["root"] = d, k
			R.Violation("parsed-cells-alias-input-buffer@"+source, wit)
			return false
		}
		want := rs[k].Hash()
		if h, err := ts[k].Hash(); err != nil || !bytes.Equal(h, want[:]) {
			wit["got"], wit["want"], wit["root"] = mon.Hex(h), mon.Hex(want[:]), k
			R.Violation("parsed-cells-alias-input-buffer@"+source, wit)
			return false
		}
	}
	return true
}

// jsonRoundTrip: Cell.MarshalJSON / UnmarshalJSON carry the cell through a
// bag of cells; what comes back is the same cell (type and hash included).
func jsonRoundTrip(source string, t *tboc.Cell, r *cell.Cell, wit map[string]any) {
	var js []byte
	var err error
	var back tboc.Cell
	p := mon.Guard(func() {
		js, err = json.Marshal(t)
		if err != nil {
			return
		}
		err = json.Unmarshal(js, &back)
	})
	R.Eval("")
	R.Seen("wrappers", "MarshalJSON/UnmarshalJSON("+source+")")
	want := r.Hash()
	if p != nil || err != nil {
		wit["err"] = fmt.Sprint(err, p)
		R.Violation("wrapper-differs@JSON/"+source, wit)
		return
	}
	if d := bridge.Diff(&back, r); d != "" {
		wit["diff"] = d
		R.Violation("wrapper-differs@JSON/"+source, wit)
		return
	}
	if h, err := back.Hash(); err != nil || !bytes.Equal(h, want[:]) {
		wit["got"], wit["want"] = mon.Hex(h), mon.Hex(want[:])
		R.Violation("wrapper-differs@JSON/"+source+"/hash", wit)
	}
}

// moreWrappers: the string forms with options and the single-root readers.
func moreWrappers(t *tboc.Cell, root *cell.Cell, rng *mon.Rng, outs map[opt][]byte, wit map[string]any) {
	for _, o := range []opt{mon.Pick(rng, allOpts), mon.Pick(rng, allOpts)} {
		b := outs[o]
		if b == nil {
			continue
		}
		if s, err := t.ToBocStringCustom(o.idx, o.crc, o.cache, 0); err != nil || s != hex.EncodeToString(b) {
			wit["options"] = o.String()
			R.Violation("wrapper-differs@ToBocStringCustom", wit)
		}
		if s, err := t.ToBocBase64Custom(o.idx, o.crc, o.cache, 0); err != nil || s != base64.StdEncoding.EncodeToString(b) {
			wit["options"] = o.String()
			R.Violation("wrapper-differs@ToBocBase64Custom", wit)
		}
		R.Eval("")
		// the single-root readers, on every header variant the serialiser writes
		hx, b64 := hex.EncodeToString(b), base64.StdEncoding.EncodeToString(b)
		if c, err := tboc.DeserializeSinglRootHex(hx); err != nil || bridge.Diff(c, root) != "" {
			R.Violation("wrapper-differs@DeserializeSinglRootHex", wit)
		}
		if c, err := tboc.DeserializeSinglRootBase64(b64); err != nil || bridge.Diff(c, root) != "" {
			R.Violation("wrapper-differs@DeserializeSinglRootBase64", wit)
		}
		var c1, c2 *tboc.Cell
		if p := mon.Guard(func() { c1 = tboc.MustDeserializeSinglRootHex(hx); c2 = tboc.MustDeserializeSinglRootBase64(b64) }); p != nil || bridge.Diff(c1, root) != "" || bridge.Diff(c2, root) != "" {
			R.Violation("wrapper-differs@MustDeserializeSinglRoot", wit)
		}
	}
	for _, n := range []string{"ToBocStringCustom", "ToBocBase64Custom", "DeserializeSinglRootHex", "DeserializeSinglRootBase64", "MustDeserializeSinglRootHex", "MustDeserializeSinglRootBase64"} {
		R.Seen("wrappers", n)
	}
	jsonRoundTrip("built", t, root, wit)
}

// warmHasher: ToBocCustomWithHasher with a Hasher that has already hashed the
// tree and that is shared by several serialisations (of this tree and of a
// structurally equal one) gives the bytes of a fresh serialisation.
func warmHasher(t, t2 *tboc.Cell, rng *mon.Rng, outs map[opt][]byte, wit map[string]any) {
	h := tboc.NewHasher()
	if rng.Bool() {
		h.Hash(t)
	} else {
		h.HashString(t)
	}
	for k := 0; k < 3; k++ {
		o := mon.Pick(rng, allOpts)
		src, name := t, "same-tree"
		if k == 2 && t2 != nil {
			src, name = t2, "equal-tree"
		}
		var b []byte
		var err error
		p := mon.Guard(func() { b, err = src.ToBocCustomWithHasher(h, o.idx, o.crc, o.cache, 0) })
		R.Eval("")
		R.Seen("wrappers", "ToBocCustomWithHasher(shared,"+name+")")
		if outs[o] == nil {
			continue
		}
		if p != nil || err != nil || !bytes.Equal(b, outs[o]) {
			wit["options"], wit["err"] = o.String(), fmt.Sprint(err, p)
			R.Violation("wrapper-differs@ToBocCustomWithHasher(shared)/"+name, wit)
			return
		}
	}
}

func constBits(n int, v bool) []bool {
	b := make([]bool, n)
	for i := range b {
		b[i] = v
	}
	return b
}

// sectionTiny: the smallest and the fullest bags, deterministically. Built in
// memory and serialised with all options; written by the reference writer
// with every forced reference / offset width and every magic, parsed by tongo.
func sectionTiny() {
	empty := func() *cell.Cell { return cell.New(nil, false) }
	full := func(v bool, refs ...*cell.Cell) *cell.Cell { return cell.New(constBits(1023, v), false, refs...) }
	type tc struct {
		name string
		root *cell.Cell
	}
	cases := []tc{
		{"empty", empty()},
		{"bit0", cell.New([]bool{false}, false)},
		{"bit1", cell.New([]bool{true}, false)},
		{"7bits", cell.New(constBits(7, true), false)},
		{"8bits-zero", cell.New(constBits(8, false), false)},
		{"9bits", cell.New(constBits(9, false), false)},
		{"1023zeros", full(false)},
		{"1023ones", full(true)},
		{"empty->empty", cell.New(nil, false, empty())},
		{"empty->4x-empty", cell.New(nil, false, empty(), empty(), empty(), empty())},
		{"empty->empty->empty", cell.New(nil, false, cell.New(nil, false, empty()))},
		{"full->4-distinct-full", full(true, full(false), cell.New(constBits(1022, true), false), cell.New(constBits(1016, false), false), cell.New(constBits(1017, true), false))},
		{"refs-ABAB", cell.New([]bool{true}, false, cell.New([]bool{false}, false), empty(), cell.New([]bool{false}, false), empty())},
		{"last-cell-empty", cell.New(constBits(16, true), false, cell.New(constBits(3, true), false, empty()))},
	}
	for _, c := range cases {
		wit := map[string]any{"tiny": c.name}
		t, err := bridge.ToTongoBuilt(c.root)
		if err != nil {
			R.HarnessError("tiny build %s: %v", c.name, err)
			return
		}
		serializeAndCheck("tiny/"+c.name, t, c.root, wit, allOpts)
		R.Seen("tiny", c.name)
		// foreign writers: every width, every magic
		type fo struct {
			desc string
			o    rboc.Options
		}
		var fos []fo
		for ref := 0; ref <= 4; ref++ {
			for off := 0; off <= 8; off++ {
				fos = append(fos, fo{fmt.Sprintf("generic/ref%d/off%d", ref, off), rboc.Options{RefSize: ref, OffSize: off, Index: off%2 == 1, CRC: ref%2 == 1, CacheBits: off%4 == 1}})
			}
		}
		for _, ref := range []int{0, 1, 2, 4} {
			fos = append(fos,
				fo{fmt.Sprintf("lean-idx/ref%d", ref), rboc.Options{Magic: rboc.MagicIdx, RefSize: ref}},
				fo{fmt.Sprintf("lean-idx-crc/ref%d", ref), rboc.Options{Magic: rboc.MagicIdxCRC, RefSize: ref, OffSize: 3}},
				fo{fmt.Sprintf("with-hashes/ref%d", ref), rboc.Options{RefSize: ref, WithHashes: func(int, *cell.Cell) bool { return true }}})
		}
		for _, f := range fos {
			raw, err := rboc.Write([]*cell.Cell{c.root}, f.o)
			if err != nil {
				if es := err.Error(); es == "ref size too small" || es == "offset size too small" {
					continue // this bag does not fit the forced width
				}
				R.HarnessError("tiny reference writer (%s, %s): %v", c.name, f.desc, err)
				return
			}
			if rr, _, _, rerr := rboc.Read(raw); rerr != nil || len(rr) != 1 || rr[0].Hash() != c.root.Hash() {
				R.HarnessError("tiny: reference reader rejects reference writer output (%s, %s): %v", c.name, f.desc, rerr)
				return
			}
			w := map[string]any{"tiny": c.name, "variant": f.desc, "boc": mon.HexTrunc(raw, 800)}
			var ts []*tboc.Cell
			rawc := append([]byte(nil), raw...)
			p := mon.Guard(func() { ts, err = tboc.DeserializeBoc(rawc) })
			R.Eval("tinyf/" + c.name + "/" + f.desc)
			R.Seen("foreign_widths", f.desc)
			if p != nil || err != nil || len(ts) != 1 {
				w["err"] = fmt.Sprint(err, p)
				R.Violation("rejected@DeserializeBoc(foreign)/tiny", w)
				continue
			}
			if d := bridge.Diff(ts[0], c.root); d != "" {
				w["diff"] = d
				R.Violation("structure@DeserializeBoc(foreign)/tiny", w)
				continue
			}
			want := c.root.Hash()
			if h, err := ts[0].Hash(); err != nil || !bytes.Equal(h, want[:]) {
				R.Violation("hash@DeserializeBoc(foreign)/tiny", w)
				continue
			}
			parsedCellsOwnTheirData("foreign/tiny", rawc, raw, ts, []*cell.Cell{c.root}, w)
		}
	}
}
