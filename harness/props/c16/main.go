// C16 — message and transaction identity hashes match their source cells.
// Oracle: harness/ref/cell hashes of reference-built messages/transactions
// (each field a transcription of the block.tlb line quoted next to it), the
// canonical external-in form `10 00 dest 0000 0 1 ^body` built with ref/cell,
// and for the real blocks the set of reference hashes of all cells of the
// block. See DESIGN.md §5 C16.
package main

import (
	"bytes"
	"encoding/json"
	"fmt"
	"math/big"
	mbits "math/bits"
	"os"
	"path/filepath"
	"reflect"
	"sort"
	"strings"
	"sync"
	"time"

	tboc "github.com/tonkeeper/tongo/boc"
	"github.com/tonkeeper/tongo/tlb"
	"github.com/tonkeeper/tongo/ton"

	"verifharness/bridge"
	"verifharness/gen"
	"verifharness/mon"
	"verifharness/ref/addr"
	rbits "verifharness/ref/bits"
	rboc "verifharness/ref/boc"
	"verifharness/ref/cell"
	"verifharness/ref/realdata"
)

var R *mon.Run

// ---------------------------------------------------------------- reference encoders

func cat(parts ...[]bool) []bool {
	var out []bool
	for _, p := range parts {
		out = append(out, p...)
	}
	return out
}

func u(v uint64, n int) []bool { return rbits.UintBits(v, n) }
func bit(b bool) []bool        { return []bool{b} }

// var_uint$_ {n:#} len:(#< n) value:(uint (len * 8)) = VarUInteger n;
// Grams = VarUInteger 16: 4-bit length; VarUInteger 32: 5-bit length.
func varUint(v *big.Int, lenBits int) []bool {
	n := (v.BitLen() + 7) / 8
	return cat(u(uint64(n), lenBits), rbits.BigBits(v, 8*n))
}
func grams(v *big.Int) []bool { return varUint(v, 4) }

func randBig(r *mon.Rng, maxBytes int) *big.Int {
	switch r.Intn(5) {
	case 0:
		return new(big.Int)
	case 1:
		return big.NewInt(int64(r.Intn(1000)))
	}
	return r.BigBits(8 * r.Range(1, maxBytes))
}

// addr_none$00 = MsgAddressExt;
// addr_extern$01 len:(## 9) external_address:(bits len) = MsgAddressExt;
func addrExt(r *mon.Rng) []bool {
	if r.Chance(1, 3) {
		return []bool{false, false}
	}
	n := mon.Pick(r, []int{0, 1, 8, 32, 64, 65, 100})
	return cat([]bool{false, true}, u(uint64(n), 9), r.Bits(n))
}

func rand32(r *mon.Rng) (o [32]byte) {
	copy(o[:], r.Bytes(32))
	return
}

// addr_std$10 anycast:(Maybe Anycast) workchain_id:int8 address:bits256 = MsgAddressInt;
// addr_var$11 anycast:(Maybe Anycast) addr_len:(## 9) workchain_id:int32 address:(bits addr_len) = MsgAddressInt;
func addrInt(r *mon.Rng, allowAnycast, allowVar bool) []bool {
	if allowVar && r.Chance(1, 12) {
		n := mon.Pick(r, []int{1, 64, 255, 256, 300})
		return cat([]bool{true, true, false}, u(uint64(n), 9), rbits.IntBits(int64(int32(uint32(r.Uint64()))), 32), r.Bits(n))
	}
	wc := int8(0)
	switch r.Intn(4) {
	case 0:
		wc = -1
	case 1:
		wc = int8(r.Intn(256))
	}
	if allowAnycast && r.Chance(1, 8) {
		d := r.Range(1, 30)
		return addr.AddrStdBits(d, uint32(r.Uint64())&(1<<uint(d)-1), wc, rand32(r))
	}
	return addr.AddrStdBits(0, 0, wc, rand32(r))
}

// currencies$_ grams:Grams other:ExtraCurrencyCollection = CurrencyCollection;
// extra_currencies$_ dict:(HashmapE 32 (VarUInteger 32)) = ExtraCurrencyCollection;
func currencies(r *mon.Rng, maxBytes int) ([]bool, []*cell.Cell) {
	return currenciesF(r, maxBytes, -1)
}

// extra: 1 = with a non-empty extra-currency dictionary (one more reference), 0 = without, -1 = drawn
func currenciesF(r *mon.Rng, maxBytes int, extra int) ([]bool, []*cell.Cell) {
	g := grams(randBig(r, maxBytes))
	if extra < 0 {
		extra = 0
		if r.Chance(1, 6) {
			extra = 1
		}
	}
	if extra == 1 {
		n := r.Range(1, 3)
		keys := map[uint64]bool{}
		for len(keys) < n {
			keys[uint64(uint32(r.Uint64()))] = true
		}
		var ks [][]bool
		var vs []hmVal
		for _, k := range sortedKeys(keys) {
			ks = append(ks, u(k, 32))
			vs = append(vs, hmVal{bits: varUint(new(big.Int).Add(randBig(r, 6), big.NewInt(1)), 5)})
		}
		return cat(g, bit(true)), []*cell.Cell{hmBuild(ks, vs, 32)}
	}
	return cat(g, bit(false)), nil
}

func sortedKeys(m map[uint64]bool) []uint64 {
	out := make([]uint64, 0, len(m))
	for k := range m {
		out = append(out, k)
	}
	sort.Slice(out, func(i, j int) bool { return out[i] < out[j] })
	return out
}

// ---------------------------------------------------------------- reference dictionary writer
//
// hm_edge#_ {n:#} {X:Type} {l:#} {m:#} label:(HmLabel ~l n) {n = (~m) + l} node:(HashmapNode m X) = Hashmap n X;
// hmn_leaf#_ {X:Type} value:X = HashmapNode 0 X;
// hmn_fork#_ {n:#} {X:Type} left:^(Hashmap n X) right:^(Hashmap n X) = HashmapNode (n + 1) X;
// hml_short$0 {m:#} {n:#} len:(Unary ~n) {n <= m} s:(n * Bit) = HmLabel ~n m;
// hml_long$10 {m:#} n:(#<= m) s:(n * Bit) = HmLabel ~n m;
// hml_same$11 {m:#} v:Bit n:(#<= m) = HmLabel ~n m;

type hmVal struct {
	bits []bool
	refs []*cell.Cell
}

func hmLabel(lbl []bool, m int) []bool {
	n := len(lbl)
	w := mbits.Len(uint(m))
	short := cat(bit(false), rbits.UnaryBits(n), lbl)
	long := cat([]bool{true, false}, u(uint64(n), w), lbl)
	best := short
	if len(long) < len(best) {
		best = long
	}
	same := n > 0
	for _, b := range lbl {
		if b != lbl[0] {
			same = false
		}
	}
	if same {
		s := cat([]bool{true, true}, bit(lbl[0]), u(uint64(n), w))
		if len(s) < len(best) {
			best = s
		}
	}
	return best
}

// keys: the remaining m key bits of every entry, sorted, distinct.
func hmBuild(keys [][]bool, vals []hmVal, m int) *cell.Cell {
	l := m
	for _, k := range keys[1:] {
		i := 0
		for i < l && k[i] == keys[0][i] {
			i++
		}
		l = i
	}
	lb := hmLabel(keys[0][:l], m)
	if l == m {
		if len(keys) != 1 {
			panic("hmBuild: duplicate keys")
		}
		return cell.New(cat(lb, vals[0].bits), false, vals[0].refs...)
	}
	var lk, rk [][]bool
	var lv, rv []hmVal
	for i, k := range keys {
		if k[l] {
			rk, rv = append(rk, k[l+1:]), append(rv, vals[i])
		} else {
			lk, lv = append(lk, k[l+1:]), append(lv, vals[i])
		}
	}
	return cell.New(lb, false, hmBuild(lk, lv, m-l-1), hmBuild(rk, rv, m-l-1))
}

// HashmapE n X as (bits, refs) of the holder; values in refs (^X).
func dictOfRefs(keys []uint64, n int, cells []*cell.Cell) ([]bool, []*cell.Cell) {
	if len(keys) == 0 {
		return bit(false), nil
	}
	idx := make([]int, len(keys))
	for i := range idx {
		idx[i] = i
	}
	sort.Slice(idx, func(a, b int) bool { return keys[idx[a]] < keys[idx[b]] })
	var ks [][]bool
	var vs []hmVal
	for _, i := range idx {
		ks = append(ks, u(keys[i], n))
		vs = append(vs, hmVal{refs: []*cell.Cell{cells[i]}})
	}
	return bit(true), []*cell.Cell{hmBuild(ks, vs, n)}
}

// ---------------------------------------------------------------- messages

type msgSpec struct {
	kind     string // "int" | "ext-in" | "ext-out"
	info     []bool
	infoRefs []*cell.Cell // extra-currency dictionary of int messages
	dest     []bool       // ext-in: destination address bits
	initMode int          // 0 none, 1 inline, 2 ref
	initBits []bool
	initRefs []*cell.Cell
	bodyRef  bool
	body     *cell.Cell
}

var initNames = []string{"init-none", "init-inline", "init-ref"}

func (m *msgSpec) class() string {
	b := "body-inline"
	if m.bodyRef {
		b = "body-ref"
	}
	br := "leaf-body"
	if len(m.body.Refs) > 0 {
		br = "body-with-refs"
	}
	if m.body.Exotic {
		br = "exotic-body"
	}
	return m.kind + "/" + initNames[m.initMode] + "/" + b + "/" + br
}

// message$_ {X:Type} info:CommonMsgInfo init:(Maybe (Either StateInit ^StateInit)) body:(Either X ^X) = Message X;
func (m *msgSpec) cell() (*cell.Cell, error) {
	bits := append([]bool(nil), m.info...)
	refs := append([]*cell.Cell(nil), m.infoRefs...)
	switch m.initMode {
	case 0:
		bits = append(bits, false)
	case 1:
		bits = cat(bits, []bool{true, false}, m.initBits)
		refs = append(refs, m.initRefs...)
	case 2:
		bits = cat(bits, []bool{true, true})
		refs = append(refs, cell.New(m.initBits, false, m.initRefs...))
	}
	if m.bodyRef {
		bits = append(bits, true)
		refs = append(refs, m.body)
	} else {
		if m.body.Exotic {
			return nil, fmt.Errorf("exotic body cannot be inline")
		}
		bits = cat(bits, bit(false), m.body.Bits)
		refs = append(refs, m.body.Refs...)
	}
	if len(bits) > 1023 || len(refs) > 4 {
		return nil, fmt.Errorf("message does not fit: %d bits %d refs", len(bits), len(refs))
	}
	return cell.New(bits, false, refs...), nil
}

// headroom left for an inline body
func (m *msgSpec) room() (bitsLeft, refsLeft int) {
	b := len(m.info) + 1 + 1
	r := len(m.infoRefs)
	switch m.initMode {
	case 1:
		b += 1 + len(m.initBits)
		r += len(m.initRefs)
	case 2:
		b++
		r++
	}
	return 1023 - b, 4 - r
}

// canonical external-in form (TEP-467 / tlb/messages.go comment):
// ext_in_msg_info$10 src:addr_none$00 dest import_fee:Grams=0000, init nothing$0, body right$1 ^body
func (m *msgSpec) canonical() *cell.Cell {
	return cell.New(cat([]bool{true, false}, []bool{false, false}, m.dest, u(0, 4), bit(false), bit(true)), false, m.body)
}

// int_msg_info$0 ihr_disabled:Bool bounce:Bool bounced:Bool src:MsgAddressInt dest:MsgAddressInt
//
//	value:CurrencyCollection ihr_fee:Grams fwd_fee:Grams created_lt:uint64 created_at:uint32 = CommonMsgInfo;
//
// ext_in_msg_info$10 src:MsgAddressExt dest:MsgAddressInt import_fee:Grams = CommonMsgInfo;
// ext_out_msg_info$11 src:MsgAddressInt dest:MsgAddressExt created_lt:uint64 created_at:uint32 = CommonMsgInfo;
func genInfo(r *mon.Rng, kind string, m *msgSpec) {
	switch kind {
	case "int":
		cc, ccRefs := currencies(r, 8)
		m.info = cat(bit(false), r.Bits(3), addrInt(r, true, true), addrInt(r, true, true), cc, grams(randBig(r, 6)), grams(randBig(r, 6)), u(r.Uint64(), 64), u(r.Uint64(), 32))
		m.infoRefs = ccRefs
	case "ext-in":
		m.dest = addrInt(r, false, true) // addr_std, now and then addr_var (never with anycast: tongo documents that it strips it)
		m.info = cat([]bool{true, false}, addrExt(r), m.dest, grams(randBig(r, 8)))
	case "ext-out":
		m.info = cat([]bool{true, true}, addrInt(r, true, true), addrExt(r), u(r.Uint64(), 64), u(r.Uint64(), 32))
	}
	m.kind = kind
}

// _ split_depth:(Maybe (## 5)) special:(Maybe TickTock) code:(Maybe ^Cell) data:(Maybe ^Cell)
//
//	library:(HashmapE 256 SimpleLib) = StateInit;
//
// tick_tock$_ tick:Bool tock:Bool = TickTock;   simple_lib$_ public:Bool root:^Cell = SimpleLib;
func genStateInit(r *mon.Rng, maxRefs int) ([]bool, []*cell.Cell) {
	var bits []bool
	var refs []*cell.Cell
	if r.Chance(1, 4) {
		bits = cat(bits, bit(true), u(uint64(r.Intn(32)), 5))
	} else {
		bits = append(bits, false)
	}
	if r.Chance(1, 4) {
		bits = cat(bits, bit(true), r.Bits(2))
	} else {
		bits = append(bits, false)
	}
	for k := 0; k < 2; k++ {
		if len(refs) < maxRefs && r.Chance(2, 3) {
			bits = append(bits, true)
			refs = append(refs, gen.RandomDag(r, gen.DagOpts{Nodes: r.Range(1, 5), SmallBits: r.Bool()}))
		} else {
			bits = append(bits, false)
		}
	}
	if len(refs) < maxRefs && r.Chance(1, 5) {
		n := r.Range(1, 3)
		set := map[string][]bool{}
		for len(set) < n {
			k := r.Bits(256)
			set[rbits.String(k)] = k
		}
		var names []string
		for s := range set {
			names = append(names, s)
		}
		sort.Strings(names)
		var ks [][]bool
		var vs []hmVal
		for _, s := range names {
			ks = append(ks, set[s])
			vs = append(vs, hmVal{bits: bit(r.Bool()), refs: []*cell.Cell{gen.Leaf(r, true)}})
		}
		bits = append(bits, true)
		refs = append(refs, hmBuild(ks, vs, 256))
	} else {
		bits = append(bits, false)
	}
	return bits, refs
}

func genBody(r *mon.Rng, maxBits, maxRefs int) *cell.Cell {
	if maxBits < 0 {
		maxBits = 0
	}
	n := gen.BitLen(r)
	if r.Chance(1, 3) {
		n = mon.Pick(r, []int{0, 1, 8, 32, 64, 512 + 32})
	}
	if n > maxBits {
		n = r.Intn(maxBits + 1)
	}
	nr := 0
	if r.Bool() {
		nr = r.Intn(maxRefs + 1)
	}
	var refs []*cell.Cell
	for i := 0; i < nr; i++ {
		refs = append(refs, gen.RandomDag(r, gen.DagOpts{Nodes: r.Range(1, 6), SmallBits: r.Bool()}))
	}
	return cell.New(r.Bits(n), false, refs...)
}

// genMessage draws a message of the requested shape; an inline body is sized to fit.
func genMessage(r *mon.Rng, kind string, initMode int, bodyRef bool) (*msgSpec, *cell.Cell) {
	m := &msgSpec{initMode: initMode, bodyRef: bodyRef}
	genInfo(r, kind, m)
	if initMode != 0 {
		maxRefs := 3
		if initMode == 1 {
			maxRefs = 3 - len(m.infoRefs)
		}
		m.initBits, m.initRefs = genStateInit(r, maxRefs)
	}
	if bodyRef {
		m.body = genBody(r, 1023, 4)
	} else {
		b, rr := m.room()
		m.body = genBody(r, b, rr)
	}
	c, err := m.cell()
	if err != nil {
		R.HarnessError("message generator: %v", err)
		return nil, nil
	}
	return m, c
}

var kinds = []string{"int", "ext-in", "ext-out"}

func anyMessage(r *mon.Rng) (*msgSpec, *cell.Cell) {
	return genMessage(r, mon.Pick(r, kinds), r.Intn(3), r.Bool())
}

// ---------------------------------------------------------------- transactions

type txSpec struct {
	shape string
	acct  [32]byte
	lt    uint64
	in    *cell.Cell
	outs  map[uint64]*cell.Cell
	c     *cell.Cell
}

// transaction$0111 account_addr:bits256 lt:uint64 prev_trans_hash:bits256 prev_trans_lt:uint64 now:uint32
//
//	outmsg_cnt:uint15 orig_status:AccountStatus end_status:AccountStatus
//	^[ in_msg:(Maybe ^(Message Any)) out_msgs:(HashmapE 15 ^(Message Any)) ]
//	total_fees:CurrencyCollection state_update:^(HASH_UPDATE Account) description:^TransactionDescr = Transaction;
func genTx(r *mon.Rng, pick func() *cell.Cell) *txSpec {
	return genTxF(r, pick, txForce{-1, -1, -1, -1})
}

// txForce fixes the optional parts of a transaction (-1 = drawn): in_msg present, number of out_msgs,
// extra currencies in total_fees (its dictionary root is one more reference of the transaction cell,
// between ^[in_msg out_msgs] and state_update), constructor of the description.
type txForce struct {
	in, nout, extra, descr int
}

var descrNames = []string{"trans_storage", "trans_ord", "trans_tick_tock"}

func genTxF(r *mon.Rng, pick func() *cell.Cell, f txForce) *txSpec {
	t := &txSpec{acct: rand32(r), lt: r.Uint64(), outs: map[uint64]*cell.Cell{}}
	var mbitsv []bool
	var mrefs []*cell.Cell
	if f.in < 0 {
		f.in = 0
		if r.Chance(3, 4) {
			f.in = 1
		}
	}
	if f.in == 1 {
		t.in = pick()
		mbitsv, mrefs = bit(true), []*cell.Cell{t.in}
	} else {
		mbitsv = bit(false)
	}
	nout := f.nout
	if nout < 0 {
		nout = mon.Pick(r, []int{0, 0, 1, 2, 3, 5})
	}
	var keys []uint64
	var cells []*cell.Cell
	for len(keys) < nout {
		k := uint64(len(keys))
		if r.Chance(1, 3) {
			k = uint64(r.Intn(1 << 15))
		}
		if _, dup := t.outs[k]; dup {
			continue
		}
		c := pick()
		t.outs[k] = c
		keys, cells = append(keys, k), append(cells, c)
	}
	db, dr := dictOfRefs(keys, 15, cells)
	msgs := cell.New(cat(mbitsv, db), false, append(mrefs, dr...)...)
	fees, feeRefs := currenciesF(r, 8, f.extra)
	// update_hashes#72 {X:Type} old_hash:bits256 new_hash:bits256 = HASH_UPDATE X;
	upd := cell.New(cat(u(0x72, 8), r.Bits(512)), false)
	var descr *cell.Cell
	if f.descr < 0 {
		f.descr = mon.Pick(r, []int{0, 0, 0, 1, 1, 1, 2})
	}
	// tr_phase_storage$_ storage_fees_collected:Grams storage_fees_due:(Maybe Grams) status_change:AccStatusChange
	storagePh := func() []bool {
		due := bit(false)
		if r.Bool() {
			due = cat(bit(true), grams(randBig(r, 5)))
		}
		return cat(grams(randBig(r, 5)), due, mon.Pick(r, [][]bool{{false}, {true, false}, {true, true}}))
	}
	t.shape = fmt.Sprintf("in_msg=%v/out_msgs=%d/extra-currencies-in-total_fees=%v/%s", f.in == 1, nout, len(feeRefs) > 0, descrNames[f.descr])
	switch f.descr {
	case 0:
		// trans_storage$0001 storage_ph:TrStoragePhase = TransactionDescr;
		descr = cell.New(cat(u(1, 4), storagePh()), false)
	case 2:
		// trans_tick_tock$001 is_tock:Bool storage_ph:TrStoragePhase compute_ph:TrComputePhase
		//   action:(Maybe ^TrActionPhase) aborted:Bool destroyed:Bool = TransactionDescr;
		descr = cell.New(cat(u(1, 3), bit(r.Bool()), storagePh(), bit(false), u(uint64(r.Intn(3)), 2), bit(false), bit(r.Bool()), bit(r.Bool())), false)
	default:
		// trans_ord$0000 credit_first:Bool storage_ph:(Maybe TrStoragePhase) credit_ph:(Maybe TrCreditPhase)
		//   compute_ph:TrComputePhase action:(Maybe ^TrActionPhase) aborted:Bool bounce:(Maybe TrBouncePhase) destroyed:Bool
		// tr_phase_compute_skipped$0 reason:ComputeSkipReason;  cskip_no_state$00 / cskip_bad_state$01 / cskip_no_gas$10
		descr = cell.New(cat(u(0, 4), bit(r.Bool()), bit(false), bit(false), bit(false), u(uint64(r.Intn(3)), 2), bit(false), bit(r.Bool()), bit(false), bit(r.Bool())), false)
	}
	bitsv := cat(u(7, 4), rbits.BytesBits(t.acct[:]), u(t.lt, 64), r.Bits(256), u(r.Uint64(), 64), u(r.Uint64(), 32),
		u(uint64(nout), 15), u(uint64(r.Intn(4)), 2), u(uint64(r.Intn(4)), 2), fees)
	refs := []*cell.Cell{msgs}
	refs = append(refs, feeRefs...) // the extra-currency dictionary of total_fees comes between ^[...] and state_update
	refs = append(refs, upd, descr)
	t.c = cell.New(bitsv, false, refs...)
	return t
}

// ---------------------------------------------------------------- carriers

type lvl3 struct {
	Tx  tlb.Transaction `tlb:"^"`
	MTx tlb.Maybe[tlb.Ref[tlb.Transaction]]
	Txs tlb.HashmapE[tlb.Uint64, tlb.Ref[tlb.Transaction]]
}

type lvl2 struct {
	Tag  uint8
	OptP *tlb.Message `tlb:"maybe^"`
	Msg  tlb.Message  `tlb:"^"`
	D64  tlb.HashmapE[tlb.Uint64, tlb.Ref[tlb.Message]]
	L3   *lvl3 `tlb:"maybe^"`
}

type lvl1 struct {
	Pad   uint32
	First tlb.Message `tlb:"^"`
	Opt   tlb.Maybe[tlb.Ref[tlb.Message]]
	D15   tlb.HashmapE[tlb.Uint15, tlb.Ref[tlb.Message]]
	L2    lvl2 `tlb:"^"`
	Tail  uint16
}

type expect struct {
	msgs map[string]*cell.Cell
	spec map[*cell.Cell]*msgSpec
	txs  map[string]*txSpec
}

func genCarrier(r *mon.Rng) (*cell.Cell, *expect) {
	e := &expect{msgs: map[string]*cell.Cell{}, spec: map[*cell.Cell]*msgSpec{}, txs: map[string]*txSpec{}}
	var pool []*cell.Cell
	pick := func() *cell.Cell {
		if len(pool) > 0 && r.Chance(1, 6) {
			return mon.Pick(r, pool) // the same message sits at two places of the block
		}
		s, c := anyMessage(r)
		if c == nil {
			return cell.New(nil, false)
		}
		e.spec[c] = s
		pool = append(pool, c)
		return c
	}
	place := func(path string) *cell.Cell {
		c := pick()
		e.msgs[path] = c
		return c
	}
	dict := func(path string, n, keyBits int) ([]bool, []*cell.Cell) {
		var keys []uint64
		var cells []*cell.Cell
		seen := map[uint64]bool{}
		for len(keys) < n {
			k := r.Uint64()
			if keyBits < 64 {
				k &= 1<<uint(keyBits) - 1
			}
			if r.Chance(1, 3) {
				k = uint64(len(keys))
			}
			if seen[k] {
				continue
			}
			seen[k] = true
			keys = append(keys, k)
			cells = append(cells, place(fmt.Sprintf("%s[%d]", path, k)))
		}
		return dictOfRefs(keys, keyBits, cells)
	}
	tx := func(path string) *cell.Cell {
		t := genTx(r, pick)
		e.txs[path] = t
		if t.in != nil {
			e.msgs[path+".in"] = t.in
		}
		for k, c := range t.outs {
			e.msgs[fmt.Sprintf("%s.out[%d]", path, k)] = c
		}
		return t.c
	}
	// level 3
	var l3 *cell.Cell
	if r.Chance(2, 3) {
		bits := []bool{}
		refs := []*cell.Cell{tx("L3.Tx")}
		if r.Bool() {
			bits = append(bits, true)
			refs = append(refs, tx("L3.MTx"))
		} else {
			bits = append(bits, false)
		}
		n := mon.Pick(r, []int{0, 1, 2, 4})
		var keys []uint64
		var cells []*cell.Cell
		for i := 0; i < n; i++ {
			k := r.Uint64()
			keys = append(keys, k)
			cells = append(cells, tx(fmt.Sprintf("L3.Txs[%d]", k)))
		}
		db, dr := dictOfRefs(keys, 64, cells)
		l3 = cell.New(cat(bits, db), false, append(refs, dr...)...)
	}
	// level 2
	b2 := u(uint64(r.Intn(256)), 8)
	var r2 []*cell.Cell
	if r.Bool() {
		b2 = append(b2, true)
		r2 = append(r2, place("L2.OptP"))
	} else {
		b2 = append(b2, false)
	}
	r2 = append(r2, place("L2.Msg"))
	db, dr := dict("L2.D64", mon.Pick(r, []int{0, 1, 3, 6}), 64)
	b2, r2 = cat(b2, db), append(r2, dr...)
	if l3 != nil {
		b2, r2 = append(b2, true), append(r2, l3)
	} else {
		b2 = append(b2, false)
	}
	l2 := cell.New(b2, false, r2...)
	// level 1
	b1 := u(r.Uint64(), 32)
	r1 := []*cell.Cell{place("First")}
	if r.Bool() {
		b1 = append(b1, true)
		r1 = append(r1, place("Opt"))
	} else {
		b1 = append(b1, false)
	}
	db, dr = dict("D15", mon.Pick(r, []int{0, 1, 2, 5, 9}), 15)
	b1, r1 = cat(b1, db), append(r1, dr...)
	r1 = append(r1, l2)
	b1 = cat(b1, u(r.Uint64(), 16))
	return cell.New(b1, false, r1...), e
}

type decoded struct {
	msgs map[string]*tlb.Message
	txs  map[string]*tlb.Transaction
}

func collectTx(path string, t *tlb.Transaction, d *decoded) {
	d.txs[path] = t
	if t.Msgs.InMsg.Exists {
		d.msgs[path+".in"] = &t.Msgs.InMsg.Value.Value
	}
	items := t.Msgs.OutMsgs.Items()
	for i := range items {
		d.msgs[fmt.Sprintf("%s.out[%d]", path, uint64(items[i].Key))] = &items[i].Value.Value
	}
}

func collect(v *lvl1) *decoded {
	d := &decoded{msgs: map[string]*tlb.Message{}, txs: map[string]*tlb.Transaction{}}
	d.msgs["First"] = &v.First
	if v.Opt.Exists {
		d.msgs["Opt"] = &v.Opt.Value.Value
	}
	it := v.D15.Items()
	for i := range it {
		d.msgs[fmt.Sprintf("D15[%d]", uint64(it[i].Key))] = &it[i].Value.Value
	}
	if v.L2.OptP != nil {
		d.msgs["L2.OptP"] = v.L2.OptP
	}
	d.msgs["L2.Msg"] = &v.L2.Msg
	it2 := v.L2.D64.Items()
	for i := range it2 {
		d.msgs[fmt.Sprintf("L2.D64[%d]", uint64(it2[i].Key))] = &it2[i].Value.Value
	}
	if l3 := v.L2.L3; l3 != nil {
		collectTx("L3.Tx", &l3.Tx, d)
		if l3.MTx.Exists {
			collectTx("L3.MTx", &l3.MTx.Value.Value, d)
		}
		it3 := l3.Txs.Items()
		for i := range it3 {
			collectTx(fmt.Sprintf("L3.Txs[%d]", uint64(it3[i].Key)), &it3[i].Value.Value, d)
		}
	}
	return d
}

func placeClass(path string) string {
	p := pathClass(path)
	switch {
	case strings.HasSuffix(p, ".in"):
		return "tx.in_msg(Maybe ^)"
	case strings.Contains(p, ".out[]"):
		return "tx.out_msgs(dict value)"
	case p == "First" || p == "L2.Msg":
		return "^"
	case p == "Opt":
		return "Maybe[Ref]"
	case p == "L2.OptP":
		return "maybe^ pointer"
	case p == "D15[]" || p == "L2.D64[]":
		return "dict value"
	}
	return p
}

func deliver(root *cell.Cell, viaBoc bool, r *mon.Rng) (*tboc.Cell, error) {
	if viaBoc {
		cs, _, err := bridge.ToTongoParsed([]*cell.Cell{root}, rboc.Options{Index: r.Bool(), CRC: r.Bool()})
		if err != nil {
			return nil, err
		}
		if len(cs) != 1 {
			return nil, fmt.Errorf("%d roots", len(cs))
		}
		return cs[0], nil
	}
	return bridge.ToTongoBuilt(root)
}

func h32(b [32]byte) string { return mon.Hex(b[:]) }

// compareMessage is the core oracle for one decoded message.
func compareMessage(m *tlb.Message, src *cell.Cell, spec *msgSpec, how, where string, wit map[string]any) {
	want := src.Hash()
	var got tlb.Bits256
	if pn := mon.Guard(func() { got = m.Hash(false) }); pn != nil {
		R.Violation("panic@"+pn.Site+"/Message.Hash", witnessOf(wit, "panic", pn.Value))
		return
	}
	cls := "?"
	if spec != nil {
		cls = spec.class()
		R.Seen("message_shapes", cls)
	}
	R.Seen("message_places", where)
	R.Eval("m/" + how + "/" + where + "/" + cls + "/" + string(want[:8]))
	if [32]byte(got) != want {
		R.Violation("hash-mismatch@Message.Hash(false)/"+how+"/"+where, witnessOf(wit, "got", h32(got), "want", h32(want), "shape", cls))
		return
	}
	if spec == nil {
		return
	}
	// what the generator put in must be what came out (development aid: never a violation of C16)
	okStruct := m.Init.Exists == (spec.initMode != 0) && (!m.Init.Exists || m.Init.Value.IsRight == (spec.initMode == 2)) && m.Body.IsRight == spec.bodyRef
	switch spec.kind {
	case "int":
		okStruct = okStruct && m.Info.SumType == "IntMsgInfo"
	case "ext-in":
		okStruct = okStruct && m.Info.SumType == "ExtInMsgInfo"
	case "ext-out":
		okStruct = okStruct && m.Info.SumType == "ExtOutMsgInfo"
	}
	if !okStruct {
		R.Inconclusive("decoded message structure differs from the generator's description (" + cls + ")")
		return
	}
	// normalised hash
	var n1, n2, after tlb.Bits256
	if pn := mon.Guard(func() { n1 = m.Hash(true); n2 = m.Hash(true); after = m.Hash(false) }); pn != nil {
		R.Violation("panic@"+pn.Site+"/Message.Hash(true)", witnessOf(wit, "panic", pn.Value, "shape", cls))
		return
	}
	if n1 != n2 || [32]byte(after) != want {
		R.Violation("unstable@Message.Hash(true)/"+how, witnessOf(wit, "first", h32(n1), "second", h32(n2), "shape", cls))
		return
	}
	if spec.kind != "ext-in" {
		R.Eval("")
		if [32]byte(n1) != want {
			R.Violation("hash-mismatch@Message.Hash(true)/"+spec.kind+"/"+how, witnessOf(wit, "got", h32(n1), "want", h32(want), "shape", cls))
		}
		return
	}
	if src.Mask() != 0 {
		// a record of level > 0 (taken from a Merkle proof): its re-encoding is built in memory,
		// where tongo does not derive level masks (in-memory cells are ordinary, C02) — the
		// normalised hash of such a record is not judged
		R.Count("normalised_hash_not_judged_for_level>0_messages", 1)
		return
	}
	// the normalised hash depends on destination and body, not on how far somebody has read the body:
	// move the read cursors of the decoded body in place and ask again
	{
		var n3 tlb.Bits256
		moved := false
		if pn := mon.Guard(func() {
			bc := (*tboc.Cell)(&m.Body.Value)
			if k := bc.BitsAvailableForRead(); k > 0 {
				if k > 9 {
					k = 9
				}
				_, _ = bc.ReadUint(k)
				moved = true
			}
			if bc.RefsAvailableForRead() > 0 {
				_, _ = bc.NextRef()
				moved = true
			}
			n3 = m.Hash(true)
			bc.ResetCounters()
		}); pn != nil {
			R.Violation("panic@"+pn.Site+"/Message.Hash(true)/after-reading-the-body", witnessOf(wit, "panic", pn.Value, "shape", cls))
			return
		}
		if moved {
			R.Eval("")
			R.Count("normalised_hashes_asked_again_after_reading_the_body_in_place", 1)
			if n3 != n1 {
				R.Violation("normalised-hash-changed-by@reading-the-body/"+map[bool]string{true: "body-ref", false: "body-inline"}[spec.bodyRef],
					witnessOf(wit, "before", h32(n1), "after", h32(n3), "shape", cls, "body_bits", len(spec.body.Bits), "body_refs", len(spec.body.Refs)))
			}
		}
	}
	canon := spec.canonical().Hash()
	R.Eval("n/" + how + "/" + cls + "/" + string(canon[:8]))
	R.Count("normalised_hashes_compared_with_canonical_form", 1)
	if [32]byte(n1) != canon {
		bodyKind := "ordinary-body"
		if spec.body.Exotic {
			bodyKind = "exotic-body" // a library cell
			if len(spec.body.Bits) >= 8 {
				switch rbits.ToUint(spec.body.Bits[:8]) {
				case 1:
					bodyKind = "pruned-branch-body"
				case 3:
					bodyKind = "merkle-proof-body"
				case 4:
					bodyKind = "merkle-update-body"
				}
			}
		}
		destKind := ""
		if len(spec.dest) > 2 && spec.dest[0] && spec.dest[1] {
			destKind = "/addr_var-destination"
		}
		R.Violation("normalised-hash-mismatch@Message.Hash(true)/"+initNames[spec.initMode]+"/"+map[bool]string{true: "body-ref", false: "body-inline"}[spec.bodyRef]+"/"+bodyKind+destKind+"/"+how,
			witnessOf(wit, "got", h32(n1), "want", h32(canon), "shape", cls, "message_bits", rbits.String(src.Bits), "body_bits", len(spec.body.Bits), "body_refs", len(spec.body.Refs)))
	}
}

func witnessOf(base map[string]any, kv ...any) map[string]any {
	w := map[string]any{}
	for k, v := range base {
		w[k] = v
	}
	for i := 0; i+1 < len(kv); i += 2 {
		w[fmt.Sprint(kv[i])] = kv[i+1]
	}
	return w
}

func compareTx(t *tlb.Transaction, spec *txSpec, how, where string, wit map[string]any) {
	want := spec.c.Hash()
	var got tlb.Bits256
	if pn := mon.Guard(func() { got = t.Hash() }); pn != nil {
		R.Violation("panic@"+pn.Site+"/Transaction.Hash", witnessOf(wit, "panic", pn.Value))
		return
	}
	R.Eval("t/" + how + "/" + where + "/" + string(want[:8]))
	R.Seen("transaction_places", where)
	R.Seen("transaction_shapes", spec.shape)
	if [32]byte(got) != want {
		R.Violation("hash-mismatch@Transaction.Hash/"+how+"/"+where, witnessOf(wit, "got", h32(got), "want", h32(want)))
		return
	}
	if [32]byte(t.AccountAddr) != spec.acct || t.Lt != spec.lt {
		R.Inconclusive("decoded transaction fields differ from the generator's description")
	}
	checkSourceBoc(t, want, how, wit)
}

// SourceBoc must parse back (both readers) to one root with the reported hash.
func checkSourceBoc(t *tlb.Transaction, want cell.Hash, how string, wit map[string]any) {
	var b []byte
	var err error
	if pn := mon.Guard(func() { b, err = t.SourceBoc() }); pn != nil {
		R.Violation("panic@"+pn.Site+"/Transaction.SourceBoc/"+how, witnessOf(wit, "panic", pn.Value))
		return
	}
	R.Eval("")
	R.Count("source_bocs_checked", 1)
	if err != nil {
		R.Violation("error@Transaction.SourceBoc/"+how, witnessOf(wit, "err", err.Error()))
		return
	}
	roots, _, _, rerr := rboc.Read(b)
	if rerr != nil || len(roots) != 1 {
		R.Violation("invalid-boc@Transaction.SourceBoc/"+how, witnessOf(wit, "err", fmt.Sprint(rerr), "boc", mon.HexTrunc(b, 2048)))
		return
	}
	if roots[0].Hash() != want {
		R.Violation("hash-mismatch@Transaction.SourceBoc(reference reader)/"+how, witnessOf(wit, "got", h32(roots[0].Hash()), "want", h32(want)))
		return
	}
	var cs []*tboc.Cell
	var hh []byte
	if pn := mon.Guard(func() {
		cs, err = tboc.DeserializeBoc(b)
		if err == nil && len(cs) == 1 {
			hh, err = cs[0].Hash()
		}
	}); pn != nil || err != nil || len(cs) != 1 || !bytes.Equal(hh, want[:]) {
		R.Violation("hash-mismatch@Transaction.SourceBoc(tongo reader)/"+how, witnessOf(wit, "err", fmt.Sprint(err, pn), "got", mon.Hex(hh), "want", h32(want)))
	}
	// a second call: again a BOC of the same cell (identical bytes are the common case, not a requirement)
	if b2, err := t.SourceBoc(); err != nil {
		R.Violation("unstable@Transaction.SourceBoc/"+how, witnessOf(wit, "err", err.Error()))
	} else if !bytes.Equal(b, b2) {
		R.Count("source_boc_second_call_gave_other_bytes", 1)
		if r2, _, _, rerr := rboc.Read(b2); rerr != nil || len(r2) != 1 || r2[0].Hash() != want {
			R.Violation("unstable@Transaction.SourceBoc/"+how, witnessOf(wit, "err", fmt.Sprint(rerr)))
		}
	}
}

func sectionCarriers() {
	n := R.N(700, 25000)
	for i := 0; i < n; i++ {
		rng := R.Rng("carrier", i)
		root, exp := genCarrier(rng)
		if root.Err() != nil || len(root.Bits) > 1023 || len(root.Refs) > 4 {
			R.HarnessError("carrier generator produced an invalid cell")
			return
		}
		viaBoc := i%3 != 0
		var per [2]*decoded
		for pass, how := range []string{"plain", "hasher"} {
			wit := map[string]any{"carrier": i, "decoder": how, "delivered_via_boc": viaBoc}
			t, err := deliver(root, viaBoc, rng)
			if err != nil {
				R.HarnessError("cannot deliver carrier %d to tongo: %v", i, err)
				return
			}
			var v lvl1
			pn := mon.Guard(func() {
				if how == "plain" {
					err = tlb.Unmarshal(t, &v)
				} else {
					err = tlb.NewDecoder().Unmarshal(t, &v)
				}
			})
			if pn != nil {
				R.Violation("panic@"+pn.Site+"/decode-carrier/"+how, witnessOf(wit, "panic", pn.Value))
				continue
			}
			if err != nil {
				// decoding the reference encoding is C03/C04's business; here it only means nothing was observed
				rejected("carrier", how, err, wit)
				continue
			}
			d := collect(&v)
			per[pass] = d
			if len(d.msgs) != len(exp.msgs) || len(d.txs) != len(exp.txs) {
				R.Inconclusive("decoded carrier holds a different number of records than the generator placed")
				continue
			}
			for path, src := range exp.msgs {
				m, ok := d.msgs[path]
				if !ok {
					R.Inconclusive("decoded carrier misses a record the generator placed")
					continue
				}
				compareMessage(m, src, exp.spec[src], how, placeClass(path), witnessOf(wit, "path", path))
			}
			for path, ts := range exp.txs {
				t, ok := d.txs[path]
				if !ok {
					R.Inconclusive("decoded carrier misses a record the generator placed")
					continue
				}
				compareTx(t, ts, how, placeClass(path), witnessOf(wit, "path", path))
			}
		}
		// plain decode and decoder-with-hasher agree record by record
		if per[0] != nil && per[1] != nil {
			for path, m := range per[0].msgs {
				if m2, ok := per[1].msgs[path]; ok {
					R.Eval("")
					if m.Hash(false) != m2.Hash(false) || m.Hash(true) != m2.Hash(true) {
						R.Violation("plain-vs-hasher-disagree@Message.Hash/"+placeClass(path), map[string]any{"carrier": i, "path": path})
					}
				}
			}
			for path, t := range per[0].txs {
				if t2, ok := per[1].txs[path]; ok {
					R.Eval("")
					if t.Hash() != t2.Hash() {
						R.Violation("plain-vs-hasher-disagree@Transaction.Hash/"+placeClass(path), map[string]any{"carrier": i, "path": path})
					}
				}
			}
		}
		if i < 2 {
			R.Sample(map[string]any{"kind": "synthetic carrier", "messages_placed": len(exp.msgs), "transactions_placed": len(exp.txs), "root_hash": h32(root.Hash())})
		}
	}
}

// ---------------------------------------------------------------- decoder variants

// The same cell must give the same hashes whichever way the decoder was built.
var hows4 = []string{"plain", "hasher", "hasher+debug", "hasher+library-resolver"}

var (
	libMu sync.Mutex
	libs  = map[tlb.Bits256]*tboc.Cell{} // what the library resolver knows
)

func registerLibrary(content *cell.Cell) {
	t, err := bridge.ToTongoBuilt(content)
	if err != nil {
		R.HarnessError("library content: %v", err)
		return
	}
	// known under the hash the library cell names and under the hash of the library cell itself
	// (tlb/decoder.go asks the resolver for c.Hash256() of the library cell): what key a resolver
	// is asked for is not C16's subject
	libMu.Lock()
	libs[tlb.Bits256(content.Hash())] = t
	libs[tlb.Bits256(cell.NewLibrary(content.Hash()).Hash())] = t
	libMu.Unlock()
}

func resolveLibrary(h tlb.Bits256) (*tboc.Cell, error) {
	libMu.Lock()
	defer libMu.Unlock()
	if c, ok := libs[h]; ok {
		c.ResetCounters()
		return c, nil
	}
	return nil, fmt.Errorf("scripted resolver: unknown library")
}

// unmarshalHow decodes with the decoder variant named by how (anything not listed: NewDecoder()).
func unmarshalHow(how string, t *tboc.Cell, o any) error {
	switch how {
	case "plain":
		return tlb.Unmarshal(t, o)
	case "hasher+debug":
		return tlb.NewDecoder().WithDebug().Unmarshal(t, o)
	case "hasher+library-resolver":
		return tlb.NewDecoder().WithLibraryResolver(resolveLibrary).Unmarshal(t, o)
	}
	return tlb.NewDecoder().Unmarshal(t, o)
}

func errClass(err error) string {
	var sb strings.Builder
	for _, c := range fmt.Sprint(err) {
		if (c >= 'a' && c <= 'z') || (c >= 'A' && c <= 'Z') || c == ' ' {
			sb.WriteRune(c)
		}
		if sb.Len() >= 48 {
			break
		}
	}
	return strings.TrimSpace(sb.String())
}

// rejected: a record written by the reference from block.tlb is a valid one; when the decoder refuses
// it, no hash at all is reported for it (and none for the block around it).
func rejected(what, how string, err error, wit map[string]any) {
	R.Eval("")
	R.Violation("no-hash@valid-"+what+"-rejected/"+how+"/"+errClass(err), witnessOf(wit, "err", fmt.Sprint(err)))
}

// ---------------------------------------------------------------- direct decoding, every shape, re-decoding

type refCarrier struct {
	M tlb.Message `tlb:"^"`
}

func decodeMessage(c *cell.Cell, how string, viaBoc, wrapped bool, r *mon.Rng) (*tlb.Message, error, *mon.Panic) {
	root := c
	if wrapped {
		root = cell.New(nil, false, c)
	}
	t, err := deliver(root, viaBoc, r)
	if err != nil {
		R.HarnessError("cannot deliver message to tongo: %v", err)
		return nil, err, nil
	}
	var m tlb.Message
	var w refCarrier
	pn := mon.Guard(func() {
		var target any = &m
		if wrapped {
			target = &w
		}
		err = unmarshalHow(how, t, target)
	})
	if wrapped {
		return &w.M, err, pn
	}
	return &m, err, pn
}

func sectionShapes() {
	n := R.N(60, 2500) // per shape
	for _, kind := range kinds {
		for initMode := 0; initMode < 3; initMode++ {
			for _, bodyRef := range []bool{false, true} {
				for k := 0; k < n; k++ {
					rng := R.Rng("shape/"+kind+fmt.Sprint(initMode, bodyRef), k)
					spec, c := genMessage(rng, kind, initMode, bodyRef)
					if c == nil {
						return
					}
					how := hows4[k%4]
					wrapped := (k/4)%2 == 1
					where := "root"
					if wrapped {
						where = "^"
					}
					wit := map[string]any{"shape": spec.class(), "case": k, "decoder": how}
					m, err, pn := decodeMessage(c, how, k%3 != 0, wrapped, rng)
					if pn != nil {
						R.Violation("panic@"+pn.Site+"/decode-message/"+how, witnessOf(wit, "panic", pn.Value))
						continue
					}
					if err != nil {
						rejected("message", how, err, wit)
						continue
					}
					R.Seen("decoder_variants", how)
					compareMessage(m, c, spec, how, where, wit)
				}
			}
		}
	}
	// decoding the very same tongo cell twice, cursors left where the first decoding stopped
	for k := 0; k < R.N(100, 3000); k++ {
		rng := R.Rng("redecode", k)
		spec, c := anyMessage(rng)
		if c == nil {
			return
		}
		t, err := deliver(c, k%2 == 0, rng)
		if err != nil {
			R.HarnessError("deliver: %v", err)
			return
		}
		dec := tlb.NewDecoder()
		for round := 0; round < 3; round++ {
			var m tlb.Message
			how := "plain"
			pn := mon.Guard(func() {
				if (round+k)%2 == 0 {
					err = tlb.Unmarshal(t, &m)
				} else {
					how = "hasher"
					err = dec.Unmarshal(t, &m)
				}
			})
			if pn != nil || err != nil {
				if round == 0 {
					R.Inconclusive("tongo rejects a reference-built message")
				} else {
					R.Violation("error@re-decoding-the-same-cell/"+how, map[string]any{"round": round, "err": fmt.Sprint(err, pn), "shape": spec.class()})
				}
				break
			}
			compareMessage(&m, c, spec, how, fmt.Sprintf("root/decoded-again(%d)", round), map[string]any{"case": k, "round": round})
		}
		// the same cell object is changed (a builder re-used by its owner) and decoded once more: the
		// reported hash is that of the cell as it is now, not of what it was at an earlier decode
		if k%2 == 1 && len(c.Bits) < 1023 && err == nil {
			var werr error
			if pn := mon.Guard(func() { t.ResetCounters(); werr = t.WriteBit(k%4 == 1) }); pn == nil && werr == nil {
				changed := cell.New(append(append([]bool(nil), c.Bits...), k%4 == 1), false, c.Refs...)
				want := changed.Hash()
				for _, how := range []string{"plain", "hasher"} {
					var m tlb.Message
					pn := mon.Guard(func() {
						t.ResetCounters()
						if how == "plain" {
							err = tlb.Unmarshal(t, &m)
						} else {
							err = tlb.NewDecoder().Unmarshal(t, &m)
						}
					})
					if pn != nil || err != nil {
						continue // the changed cell need not be a message any more
					}
					R.Eval("m/changed/" + how + "/" + string(want[:8]))
					if got := m.Hash(false); [32]byte(got) != want {
						R.Violation("hash-mismatch@Message.Hash(false)/"+how+"/cell-changed-between-decodes", map[string]any{"case": k, "got": h32(got), "want": h32(want),
							"hash_before_change": h32(c.Hash()), "shape": spec.class()})
					}
				}
			}
		}
	}
}

// ---------------------------------------------------------------- one destination decoded over and over, kept copies

// sectionReuse: the usual Go loop `var tx T; for ... { Unmarshal(cell, &tx); list = append(list, tx) }`.
// One variable receives record after record, value copies of it are kept. Every kept copy must go on
// reporting the hash of the cell IT was decoded from (Hash, normalised hash, SourceBoc), and the
// variable must report the hash of the cell decoded last. Transactions are decoded at the root of
// their cell here (the way a list of transactions fetched from a node is decoded).
func sectionReuse() {
	groups := R.N(120, 3000)
	for g := 0; g < groups; g++ {
		rng := R.Rng("reuse-tx", g)
		how := []string{"plain", "hasher", "hasher(one decoder for all)"}[g%3]
		viaBoc := g%2 == 0
		askBocAtOnce := g%4 < 2 // SourceBoc also asked right after each decode, or only of the kept copies
		n := rng.Range(2, 5)
		pick := func() *cell.Cell {
			_, c := anyMessage(rng)
			if c == nil {
				return cell.New(nil, false)
			}
			return c
		}
		var specs []*txSpec
		var tx tlb.Transaction // the one destination
		var kept []tlb.Transaction
		shared := tlb.NewDecoder()
		ok := true
		for i := 0; i < n && ok; i++ {
			ts := genTx(rng, pick)
			t, err := deliver(ts.c, viaBoc, rng)
			if err != nil {
				R.HarnessError("deliver: %v", err)
				return
			}
			pn := mon.Guard(func() {
				switch how {
				case "plain":
					err = tlb.Unmarshal(t, &tx)
				case "hasher":
					err = tlb.NewDecoder().Unmarshal(t, &tx)
				default:
					err = shared.Unmarshal(t, &tx)
				}
			})
			wit := map[string]any{"group": g, "decoder": how, "record": i, "delivered_via_boc": viaBoc}
			if pn != nil {
				R.Violation("panic@"+pn.Site+"/decode-transaction/"+how, witnessOf(wit, "panic", pn.Value))
				ok = false
				break
			}
			if err != nil {
				rejected("transaction", how, err, witnessOf(wit, "shape", ts.shape))
				ok = false
				break
			}
			specs = append(specs, ts)
			if askBocAtOnce {
				compareTx(&tx, ts, how, "root/decoded-over-the-previous-record", wit)
			} else {
				R.Eval("t/" + how + "/root/decoded-over/" + string(h8(ts.c)))
				if got := tx.Hash(); [32]byte(got) != ts.c.Hash() {
					R.Violation("hash-mismatch@Transaction.Hash/"+how+"/root/decoded-over-the-previous-record", witnessOf(wit, "got", h32(got), "want", h32(ts.c.Hash())))
				}
			}
			kept = append(kept, tx) // a value copy
		}
		if !ok {
			continue
		}
		// now the copies, in another order than they were made
		for _, i := range rng.Perm(len(kept)) {
			wit := map[string]any{"group": g, "decoder": how, "record": i, "records_decoded_into_the_variable": len(kept), "source_boc_also_asked_right_after_decoding": askBocAtOnce}
			compareTx(&kept[i], specs[i], how, "kept-copy/variable-decoded-over-since", wit)
			R.Count("kept_transaction_copies_checked", 1)
		}
	}

	// messages: the normalised hash is computed on demand from the value, so a value that has been
	// decoded over (or a kept copy of an earlier content) must give the hash of its own content
	for g := 0; g < R.N(150, 4000); g++ {
		rng := R.Rng("reuse-msg", g)
		how := []string{"plain", "hasher", "hasher(one decoder for all)"}[g%3]
		n := rng.Range(2, 5)
		var m tlb.Message // the one destination
		type rec struct {
			spec *msgSpec
			c    *cell.Cell
		}
		var recs []rec
		var kept []tlb.Message
		shared := tlb.NewDecoder()
		ok := true
		for i := 0; i < n && ok; i++ {
			kind := "ext-in"
			if rng.Chance(1, 4) {
				kind = mon.Pick(rng, kinds)
			}
			spec, c := genMessage(rng, kind, rng.Intn(3), rng.Bool())
			if c == nil {
				return
			}
			t, err := deliver(c, g%2 == 0, rng)
			if err != nil {
				R.HarnessError("deliver: %v", err)
				return
			}
			pn := mon.Guard(func() {
				switch how {
				case "plain":
					err = tlb.Unmarshal(t, &m)
				case "hasher":
					err = tlb.NewDecoder().Unmarshal(t, &m)
				default:
					err = shared.Unmarshal(t, &m)
				}
			})
			if pn != nil || err != nil {
				R.Inconclusive("tongo rejects a reference-built message")
				ok = false
				break
			}
			recs = append(recs, rec{spec, c})
			compareMessage(&m, c, spec, how, "root/decoded-over-the-previous-record", map[string]any{"group": g, "record": i})
			kept = append(kept, m)
		}
		if !ok {
			continue
		}
		for _, i := range rng.Perm(len(kept)) {
			compareMessage(&kept[i], recs[i].c, recs[i].spec, how, "kept-copy/variable-decoded-over-since", map[string]any{"group": g, "record": i, "records_decoded_into_the_variable": len(kept)})
			R.Count("kept_message_copies_checked", 1)
		}
	}
}

func h8(c *cell.Cell) []byte { h := c.Hash(); return h[:8] }

// ---------------------------------------------------------------- transactions: re-decoding, level > 0, exotic cells below

type txPair struct {
	A tlb.Transaction `tlb:"^"`
	B tlb.Transaction `tlb:"^"`
}

func sectionTransactions() {
	// (1) the very same cell decoded again and again, at the root, through one decoder and without
	for k := 0; k < R.N(80, 2500); k++ {
		rng := R.Rng("tx-redecode", k)
		ts := genTx(rng, func() *cell.Cell {
			_, c := anyMessage(rng)
			if c == nil {
				return cell.New(nil, false)
			}
			return c
		})
		t, err := deliver(ts.c, k%2 == 0, rng)
		if err != nil {
			R.HarnessError("deliver: %v", err)
			return
		}
		dec := tlb.NewDecoder()
		for round := 0; round < 3; round++ {
			var tx tlb.Transaction
			how := "plain"
			pn := mon.Guard(func() {
				if (round+k)%2 == 0 {
					err = tlb.Unmarshal(t, &tx)
				} else {
					how = "hasher"
					err = dec.Unmarshal(t, &tx)
				}
			})
			if pn != nil || err != nil {
				if round == 0 && pn == nil {
					rejected("transaction", how, err, map[string]any{"case": k, "shape": ts.shape})
				} else if round == 0 {
					R.Violation("panic@"+pn.Site+"/decode-transaction/"+how, map[string]any{"panic": pn.Value, "shape": ts.shape})
				} else {
					R.Violation("error@re-decoding-the-same-cell/Transaction/"+how, map[string]any{"round": round, "err": fmt.Sprint(err, pn)})
				}
				break
			}
			compareTx(&tx, ts, how, fmt.Sprintf("root/decoded-again(%d)", round), map[string]any{"case": k, "round": round})
		}
	}
	// (3) every combination of the optional parts: in_msg absent/present, out_msgs empty/one/several,
	// total_fees without/with extra currencies (one more reference in the middle of the transaction
	// cell), each description constructor the generator writes. A valid transaction decodes and
	// reports the hash of its cell.
	sweep := 0
	for rep := 0; rep < R.N(2, 25); rep++ {
		for _, in := range []int{0, 1} {
			for _, nout := range []int{0, 1, 3} {
				for _, extra := range []int{0, 1} {
					for descr := range descrNames {
						sweep++
						rng := R.Rng("tx-shapes", sweep)
						ts := genTxF(rng, func() *cell.Cell {
							_, c := anyMessage(rng)
							if c == nil {
								return cell.New(nil, false)
							}
							return c
						}, txForce{in: in, nout: nout, extra: extra, descr: descr})
						how := hows4[sweep%4]
						t, err := deliver(ts.c, sweep%3 != 0, rng)
						if err != nil {
							R.HarnessError("deliver: %v", err)
							return
						}
						var tx tlb.Transaction
						wit := map[string]any{"shape": ts.shape, "decoder": how}
						if pn := mon.Guard(func() { err = unmarshalHow(how, t, &tx) }); pn != nil {
							R.Violation("panic@"+pn.Site+"/decode-transaction/"+how, witnessOf(wit, "panic", pn.Value))
							continue
						}
						if err != nil {
							rejected("transaction", how, err, wit)
							continue
						}
						compareTx(&tx, ts, how, "root", wit)
					}
				}
			}
		}
	}
	// (2) a transaction as it is found in a Merkle proof: below it a pruned branch (level 1), a library
	// cell, a Merkle proof cell. Referenced twice from one tree, so the second decode meets the cell in
	// the hasher's cache; SourceBoc must carry the exotic cells along.
	for k := 0; k < R.N(60, 1500); k++ {
		rng := R.Rng("tx-exotic", k)
		var ph, lh cell.Hash
		copy(ph[:], rng.Bytes(32))
		copy(lh[:], rng.Bytes(32))
		below := []struct {
			name string
			c    *cell.Cell
		}{
			{"pruned-branch", cell.NewPrunedRaw(1, []cell.Hash{ph}, []int{rng.Intn(500)})},
			{"library-cell", cell.NewLibrary(lh)},
			{"merkle-proof-cell", cell.NewMerkleProof(gen.Leaf(rng, true))},
		}[k%3]
		mkMsg := func() *cell.Cell {
			sp := &msgSpec{initMode: 0, bodyRef: true, body: cell.New(rng.Bits(rng.Intn(200)), false, below.c)}
			genInfo(rng, mon.Pick(rng, kinds), sp)
			c, err := sp.cell()
			if err != nil {
				return cell.New(nil, false)
			}
			return c
		}
		first := true
		ts := genTx(rng, func() *cell.Cell {
			if first || rng.Bool() {
				first = false
				return mkMsg()
			}
			_, c := anyMessage(rng)
			if c == nil {
				return cell.New(nil, false)
			}
			return c
		})
		root := cell.New(nil, false, ts.c, ts.c)
		if root.Err() != nil {
			R.HarnessError("transaction generator: %v", root.Err())
			return
		}
		for _, how := range []string{"plain", "hasher"} {
			t, err := deliver(root, true, rng) // cells of level > 0 carry their mask only when parsed
			if err != nil {
				R.HarnessError("deliver: %v", err)
				return
			}
			var v txPair
			pn := mon.Guard(func() {
				if how == "plain" {
					err = tlb.Unmarshal(t, &v)
				} else {
					err = tlb.NewDecoder().Unmarshal(t, &v)
				}
			})
			if pn != nil {
				R.Violation("panic@"+pn.Site+"/decode-transaction/"+below.name+"-below", map[string]any{"panic": pn.Value})
				continue
			}
			if err != nil {
				rejected("transaction", how, err, map[string]any{"case": k, "shape": ts.shape, "below_it": below.name})
				continue
			}
			R.Seen("transactions_with_exotic_cells_below", fmt.Sprintf("%s (level mask %d)", below.name, ts.c.Mask()))
			compareTx(&v.A, ts, how, "^/"+below.name+"-below/first-decode", map[string]any{"case": k})
			compareTx(&v.B, ts, how, "^/"+below.name+"-below/second-decode-of-the-same-cell", map[string]any{"case": k})
		}
	}
}

// ---------------------------------------------------------------- transactions of an exact number of distinct cells

// uniqueTree builds a tree of exactly k cells, no two of them equal (every cell carries its own
// number next to a salt), at most 4 references per cell, depth about log4(k).
func uniqueTree(k int, salt uint64, next *uint32) *cell.Cell {
	*next++
	bitsv := cat(u(salt, 64), u(uint64(*next), 32))
	k--
	var refs []*cell.Cell
	for i := 4; i >= 1 && k > 0; i-- {
		part := (k + i - 1) / i
		refs = append(refs, uniqueTree(part, salt, next))
		k -= part
	}
	return cell.New(bitsv, false, refs...)
}

func distinctCells(root *cell.Cell) int {
	seen := map[cell.Hash]bool{}
	var walk func(c *cell.Cell)
	walk = func(c *cell.Cell) {
		h := c.Hash()
		if seen[h] {
			return
		}
		seen[h] = true
		for _, r := range c.Refs {
			walk(r)
		}
	}
	walk(root)
	return len(seen)
}

// sectionTxSizes: the source BOC of a transaction whose tree holds exactly N distinct cells, N on both
// sides of the points where the width of a cell index in the BOC header changes (2^8, in the thorough
// tier 2^16). The transaction is an ordinary one whose in_msg body carries the padding.
func sectionTxSizes() {
	sizes := []int{255, 256, 257}
	if R.Thorough() {
		sizes = append(sizes, 65535, 65536, 65537)
	}
	reps := R.N(2, 4)
	idx := 0
	for _, n := range sizes {
		for rep := 0; rep < reps; rep++ {
			idx++
			used := false // whether the drawn transaction has a message at all (the padding hangs below its first one)
			build := func(pad int) *txSpec {
				rng := R.Rng("tx-size", idx) // the same stream for both builds
				var counter uint32
				salt := R.Rng("tx-size-salt", idx).Uint64()
				first := true
				return genTx(rng, func() *cell.Cell {
					if !first {
						_, c := anyMessage(rng)
						if c == nil {
							return cell.New(nil, false)
						}
						return c
					}
					first = false
					used = true
					var refs []*cell.Cell
					if pad > 0 {
						refs = append(refs, uniqueTree(pad, salt, &counter))
					}
					sp := &msgSpec{initMode: 0, bodyRef: true, body: cell.New(u(salt, 64), false, refs...)}
					genInfo(rng, "int", sp)
					c, err := sp.cell()
					if err != nil {
						return cell.New(nil, false)
					}
					return c
				})
			}
			base := distinctCells(build(0).c)
			for tries := 0; !used && tries < 50; tries++ {
				idx++
				base = distinctCells(build(0).c)
			}
			if !used || base >= n {
				R.HarnessError("transaction generator: %d cells before padding, want %d", base, n)
				return
			}
			ts := build(n - base)
			if got := distinctCells(ts.c); got != n {
				R.HarnessError("transaction generator: padded to %d distinct cells, want %d", got, n)
				return
			}
			for _, how := range []string{"plain", "hasher"} {
				viaBoc := (rep+len(how))%2 == 0
				t, err := deliver(ts.c, viaBoc, R.Rng("tx-size-deliver", idx))
				if err != nil {
					R.HarnessError("deliver: %v", err)
					return
				}
				var tx tlb.Transaction
				pn := mon.Guard(func() {
					if how == "plain" {
						err = tlb.Unmarshal(t, &tx)
					} else {
						err = tlb.NewDecoder().Unmarshal(t, &tx)
					}
				})
				if pn != nil {
					R.Violation("panic@"+pn.Site+"/decode-transaction/"+how, map[string]any{"panic": pn.Value, "distinct_cells": n})
					continue
				}
				if err != nil {
					rejected("transaction", how, err, map[string]any{"distinct_cells": n, "shape": ts.shape})
					continue
				}
				R.Seen("transaction_sizes(distinct cells)", fmt.Sprint(n))
				compareTx(&tx, ts, how, fmt.Sprintf("root/%d-distinct-cells", n), map[string]any{"distinct_cells": n, "rep": rep, "delivered_via_boc": viaBoc})
			}
		}
	}
}

// ---------------------------------------------------------------- several goroutines decoding at once

// Distinct cells, distinct destinations, distinct decoders: nothing is shared by the callers, so
// the reported hashes must not depend on how many goroutines decode at the same time. Runs in a
// child process: if shared state inside the library is hit by two goroutines the Go runtime may
// end the process ("concurrent map writes"), which the parent then reports.
type concJob struct {
	N, G int
}

type concCase struct {
	t      *tboc.Cell
	isTx   bool
	want   cell.Hash
	norm   *cell.Hash // external-in of level 0: hash of the canonical form
	hasher bool
	shape  string
}

func concurrentWorker(w *mon.Worker) {
	var j concJob
	if err := json.Unmarshal(w.Job, &j); err != nil || j.N <= 0 || j.G <= 0 {
		w.HarnessError("concurrent worker: bad job")
		return
	}
	// everything that touches the reference model or the generators happens here, on one goroutine
	var cases []concCase
	if pn := mon.Guard(func() {
		for k := 0; k < j.N; k++ {
			rng := w.Rng("concurrent", k)
			var cc concCase
			cc.hasher = k%2 == 1
			var root *cell.Cell
			if k%5 == 4 {
				ts := genTx(rng, func() *cell.Cell {
					_, c := anyMessage(rng)
					return c
				})
				root, cc.isTx, cc.want, cc.shape = ts.c, true, ts.c.Hash(), "transaction"
			} else {
				spec, c := anyMessage(rng)
				root, cc.want, cc.shape = c, c.Hash(), spec.class()
				if spec.kind == "ext-in" && c.Mask() == 0 {
					h := spec.canonical().Hash()
					cc.norm = &h
				}
			}
			t, err := deliver(root, k%3 != 0, rng)
			if err != nil {
				panic(err)
			}
			cc.t = t
			cases = append(cases, cc)
		}
	}); pn != nil {
		w.HarnessError("concurrent worker: generator: " + pn.Value)
		return
	}
	w.Begin("concurrent-decoding", nil)
	var wg sync.WaitGroup
	for g := 0; g < j.G; g++ {
		wg.Add(1)
		go func(g int) {
			defer wg.Done()
			for k := g; k < len(cases); k += j.G {
				cc := &cases[k]
				how := "plain"
				if cc.hasher {
					how = "hasher"
				}
				var got, norm tlb.Bits256
				var b []byte
				var err error
				pn := mon.Guard(func() {
					dec := tlb.NewDecoder()
					if cc.isTx {
						var tx tlb.Transaction
						if cc.hasher {
							err = dec.Unmarshal(cc.t, &tx)
						} else {
							err = tlb.Unmarshal(cc.t, &tx)
						}
						if err == nil {
							got = tx.Hash()
							b, err = tx.SourceBoc()
						}
						return
					}
					var m tlb.Message
					if cc.hasher {
						err = dec.Unmarshal(cc.t, &m)
					} else {
						err = tlb.Unmarshal(cc.t, &m)
					}
					if err == nil {
						got, norm = m.Hash(false), m.Hash(true)
					}
				})
				if pn != nil {
					w.Violation("panic@"+pn.Site+"/concurrent-decoding/"+how, map[string]any{"panic": pn.Value, "goroutines": j.G, "shape": cc.shape})
					continue
				}
				if err != nil {
					w.Violation("no-hash@valid-record-rejected/concurrent-decoding/"+how+"/"+errClass(err), map[string]any{"err": fmt.Sprint(err), "shape": cc.shape})
					continue
				}
				w.Eval("conc/" + how + "/" + string(cc.want[:8]))
				w.Count("records_decoded_while_other_goroutines_decode", 1)
				if [32]byte(got) != cc.want {
					w.Violation("hash-mismatch@concurrent-decoding/"+how, map[string]any{"got": h32(got), "want": h32(cc.want), "goroutines": j.G, "shape": cc.shape})
					continue
				}
				if cc.norm != nil && [32]byte(norm) != *cc.norm {
					w.Violation("normalised-hash-mismatch@concurrent-decoding/"+how, map[string]any{"got": h32(norm), "want": h32(*cc.norm), "goroutines": j.G, "shape": cc.shape})
					continue
				}
				if cc.isTx {
					if cs, err := tboc.DeserializeBoc(b); err != nil || len(cs) != 1 {
						w.Violation("invalid-boc@Transaction.SourceBoc/concurrent-decoding/"+how, map[string]any{"err": fmt.Sprint(err), "goroutines": j.G})
					} else if hh, err := cs[0].Hash(); err != nil || !bytes.Equal(hh, cc.want[:]) {
						// tongo's own reader only (the reference model is not used from several goroutines); its
						// agreement with the reference reader is established in the sequential sections
						w.Violation("hash-mismatch@Transaction.SourceBoc/concurrent-decoding/"+how, map[string]any{"got": mon.Hex(hh), "want": h32(cc.want), "goroutines": j.G})
					}
				}
			}
		}(g)
	}
	wg.Wait()
	w.End()
}

func sectionConcurrent() {
	R.RunJobs([]mon.Job{{Name: "concurrent", Input: concJob{N: R.N(4000, 60000), G: 8}}}, mon.ChildOpts{Parallel: 1, Timeout: 5 * time.Minute}, func(c mon.Crash) {
		if c.TimedOut {
			R.Inconclusive("concurrent section: child watchdog fired")
			return
		}
		R.Violation("fatal@"+mon.FatalClass(c.Stderr)+"/concurrent-decoding", map[string]any{"exit": c.ExitInfo, "stderr": mon.Trunc(c.Stderr, 3000), "goroutines": 8})
	})
}

// ---------------------------------------------------------------- equivalence classes of the normalised hash

func normHash(c *cell.Cell, how string, viaBoc, wrapped bool, r *mon.Rng, wit map[string]any) (tlb.Bits256, bool) {
	m, err, pn := decodeMessage(c, how, viaBoc, wrapped, r)
	if pn != nil {
		R.Violation("panic@"+pn.Site+"/decode-message/"+how, witnessOf(wit, "panic", pn.Value))
		return tlb.Bits256{}, false
	}
	if err != nil {
		rejected("message", how, err, wit)
		return tlb.Bits256{}, false
	}
	var h tlb.Bits256
	if pn := mon.Guard(func() { h = m.Hash(true) }); pn != nil {
		R.Violation("panic@"+pn.Site+"/Message.Hash(true)", witnessOf(wit, "panic", pn.Value))
		return h, false
	}
	return h, true
}

func cloneSpec(s *msgSpec) *msgSpec {
	c := *s
	c.info = append([]bool(nil), s.info...)
	c.dest = append([]bool(nil), s.dest...)
	c.initBits = append([]bool(nil), s.initBits...)
	c.initRefs = append([]*cell.Cell(nil), s.initRefs...)
	return &c
}

func sectionClasses() {
	n := R.N(400, 12000)
	for i := 0; i < n; i++ {
		rng := R.Rng("class", i)
		// base message: every part small enough that each single change below still fits
		destWc := int8(-(i % 2))
		if i%5 == 0 {
			destWc = int8(rng.Intn(256))
		}
		destHash := rand32(rng)
		// the form of the destination: addr_std (most), addr_var$11 (a valid MsgAddressInt that the canonical
		// form keeps as it is), addr_std with anycast (tongo documents that it strips the anycast: only the
		// equality classes are judged for it, not the value)
		destForm := "addr_std"
		switch i % 7 {
		case 3:
			destForm = "addr_var"
		case 5:
			destForm = "addr_std+anycast"
		}
		varWc := int32(uint32(rng.Uint64()))
		if rng.Bool() {
			varWc = int32(destWc)
		}
		varAddr := rng.Bits(mon.Pick(rng, []int{1, 64, 255, 256, 300}))
		acDepth := rng.Range(1, 30)
		acPfx := uint32(rng.Uint64()) & (1<<uint(acDepth) - 1)
		// addr_var$11 anycast:(Maybe Anycast) addr_len:(## 9) workchain_id:int32 address:(bits addr_len) = MsgAddressInt;
		varBits := func(wc int32, a []bool) []bool {
			return cat([]bool{true, true, false}, u(uint64(len(a)), 9), rbits.IntBits(int64(wc), 32), a)
		}
		// dest(dWc, flipBit): the destination with the workchain moved by dWc and address bit flipBit inverted (-1: none)
		dest := func(dWc int, flipBit int) []bool {
			switch destForm {
			case "addr_var":
				a := append([]bool(nil), varAddr...)
				if flipBit >= 0 {
					a[flipBit%len(a)] = !a[flipBit%len(a)]
				}
				return varBits(varWc+int32(dWc), a)
			}
			h := destHash
			if flipBit >= 0 {
				h[flipBit/8] ^= 0x80 >> uint(flipBit%8)
			}
			if destForm == "addr_std+anycast" {
				return addr.AddrStdBits(acDepth, acPfx, destWc+int8(dWc), h)
			}
			return addr.AddrStdBits(0, 0, destWc+int8(dWc), h)
		}
		judgeValue := destForm != "addr_std+anycast"
		body := genBody(rng, 440, 1)
		mk := func(src []bool, d []bool, fee *big.Int, initMode int, ib []bool, ir []*cell.Cell, bodyRef bool, b *cell.Cell) *msgSpec {
			s := &msgSpec{kind: "ext-in", initMode: initMode, initBits: ib, initRefs: ir, bodyRef: bodyRef, body: b}
			s.dest = d
			s.info = cat([]bool{true, false}, src, s.dest, grams(fee))
			return s
		}
		dest0 := dest(0, -1)
		src0 := addrExt(rng)
		fee0 := randBig(rng, 8)
		init0 := rng.Intn(3)
		var ib0 []bool
		var ir0 []*cell.Cell
		if init0 != 0 {
			ib0, ir0 = genStateInit(rng, 2)
		}
		bodyRef0 := rng.Bool()
		base := mk(src0, dest0, fee0, init0, ib0, ir0, bodyRef0, body)
		baseCell, err := base.cell()
		if err != nil {
			R.HarnessError("class generator: %v", err)
			return
		}
		how := []string{"plain", "hasher"}[i%2]
		wit := map[string]any{"class": i, "decoder": how, "base_shape": base.class(), "base_bits": rbits.String(baseCell.Bits), "destination_form": destForm}
		h0, ok := normHash(baseCell, how, i%3 != 0, i%4 >= 2, rng, wit)
		if !ok {
			continue
		}
		canon := base.canonical().Hash()
		R.Eval("class-base/" + string(canon[:8]))
		R.Seen("class_destination_forms", destForm)
		if judgeValue && [32]byte(h0) != canon {
			R.Violation("normalised-hash-mismatch@Message.Hash(true)/class-base/"+initNames[init0], witnessOf(wit, "got", h32(h0), "want", h32(canon)))
			continue
		}
		type variant struct {
			what string
			same bool
			s    *msgSpec
		}
		var vs []variant
		// ignorable parts, one at a time
		src1 := addrExt(rng)
		for rbits.Equal(src1, src0) {
			src1 = addrExt(rng)
		}
		vs = append(vs, variant{"source-address", true, mk(src1, dest0, fee0, init0, ib0, ir0, bodyRef0, body)})
		fee1 := new(big.Int).Add(fee0, big.NewInt(int64(rng.Range(1, 1000))))
		if rng.Bool() {
			fee1 = randBig(rng, 8)
			if fee1.Cmp(fee0) == 0 {
				fee1.Add(fee1, big.NewInt(1))
			}
		}
		vs = append(vs, variant{"import-fee", true, mk(src0, dest0, fee1, init0, ib0, ir0, bodyRef0, body)})
		for im := 0; im < 3; im++ {
			switch {
			case im == init0 && init0 != 0: // same placement, other content
				ib, ir := genStateInit(rng, 2)
				vs = append(vs, variant{"state-init-content(" + initNames[im] + ")", true, mk(src0, dest0, fee0, im, ib, ir, bodyRef0, body)})
			case im == init0:
			case im == 0:
				vs = append(vs, variant{"state-init-removed", true, mk(src0, dest0, fee0, 0, nil, nil, bodyRef0, body)})
			case init0 == 0:
				ib, ir := genStateInit(rng, 2)
				vs = append(vs, variant{"state-init-added(" + initNames[im] + ")", true, mk(src0, dest0, fee0, im, ib, ir, bodyRef0, body)})
			default: // same content, other placement
				vs = append(vs, variant{"state-init-placement(" + initNames[im] + ")", true, mk(src0, dest0, fee0, im, ib0, ir0, bodyRef0, body)})
			}
		}
		vs = append(vs, variant{"body-placement", true, mk(src0, dest0, fee0, init0, ib0, ir0, !bodyRef0, body)})
		// parts that must matter, one at a time
		vs = append(vs, variant{"destination-workchain", false, mk(src0, dest(1, -1), fee0, init0, ib0, ir0, bodyRef0, body)})
		vs = append(vs, variant{"destination-address-bit", false, mk(src0, dest(0, rng.Intn(256)), fee0, init0, ib0, ir0, bodyRef0, body)})
		switch destForm {
		case "addr_std":
			// the same workchain and 256 address bits as addr_var: another MsgAddressInt, another canonical cell
			vs = append(vs, variant{"destination-form(addr_std->addr_var)", false, mk(src0, varBits(int32(destWc), rbits.BytesBits(destHash[:])), fee0, init0, ib0, ir0, bodyRef0, body)})
		case "addr_var":
			vs = append(vs, variant{"destination-address-length", false, mk(src0, varBits(varWc, append(append([]bool(nil), varAddr...), false)), fee0, init0, ib0, ir0, bodyRef0, body)})
		}
		if len(body.Bits) > 0 {
			bb := append([]bool(nil), body.Bits...)
			k := rng.Intn(len(bb))
			bb[k] = !bb[k]
			vs = append(vs, variant{"body-bit", false, mk(src0, dest0, fee0, init0, ib0, ir0, bodyRef0, cell.New(bb, false, body.Refs...))})
		}
		vs = append(vs, variant{"body-longer-by-a-zero-bit", false, mk(src0, dest0, fee0, init0, ib0, ir0, bodyRef0, cell.New(append(append([]bool(nil), body.Bits...), false), false, body.Refs...))})
		if len(body.Refs) > 0 {
			vs = append(vs, variant{"body-reference", false, mk(src0, dest0, fee0, init0, ib0, ir0, bodyRef0, cell.New(body.Bits, false, gen.Leaf(rng, true)))})
			vs = append(vs, variant{"body-reference-dropped", false, mk(src0, dest0, fee0, init0, ib0, ir0, bodyRef0, cell.New(body.Bits, false))})
		} else {
			vs = append(vs, variant{"body-reference-added", false, mk(src0, dest0, fee0, init0, ib0, ir0, bodyRef0, cell.New(body.Bits, false, gen.Leaf(rng, true)))})
		}
		for _, v := range vs {
			vc, err := v.s.cell()
			if err != nil {
				R.HarnessError("class variant %s does not fit: %v", v.what, err)
				return
			}
			if vc.Hash() == baseCell.Hash() {
				continue // the drawn replacement happened to be identical
			}
			w := witnessOf(wit, "changed", v.what, "variant_bits", rbits.String(vc.Bits))
			h1, ok := normHash(vc, how, rng.Bool(), rng.Bool(), rng, w)
			if !ok {
				continue
			}
			R.Eval("class/" + v.what + "/" + string(canon[:6]))
			R.Seen("class_changes", map[bool]string{true: "ignored: ", false: "significant: "}[v.same]+v.what)
			vcanon := v.s.canonical().Hash()
			if v.same != (vcanon == canon) {
				R.HarnessError("reference canonical form does not follow the class definition for %s", v.what)
				return
			}
			if v.same {
				R.Count("pairs_expected_equal", 1)
				if h1 != h0 {
					R.Violation("normalised-hash-changed-by@"+strings.SplitN(v.what, "(", 2)[0], witnessOf(w, "base", h32(h0), "variant", h32(h1)))
				}
			} else {
				R.Count("pairs_expected_different", 1)
				if h1 == h0 {
					R.Violation("normalised-hash-blind-to@"+v.what, witnessOf(w, "both", h32(h0)))
				} else if judgeValue && [32]byte(h1) != vcanon {
					R.Violation("normalised-hash-mismatch@Message.Hash(true)/variant/"+v.what, witnessOf(w, "got", h32(h1), "want", h32(vcanon)))
				}
			}
		}
		if i == 0 {
			R.Sample(map[string]any{"kind": "equivalence class", "base_shape": base.class(), "normalised_hash": h32(h0), "canonical_bits": rbits.String(base.canonical().Bits), "variants": len(vs)})
		}
	}
}

// messages built in memory (the way the repository's own test and ton.CreateExternalMessage do it)
func sectionConstructed() {
	n := R.N(150, 4000)
	for i := 0; i < n; i++ {
		rng := R.Rng("constructed", i)
		wc := int8(-(i % 2))
		h := rand32(rng)
		bodyRef := genBody(rng, 1023, 4)
		tb, err := bridge.ToTongoBuilt(bodyRef)
		if err != nil {
			R.HarnessError("build body: %v", err)
			return
		}
		spec := &msgSpec{dest: addr.AddrStdBits(0, 0, wc, h), body: bodyRef}
		want := spec.canonical().Hash()
		var init *tlb.StateInit
		if rng.Bool() {
			init = &tlb.StateInit{}
			code := tboc.NewCell()
			_ = code.WriteUint(rng.Uint64(), 64)
			init.Code.Exists = true
			init.Code.Value.Value = *code
		}
		fee := new(big.Int).SetUint64(rng.Uint64() >> 8)
		var got tlb.Bits256
		pn := mon.Guard(func() {
			msg, err := ton.CreateExternalMessage(ton.AccountID{Workchain: int32(wc), Address: h}, tb, init, tlb.VarUInteger16(*fee))
			if err != nil {
				panic(err)
			}
			got = msg.Hash(true)
		})
		R.Eval("constructed/" + string(want[:8]))
		if pn != nil {
			R.Violation("panic@"+pn.Site+"/CreateExternalMessage.Hash(true)", map[string]any{"panic": pn.Value})
			continue
		}
		if [32]byte(got) != want {
			R.Violation("normalised-hash-mismatch@Message.Hash(true)/constructed", map[string]any{"got": h32(got), "want": h32(want), "body_bits": len(bodyRef.Bits), "body_refs": len(bodyRef.Refs)})
			continue
		}
		// the same value is given another body, then another destination, and asked again each time:
		// the normalised hash follows the value as it is now
		body2 := genBody(rng, 1023, 4)
		for body2.Hash() == bodyRef.Hash() {
			body2 = genBody(rng, 1023, 4)
		}
		tb2, err := bridge.ToTongoBuilt(body2)
		if err != nil {
			R.HarnessError("build body: %v", err)
			return
		}
		h2 := rand32(rng)
		wc2 := int8(rng.Intn(256))
		want2 := (&msgSpec{dest: addr.AddrStdBits(0, 0, wc, h), body: body2}).canonical().Hash()
		want3 := (&msgSpec{dest: addr.AddrStdBits(0, 0, wc2, h2), body: body2}).canonical().Hash()
		var got2, got3 tlb.Bits256
		pn = mon.Guard(func() {
			msg, err := ton.CreateExternalMessage(ton.AccountID{Workchain: int32(wc), Address: h}, tb, init, tlb.VarUInteger16(*fee))
			if err != nil {
				panic(err)
			}
			_ = msg.Hash(true)
			msg.Body.Value = tlb.Any(*tb2)
			got2 = msg.Hash(true)
			msg.Info.ExtInMsgInfo.Dest = (&ton.AccountID{Workchain: int32(wc2), Address: h2}).ToMsgAddress()
			got3 = msg.Hash(true)
		})
		R.Eval("constructed-changed/" + string(want3[:8]))
		if pn != nil {
			R.Violation("panic@"+pn.Site+"/CreateExternalMessage.Hash(true)", map[string]any{"panic": pn.Value})
			continue
		}
		if [32]byte(got2) != want2 {
			R.Violation("normalised-hash-mismatch@Message.Hash(true)/constructed/asked-again-after-the-body-was-replaced", map[string]any{"got": h32(got2), "want": h32(want2), "hash_before_the_change": h32(got)})
		} else if [32]byte(got3) != want3 {
			R.Violation("normalised-hash-mismatch@Message.Hash(true)/constructed/asked-again-after-the-destination-was-replaced", map[string]any{"got": h32(got3), "want": h32(want3), "hash_before_the_change": h32(got2)})
		}
	}
}

// rarer shapes of external-in messages, each with its own signature class
func sectionRareExtIn() {
	n := R.N(60, 1500)
	for i := 0; i < n; i++ {
		rng := R.Rng("rare", i)
		// (a) the body reference is an exotic cell of level 0: a library cell, a Merkle proof or a
		// Merkle update over ordinary cells (contracts do take proofs as message bodies)
		// the library the cell names exists: a decoder with a library resolver can fetch its content (what the
		// resolver returns must not show up in the message's hashes: the body of the message is the library cell)
		libContent := gen.RandomDag(rng, gen.DagOpts{Nodes: rng.Range(1, 4), SmallBits: true})
		registerLibrary(libContent)
		lh := libContent.Hash()
		exoticBodies := []struct {
			name string
			c    *cell.Cell
		}{
			{"library cell", cell.NewLibrary(lh)},
			{"Merkle proof cell", cell.NewMerkleProof(gen.RandomDag(rng, gen.DagOpts{Nodes: rng.Range(1, 4), SmallBits: true}))},
			{"Merkle update cell", cell.NewMerkleUpdate(gen.Leaf(rng, true), gen.RandomDag(rng, gen.DagOpts{Nodes: rng.Range(1, 3), SmallBits: true}))},
		}
		for bi, eb := range exoticBodies {
			if eb.c.Err() != nil || eb.c.Mask() != 0 {
				R.HarnessError("exotic body generator: %v mask %d", eb.c.Err(), eb.c.Mask())
				return
			}
			spec := &msgSpec{initMode: 0, bodyRef: true, body: eb.c}
			genInfo(rng, "ext-in", spec)
			if c, err := spec.cell(); err == nil {
				for hi, how := range hows4 {
					if hi >= 2 && (i+bi+hi)%2 == 0 { // plain and hasher always, the two option variants every other time
						continue
					}
					m, derr, pn := decodeMessage(c, how, true, i%4 >= 2, rng)
					R.Seen("exotic_body_roots", eb.name+" / "+how)
					if pn != nil {
						R.Violation("panic@"+pn.Site+"/decode-message/exotic-body", map[string]any{"panic": pn.Value, "body": eb.name, "decoder": how})
					} else if derr != nil {
						R.Inconclusive("tongo rejects an external message whose body reference is a " + eb.name)
					} else {
						compareMessage(m, c, spec, how, "exotic-body", map[string]any{"case": i, "body": eb.name, "decoder": how})
					}
				}
			}
		}
		// (c) a message of level > 0 (its body holds a pruned branch, as in a record taken from a Merkle
		// proof), referenced twice from one tree: the second decode meets the cell in the hasher's cache
		{
			var ph cell.Hash
			copy(ph[:], rng.Bytes(32))
			pruned := cell.NewPrunedRaw(1, []cell.Hash{ph}, []int{rng.Intn(500)})
			body := cell.New(rng.Bits(rng.Intn(200)), false, pruned)
			kind := []string{"int", "ext-in", "ext-out"}[i%3]
			lspec := &msgSpec{initMode: 0, bodyRef: true, body: body}
			genInfo(rng, kind, lspec)
			if lc, err := lspec.cell(); err == nil {
				root := cell.New(nil, false, lc, lc)
				for _, how := range []string{"plain", "hasher"} {
					t, err := deliver(root, true, rng)
					if err != nil {
						R.HarnessError("deliver: %v", err)
						return
					}
					var v struct {
						A tlb.Message `tlb:"^"`
						B tlb.Message `tlb:"^"`
					}
					pn := mon.Guard(func() {
						if how == "plain" {
							err = tlb.Unmarshal(t, &v)
						} else {
							err = tlb.NewDecoder().Unmarshal(t, &v)
						}
					})
					if pn != nil {
						R.Violation("panic@"+pn.Site+"/decode-message/level1-body", map[string]any{"panic": pn.Value})
						continue
					}
					if err != nil {
						R.Inconclusive("tongo rejects a message whose body holds a pruned branch")
						continue
					}
					compareMessage(&v.A, lc, lspec, how, "^/level1-message/first-decode", map[string]any{"case": i, "note": "message cell has level mask 1"})
					compareMessage(&v.B, lc, lspec, how, "^/level1-message/second-decode-of-the-same-cell", map[string]any{"case": i, "note": "message cell has level mask 1; same cell object decoded a second time"})
				}
			}
		}
		// (d) an external-in message as it is found inside a Merkle proof: the body reference is a pruned
		// branch standing for the body. The body is still a definite cell (the pruned branch names its hash),
		// so the normalised hash still depends on destination and body only: unchanged by source and fee,
		// different for different (pruned) bodies, different from that of the message with an empty body.
		// Its value is not judged (records of level > 0, see compareMessage).
		{
			empty := cell.New(nil, false).Hash()
			b1 := genBody(rng, 1023, 4)
			for b1.Hash() == empty {
				b1 = genBody(rng, 1023, 4)
			}
			b2 := genBody(rng, 1023, 4)
			for b2.Hash() == b1.Hash() || b2.Hash() == empty {
				b2 = genBody(rng, 1023, 4)
			}
			dst := addrInt(rng, false, true)
			mkp := func(body *cell.Cell) (*msgSpec, *cell.Cell) {
				sp := &msgSpec{kind: "ext-in", initMode: 0, bodyRef: true, body: body, dest: dst}
				sp.info = cat([]bool{true, false}, addrExt(rng), dst, grams(randBig(rng, 8)))
				c, err := sp.cell()
				if err != nil {
					return nil, nil
				}
				return sp, c
			}
			how := []string{"plain", "hasher"}[i%2]
			wit := map[string]any{"case": i, "decoder": how, "note": "body reference is a pruned branch (message taken out of a Merkle proof)"}
			spP1, cP1 := mkp(cell.NewPruned(b1, 1))
			_, cP1b := mkp(cell.NewPruned(b1, 1)) // the same destination and body, another source and fee
			_, cP2 := mkp(cell.NewPruned(b2, 1))
			_, cE := mkp(cell.New(nil, false))
			spF1, cF1 := mkp(b1)
			if cP1 != nil && cP1b != nil && cP2 != nil && cE != nil && cF1 != nil {
				if m, derr, pn := decodeMessage(cP1, how, true, i%4 >= 2, rng); pn != nil {
					R.Violation("panic@"+pn.Site+"/decode-message/pruned-branch-body", witnessOf(wit, "panic", pn.Value))
				} else if derr != nil {
					R.Inconclusive("tongo rejects an external message whose body reference is a pruned branch")
				} else {
					compareMessage(m, cP1, spP1, how, "pruned-branch-body", wit)
					hP1, ok1 := normHash(cP1, how, true, rng.Bool(), rng, wit)
					hP1b, ok2 := normHash(cP1b, how, true, rng.Bool(), rng, wit)
					hP2, ok3 := normHash(cP2, how, true, rng.Bool(), rng, wit)
					hE, ok4 := normHash(cE, how, true, rng.Bool(), rng, wit)
					hF1, ok5 := normHash(cF1, how, true, rng.Bool(), rng, wit)
					if ok1 && ok2 && ok3 && ok4 && ok5 {
						R.Eval("pruned-body/" + how + "/" + string(h8(cP1)))
						R.Count("pruned_body_classes_compared", 1)
						switch {
						case hP1 != hP1b:
							R.Violation("normalised-hash-changed-by@source-address+import-fee/pruned-branch-body", witnessOf(wit, "one", h32(hP1), "other", h32(hP1b)))
						case hP1 == hE:
							R.Violation("normalised-hash-blind-to@pruned-branch-body/equals-the-empty-body-message", witnessOf(wit, "both", h32(hP1)))
						case hP1 == hP2:
							R.Violation("normalised-hash-blind-to@pruned-branch-body/two-different-bodies", witnessOf(wit, "both", h32(hP1)))
						}
						// which value it is: not judged, recorded
						if hP1 == hF1 {
							R.Seen("observed", "pruned body: normalised hash = that of the same message with the body present (level-0 hash of the re-encoding)")
							if [32]byte(hF1) != spF1.canonical().Hash() {
								R.Violation("normalised-hash-mismatch@Message.Hash(true)/init-none/body-ref/ordinary-body/"+how, witnessOf(wit, "got", h32(hF1)))
							}
						} else if [32]byte(hP1) == spP1.canonical().Hash() {
							R.Seen("observed", "pruned body: normalised hash = representation hash of the level-1 re-encoding")
						} else {
							R.Seen("observed", "pruned body: normalised hash is neither the level-0 nor the representation hash of the re-encoding (not judged)")
						}
					}
				}
			}
		}
		// (b) the body reference is a cell that was already read as a message elsewhere in the same tree
		inner, innerCell := anyMessage(rng)
		if innerCell == nil {
			return
		}
		outer := &msgSpec{initMode: 0, bodyRef: true, body: innerCell}
		genInfo(rng, "ext-in", outer)
		oc, err := outer.cell()
		if err != nil {
			continue
		}
		root := cell.New(nil, false, innerCell, oc) // struct{ A Message `^`; B Message `^` }: A is decoded before B
		for _, how := range []string{"plain", "hasher"} {
			t, err := deliver(root, i%2 == 0, rng)
			if err != nil {
				R.HarnessError("deliver: %v", err)
				return
			}
			var v struct {
				A tlb.Message `tlb:"^"`
				B tlb.Message `tlb:"^"`
			}
			pn := mon.Guard(func() {
				if how == "plain" {
					err = tlb.Unmarshal(t, &v)
				} else {
					err = tlb.NewDecoder().Unmarshal(t, &v)
				}
			})
			if pn != nil || err != nil {
				R.Inconclusive("tongo rejects a reference-built pair of messages")
				continue
			}
			compareMessage(&v.A, innerCell, inner, how, "^", map[string]any{"case": i})
			compareMessage(&v.B, oc, outer, how, "^/body-shared-with-decoded-cell", map[string]any{"case": i, "note": "the body reference of B is the cell of message A, decoded just before"})
		}
	}
}

// ---------------------------------------------------------------- real blocks

// refNormalised parses an external-in message cell with the reference bit list and returns its canonical form.
func refNormalised(c *cell.Cell) (*cell.Cell, string) {
	l := rbits.FromBools(c.Bits)
	ref := 0
	take := func(n int) []bool {
		b, err := l.Take(n)
		if err != nil {
			panic("short")
		}
		return b
	}
	var out *cell.Cell
	reason := ""
	func() {
		defer func() {
			if recover() != nil {
				reason = "malformed"
			}
		}()
		if rbits.ToUint(take(2)) != 2 {
			reason = "not ext-in"
			return
		}
		switch rbits.ToUint(take(2)) { // src:MsgAddressExt
		case 0:
		case 1:
			take(int(rbits.ToUint(take(9))))
		default:
			reason = "bad source"
			return
		}
		start := l.Cur
		if rbits.ToUint(take(2)) != 2 { // dest: only addr_std without anycast is judged
			reason = "dest is addr_var"
			return
		}
		if take(1)[0] {
			reason = "dest has anycast"
			return
		}
		take(8 + 256)
		dest := c.Bits[start:l.Cur]
		take(8 * int(rbits.ToUint(take(4)))) // import_fee:Grams
		if take(1)[0] {                      // init:(Maybe (Either StateInit ^StateInit))
			if take(1)[0] {
				ref++
			} else {
				if take(1)[0] {
					take(5)
				}
				if take(1)[0] {
					take(2)
				}
				for k := 0; k < 3; k++ { // code, data, library: one bit, one reference each when present
					if take(1)[0] {
						ref++
					}
				}
			}
		}
		var body *cell.Cell
		if take(1)[0] {
			body = c.Refs[ref]
		} else {
			body = cell.New(l.Rest(), false, c.Refs[ref:]...)
		}
		out = cell.New(cat([]bool{true, false, false, false}, dest, u(0, 4), []bool{false, true}), false, body)
	}()
	return out, reason
}

type found struct {
	path string
	msg  *tlb.Message
	tx   *tlb.Transaction
}

var (
	tMessage = reflect.TypeOf(tlb.Message{})
	tTx      = reflect.TypeOf(tlb.Transaction{})
	tCell    = reflect.TypeOf(tboc.Cell{})
	tAny     = reflect.TypeOf(tlb.Any{})
)

// walk finds every decoded Message and Transaction inside a decoded value. It follows exported
// fields, the active constructor of sum types, existing Maybe values and the Values() of dictionaries.
func walk(v reflect.Value, path string, out *[]found, depth int) {
	if depth > 60 {
		return
	}
	t := v.Type()
	switch t {
	case tCell, tAny:
		return
	case tMessage:
		p := reflect.New(t)
		p.Elem().Set(v)
		*out = append(*out, found{path: path, msg: p.Interface().(*tlb.Message)})
		return
	case tTx:
		p := reflect.New(t)
		p.Elem().Set(v)
		tx := p.Interface().(*tlb.Transaction)
		*out = append(*out, found{path: path, tx: tx})
		// and the messages inside it
		walk(p.Elem().FieldByName("Msgs"), path+".Msgs", out, depth+1)
		return
	}
	switch v.Kind() {
	case reflect.Pointer:
		if !v.IsNil() {
			walk(v.Elem(), path, out, depth+1)
		}
	case reflect.Slice:
		if t.Elem().Kind() == reflect.Uint8 {
			return
		}
		for i := 0; i < v.Len(); i++ {
			walk(v.Index(i), fmt.Sprintf("%s[%d]", path, i), out, depth+1)
		}
	case reflect.Struct:
		if m := v.MethodByName("Values"); m.IsValid() && m.Type().NumIn() == 0 && m.Type().NumOut() == 1 {
			walk(m.Call(nil)[0], path, out, depth+1)
			return
		}
		active := ""
		hasSum := false
		for i := 0; i < t.NumField(); i++ {
			if t.Field(i).Name == "SumType" && t.Field(i).Type.Kind() == reflect.String {
				hasSum, active = true, v.Field(i).String()
			}
		}
		if f, ok := t.FieldByName("Exists"); ok && f.Type.Kind() == reflect.Bool {
			if _, ok := t.FieldByName("Value"); ok && !v.FieldByName("Exists").Bool() {
				return
			}
		}
		for i := 0; i < t.NumField(); i++ {
			f := t.Field(i)
			if f.PkgPath != "" || f.Name == "SumType" {
				continue
			}
			if hasSum && f.Name != active {
				continue
			}
			walk(v.Field(i), path+"."+f.Name, out, depth+1)
		}
	}
}

// collectBlock decodes the in/out message descriptors with the same decoder as the block and walks everything.
func collectBlock(b *tlb.Block, dec *tlb.Decoder) ([]found, error) {
	var out []found
	walk(reflect.ValueOf(b).Elem(), "block", &out, 0)
	var in tlb.HashmapAugE[tlb.Bits256, tlb.InMsg, tlb.ImportFees]
	var om tlb.HashmapAugE[tlb.Bits256, tlb.OutMsg, tlb.CurrencyCollection]
	inCell, outCell := b.Extra.InMsgDescrCell, b.Extra.OutMsgDescrCell
	inCell.ResetCounters()
	outCell.ResetCounters()
	var e1, e2 error
	if dec == nil {
		e1, e2 = tlb.Unmarshal(&inCell, &in), tlb.Unmarshal(&outCell, &om)
	} else {
		e1, e2 = dec.Unmarshal(&inCell, &in), dec.Unmarshal(&outCell, &om)
	}
	if e1 != nil || e2 != nil {
		return out, fmt.Errorf("in/out message descriptors: %v %v", e1, e2)
	}
	walk(reflect.ValueOf(&in).Elem(), "block.Extra.InMsgDescr", &out, 0)
	walk(reflect.ValueOf(&om).Elem(), "block.Extra.OutMsgDescr", &out, 0)
	return out, nil
}

func pathClass(p string) string {
	var sb strings.Builder
	skip := false
	for _, c := range p {
		switch {
		case c == '[':
			skip = true
			sb.WriteString("[]")
		case c == ']':
			skip = false
		case !skip:
			sb.WriteRune(c)
		}
	}
	return sb.String()
}

func sectionReal() {
	names := []string{"block-1", "block-3"}
	if R.Thorough() {
		names = []string{"block-1", "block-2", "block-3", "block-4", "block-5"}
	}
	for _, name := range names {
		file := filepath.Join(mon.RepoRoot(), "tlb/testdata", name, "block.bin")
		data, err := os.ReadFile(file)
		if err != nil {
			R.HarnessError("real block: %v", err)
			return
		}
		_, all, _, err := rboc.Read(data)
		if err != nil {
			R.HarnessError("reference reader rejects %s: %v", name, err)
			return
		}
		byHash := map[cell.Hash]*cell.Cell{}
		for _, c := range all {
			byHash[c.Hash()] = c
		}
		var lists [2][]found
		for pass, how := range []string{"plain", "hasher"} {
			var blk tlb.Block
			var fs []found
			pn := mon.Guard(func() {
				var cs []*tboc.Cell
				cs, err = tboc.DeserializeBoc(data)
				if err != nil {
					return
				}
				var dec *tlb.Decoder
				if how == "plain" {
					err = tlb.Unmarshal(cs[0], &blk)
				} else {
					dec = tlb.NewDecoder()
					err = dec.Unmarshal(cs[0], &blk)
				}
				if err == nil {
					fs, err = collectBlock(&blk, dec)
				}
			})
			if pn != nil || err != nil {
				R.Violation("error@decode-real-block/"+how, map[string]any{"file": name, "err": fmt.Sprint(err, pn)})
				continue
			}
			lists[pass] = fs
			nm, nt := 0, 0
			for _, f := range fs {
				wit := map[string]any{"file": name, "path": f.path, "decoder": how}
				pc := pathClass(f.path)
				if f.tx != nil {
					nt++
					got := f.tx.Hash()
					src, ok := byHash[got]
					R.Eval("rt/" + how + "/" + string(got[:8]))
					R.Seen("real_record_places", "Transaction @ "+pc)
					if !ok {
						R.Violation("hash-of-no-cell@Transaction.Hash/real/"+how, witnessOf(wit, "got", h32(got)))
						continue
					}
					if len(src.Bits) < 324 || rbits.ToUint(src.Bits[:4]) != 7 || !bytes.Equal(rbits.ToBytes(src.Bits[4:260]), f.tx.AccountAddr[:]) || rbits.ToUint(src.Bits[260:324]) != f.tx.Lt {
						R.Violation("hash-of-wrong-cell@Transaction.Hash/real/"+how, witnessOf(wit, "got", h32(got)))
						continue
					}
					// the in_msg of this transaction is the first reference of its first reference
					if holder := src.Refs[0]; len(holder.Bits) > 0 && holder.Bits[0] != f.tx.Msgs.InMsg.Exists {
						R.Inconclusive("decoded in_msg presence differs from the source cell")
					} else if f.tx.Msgs.InMsg.Exists {
						want := holder.Refs[0].Hash()
						R.Eval("")
						if [32]byte(f.tx.Msgs.InMsg.Value.Value.Hash(false)) != want {
							R.Violation("hash-mismatch@Message.Hash(false)/real/tx.in_msg/"+how, witnessOf(wit, "want", h32(want)))
						}
					}
					if pass == 0 || nt%7 == 0 {
						checkSourceBoc(f.tx, src.Hash(), how+"/real", wit)
					}
					continue
				}
				nm++
				got := f.msg.Hash(false)
				src, ok := byHash[got]
				R.Eval("rm/" + how + "/" + pc + "/" + string(got[:8]))
				R.Seen("real_record_places", "Message @ "+pc)
				if !ok {
					R.Violation("hash-of-no-cell@Message.Hash(false)/real/"+how, witnessOf(wit, "got", h32(got)))
					continue
				}
				tagOK := false
				switch f.msg.Info.SumType {
				case "IntMsgInfo":
					tagOK = len(src.Bits) > 1 && !src.Bits[0]
				case "ExtInMsgInfo":
					tagOK = len(src.Bits) > 2 && src.Bits[0] && !src.Bits[1]
				case "ExtOutMsgInfo":
					tagOK = len(src.Bits) > 2 && src.Bits[0] && src.Bits[1]
				}
				R.Seen("real_message_kinds", string(f.msg.Info.SumType))
				if !tagOK {
					R.Violation("hash-of-wrong-cell@Message.Hash(false)/real/"+how, witnessOf(wit, "got", h32(got), "sumtype", string(f.msg.Info.SumType)))
					continue
				}
				if f.msg.Info.SumType == "ExtInMsgInfo" {
					canon, reason := refNormalised(src)
					if canon == nil {
						R.Seen("real_ext_in_not_judged", reason)
						continue
					}
					var nh tlb.Bits256
					if pn := mon.Guard(func() { nh = f.msg.Hash(true) }); pn != nil {
						R.Violation("panic@"+pn.Site+"/Message.Hash(true)/real", witnessOf(wit, "panic", pn.Value))
						continue
					}
					want := canon.Hash()
					R.Eval("rn/" + how + "/" + string(want[:8]))
					R.Count("real_ext_in_normalised_hashes_compared", 1)
					if [32]byte(nh) != want {
						R.Violation("normalised-hash-mismatch@Message.Hash(true)/real/"+how, witnessOf(wit, "got", h32(nh), "want", h32(want)))
					}
				}
			}
			R.Count("real_transactions_"+how, int64(nt))
			R.Count("real_messages_"+how, int64(nm))
			if pass == 0 {
				R.Count("real_block_cells_hashed_by_reference", int64(len(byHash)))
				R.Seen("real_blocks", name)
				R.Sample(map[string]any{"kind": "real block", "file": name, "cells": len(byHash), "transactions_found": nt, "messages_found": nm})
			}
			// the walker must at least see what tongo's own accessor lists
			inAccounts := 0
			for _, f := range fs {
				if f.tx != nil && strings.HasPrefix(f.path, "block.Extra.AccountBlocks") {
					inAccounts++
				}
			}
			if want := len(blk.AllTransactions()); inAccounts != want {
				R.HarnessError("walker found %d transactions in the account blocks of %s, Block.AllTransactions lists %d", inAccounts, name, want)
			}
		}
		// plain and hasher agree, record by record
		a, b := lists[0], lists[1]
		if a != nil && b != nil {
			if len(a) != len(b) {
				R.Violation("plain-vs-hasher-disagree@real/record-count", map[string]any{"file": name, "plain": len(a), "hasher": len(b)})
				continue
			}
			for i := range a {
				R.Eval("")
				same := a[i].path == b[i].path
				if same && a[i].tx != nil {
					same = b[i].tx != nil && a[i].tx.Hash() == b[i].tx.Hash()
				} else if same {
					same = b[i].msg != nil && a[i].msg.Hash(false) == b[i].msg.Hash(false) && a[i].msg.Hash(true) == b[i].msg.Hash(true)
				}
				if !same {
					R.Violation("plain-vs-hasher-disagree@real/"+pathClass(a[i].path), map[string]any{"file": name, "path": a[i].path})
					break
				}
			}
		}
	}
}

func main() {
	if mon.IsWorker() {
		mon.WorkerMain(map[string]func(*mon.Worker){"concurrent": concurrentWorker})
	}
	tier := "quick"
	if len(os.Args) > 1 {
		tier = os.Args[1]
	}
	R = mon.Start("C16", tier)
	R.Rule = "each case is one decoded message or transaction whose reported hash (Message.Hash(false), Message.Hash(true), Transaction.Hash, root of Transaction.SourceBoc) is compared with the reference hash of the cell it was decoded from (synthetic: the reference-built source cell; real blocks: a cell of the block with the right constructor tag, account and lt) or of the canonical external-in re-encoding built with ref/cell; equivalence-class pairs differ in exactly one part; external-in destinations are addr_std and addr_var (anycast only for the equality classes); body roots include library, Merkle-proof and Merkle-update cells; the normalised hash is asked again after the decoded body has been read in place and after a built message got another body / destination; one destination variable receives record after record while value copies of it are kept (hash, normalised hash and SourceBoc of every kept copy); transactions also at the root of their cell, re-decoded through one decoder, and with a pruned branch / library / Merkle proof below them (SourceBoc must carry those); every combination of the optional parts of a transaction (in_msg, out_msgs, extra currencies in total_fees, description constructor) - a reference-built record that the decoder refuses is a violation (no hash is reported for it); messages decoded through four decoder variants (Unmarshal, NewDecoder, WithDebug, WithLibraryResolver with a resolver that knows the library a body names); transactions of exactly 255/256/257 (thorough also 65535/65536/65537) distinct cells; external-in messages whose body reference is a pruned branch (equality classes only: same for another source/fee, different for another pruned body and for the empty body); one child process decodes distinct cells from 8 goroutines at once; every record is decoded once with tlb.Unmarshal and once with tlb.NewDecoder() (caching hasher) and the two must agree; non-trivial = a hash actually compared; distinct = distinct (decoder, place, shape, reference hash); stability re-reads and plain-vs-hasher agreement count as evaluations only"
	R.Assume("reference hasher harness/ref/cell is correct: pinned at start-up by the Merkle proof/update equations in the repository's real data")
	R.Assume("canonical external-in form is ext_in_msg_info$10 src:addr_none dest import_fee:0, no init, body in a reference (comment in tlb/messages.go; TEP-467); destinations with anycast are not judged (tongo documents that it strips anycast)")
	R.Assume("a record that tongo fails to decode, or decodes into a different structure than the generator described, is counted as inconclusive here (decoding is C03/C04/C08's subject)")
	eq, cells, err := realdata.SelfCheck(mon.RepoRoot(), R.Thorough())
	if err != nil {
		R.HarnessError("reference model failed its self-check: %v", err)
		os.Exit(R.Finish())
	}
	R.Extra("model_selfcheck", map[string]int{"merkle_equations": eq, "cells": cells})

	sectionShapes()
	sectionReuse()
	sectionTransactions()
	sectionTxSizes()
	sectionCarriers()
	sectionClasses()
	sectionConstructed()
	sectionRareExtIn()
	sectionConcurrent()
	sectionReal()
	os.Exit(R.Finish())
}
