// C12 — concurrent lite-client requests each receive their own answer.
// tongo's liteclient.Client is driven by 1..64 goroutines over 1..4
// connections against the stdlib reference ADNL server (harness/ref/adnl)
// whose answer scheduler is adversarial and seed-driven. Every request
// carries a unique key, every answer the server produces is logged under
// that key, so "own answer" is a map lookup. Monitors: own-answer, fault-free
// success, deadline (timeout + slack, load-aware), bounded progress after
// connection drops, goroutine growth, 60 s watchdog with goroutine dump, race
// detector (children run with GORACE log_path; reports are collected and
// classified by the parent), interleaving signatures at the five liteclient
// hook points (liteclient.VerifSetHook, build tag verif). Every scenario runs
// in its own child process: a tongo Client cannot be closed, and tongo prints
// to stdout. See DESIGN.md §5 C12.
package main

import (
	"bytes"
	"context"
	"crypto/sha256"
	"encoding/binary"
	"encoding/hex"
	"encoding/json"
	"errors"
	"fmt"
	"io"
	"log/slog"
	"os"
	"path/filepath"
	"runtime"
	"runtime/pprof"
	"sort"
	"strings"
	"sync"
	"sync/atomic"
	"time"

	"github.com/tonkeeper/tongo/liteclient"
	"github.com/tonkeeper/tongo/tl"

	"verifharness/mon"
	"verifharness/ref/adnl"
)

const (
	keyMarker  = "VRFKEY__"
	slack      = 2 * time.Second  // DESIGN §2.6
	lateLimit  = slack / 4        // lateness above this makes wall-clock verdicts inconclusive
	watchdogT  = 60 * time.Second // a call parked this long is dumped
	progressT  = 45 * time.Second // bounded progress after the server accepts again
	pingPeriod = 3 * time.Second
	// overshoot of a deadline that is conclusive while the load probe recorded no lateness at all
	quietSlack = 300 * time.Millisecond
)

var hookPoints = []string{"client.request.registered", "client.answer.deleted", "conn.send.write", "conn.reconnect.entry", "conn.reader.packet"}

type scenario struct {
	Kind string `json:"kind"` // mix | deadline | reconnect | growth
	Idx  int    `json:"idx"`
}

// ---------------------------------------------------------------- load probe

type probe struct {
	mu   sync.Mutex
	late []lateSample
	stop chan struct{}
}
type lateSample struct {
	at time.Time
	d  time.Duration
}

func startProbe() *probe {
	p := &probe{stop: make(chan struct{})}
	go func() {
		for {
			t0 := time.Now()
			select {
			case <-p.stop:
				return
			case <-time.After(5 * time.Millisecond):
			}
			if late := time.Since(t0) - 5*time.Millisecond; late > 20*time.Millisecond {
				p.mu.Lock()
				p.late = append(p.late, lateSample{time.Now(), late})
				p.mu.Unlock()
			}
		}
	}()
	return p
}

// worst lateness observed in [from, to] (a sample is attributed to its wake-up time)
func (p *probe) worst(from, to time.Time) time.Duration {
	p.mu.Lock()
	defer p.mu.Unlock()
	var w time.Duration
	for _, s := range p.late {
		if s.at.After(from) && s.at.Add(-s.d).Before(to) && s.d > w {
			w = s.d
		}
	}
	return w
}

// ---------------------------------------------------------------- hook callback

type hooks struct {
	mu      sync.Mutex
	rng     *mon.Rng
	yieldP  map[string]int // 1/n chance of Gosched (0 = never)
	sleepP  map[string]int // 1/n chance of sleeping up to 2 ms
	events  []uint8
	count   map[string]int64
	idx     map[string]uint8
	enabled atomic.Bool
	// directed, when set, runs at every point after the bookkeeping and may block (scripted schedules)
	directed atomic.Pointer[func(string)]
}

func (h *hooks) setDirected(f func(string)) { h.directed.Store(&f) }

func installHooks(rng *mon.Rng) *hooks {
	h := &hooks{rng: rng, yieldP: map[string]int{}, sleepP: map[string]int{}, count: map[string]int64{}, idx: map[string]uint8{}}
	for i, n := range hookPoints {
		h.idx[n] = uint8(i)
		h.yieldP[n] = mon.Pick(rng, []int{0, 2, 2, 4, 8})
		h.sleepP[n] = mon.Pick(rng, []int{0, 0, 16, 32, 64})
	}
	// the two windows the statement depends on get attention in most scenarios
	if rng.Chance(2, 3) {
		h.sleepP["client.request.registered"] = mon.Pick(rng, []int{4, 8, 16})
		h.sleepP["client.answer.deleted"] = mon.Pick(rng, []int{4, 8, 16})
	}
	h.enabled.Store(true)
	liteclient.VerifSetHook(h.point)
	return h
}

func (h *hooks) point(name string) {
	h.mu.Lock()
	h.count[name]++
	if len(h.events) < 4<<20 {
		h.events = append(h.events, h.idx[name])
	}
	var yield bool
	var sleep time.Duration
	if h.enabled.Load() {
		if n := h.yieldP[name]; n > 0 && h.rng.Intn(n) == 0 {
			yield = true
		}
		if n := h.sleepP[name]; n > 0 && h.rng.Intn(n) == 0 {
			sleep = time.Duration(h.rng.Intn(2000)) * time.Microsecond
		}
	}
	h.mu.Unlock()
	if d := h.directed.Load(); d != nil {
		(*d)(name)
	}
	if yield {
		runtime.Gosched()
	}
	if sleep > 0 {
		time.Sleep(sleep)
	}
}

func (h *hooks) pos() int {
	h.mu.Lock()
	defer h.mu.Unlock()
	return len(h.events)
}

// signature of the hook events between two positions (what happened, in which
// order, while one call was in flight), capped.
func (h *hooks) signature(a, b int) string {
	h.mu.Lock()
	defer h.mu.Unlock()
	if b > len(h.events) {
		b = len(h.events)
	}
	if a > b {
		a = b
	}
	if b-a > 24 {
		b = a + 24
	}
	return hex.EncodeToString(h.events[a:b])
}

// ---------------------------------------------------------------- server side

func fpOf(parts ...[]byte) string {
	h := sha256.New()
	for _, p := range parts {
		var l [4]byte
		binary.LittleEndian.PutUint32(l[:], uint32(len(p)))
		h.Write(l[:])
		h.Write(p)
	}
	return hex.EncodeToString(h.Sum(nil)[:12])
}

type qrec struct {
	key      string
	qid      [32]byte
	action   string
	fps      []string // fingerprints of every answer produced for this query id
	tRecv    time.Time
	tSent    []time.Time // answers written without error
	session  int
	seenMore int // the same key arrived again
}

type policy struct {
	now, delay, batch, twice, many, unknown, junk, never int // weights
	maxDelay                                             time.Duration
	minDelay                                             time.Duration // added to every delayed answer
	bigAnswers                                           bool
	authJunk                                             bool // junk may include an unsolicited tcp.authentificationNonce
}

type held struct {
	wire []byte
	rec  *qrec
}

type srvState struct {
	mu        sync.Mutex
	rng       *mon.Rng
	pol       policy
	log       map[string]*qrec
	fpOwner   map[string]string // answer fingerprint -> key ("" for unknown-id answers)
	seq       uint64
	sessions  int
	queries   int64
	pings     int64
	other     int64
	malformed []string
	actions   map[string]int64
	dropAfter int // close the next n sessions right after the handshake
	// sessions that began with unrelated packets in the same write as the handshake confirmation
	piggybacked int64
	silent      atomic.Bool
}

func newSrvState(rng *mon.Rng, pol policy) *srvState {
	return &srvState{rng: rng, pol: pol, log: map[string]*qrec{}, fpOwner: map[string]string{}, actions: map[string]int64{}}
}

func (s *srvState) nonce() [32]byte {
	s.mu.Lock()
	defer s.mu.Unlock()
	var n [32]byte
	copy(n[:], s.rng.Bytes(32))
	return n
}

func (s *srvState) pickAction() string {
	p := s.pol
	names := []string{"now", "delay", "batch", "twice", "many", "unknown", "junk", "never"}
	ws := []int{p.now, p.delay, p.batch, p.twice, p.many, p.unknown, p.junk, p.never}
	tot := 0
	for _, w := range ws {
		tot += w
	}
	r := s.rng.Intn(tot)
	for i, w := range ws {
		if r < w {
			return names[i]
		}
		r -= w
	}
	return "now"
}

// answerFor builds one answer for rec (call with s.mu held).
func (s *srvState) answerFor(rec *qrec, query []byte) []byte {
	s.seq++
	var seq [8]byte
	binary.LittleEndian.PutUint64(seq[:], s.seq)
	padN := s.rng.Intn(200)
	switch s.rng.Intn(12) {
	case 0, 1:
		padN = s.rng.Range(250, 3000)
	case 2:
		if s.pol.bigAnswers {
			padN = s.rng.Range(60_000, 300_000)
		}
	case 3:
		// the answer as a whole is 253..257 bytes long (raw: 12 + padN + 24 key bytes) or 252..260
		// (generated path: 40 + the padded TL bytes of 12 + padN): the boundary of the TL length prefix
		if bytes.HasPrefix(query, adnl.MagicLSQuery) {
			padN = s.rng.Range(196, 207)
		} else {
			padN = s.rng.Range(217, 221)
		}
	}
	body := append(append([]byte("ANS:"), seq[:]...), s.rng.Bytes(padN)...)
	var ans []byte
	var fp string
	if bytes.HasPrefix(query, adnl.MagicLSQuery) {
		i := bytes.Index(query, []byte(keyMarker))
		hash := query[i : i+32]
		if s.rng.Chance(1, 4) {
			code := uint32(s.seq) | 0x40000000
			var cb [4]byte
			binary.LittleEndian.PutUint32(cb[:], code)
			msg := []byte(hex.EncodeToString(body[:min(len(body), 40)]))
			ans = append(append(append([]byte{}, adnl.MagicLSError...), cb[:]...), adnl.TLBytes(msg)...)
			fp = fpOf([]byte("E"), cb[:], msg)
		} else {
			ans = append([]byte{0x6b, 0xb9, 0x7a, 0x11, 1, 0, 0, 0}, hash...) // liteServer.libraryResult, vector of one entry
			ans = append(ans, adnl.TLBytes(body)...)
			fp = fpOf([]byte("L"), hash, body)
		}
	} else {
		ans = append(body, []byte(rec.key)...)
		fp = fpOf(ans)
	}
	rec.fps = append(rec.fps, fp)
	s.fpOwner[fp] = rec.key
	return adnl.BuildAnswer(rec.qid, ans)
}

func (s *srvState) junkPacket() []byte {
	k := 9
	if s.pol.authJunk {
		k = 10
	}
	switch s.rng.Intn(k) {
	case 9:
		return append(append([]byte{}, adnl.MagicAuthNonce...), adnl.TLBytes(s.rng.Bytes(32))...) // auth nonce nobody asked for
	case 0:
		return nil // empty payload
	case 1:
		return s.rng.Bytes(s.rng.Range(1, 3)) // shorter than a constructor id
	case 2:
		return append(append([]byte{}, adnl.MagicPong...), s.rng.Bytes(8)...) // pong nobody asked for
	case 3:
		return append(append([]byte{}, adnl.MagicPong...), s.rng.Bytes(s.rng.Range(9, 40))...) // pong of the wrong size
	case 4:
		return append(append([]byte{}, adnl.MagicAnswer...), s.rng.Bytes(s.rng.Intn(33))...) // answer too short to carry an id + length
	case 5:
		return s.rng.Bytes(s.rng.Range(4, 300)) // unknown constructor
	case 6:
		return append(append([]byte{}, adnl.MagicQuery...), s.rng.Bytes(40)...) // a query towards the client
	case 7:
		return append(append([]byte{}, adnl.MagicPing...), s.rng.Bytes(8)...) // a ping towards the client
	}
	// an answer to a query id nobody sent
	var id [32]byte
	copy(id[:], s.rng.Bytes(32))
	body := append([]byte("UNKNOWN-ID:"), s.rng.Bytes(s.rng.Intn(100))...)
	s.fpOwner[fpOf(body)] = ""
	return adnl.BuildAnswer(id, body)
}

// piggyback: every other session starts with one or two unrelated packets written together with the
// handshake confirmation (first connects and reconnects alike).
func (s *srvState) piggyback() [][]byte {
	s.mu.Lock()
	defer s.mu.Unlock()
	if s.rng.Bool() {
		return nil
	}
	var out [][]byte
	for n := s.rng.Range(1, 2); n > 0; n-- {
		out = append(out, s.junkPacket())
	}
	s.piggybacked++
	return out
}

func (s *srvState) serve(p *adnl.Peer) {
	s.mu.Lock()
	s.sessions++
	session := s.sessions
	drop := s.dropAfter > 0
	if drop {
		s.dropAfter--
	}
	s.mu.Unlock()
	if drop {
		p.Close()
		return
	}
	var hmu sync.Mutex
	var heldq []held
	done := make(chan struct{})
	defer close(done)
	send := func(rec *qrec, wire []byte) {
		if s.silent.Load() {
			return
		}
		if err := p.Send(s.nonce(), wire); err == nil && rec != nil {
			s.mu.Lock()
			rec.tSent = append(rec.tSent, time.Now())
			s.mu.Unlock()
		}
	}
	flush := func() {
		hmu.Lock()
		q := heldq
		heldq = nil
		hmu.Unlock()
		if len(q) == 0 || s.silent.Load() {
			return
		}
		s.mu.Lock()
		perm := s.rng.Perm(len(q))
		s.mu.Unlock()
		var ns [][32]byte
		var ws [][]byte
		for _, i := range perm {
			ns = append(ns, s.nonce())
			ws = append(ws, q[i].wire)
		}
		if err := p.SendBatch(ns, ws); err == nil {
			now := time.Now()
			s.mu.Lock()
			for _, h := range q {
				h.rec.tSent = append(h.rec.tSent, now)
			}
			s.mu.Unlock()
		}
	}
	go func() {
		t := time.NewTicker(15 * time.Millisecond)
		defer t.Stop()
		for {
			select {
			case <-done:
				return
			case <-t.C:
				flush()
			}
		}
	}()
	for {
		pl, _, err := p.Recv()
		if err != nil {
			// a stream that merely ends (the server's own close, a reset) is not a protocol error
			if fe, ok := err.(*adnl.FrameError); ok && !strings.HasPrefix(fe.Reason, "truncated") {
				s.mu.Lock()
				s.malformed = append(s.malformed, "frame: "+fe.Reason)
				s.mu.Unlock()
			}
			p.Close()
			return
		}
		if pong, ok := adnl.IsPing(pl); ok {
			atomic.AddInt64(&s.pings, 1)
			send(nil, pong)
			continue
		}
		qid, query, err := adnl.ParseQuery(pl)
		if err != nil {
			s.mu.Lock()
			s.other++
			if bytes.HasPrefix(pl, adnl.MagicQuery) {
				s.malformed = append(s.malformed, "query: "+err.Error()+" "+mon.HexTrunc(pl, 64))
			}
			s.mu.Unlock()
			continue
		}
		i := bytes.Index(query, []byte(keyMarker))
		if i < 0 || len(query) < i+32 {
			s.mu.Lock()
			s.malformed = append(s.malformed, "query without key: "+mon.HexTrunc(query, 64))
			s.mu.Unlock()
			continue
		}
		key := string(query[i+8 : i+32])
		s.mu.Lock()
		s.queries++
		if old := s.log[key]; old != nil {
			old.seenMore++
			s.mu.Unlock()
			continue
		}
		rec := &qrec{key: key, qid: qid, tRecv: time.Now(), session: session}
		s.log[key] = rec
		act := s.pickAction()
		rec.action = act
		s.actions[act]++
		var wires [][]byte
		var delay, straggler time.Duration
		real := 0 // index in wires of the answer that belongs to this query
		switch act {
		case "now", "batch":
			wires = [][]byte{s.answerFor(rec, query)}
		case "delay":
			wires = [][]byte{s.answerFor(rec, query)}
			delay = s.pol.minDelay + time.Duration(s.rng.Intn(int(s.pol.maxDelay)))
		case "twice":
			wires = [][]byte{s.answerFor(rec, query), s.answerFor(rec, query)}
			if s.rng.Bool() {
				delay = time.Duration(s.rng.Intn(int(s.pol.maxDelay)))
			}
		case "many":
			// the same answer 2..8 times, written at once; sometimes a straggler later
			one := s.answerFor(rec, query)
			for k := s.rng.Range(2, 8); k > 0; k-- {
				wires = append(wires, one)
			}
			if s.pol.minDelay > 0 {
				delay = s.pol.minDelay + time.Duration(s.rng.Intn(int(s.pol.maxDelay)))
			}
			if s.rng.Chance(1, 3) {
				straggler = time.Duration(s.rng.Intn(int(s.pol.maxDelay) + 1))
			}
		case "unknown":
			var id [32]byte
			copy(id[:], s.rng.Bytes(32))
			body := append([]byte("UNKNOWN-ID:"), s.rng.Bytes(s.rng.Intn(100))...)
			s.fpOwner[fpOf(body)] = ""
			wires = [][]byte{adnl.BuildAnswer(id, body), s.answerFor(rec, query)}
			real = 1
		case "junk":
			n := s.rng.Range(1, 3)
			for k := 0; k < n; k++ {
				wires = append(wires, s.junkPacket())
			}
			real = len(wires)
			wires = append(wires, s.answerFor(rec, query))
			if s.rng.Bool() {
				wires = append(wires, s.junkPacket())
			}
		case "never":
		}
		s.mu.Unlock()
		switch act {
		case "now", "unknown", "junk":
			for k, wr := range wires {
				if k == real {
					send(rec, wr)
				} else {
					send(nil, wr)
				}
			}
		case "batch":
			hmu.Lock()
			heldq = append(heldq, held{wires[0], rec})
			n := len(heldq)
			hmu.Unlock()
			if n >= 6 {
				flush()
			}
		case "delay":
			wr := wires[0]
			time.AfterFunc(delay, func() { send(rec, wr) })
		case "many":
			ws := wires
			burst := func() {
				if s.silent.Load() {
					return
				}
				var ns [][32]byte
				for range ws {
					ns = append(ns, s.nonce())
				}
				if err := p.SendBatch(ns, ws); err == nil {
					s.mu.Lock()
					rec.tSent = append(rec.tSent, time.Now())
					s.mu.Unlock()
				}
				if straggler > 0 {
					time.AfterFunc(straggler, func() { send(rec, ws[0]) })
				}
			}
			if delay > 0 {
				time.AfterFunc(delay, burst)
			} else {
				burst()
			}
		case "twice":
			send(rec, wires[0])
			w2 := wires[1]
			if delay > 0 {
				time.AfterFunc(delay, func() { send(rec, w2) })
			} else {
				send(rec, w2)
			}
		}
	}
}

// ---------------------------------------------------------------- client side

type call struct {
	key     string
	gen     bool
	phase   string
	t0, t1  time.Time
	ok      bool
	fp      string
	err     string
	errCls  string
	e0, e1  int
	g, n    int
	timeout time.Duration // what the call is allowed: min(client timeout, caller's deadline / moment of cancellation)
	ctxMode string        // background | parent-later | parent-earlier | cancel-mid | cancelled | expired
	done    atomic.Bool
}

// ctxExempt: the caller itself ended the call (cancelled, or handed in a context that was already
// over); an error is then the expected outcome even while the server is healthy.
func (c *call) ctxExempt() bool {
	return c.ctxMode == "cancel-mid" || c.ctxMode == "cancelled" || c.ctxMode == "expired"
}

type env struct {
	w              *mon.Worker
	sc             scenario
	rng            *mon.Rng
	pr             *probe
	hk             *hooks
	st             *srvState
	srv            *adnl.Server
	id             *adnl.Identity
	client         *liteclient.Client
	timeout        time.Duration
	workers        int
	genPct         int
	poll           bool // run the status poller next to the callers
	polls, pollsRT atomic.Int64
	ffFailed       atomic.Int64 // failed calls in the fault-free phase of mix / slow
	// share (percent) of calls made with a caller-supplied context instead of context.Background(),
	// and, of those, the share whose context is already over when the call is made
	ctxPct, ctxDonePct int

	mu      sync.Mutex
	calls   []*call
	active  map[*call]struct{}
	aborted atomic.Bool
	abortCh chan struct{}
	keyCtr  atomic.Uint64
	wit     map[string]any
	start   time.Time
}

// stallLimit: a 5 ms sleeper waking up this late means the process (or the
// whole machine: VM pause, clock jump) stood still; tongo's own 3 s / 10 s
// timers then fire for reasons the server did not cause, and no wall-clock
// verdict about the scenario is sound.
const stallLimit = time.Second

// worstSince waits a moment (after a stall the probe goroutine may not have
// run yet when the caller notices a timeout) and returns the worst lateness
// since t.
func (e *env) worstSince(t time.Time) time.Duration {
	time.Sleep(1500 * time.Millisecond)
	return e.pr.worst(t, time.Now())
}

func errClass(err error) string {
	s := err.Error()
	switch {
	case strings.Contains(s, "request timeout"):
		return "timeout"
	case strings.Contains(s, "not connected yet"):
		return "not-connected"
	case strings.Contains(s, "send() failed"):
		return "send-failed"
	}
	return "other:" + mon.PanicClass(mon.Trunc(s, 40))
}

// fork derives an independent stream without touching e.rng (which the
// scenario's main goroutine keeps using).
func (e *env) fork(label string, i int) *mon.Rng {
	return e.w.Rng(e.sc.Kind+"/"+label, e.sc.Idx*4096+i)
}

func (e *env) abort() {
	if e.aborted.CompareAndSwap(false, true) {
		close(e.abortCh)
	}
}

// boundaryLens: total lengths around the switch of the TL length prefix from its one-byte to its
// four-byte form (254), for requests and answers alike.
var boundaryLens = []int{253, 254, 255, 256, 257}

// callCtx chooses the context a call is made with. Most calls use context.Background(); the others
// carry a deadline later than the client's timeout (the client's timeout still bounds the call), an
// earlier one (it bounds the call), are cancelled while in flight, or are already over on entry.
// It returns the context, the time the call is allowed to take, and a cleanup function.
func (e *env) callCtx(rng *mon.Rng, phase string) (ctx context.Context, mode string, allowed time.Duration, cleanup func()) {
	ctx, mode, allowed, cleanup = context.Background(), "background", e.timeout, func() {}
	if e.ctxPct == 0 || strings.HasPrefix(phase, "fault-") || phase == "after-edge" || rng.Intn(100) >= e.ctxPct {
		return
	}
	if rng.Intn(100) < e.ctxDonePct {
		if rng.Bool() {
			c, cancel := context.WithCancel(context.Background())
			cancel()
			return c, "cancelled", 0, func() {}
		}
		c, cancel := context.WithDeadline(context.Background(), time.Now().Add(-time.Millisecond))
		return c, "expired", 0, cancel
	}
	switch rng.Intn(3) {
	case 0:
		// later than the client's timeout, but near enough for a call that wrongly waits for it to end within the scenario
		c, cancel := context.WithTimeout(context.Background(), e.timeout+4*time.Second)
		return c, "parent-later", e.timeout, cancel
	case 1:
		d := e.timeout/2 + time.Duration(rng.Intn(int(e.timeout/2)+1))*9/10
		c, cancel := context.WithTimeout(context.Background(), d)
		return c, "parent-earlier", d, cancel
	}
	d := time.Duration(rng.Intn(int(e.timeout/2) + 1))
	c, cancel := context.WithCancel(context.Background())
	t := time.AfterFunc(d, cancel)
	return c, "cancel-mid", d, func() { t.Stop(); cancel() }
}

// doCall issues one request (raw Request or the generated GetLibraries
// method) with a fresh unique key and records what came back.
func (e *env) doCall(rng *mon.Rng, g, n int, phase string) *call {
	var kb [24]byte
	binary.LittleEndian.PutUint32(kb[0:], uint32(e.sc.Idx))
	binary.LittleEndian.PutUint32(kb[4:], uint32(g))
	binary.LittleEndian.PutUint32(kb[8:], uint32(n))
	binary.LittleEndian.PutUint64(kb[12:], e.keyCtr.Add(1))
	copy(kb[20:], rng.Bytes(4))
	c := &call{key: string(kb[:]), gen: rng.Intn(100) < e.genPct, phase: phase, g: g, n: n, timeout: e.timeout}
	var req []byte
	if !c.gen {
		req = append(rng.Bytes(rng.Intn(40)), keyMarker...)
		req = append(req, kb[:]...)
		padN := rng.Intn(100)
		if rng.Chance(1, 10) {
			padN = rng.Range(250, 5000)
		}
		if rng.Chance(1, 16) {
			// the whole request is 253..257 bytes long: the boundary of the TL length prefix
			padN = mon.Pick(rng, boundaryLens) - len(req)
			e.w.Seen("request_length_boundary", fmt.Sprint(len(req)+padN))
		}
		req = append(req, rng.Bytes(padN)...)
	}
	ctx, mode, allowed, cleanup := e.callCtx(rng, phase)
	defer cleanup()
	c.ctxMode, c.timeout = mode, allowed
	c.e0 = e.hk.pos()
	c.t0 = time.Now()
	e.mu.Lock()
	e.calls = append(e.calls, c)
	e.active[c] = struct{}{}
	e.mu.Unlock()
	var err error
	pn := mon.Guard(func() {
		if c.gen {
			var h tl.Int256
			copy(h[:], keyMarker)
			copy(h[8:], kb[:])
			var res liteclient.LiteServerLibraryResultC
			res, err = e.client.LiteServerGetLibraries(ctx, liteclient.LiteServerGetLibrariesRequest{LibraryList: []tl.Int256{h}})
			var le liteclient.LiteServerErrorC
			switch {
			case err == nil && len(res.Result) == 1:
				c.ok, c.fp = true, fpOf([]byte("L"), res.Result[0].Hash[:], res.Result[0].Data)
			case err == nil:
				c.ok, c.fp = true, fmt.Sprintf("library-result-with-%d-entries", len(res.Result))
			case errors.As(err, &le):
				var cb [4]byte
				binary.LittleEndian.PutUint32(cb[:], le.Code)
				c.ok, c.fp, err = true, fpOf([]byte("E"), cb[:], []byte(le.Message)), nil
			}
		} else {
			var ans []byte
			ans, err = e.client.Request(ctx, req)
			if err == nil {
				c.ok, c.fp = true, fpOf(ans)
			}
		}
	})
	c.t1 = time.Now()
	c.e1 = e.hk.pos()
	if pn != nil {
		c.err, c.errCls = "panic: "+pn.Value, "panic"
		e.w.Violation("panic@"+pn.Site+"/Request", e.witness(map[string]any{"panic": pn.Value, "stack": pn.Stack}))
	} else if err != nil {
		c.err, c.errCls = err.Error(), errClass(err)
	}
	c.done.Store(true)
	e.mu.Lock()
	delete(e.active, c)
	e.mu.Unlock()
	return c
}

func (e *env) witness(extra map[string]any) map[string]any {
	m := map[string]any{}
	for k, v := range e.wit {
		m[k] = v
	}
	for k, v := range extra {
		m[k] = v
	}
	return m
}

func dumpStacks() string {
	buf := make([]byte, 8<<20)
	return string(buf[:runtime.Stack(buf, true)])
}

// parkedFrames lists, for every goroutine whose stack mentions needle, the
// innermost tongo function it sits in.
func parkedFrames(dump, needle string) []string {
	set := map[string]bool{}
	for _, g := range strings.Split(dump, "\n\n") {
		if !strings.Contains(g, needle) {
			continue
		}
		for _, ln := range strings.Split(g, "\n") {
			if strings.HasPrefix(ln, "github.com/tonkeeper/tongo/") {
				f := strings.TrimPrefix(ln, "github.com/tonkeeper/tongo/")
				if i := strings.LastIndex(f, "("); i > 0 {
					f = f[:i]
				}
				set[f] = true
				break
			}
		}
	}
	var out []string
	for f := range set {
		out = append(out, f)
	}
	sort.Strings(out)
	return out
}

// tongoStacks keeps only the goroutines that are inside tongo code.
func tongoStacks(dump string) string {
	var keep []string
	for _, g := range strings.Split(dump, "\n\n") {
		if strings.Contains(g, "tonkeeper/tongo/") {
			keep = append(keep, g)
		}
	}
	return mon.Trunc(strings.Join(keep, "\n\n"), 12000)
}

// watchdog: a call that has not returned after 60 s (timeouts are <= 5 s) is
// parked; dump all goroutines and give up on the scenario.
func (e *env) watchdog() {
	for {
		select {
		case <-e.abortCh:
			return
		case <-time.After(500 * time.Millisecond):
		}
		now := time.Now()
		var stuck *call
		e.mu.Lock()
		for c := range e.active {
			if now.Sub(c.t0) > watchdogT {
				stuck = c
				break
			}
		}
		e.mu.Unlock()
		if stuck != nil {
			if late := e.worstSince(stuck.t0); late > lateLimit {
				e.w.Inconclusive("watchdog fired on a stalled machine")
				e.abort()
				return
			}
			if stuck.done.Load() {
				continue
			}
			dump := dumpStacks()
			frames := parkedFrames(dump, "liteclient.(*Client).Request")
			e.w.Violation("call-parked@"+strings.Join(frames, "+"), e.witness(map[string]any{"phase": stuck.phase, "waited_s": now.Sub(stuck.t0).Seconds(),
				"client_timeout_ms": e.timeout.Milliseconds(), "worst_lateness_ms": e.pr.worst(stuck.t0, now).Milliseconds(), "tongo_goroutines": tongoStacks(dump)}))
			e.abort()
			return
		}
	}
}

// isOK calls Client.IsOK with its own watchdog (it takes Connection.mu).
func (e *env) isOK() (ok bool, returned bool) {
	ch := make(chan bool, 1)
	go func() { ch <- e.client.IsOK() }()
	select {
	case v := <-ch:
		return v, true
	case <-time.After(20 * time.Second):
		if late := e.worstSince(time.Now().Add(-25 * time.Second)); late > lateLimit {
			e.w.Inconclusive("IsOK watchdog fired on a stalled machine")
			e.abort()
			return false, false
		}
		select {
		case v := <-ch:
			return v, true
		default:
		}
		dump := dumpStacks()
		e.w.Violation("IsOK-parked@"+strings.Join(parkedFrames(dump, "liteclient.(*Client).IsOK"), "+"), e.witness(map[string]any{"tongo_goroutines": tongoStacks(dump)}))
		e.abort()
		return false, false
	}
}

// runCallers runs g goroutines issuing n calls each and waits for them (or
// for an abort).
func (e *env) runCallers(g, n int, phase string, gap time.Duration) {
	var wg sync.WaitGroup
	for i := 0; i < g; i++ {
		wg.Add(1)
		go func(i int) {
			defer wg.Done()
			rng := e.fork(phase, i)
			for k := 0; k < n && !e.aborted.Load(); k++ {
				// a healthy phase in which call after call fails is decided; do not sit through thousands of timeouts
				if c := e.doCall(rng, i, k, phase); !c.ok && !c.ctxExempt() && phase == "fault-free" && e.ffFailed.Add(1) >= 64 {
					e.abort()
				}
				if gap > 0 {
					time.Sleep(time.Duration(rng.Intn(int(gap))))
				}
			}
		}(i)
	}
	e.waitOrAbort(&wg)
}

func (e *env) waitOrAbort(wg *sync.WaitGroup) {
	done := make(chan struct{})
	go func() { wg.Wait(); close(done) }()
	select {
	case <-done:
	case <-e.abortCh:
	}
}

func (e *env) setup(pol policy, workers int, timeout time.Duration) bool {
	e.workers, e.timeout = workers, timeout
	e.st = newSrvState(e.fork("server", 0), pol)
	ip := fmt.Sprintf("127.%d.%d.%d", 16+os.Getpid()%200, (e.sc.Idx>>8)&255, e.sc.Idx&255)
	srv, err := adnl.Listen(ip+":0", e.id, e.st.nonce, func(s *adnl.Server) { s.OnPeer, s.Piggyback = e.st.serve, e.st.piggyback })
	if err != nil {
		e.w.HarnessError("listen: " + err.Error())
		return false
	}
	e.srv = srv
	ctx, cancel := context.WithTimeout(context.Background(), 20*time.Second)
	defer cancel()
	var conn *liteclient.Connection
	pn := mon.Guard(func() { conn, err = liteclient.NewConnection(ctx, e.id.Pub[:], srv.Addr()) })
	if pn == nil && err != nil && e.worstSince(e.start) > lateLimit {
		e.w.Inconclusive("first connection failed on a stalled machine")
		return false
	}
	if pn != nil || err != nil {
		e.w.Violation("connect-failed@healthy-server", e.witness(map[string]any{"error": fmt.Sprint(err), "panic": fmt.Sprint(pn)}))
		return false
	}
	pn = mon.Guard(func() {
		e.client = liteclient.NewClient(conn, liteclient.OptionTimeout(timeout), liteclient.OptionWorkersPerConnection(workers))
	})
	if pn != nil {
		e.w.Violation("panic@"+pn.Site+"/NewClient", e.witness(map[string]any{"panic": pn.Value}))
		return false
	}
	// OptionWorkersPerConnection only logs a failed clone (the statement does not promise a number of
	// connections): wait for the accept counter, then go on with the connections there are
	for i := 0; i < 300 && int(srv.Accepted.Load()) < workers; i++ {
		time.Sleep(10 * time.Millisecond)
	}
	if n := int(srv.Accepted.Load()); n < workers {
		e.w.Count("clients_with_fewer_connections_than_requested", 1)
		e.wit["connections_established"] = n
		e.workers = n
	}
	go e.watchdog()
	if e.poll {
		go e.poller()
	}
	return true
}

// poller reads the client's status accessors all the time from a goroutine of its own, as a
// monitoring loop of an application would: Client.AverageRoundTrip and Client.IsOK take part in the
// executions the race detector and the watchdogs look at.
func (e *env) poller() {
	for !e.aborted.Load() {
		var rt time.Duration
		if pn := mon.Guard(func() { rt = e.client.AverageRoundTrip(); e.client.IsOK() }); pn != nil {
			e.w.Violation("panic@"+pn.Site+"/AverageRoundTrip", e.witness(map[string]any{"panic": pn.Value, "stack": pn.Stack}))
			return
		}
		e.polls.Add(1)
		if rt > 0 {
			e.pollsRT.Add(1)
		}
		time.Sleep(3 * time.Millisecond)
	}
}

// ---------------------------------------------------------------- judging

// judge compares the client's view of every call with the server's log.
// mustSucceed names the phases in which the server was healthy the whole time.
func (e *env) judge(mustSucceed map[string]bool) {
	e.mu.Lock()
	calls := append([]*call(nil), e.calls...)
	e.mu.Unlock()
	st := e.st
	st.mu.Lock()
	defer st.mu.Unlock()
	e.w.Count("server_sessions", int64(st.sessions))
	e.w.Count("server_queries", st.queries)
	e.w.Count("server_pings", atomic.LoadInt64(&st.pings))
	e.w.Count("sessions_with_packets_behind_the_handshake_confirmation", st.piggybacked)
	for a, n := range st.actions {
		e.w.Count("server_action:"+a, n)
		e.w.Seen("server_actions", a)
	}
	for _, m := range st.malformed {
		e.w.Violation("malformed-on-the-wire@"+mon.PanicClass(strings.SplitN(m, ":", 2)[0]), e.witness(map[string]any{"what": m}))
	}
	time.Sleep(300 * time.Millisecond) // after a stall the load probe may not have recorded it yet
	stalled := e.pr.worst(e.start, time.Now()) > stallLimit
	if stalled {
		e.w.Inconclusive("process stalled for more than 1 s during the scenario; wall-clock verdicts dropped")
	}
	sampled := false
	for _, c := range calls {
		if !c.done.Load() {
			continue // still parked; the watchdog reported it
		}
		rec := st.log[c.key]
		e.w.Eval("call/" + hex.EncodeToString([]byte(c.key)))
		e.w.Seen("interleavings", e.hk.signature(c.e0, c.e1))
		path := "Request"
		if c.gen {
			path = "LiteServerGetLibraries"
		}
		e.w.Seen("api_paths", path)
		e.w.Seen("caller_contexts", c.ctxMode+"/"+map[bool]string{true: "answered", false: "error"}[c.ok])
		wit := func(extra map[string]any) map[string]any {
			m := map[string]any{"phase": c.phase, "api": path, "goroutine": c.g, "call": c.n, "elapsed_ms": c.t1.Sub(c.t0).Milliseconds(), "allowed_ms": c.timeout.Milliseconds(),
				"client_timeout_ms": e.timeout.Milliseconds(), "caller_context": c.ctxMode}
			if rec != nil {
				m["server_action"], m["answers_produced"], m["answers_written"], m["server_session"] = rec.action, len(rec.fps), len(rec.tSent), rec.session
			}
			for k, v := range extra {
				m[k] = v
			}
			return e.witness(m)
		}
		if rec != nil && rec.seenMore > 0 {
			e.w.Violation("query-sent-more-than-once", wit(nil))
		}
		// (1) own answer
		if c.ok {
			own := false
			if rec != nil {
				for i, fp := range rec.fps {
					if fp == c.fp {
						own = true
						if rec.action == "twice" {
							e.w.Seen("twice_delivered", fmt.Sprintf("answer#%d", i+1))
						}
					}
				}
			}
			if !own {
				owner, known := st.fpOwner[c.fp]
				switch {
				case known && owner == "":
					e.w.Violation("foreign-answer@answer-to-unknown-id-delivered", wit(nil))
				case known:
					o := st.log[owner]
					e.w.Violation("foreign-answer@answer-of-another-query", wit(map[string]any{"owner_action": o.action, "owner_session": o.session}))
				case rec == nil:
					e.w.Violation("foreign-answer@call-succeeded-but-server-never-saw-the-query", wit(nil))
				default:
					e.w.Violation("foreign-answer@bytes-the-server-never-produced", wit(map[string]any{"got_fp": c.fp}))
				}
				continue
			}
			e.w.Count("calls_own_answer", 1)
			if rec.action != "" {
				e.w.Seen("actions_answered", rec.action+"/"+path)
			}
			if !sampled && c.n == 1 {
				sampled = true
				e.w.Sample(map[string]any{"kind": "call", "scenario": e.sc.Kind, "api": path, "server_action": rec.action, "query_id": mon.Hex(rec.qid[:]), "answer_fp": c.fp,
					"hook_events_during_call": e.hk.signature(c.e0, c.e1), "elapsed_us": c.t1.Sub(c.t0).Microseconds()})
			}
		} else {
			e.w.Count("calls_error:"+c.errCls, 1)
		}
		// (3) deadline: the call is over by min(client timeout, caller's deadline or cancellation) + slack.
		// While the load probe saw nothing at all (no 5 ms sleeper woke up more than 20 ms late during
		// the call) a much smaller overshoot is already conclusive.
		if el := c.t1.Sub(c.t0); el > c.timeout+slack && !stalled {
			if late := e.pr.worst(c.t0, c.t1); late > lateLimit {
				e.w.Inconclusive("deadline overrun on a loaded machine")
			} else {
				e.w.Violation("deadline-overrun@"+map[bool]string{true: "success", false: c.errCls}[c.ok]+"/"+c.ctxMode, wit(map[string]any{"worst_lateness_ms": late.Milliseconds()}))
			}
		} else if el > c.timeout+quietSlack && !c.ok && !stalled && e.pr.worst(c.t0.Add(-50*time.Millisecond), c.t1.Add(50*time.Millisecond)) == 0 {
			e.w.Violation("deadline-overrun@"+c.errCls+"/"+c.ctxMode+"/quiet-machine", wit(map[string]any{"overshoot_ms": (el - c.timeout).Milliseconds(), "worst_lateness_ms": 0}))
		}
		// (2) fault-free phases: every call succeeds
		if !c.ok && mustSucceed[c.phase] && !stalled && c.ctxExempt() {
			e.w.Count("calls_ended_by_their_caller", 1)
		} else if !c.ok && mustSucceed[c.phase] && !stalled {
			late := e.pr.worst(c.t0, c.t1)
			// the answer was on the wire early enough for the client to hand it over: timeout - slack
			// for long timeouts, half the timeout for short ones (the other half is the client's)
			margin := c.timeout - slack
			if margin < c.timeout/2 {
				margin = c.timeout / 2
			}
			answeredInTime := rec != nil && len(rec.tSent) > 0 && rec.tSent[0].Sub(c.t0) < margin
			if answeredInTime && c.timeout < 2*slack && e.pr.worst(c.t0.Add(-50*time.Millisecond), c.t1.Add(50*time.Millisecond)) > 0 {
				// short timeouts: only a probe that saw nothing at all (no sleeper more than 20 ms late) makes the verdict conclusive
				answeredInTime = false
			}
			switch {
			case c.errCls == "panic":
			case c.errCls == "timeout" && rec != nil && rec.action == "never":
				e.w.Count("never_answered_calls_timed_out", 1)
			case c.errCls == "timeout" && !answeredInTime && rec != nil:
				// the reference server itself was slow or the timeout is too short to tell
				e.w.Count("timeouts_not_attributable", 1)
			case late > lateLimit:
				e.w.Inconclusive("call failed in a fault-free phase on a loaded machine")
			case c.errCls == "timeout" && rec == nil:
				e.w.Violation("call-failed@fault-free/query-never-reached-the-server", wit(map[string]any{"error": c.err}))
			case c.errCls == "timeout":
				e.w.Violation("call-failed@fault-free/timeout-although-answered", wit(map[string]any{"error": c.err,
					"answer_written_after_ms": rec.tSent[0].Sub(c.t0).Milliseconds()}))
			default:
				e.w.Violation("call-failed@fault-free/"+c.errCls, wit(map[string]any{"error": c.err}))
			}
		}
		if c.ok && rec != nil && rec.action == "never" {
			// unreachable: a never-answered query has no fingerprints, handled above
			continue
		}
	}
	e.w.Count("status_polls", e.polls.Load())
	e.w.Count("status_polls_with_a_measured_round_trip", e.pollsRT.Load())
	for _, n := range hookPoints {
		e.hk.mu.Lock()
		k := e.hk.count[n]
		e.hk.mu.Unlock()
		e.w.Count("hook:"+n, k)
		if k > 0 {
			e.w.Seen("hook_points_reached", n)
		}
	}
}

// ---------------------------------------------------------------- scenarios

func (e *env) params() (g, workers int) {
	g = mon.Pick(e.rng, []int{1, 2, 3, 4, 8, 16, 32, 64})
	workers = e.rng.Range(1, 4)
	return
}

func mixPolicy(rng *mon.Rng) policy {
	p := policy{now: rng.Range(1, 6), delay: rng.Range(0, 4), batch: rng.Range(0, 6), twice: rng.Range(0, 3), many: rng.Range(0, 2), unknown: rng.Range(0, 3), junk: rng.Range(0, 3),
		maxDelay: time.Duration(rng.Range(2, 80)) * time.Millisecond, bigAnswers: rng.Chance(1, 3)}
	return p
}

// mix: the server answers everything, in adversarial order; every call must succeed with its own answer.
func scenarioMix(e *env) {
	g, workers := e.params()
	total := e.rng.Range(20, 2000)
	if e.sc.Idx%6 == 0 {
		g, workers = 64, 4 // the corner the statement names
	}
	per := max(total/g, 1)
	pol := mixPolicy(e.rng)
	pol.authJunk = true // harmless while the connection stays up; the reconnect scenarios leave it to the directed schedule
	if e.sc.Idx%3 == 1 {
		pol.many = max(pol.many, 2) // every third scenario is sure to see answers repeated more than twice
	}
	e.genPct = mon.Pick(e.rng, []int{0, 20, 50, 100})
	e.wit["goroutines"], e.wit["workers_per_connection"], e.wit["calls_per_goroutine"], e.wit["policy"] = g, workers, per, fmt.Sprintf("%+v", pol)
	if !e.setup(pol, workers, 5*time.Second) {
		return
	}
	e.runCallers(g, per, "fault-free", 0)
	e.w.Seen("shapes", fmt.Sprintf("g=%d/w=%d", g, workers))
	e.judge(map[string]bool{"fault-free": true})
}

// slow: the server answers every query, but only after more than tongo's 10 s
// silence window; meanwhile the connection carries nothing but pings and
// pongs. The statement lets the server delay its answers however it likes:
// every call must still return its own answer (client timeout 16 s), over the
// sessions that were there from the start.
func scenarioSlow(e *env) {
	workers := e.rng.Range(1, 2)
	pol := policy{delay: 1, minDelay: time.Duration(e.rng.Range(10800, 11800)) * time.Millisecond, maxDelay: 300 * time.Millisecond}
	g, per := e.rng.Range(1, 3), 1
	e.ctxPct = 0
	e.wit["goroutines"], e.wit["workers_per_connection"], e.wit["calls_per_goroutine"], e.wit["policy"] = g, workers, per, fmt.Sprintf("%+v", pol)
	if !e.setup(pol, workers, 16*time.Second) {
		return
	}
	e.runCallers(g, per, "fault-free", 0)
	e.w.Seen("shapes", fmt.Sprintf("slow/g=%d/w=%d", g, workers))
	e.judge(map[string]bool{"fault-free": true})
	e.w.Seen("slow_sessions_accepted_minus_connections", fmt.Sprint(int(e.srv.Accepted.Load())-workers))
	// the server never closed anything and produced an answer for every query within the client's
	// timeout: a call that failed anyway lost its answer on the client side (whether or not the
	// server's write still found an open socket)
	if e.worstSince(e.start) < time.Second {
		e.mu.Lock()
		for _, c := range e.calls {
			if c.done.Load() && !c.ok {
				e.w.Violation("call-failed@slow-answer/healthy-server/"+c.errCls, e.witness(map[string]any{"key": c.key, "error_class": c.errCls,
					"took_ms": c.t1.Sub(c.t0).Milliseconds(), "sessions_accepted": e.srv.Accepted.Load(), "connections": workers}))
				break
			}
		}
		e.mu.Unlock()
	} else {
		e.w.Inconclusive("slow-answer scenario on a stalled machine")
	}
}

// edge: every answer arrives right around the caller's deadline, so that "the answer is being
// delivered" and "the caller gives up" overlap again and again. Calls may succeed or time out;
// whichever call succeeds must carry the answer produced for its own query, and a late answer of
// one call must never surface in another.
func scenarioEdge(e *env) {
	timeout := time.Duration(e.rng.Range(20, 40)) * time.Millisecond
	pol := policy{delay: 2, many: 1, minDelay: timeout - 2*time.Millisecond, maxDelay: 4 * time.Millisecond}
	g, per := 16, e.rng.Range(100, 200)
	workers := e.rng.Range(1, 2)
	e.genPct = 0
	e.wit["goroutines"], e.wit["workers_per_connection"], e.wit["calls_per_goroutine"], e.wit["policy"], e.wit["timeout_ms"] = g, workers, per, fmt.Sprintf("%+v", pol), timeout.Milliseconds()
	if !e.setup(pol, workers, timeout) {
		return
	}
	e.runCallers(g, per, "answers-at-the-deadline", 0)
	e.w.Seen("shapes", fmt.Sprintf("edge/g=%d/w=%d", g, workers))
	e.afterEdge()
	e.judge(map[string]bool{})
	e.mu.Lock()
	okN, toN := 0, 0
	for _, c := range e.calls {
		if c.done.Load() && c.ok {
			okN++
		} else if c.done.Load() {
			toN++
		}
	}
	e.mu.Unlock()
	e.w.Count("edge_calls_answered_in_time", int64(okN))
	e.w.Count("edge_calls_timed_out", int64(toN))
}

// blockedTongoGoroutines lists the goroutines that sit in tongo code waiting to send on a channel
// or to take a lock (id -> innermost tongo function). An idle client has none: its goroutines wait
// for packets, timers and the socket.
func blockedTongoGoroutines() map[string]string {
	out := map[string]string{}
	for _, g := range strings.Split(dumpStacks(), "\n\n") {
		head, _, _ := strings.Cut(g, "\n")
		if !strings.HasPrefix(head, "goroutine ") || !(strings.Contains(head, "[chan send") || strings.Contains(head, "[sync.Mutex.Lock") || strings.Contains(head, "[semacquire")) {
			continue
		}
		for _, ln := range strings.Split(g, "\n") {
			if strings.HasPrefix(ln, "github.com/tonkeeper/tongo/") {
				f := strings.TrimPrefix(ln, "github.com/tonkeeper/tongo/")
				if i := strings.LastIndex(f, "("); i > 0 {
					f = f[:i]
				}
				out[strings.Fields(head)[1]] = f
				break
			}
		}
	}
	return out
}

// afterEdge: once the calls whose answers raced their deadlines are over, the server answers at
// once again and the client is idle. A few calls, one after the other, then show whether the
// client still delivers answers (no execution deadlocks): if most of them time out although the
// server wrote the answer at once, and a goroutine of the client sits blocked on a channel send or
// a lock in two dumps 300 ms apart, the client is stuck. The calls use the scenario's short client
// timeout, so single failures mean nothing and are only counted.
func (e *env) afterEdge() {
	if e.aborted.Load() {
		return
	}
	e.st.mu.Lock()
	e.st.pol = policy{now: 1, maxDelay: time.Millisecond}
	e.st.mu.Unlock()
	// stragglers of the first phase: wait until the client has worked off what the server sent (no hook
	// event for 200 ms), and stop slowing its goroutines down at the hook points
	e.hk.enabled.Store(false)
	for i, last, still := 0, e.hk.pos(), 0; i < 300 && still < 4; i++ {
		time.Sleep(50 * time.Millisecond)
		if p := e.hk.pos(); p == last {
			still++
		} else {
			last, still = p, 0
		}
	}
	rng := e.fork("after-edge", 0)
	n, lost := 12*e.workers, 0
	t0 := time.Now()
	for k := 0; k < n && !e.aborted.Load(); k++ {
		c := e.doCall(rng, 0, k, "after-edge")
		if c.ok {
			continue
		}
		e.st.mu.Lock()
		rec := e.st.log[c.key]
		if c.errCls == "timeout" && rec != nil && len(rec.tSent) > 0 && rec.tSent[0].Sub(c.t0) < c.timeout/4 {
			lost++
		}
		e.st.mu.Unlock()
	}
	e.w.Count("after_edge_calls", int64(n))
	e.w.Count("after_edge_calls_timed_out_although_answered_at_once", int64(lost))
	if lost < 10 {
		return
	}
	// blocked for good, not busy: the same goroutines at the same place 300 ms later, and not a single
	// hook point passed in between
	var b1, b2 map[string]string
	for try := 0; ; try++ {
		p1 := e.hk.pos()
		b1 = blockedTongoGoroutines()
		time.Sleep(300 * time.Millisecond)
		b2 = blockedTongoGoroutines()
		if e.hk.pos() == p1 {
			break
		}
		if try == 3 { // a ping now and then passes hook points too; four times in a row it is traffic
			e.w.Count("after_edge_failures_while_the_client_was_busy", 1)
			return
		}
	}
	var parked []string
	seen := map[string]bool{}
	for id, f := range b1 {
		if b2[id] == f && !seen[f] {
			seen[f] = true
			parked = append(parked, f)
		}
	}
	sort.Strings(parked)
	if len(parked) == 0 {
		e.w.Count("after_edge_failures_without_a_blocked_goroutine", 1)
		return
	}
	if late := e.worstSince(t0); late > lateLimit {
		e.w.Inconclusive("calls after the deadline phase failed on a stalled machine")
		return
	}
	e.w.Violation("client-stuck@after-answers-at-the-deadline/"+strings.Join(parked, "+"), e.witness(map[string]any{"calls": n, "timed_out_although_answered_at_once": lost,
		"blocked_in": parked, "tongo_goroutines": tongoStacks(dumpStacks())}))
}

// deadline: a share of the queries is never answered; those calls must come
// back with an error by timeout + slack, the others with their own answer.
func scenarioDeadline(e *env) {
	g, workers := e.params()
	if g > 16 {
		g = 16
	}
	timeout := time.Duration(e.rng.Range(300, 500)) * time.Millisecond
	pol := mixPolicy(e.rng)
	pol.maxDelay = 40 * time.Millisecond
	pol.never = (pol.now + pol.delay + pol.batch + pol.twice + pol.many + pol.unknown + pol.junk + 2) / 3
	pol.bigAnswers = false
	e.genPct = mon.Pick(e.rng, []int{0, 30})
	per := e.rng.Range(4, 14)
	e.wit["goroutines"], e.wit["workers_per_connection"], e.wit["calls_per_goroutine"], e.wit["policy"] = g, workers, per, fmt.Sprintf("%+v", pol)
	if !e.setup(pol, workers, timeout) {
		return
	}
	e.runCallers(g, per, "some-never-answered", 0)
	e.w.Seen("shapes", fmt.Sprintf("g=%d/w=%d", g, workers))
	e.judge(map[string]bool{"some-never-answered": true})
	// what the deadline monitor saw
	e.mu.Lock()
	var worst time.Duration
	nNever := 0
	for _, c := range e.calls {
		if c.done.Load() && !c.ok && c.errCls == "timeout" {
			nNever++
			if d := c.t1.Sub(c.t0) - c.timeout; d > worst {
				worst = d
			}
		}
	}
	e.mu.Unlock()
	e.w.Count("deadline_checked_calls", int64(nNever))
	if nNever > 0 {
		e.w.Seen("deadline_worst_overshoot_ms", fmt.Sprintf("%d", (worst.Milliseconds()/50)*50))
	}
}

// recovery watches one fault round: callers report their calls, and the round
// is recovered once 2*connections consecutive calls, all issued after the
// server again held one live session per client connection, have succeeded.
type recovery struct {
	e        *env
	phase    string
	need     int64
	stop     chan struct{}
	stopOnce sync.Once
	consec   atomic.Int64
	tAccept  atomic.Int64 // unix nanos; 0 = server not accepting yet
	// unix nanos of the moment the server again holds one live session per client connection; only
	// calls issued after it count (before, quick successes over the surviving connections would
	// outrun the slow failures of the dead one)
	tAllUp    atomic.Int64
	recovered chan struct{}
	recOnce   sync.Once
	wg        sync.WaitGroup
}

func (e *env) newRecovery(phase string) *recovery {
	rc := &recovery{e: e, phase: phase, need: int64(2 * e.workers), stop: make(chan struct{}), recovered: make(chan struct{})}
	go func() {
		for !e.aborted.Load() {
			select {
			case <-rc.stop:
				return
			case <-time.After(10 * time.Millisecond):
			}
			if rc.tAccept.Load() != 0 && len(e.srv.Peers()) >= e.workers {
				rc.tAllUp.Store(time.Now().UnixNano())
				return
			}
		}
	}()
	return rc
}

func (rc *recovery) halt() { rc.stopOnce.Do(func() { close(rc.stop) }) }

func (rc *recovery) startCallers(n int) {
	for i := 0; i < n; i++ {
		rc.wg.Add(1)
		go func(i int) {
			defer rc.wg.Done()
			e := rc.e
			rng := e.fork(rc.phase, i)
			for k := 0; !e.aborted.Load(); k++ {
				select {
				case <-rc.stop:
					return
				default:
				}
				c := e.doCall(rng, i, k, rc.phase)
				if ta := rc.tAllUp.Load(); ta != 0 && c.t0.UnixNano() > ta {
					if c.ok {
						if rc.consec.Add(1) >= rc.need {
							rc.recOnce.Do(func() { close(rc.recovered) })
						}
					} else {
						rc.consec.Store(0)
					}
				}
				time.Sleep(time.Duration(rng.Range(1, 40)) * time.Millisecond)
			}
		}(i)
	}
}

// await implements monitor (4): bounded progress after the server accepts again at tOK.
func (rc *recovery) await(tClose, tOK time.Time, class string, sessionsBefore int64, round int) bool {
	e := rc.e
	select {
	case <-rc.recovered:
		e.w.Count("recoveries", 1)
		e.w.Seen("recovery_time_s", fmt.Sprintf("%d", int(time.Since(tOK).Seconds())))
		ok, ret := e.isOK()
		if !ret {
			rc.halt()
			return false
		}
		if !ok {
			e.w.Violation("IsOK-false@after-recovery", e.witness(map[string]any{"round": round}))
		}
		rc.halt()
		e.waitOrAbort(&rc.wg)
		return !e.aborted.Load()
	case <-e.abortCh:
		rc.halt()
		return false
	case <-time.After(progressT - time.Since(tOK)):
		late := e.worstSince(tClose)
		select {
		case <-rc.recovered: // recovered during the grace period; the bound is not meant to be that sharp
			rc.halt()
			e.waitOrAbort(&rc.wg)
			return !e.aborted.Load()
		default:
		}
		dump := dumpStacks()
		rc.halt()
		if late > lateLimit {
			e.w.Inconclusive("no recovery within the progress bound on a loaded machine")
		} else {
			e.mu.Lock()
			errs := map[string]int{}
			for _, c := range e.calls {
				if c.done.Load() && c.phase == rc.phase && !c.ok && c.t0.After(tOK) {
					errs[c.errCls]++
				}
			}
			e.mu.Unlock()
			parked := append(parkedFrames(dump, "liteclient.(*Connection).reconnect"), parkedFrames(dump, "liteclient.(*Connection).reader")...)
			e.w.Violation("no-progress-after-reconnect@"+class, e.witness(map[string]any{"round": round, "bound_s": progressT.Seconds(),
				"errors_since_server_accepts": errs, "sessions_since_fault": e.srv.Accepted.Load() - sessionsBefore, "consecutive_successes_needed": rc.need,
				"live_sessions_at_server": len(e.srv.Peers()), "all_connections_back": rc.tAllUp.Load() != 0, "tongo_parked_in": parked,
				"tongo_goroutines": tongoStacks(dump)}))
		}
		e.abort()
		return false
	}
}

// slow-handshake: the server accepts the TCP connection of a reconnecting client at once but holds
// back its handshake answer for some seconds; calls made in the meantime come back by their deadline
var refuseModes = []string{"none", "turn-away", "stop-listening", "drop-after-handshake", "slow-handshake"}

// reconnect: healthy phase, then the server drops connections (while calls are
// in flight, or while idle) and possibly turns clients away for a while; after
// it accepts again the client must be usable within the progress bound.
func scenarioReconnect(e *env) {
	g, workers := e.params()
	if g > 16 {
		g = 16
	}
	timeout := time.Duration(e.rng.Range(800, 1500)) * time.Millisecond
	pol := mixPolicy(e.rng)
	pol.maxDelay = 30 * time.Millisecond
	pol.bigAnswers = false
	e.genPct = mon.Pick(e.rng, []int{0, 30})
	variant := []string{"mid-request", "idle"}[e.sc.Idx%2]
	refuse := mon.Pick(e.rng, refuseModes)
	if e.sc.Idx < 8 {
		refuse = refuseModes[(e.sc.Idx/2+e.sc.Idx%2)%4] // the first scenarios walk through every variant x refusal pairing once
	}
	refuseFor := time.Duration(e.rng.Range(300, 2500)) * time.Millisecond
	if e.sc.Idx%8 == 4 {
		// a long outage: the server stays away for longer than any one dial attempt may take, the
		// client has to keep retrying and come back once the server does
		refuse = []string{"stop-listening", "turn-away"}[(e.sc.Idx/8)%2]
		refuseFor = time.Duration(e.rng.Range(6500, 9000)) * time.Millisecond
	}
	abrupt := e.rng.Bool()
	onlyOne := workers > 1 && e.rng.Chance(1, 3)
	rounds := 1
	if e.w.Thorough() && e.rng.Chance(1, 3) {
		rounds = 2
	}
	// the first scenarios also make sure of: a connection that is lost twice (two fault rounds; sessions
	// dropped again right after they were re-established), a reset instead of an orderly close, and
	// one lost connection among several
	minDrop := 1
	switch e.sc.Idx {
	case 0:
		workers, onlyOne = max(workers, 2), true
	case 1:
		abrupt = true
	case 2:
		rounds = 2
	case 3:
		abrupt = false
	case 5, 6:
		refuse, minDrop = "drop-after-handshake", 2
	case 7:
		refuse, variant = "slow-handshake", "mid-request"
	}
	if refuse == "slow-handshake" {
		// well beyond timeout + slack, so that a call that waits for the handshake is told from one that merely fails
		refuseFor = time.Duration(e.rng.Range(4000, 6000)) * time.Millisecond
		timeout = time.Duration(e.rng.Range(400, 800)) * time.Millisecond
	}
	e.wit["goroutines"], e.wit["workers_per_connection"], e.wit["variant"], e.wit["refuse"], e.wit["refuse_ms"], e.wit["rst"], e.wit["only_one_connection"] =
		g, workers, variant, refuse, refuseFor.Milliseconds(), abrupt, onlyOne
	if !e.setup(pol, workers, timeout) {
		return
	}
	must := map[string]bool{"healthy-0": true}
	e.runCallers(g, e.rng.Range(3, 10), "healthy-0", 0)
	for r := 1; r <= rounds && !e.aborted.Load(); r++ {
		rc := e.newRecovery(fmt.Sprintf("fault-%d", r))
		if variant == "mid-request" {
			rc.startCallers(g)
			time.Sleep(time.Duration(e.rng.Range(50, 300)) * time.Millisecond)
		}
		// the fault
		sessionsBefore := e.srv.Accepted.Load()
		switch refuse {
		case "turn-away":
			e.srv.TurnAway(true)
		case "stop-listening":
			e.srv.StopListening()
		case "slow-handshake":
			e.srv.SetHandshakeDelay(refuseFor)
		case "drop-after-handshake":
			e.st.mu.Lock()
			e.st.dropAfter = e.rng.Range(minDrop, 3)
			e.st.mu.Unlock()
		}
		tClose := time.Now()
		if onlyOne {
			if ps := e.srv.Peers(); len(ps) > 0 {
				p := ps[e.rng.Intn(len(ps))]
				if abrupt {
					p.CloseAbruptly()
				} else {
					p.Close()
				}
			}
		} else {
			e.srv.ClosePeers(abrupt)
		}
		class := fmt.Sprintf("%s/refuse=%s", variant, refuse)
		e.w.Seen("faults", fmt.Sprintf("%s/rst=%v/one=%v", class, abrupt, onlyOne))
		e.w.Seen("fault_rounds_on_one_client", fmt.Sprint(r))
		if refuse == "turn-away" || refuse == "stop-listening" || refuse == "slow-handshake" {
			time.Sleep(refuseFor)
			if refuse == "slow-handshake" {
				e.srv.SetHandshakeDelay(0)
				e.w.Count("handshakes_held_back_by_the_server", e.srv.SlowHandshakes.Load())
			} else if refuse == "turn-away" {
				e.srv.TurnAway(false)
			} else if err := e.srv.ResumeListening(); err != nil {
				e.w.Inconclusive("listening port was taken while the server refused connections")
				rc.halt()
				e.abort()
				return
			}
		}
		tOK := time.Now()
		if variant == "idle" {
			// nothing but the client's own pings can notice the dead socket: two ping periods to get a
			// write error, one retry period, plus the handshake. Only then do calls start.
			for time.Since(tOK) < 2*pingPeriod+1500*time.Millisecond && !e.aborted.Load() {
				if _, ret := e.isOK(); !ret {
					rc.halt()
					return
				}
				time.Sleep(100 * time.Millisecond)
			}
			if e.srv.Accepted.Load() > sessionsBefore {
				e.w.Seen("reconnect_trigger", "ping write failure (no calls issued)")
			} else {
				e.w.Seen("reconnect_trigger", "first calls after the idle period")
			}
			rc.tAccept.Store(time.Now().UnixNano())
			rc.startCallers(min(g, 4))
		} else {
			rc.tAccept.Store(tOK.UnixNano())
		}
		if !rc.await(tClose, tOK, class, sessionsBefore, r) {
			return
		}
		healthy := fmt.Sprintf("healthy-%d", r)
		must[healthy] = true
		e.runCallers(g, e.rng.Range(3, 10), healthy, 0)
	}
	e.w.Seen("shapes", fmt.Sprintf("g=%d/w=%d", g, workers))
	e.judge(must)
}

// idle twice: nobody calls the client while the server closes its connections, twice in a row with
// a quiet spell in between. "The client reconnects by itself": with no call issued, the server must
// hold one live session per client connection again within the progress bound after each close
// (only the client's own pings can notice a dead socket), and the calls issued after that succeed.
func scenarioIdleTwice(e *env) {
	workers := e.rng.Range(1, 2)
	timeout := time.Duration(e.rng.Range(800, 1500)) * time.Millisecond
	pol := mixPolicy(e.rng)
	pol.maxDelay, pol.bigAnswers = 30*time.Millisecond, false
	e.genPct = mon.Pick(e.rng, []int{0, 30})
	abrupt := e.sc.Idx%2 == 1
	e.wit["workers_per_connection"], e.wit["rst"] = workers, abrupt
	if !e.setup(pol, workers, timeout) {
		return
	}
	must := map[string]bool{"healthy-0": true}
	e.runCallers(2, e.rng.Range(3, 8), "healthy-0", 0)
	for round := 1; round <= 2 && !e.aborted.Load(); round++ {
		// a quiet spell first: the second close hits a session that the client set up by itself and
		// that has carried nothing but its own pings for a while
		time.Sleep(time.Duration(e.rng.Range(500, 4000)) * time.Millisecond)
		before := e.srv.Accepted.Load()
		tClose := time.Now()
		e.srv.ClosePeers(abrupt)
		e.w.Seen("faults", fmt.Sprintf("idle-twice/close-%d/rst=%v", round, abrupt))
		back := false
		for time.Since(tClose) < progressT && !e.aborted.Load() {
			if e.srv.Accepted.Load() >= before+int64(e.workers) && len(e.srv.Peers()) >= e.workers {
				back = true
				break
			}
			time.Sleep(50 * time.Millisecond)
		}
		if e.aborted.Load() {
			return
		}
		if !back {
			if late := e.worstSince(tClose); late > lateLimit {
				e.w.Inconclusive("no reconnect within the progress bound on a loaded machine")
			} else {
				dump := dumpStacks()
				e.w.Violation(fmt.Sprintf("not-reconnected-by-itself@idle/close-%d", round), e.witness(map[string]any{"bound_s": progressT.Seconds(), "calls_issued_since_the_close": 0,
					"sessions_since_the_close": e.srv.Accepted.Load() - before, "live_sessions_at_server": len(e.srv.Peers()), "connections": e.workers, "tongo_goroutines": tongoStacks(dump)}))
			}
			e.judge(must)
			return
		}
		e.w.Seen("self_reconnect_time_s", fmt.Sprintf("close-%d: %d", round, int(time.Since(tClose).Seconds())))
		e.w.Count("reconnects_without_any_call", 1)
		time.Sleep(100 * time.Millisecond) // the client marks the connection usable right after the handshake
		phase := fmt.Sprintf("healthy-%d", round)
		must[phase] = true
		e.runCallers(2, e.rng.Range(3, 8), phase, 0)
	}
	e.w.Seen("shapes", fmt.Sprintf("idle-twice/w=%d", workers))
	e.judge(must)
}

// directed schedule: the server interleaves a tcp.authentificationNonce (an
// unrelated packet: the client never asked to authenticate) and then closes
// the connection and turns clients away for a while. The hook callback holds
// tongo's connection reader between receiving that packet and handling it
// until the client has entered reconnect() - an interleaving the scheduler
// can produce on its own whenever the reader is preempted there. Afterwards
// the usual bounded-progress monitor applies.
func scenarioAuthNonce(e *env) {
	pol := policy{now: 1, maxDelay: time.Millisecond}
	e.genPct = 0
	for _, n := range hookPoints { // no random perturbation here: the schedule is scripted
		e.hk.yieldP[n], e.hk.sleepP[n] = 0, 0
	}
	e.wit["directed"] = "reader holds a server-sent tcp.authentificationNonce until reconnect() has been entered; server closes the connection and turns clients away for 1.5 s"
	if !e.setup(pol, 1, time.Second) {
		return
	}
	e.runCallers(2, 5, "healthy-0", 0)
	var armed atomic.Bool
	entered := make(chan struct{})
	var once sync.Once
	var held atomic.Int64
	e.hk.setDirected(func(name string) {
		switch name {
		case "conn.reconnect.entry":
			once.Do(func() { close(entered) })
		case "conn.reader.packet":
			if armed.Load() {
				held.Add(1)
				select {
				case <-entered:
					time.Sleep(60 * time.Millisecond) // reconnect() has set status=Connecting and is being turned away
				case <-time.After(20 * time.Second):
				}
			}
		}
	})
	rc := e.newRecovery("fault-1")
	sessionsBefore := e.srv.Accepted.Load()
	e.srv.TurnAway(true)
	armed.Store(true)
	tClose := time.Now()
	for _, p := range e.srv.Peers() {
		nonce := append(append([]byte{}, adnl.MagicAuthNonce...), adnl.TLBytes(e.rng.Bytes(32))...)
		p.Send(e.st.nonce(), nonce)
	}
	time.Sleep(50 * time.Millisecond) // the client reads the packet before the FIN
	e.srv.ClosePeers(false)
	rc.startCallers(2) // their writes fail -> reconnect()
	time.Sleep(1500 * time.Millisecond)
	armed.Store(false)
	e.srv.TurnAway(false)
	tOK := time.Now()
	rc.tAccept.Store(tOK.UnixNano())
	e.w.Seen("faults", "directed: unsolicited tcp.authentificationNonce handled while reconnecting")
	e.w.Count("directed_reader_holds", held.Load())
	select {
	case <-entered:
		e.w.Seen("directed_schedule", "reconnect entered while the reader held the packet")
	default:
		e.w.Seen("directed_schedule", "reconnect not entered within the refusal window")
	}
	if !rc.await(tClose, tOK, "directed/auth-nonce-while-reconnecting", sessionsBefore, 1) {
		return
	}
	e.runCallers(2, 5, "healthy-1", 0)
	e.judge(map[string]bool{"healthy-0": true, "healthy-1": true})
}

// tongoGoroutines counts live goroutines by the tongo function found in their stacks.
func tongoGoroutines() (map[string]int, int) {
	var buf bytes.Buffer
	pprof.Lookup("goroutine").WriteTo(&buf, 1)
	out := map[string]int{}
	total := 0
	for _, blk := range strings.Split(buf.String(), "\n\n") {
		lines := strings.Split(blk, "\n")
		// the profile starts with a header line; the group right behind it is the most numerous one
		if len(lines) > 0 && strings.HasPrefix(lines[0], "goroutine profile:") {
			lines = lines[1:]
		}
		if len(lines) == 0 {
			continue
		}
		var n int
		if _, err := fmt.Sscanf(lines[0], "%d @", &n); err != nil {
			continue
		}
		total += n
		for _, ln := range lines[1:] {
			if i := strings.Index(ln, "github.com/tonkeeper/tongo/"); i >= 0 {
				f := strings.Fields(ln[i:])[0]
				if j := strings.Index(f, "+0x"); j > 0 {
					f = f[:j]
				}
				out[strings.TrimPrefix(f, "github.com/tonkeeper/tongo/")] += n
				break
			}
		}
	}
	return out, total
}

// growth: the number of goroutines inside tongo after 10x more calls equals the number after the first batch.
func scenarioGrowth(e *env) {
	g, workers := mon.Pick(e.rng, []int{2, 4, 8}), e.rng.Range(1, 4)
	timeout := 250 * time.Millisecond
	pol := mixPolicy(e.rng)
	pol.maxDelay = 20 * time.Millisecond
	pol.never = 1
	pol.now += 8
	pol.bigAnswers = false
	e.genPct = 20
	// no status poller here (its goroutine would be counted while it is inside tongo); one call in four
	// comes with a context of the caller's, and 4 of 10 of those contexts are already over when the call is made
	e.poll, e.ctxPct, e.ctxDonePct = false, 25, 40
	first := 200 / g
	e.wit["goroutines"], e.wit["workers_per_connection"], e.wit["first_batch"], e.wit["second_batch"] = g, workers, first*g, 10*first*g
	if !e.setup(pol, workers, timeout) {
		return
	}
	quiesce := func() (map[string]int, int) {
		var m map[string]int
		var tot int
		prev := -1
		for i := 0; i < 40; i++ { // until two consecutive equal readings, at most 4 s
			time.Sleep(timeout/2 + 50*time.Millisecond)
			m, tot = tongoGoroutines()
			s := 0
			for _, n := range m {
				s += n
			}
			if s == prev {
				break
			}
			prev = s
		}
		return m, tot
	}
	e.runCallers(g, first, "batch-1", 0)
	m1, tot1 := quiesce()
	e.runCallers(g, 10*first, "batch-2", 0)
	m2, tot2 := quiesce()
	s1, s2 := 0, 0
	for _, n := range m1 {
		s1 += n
	}
	for _, n := range m2 {
		s2 += n
	}
	e.w.Eval(fmt.Sprintf("growth/%d/%d/%d", e.sc.Idx, g, workers))
	e.w.Seen("goroutines_in_tongo_after_batches", fmt.Sprintf("w=%d: %d -> %d", workers, s1, s2))
	e.w.Count("growth_comparisons", 1)
	if s2 > s1 && e.pr.worst(e.start, time.Now()) > stallLimit {
		// a stall makes tongo's silence timer reconnect; goroutines of the old connection are another matter
		e.w.Inconclusive("goroutine comparison after a process stall")
	} else if s2 > s1 {
		e.w.Violation("goroutine-growth@"+growthSite(m1, m2), e.witness(map[string]any{"after_first_batch": m1, "after_10x_more": m2, "all_goroutines": []int{tot1, tot2}}))
	}
	e.judge(map[string]bool{"batch-1": true, "batch-2": true})
}

func growthSite(a, b map[string]int) string {
	var out []string
	for f, n := range b {
		if n > a[f] {
			out = append(out, f)
		}
	}
	sort.Strings(out)
	return strings.Join(out, "+")
}

// quietTongo keeps tongo's own chatter (fmt.Printf on reconnect errors, slog
// on unknown query ids) out of the child's output, so that a runtime fatal
// error is the first thing in it.
func quietTongo() {
	if f, err := os.OpenFile(os.DevNull, os.O_WRONLY, 0); err == nil {
		os.Stdout = f
	}
	slog.SetDefault(slog.New(slog.NewTextHandler(io.Discard, nil)))
}

func runScenario(w *mon.Worker) {
	var sc scenario
	if err := json.Unmarshal(w.Job, &sc); err != nil {
		w.HarnessError("bad job: " + err.Error())
		return
	}
	quietTongo()
	rng := w.Rng(sc.Kind, sc.Idx)
	e := &env{w: w, sc: sc, rng: rng, pr: startProbe(), active: map[*call]struct{}{}, abortCh: make(chan struct{}),
		wit: map[string]any{"scenario": sc.Kind, "index": sc.Idx, "seed": w.Seed}, start: time.Now(), poll: true, ctxPct: 15, ctxDonePct: 15}
	e.id = adnl.NewIdentity(rng.Bytes(32))
	e.hk = installHooks(rng.Fork("hooks", 0))
	e.wit["hook_yield_1_in"], e.wit["hook_sleep_1_in"] = e.hk.yieldP, e.hk.sleepP
	w.Begin(fmt.Sprintf("%s#%d", sc.Kind, sc.Idx), nil)
	switch sc.Kind {
	case "mix":
		scenarioMix(e)
	case "deadline":
		scenarioDeadline(e)
	case "reconnect":
		scenarioReconnect(e)
	case "growth":
		scenarioGrowth(e)
	case "directed":
		scenarioAuthNonce(e)
	case "idletwice":
		scenarioIdleTwice(e)
	case "slow":
		scenarioSlow(e)
	case "edge":
		scenarioEdge(e)
	default:
		w.HarnessError("unknown scenario " + sc.Kind)
	}
	w.Count("scenarios:"+sc.Kind, 1)
	e.abort() // stops the watchdog
	w.End()
}

// ---------------------------------------------------------------- race logs

type raceReport struct {
	Text    string
	Owners  [2]string
	TopFunc [2]string
}

func parseRaceLogs(dir string) (reports []raceReport) {
	files, _ := filepath.Glob(filepath.Join(dir, "race.*"))
	for _, fn := range files {
		b, err := os.ReadFile(fn)
		if err != nil {
			continue
		}
		for _, blk := range strings.Split(string(b), "==================") {
			if !strings.Contains(blk, "WARNING: DATA RACE") {
				continue
			}
			r := raceReport{Text: strings.TrimSpace(blk)}
			sec := -1
			for _, ln := range strings.Split(blk, "\n") {
				switch {
				case strings.HasPrefix(ln, "Goroutine "):
					sec = 99
				case strings.Contains(ln, " at 0x") && strings.Contains(ln, " by ") && !strings.HasPrefix(ln, " "):
					sec++
				case sec >= 0 && sec < 2 && strings.HasPrefix(ln, "  ") && !strings.HasPrefix(ln, "   ") && r.Owners[sec] == "":
					fn := strings.TrimSpace(ln)
					if i := strings.LastIndex(fn, "("); i > 0 {
						fn = fn[:i]
					}
					switch {
					case strings.Contains(fn, "github.com/tonkeeper/tongo/"):
						r.Owners[sec], r.TopFunc[sec] = "tongo", strings.TrimPrefix(fn, "github.com/tonkeeper/tongo/")
					case strings.HasPrefix(fn, "main.") || strings.HasPrefix(fn, "verifharness/"):
						r.Owners[sec], r.TopFunc[sec] = "harness", fn
					}
				}
			}
			reports = append(reports, r)
		}
	}
	return
}

func judgeRaces(R *mon.Run, dir string) {
	reps := parseRaceLogs(dir)
	R.Count("race_reports", int64(len(reps)))
	seen := map[string]bool{}
	for _, r := range reps {
		fs := []string{r.TopFunc[0], r.TopFunc[1]}
		sort.Strings(fs)
		key := strings.Join(fs, "+")
		if seen[key] {
			continue
		}
		seen[key] = true
		if r.Owners[0] == "tongo" && r.Owners[1] == "tongo" {
			R.Violation("data-race@"+key, map[string]any{"report": mon.Trunc(r.Text, 8000)})
		} else {
			R.HarnessError("race report involving harness code (%s): %s", key, mon.Trunc(r.Text, 1500))
		}
	}
	R.Extra("distinct_race_reports", len(seen))
}

// ---------------------------------------------------------------- main

func main() {
	if mon.IsWorker() {
		mon.WorkerMain(map[string]func(*mon.Worker){"scenario": runScenario})
	}
	tier := "quick"
	if len(os.Args) > 1 {
		tier = os.Args[1]
	}
	R := mon.Start("C12", tier)
	R.Rule = "one evaluation per Client call (raw Request or generated LiteServerGetLibraries) issued by 1..64 goroutines over 1..4 connections against the reference ADNL server with a seed-driven adversarial answer scheduler " +
		"(now / delayed / permuted coalesced batches / twice / the same answer 2..8 times at once, also right at the caller's deadline / preceded by an answer to an unknown id / surrounded by pongs and junk / never; connections closed mid-request or idle, with FIN or RST, all or one, once or twice per client, also twice in a row on an idle client (nobody calls; the sessions must come back by themselves within the progress bound); clients turned away, listener closed, sessions dropped again right after they were re-established, or the handshake answer of a reconnecting client held back for 4-6 s while calls go on; every other session starts with unrelated packets in the same write as the handshake confirmation); " +
		"about one call in seven is made with a context of the caller's (deadline later or earlier than the client's timeout, cancelled in flight, already cancelled / expired on entry): the call is over by min(client timeout, caller's deadline or cancellation); requests and answers also take the lengths 253..257 around the TL length-prefix boundary; a status poller calls Client.AverageRoundTrip and IsOK next to the callers; " +
		"every call carries a unique key and every answer the server produced is logged under it, so a successful call is compared with the answers produced for its own query id; distinct = distinct calls. " +
		"Monitors: own answer; success in fault-free phases (a timeout counts when the server wrote the answer within timeout-2 s, or within half the timeout for timeouts below 4 s while the load probe saw nothing); return by allowed time+2 s (load-aware; +300 ms while the load probe saw nothing at all); after the answers-at-the-deadline phase sequential calls must still get through (client stuck = most of them lost and a client goroutine blocked on a channel send / lock in two dumps); 2*connections consecutive successes and IsOK within 45 s of the server accepting again; goroutines inside tongo equal after 10x more calls; 60 s watchdog; race detector; interleavings = distinct sequences of hook events (first 24) observed while a call was in flight"
	R.Assume("the Go scheduler under -race with yields/sleeps (0-2 ms) injected at the five liteclient hook points is the only source of interleavings; schedules it never produces are not covered")
	R.Assume("reference server harness/ref/adnl is correct (self-check + C11)")
	R.Assume("'reconnects within a bounded time' is decided as: within 45 s of the server accepting connections again, 2*connections consecutive calls succeed and IsOK() is true")
	if err := adnl.SelfCheck(); err != nil {
		R.HarnessError("reference ADNL model failed its self-check: %v", err)
		os.Exit(R.Finish())
	}
	raceDir, err := os.MkdirTemp("", "verif-c12-race-")
	if err != nil {
		R.HarnessError("mkdtemp: %v", err)
		os.Exit(R.Finish())
	}
	defer os.RemoveAll(raceDir)

	var jobs []mon.Job
	add := func(kind string, n int) {
		for i := 0; i < n; i++ {
			jobs = append(jobs, mon.Job{Name: "scenario", Input: scenario{Kind: kind, Idx: i}})
		}
	}
	// reconnect scenarios first: they are the long ones (tongo's 3 s ping / 1 s retry timers)
	add("idletwice", R.N(1, 4))
	add("slow", R.N(1, 6))
	add("edge", R.N(2, 30))
	add("reconnect", R.N(8, 40))
	add("directed", R.N(1, 2))
	add("growth", R.N(1, 10))
	add("deadline", R.N(3, 50))
	add("mix", R.N(6, 200))
	R.RunJobs(jobs, mon.ChildOpts{Parallel: 12, Timeout: 6 * time.Minute,
		Env: []string{"GORACE=halt_on_error=0 exitcode=0 log_path=" + filepath.Join(raceDir, "race")}},
		func(c mon.Crash) {
			if c.TimedOut {
				R.Inconclusive("child watchdog (6 min) at " + c.Case)
				return
			}
			R.Violation("process-died@"+mon.FatalClass(c.Stderr), map[string]any{"case": c.Case, "exit": c.ExitInfo, "stderr": c.Stderr})
		})
	judgeRaces(R, raceDir)
	for _, n := range hookPoints {
		_ = n
	}
	if got := R.SetSize("hook_points_reached"); got != len(hookPoints) {
		R.HarnessError("only %d of the %d liteclient hook points were reached (is the tree built with the hook patch and -tags verif?)", got, len(hookPoints))
	}
	R.Extra("distinct_hook_event_orderings", R.SetSize("interleavings"))
	os.Exit(R.Finish())
}
