// C07 — parsing untrusted BOC bytes never crashes and yields sound cells.
// Oracles: panic monitor (recover), fatal monitor (child exit status +
// pending input), CPU and allocation meters, structural soundness walker.
// See DESIGN.md §5 C07.
package main

import (
	"encoding/base64"
	"encoding/binary"
	"encoding/hex"
	"encoding/json"
	"fmt"
	"hash/crc32"
	"os"
	"strings"
	"time"

	tboc "github.com/tonkeeper/tongo/boc"

	"verifharness/gen"
	"verifharness/mon"
	rboc "verifharness/ref/boc"
	"verifharness/ref/cell"
	"verifharness/ref/realdata"
)

const (
	allocBase    = 64 << 10 // bytes
	allocPerByte = 1 << 10
	cpuBound     = 20.0 // seconds per input
	// a case that has used this much process CPU without returning is reported by the worker's
	// watchdog as a loop (three times the bound that is a violation anyway once the call returns)
	caseCPULimit = 60.0
	// CPU seconds one job (child process) may spend in Cell.ToString before it stops printing
	toStringJobBudget = 45.0
)

// ---------------------------------------------------------------- corpus

type seedBoc struct {
	Name string
	B    []byte
}

func corpus(seed uint64, repo string) []seedBoc {
	var out []seedBoc
	rng := mon.NewRng(seed ^ 0xc07c07)
	// 40 small own outputs over all header variants
	for i := 0; i < 40; i++ {
		r := rng.Fork("small", i)
		var root *cell.Cell
		for tries := 0; ; tries++ {
			root = gen.RandomDag(r, gen.DagOpts{Nodes: r.Range(1, 5), Exotic: i%2 == 1, SmallBits: true})
			o := rboc.Options{}
			switch i % 5 {
			case 1:
				o.Index, o.CRC = true, true
			case 2:
				o.Index, o.CacheBits = true, true
			case 3:
				o.Magic = rboc.MagicIdx
			case 4:
				o.Magic = rboc.MagicIdxCRC
			}
			if i%7 == 3 {
				o.WithHashes = func(int, *cell.Cell) bool { return true }
			}
			b, err := rboc.Write([]*cell.Cell{root}, o)
			if err == nil && (len(b) <= 256 || tries > 20) {
				out = append(out, seedBoc{fmt.Sprintf("small%02d", i), b})
				break
			}
		}
	}
	for i := 0; i < 3; i++ {
		r := rng.Fork("mid", i)
		root := gen.RandomDag(r, gen.DagOpts{Nodes: 100, Exotic: true})
		b, _ := rboc.Write([]*cell.Cell{root}, rboc.Options{Index: i == 1, CRC: i == 2})
		out = append(out, seedBoc{fmt.Sprintf("mid%d", i), b})
	}
	files, _ := realdata.Files(repo, true)
	for _, f := range files {
		if strings.HasPrefix(f.Name, "wallet/") && !strings.HasSuffix(f.Name, "#0") && !strings.HasSuffix(f.Name, "#9") {
			continue
		}
		out = append(out, seedBoc{"real:" + f.Name, f.Bytes})
	}
	return out
}

// ---------------------------------------------------------------- adversarial headers

type rawCell struct {
	d1, d2 byte
	pre    []byte // stored hashes region (with_hashes)
	data   []byte
	refs   []uint64
}

type rawBoc struct {
	magic    uint32
	flagByte int // -1 = derive
	size     int
	off      int
	cells    uint64
	roots    uint64
	absent   uint64
	tot      uint64
	rootList []uint64
	hasIdx   bool
	index    []uint64
	cellsRaw []rawCell
	crc      int // 0 none, 1 correct, 2 wrong
	trailing []byte
	cache    bool
}

func putN(b []byte, v uint64, n int) []byte {
	for i := n - 1; i >= 0; i-- {
		if i >= 8 {
			b = append(b, 0)
		} else {
			b = append(b, byte(v>>(8*uint(i))))
		}
	}
	return b
}

func (r *rawBoc) cellData(refSize int) ([]byte, []uint64) {
	var d []byte
	var ends []uint64
	for _, c := range r.cellsRaw {
		d = append(d, c.d1, c.d2)
		d = append(d, c.pre...)
		d = append(d, c.data...)
		for _, x := range c.refs {
			d = putN(d, x, refSize)
		}
		ends = append(ends, uint64(len(d)))
	}
	return d, ends
}

func (r *rawBoc) bytes() []byte {
	out := binary.BigEndian.AppendUint32(nil, r.magic)
	fb := r.flagByte
	if fb < 0 {
		if r.magic == rboc.MagicGeneric {
			fb = r.size & 7
			if r.hasIdx {
				fb |= 0x80
			}
			if r.crc != 0 {
				fb |= 0x40
			}
			if r.cache {
				fb |= 0x20
			}
		} else {
			fb = r.size
		}
	}
	out = append(out, byte(fb), byte(r.off))
	out = putN(out, r.cells, r.size)
	out = putN(out, r.roots, r.size)
	out = putN(out, r.absent, r.size)
	out = putN(out, r.tot, r.off)
	for _, x := range r.rootList {
		out = putN(out, x, r.size)
	}
	if r.hasIdx {
		for _, x := range r.index {
			out = putN(out, x, r.off)
		}
	}
	d, _ := r.cellData(r.size)
	out = append(out, d...)
	switch r.crc {
	case 1:
		out = binary.LittleEndian.AppendUint32(out, crc32.Checksum(out, crc32.MakeTable(crc32.Castagnoli)))
	case 2:
		out = binary.LittleEndian.AppendUint32(out, crc32.Checksum(out, crc32.MakeTable(crc32.Castagnoli))^0x1)
	}
	return append(out, r.trailing...)
}

// honest builds a valid 4-cell BOC description: root -> a, b ; a -> c ; b -> c
func honest(rng *mon.Rng) *rawBoc {
	mk := func(nbits int, refs ...uint64) rawCell {
		bits := rng.Bits(nbits)
		return rawCell{d1: byte(len(refs)), d2: byte(nbits/8 + (nbits+7)/8), data: cell.PadBits(bits), refs: refs}
	}
	r := &rawBoc{magic: rboc.MagicGeneric, flagByte: -1, size: 1, off: 1, cells: 4, roots: 1, rootList: []uint64{0}}
	r.cellsRaw = []rawCell{mk(rng.Intn(40), 1, 2), mk(rng.Intn(40), 3), mk(rng.Intn(40), 3), mk(rng.Intn(40))}
	r.fix()
	return r
}

func (r *rawBoc) fix() {
	d, ends := r.cellData(r.size)
	r.tot = uint64(len(d))
	r.index = ends
}

var sizeVals = []uint64{0, 1, 2, 3, 4, 5, 6, 7, 8, 9, 15, 16, 31, 32, 64, 127, 128, 200, 255}
var countVals = func(n uint64) []uint64 {
	return []uint64{0, 1, n - 1, n + 1, n + 2, 0xff, 0x100, 0xffff, 0x10000, 0xffffff, 0x1000000, 0xffffffff, 0x100000000, 0x7fffffffffffffff, 0xffffffffffffffff}
}

// adversarial returns the idx-th adversarial input (a fixed enumeration of
// single lies for idx < nEnum, random combinations of lies beyond).
func adversarial(seed uint64, idx int) ([]byte, string) {
	rng := mon.NewRng(seed ^ uint64(idx)*0x9e3779b97f4a7c15 ^ 0xadadad)
	r := honest(rng)
	// choose widths so that big counts are representable
	wide := func() { r.size, r.off = 4, 8; r.fix() }
	lies := []func() string{
		func() string { v := mon.Pick(rng, sizeVals); r.size = int(v); return fmt.Sprintf("size=%d", v) },
		func() string { v := mon.Pick(rng, sizeVals); r.off = int(v); return fmt.Sprintf("off=%d", v) },
		func() string {
			r.magic = mon.Pick(rng, []uint32{rboc.MagicIdx, rboc.MagicIdxCRC})
			r.rootList = nil
			r.hasIdx = true
			v := mon.Pick(rng, sizeVals)
			r.flagByte = int(v)
			r.size = int(v)
			if r.magic == rboc.MagicIdxCRC {
				r.crc = 1
			}
			return fmt.Sprintf("lean-size=%d", v)
		},
		func() string {
			wide()
			v := mon.Pick(rng, countVals(4))
			r.cells = v
			return fmt.Sprintf("cells=%d", v)
		},
		func() string {
			wide()
			v := mon.Pick(rng, countVals(1))
			r.roots = v
			return fmt.Sprintf("roots=%d", v)
		},
		func() string {
			wide()
			v := mon.Pick(rng, countVals(0))
			r.absent = v
			return fmt.Sprintf("absent=%d", v)
		},
		func() string {
			wide()
			v := mon.Pick(rng, append(countVals(r.tot), r.tot-2, r.tot+7))
			r.tot = v
			return fmt.Sprintf("tot=%d", v)
		},
		func() string {
			v := mon.Pick(rng, []uint64{1, 3, 4, 5, 200, 255})
			r.rootList = []uint64{v}
			return fmt.Sprintf("rootidx=%d", v)
		},
		func() string {
			n := rng.Range(2, 6)
			r.roots = uint64(n)
			r.rootList = nil
			for i := 0; i < n; i++ {
				r.rootList = append(r.rootList, uint64(rng.Intn(6)))
			}
			return fmt.Sprintf("roots=%v", r.rootList)
		},
		func() string {
			ci := rng.Intn(len(r.cellsRaw))
			if len(r.cellsRaw[ci].refs) == 0 {
				r.cellsRaw[ci].refs = []uint64{0}
				r.cellsRaw[ci].d1 |= 1
			}
			kind := rng.Intn(4)
			var v uint64
			switch kind {
			case 0:
				v = uint64(ci) // self
			case 1:
				v = uint64(rng.Intn(ci + 1)) // backward
			case 2:
				v = 4 + uint64(rng.Intn(3)) // out of range
			default:
				v = 255
			}
			r.cellsRaw[ci].refs[0] = v
			r.fix()
			return fmt.Sprintf("cell%d.ref0=%d", ci, v)
		},
		func() string {
			ci := rng.Intn(len(r.cellsRaw))
			n := rng.Range(5, 7)
			r.cellsRaw[ci].d1 = r.cellsRaw[ci].d1&^7 | byte(n)
			if rng.Bool() { // actually supply that many refs
				r.cellsRaw[ci].refs = nil
				for i := 0; i < n; i++ {
					r.cellsRaw[ci].refs = append(r.cellsRaw[ci].refs, 3)
				}
				r.fix()
			}
			return fmt.Sprintf("cell%d.refcount=%d", ci, n)
		},
		func() string {
			ci := rng.Intn(len(r.cellsRaw))
			r.cellsRaw[ci].d1 |= 16 // with hashes but no room
			if rng.Bool() {
				r.cellsRaw[ci].pre = rng.Bytes(rng.Intn(34))
				r.fix()
			}
			return fmt.Sprintf("cell%d.with_hashes-short", ci)
		},
		func() string {
			ci := rng.Intn(len(r.cellsRaw))
			r.cellsRaw[ci].d1 |= byte(rng.Range(1, 7)) << 5
			if rng.Bool() {
				r.cellsRaw[ci].d1 |= 16
			}
			return fmt.Sprintf("cell%d.mask", ci)
		},
		func() string {
			ci := rng.Intn(len(r.cellsRaw))
			r.cellsRaw[ci].d1 |= 8 // exotic
			switch rng.Intn(4) {
			case 0:
				r.cellsRaw[ci].d2 = 0
				r.cellsRaw[ci].data = nil
			case 1:
				t := byte(rng.Range(0, 6))
				r.cellsRaw[ci].data = []byte{t}
				r.cellsRaw[ci].d2 = 2
			case 2: // pruned branch shorter than its mask implies
				m := byte(rng.Range(1, 7))
				n := rng.Intn(40)
				r.cellsRaw[ci].data = append([]byte{1, m}, rng.Bytes(n)...)
				r.cellsRaw[ci].d2 = byte(2 * (n + 2))
				r.cellsRaw[ci].d1 = 8 | m<<5
				r.cellsRaw[ci].refs = nil
			default: // merkle cells with wrong sizes / ref counts
				t := byte(rng.Range(3, 4))
				n := rng.Intn(80)
				r.cellsRaw[ci].data = append([]byte{t}, rng.Bytes(n)...)
				r.cellsRaw[ci].d2 = byte(2 * (n + 1))
			}
			r.fix()
			return fmt.Sprintf("cell%d.exotic-malformed", ci)
		},
		func() string {
			ci := rng.Intn(len(r.cellsRaw))
			r.cellsRaw[ci].d2 = byte(rng.Intn(256))
			return fmt.Sprintf("cell%d.d2=%d", ci, r.cellsRaw[ci].d2)
		},
		func() string {
			ci := rng.Intn(len(r.cellsRaw))
			// odd d2 with a last byte of zero: no completion tag
			r.cellsRaw[ci].d2 = 3
			r.cellsRaw[ci].data = []byte{0x55, 0x00}
			r.fix()
			return "no-completion-tag"
		},
		func() string { r.crc = 2; return "wrong-crc" },
		func() string { r.crc = 1; r.trailing = rng.Bytes(rng.Range(1, 9)); return "trailing" },
		func() string {
			r.hasIdx = true
			r.index = []uint64{r.index[len(r.index)-1], r.index[0], 0, 0xff}
			return "index-unsorted"
		},
		func() string { r.hasIdx = true; r.cache = true; return "cache-bits" },
		func() string {
			r.flagByte = rng.Intn(256)
			return fmt.Sprintf("flagbyte=%d", r.flagByte)
		},
		func() string {
			// a pruned branch with 2-3 stored levels whose payload ends somewhere between "all hashes" and
			// "all hashes and all depths", under a parent that asks for one of its lower levels
			m := mon.Pick(rng, []byte{3, 5, 6, 7})
			k := 0
			for x := m; x != 0; x &= x - 1 {
				k++
			}
			n := 2 + 32*k - 2 + rng.Intn(2*k+5) // 2+32k-2 .. 2+34k+2
			payload := append([]byte{1, m}, rng.Bytes(n-2)...)
			for i := 2 + 32*k; i < len(payload); i += 2 {
				payload[i] = 0 // small depths so that the depth limit does not fire first
			}
			child := rawCell{d1: 8 | m<<5, d2: byte(2 * len(payload)), data: payload}
			var parent rawCell
			switch rng.Intn(3) {
			case 0: // ordinary parent carrying the same mask
				parent = rawCell{d1: 1 | m<<5, d2: 2, data: []byte{0x55}, refs: []uint64{1}}
			case 1: // Merkle proof parent
				parent = rawCell{d1: 1 | 8 | (m>>1)<<5, d2: 2 * 35, data: append([]byte{3}, rng.Bytes(34)...), refs: []uint64{1}}
			default: // Merkle update parent (both refs to the child)
				parent = rawCell{d1: 2 | 8 | (m>>1)<<5, d2: 2 * 69, data: append([]byte{4}, rng.Bytes(68)...), refs: []uint64{1, 1}}
			}
			r.cellsRaw = []rawCell{parent, child}
			r.cells = 2
			r.size, r.off = 1, 2
			r.fix()
			return fmt.Sprintf("pruned-mask%d-len%d-under-parent", m, n)
		},
		func() string {
			// deep chain of minimal cells: cell i -> i+1 (depth n-1)
			n := mon.Pick(rng, []int{1023, 1024, 1025, 1026, 3000})
			r.size, r.off = 2, 4
			r.cellsRaw = nil
			for i := 0; i < n; i++ {
				c := rawCell{}
				if i+1 < n {
					c.d1 = 1
					c.refs = []uint64{uint64(i + 1)}
				}
				r.cellsRaw = append(r.cellsRaw, c)
			}
			r.cells = uint64(n)
			r.fix()
			return fmt.Sprintf("chain=%d", n)
		},
		func() string {
			// diamond ladder: n rungs, each cell references the next one 4 times (4^n unfolding)
			n := mon.Pick(rng, []int{20, 60, 200, 1000})
			r.size, r.off = 2, 4
			r.cellsRaw = nil
			for i := 0; i < n; i++ {
				c := rawCell{}
				if i+1 < n {
					c.d1 = 4
					c.refs = []uint64{uint64(i + 1), uint64(i + 1), uint64(i + 1), uint64(i + 1)}
				}
				r.cellsRaw = append(r.cellsRaw, c)
			}
			r.cells = uint64(n)
			r.fix()
			return fmt.Sprintf("ladder=%d", n)
		},
	}
	var desc []string
	nl := 1
	if idx >= 40*len(lies) {
		nl = rng.Range(2, 3)
	}
	first := idx % len(lies)
	desc = append(desc, lies[first]())
	for k := 1; k < nl; k++ {
		desc = append(desc, lies[rng.Intn(len(lies)-3)]()) // not the pruned-window and the two big generators
	}
	return r.bytes(), strings.Join(desc, "+")
}

// ---------------------------------------------------------------- the monitored call

func soundness(roots []*tboc.Cell) string {
	const (
		white = 0
		grey  = 1
		black = 2
	)
	color := map[*tboc.Cell]int{}
	type fr struct {
		c    *tboc.Cell
		refs []*tboc.Cell
		i    int
	}
	for _, root := range roots {
		if root == nil {
			return "nil-root"
		}
		if color[root] == black {
			continue
		}
		st := []fr{{c: root}}
		color[root] = grey
		for len(st) > 0 {
			t := &st[len(st)-1]
			if t.refs == nil {
				if t.c.BitSize() > 1023 {
					return "more-than-1023-bits"
				}
				t.refs = t.c.Refs()
				if t.refs == nil {
					t.refs = []*tboc.Cell{}
				}
				if len(t.refs) > 4 {
					return "more-than-4-refs"
				}
				if t.c.RefsSize() != len(t.refs) {
					return "refs-inconsistent"
				}
			}
			if t.i < len(t.refs) {
				ch := t.refs[t.i]
				t.i++
				if ch == nil {
					return "nil-child"
				}
				switch color[ch] {
				case grey:
					return "cycle"
				case white:
					color[ch] = grey
					st = append(st, fr{c: ch})
				}
				continue
			}
			color[t.c] = black
			st = st[:len(st)-1]
		}
	}
	return ""
}

// unfolded returns the number of cells of the tree the DAG unfolds to, capped.
func unfolded(root *tboc.Cell, limit int) int {
	memo := map[*tboc.Cell]int{}
	var f func(c *tboc.Cell) int
	f = func(c *tboc.Cell) int {
		if v, ok := memo[c]; ok {
			return v
		}
		n := 1
		for _, r := range c.Refs() {
			n += f(r)
			if n > limit {
				n = limit + 1
				break
			}
		}
		memo[c] = n
		return n
	}
	return f(root)
}

// printCost estimates the characters Cell.ToString copies for this root on a correct
// implementation: min(unfolded cells, 65536 + slack) lines x average line length x depth.
func printCost(root *tboc.Cell) int {
	lines := unfolded(root, 70000)
	depth := depthOf(root, 3000)
	if depth > 3000 {
		return 1 << 62
	}
	seen := map[*tboc.Cell]bool{}
	bits, cells := 0, 0
	var walk func(c *tboc.Cell)
	walk = func(c *tboc.Cell) {
		if seen[c] || cells > 70000 {
			return
		}
		seen[c] = true
		cells++
		bits += c.BitSize()
		for _, r := range c.Refs() {
			walk(r)
		}
	}
	walk(root)
	if cells == 0 {
		return 0
	}
	lineLen := bits/cells/4 + depth/2 + 5
	return lines * lineLen * (depth + 1)
}

// depthOf returns the depth of the DAG, capped.
func depthOf(root *tboc.Cell, limit int) int {
	memo := map[*tboc.Cell]int{}
	var f func(c *tboc.Cell, budget int) int
	f = func(c *tboc.Cell, budget int) int {
		if v, ok := memo[c]; ok {
			return v
		}
		if budget <= 0 {
			return limit + 1
		}
		d := 0
		for _, r := range c.Refs() {
			if x := f(r, budget-1) + 1; x > d {
				d = x
			}
		}
		if d > limit {
			d = limit + 1
		}
		memo[c] = d
		return d
	}
	return f(root, limit+2)
}

func observe(w mon.Sink, wk *mon.Worker, class, id string, in []byte, desc string, deep bool) {
	if wk != nil {
		wk.Begin(class+"/"+id, in)
		defer wk.End()
	}
	wit := func() map[string]any {
		return map[string]any{"class": class, "case": id, "desc": desc, "len": len(in), "input_hex": mon.HexTrunc(in, 6000)}
	}
	var roots []*tboc.Cell
	var err error
	if wk != nil {
		wk.Note("DeserializeBoc")
	}
	m := mon.StartMeter()
	p := mon.Guard(func() { roots, err = tboc.DeserializeBoc(in) })
	cpu, alloc, _ := m.Stop()
	outcome := "error"
	if p != nil {
		x := wit()
		x["panic"], x["stack"] = p.Value, mon.Trunc(p.Stack, 1500)
		w.Violation("panic@"+p.Site+"/"+mon.PanicClass(p.Value), x)
		w.Eval(class + "/panic/" + p.Site)
		return
	}
	if alloc > uint64(allocBase+allocPerByte*len(in)) {
		x := wit()
		x["alloc_bytes"], x["bound"] = alloc, allocBase+allocPerByte*len(in)
		w.Violation("alloc-out-of-proportion@DeserializeBoc", x)
	}
	if cpu > cpuBound {
		x := wit()
		x["cpu_s"] = cpu
		w.Violation("cpu@DeserializeBoc", x)
	}
	if err == nil {
		outcome = "ok"
		if s := soundness(roots); s != "" {
			x := wit()
			w.Violation("unsound-cells@DeserializeBoc/"+s, x)
			w.Eval(class + "/unsound/" + s)
			return
		}
		// post-calls promised by the statement: hashing, printing, re-serialising terminate
		sharedHasher := tboc.NewHasher()
		for ri, root := range roots {
			if ri >= 4 {
				break
			}
			ops := []string{"Hash", "ToBoc", "ToString"}
			if deep {
				// the other hashers / serialisers / printers of the anchored files (index, CRC and cache-bit
				// variants, a hasher shared by all roots, JSON, the text forms, the bit printer)
				ops = []string{"Hash", "ToBoc", "ToString", "Hash256+HashString", "ToBocCustom(idx,crc,cache)", "ToBocCustom(idx)", "ToBocCustomWithHasher(shared)", "MarshalJSON+ToBocBase64", "BinaryString+ToFiftHex"}
			}
			if printCost(root) <= 200_000_000 && toStringCPU > toStringJobBudget {
				// printing is slow but terminating on this job's seed (the text is copied once per level): after
				// toStringJobBudget CPU seconds of printing in one job the remaining roots of the job are hashed and
				// re-serialised but no longer printed, otherwise a chunk of thousands of substitutions of one such
				// seed runs into the child's wall-clock watchdog. A single call that does not return is still ended
				// by the per-case CPU watchdog.
				ops = append(ops[:2:2], ops[3:]...)
				w.Count("tostring_skipped_job_cpu_budget", 1)
			} else if printCost(root) > 200_000_000 {
				// ToString prints the unfolded tree (its own budget: 65536 cells), copying the text once per level
				// of depth. On deep trees with fat cells that is slow but terminating, and a CPU bound there
				// would be our demand, not the statement's: such roots are skipped by an estimate of the
				// characters copied (lines x line length x depth). DAGs with a huge unfolding but a modest
				// estimate are printed: the budget must keep the output bounded
				ops = append(ops[:2:2], ops[3:]...)
				w.Count("tostring_skipped_large_unfolding", 1)
			}
			for _, op := range ops {
				if wk != nil {
					wk.Note(op + "(parsed root)")
				}
				t0 := mon.CPUSeconds()
				var oerr error
				p := mon.Guard(func() {
					switch op {
					case "Hash":
						_, oerr = root.Hash()
					case "ToBoc":
						_, oerr = root.ToBoc()
					case "ToString":
						_ = root.ToString()
					case "Hash256+HashString":
						if _, oerr = root.Hash256(); oerr == nil {
							_, oerr = root.HashString()
						}
					case "ToBocCustom(idx,crc,cache)":
						_, oerr = root.ToBocCustom(true, true, true, 0)
					case "ToBocCustom(idx)":
						_, oerr = root.ToBocCustom(true, false, false, 0)
					case "ToBocCustomWithHasher(shared)":
						_, oerr = root.ToBocCustomWithHasher(sharedHasher, false, true, false, 0)
					case "MarshalJSON+ToBocBase64": // MarshalJSON is ToBocString in quotes
						if _, oerr = root.MarshalJSON(); oerr == nil && ri == 0 {
							_, oerr = root.ToBocBase64()
						}
					case "BinaryString+ToFiftHex":
						bs := root.RawBitString()
						_ = bs.BinaryString()
						_ = bs.ToFiftHex()
					}
				})
				cpu := mon.CPUSeconds() - t0
				if op == "ToString" {
					toStringCPU += cpu
				}
				if p != nil {
					x := wit()
					x["panic"], x["stack"], x["op"] = p.Value, mon.Trunc(p.Stack, 1500), op
					w.Violation("panic@"+p.Site+"/"+op+"(parsed root)/"+mon.PanicClass(p.Value), x)
					outcome = "ok-postpanic"
				}
				if cpu > cpuBound {
					x := wit()
					x["cpu_s"], x["op"] = cpu, op
					w.Violation("cpu@"+op+"(parsed root)", x)
				}
				if oerr != nil {
					outcome = "ok-posterr"
				}
			}
		}
	}
	if err == nil && (len(roots) != 1 || deep) {
		singleRootForms(w, wk, class, id, in, len(roots))
	}
	// fingerprint: class + outcome + error text class => distinct parser paths reached
	fp := class + "/" + outcome
	if err != nil {
		fp += "/" + mon.PanicClass(err.Error())
		w.Seen("error_classes", mon.PanicClass(err.Error()))
	}
	w.Eval(fp + "/" + id)
	w.Count("outcome_"+outcome, 1)
	if class == "widths" || class == "grid" || class == "bitlen" || class == "gridcut" || class == "refcount" || class == "bigfork" {
		w.Count(class+"_"+outcome, 1)
	}
}

// singleRootForms: the helpers that hand out "the" root of a bag, on a bag the parser accepted. Bags with no
// root or with several roots are the interesting ones: the helpers must answer with an error or a cell, not crash.
func singleRootForms(w mon.Sink, wk *mon.Worker, class, id string, in []byte, nroots int) {
	hx := hex.EncodeToString(in)
	b64 := base64.StdEncoding.EncodeToString(in)
	js, _ := json.Marshal(hx)
	for _, form := range []string{"DeserializeSingleRootBoc", "DeserializeSinglRootHex", "DeserializeSinglRootBase64", "Cell.UnmarshalJSON"} {
		if wk != nil {
			wk.Begin("single/"+form+"/"+class+"/"+id, in)
			wk.Note(form)
		}
		var c *tboc.Cell
		var err error
		p := mon.Guard(func() {
			switch form {
			case "DeserializeSingleRootBoc":
				c, err = tboc.DeserializeSingleRootBoc(in)
			case "DeserializeSinglRootHex":
				c, err = tboc.DeserializeSinglRootHex(hx)
			case "DeserializeSinglRootBase64":
				c, err = tboc.DeserializeSinglRootBase64(b64)
			default:
				c = &tboc.Cell{}
				err = c.UnmarshalJSON(js)
			}
		})
		if wk != nil {
			wk.End()
		}
		wit := map[string]any{"class": class, "case": id, "form": form, "roots": nroots, "len": len(in), "input_hex": mon.HexTrunc(in, 6000)}
		if p != nil {
			wit["panic"], wit["stack"] = p.Value, mon.Trunc(p.Stack, 1500)
			w.Violation("panic@"+p.Site+"/"+form+"/"+mon.PanicClass(p.Value), wit)
		} else if err == nil && c == nil {
			w.Violation("unsound-cells@"+form+"/nil-root", wit)
		}
		rc := "1"
		if nroots == 0 {
			rc = "0"
		} else if nroots > 1 {
			rc = "n"
		}
		w.Eval(fmt.Sprintf("single/%s/%s/%s", form, class, id))
		w.Count("single_root_helpers_roots="+rc, 1)
	}
}

// textDamage: what reaches the text entry points from JSON documents, URLs and users besides a clean encoding.
func textDamage(hx, b64 string) (hexes, b64s, jsons []string) {
	hexes = []string{"", "0", hx + "0", " " + hx, hx + "\n", strings.ToUpper(hx), "0x" + hx, hx + "zz"}
	if len(hx) > 0 {
		hexes = append(hexes, hx[:len(hx)-1], hx[1:])
	}
	b64s = []string{"", "=", "====", strings.TrimRight(b64, "="), strings.NewReplacer("+", "-", "/", "_").Replace(b64), b64 + "=", b64 + "\n", " " + b64}
	if len(b64) > 1 {
		b64s = append(b64s, b64[:len(b64)-1], b64[:len(b64)/2]+"\n"+b64[len(b64)/2:])
	}
	jsons = []string{"", "\"", "\"\"", "null", "0", "[]", "{}", "\"" + hx, hx + "\"", "\"\\u0062" + hx + "\"", "\"" + b64 + "\"", "\"" + hx + "\" ", " \"" + hx + "\""}
	return
}

func observeTextDamage(w mon.Sink, wk *mon.Worker, id string, in []byte) {
	hexes, b64s, jsons := textDamage(hex.EncodeToString(in), base64.StdEncoding.EncodeToString(in))
	run := func(form string, list []string, f func(s string)) {
		for i, s := range list {
			if wk != nil {
				wk.Begin(fmt.Sprintf("text/%s-damaged%d/%s", form, i, id), []byte(s))
				wk.Note("text-" + form)
			}
			p := mon.Guard(func() { f(s) })
			if wk != nil {
				wk.End()
			}
			if p != nil {
				w.Violation("panic@"+p.Site+"/text-"+form+"/"+mon.PanicClass(p.Value), map[string]any{"form": form, "text": mon.Trunc(s, 4000), "panic": p.Value, "stack": mon.Trunc(p.Stack, 1500)})
			}
			w.Eval("")
		}
	}
	run("hex", hexes, func(s string) { tboc.DeserializeBocHex(s); tboc.DeserializeSinglRootHex(s) })
	run("base64", b64s, func(s string) { tboc.DeserializeBocBase64(s); tboc.DeserializeSinglRootBase64(s) })
	run("json", jsons, func(s string) {
		var c tboc.Cell
		json.Unmarshal([]byte(s), &c)
		var d tboc.Cell
		d.UnmarshalJSON([]byte(s))
	})
	w.Count("text_damage_sets", 1)
}

// text forms: hex / base64 / JSON go through the same parser plus a decoder
func observeText(w mon.Sink, wk *mon.Worker, id string, in []byte, rng *mon.Rng) {
	hx := hex.EncodeToString(in)
	b64 := base64.StdEncoding.EncodeToString(in)
	if rng.Chance(1, 3) && len(hx) > 0 { // damage the text itself
		k := rng.Intn(len(hx))
		hx = hx[:k] + string(rune(rng.Range(32, 126))) + hx[k+1:]
		k = rng.Intn(len(b64))
		b64 = b64[:k] + string(rune(rng.Range(32, 126))) + b64[k+1:]
	}
	js, _ := json.Marshal(hx)
	for _, form := range []string{"hex", "base64", "json", "json-raw"} {
		if wk != nil {
			wk.Begin("text/"+form+"/"+id, []byte(hx))
		}
		p := mon.Guard(func() {
			switch form {
			case "hex":
				tboc.DeserializeBocHex(hx)
			case "base64":
				tboc.DeserializeBocBase64(b64)
			case "json":
				var c tboc.Cell
				json.Unmarshal(js, &c)
			case "json-raw":
				var c tboc.Cell
				c.UnmarshalJSON([]byte(hx)) // not even quoted
			}
		})
		if wk != nil {
			wk.End()
		}
		if p != nil {
			w.Violation("panic@"+p.Site+"/text-"+form+"/"+mon.PanicClass(p.Value), map[string]any{"form": form, "hex": mon.Trunc(hx, 4000), "panic": p.Value})
		}
		w.Eval("")
	}
}

// ---------------------------------------------------------------- small-header grid

// headerGrid enumerates every combination of a few small values of every header field, for each of the
// three magics, over 0..2 supplied cells: the corners where one counter is 0 while another part of the
// header still says "there is something" (a root list of one entry over zero cells, an index over zero
// cells, absent > cells, ...). Mixed radix over idx; gridSize = product of the radices.
var gridRadix = []int{3 /*magic*/, 8 /*flags*/, 2 /*size*/, 2 /*off*/, 4 /*cells*/, 3 /*roots*/, 2 /*absent*/, 3 /*supplied*/, 3 /*root index*/, 2 /*tot*/}

var gridSize = func() int {
	n := 1
	for _, r := range gridRadix {
		n *= r
	}
	return n
}()

func headerGrid(idx int) ([]byte, string) {
	d := make([]int, len(gridRadix))
	x := idx
	for i, r := range gridRadix {
		d[i] = x % r
		x /= r
	}
	r := &rawBoc{flagByte: -1}
	r.magic = []uint32{rboc.MagicGeneric, rboc.MagicIdx, rboc.MagicIdxCRC}[d[0]]
	r.size, r.off = d[2]+1, d[3]+1
	if r.magic == rboc.MagicGeneric {
		r.hasIdx, r.cache = d[1]&1 != 0, d[1]&4 != 0
		if d[1]&2 != 0 {
			r.crc = 1
		}
	} else {
		r.hasIdx = true
		if r.magic == rboc.MagicIdxCRC {
			r.crc = 1
		}
		if d[1]&1 != 0 {
			r.flagByte = r.size | 0x80 // stray high bits in the lean size byte
		}
	}
	r.cells, r.roots, r.absent = uint64(d[4]), uint64(d[5]), uint64(d[6])
	switch d[7] { // cells actually present
	case 1:
		r.cellsRaw = []rawCell{{d1: 0, d2: 2, data: []byte{0xa5}}}
	case 2:
		r.cellsRaw = []rawCell{{d1: 1, d2: 2, data: []byte{0x5a}, refs: []uint64{1}}, {d1: 0, d2: 1, data: []byte{0x80}}}
	}
	r.fix()
	if r.magic == rboc.MagicGeneric {
		for i := uint64(0); i < r.roots; i++ {
			v := i
			switch d[8] {
			case 1:
				v = r.cells // one past the last cell
			case 2:
				if r.cells > 0 {
					v = r.cells - 1
				}
			}
			r.rootList = append(r.rootList, v)
		}
	}
	if d[9] == 1 {
		r.tot = 0
	}
	return r.bytes(), fmt.Sprintf("grid %v", d)
}

// gridCutCase: the grid inputs with their last 1..gridCuts bytes cut off: the grid writes complete checksums and
// complete cell data only, so "the header is all there, the counters are consistent, but fewer bytes follow
// than the checksum / the root list / the index need" (e.g. a checksummed bag of one tiny cell with two
// bytes left after the header) is reached by cutting its tail. At quick only the inputs that carry the CRC
// flag and cuts of up to 6 bytes; at thorough all inputs and cuts of up to 12.
const gridCuts = 12

func gridCutCase(idx int, all bool) ([]byte, string) {
	g, cut := idx/gridCuts, idx%gridCuts+1
	d0, d1 := g%gridRadix[0], g/gridRadix[0]%gridRadix[1]
	hasCRC := d0 == 2 || d0 == 0 && d1&2 != 0
	if !all && (!hasCRC || cut > 6) {
		return nil, ""
	}
	b, desc := headerGrid(g)
	if cut >= len(b) {
		return nil, ""
	}
	return b[:len(b)-cut], fmt.Sprintf("%s cut %d", desc, cut)
}

// refCountCase: descriptors that announce 5, 6 or 7 references with a CONSISTENT layout behind them: the
// stored hashes and depths the with-hashes bit promises for the level mask (one hash + depth per level and
// one more), the data, and that many valid forward references - for every level mask, with and without
// the with-hashes and exotic bits, as root, as a child and as the last-but-leaves cell. (The node software
// knows d1 & 0x1f == 0x17 as the descriptor of an absent cell; a parser that lets any of these through
// must still hand out cells with at most four references.)
var refCountRadix = []int{8 /*mask*/, 3 /*5,6,7 refs*/, 2 /*with hashes*/, 2 /*exotic*/, 3 /*position*/, 3 /*reference targets*/, 2 /*data*/}

var refCountCases = func() int {
	n := 1
	for _, r := range refCountRadix {
		n *= r
	}
	return n
}()

func refCountCase(seed uint64, idx int) ([]byte, string) {
	d := make([]int, len(refCountRadix))
	x := idx
	for i, r := range refCountRadix {
		d[i] = x % r
		x /= r
	}
	rng := mon.NewRng(seed ^ uint64(idx)*0x9e3779b97f4a7c15 ^ 0x4ef5)
	mask, nrefs := byte(d[0]), d[1]+5
	liar := rawCell{d1: byte(nrefs) | mask<<5}
	if d[2] == 1 {
		liar.d1 |= 16
		k := 1
		for m := mask; m != 0; m &= m - 1 {
			k++
		}
		liar.pre = rng.Bytes(k * 34)
		for i := 32 * k; i < len(liar.pre); i += 2 {
			liar.pre[i] = 0 // small stored depths
		}
	}
	if d[3] == 1 {
		liar.d1 |= 8
		liar.data, liar.d2 = append([]byte{byte(rng.Range(1, 4))}, rng.Bytes(34)...), 70
	} else if d[6] == 1 {
		liar.data, liar.d2 = rng.Bytes(5), 10
	}
	// bag: [parent?] liar leaf*8
	var cells []rawCell
	first := 0
	switch d[4] {
	case 1: // under an honest parent
		cells = append(cells, rawCell{d1: 1, d2: 2, data: []byte{0x11}, refs: []uint64{1}})
		first = 1
	case 2: // under two honest ancestors, referenced twice
		cells = append(cells, rawCell{d1: 2, d2: 2, data: []byte{0x22}, refs: []uint64{1, 2}}, rawCell{d1: 1, d2: 0, refs: []uint64{2}})
		first = 2
	}
	leaf0 := first + 1
	for i := 0; i < nrefs; i++ {
		t := uint64(leaf0 + i)
		switch d[5] {
		case 1: // all to one and the same cell
			t = uint64(leaf0)
		case 2: // the last one out of range
			if i == nrefs-1 {
				t = uint64(leaf0 + 8)
			}
		}
		liar.refs = append(liar.refs, t)
	}
	cells = append(cells, liar)
	for i := 0; i < 8; i++ {
		cells = append(cells, rawCell{d1: 0, d2: 2, data: []byte{byte(i)<<1 | 1}})
	}
	r := &rawBoc{magic: rboc.MagicGeneric, flagByte: -1, size: 1, off: 2, roots: 1, rootList: []uint64{0}, cellsRaw: cells, cells: uint64(len(cells))}
	if idx%5 == 0 {
		r.crc = 1
	}
	r.fix()
	return r.bytes(), fmt.Sprintf("refcount=%d mask=%d with_hashes=%d exotic=%d position=%d targets=%d", nrefs, mask, d[2], d[3], d[4], d[5])
}

// bigForkCase: a VALID bag of two parts under one root: ~66000..70000 distinct small cells (a 4-ary tree), and a
// fork-bomb chain of 40..64 cells each of which references the next one four times (4^depth paths, 40..64
// cells). Either part alone is harmless; together they ask whether whatever keeps hashing / serialising linear
// in the number of cells (a memo table, a visited set) still does so once it holds more than 2^16 cells.
// Both orders of the two parts. About 1 MB each: a handful of cases, one per job.
const bigForkCases = 6

func bigForkCase(idx int) ([]byte, string) {
	n := []int{70000, 66000, 70000}[idx%3]
	chain := []int{64, 40, 48}[idx%3]
	bigFirst := idx/3 == 0
	cells := make([]rawCell, 0, n+chain+1)
	bigAt, chainAt := uint64(1), uint64(1+n)
	root := rawCell{d1: 2, d2: 2, data: []byte{0x77}, refs: []uint64{bigAt, chainAt}}
	if !bigFirst {
		root.refs = []uint64{chainAt, bigAt}
	}
	cells = append(cells, root)
	for j := 0; j < n; j++ {
		c := rawCell{d2: 6, data: []byte{byte(j >> 16), byte(j >> 8), byte(j)}}
		for k := 1; k <= 4; k++ {
			if ch := 4*j + k; ch < n {
				c.refs = append(c.refs, uint64(1+ch))
			}
		}
		c.d1 = byte(len(c.refs))
		cells = append(cells, c)
	}
	for j := 0; j < chain; j++ {
		c := rawCell{d2: 2, data: []byte{byte(j)}}
		if j+1 < chain {
			nx := chainAt + uint64(j) + 1
			c.d1, c.refs = 4, []uint64{nx, nx, nx, nx}
		}
		cells = append(cells, c)
	}
	r := &rawBoc{magic: rboc.MagicGeneric, flagByte: -1, size: 3, off: 3, roots: 1, rootList: []uint64{0}, cellsRaw: cells, cells: uint64(len(cells))}
	r.fix()
	return r.bytes(), fmt.Sprintf("bigfork cells=%d chain=%d big-first=%v", n, chain, bigFirst)
}

// bitLenCase: a valid bag whose interesting cell has exactly n data bits, n = 0..1023 (the parser gives
// every cell a 1023-bit capacity, so the last few lengths leave 0, 1, 2 ... bits of room for whatever a
// post-call appends, e.g. the completion tag of the Fift form), as a root, as a child and as an exotic
// library-shaped payload; random or all-ones data.
const bitLenVariants = 4

func bitLenCase(seed uint64, idx int) ([]byte, string) {
	n, variant := idx%1024, idx/1024
	rng := mon.NewRng(seed ^ uint64(idx)*0x9e3779b97f4a7c15 ^ 0xb171e4)
	bits := rng.Bits(n)
	if variant == 1 {
		for i := range bits {
			bits[i] = true
		}
	}
	d2 := byte(n/8 + (n+7)/8)
	leaf := rawCell{d1: 0, d2: d2, data: cell.PadBits(bits)}
	r := &rawBoc{magic: rboc.MagicGeneric, flagByte: -1, size: 1, off: 2, roots: 1, rootList: []uint64{0}}
	switch variant {
	case 2: // under a parent, twice
		r.cellsRaw = []rawCell{{d1: 2, d2: 2, data: []byte{0x11}, refs: []uint64{1, 1}}, leaf}
	case 3: // with the exotic bit (only n = 264 with tag 2 is a well-formed library cell; the others must fail cleanly somewhere)
		leaf.d1 = 8
		if len(leaf.data) > 0 {
			leaf.data[0] = 2
		}
		r.cellsRaw = []rawCell{leaf}
	default:
		r.cellsRaw = []rawCell{leaf}
	}
	r.cells = uint64(len(r.cellsRaw))
	r.fix()
	return r.bytes(), fmt.Sprintf("bitlen n=%d variant=%d", n, variant)
}

// widthCase: VALID bags at every field width the format allows: size 1..4 x off_bytes 1..8 (the writers of the
// corpus always choose the minimal widths, so three-byte indices and offsets of 3..8 bytes never occur there),
// over three bag shapes and the header variants; counts, root indices, references, index entries and the
// total size are all written at that width. A 300-cell bag does not fit one-byte indices: those combinations
// are refused cleanly or not at all.
var widthRadix = []int{4 /*size*/, 8 /*off*/, 3 /*shape*/, 6 /*header variant*/}

var widthCases = func() int {
	n := 1
	for _, r := range widthRadix {
		n *= r
	}
	return n
}()

func widthCase(seed uint64, idx int) ([]byte, string) {
	d := make([]int, len(widthRadix))
	x := idx
	for i, r := range widthRadix {
		d[i] = x % r
		x /= r
	}
	rng := mon.NewRng(seed ^ uint64(idx)*0x9e3779b97f4a7c15 ^ 0x71d7)
	r := honest(rng)
	r.size, r.off = d[0]+1, d[1]+1
	switch d[2] {
	case 1: // 300 cells: a binary tree, cell i -> 2i+1, 2i+2
		n := 300
		r.cellsRaw = nil
		for i := 0; i < n; i++ {
			c := rawCell{d2: 2, data: []byte{byte(i)}}
			for _, j := range []int{2*i + 1, 2*i + 2} {
				if j < n {
					c.refs = append(c.refs, uint64(j))
				}
			}
			c.d1 = byte(len(c.refs))
			r.cellsRaw = append(r.cellsRaw, c)
		}
		r.cells = uint64(n)
	case 2: // two roots, the second one the last cell: the largest index of the bag in the root list
		r.roots = 2
		r.rootList = []uint64{0, 3}
	}
	switch d[3] {
	case 1:
		r.hasIdx = true
	case 2:
		r.hasIdx, r.cache = true, true
	case 3:
		r.crc = 1
	case 4:
		r.magic, r.hasIdx, r.flagByte = rboc.MagicIdx, true, r.size
		r.rootList, r.roots = nil, 1
	case 5:
		r.magic, r.hasIdx, r.flagByte, r.crc = rboc.MagicIdxCRC, true, r.size, 1
		r.rootList, r.roots = nil, 1
	}
	r.fix()
	if r.cache { // index entries carry the cache bit in their lowest bit
		for i := range r.index {
			r.index[i] = r.index[i]*2 + uint64(i&1)
		}
	}
	return r.bytes(), fmt.Sprintf("widths size=%d off=%d shape=%d header=%d", r.size, r.off, d[2], d[3])
}

// toStringCPU: CPU seconds this process has spent in Cell.ToString (one job per process).
var toStringCPU float64

// ---------------------------------------------------------------- jobs

type job struct {
	Class string `json:"class"`
	Seed  int    `json:"seed"` // corpus index
	From  int    `json:"from"`
	To    int    `json:"to"`
}

func mutate(class string, s seedBoc, seedIdx, k int, corp []seedBoc, wseed uint64) ([]byte, string) {
	switch class {
	case "trunc":
		return s.B[:k], fmt.Sprintf("%s[:%d]", s.Name, k)
	case "subst":
		pos, v := k/255, k%255
		b := append([]byte(nil), s.B...)
		nv := byte(v)
		if nv >= b[pos] {
			nv++
		}
		b[pos] = nv
		return b, fmt.Sprintf("%s[%d]=%#x", s.Name, pos, nv)
	case "edit":
		rng := mon.NewRng(wseed ^ uint64(seedIdx)<<32 ^ uint64(k) ^ 0xed17)
		b := append([]byte(nil), s.B...)
		if len(b) > 8192 {
			b = b[:8192]
		}
		n := rng.Range(1, 8)
		for i := 0; i < n; i++ {
			switch rng.Intn(4) {
			case 0:
				b[rng.Intn(len(b))] = byte(rng.Intn(256))
			case 1:
				b[rng.Intn(len(b))] ^= 1 << uint(rng.Intn(8))
			case 2:
				p := rng.Intn(len(b) + 1)
				b = append(b[:p], append([]byte{byte(rng.Intn(256))}, b[p:]...)...)
			case 3:
				if len(b) > 6 {
					p := rng.Intn(len(b))
					b = append(b[:p], b[p+1:]...)
				}
			}
		}
		return b, fmt.Sprintf("%s edits=%d", s.Name, n)
	case "splice":
		rng := mon.NewRng(wseed ^ uint64(seedIdx)<<32 ^ uint64(k) ^ 0x5911ce)
		o := corp[rng.Intn(len(corp))]
		a, c := s.B, o.B
		if len(a) > 4096 {
			a = a[:4096]
		}
		if len(c) > 4096 {
			c = c[:4096]
		}
		i, j := rng.Intn(len(a)+1), rng.Intn(len(c)+1)
		return append(append([]byte(nil), a[:i]...), c[j:]...), fmt.Sprintf("%s[:%d]+%s[%d:]", s.Name, i, o.Name, j)
	case "random":
		rng := mon.NewRng(wseed ^ uint64(k) ^ 0x7a4d)
		magics := [][]byte{{0xb5, 0xee, 0x9c, 0x72}, {0x68, 0xff, 0x65, 0xf3}, {0xac, 0xc3, 0xa7, 0x28}}
		b := append([]byte(nil), magics[k%3]...)
		b = append(b, rng.Bytes(rng.Intn(120))...)
		if rng.Bool() && len(b) > 5 {
			// plausible small header so that the parser gets past the first checks
			b[4] = byte(rng.Range(1, 4)) | byte(rng.Intn(8))<<5
			b[5] = byte(rng.Range(1, 3))
		}
		return b, "random"
	}
	return nil, ""
}

func worker(w *mon.Worker) {
	var j job
	if err := json.Unmarshal(w.Job, &j); err != nil {
		w.HarnessError("bad job")
		return
	}
	corp := corpus(w.Seed, mon.RepoRoot())
	cpu0 := mon.CPUSeconds()
	defer func() { w.Count("cpu_ms_"+j.Class, int64((mon.CPUSeconds()-cpu0)*1000)) }()
	w.CaseCPULimit = caseCPULimit
	for k := j.From; k < j.To; k++ {
		var in []byte
		var desc string
		if j.Class == "adversarial" {
			in, desc = adversarial(w.Seed, k)
		} else if j.Class == "grid" {
			in, desc = headerGrid(k)
		} else if j.Class == "bitlen" {
			in, desc = bitLenCase(w.Seed, k)
		} else if j.Class == "widths" {
			in, desc = widthCase(w.Seed, k)
		} else if j.Class == "gridcut" {
			if in, desc = gridCutCase(k, w.Thorough()); in == nil {
				continue
			}
		} else if j.Class == "refcount" {
			in, desc = refCountCase(w.Seed, k)
		} else if j.Class == "bigfork" {
			in, desc = bigForkCase(k)
		} else {
			in, desc = mutate(j.Class, corp[j.Seed], j.Seed, k, corp, w.Seed)
		}
		id := fmt.Sprintf("%d/%d", j.Seed, k)
		// the generated classes are small and full of corner bags (no root, several roots, every width): all of
		// them, and one in 128 of the others (up to 64 KiB), also go through the rarely used entry points
		deep := j.Class == "grid" || j.Class == "bitlen" || j.Class == "widths" || j.Class == "refcount" || (k%128 == 0 && len(in) <= 64<<10)
		observe(w, w, j.Class, id, in, desc, deep)
		if k%97 == 0 {
			observeText(w, w, id, in, mon.NewRng(uint64(k)))
			if len(in) <= 4096 {
				observeTextDamage(w, w, id, in)
			}
		}
		if k == j.From && j.From%50000 == 0 {
			w.Sample(map[string]any{"class": j.Class, "desc": desc, "len": len(in), "input_hex": mon.HexTrunc(in, 80)})
		}
	}
}

func main() {
	if mon.IsWorker() {
		mon.WorkerMain(map[string]func(*mon.Worker){"c07": worker})
		return
	}
	tier := "quick"
	if len(os.Args) > 1 {
		tier = os.Args[1]
	}
	R := mon.Start("C07", tier)
	R.Rule = "inputs = every truncation and every single-byte substitution of 40 small valid BOCs (all header variants, written by the reference writer), truncations/header substitutions of larger and real BOCs, random multi-byte edits, splices, a grid of small headers and the same inputs with their last bytes cut (1..6 bytes of those with the CRC flag at quick, 1..12 of all at thorough), descriptors announcing 5-7 references with a consistent layout (stored hashes for every level mask, data, valid forward references), valid bags of ~70000 distinct cells next to a 40..64-cell fork-bomb chain (both orders), a sweep of every bit length, valid bags at every index width 1..4 x offset width 1..8, adversarial headers from a lying writer (sizes, counts, offsets, root/ref indices self/backward/out of range, ref count 5-7, with-hashes without room, malformed exotic cells, deep chains, diamond ladders, wrong CRC, trailing bytes) and random bytes behind each magic; every input runs in a child process (ulimit -v) under panic/fatal/CPU/allocation monitors, returned roots are walked for soundness and Hash/ToBoc/ToString run under the same monitors; on the generated classes and one input in 128 also Hash256/HashString, ToBocCustom (index, CRC, cache bits), ToBocCustomWithHasher with a hasher shared by the roots, MarshalJSON, the text serialisers and the bit printers; every accepted bag with no or several roots (and the same sample) goes through DeserializeSingleRootBoc / SinglRootHex / SinglRootBase64 / Cell.UnmarshalJSON; one input in 97 through the hex / base64 / JSON entry points, clean and damaged (odd length, empty, blanks, other alphabets, unbalanced quotes); non-trivial = an input that was parsed under the monitors; distinct = distinct (mutation class, case id, outcome/error class)"
	R.Assume(fmt.Sprintf("allocation bound for the parse: %d + %d x len(input) bytes (a minimal cell is 2 input bytes and costs a few hundred bytes of Go objects); CPU bound %v s per input", allocBase, allocPerByte, cpuBound))
	R.Assume("Hash/ToBoc returning an error on a sound but semantically invalid cell (bad exotic cell) is legal; a panic is not")
	corp := corpus(R.Seed(), mon.RepoRoot())
	var jobs []mon.Job
	add := func(class string, seed, n, chunk int) {
		for a := 0; a < n; a += chunk {
			b := a + chunk
			if b > n {
				b = n
			}
			jobs = append(jobs, mon.Job{Name: "c07", Input: job{class, seed, a, b}})
		}
	}
	thorough := R.Thorough()
	fullSubst := 0
	for si, s := range corp {
		small := len(s.B) <= 256
		big := len(s.B) > 100_000
		// truncations: every prefix (first 4 KiB of large seeds)
		nt := len(s.B) + 1
		if nt > 4097 {
			nt = 4097
		}
		if big && !thorough {
			nt = 300
		}
		add("trunc", si, nt, 2000)
		// single-byte substitutions: every position of small seeds, header region of the others
		region := len(s.B)
		switch {
		case small && (thorough || (si < 40 && si%5 == fullSubst%5 && fullSubst < 5)):
			fullSubst++
		case small:
			region = 14
		case big && !thorough:
			region = 0
			if si%4 == 0 {
				region = 14
			}
		case big:
			region = 40
		case thorough:
			if region > 1500 {
				region = 1500
			}
		default:
			region = 40
		}
		if region > len(s.B) {
			region = len(s.B)
		}
		chunk := 20000
		if big {
			chunk = 250
		} else if !small {
			chunk = 4000
		}
		add("subst", si, region*255, chunk)
		ne, ns := R.N(250, 12000), R.N(80, 4000)
		if big {
			ne, ns = ne/10, ns/4
		}
		add("edit", si, ne, 20000)
		add("splice", si, ns, 20000)
	}
	add("grid", 0, gridSize, 4000)
	add("bitlen", 0, 1024*bitLenVariants, 2048)
	add("widths", 0, widthCases, 2048)
	add("gridcut", 0, gridSize*gridCuts, 40000)
	add("refcount", 0, refCountCases, 2048)
	add("bigfork", 0, bigForkCases, 1)
	add("adversarial", 0, R.N(12000, 400000), 4000)
	add("random", 0, R.N(6000, 300000), 20000)
	R.Extra("jobs", len(jobs))
	R.Extra("corpus", len(corp))
	R.RunJobs(jobs, mon.ChildOpts{Parallel: 16, UlimitKiB: 6 << 20, Timeout: childTimeout(), Env: []string{"GOMAXPROCS=2"}}, func(c mon.Crash) {
		if c.CPUExceeded > 0 {
			cls := c.Case
			if i := strings.IndexByte(cls, '/'); i > 0 {
				cls = cls[:i]
			}
			R.Violation("no-return@"+c.CPUStep+"/"+cls, map[string]any{"case": c.Case, "input_hex": mon.HexTrunc(c.Input, 6000), "len": len(c.Input), "cpu_s_when_stopped": c.CPUExceeded, "step": c.CPUStep})
			return
		}
		if c.TimedOut {
			fmt.Fprintf(os.Stderr, "child watchdog: job %d case %q input %d bytes\n%s\n", c.Job, c.Case, len(c.Input), mon.Trunc(c.Stderr, 6000))
			R.Inconclusive("child watchdog (15 min) fired")
			return
		}
		cls := mon.FatalClass(c.Stderr)
		R.Violation("fatal@"+cls, map[string]any{"case": c.Case, "input_hex": mon.HexTrunc(c.Input, 6000), "len": len(c.Input), "exit": c.ExitInfo, "stderr": mon.Trunc(c.Stderr, 2500)})
	})
	os.Exit(R.Finish())
}

// childTimeout: the wall-clock watchdog per child (inconclusive when it fires); VERIF_C07_CHILD_TIMEOUT_S
// shortens it for debugging.
func childTimeout() time.Duration {
	if v := os.Getenv("VERIF_C07_CHILD_TIMEOUT_S"); v != "" {
		var n int
		fmt.Sscanf(v, "%d", &n)
		if n > 0 {
			return time.Duration(n) * time.Second
		}
	}
	return 15 * time.Minute
}
