// Package drv is the fixed driver of C09. It is linked, in a scratch module,
// with the packages tongo's generators produced for a batch of random schemas.
// It receives the schemas (as text in the reference models' syntax) and
// abstract values as JSON, places the values into the generated Go types by
// reflection, runs tongo's codecs and prints one JSON event per vector. It
// takes no decisions: the parent process compares the events with the
// reference encodings.
package drv

import (
	"bufio"
	"bytes"
	"context"
	"encoding/hex"
	"encoding/json"
	"fmt"
	"math/big"
	"os"
	"reflect"
	"runtime/debug"
	"strings"

	"github.com/tonkeeper/tongo/boc"
	ttl "github.com/tonkeeper/tongo/tl"
	"github.com/tonkeeper/tongo/tlb"

	rtl "verifharness/ref/tl"
	"verifharness/ref/tl/bind"
	"verifharness/ref/tl/tlbs"
)

// Pkg is what every generated package exports (see zz_support.go written by the parent).
type Pkg struct {
	Types     map[string]reflect.Type
	NewClient func() any                                   // TL only
	Decode    func(b []byte) (uint32, *string, any, error) // TL only
}

type Vector struct {
	ID     string          `json:"id"`
	Op     string          `json:"op"` // tl: codec | call | reqdec | reject ; tlb: encode
	Target string          `json:"target"`
	Value  json.RawMessage `json:"value"`
	RefHex string          `json:"ref_hex,omitempty"`   // codec: reference bytes to decode; reqdec: request bytes
	Reply  string          `json:"reply_hex,omitempty"` // call: what the stub server answers
}

type SchemaIn struct {
	Pkg     string          `json:"pkg"`
	Kind    string          `json:"kind"` // tl | tlb
	Text    string          `json:"text,omitempty"`
	AST     json.RawMessage `json:"ast,omitempty"`
	Vectors []Vector        `json:"vectors"`
}

type Event struct {
	Pkg  string `json:"pkg"`
	ID   string `json:"id"`
	Op   string `json:"op"`
	Fail string `json:"fail,omitempty"` // the driver could not set the case up (shape mismatch ...)

	Panic      string `json:"panic,omitempty"`
	MarshalHex string `json:"marshal_hex,omitempty"`
	MarshalErr string `json:"marshal_err,omitempty"`

	UnmarshalErr string `json:"unmarshal_err,omitempty"`
	Unread       int    `json:"unread"`
	Decoded      any    `json:"decoded,omitempty"`
	Presence     string `json:"presence,omitempty"`

	SentHex  string `json:"sent_hex,omitempty"`
	Calls    int    `json:"calls,omitempty"`
	CallErr  string `json:"call_err,omitempty"`
	ErrValue any    `json:"err_value,omitempty"` // call returned the generated error type: its fields
	Name     string `json:"name,omitempty"`
	Tag      uint32 `json:"tag,omitempty"`
	GoType   string `json:"go_type,omitempty"`

	BocHex string `json:"boc_hex,omitempty"`
}

var Sentinel = []byte{0xde, 0xad, 0xbe, 0xef, 0x01, 0x02, 0x03}

func Norm(s string) string {
	var b strings.Builder
	for _, c := range strings.ToLower(s) {
		if c >= 'a' && c <= 'z' || c >= '0' && c <= '9' {
			b.WriteRune(c)
		}
	}
	return b.String()
}

func find(p Pkg, key string) (reflect.Type, string, bool) {
	for name, t := range p.Types {
		if Norm(name) == key {
			return t, name, true
		}
	}
	return nil, "", false
}

// TLGoType finds the Go type generated for a schema line.
func TLGoType(p Pkg, s *rtl.Schema, target string) (t reflect.Type, name string, c *rtl.Combinator, boxed bool, ok bool) {
	if f := s.Function(target); f != nil {
		t, name, ok = find(p, Norm(target)+"request")
		return t, name, f, false, ok
	}
	if cs := s.TypeConstructors(target); len(cs) > 1 {
		t, name, ok = find(p, Norm(target))
		return t, name, cs[0], true, ok
	}
	if c = s.Constructor(target); c != nil {
		t, name, ok = find(p, Norm(target)+"c")
		return t, name, c, false, ok
	}
	return nil, "", nil, false, false
}

func guard(ev *Event, f func()) {
	defer func() {
		if r := recover(); r != nil {
			st := string(debug.Stack())
			if len(st) > 3000 {
				st = st[:3000]
			}
			ev.Panic = fmt.Sprint(r) + "\n" + st
		}
	}()
	f()
}

func runTL(p Pkg, in SchemaIn, emit func(Event)) {
	s, err := rtl.Parse(in.Text)
	if err != nil {
		emit(Event{Pkg: in.Pkg, ID: "*", Fail: "driver cannot parse the schema: " + err.Error()})
		return
	}
	for _, v := range in.Vectors {
		ev := Event{Pkg: in.Pkg, ID: v.ID, Op: v.Op}
		var j any
		json.Unmarshal(v.Value, &j)
		switch v.Op {
		case "codec":
			gt, gname, c, boxed, ok := TLGoType(p, s, v.Target)
			if !ok {
				ev.Fail = "no generated Go type for " + v.Target
				break
			}
			ev.GoType = gname
			var o *rtl.Object
			if boxed {
				x, err := s.FromJSON(rtl.Type{Kind: rtl.KBoxed, Name: v.Target}, j)
				if err != nil {
					ev.Fail = err.Error()
					break
				}
				o = x.(*rtl.Object)
			} else if o, err = s.ObjectFromJSON(c, j); err != nil {
				ev.Fail = err.Error()
				break
			}
			gv := reflect.New(gt)
			if err := bind.PopulateObject(s, o, gv.Elem()); err != nil {
				ev.Fail = "shape: " + err.Error()
				break
			}
			guard(&ev, func() {
				b, err := ttl.Marshal(gv.Elem().Interface())
				if err != nil {
					ev.MarshalErr = err.Error()
					return
				}
				ev.MarshalHex = hex.EncodeToString(b)
			})
			if ev.Panic != "" {
				break
			}
			ref, _ := hex.DecodeString(v.RefHex)
			dv := reflect.New(gt)
			rd := bytes.NewReader(append(append([]byte{}, ref...), Sentinel...))
			guard(&ev, func() {
				if err := ttl.Unmarshal(rd, dv.Interface()); err != nil {
					ev.UnmarshalErr = err.Error()
				}
			})
			ev.Unread = rd.Len()
			if ev.Panic == "" && ev.UnmarshalErr == "" {
				back, err := bind.ExtractObject(s, c, dv.Elem())
				if err != nil {
					ev.UnmarshalErr = "value does not map back: " + err.Error()
				} else {
					ev.Decoded = rtl.ToJSON(back)
				}
			}
		case "call":
			f := s.Function(v.Target)
			gt, gname, _, _, ok := TLGoType(p, s, v.Target)
			if f == nil || !ok {
				ev.Fail = "no generated request type for " + v.Target
				break
			}
			ev.GoType = gname
			args, err := s.ObjectFromJSON(f, j)
			if err != nil {
				ev.Fail = err.Error()
				break
			}
			cl := reflect.ValueOf(p.NewClient())
			var m reflect.Value
			for i := 0; i < cl.NumMethod(); i++ {
				if Norm(cl.Type().Method(i).Name) == Norm(v.Target) {
					m = cl.Method(i)
				}
			}
			if !m.IsValid() {
				ev.Fail = "no generated method for " + v.Target
				break
			}
			reply, _ := hex.DecodeString(v.Reply)
			cl.Elem().FieldByName("Reply").SetBytes(reply)
			ins := []reflect.Value{reflect.ValueOf(context.Background())}
			mt := m.Type()
			if mt.NumIn() == 2 {
				rv := reflect.New(gt)
				if err := bind.PopulateObject(s, args, rv.Elem()); err != nil {
					ev.Fail = "shape: " + err.Error()
					break
				}
				if mt.In(1) != gt {
					ev.Fail = fmt.Sprintf("method takes %s, request type is %s", mt.In(1), gt)
					break
				}
				ins = append(ins, rv.Elem())
			} else if len(f.Fields) != 0 || mt.NumIn() != 1 {
				ev.Fail = "method signature " + mt.String()
				break
			}
			var outs []reflect.Value
			guard(&ev, func() { outs = m.Call(ins) })
			ev.SentHex = hex.EncodeToString(cl.Elem().FieldByName("Sent").Bytes())
			ev.Calls = int(cl.Elem().FieldByName("Calls").Int())
			if ev.Panic != "" || len(outs) != 2 {
				break
			}
			if e, _ := outs[1].Interface().(error); e != nil {
				ev.CallErr = e.Error()
				if errC := s.Constructor("liteServer.error"); errC != nil && reflect.TypeOf(e).Kind() == reflect.Struct {
					if back, err := bind.ExtractObject(s, errC, reflect.ValueOf(e)); err == nil {
						ev.ErrValue = rtl.ToJSON(back)
					}
				}
				break
			}
			back, err := bind.Extract(s, rtl.Type{Kind: rtl.KBoxed, Name: f.Result}, outs[0])
			if err != nil {
				ev.UnmarshalErr = "result does not map back: " + err.Error()
			} else {
				ev.Decoded = rtl.ToJSON(back)
			}
		case "reject":
			gt, gname, c, _, ok := TLGoType(p, s, v.Target)
			if !ok {
				ev.Fail = "no generated Go type for " + v.Target
				break
			}
			ev.GoType = gname
			ref, _ := hex.DecodeString(v.RefHex)
			dv := reflect.New(gt)
			rd := bytes.NewReader(ref)
			guard(&ev, func() {
				if err := ttl.Unmarshal(rd, dv.Interface()); err != nil {
					ev.UnmarshalErr = err.Error()
				}
			})
			ev.Unread = rd.Len()
			if ev.Panic == "" && ev.UnmarshalErr == "" {
				if back, err := bind.ExtractObject(s, c, dv.Elem()); err == nil {
					ev.Decoded = rtl.ToJSON(back)
				}
			}
		case "reqdec":
			f := s.Function(v.Target)
			gt, gname, _, _, ok := TLGoType(p, s, v.Target)
			if f == nil || !ok {
				ev.Fail = "no generated request type for " + v.Target
				break
			}
			ev.GoType = gname
			req, _ := hex.DecodeString(v.RefHex)
			guard(&ev, func() {
				tag, name, val, err := p.Decode(req)
				ev.Tag = tag
				if name != nil {
					ev.Name = *name
				}
				if err != nil {
					ev.UnmarshalErr = err.Error()
					return
				}
				rv := reflect.ValueOf(val)
				if !rv.IsValid() || rv.Type() != gt {
					ev.UnmarshalErr = fmt.Sprintf("decoder returned %T, want %s", val, gt)
					return
				}
				back, err := bind.ExtractObject(s, f, rv)
				if err != nil {
					ev.UnmarshalErr = err.Error()
					return
				}
				ev.Decoded = rtl.ToJSON(back)
			})
		default:
			ev.Fail = "unknown op"
		}
		emit(ev)
	}
}

// ---- TL-B ----

func bigFrom(v any) *big.Int { return v.(*big.Int) }

func buildCell(c *tlbs.CellV) (*boc.Cell, error) {
	out := boc.NewCell()
	for _, b := range c.Bits {
		if err := out.WriteBit(b); err != nil {
			return nil, err
		}
	}
	for _, r := range c.Refs {
		rc, err := buildCell(r)
		if err != nil {
			return nil, err
		}
		if err := out.AddRef(rc); err != nil {
			return nil, err
		}
	}
	return out, nil
}

func setInt(dst reflect.Value, v *big.Int) error {
	switch dst.Kind() {
	case reflect.Uint8, reflect.Uint16, reflect.Uint32, reflect.Uint64, reflect.Uint:
		if !v.IsUint64() || dst.OverflowUint(v.Uint64()) {
			return fmt.Errorf("%s overflows %s", v, dst.Type())
		}
		dst.SetUint(v.Uint64())
	case reflect.Int8, reflect.Int16, reflect.Int32, reflect.Int64, reflect.Int:
		if !v.IsInt64() || dst.OverflowInt(v.Int64()) {
			return fmt.Errorf("%s overflows %s", v, dst.Type())
		}
		dst.SetInt(v.Int64())
	case reflect.Struct:
		bi := reflect.ValueOf(*new(big.Int).Set(v))
		if !bi.Type().ConvertibleTo(dst.Type()) {
			return fmt.Errorf("go type %s cannot hold an integer", dst.Type())
		}
		dst.Set(bi.Convert(dst.Type()))
	default:
		return fmt.Errorf("go type %s cannot hold an integer", dst.Type())
	}
	return nil
}

// PopulateTLB stores value v of TL-B type t into dst, positionally.
func PopulateTLB(s *tlbs.Schema, t tlbs.Type, v any, dst reflect.Value) error {
	switch t.K {
	case tlbs.Uint, tlbs.NatW, tlbs.Nat, tlbs.Int, tlbs.Coins, tlbs.VarUInt:
		return setInt(dst, bigFrom(v))
	case tlbs.Bits:
		raw := v.([]byte)
		if dst.Kind() != reflect.Array || dst.Len() != len(raw) {
			return fmt.Errorf("go type %s cannot hold %s", dst.Type(), t)
		}
		reflect.Copy(dst, reflect.ValueOf(raw))
	case tlbs.Bool:
		if dst.Kind() != reflect.Bool {
			return fmt.Errorf("go type %s cannot hold Bool", dst.Type())
		}
		dst.SetBool(v.(bool))
	case tlbs.Addr:
		var a tlb.MsgAddress
		if x := v.(*tlbs.Address); x == nil {
			a.SumType = "AddrNone"
		} else {
			a.SumType = "AddrStd"
			a.AddrStd.WorkchainId = x.Workchain
			a.AddrStd.Address = tlb.Bits256(x.Addr)
		}
		if dst.Type() != reflect.TypeOf(a) {
			return fmt.Errorf("go type %s is not tlb.MsgAddress", dst.Type())
		}
		dst.Set(reflect.ValueOf(a))
	case tlbs.Cell:
		c, err := buildCell(v.(*tlbs.CellV))
		if err != nil {
			return err
		}
		if dst.Type() != reflect.TypeOf(tlb.Any{}) {
			return fmt.Errorf("go type %s is not tlb.Any", dst.Type())
		}
		dst.Set(reflect.ValueOf(tlb.Any(*c)))
	case tlbs.Ref:
		// ^T on a struct field is a tag on the field of type T; as a dictionary value it is tlb.Ref[T]
		if dst.Kind() == reflect.Struct && strings.HasPrefix(dst.Type().Name(), "Ref[") && dst.NumField() == 1 {
			return PopulateTLB(s, *t.A, v, dst.Field(0))
		}
		return PopulateTLB(s, *t.A, v, dst)
	case tlbs.Maybe:
		m := v.(*tlbs.MaybeV)
		if dst.Kind() != reflect.Pointer {
			return fmt.Errorf("go type %s cannot hold %s", dst.Type(), t)
		}
		if !m.Present {
			dst.Set(reflect.Zero(dst.Type()))
			return nil
		}
		p := reflect.New(dst.Type().Elem())
		inner := *t.A
		if inner.K == tlbs.Ref {
			inner = *inner.A // (Maybe ^T): the tag carries the reference
		}
		if err := PopulateTLB(s, inner, m.V, p.Elem()); err != nil {
			return err
		}
		dst.Set(p)
	case tlbs.Either:
		e := v.(*tlbs.EitherV)
		if dst.Kind() != reflect.Struct || dst.NumField() < 2 || dst.Type().Field(0).Name != "IsRight" {
			return fmt.Errorf("go type %s cannot hold %s", dst.Type(), t)
		}
		dst.Field(0).SetBool(e.Right)
		if dst.NumField() == 2 { // EitherRef[T]{IsRight, Value}
			return PopulateTLB(s, *t.A, e.V, dst.Field(1))
		}
		if e.Right {
			return PopulateTLB(s, *t.B, e.V, dst.Field(2))
		}
		return PopulateTLB(s, *t.A, e.V, dst.Field(1))
	case tlbs.HashmapE, tlbs.Hashmap:
		put := dst.Addr().MethodByName("Put")
		if !put.IsValid() || put.Type().NumIn() != 2 {
			return fmt.Errorf("go type %s has no Put(key, value)", dst.Type())
		}
		for _, e := range v.([]tlbs.Entry) {
			k := reflect.New(put.Type().In(0)).Elem()
			switch k.Kind() {
			case reflect.Array:
				raw := make([]byte, (t.N+7)/8)
				e.Key.FillBytes(raw)
				if k.Len() != len(raw) || t.N%8 != 0 {
					return fmt.Errorf("key type %s for %d-bit keys", k.Type(), t.N)
				}
				reflect.Copy(k, reflect.ValueOf(raw))
			default:
				if err := setInt(k, e.Key); err != nil {
					return err
				}
			}
			val := reflect.New(put.Type().In(1)).Elem()
			if err := PopulateTLB(s, *t.A, e.V, val); err != nil {
				return err
			}
			put.Call([]reflect.Value{k, val})
		}
	case tlbs.Anon:
		return populateTLBFields(s, t.Fields, v.(*tlbs.Object).Fields, dst)
	case tlbs.Named:
		o := v.(*tlbs.Object)
		cs := s.Constructors(t.Name)
		if dst.Kind() != reflect.Struct {
			return fmt.Errorf("go type %s cannot hold %s", dst.Type(), t.Name)
		}
		if len(cs) > 1 {
			if dst.NumField() != len(cs)+1 || dst.Type().Field(0).Name != "SumType" {
				return fmt.Errorf("go type %s is not a sum type of %d variants", dst.Type(), len(cs))
			}
			for k, c := range cs {
				if c.Name == o.Ctor {
					dst.Field(0).SetString(dst.Type().Field(k + 1).Name)
					return populateTLBFields(s, c.Fields, o.Fields, dst.Field(k+1))
				}
			}
			return fmt.Errorf("no constructor %s", o.Ctor)
		}
		return populateTLBFields(s, cs[0].Fields, o.Fields, dst)
	default:
		return fmt.Errorf("cannot populate %s", t)
	}
	return nil
}

func populateTLBFields(s *tlbs.Schema, fs []tlbs.Field, vals []any, dst reflect.Value) error {
	if dst.Kind() != reflect.Struct {
		return fmt.Errorf("go type %s is not a struct", dst.Type())
	}
	off := 0
	if dst.NumField() > 0 && dst.Type().Field(0).Name == "Magic" {
		off = 1 // the constructor tag; its value is in the struct tag
	}
	if dst.NumField()-off != len(fs) {
		return fmt.Errorf("go type %s has %d fields, the constructor has %d", dst.Type(), dst.NumField()-off, len(fs))
	}
	for i, f := range fs {
		if err := PopulateTLB(s, f.Type, vals[i], dst.Field(i+off)); err != nil {
			return fmt.Errorf("%s: %w", f.Name, err)
		}
	}
	return nil
}

func runTLB(p Pkg, in SchemaIn, emit func(Event)) {
	var s tlbs.Schema
	if err := json.Unmarshal(in.AST, &s); err != nil {
		emit(Event{Pkg: in.Pkg, ID: "*", Fail: "driver cannot read the schema: " + err.Error()})
		return
	}
	for _, v := range in.Vectors {
		ev := Event{Pkg: in.Pkg, ID: v.ID, Op: v.Op}
		var j any
		json.Unmarshal(v.Value, &j)
		t := tlbs.Type{K: tlbs.Named, Name: v.Target}
		val, err := s.FromJSON(t, j)
		gt, ok := p.Types[v.Target]
		switch {
		case err != nil:
			ev.Fail = err.Error()
		case !ok:
			ev.Fail = "no generated Go type called " + v.Target
		default:
			ev.GoType = gt.String()
			gv := reflect.New(gt)
			if err := PopulateTLB(&s, t, val, gv.Elem()); err != nil {
				ev.Fail = "shape: " + err.Error()
				break
			}
			guard(&ev, func() {
				c := boc.NewCell()
				if err := tlb.Marshal(c, gv.Elem().Interface()); err != nil {
					ev.MarshalErr = err.Error()
					return
				}
				b, err := c.ToBoc()
				if err != nil {
					ev.MarshalErr = "ToBoc: " + err.Error()
					return
				}
				ev.BocHex = hex.EncodeToString(b)
			})
		}
		emit(ev)
	}
}

// Main reads the batch file named by argv[1] and writes events to stdout.
func Main(pkgs map[string]Pkg) {
	raw, err := os.ReadFile(os.Args[1])
	if err != nil {
		fmt.Fprintln(os.Stderr, "driver:", err)
		os.Exit(2)
	}
	var batch []SchemaIn
	if err := json.Unmarshal(raw, &batch); err != nil {
		fmt.Fprintln(os.Stderr, "driver:", err)
		os.Exit(2)
	}
	w := bufio.NewWriterSize(os.Stdout, 1<<20)
	emit := func(e Event) {
		b, err := json.Marshal(e)
		if err != nil {
			b, _ = json.Marshal(Event{Pkg: e.Pkg, ID: e.ID, Op: e.Op, Fail: "event does not marshal: " + err.Error()})
		}
		w.Write(b)
		w.WriteByte('\n')
		w.Flush()
	}
	for _, in := range batch {
		p, ok := pkgs[in.Pkg]
		if !ok {
			emit(Event{Pkg: in.Pkg, ID: "*", Fail: "package not linked"})
			continue
		}
		if in.Kind == "tl" {
			runTL(p, in, emit)
		} else {
			runTLB(p, in, emit)
		}
	}
	emit(Event{Pkg: "*", ID: "done"})
}
