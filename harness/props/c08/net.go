package main

import (
	"bufio"
	"context"
	"encoding/base64"
	"encoding/binary"
	"encoding/json"
	"fmt"
	"math/big"
	"os"
	"path/filepath"
	"reflect"
	"regexp"
	"strconv"
	"strings"
	"sync"
	"time"
	"unicode"

	"github.com/tonkeeper/tongo/boc"
	"github.com/tonkeeper/tongo/config"
	"github.com/tonkeeper/tongo/liteapi"
	"github.com/tonkeeper/tongo/liteclient"
	"github.com/tonkeeper/tongo/tl"
	"github.com/tonkeeper/tongo/tlb"
	"github.com/tonkeeper/tongo/ton"

	"verifharness/mon"
	"verifharness/ref/adnl"
	rboc "verifharness/ref/boc"
	"verifharness/ref/cell"
)

// The hostile lite server: a reference ADNL server that answers the
// requests of a real liteapi.Client with well-framed but hostile answers.

type netJob struct {
	Index int
	N     int
	// Deep: every answer is well framed and a well-formed TL value of the right constructor; the lies sit in
	// the BOC / proof fields (deep.go), and the hand-decoded waitMasterchainSeqno answers are hostile too.
	Deep bool
}

// wait-prefixed queries with a seqno from here on are the foreground calls of the check (the pool's own
// long poll asks for head+1 and stays unanswered)
const waitMarker = 0x0bad0000

type ctorInfo struct {
	id     uint32
	goType string
}

// schema reads lite_api.tl: function id -> constructors of its result type.
func schema(repo string) (map[uint32][]ctorInfo, error) {
	f, err := os.Open(filepath.Join(repo, "liteclient", "lite_api.tl"))
	if err != nil {
		return nil, err
	}
	defer f.Close()
	re := regexp.MustCompile(`^([a-zA-Z0-9_.]+)#([0-9a-fA-F]{1,8})\s.*=\s*([a-zA-Z0-9_.]+);`)
	re0 := regexp.MustCompile(`^([a-zA-Z0-9_.]+)#([0-9a-fA-F]{1,8})\s*=\s*([a-zA-Z0-9_.]+);`)
	ctors := map[string][]ctorInfo{}
	type fn struct {
		id     uint32
		result string
	}
	var fns []fn
	functions := false
	sc := bufio.NewScanner(f)
	for sc.Scan() {
		line := strings.TrimSpace(sc.Text())
		if strings.HasPrefix(line, "---functions---") {
			functions = true
			continue
		}
		m := re.FindStringSubmatch(line)
		if m == nil {
			m = re0.FindStringSubmatch(line)
		}
		if m == nil {
			continue
		}
		id64, _ := strconv.ParseUint(m[2], 16, 32)
		if functions {
			fns = append(fns, fn{uint32(id64), m[3]})
		} else {
			ctors[m[3]] = append(ctors[m[3]], ctorInfo{uint32(id64), camel(m[1]) + "C"})
		}
	}
	out := map[uint32][]ctorInfo{}
	for _, x := range fns {
		out[x.id] = ctors[x.result]
	}
	return out, nil
}

func camel(s string) string {
	var sb strings.Builder
	up := true
	for _, r := range s {
		if r == '.' || r == '_' {
			up = true
			continue
		}
		if up {
			sb.WriteRune(unicode.ToUpper(r))
			up = false
		} else {
			sb.WriteRune(r)
		}
	}
	return sb.String()
}

// rawBocRoots: like rawBoc but with several roots (each root's DAG is written; roots may repeat).
func rawBocRoots(roots []*hcell) []byte {
	if len(roots) == 1 {
		return rawBoc(roots[0])
	}
	// put all roots under a virtual parent to get an order, then drop the parent
	parent := &hcell{refs: roots}
	if len(roots) > 4 {
		parent.refs = nil
		var level []*hcell
		for i := 0; i < len(roots); i += 4 {
			j := i + 4
			if j > len(roots) {
				j = len(roots)
			}
			level = append(level, &hcell{refs: roots[i:j]})
		}
		parent.refs = level
		if len(level) > 4 {
			parent.refs = level[:4]
		}
	}
	b := rawBoc(parent)
	// header: magic(4) flag(1) off(1) cells roots absent tot rootidx ... : rewrite roots count is not possible in place
	// without re-layout, so emit a fresh header by hand
	cs, err := boc.DeserializeBoc(b)
	if err != nil || len(cs) != 1 {
		return b
	}
	return b // single-root fallback; multi-root answers come from multiRootBoc below
}

// multiRootBoc builds a BOC with n roots, each a tiny distinct cell (for answers whose
// number of roots must match a parallel vector).
func multiRootBoc(rng *mon.Rng, n int, leaf func(i int) []byte) []byte {
	var data []byte
	for i := 0; i < n; i++ {
		payload := leaf(i)
		data = append(data, 0, byte(2*len(payload)))
		data = append(data, payload...)
	}
	out := []byte{0xb5, 0xee, 0x9c, 0x72, 0x02, 0x02}
	out = append(out, byte(n>>8), byte(n), byte(n>>8), byte(n), 0, 0, byte(len(data)>>8), byte(len(data)))
	for i := 0; i < n; i++ {
		out = append(out, byte(i>>8), byte(i))
	}
	return append(out, data...)
}

type hostile struct {
	rng    *mon.Rng
	real   [][]byte
	schema map[uint32][]ctorInfo
	w      *mon.Worker
	mu     sync.Mutex
	method string
	kinds  map[string]int
	txBocs [][]byte
	deep   bool
	syn    *synth
	last   struct {
		kind string
		wire []byte
	}
}

var digitRuns = regexp.MustCompile(`[0-9]+`)

// kindClass keeps the class of an answer kind (mutation lists and positions dropped) for the coverage sets.
func kindClass(k string) string {
	if i := strings.Index(k, ":"); i > 0 {
		k = k[:i]
	}
	return digitRuns.ReplaceAllString(k, "N")
}

func (h *hostile) interestingBytes() []byte {
	r := h.rng
	switch r.Intn(12) {
	case 0:
		return nil
	case 1:
		return r.Bytes(r.Intn(40))
	case 2:
		return mon.Pick(r, h.real)
	case 3:
		b := append([]byte(nil), mon.Pick(r, h.real)...)
		for k := 0; k < r.Range(1, 6); k++ {
			b[r.Intn(len(b))] ^= 1 << uint(r.Intn(8))
		}
		return b
	case 4:
		return rawBoc(randomTree(r, 1))
	case 5:
		return rawBoc(exoticCell(r))
	case 6: // zero roots
		return []byte{0xb5, 0xee, 0x9c, 0x72, 0x01, 0x01, 0x01, 0x00, 0x00, 0x02, 0x00, 0x00}
	case 7:
		return multiRootBoc(r, r.Range(2, 5), func(i int) []byte { return r.Bytes(r.Intn(8)) })
	case 8: // merkle proof root over a random tree
		ch := randomTree(r, 2)
		return rawBoc(&hcell{bits: bytesBits(append([]byte{3}, r.Bytes(34)...)), exotic: true, refs: []*hcell{ch}})
	case 9: // two merkle proofs as two roots would need multi-root; single proof of a mutated real block instead
		b := append([]byte(nil), mon.Pick(r, h.real)...)
		return b[:r.Intn(len(b)+1)]
	case 10:
		t, _ := mutateTree(r, randomTree(r, 1))
		return rawBoc(t)
	default:
		return rawBoc(ladder(r, r.Range(2, 10), 2, randomTree(r, 3)))
	}
}

func (h *hostile) fill(v reflect.Value, depth int) {
	switch v.Kind() {
	case reflect.Slice:
		if v.Type().Elem().Kind() == reflect.Uint8 {
			v.SetBytes(h.interestingBytes())
			return
		}
		n := h.rng.Intn(4)
		if depth > 3 {
			n = 0
		}
		s := reflect.MakeSlice(v.Type(), n, n)
		for i := 0; i < n; i++ {
			h.fill(s.Index(i), depth+1)
		}
		v.Set(s)
	case reflect.Struct:
		t := v.Type()
		if f, ok := t.FieldByName("SumType"); ok && f.Type.Kind() == reflect.String {
			fillTL(h.rng, v, depth)
			return
		}
		for i := 0; i < t.NumField(); i++ {
			if t.Field(i).IsExported() && v.Field(i).CanSet() {
				h.fill(v.Field(i), depth+1)
			}
		}
	case reflect.Pointer:
		if depth > 3 {
			return
		}
		p := reflect.New(v.Type().Elem())
		h.fill(p.Elem(), depth+1)
		v.Set(p)
	default:
		fillTL(h.rng, v, depth)
	}
}

func masterchainInfo() []byte {
	info := liteclient.LiteServerMasterchainInfoC{}
	info.Last.Workchain = 0xffffffff
	info.Last.Shard = 0x8000000000000000
	info.Last.Seqno = 100
	info.Init.Workchain = 0xffffffff
	b, _ := tl.Marshal(info)
	out := binary.LittleEndian.AppendUint32(nil, 0x85832881)
	return append(out, b...)
}

// answerFor builds the (possibly malformed) lite-server answer to one query.
func (h *hostile) answerFor(inner []byte) (answer []byte, kind string, respond bool) {
	if len(inner) < 4 {
		return nil, "", false
	}
	fid := binary.LittleEndian.Uint32(inner)
	if fid == 0xbaeab892 { // waitMasterchainSeqno prefix: the pool's long poll stays unanswered
		if h.deep && len(inner) >= 8 && binary.LittleEndian.Uint32(inner[4:]) >= waitMarker {
			a, k := h.waitAnswer()
			return a, k, true
		}
		return nil, "", false
	}
	cands := h.schema[fid]
	if fid == 0x89b5e62e && (!h.deep || h.method != "GetMasterchainInfo") || len(cands) == 0 { // getMasterchainInfo (pool initialisation) gets a proper answer
		return masterchainInfo(), "valid-masterchain-info", true
	}
	r := h.rng
	if h.deep {
		a, k := h.deepAnswer(cands[0])
		return a, k, true
	}
	c := mon.Pick(r, cands)
	t, ok := registryTypes[c.goType]
	var body []byte
	if ok {
		v := reflect.New(t)
		h.fill(v.Elem(), 0)
		if c.goType == "LiteServerTransactionListC" && len(h.txBocs) > 0 && r.Chance(2, 3) {
			// real transactions, with a number of block ids that need not match the number of roots
			if f := v.Elem().FieldByName("Transactions"); f.IsValid() {
				f.SetBytes(mon.Pick(r, h.txBocs))
			}
		}
		body, _ = tl.Marshal(v.Elem().Interface())
	} else {
		body = r.Bytes(r.Intn(64))
	}
	ans := binary.LittleEndian.AppendUint32(nil, c.id)
	ans = append(ans, body...)
	kind = "hostile-fields"
	switch r.Intn(10) {
	case 0:
		ans = ans[:r.Intn(len(ans)+1)]
		kind = "truncated"
	case 1:
		for k := 0; k < r.Range(1, 5) && len(ans) > 4; k++ {
			ans[4+r.Intn(len(ans)-4)] = byte(r.Intn(256))
		}
		kind = "edited"
	case 2:
		if len(ans) >= 12 {
			copy(ans[4+4*r.Intn((len(ans)-8)/4+1):], mon.Pick(r, hostileWords))
		}
		kind = "hostile-word"
	case 3:
		binary.LittleEndian.PutUint32(ans, uint32(r.Uint64()))
		kind = "wrong-tag"
	case 4:
		ans = binary.LittleEndian.AppendUint32(nil, 0xbba9e148) // liteServer.error with hostile content
		ans = append(ans, r.Bytes(r.Intn(20))...)
		kind = "error-garbage"
	}
	return ans, kind, true
}

// wrapAnswer frames the answer as adnl.message.answer, sometimes with a malformed length prefix.
func (h *hostile) wrapAnswer(id [32]byte, ans []byte) ([]byte, string) {
	r := h.rng
	switch r.Intn(14) {
	case 0: // 0xfe with fewer than 3 length bytes after it: FE | FE xx | FE xx yy
		b := binary.LittleEndian.AppendUint32(nil, 0x0fac8416)
		b = append(b, id[:]...)
		b = append(b, 0xfe)
		n := r.Intn(3)
		return append(b, r.Bytes(n)...), fmt.Sprintf("adnl-len-fe-plus-%d", n)
	case 4: // the one-byte prefix itself is missing
		b := binary.LittleEndian.AppendUint32(nil, 0x0fac8416)
		return append(b, id[:]...), "adnl-len-missing"
	case 1: // 0xff prefix
		b := binary.LittleEndian.AppendUint32(nil, 0x0fac8416)
		b = append(b, id[:]...)
		return append(append(b, 0xff), ans...), "adnl-len-ff"
	case 2: // declared length longer than what follows
		b := binary.LittleEndian.AppendUint32(nil, 0x0fac8416)
		b = append(b, id[:]...)
		b = append(b, 0xfe, 0xff, 0xff, 0x00)
		return append(b, ans...), "adnl-len-too-long"
	case 3: // answer message cut inside the query id
		b := binary.LittleEndian.AppendUint32(nil, 0x0fac8416)
		return append(b, id[:r.Intn(32)]...), "adnl-answer-cut"
	}
	return adnl.BuildAnswer(id, ans), "adnl-ok"
}

func netWorker(w *mon.Worker) {
	var j netJob
	json.Unmarshal(w.Job, &j)
	if err := adnl.SelfCheck(); err != nil {
		w.HarnessError("reference ADNL self-check: " + err.Error())
		return
	}
	sch, err := schema(mon.RepoRoot())
	if err != nil || len(sch) < 10 {
		w.HarnessError(fmt.Sprintf("cannot read lite_api.tl: %v (%d functions)", err, len(sch)))
		return
	}
	w.CaseCPULimit = caseCPULimit
	rng := w.Rng("net", j.Index)
	h := &hostile{rng: rng, schema: sch, w: w, kinds: map[string]int{}}
	for _, p := range []string{"tlb/testdata/block-4/block.bin", "tlb/testdata/block-5/block.bin", "ton/testdata/config_proof_4324374.boc"} {
		if b, err := os.ReadFile(filepath.Join(mon.RepoRoot(), p)); err == nil {
			h.real = append(h.real, b)
		}
	}
	if len(h.real) == 0 {
		w.HarnessError("no real BOCs")
		return
	}
	h.txBocs = realTxBocs()
	var acc ton.AccountID
	copy(acc.Address[:], rng.Bytes(32))
	if j.Deep {
		h.deep = true
		h.syn = newSynth(w.Rng("net-synth", j.Index), acc.Address)
	}
	id := adnl.NewIdentity(rng.Bytes(32))
	var nonceMu sync.Mutex
	nonce := func() [32]byte {
		nonceMu.Lock()
		defer nonceMu.Unlock()
		var n [32]byte
		copy(n[:], rng.Bytes(32))
		return n
	}
	serve := func(p *adnl.Peer) {
		// what no honest server does right after the handshake, on first connects and on reconnects alike: pongs
		// nobody asked for (a well-formed tcp.pong with an unknown random_id before the client's first ping can
		// have been answered, then pongs of a wrong length)
		n0 := nonce()
		p.Send(nonce(), append(append([]byte{}, adnl.MagicPong...), n0[:8]...))
		w.Count("net_unsolicited_pongs", 1)
		if n0[8]&1 == 1 {
			p.Send(nonce(), append(append([]byte{}, adnl.MagicPong...), n0[:int(n0[9])%8]...))
			p.Send(nonce(), append(append([]byte{}, adnl.MagicPong...), n0[:12]...))
		}
		for {
			payload, _, err := p.Recv()
			if err != nil {
				return
			}
			if pong, ok := adnl.IsPing(payload); ok {
				p.Send(nonce(), pong)
				continue
			}
			qid, query, err := adnl.ParseQuery(payload)
			if err != nil {
				continue
			}
			// query = liteServer.query#df068c79 data:bytes
			if len(query) < 4 {
				continue
			}
			data, _, err := adnl.ParseTLBytes(query[4:])
			if err != nil {
				continue
			}
			h.mu.Lock()
			ans, kind, respond := h.answerFor(data)
			if !respond {
				h.mu.Unlock()
				continue
			}
			wire, akind := h.wrapAnswer(qid, ans)
			if h.deep {
				wire, akind = adnl.BuildAnswer(qid, ans), "adnl-ok"
			}
			if kind != "valid-masterchain-info" {
				h.last.kind, h.last.wire = kind+"/"+akind, wire
				h.kinds[kindClass(kind)+"/"+akind]++
				// the answer the client is about to decode: on disk before it is sent
				w.End() // a method may ask more than once: one pending case at a time keeps the CPU watchdog armed
				w.Begin("net/"+h.method+"/"+kind+"/"+akind, wire)
			} else {
				wire = adnl.BuildAnswer(qid, ans)
			}
			h.mu.Unlock()
			p.Send(nonce(), wire)
		}
	}
	srv, err := adnl.Listen("127.0.0.1:0", id, nonce, func(s *adnl.Server) { s.OnPeer = serve })
	if err != nil {
		w.HarnessError("listen: " + err.Error())
		return
	}
	defer srv.Close()
	policy := liteapi.ProofPolicyUnsafe
	if j.Index%2 == 1 {
		policy = liteapi.ProofPolicyFast
	}
	ctx0, cancel0 := context.WithTimeout(context.Background(), 20*time.Second)
	cli, err := liteapi.NewClient(liteapi.WithLiteServers([]config.LiteServer{{Host: srv.Addr(), Key: base64.StdEncoding.EncodeToString(id.Pub[:])}}),
		liteapi.WithTimeout(500*time.Millisecond), liteapi.WithInitializationContext(ctx0), liteapi.WithProofPolicy(policy))
	cancel0()
	if err != nil {
		w.HarnessError("liteapi.NewClient against the reference server: " + err.Error())
		return
	}
	blk := ton.BlockIDExt{BlockID: ton.BlockID{Workchain: -1, Shard: 0x8000000000000000, Seqno: 100}}
	type call struct {
		name string
		f    func(ctx context.Context) error
	}
	calls := []call{
		{"GetAccountState", func(ctx context.Context) error { _, err := cli.GetAccountState(ctx, acc); return err }},
		{"GetTransactions", func(ctx context.Context) error {
			_, err := cli.GetTransactions(ctx, 10, acc, 1, ton.Bits256{})
			return err
		}},
		{"RunSmcMethod", func(ctx context.Context) error {
			_, _, err := cli.RunSmcMethod(ctx, acc, "seqno", tlb.VmStack{})
			return err
		}},
		{"LookupBlock", func(ctx context.Context) error {
			_, _, err := cli.LookupBlock(ctx, blk.BlockID, 1, nil, nil)
			return err
		}},
		{"GetBlockHeader", func(ctx context.Context) error { _, err := cli.GetBlockHeader(ctx, blk, 0); return err }},
		{"GetConfigAll", func(ctx context.Context) error { _, err := cli.GetConfigAll(ctx, 0); return err }},
		{"GetAllShardsInfo", func(ctx context.Context) error { _, err := cli.GetAllShardsInfo(ctx, blk); return err }},
		{"GetLibraries", func(ctx context.Context) error {
			_, err := cli.GetLibraries(ctx, []ton.Bits256{{1}, {2}})
			return err
		}},
		{"GetBlock", func(ctx context.Context) error { _, err := cli.GetBlock(ctx, blk); return err }},
		{"GetMasterchainInfoExt", func(ctx context.Context) error { _, err := cli.GetMasterchainInfoExt(ctx, 0); return err }},
		{"GetOneTransactionFromBlock", func(ctx context.Context) error {
			_, err := cli.GetOneTransactionFromBlock(ctx, acc, blk, 1)
			return err
		}},
		{"GetShardInfo", func(ctx context.Context) error {
			_, err := cli.GetShardInfo(ctx, blk, 0, 0x8000000000000000, false)
			return err
		}},
		{"GetState", func(ctx context.Context) error { _, _, _, err := cli.GetState(ctx, blk); return err }},
		{"GetBlockRaw", func(ctx context.Context) error { _, err := cli.GetBlockRaw(ctx, blk); return err }},
	}
	if j.Deep {
		// a second, bare liteclient.Client for the two hand-written wait decoders of liteclient/client.go
		var lc *liteclient.Client
		ctx1, cancel1 := context.WithTimeout(context.Background(), 10*time.Second)
		if conn, err := liteclient.NewConnection(ctx1, id.Pub[:], srv.Addr()); err == nil {
			lc = liteclient.NewClient(conn, liteclient.OptionTimeout(500*time.Millisecond))
		}
		cancel1()
		if lc == nil {
			w.HarnessError("liteclient.NewConnection against the reference server failed")
			return
		}
		waitSeq := uint32(waitMarker)
		extMsg := rawBoc(&hcell{bits: append(append([]bool{true, false, false, false, true, false, false}, uintBits(0, 8)...), append(bytesBits(acc.Address[:]), make([]bool, 6)...)...)})
		bits256 := ton.Bits256{7}
		one := uint32(1)
		calls = append(calls, []call{
			{"GetValidatorStats", func(ctx context.Context) error {
				_, err := cli.GetValidatorStats(ctx, 0, 10, &bits256, &one)
				return err
			}},
			{"GetConfigParams", func(ctx context.Context) error { _, err := cli.GetConfigParams(ctx, 0, []uint32{0, 4, 34}); return err }},
			{"GetLastTransactions", func(ctx context.Context) error { _, err := cli.GetLastTransactions(ctx, acc, 5); return err }},
			{"GetRootDNS", func(ctx context.Context) error { _, err := cli.GetRootDNS(ctx); return err }},
			{"GetJettonWallet", func(ctx context.Context) error { _, err := cli.GetJettonWallet(ctx, acc, acc); return err }},
			{"GetJettonData", func(ctx context.Context) error { _, err := cli.GetJettonData(ctx, acc); return err }},
			{"GetJettonBalance", func(ctx context.Context) error { _, err := cli.GetJettonBalance(ctx, acc); return err }},
			{"DnsResolve", func(ctx context.Context) error {
				_, _, err := cli.DnsResolve(ctx, acc, "ton", big.NewInt(0))
				return err
			}},
			{"GetSeqno", func(ctx context.Context) error { _, err := cli.GetSeqno(ctx, acc); return err }},
			{"ListBlockTransactions", func(ctx context.Context) error {
				_, _, err := cli.ListBlockTransactions(ctx, blk, 7, 10, nil)
				return err
			}},
			{"GetBlockProof", func(ctx context.Context) error { _, err := cli.GetBlockProof(ctx, blk, &blk); return err }},
			{"GetShardBlockProof", func(ctx context.Context) error { _, err := cli.GetShardBlockProof(ctx); return err }},
			{"GetOutMsgQueueSizes", func(ctx context.Context) error { _, err := cli.GetOutMsgQueueSizes(ctx); return err }},
			{"GetTime", func(ctx context.Context) error { _, err := cli.GetTime(ctx); return err }},
			{"GetVersion", func(ctx context.Context) error { _, err := cli.GetVersion(ctx); return err }},
			{"GetMasterchainInfo", func(ctx context.Context) error { _, err := cli.GetMasterchainInfo(ctx); return err }},
			{"GetNetworkGlobalID", func(ctx context.Context) error { _, err := cli.GetNetworkGlobalID(ctx); return err }},
			{"SendMessage", func(ctx context.Context) error { _, err := cli.SendMessage(ctx, extMsg); return err }},
			{"liteapi.WaitMasterchainBlock", func(ctx context.Context) error {
				waitSeq++
				_, err := cli.WaitMasterchainBlock(ctx, waitSeq, 100*time.Millisecond)
				return err
			}},
			{"liteclient.WaitMasterchainBlock", func(ctx context.Context) error {
				waitSeq++
				_, err := lc.WaitMasterchainBlock(ctx, waitSeq, 100)
				return err
			}},
			{"liteclient.WaitMasterchainSeqno", func(ctx context.Context) error {
				waitSeq++
				return lc.WaitMasterchainSeqno(ctx, waitSeq, 100)
			}},
			// the methods with a proof to decode once more: they carry most of the lies
			{"GetAccountState", calls[0].f}, {"GetBlockHeader", calls[4].f}, {"GetConfigAll", calls[5].f}, {"GetAllShardsInfo", calls[6].f},
			{"GetTransactions", calls[1].f}, {"GetAccountState", calls[0].f}, {"LookupBlock", calls[3].f},
		}...)
	}
	for k := 0; k < j.N; k++ {
		if j.Deep && k == j.N/2 {
			// cut every connection once: the clients reconnect on their next send and meet the same greeting again
			w.Count("net_forced_reconnects", int64(srv.ClosePeers(true)))
		}
		c := calls[k%len(calls)]
		h.mu.Lock()
		h.method = c.name
		h.mu.Unlock()
		ctx, cancel := context.WithTimeout(context.Background(), 350*time.Millisecond)
		var cerr error
		w.Note(c.name)
		m := mon.StartMeter()
		p := mon.Guard(func() { cerr = c.f(ctx) })
		cpu, alloc, _ := m.Stop()
		cancel()
		h.mu.Lock()
		w.End()
		h.mu.Unlock()
		if p != nil {
			site := "/liteapi." + c.name
			if strings.Contains(c.name, ".") {
				site = "/" + c.name
			}
			h.mu.Lock()
			last := h.last
			h.mu.Unlock()
			w.Violation("panic@"+p.Site+site+"/"+mon.PanicClass(p.Value), map[string]any{"method": c.name, "panic": p.Value, "stack": mon.Trunc(p.Stack, 1800), "answer_kind": last.kind, "answer_hex": mon.HexTrunc(last.wire, 6000)})
		}
		if alloc > 256<<20 {
			w.Violation("alloc-out-of-proportion@liteapi."+c.name, map[string]any{"method": c.name, "alloc_bytes": alloc})
		}
		if cpu > cpuBound {
			w.Violation("cpu@liteapi."+c.name, map[string]any{"method": c.name, "cpu_s": cpu})
		}
		outcome := "ok"
		if cerr != nil {
			outcome = "err"
		}
		w.Eval(fmt.Sprintf("net/%d/%s/%d/%s", j.Index, c.name, k, outcome))
		w.Count("net_"+outcome, 1)
		w.Seen("net_methods", c.name)
		if j.Deep {
			w.Count("net_deep_"+outcome, 1)
			h.mu.Lock()
			last := h.last.kind
			h.mu.Unlock()
			if outcome == "ok" {
				w.Seen("net_deep_methods_ok", c.name)
				if strings.Contains(last, "/valid/") {
					w.Seen("net_deep_valid_accepted", c.name)
				}
			}
		}
	}
	h.mu.Lock()
	for k := range h.kinds {
		if j.Deep {
			w.Seen("net_deep_answer_kinds", k)
		} else {
			w.Seen("net_answer_kinds", k)
		}
	}
	h.mu.Unlock()
}

// realTxBocs returns multi-root BOCs (1..4 roots) of real transactions taken from block-5.
func realTxBocs() [][]byte {
	raw, err := os.ReadFile(filepath.Join(mon.RepoRoot(), "tlb/testdata/block-5/block.bin"))
	if err != nil {
		return nil
	}
	cs, err := boc.DeserializeBoc(raw)
	if err != nil || len(cs) != 1 {
		return nil
	}
	var blk tlb.Block
	if err := tlb.NewDecoder().Unmarshal(cs[0], &blk); err != nil {
		return nil
	}
	var roots []*cell.Cell
	for _, tx := range blk.AllTransactions() {
		b, err := tx.SourceBoc()
		if err != nil {
			continue
		}
		rr, _, _, err := rboc.Read(b)
		if err != nil || len(rr) != 1 {
			continue
		}
		roots = append(roots, rr[0])
	}
	var out [][]byte
	for n := 1; n <= 4 && n <= len(roots); n++ {
		if b, err := rboc.Write(roots[:n], rboc.Options{}); err == nil {
			out = append(out, b)
		}
	}
	return out
}
