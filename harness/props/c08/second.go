package main

// Second-stage decoders: functions of the anchored tlb files that keep decoding an
// already decoded, still untrusted value (a VM stack mapped onto a Go result type, the
// lazily kept dictionaries of a block, content data ...). They run on every value that
// a first-stage decode of a hostile tree accepted, and on stacks shaped after the
// result types of the library's get-method decoders.

import (
	"fmt"
	"math/big"
	"os"
	"path/filepath"
	"reflect"
	"regexp"
	"sort"
	"strconv"
	"strings"

	"github.com/tonkeeper/tongo/abi"
	"github.com/tonkeeper/tongo/boc"
	"github.com/tonkeeper/tongo/tlb"

	"verifharness/mon"
)

type stage2 struct {
	w      *mon.Worker
	name   string
	raw    []byte
	n      int
	kind   string
	caseID string
}

func (s *stage2) run(op string, f func() error) {
	s.w.Begin("tlb2/"+s.name+"/"+s.caseID+"/"+op, s.raw)
	s.w.Note(op)
	m := mon.StartMeter()
	var err error
	p := mon.Guard(func() { err = f() })
	cpu, alloc, _ := m.Stop()
	s.w.End()
	wit := func() map[string]any {
		return map[string]any{"type": s.name, "op": op, "tree_kind": s.kind, "unfolded_bytes": s.n, "boc_hex": mon.HexTrunc(s.raw, 5000)}
	}
	cls := op
	if i := strings.IndexByte(cls, '['); i > 0 {
		cls = cls[:i]
	}
	if p != nil {
		x := wit()
		x["panic"], x["stack"] = p.Value, mon.Trunc(p.Stack, 1500)
		s.w.Violation("panic@"+p.Site+"/"+cls+"/"+mon.PanicClass(p.Value), x)
		s.w.Eval("tlb2/panic/" + s.name + "/" + cls)
		return
	}
	if alloc > uint64(2*(tlbAllocBase+tlbAllocPerB*s.n)) {
		x := wit()
		x["alloc_bytes"], x["bound"] = alloc, 2*(tlbAllocBase+tlbAllocPerB*s.n)
		s.w.Violation("alloc-out-of-proportion@"+cls, x)
	}
	if cpu > cpuBound {
		x := wit()
		x["cpu_s"] = cpu
		s.w.Violation("cpu@"+cls, x)
	}
	outcome := "ok"
	if err != nil {
		outcome = "err"
	}
	s.w.Eval(fmt.Sprintf("tlb2/%s/%s/%s/%s", s.name, s.caseID, op, outcome))
	s.w.Count("second_stage_"+outcome, 1)
	s.w.Seen("second_stage_ops", cls)
}

// stackShape is what one generated get-method decoder of abi/get_methods.go asks of a stack before it maps it
// onto its result type: the length (exact or at least) and the value kinds allowed at every position.
type stackShape struct {
	n       int
	atLeast bool
	kinds   [][]string
}

var (
	reLenCheck = regexp.MustCompile(`len\(stack\) (!=|<) (\d+)`)
	reKindAlt  = regexp.MustCompile(`stack\[(\d+)\]\.SumType != "(\w+)"`)
)

// stackShapes reads the length / kind conditions out of abi/get_methods.go of the tree under check (a generator
// hint only: which stacks get past the decoders' first line; nothing is decided with it).
func stackShapes() []stackShape {
	b, err := os.ReadFile(filepath.Join(mon.RepoRoot(), "abi", "get_methods.go"))
	if err != nil {
		return nil
	}
	seen := map[string]bool{}
	var out []stackShape
	for _, line := range strings.Split(string(b), "\n") {
		m := reLenCheck.FindStringSubmatch(line)
		if m == nil || seen[strings.TrimSpace(line)] {
			continue
		}
		seen[strings.TrimSpace(line)] = true
		n, _ := strconv.Atoi(m[2])
		if n > 32 {
			continue
		}
		sh := stackShape{n: n, atLeast: m[1] == "<", kinds: make([][]string, n)}
		for _, k := range reKindAlt.FindAllStringSubmatch(line, -1) {
			i, _ := strconv.Atoi(k[1])
			if i < n {
				sh.kinds[i] = append(sh.kinds[i], k[2])
			}
		}
		out = append(out, sh)
	}
	return out
}

var getMethodDecoders = func() []string {
	var names []string
	for n := range abi.KnownGetMethodsDecoder {
		names = append(names, n)
	}
	sort.Strings(names)
	return names
}()

// plain destination shapes in the style of the generated result types
type destA struct {
	A uint32
	B int64
}
type destB struct {
	A tlb.Int257
	B tlb.Bits256
	C bool
}
type destC struct {
	A tlb.MsgAddress
	B boc.Cell
	C *tlb.MsgAddress
}
type destD struct {
	A []struct {
		X int64
		Y tlb.Bits256
	}
}
type destE struct {
	A struct {
		X uint64
		Y tlb.MsgAddress
	}
	B *boc.Cell
}
type destF struct {
	A []tlb.Int257
	B tlb.Any
	C tlb.Bits256
	D uint8
}

var destShapes = []reflect.Type{reflect.TypeOf(destA{}), reflect.TypeOf(destB{}), reflect.TypeOf(destC{}), reflect.TypeOf(destD{}), reflect.TypeOf(destE{}), reflect.TypeOf(destF{})}

func (s *stage2) stack(st tlb.VmStack, prefer reflect.Type) {
	if prefer != nil {
		s.run("VmStack.Unmarshal["+prefer.String()+"]", func() error { return st.Unmarshal(reflect.New(prefer).Interface()) })
	}
	pick := int(mon.Hash64(s.caseID+s.name) % 1000)
	d := destShapes[pick%len(destShapes)]
	s.run("VmStack.Unmarshal["+d.Name()+"]", func() error { return st.Unmarshal(reflect.New(d).Interface()) })
	s.run("abi.KnownGetMethodsDecoder", func() error {
		acc := 0
		for _, n := range getMethodDecoders {
			for _, f := range abi.KnownGetMethodsDecoder[n] {
				if _, _, err := f(st); err == nil {
					acc++
					s.w.Seen("get_methods_accepting_a_stack", n)
				}
			}
		}
		s.w.Count("get_method_decodes_accepted", int64(acc))
		return nil
	})
	for i := range st {
		if i >= 6 {
			break
		}
		s.value(st[i], fmt.Sprint(i))
	}
}

func (s *stage2) value(v tlb.VmStackValue, pos string) {
	switch v.SumType {
	case "VmStkTinyInt", "VmStkInt":
		var a uint32
		var b tlb.Bits256
		var c tlb.Int257
		var d bool
		var e *int64
		s.run("VmStackValue.Unmarshal[int]", func() error {
			v.Unmarshal(&a)
			v.Unmarshal(&b)
			v.Unmarshal(&c)
			v.Unmarshal(&d)
			return v.Unmarshal(&e)
		})
	case "VmStkSlice":
		s.run("VmCellSlice.Cell", func() error { v.VmStkSlice.Cell(); return nil })
		s.run("VmCellSlice.UnmarshalToTlbStruct", func() error {
			var a tlb.MsgAddress
			v.VmStkSlice.UnmarshalToTlbStruct(&a)
			var m tlb.Message
			v.VmStkSlice.UnmarshalToTlbStruct(&m)
			var c boc.Cell
			return v.Unmarshal(&c)
		})
	case "VmStkCell":
		s.run("VmStackValue.Unmarshal[cell]", func() error {
			var c tlb.FullContent
			v.Unmarshal(&c)
			var d tlb.DNSRecordSet
			return v.Unmarshal(&d)
		})
	case "VmStkTuple":
		t := v.VmStkTuple
		s.tuple(&t)
	}
}

func (s *stage2) tuple(t *tlb.VmStkTuple) {
	s.run("VmStkTuple.RecursiveToSlice", func() error { _, err := t.RecursiveToSlice(); return err })
	if t.Data != nil {
		s.run("VmTuple.RecursiveToSlice", func() error { _, err := t.Data.RecursiveToSlice(int(t.Len)); return err })
	}
	s.run("VmStkTuple.Unmarshal", func() error {
		var a []int64
		t.Unmarshal(&a)
		var b []tlb.VmStackValue
		t.Unmarshal(&b)
		var c struct {
			X uint64
			Y tlb.MsgAddress
		}
		t.Unmarshal(&c)
		var d struct {
			X tlb.Int257
			Y tlb.Bits256
			Z boc.Cell
		}
		t.Unmarshal(&d)
		var e []struct {
			X int64
			Y tlb.Bits256
		}
		return t.Unmarshal(&e)
	})
}

func (s *stage2) blockExtra(x *tlb.BlockExtra) {
	s.run("BlockExtra.InMsgDescrLength", func() error { _, err := x.InMsgDescrLength(); return err })
	s.run("BlockExtra.InMsgDescr", func() error { _, err := x.InMsgDescr(); return err })
	s.run("BlockExtra.OutMsgDescrLength", func() error { _, err := x.OutMsgDescrLength(); return err })
	s.run("BlockExtra.OutMsgDescr", func() error { _, err := x.OutMsgDescr(); return err })
}

func secondStage(w *mon.Worker, typeName string, out reflect.Value, raw []byte, n int, kind, caseID string) {
	s := &stage2{w: w, name: typeName, raw: raw, n: n, kind: kind, caseID: caseID}
	switch v := out.Interface().(type) {
	case *tlb.VmStack:
		s.stack(*v, nil)
	case *tlb.VmStackValue:
		s.value(*v, "0")
	case *tlb.VmStkTuple:
		s.tuple(v)
	case *tlb.VmCellSlice:
		s.value(tlb.VmStackValue{SumType: "VmStkSlice", VmStkSlice: *v}, "0")
	case *tlb.BlockExtra:
		s.blockExtra(v)
	case *tlb.Block:
		s.blockExtra(&v.Extra)
		s.run("Block.AllTransactions", func() error { v.TransactionsQuantity(); v.AllTransactions(); return nil })
	case *tlb.ShardState:
		s.run("ShardState.AccountBalances", func() error { v.AccountBalances(); return nil })
	case *tlb.ContentData:
		s.run("ContentData.Bytes", func() error { _, err := v.Bytes(); return err })
	case *tlb.FullContent:
		s.run("ContentData.Bytes", func() error {
			for _, x := range v.Onchain.Data.Values() {
				x.Value.Bytes()
			}
			return nil
		})
	}
}

// ---------------------------------------------------------------- VM stacks written from block.tlb
//
//	vm_stack#_ depth:(## 24) stack:(VmStackList depth) = VmStack;
//	vm_stk_cons#_ {n:#} rest:^(VmStackList n) tos:VmStackValue = VmStackList (n + 1);
//	vm_stk_nil#_ = VmStackList 0;
//	vm_stk_null#00 | vm_stk_tinyint#01 value:int64 | vm_stk_int#0201_ value:int257 | vm_stk_nan#02ff
//	vm_stk_cell#03 cell:^Cell | vm_stk_slice#04 _:VmCellSlice | vm_stk_builder#05 cell:^Cell
//	vm_stk_tuple#07 len:(## 16) data:(VmTuple len)
//	_ cell:^Cell st_bits:(## 10) end_bits:(## 10) { st_bits <= end_bits } st_ref:(#<= 4) end_ref:(#<= 4) = VmCellSlice;
//	vm_tupref_nil$_ = VmTupleRef 0; vm_tupref_single$_ entry:^VmStackValue = VmTupleRef 1;
//	vm_tupref_any$_ {n:#} ref:^(VmTuple (n + 2)) = VmTupleRef (n + 2);
//	vm_tuple_nil$_ = VmTuple 0; vm_tuple_tcons$_ {n:#} head:(VmTupleRef n) tail:^VmStackValue = VmTuple (n + 1);

type sval struct {
	bits []bool
	refs []*hcell
}

func uintBits(v uint64, n int) []bool {
	out := make([]bool, n)
	for i := 0; i < n; i++ {
		out[i] = v>>uint(n-1-i)&1 == 1
	}
	return out
}

func bigBits(x *big.Int, n int) []bool { // two's complement, n bits
	m := new(big.Int).Lsh(big.NewInt(1), uint(n))
	y := new(big.Int).Mod(x, m)
	out := make([]bool, n)
	for i := 0; i < n; i++ {
		out[i] = y.Bit(n-1-i) == 1
	}
	return out
}

func svNull() sval            { return sval{bits: uintBits(0, 8)} }
func svNan() sval             { return sval{bits: uintBits(0x02ff, 16)} }
func svTiny(v int64) sval     { return sval{bits: append(uintBits(1, 8), uintBits(uint64(v), 64)...)} }
func svInt(x *big.Int) sval   { return sval{bits: append(uintBits(0x0201>>1, 15), bigBits(x, 257)...)} }
func svCell(c *hcell) sval    { return sval{bits: uintBits(3, 8), refs: []*hcell{c}} }
func svBuilder(c *hcell) sval { return sval{bits: uintBits(5, 8), refs: []*hcell{c}} }
func svSlice(c *hcell, stB, endB, stR, endR int) sval {
	b := uintBits(4, 8)
	b = append(b, uintBits(uint64(stB), 10)...)
	b = append(b, uintBits(uint64(endB), 10)...)
	b = append(b, uintBits(uint64(stR), 3)...)
	b = append(b, uintBits(uint64(endR), 3)...)
	return sval{bits: b, refs: []*hcell{c}}
}
func svWhole(c *hcell) sval { return svSlice(c, 0, len(c.bits), 0, len(c.refs)) }

func svCellOf(v sval) *hcell { return &hcell{bits: v.bits, refs: v.refs} }

func tupleInline(vals []sval) sval {
	n := len(vals)
	if n == 0 {
		return sval{}
	}
	var out sval
	switch {
	case n-1 == 1:
		out.refs = append(out.refs, svCellOf(vals[0]))
	case n-1 >= 2:
		out.refs = append(out.refs, svCellOf(tupleInline(vals[:n-1])))
	}
	out.refs = append(out.refs, svCellOf(vals[n-1]))
	return out
}

// svTuple: declared is the len field (a lie when it differs from len(vals)).
func svTuple(vals []sval, declared int) sval {
	in := tupleInline(vals)
	return sval{bits: append(uintBits(7, 8), uintBits(uint64(declared), 16)...), refs: in.refs}
}

// svList: the recursive list form (a, (b, (c, null))) that RecursiveToSlice unfolds.
func svList(vals []sval) sval {
	cur := svNull()
	for i := len(vals) - 1; i >= 0; i-- {
		cur = svTuple([]sval{vals[i], cur}, 2)
	}
	return cur
}

// stackCell writes the stack whose Go form is vals[0], vals[1], ... (vals[len-1] is the top); declared is
// the depth field.
func stackCell(vals []sval, declared int) *hcell {
	list := &hcell{} // vm_stk_nil
	for _, v := range vals {
		list = &hcell{bits: v.bits, refs: append([]*hcell{list}, v.refs...)}
	}
	root := &hcell{bits: append(uintBits(uint64(declared), 24), list.bits...), refs: list.refs}
	return root
}

var bigEdge = func() []*big.Int {
	one := big.NewInt(1)
	p := func(n uint) *big.Int { return new(big.Int).Lsh(one, n) }
	neg := func(x *big.Int) *big.Int { return new(big.Int).Neg(x) }
	sub1 := func(x *big.Int) *big.Int { return new(big.Int).Sub(x, one) }
	return []*big.Int{big.NewInt(0), one, big.NewInt(-1), p(63), sub1(p(63)), neg(p(63)), p(64), p(255), sub1(p(256)), neg(p(255)), neg(sub1(p(256))), neg(p(256)), sub1(p(248))}
}()

type stackGen struct {
	rng  *mon.Rng
	seed func(t reflect.Type) *hcell // a valid encoding of t (nil if none)
}

func (g *stackGen) anyInt() sval {
	r := g.rng
	switch r.Intn(4) {
	case 0:
		return svTiny(int64(r.Uint64() >> uint(r.Intn(64))))
	case 1:
		return svTiny(mon.Pick(r, []int64{0, 1, -1, 1 << 62, -1 << 63, 1<<63 - 1}))
	case 2:
		return svInt(mon.Pick(r, bigEdge))
	default:
		x := new(big.Int).SetBytes(r.Bytes(r.Range(1, 32)))
		if r.Bool() {
			x.Neg(x)
		}
		return svInt(x)
	}
}

func (g *stackGen) cellFor(t reflect.Type) *hcell {
	r := g.rng
	if t != nil && g.seed != nil && r.Chance(3, 4) {
		if h := g.seed(t); h != nil {
			if r.Chance(1, 3) {
				h, _ = mutateTree(r, h)
			}
			return h
		}
	}
	return randomTree(r, 2)
}

func (g *stackGen) sliceOver(c *hcell) sval {
	r := g.rng
	if r.Chance(2, 3) {
		return svWhole(c)
	}
	// any window; st <= end and end within the cell are what the decoder accepts, the others must be refused
	a, b := r.Intn(len(c.bits)+2), r.Intn(len(c.bits)+2)
	if r.Chance(4, 5) && a > b {
		a, b = b, a
	}
	x, y := r.Intn(5), r.Intn(5)
	if r.Chance(4, 5) && x > y {
		x, y = y, x
	}
	if r.Chance(4, 5) && y > len(c.refs) {
		y = len(c.refs)
		if x > y {
			x = y
		}
	}
	return svSlice(c, a&1023, b&1023, x, y)
}

var (
	tBigInt  = reflect.TypeOf(big.Int{})
	tBits256 = reflect.TypeOf(tlb.Bits256{})
	tCell    = reflect.TypeOf(boc.Cell{})
	tAny     = reflect.TypeOf(tlb.Any{})
)

// forType: a stack value of the kind VmStackValue.Unmarshal maps onto t, now and then another kind.
func (g *stackGen) forType(t reflect.Type, depth int) sval {
	r := g.rng
	if r.Chance(1, 8) {
		return g.anyValue(depth)
	}
	switch {
	case t.Kind() == reflect.Pointer:
		if r.Chance(1, 3) {
			return svNull()
		}
		return g.forType(t.Elem(), depth)
	case t.Kind() == reflect.Bool, t.Kind() >= reflect.Int && t.Kind() <= reflect.Uint64:
		return g.anyInt()
	case t.ConvertibleTo(tBigInt) && t.Kind() == reflect.Struct, t == tBits256:
		return g.anyInt()
	case t == tCell || t == tAny:
		if r.Bool() {
			return svCell(g.cellFor(nil))
		}
		return g.sliceOver(g.cellFor(nil))
	case t.Kind() == reflect.Slice && t.Elem().Kind() != reflect.Uint8:
		if depth > 2 || r.Chance(1, 4) {
			return svNull()
		}
		var vals []sval
		for i := 0; i < r.Intn(4); i++ {
			vals = append(vals, g.forType(t.Elem(), depth+1))
		}
		if len(vals) == 0 {
			return svNull()
		}
		return svList(vals)
	case t.Kind() == reflect.Struct:
		switch r.Intn(4) {
		case 0:
			if depth <= 2 && t.NumField() > 0 && t.NumField() <= 8 {
				var vals []sval
				for i := 0; i < t.NumField(); i++ {
					vals = append(vals, g.forType(t.Field(i).Type, depth+1))
				}
				d := len(vals)
				if r.Chance(1, 5) {
					d = r.Intn(len(vals) + 3)
				}
				return svTuple(vals, d)
			}
			fallthrough
		case 1:
			return svCell(g.cellFor(t))
		default:
			return g.sliceOver(g.cellFor(t))
		}
	}
	return g.anyValue(depth)
}

func (g *stackGen) anyValue(depth int) sval {
	r := g.rng
	switch r.Intn(9) {
	case 0:
		return svNull()
	case 1:
		return svNan()
	case 2, 3:
		return g.anyInt()
	case 4:
		return svCell(randomTree(r, 3))
	case 5:
		return g.sliceOver(randomTree(r, 3))
	case 6:
		return svBuilder(randomTree(r, 3))
	default:
		if depth > 2 {
			return svNull()
		}
		var vals []sval
		for i := 0; i < r.Intn(5); i++ {
			vals = append(vals, g.anyValue(depth+1))
		}
		switch r.Intn(3) {
		case 0:
			return svTuple(vals, len(vals))
		case 1:
			return svTuple(vals, r.Intn(len(vals)+3))
		default:
			return svList(vals)
		}
	}
}

// valueOfKind: a stack value of the named constructor with hostile content.
func (g *stackGen) valueOfKind(kind string) sval {
	r := g.rng
	pool := func() *hcell {
		if g.seed != nil && r.Chance(2, 3) {
			if h := g.seed(mon.Pick(r, seedTypes)); h != nil {
				if r.Chance(1, 3) {
					h, _ = mutateTree(r, h)
				}
				return h
			}
		}
		return randomTree(r, 2)
	}
	switch kind {
	case "VmStkTinyInt":
		if r.Bool() {
			return svTiny(int64(r.Uint64() >> uint(r.Intn(64))))
		}
		return svTiny(mon.Pick(r, []int64{0, 1, -1, 1 << 62, -1 << 63, 1<<63 - 1}))
	case "VmStkInt":
		if r.Bool() {
			return svInt(mon.Pick(r, bigEdge))
		}
		x := new(big.Int).SetBytes(r.Bytes(r.Range(1, 32)))
		if r.Bool() {
			x.Neg(x)
		}
		return svInt(x)
	case "VmStkCell":
		return svCell(pool())
	case "VmStkSlice":
		return g.sliceOver(pool())
	case "VmStkNull":
		return svNull()
	case "VmStkTuple":
		var vals []sval
		for i := 0; i < r.Intn(5); i++ {
			if r.Chance(1, 3) {
				vals = append(vals, g.valueOfKind(mon.Pick(r, []string{"VmStkTinyInt", "VmStkInt", "VmStkSlice", "VmStkCell"})))
			} else {
				vals = append(vals, g.anyValue(1))
			}
		}
		switch r.Intn(4) {
		case 0:
			return svTuple(vals, r.Intn(len(vals)+3))
		case 1:
			return svList(vals)
		default:
			return svTuple(vals, len(vals))
		}
	}
	return g.anyValue(0)
}

var seedTypes = []reflect.Type{reflect.TypeOf(tlb.MsgAddress{}), reflect.TypeOf(tlb.MsgAddress{}), reflect.TypeOf(tlb.FullContent{}), reflect.TypeOf(tlb.StateInit{}), reflect.TypeOf(tlb.DNSRecordSet{}), reflect.TypeOf(tlb.Message{}), reflect.TypeOf(tlb.Grams(0))}

// shaped: a stack that gets past the first line of the decoders with this shape; sometimes one value too few /
// too many / of another kind, or a lying depth field.
func (g *stackGen) shaped(sh stackShape) (*hcell, string) {
	r := g.rng
	var vals []sval
	for i := 0; i < sh.n; i++ {
		if len(sh.kinds[i]) == 0 {
			vals = append(vals, g.anyValue(0))
		} else {
			vals = append(vals, g.valueOfKind(mon.Pick(r, sh.kinds[i])))
		}
	}
	if sh.atLeast {
		for i := 0; i < r.Intn(3); i++ {
			vals = append(vals, g.anyValue(0))
		}
	}
	desc := "shaped"
	switch r.Intn(12) {
	case 0:
		if len(vals) > 0 {
			vals = vals[:len(vals)-1]
			desc = "one-short"
		}
	case 1:
		vals = append(vals, g.anyValue(0))
		desc = "one-more"
	case 2:
		if len(vals) > 0 {
			vals[r.Intn(len(vals))] = g.anyValue(0)
			desc = "other-kind"
		}
	}
	declared := len(vals)
	if r.Chance(1, 12) {
		declared = mon.Pick(r, []int{0, 1, len(vals) + 1, 255, 0xffffff})
		desc += "+depth-lie"
	}
	return stackCell(vals, declared), desc
}

// ---------------------------------------------------------------- dns_adnl_address written from block.tlb
//
//	dns_adnl_address#ad01 adnl_addr:bits256 flags:(## 8) { flags <= 1 } proto_list:flags . 0?ProtoList = DNSRecord;
//	proto_list_nil$0 = ProtoList; proto_list_next$1 head:Protocol tail:ProtoList = ProtoList; proto_http#4854 = Protocol;

type dnsCase struct {
	cell *hcell
	desc string
	seed bool
}

// dnsAdnlRecords: flags 0..3, protocol lists of 0..3 entries with the known and with unknown protocol tags (with
// and without the list the flags announce), each record whole and cut after every bit behind the address.
func dnsAdnlRecords(r *mon.Rng) []dnsCase {
	tags := []uint64{0x4854, 0x0000, 0x4855, 0xffff}
	var out []dnsCase
	for flags := 0; flags < 4; flags++ {
		for n := 0; n <= 3; n++ {
			combos := 1
			for i := 0; i < n; i++ {
				combos *= len(tags)
			}
			for combo := 0; combo < combos; combo++ {
				if n == 3 && combo%5 != 0 {
					continue
				}
				bits := append(uintBits(0xad01, 16), r.Bits(256)...)
				bits = append(bits, uintBits(uint64(flags), 8)...)
				x := combo
				desc := fmt.Sprintf("flags=%d list=", flags)
				for i := 0; i < n; i++ {
					t := tags[x%len(tags)]
					x /= len(tags)
					bits = append(append(bits, true), uintBits(t, 16)...)
					desc += fmt.Sprintf("%04x,", t)
				}
				bits = append(bits, false)
				out = append(out, dnsCase{&hcell{bits: bits}, desc, n <= 1 && combo <= 1})
				for cut := 272; cut < len(bits); cut++ {
					out = append(out, dnsCase{&hcell{bits: append([]bool(nil), bits[:cut]...)}, fmt.Sprintf("%s cut at bit %d", desc, cut), false})
				}
				// the list is missing although the flags announce it / followed by stray bits
				out = append(out, dnsCase{&hcell{bits: append(append([]bool(nil), bits...), r.Bits(r.Intn(40))...)}, desc + " +stray bits", false})
			}
		}
	}
	return out
}
