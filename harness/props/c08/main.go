// C08 — TL-B and TL decoders are total on untrusted input.
// Crash / fatal / CPU / allocation monitors over (TL-B type x hostile cell
// tree), (TL type x hostile bytes) and the helpers that sit on network data.
// See DESIGN.md §5 C08.
package main

import (
	"bytes"
	"encoding/binary"
	"encoding/json"
	"fmt"
	"hash/crc32"
	"io"
	"os"
	"reflect"
	"sort"
	"strings"

	"github.com/tonkeeper/tongo/abi"
	"github.com/tonkeeper/tongo/boc"
	"github.com/tonkeeper/tongo/code"
	"github.com/tonkeeper/tongo/liteclient"
	"github.com/tonkeeper/tongo/tl"
	"github.com/tonkeeper/tongo/tlb"

	"verifharness/mon"
	"verifharness/reg"
)

const (
	cpuBound     = 20.0
	tlbAllocBase = 1 << 20
	tlbAllocPerB = 2 << 10
	tlAllocBase  = 32 << 20
	tlAllocPerB  = 64
	// a case that has used this much process CPU without returning is ended by the worker's
	// watchdog and reported as no-return (three times the bound that is a violation anyway)
	caseCPULimit = 60.0
)

// ---------------------------------------------------------------- hostile cell trees

// hcell is a raw cell: any bits, any exotic flag, any level mask, any refs.
type hcell struct {
	bits   []bool
	exotic bool
	mask   byte
	refs   []*hcell
}

func fromTongo(c *boc.Cell, memo map[*boc.Cell]*hcell, depth int) *hcell {
	if h, ok := memo[c]; ok {
		return h
	}
	h := &hcell{exotic: c.IsExotic()}
	memo[c] = h
	bs := c.RawBitString()
	buf := bs.Buffer()
	n := bs.GetWriteCursor()
	h.bits = make([]bool, n)
	for i := 0; i < n && i/8 < len(buf); i++ {
		h.bits[i] = buf[i/8]&(1<<uint(7-i%8)) != 0
	}
	if depth < 64 {
		for _, r := range c.Refs() {
			h.refs = append(h.refs, fromTongo(r, memo, depth+1))
		}
	}
	return h
}

func padBits(b []bool) []byte {
	out := make([]byte, (len(b)+7)/8)
	for i, x := range b {
		if x {
			out[i/8] |= 1 << uint(7-i%8)
		}
	}
	if len(b)%8 != 0 {
		out[len(out)-1] |= 1 << uint(7-len(b)%8)
	}
	return out
}

// rawBoc serialises any hcell DAG (generic magic, no index, with CRC)
// without validating anything about exotic cells.
func rawBoc(root *hcell) []byte { return rawBocMulti([]*hcell{root}) }

// rawBocMulti: the same for any list of roots (0 roots, repeated roots, roots that are part of another root's DAG).
func rawBocMulti(roots []*hcell) []byte {
	var order []*hcell
	idx := map[*hcell]int{}
	var visit func(h *hcell)
	seen := map[*hcell]bool{}
	var post []*hcell
	visit = func(h *hcell) {
		if seen[h] {
			return
		}
		seen[h] = true
		for _, r := range h.refs {
			visit(r)
		}
		post = append(post, h)
	}
	for _, r := range roots {
		visit(r)
	}
	for i := len(post) - 1; i >= 0; i-- { // parents before children
		idx[post[i]] = len(order)
		order = append(order, post[i])
	}
	refSize := 1
	for n := len(order); n >= 256; n >>= 8 {
		refSize++
	}
	if len(roots) >= 256 && refSize < 2 {
		refSize = 2
	}
	var data []byte
	for _, h := range order {
		d1 := byte(len(h.refs)) | h.mask<<5
		if h.exotic {
			d1 |= 8
		}
		data = append(data, d1, byte(len(h.bits)/8+(len(h.bits)+7)/8))
		data = append(data, padBits(h.bits)...)
		for _, r := range h.refs {
			j := idx[r]
			for k := refSize - 1; k >= 0; k-- {
				data = append(data, byte(j>>(8*uint(k))))
			}
		}
	}
	offSize := 1
	for n := len(data); n >= 256; n >>= 8 {
		offSize++
	}
	out := []byte{0xb5, 0xee, 0x9c, 0x72, byte(refSize) | 0x40, byte(offSize)}
	put := func(v, n int) {
		for k := n - 1; k >= 0; k-- {
			out = append(out, byte(v>>(8*uint(k))))
		}
	}
	put(len(order), refSize)
	put(len(roots), refSize)
	put(0, refSize)
	put(len(data), offSize)
	for _, r := range roots {
		put(idx[r], refSize)
	}
	out = append(out, data...)
	return binary.LittleEndian.AppendUint32(out, crc32.Checksum(out, crc32.MakeTable(crc32.Castagnoli)))
}

func unfoldedBytes(h *hcell, memo map[*hcell]int, limit int) int {
	if v, ok := memo[h]; ok {
		return v
	}
	n := 2 + (len(h.bits)+7)/8
	for _, r := range h.refs {
		n += unfoldedBytes(r, memo, limit)
		if n > limit {
			n = limit
			break
		}
	}
	memo[h] = n
	return n
}

func clone(h *hcell, memo map[*hcell]*hcell) *hcell {
	if c, ok := memo[h]; ok {
		return c
	}
	c := &hcell{bits: append([]bool(nil), h.bits...), exotic: h.exotic, mask: h.mask}
	memo[h] = c
	for _, r := range h.refs {
		c.refs = append(c.refs, clone(r, memo))
	}
	return c
}

func allCells(h *hcell) []*hcell {
	var out []*hcell
	seen := map[*hcell]bool{}
	var f func(*hcell)
	f = func(x *hcell) {
		if seen[x] {
			return
		}
		seen[x] = true
		out = append(out, x)
		for _, r := range x.refs {
			f(r)
		}
	}
	f(h)
	return out
}

func bytesBits(b []byte) []bool {
	out := make([]bool, 0, 8*len(b))
	for _, x := range b {
		for i := 7; i >= 0; i-- {
			out = append(out, x>>uint(i)&1 == 1)
		}
	}
	return out
}

func exoticCell(rng *mon.Rng) *hcell {
	switch rng.Intn(7) {
	case 0: // well-formed pruned branch, level 1
		d := append([]byte{1, 1}, rng.Bytes(34)...)
		return &hcell{bits: bytesBits(d), exotic: true, mask: 1}
	case 1: // pruned branch with a higher mask
		m := byte(rng.Range(1, 7))
		k := 0
		for x := m; x != 0; x &= x - 1 {
			k++
		}
		d := append([]byte{1, m}, rng.Bytes(34*k)...)
		return &hcell{bits: bytesBits(d), exotic: true, mask: m}
	case 2: // pruned branch shorter than its mask implies
		m := byte(rng.Range(1, 7))
		d := append([]byte{1, m}, rng.Bytes(rng.Intn(40))...)
		return &hcell{bits: bytesBits(d), exotic: true, mask: m}
	case 3: // library
		return &hcell{bits: bytesBits(append([]byte{2}, rng.Bytes(32)...)), exotic: true}
	case 4: // merkle proof with a child
		ch := &hcell{bits: rng.Bits(rng.Intn(100))}
		return &hcell{bits: bytesBits(append([]byte{3}, rng.Bytes(34)...)), exotic: true, refs: []*hcell{ch}}
	case 5: // merkle update
		a, b := &hcell{bits: rng.Bits(rng.Intn(100))}, &hcell{bits: rng.Bits(rng.Intn(100))}
		return &hcell{bits: bytesBits(append([]byte{4}, rng.Bytes(68)...)), exotic: true, refs: []*hcell{a, b}}
	default: // wrongly typed / empty exotic
		t := byte(rng.Intn(256))
		return &hcell{bits: bytesBits(append([]byte{t}, rng.Bytes(rng.Intn(40))...)), exotic: true, mask: byte(rng.Intn(8))}
	}
}

func randomTree(rng *mon.Rng, depth int) *hcell {
	h := &hcell{bits: rng.Bits(mon.Pick(rng, []int{0, 1, 8, 32, 64, 267, 500, 1023, rng.Intn(1024)}))}
	if rng.Chance(1, 10) {
		return exoticCell(rng)
	}
	if depth < 4 {
		for k := 0; k < rng.Intn(5); k++ {
			h.refs = append(h.refs, randomTree(rng, depth+1))
		}
	}
	return h
}

// mutateTree applies 1..3 structural mutations to a copy.
func mutateTree(rng *mon.Rng, root *hcell) (*hcell, string) {
	root = clone(root, map[*hcell]*hcell{})
	desc := ""
	for m := 0; m < rng.Range(1, 3); m++ {
		cells := allCells(root)
		c := mon.Pick(rng, cells)
		switch rng.Intn(12) {
		case 0:
			if len(c.bits) > 0 {
				c.bits[rng.Intn(len(c.bits))] = rng.Bool()
				c.bits[rng.Intn(len(c.bits))] = !c.bits[rng.Intn(len(c.bits))]
				desc += "flip "
			}
		case 1:
			c.bits = c.bits[:rng.Intn(len(c.bits)+1)]
			desc += "truncate "
		case 2:
			c.bits = append(c.bits, rng.Bits(rng.Intn(1024-len(c.bits)))...)
			desc += "extend "
		case 3:
			if len(c.refs) > 0 {
				k := rng.Intn(len(c.refs))
				c.refs = append(c.refs[:k], c.refs[k+1:]...)
				desc += "dropref "
			}
		case 4:
			if len(c.refs) < 4 {
				c.refs = append(c.refs, randomTree(rng, 3))
				desc += "addref "
			}
		case 5:
			if len(c.refs) > 1 {
				i, j := rng.Intn(len(c.refs)), rng.Intn(len(c.refs))
				c.refs[i], c.refs[j] = c.refs[j], c.refs[i]
				desc += "swaprefs "
			}
		case 6, 7:
			if len(c.refs) > 0 {
				c.refs[rng.Intn(len(c.refs))] = exoticCell(rng)
				desc += "exotic-child "
			}
		case 8:
			c.bits = nil
			c.refs = nil
			desc += "empty "
		case 9:
			// set the first bits to all ones / zeros (length fields, tags)
			n := rng.Intn(len(c.bits) + 1)
			if n > 64 {
				n = 64
			}
			v := rng.Bool()
			for i := 0; i < n; i++ {
				c.bits[i] = v
			}
			desc += "prefix-fill "
		case 10:
			// share: make one ref point to an ancestor-free sibling subtree many times
			if len(c.refs) > 0 {
				r := c.refs[0]
				for len(c.refs) < 4 {
					c.refs = append(c.refs, r)
				}
				desc += "share "
			}
		case 11:
			c.exotic = !c.exotic
			c.mask = byte(rng.Intn(8))
			desc += "toggle-exotic "
		}
	}
	return root, desc
}

// ladder: shared-subtree DAG with bounded unfolding
func ladder(rng *mon.Rng, rungs, fan int, leaf *hcell) *hcell {
	c := leaf
	for i := 0; i < rungs; i++ {
		n := &hcell{bits: rng.Bits(rng.Intn(80))}
		for k := 0; k < fan; k++ {
			n.refs = append(n.refs, c)
		}
		c = n
	}
	return c
}

func deliver(h *hcell) (*boc.Cell, []byte, error) {
	b := rawBoc(h)
	cs, err := boc.DeserializeBoc(b)
	if err != nil || len(cs) != 1 {
		return nil, b, fmt.Errorf("deliver: %v", err)
	}
	return cs[0], b, nil
}

// ---------------------------------------------------------------- TL-B worker

type tlbJob struct {
	From, To int
	PerType  int
}

// libResolver is the library store handed to Decoder.WithLibraryResolver in the "resolver" mode. It keeps
// the contract of such a store (a cell for the hash, or an error) and can never build a cycle of its own:
// it answers with the library cell itself (the one cell of the tree that certainly has the requested hash),
// with a fresh ordinary cell that contains no library, or with "not found" - chosen by the hash, i.e. by
// the untrusted tree.
func libResolver(root *boc.Cell) func(h tlb.Bits256) (*boc.Cell, error) {
	var libs []*boc.Cell
	seen := map[*boc.Cell]bool{}
	var walk func(c *boc.Cell, d int)
	walk = func(c *boc.Cell, d int) {
		if seen[c] || d > 70 || len(seen) > 300 {
			return
		}
		seen[c] = true
		if c.IsLibrary() {
			libs = append(libs, c)
		}
		for _, r := range c.Refs() {
			walk(r, d+1)
		}
	}
	walk(root, 0)
	return func(h tlb.Bits256) (*boc.Cell, error) {
		switch int(h[0]) % 4 {
		case 0, 1:
			for _, l := range libs {
				if hh, err := l.Hash256(); err == nil && hh == [32]byte(h) {
					return l, nil
				}
			}
			return nil, fmt.Errorf("library not found")
		case 2:
			c := boc.NewCell()
			_ = c.WriteBytes(h[:int(h[1])%33])
			if h[2]&1 == 1 {
				ch := boc.NewCell()
				_ = ch.WriteBytes(h[:int(h[3])%33])
				_ = c.AddRef(ch)
			}
			return c, nil
		default:
			return nil, fmt.Errorf("library not found")
		}
	}
}

var tlbModes = []string{"plain", "decoder", "resolver", "debug"}

func observeTLB(w *mon.Worker, e reg.Entry, h *hcell, kind, desc string, caseID string) {
	c, raw, err := deliver(h)
	if err != nil {
		w.Count("undeliverable_trees", 1)
		return
	}
	n := unfoldedBytes(h, map[*hcell]int{}, 64<<20)
	hasLib := false
	for _, x := range allCells(h) {
		if x.exotic && len(x.bits) >= 8 && !x.bits[0] && !x.bits[1] && !x.bits[2] && !x.bits[3] && !x.bits[4] && !x.bits[5] && x.bits[6] && !x.bits[7] {
			hasLib = true
			break
		}
	}
	for mi, mode := range tlbModes {
		// the two rarely used decoder options: the resolver on every tree with a library cell, both on a sample
		if mi >= 2 && !(mode == "resolver" && hasLib) && mon.Hash64(caseID+e.Name)%4 != uint64(mi-2) {
			continue
		}
		resetAll(c, 0)
		out := reflect.New(e.Type)
		w.Begin("tlb/"+e.Name+"/"+caseID+"/"+mode, raw)
		w.Note("tlb.Unmarshal[" + mode + "]")
		m := mon.StartMeter()
		var derr error
		p := mon.Guard(func() {
			switch mode {
			case "plain":
				derr = tlb.Unmarshal(c, out.Interface())
			case "decoder":
				derr = tlb.NewDecoder().Unmarshal(c, out.Interface())
			case "resolver":
				derr = tlb.NewDecoder().WithLibraryResolver(libResolver(c)).Unmarshal(c, out.Interface())
			case "debug":
				derr = tlb.NewDecoder().WithDebug().Unmarshal(c, out.Interface())
			}
		})
		cpu, alloc, _ := m.Stop()
		w.End()
		wit := func() map[string]any {
			return map[string]any{"type": e.Name, "tree_kind": kind, "mutations": desc, "mode": mode, "unfolded_bytes": n, "boc_hex": mon.HexTrunc(raw, 5000)}
		}
		if p != nil {
			x := wit()
			x["panic"], x["stack"] = p.Value, mon.Trunc(p.Stack, 1500)
			sig := "panic@" + p.Site + "/" + mon.PanicClass(p.Value)
			if mi >= 2 {
				sig = "panic@" + p.Site + "/" + mode + "/" + mon.PanicClass(p.Value)
			}
			w.Violation(sig, x)
			w.Eval("tlb/panic/" + e.Name)
			return
		}
		// with a resolver the decoder legitimately walks the resolved cells too: the bound counts them
		bound := tlbAllocBase + tlbAllocPerB*n
		if mode == "resolver" {
			bound += tlbAllocPerB * n
		}
		if alloc > uint64(bound) {
			x := wit()
			x["alloc_bytes"], x["bound"] = alloc, bound
			w.Violation("alloc-out-of-proportion@tlb.Unmarshal/"+e.Name, x)
		}
		if cpu > cpuBound {
			x := wit()
			x["cpu_s"] = cpu
			w.Violation("cpu@tlb.Unmarshal/"+e.Name, x)
		}
		outcome := "ok"
		if derr != nil {
			outcome = "err"
		}
		w.Eval(fmt.Sprintf("tlb/%s/%s/%s/%s", e.Name, kind, caseID, outcome))
		w.Count("tlb_"+outcome, 1)
		if mi >= 2 {
			w.Count("tlb_mode_"+mode+"_"+outcome, 1)
		}
		if derr == nil && mode == "plain" {
			secondStage(w, e.Name, out, raw, n, kind, caseID)
		}
	}
}

func resetAll(c *boc.Cell, d int) {
	if d > 70 {
		return
	}
	c.ResetCounters()
	for _, r := range c.Refs() {
		resetAll(r, d+1)
	}
}

func tlbWorker(w *mon.Worker) {
	var j tlbJob
	json.Unmarshal(w.Job, &j)
	w.CaseCPULimit = caseCPULimit
	types := reg.Types()
	for ti := j.From; ti < j.To && ti < len(types); ti++ {
		e := types[ti]
		// valid encodings as mutation seeds
		var seeds []*hcell
		for k := 0; k < 12 && len(seeds) < 4; k++ {
			g := reg.NewGen(w.Rng("seed/"+e.Name, k))
			g.TopArm = k
			var v reflect.Value
			if p := mon.Guard(func() { v = g.New(e.Type) }); p != nil {
				continue
			}
			c := boc.NewCell()
			var err error
			if p := mon.Guard(func() { err = tlb.Marshal(c, v.Interface()) }); p != nil || err != nil {
				continue
			}
			seeds = append(seeds, fromTongo(c, map[*boc.Cell]*hcell{}, 0))
		}
		w.Count("types", 1)
		if len(seeds) > 0 {
			w.Count("types_with_valid_seed", 1)
		} else if rs := realSeeds(w, e.Name); len(rs) > 0 {
			// types the library cannot write: real encodings (parts of real blocks and proofs) or reference-written ones
			seeds = rs
			w.Count("types_with_real_seed", 1)
		}
		if e.Name == "tlb.DNSRecord" {
			// reference-built dns_adnl_address records, whole and cut after every bit from the flags on; a few
			// of them join the seeds
			for i, h := range dnsAdnlRecords(w.Rng("dns-adnl", 0)) {
				observeTLB(w, e, h.cell, "dns-adnl", h.desc, fmt.Sprintf("dns%d", i))
				if h.seed {
					seeds = append(seeds, h.cell)
				}
			}
		}
		// one fault at a time, enumerated over every position of the valid encodings: each reference dropped,
		// each reference replaced by a pruned branch / a library cell, each cell cut at a few bit positions,
		// each cell emptied
		for si, sd := range seeds {
			cells := allCells(sd)
			if len(cells) > 40 {
				cells = cells[:40]
			}
			nf := 0
			one := func(desc string, edit func(c *hcell)) {
				cp := clone(sd, map[*hcell]*hcell{})
				cc := allCells(cp)
				for ci := range cells {
					if ci >= len(cc) {
						break
					}
					before := len(cc[ci].bits)*8 + len(cc[ci].refs)
					edit(cc[ci])
					_ = before
					nf++
					observeTLB(w, e, cp, "single-fault", fmt.Sprintf("%s@cell%d", desc, ci), fmt.Sprintf("s%d/f%d", si, nf))
					cp = clone(sd, map[*hcell]*hcell{})
					cc = allCells(cp)
				}
			}
			frng := w.Rng("fault/"+e.Name, si)
			for ri := 0; ri < 4; ri++ {
				ri := ri
				one(fmt.Sprintf("drop-ref%d", ri), func(c *hcell) {
					if ri < len(c.refs) {
						c.refs = append(c.refs[:ri:ri], c.refs[ri+1:]...)
					}
				})
				one(fmt.Sprintf("pruned-ref%d", ri), func(c *hcell) {
					if ri < len(c.refs) {
						c.refs[ri] = &hcell{bits: bytesBits(append([]byte{1, 1}, frng.Bytes(34)...)), exotic: true, mask: 1}
					}
				})
				one(fmt.Sprintf("library-ref%d", ri), func(c *hcell) {
					if ri < len(c.refs) {
						c.refs[ri] = &hcell{bits: bytesBits(append([]byte{2}, frng.Bytes(32)...)), exotic: true}
					}
				})
			}
			one("drop-all-refs", func(c *hcell) { c.refs = nil })
			one("empty", func(c *hcell) { c.bits = nil })
			one("cut-half", func(c *hcell) { c.bits = c.bits[:len(c.bits)/2] })
			one("cut-last-bit", func(c *hcell) {
				if len(c.bits) > 0 {
					c.bits = c.bits[:len(c.bits)-1]
				}
			})
			one("keep-first-bit", func(c *hcell) {
				if len(c.bits) > 1 {
					c.bits = c.bits[:1]
				}
			})
		}
		for k := 0; k < j.PerType; k++ {
			rng := w.Rng("tree/"+e.Name, k)
			var h *hcell
			kind, desc := "", ""
			switch {
			case len(seeds) > 0 && k%10 < 6:
				h, desc = mutateTree(rng, mon.Pick(rng, seeds))
				kind = "mutated-valid"
			case k%10 < 8:
				h = randomTree(rng, 0)
				kind = "random"
			case k%10 == 8:
				leaf := randomTree(rng, 3)
				if len(seeds) > 0 && rng.Bool() {
					leaf = mon.Pick(rng, seeds)
				}
				h = ladder(rng, rng.Range(2, 14), rng.Range(2, 3), leaf) // <= 3^14 would be too much: cap below
				if unfoldedBytes(h, map[*hcell]int{}, 8<<20) >= 8<<20 {
					h = ladder(rng, 8, 2, leaf)
				}
				kind = "shared-ladder"
			default:
				// a valid seed whose every child is replaced by a pruned branch
				if len(seeds) > 0 {
					h = clone(mon.Pick(rng, seeds), map[*hcell]*hcell{})
					for i := range h.refs {
						h.refs[i] = exoticCell(rng)
					}
					kind = "pruned-children"
				} else {
					h = exoticCell(rng)
					kind = "exotic-root"
				}
			}
			observeTLB(w, e, h, kind, desc, fmt.Sprint(k))
			if ti == j.From && k < 2 {
				w.Sample(map[string]any{"type": e.Name, "tree_kind": kind, "mutations": desc, "cells": len(allCells(h))})
			}
		}
	}
}

// ---------------------------------------------------------------- TL worker

type tlJob struct {
	From, To int
	PerType  int
}

func tlNames() []string {
	var names []string
	for n := range registryTypes {
		names = append(names, n)
	}
	sort.Strings(names)
	return names
}

// fillTL fills a generated TL struct with plausible values.
func fillTL(rng *mon.Rng, v reflect.Value, depth int) {
	switch v.Kind() {
	case reflect.Uint32, reflect.Uint64, reflect.Uint8, reflect.Uint16:
		v.SetUint(rng.Uint64() >> uint(rng.Intn(64)))
	case reflect.Int32, reflect.Int64:
		v.SetInt(int64(rng.Uint64()) >> uint(rng.Intn(64)))
	case reflect.Bool:
		v.SetBool(rng.Bool())
	case reflect.String:
		v.SetString(string(rng.Bytes(rng.Intn(9))))
	case reflect.Slice:
		if v.Type().Elem().Kind() == reflect.Uint8 {
			v.SetBytes(rng.Bytes(mon.Pick(rng, []int{0, 1, 3, 4, 5, 253, 254, 255, 300})))
			return
		}
		n := rng.Intn(3)
		if depth > 3 {
			n = 0
		}
		s := reflect.MakeSlice(v.Type(), n, n)
		for i := 0; i < n; i++ {
			fillTL(rng, s.Index(i), depth+1)
		}
		v.Set(s)
	case reflect.Array:
		for i := 0; i < v.Len(); i++ {
			fillTL(rng, v.Index(i), depth+1)
		}
	case reflect.Pointer:
		if depth > 3 {
			return
		}
		p := reflect.New(v.Type().Elem())
		fillTL(rng, p.Elem(), depth+1)
		v.Set(p)
	case reflect.Struct:
		t := v.Type()
		if f, ok := t.FieldByName("SumType"); ok && f.Type.Kind() == reflect.String {
			var arms []int
			for i := 0; i < t.NumField(); i++ {
				if _, ok := t.Field(i).Tag.Lookup("tlSumType"); ok {
					arms = append(arms, i)
				}
			}
			if len(arms) > 0 {
				a := mon.Pick(rng, arms)
				v.FieldByIndex(f.Index).SetString(t.Field(a).Name)
				fillTL(rng, v.Field(a), depth+1)
				return
			}
		}
		for i := 0; i < t.NumField(); i++ {
			if t.Field(i).IsExported() && v.Field(i).CanSet() {
				fillTL(rng, v.Field(i), depth+1)
			}
		}
	}
}

var hostileWords = [][]byte{{0xff, 0xff, 0xff, 0x7f}, {0xff, 0xff, 0xff, 0xff}, {0xfe, 0xff, 0xff, 0xff}, {0x00, 0x00, 0x00, 0x80}, {0xff, 0x00, 0x00, 0x00}, {0xfe, 0x00, 0x00, 0x01}, {0x00, 0x00, 0x01, 0x00}}

func observeTL(w *mon.Worker, name string, t reflect.Type, in []byte, kind, caseID string) {
	// "plain-reader": the same bytes behind an io.Reader that has nothing but Read (no Len, no Seek), as a
	// network stream, a bufio / limited reader or any wrapper would hand them over
	for _, via := range []string{"tl.Unmarshal", "UnmarshalTL", "tl.Unmarshal/plain-reader"} {
		out := reflect.New(t)
		u, ok := out.Interface().(tl.UnmarshalerTL)
		if via == "UnmarshalTL" && !ok {
			continue
		}
		w.Begin("tl/"+name+"/"+caseID+"/"+via, in)
		w.Note(via)
		m := mon.StartMeter()
		var err error
		p := mon.Guard(func() {
			if via == "UnmarshalTL" {
				err = u.UnmarshalTL(bytes.NewReader(in))
			} else if via == "tl.Unmarshal/plain-reader" {
				err = tl.Unmarshal(struct{ io.Reader }{bytes.NewReader(in)}, out.Interface())
			} else {
				err = tl.Unmarshal(bytes.NewReader(in), out.Interface())
			}
		})
		cpu, alloc, _ := m.Stop()
		w.End()
		wit := func() map[string]any {
			return map[string]any{"type": name, "input_kind": kind, "via": via, "len": len(in), "input_hex": mon.HexTrunc(in, 4000)}
		}
		if p != nil {
			x := wit()
			x["panic"], x["stack"] = p.Value, mon.Trunc(p.Stack, 1500)
			w.Violation("panic@"+p.Site+"/"+mon.PanicClass(p.Value), x)
			return
		}
		if alloc > uint64(tlAllocBase+tlAllocPerB*len(in)) {
			x := wit()
			x["alloc_bytes"], x["bound"] = alloc, tlAllocBase+tlAllocPerB*len(in)
			w.Violation("alloc-out-of-proportion@tl.Unmarshal", x)
		}
		if cpu > cpuBound {
			x := wit()
			x["cpu_s"] = cpu
			w.Violation("cpu@tl.Unmarshal", x)
		}
		outcome := "ok"
		if err != nil {
			outcome = "err"
		}
		w.Eval(fmt.Sprintf("tl/%s/%s/%s/%s", name, kind, caseID, outcome))
		w.Count("tl_"+outcome, 1)
	}
}

func tlWorker(w *mon.Worker) {
	var j tlJob
	json.Unmarshal(w.Job, &j)
	w.CaseCPULimit = caseCPULimit
	names := tlNames()
	for ti := j.From; ti < j.To && ti < len(names); ti++ {
		name := names[ti]
		t := registryTypes[name]
		w.Count("tl_types", 1)
		for vi := 0; vi < 3; vi++ {
			rng := w.Rng("tl/"+name, vi)
			v := reflect.New(t)
			fillTL(rng, v.Elem(), 0)
			var valid []byte
			var err error
			if p := mon.Guard(func() { valid, err = tl.Marshal(v.Elem().Interface()) }); p != nil || err != nil {
				valid = rng.Bytes(rng.Intn(64))
			}
			// every truncation
			for k := 0; k <= len(valid); k++ {
				observeTL(w, name, t, valid[:k], "truncated", fmt.Sprintf("%d/t%d", vi, k))
			}
			// every 4-byte aligned word replaced by hostile length/count words
			for off := 0; off+4 <= len(valid) && off < 400; off += 4 {
				for hi, hw := range hostileWords {
					b := append([]byte(nil), valid...)
					copy(b[off:], hw)
					observeTL(w, name, t, b, "hostile-word", fmt.Sprintf("%d/w%d.%d", vi, off, hi))
				}
			}
			for k := 0; k < j.PerType; k++ {
				b := append([]byte(nil), valid...)
				for e := 0; e < rng.Range(1, 4) && len(b) > 0; e++ {
					b[rng.Intn(len(b))] = byte(rng.Intn(256))
				}
				if rng.Chance(1, 4) {
					b = append(b, rng.Bytes(rng.Intn(16))...)
				}
				observeTL(w, name, t, b, "edited", fmt.Sprintf("%d/e%d", vi, k))
			}
		}
		// pure hostile prefixes: vector count / bytes length bombs right after a plausible tag
		for k := 0; k < 16; k++ {
			rng := w.Rng("tlbomb/"+name, k)
			b := rng.Bytes(4)
			b = append(b, mon.Pick(rng, hostileWords)...)
			b = append(b, rng.Bytes(rng.Intn(24))...)
			observeTL(w, name, t, b, "bomb", fmt.Sprintf("b%d", k))
		}
	}
}

// ---------------------------------------------------------------- helpers on network data

type helperJob struct{ N, Index int }

func helperWorker(w *mon.Worker) {
	var j helperJob
	json.Unmarshal(w.Job, &j)
	w.CaseCPULimit = caseCPULimit
	guard := func(op string, in []byte, f func()) {
		w.Begin("helper/"+op, in)
		w.Note(op)
		m := mon.StartMeter()
		p := mon.Guard(f)
		cpu, alloc, _ := m.Stop()
		w.End()
		if p != nil {
			w.Violation("panic@"+p.Site+"/"+op+"/"+mon.PanicClass(p.Value), map[string]any{"op": op, "input_hex": mon.HexTrunc(in, 4000), "panic": p.Value, "stack": mon.Trunc(p.Stack, 1500)})
		}
		if alloc > uint64(tlAllocBase+tlbAllocPerB*len(in)) {
			w.Violation("alloc-out-of-proportion@"+op, map[string]any{"op": op, "input_hex": mon.HexTrunc(in, 4000), "alloc_bytes": alloc})
		}
		if cpu > cpuBound {
			w.Violation("cpu@"+op, map[string]any{"op": op, "input_hex": mon.HexTrunc(in, 4000), "cpu_s": cpu})
		}
		w.Eval(fmt.Sprintf("helper/%s/%x", op, mon.Hash64(string(in))))
	}
	names := tlNames()
	// valid encodings of arbitrary (reflect) types: seeds for the cells that sit in stack values
	seedCache := map[reflect.Type][]*hcell{}
	seedOf := func(rng *mon.Rng) func(t reflect.Type) *hcell {
		return func(t reflect.Type) *hcell {
			pool, ok := seedCache[t]
			if !ok {
				for i := 0; i < 6 && len(pool) < 3; i++ {
					g := reg.NewGen(w.Rng("stackseed/"+t.String(), i))
					g.TopArm = i
					var v reflect.Value
					if p := mon.Guard(func() { v = g.New(t) }); p != nil {
						continue
					}
					c := boc.NewCell()
					var err error
					if p := mon.Guard(func() { err = tlb.Marshal(c, v.Interface()) }); p != nil || err != nil {
						continue
					}
					pool = append(pool, fromTongo(c, map[*boc.Cell]*hcell{}, 0))
				}
				seedCache[t] = pool
			}
			if len(pool) == 0 {
				return nil
			}
			return mon.Pick(rng, pool)
		}
	}
	shapes := stackShapes()
	if j.Index == 0 {
		w.Count("get_method_stack_shapes", int64(len(shapes)))
	}
	var ifaces []abi.ContractInterface
	for i := abi.ContractInterface(0); i <= abi.WhalesPool+1; i++ {
		ifaces = append(ifaces, i)
	}
	for k := 0; k < j.N; k++ {
		rng := w.Rng(fmt.Sprintf("helper/%d", j.Index), k)
		// (1) LiteapiRequestDecoder: valid request bytes of a random request type, mutated
		var reqBytes []byte
		for tries := 0; tries < 10; tries++ {
			name := mon.Pick(rng, names)
			if len(name) < 7 || name[len(name)-7:] != "Request" {
				continue
			}
			v := reflect.New(registryTypes[name])
			fillTL(rng, v.Elem(), 0)
			b, err := tl.Marshal(v.Elem().Interface())
			if err == nil {
				reqBytes = b
				break
			}
		}
		variants := [][]byte{reqBytes, rng.Bytes(rng.Intn(40))}
		if len(reqBytes) > 0 {
			variants = append(variants, reqBytes[:rng.Intn(len(reqBytes)+1)])
			b := append([]byte(nil), reqBytes...)
			b[rng.Intn(len(b))] ^= byte(1 << uint(rng.Intn(8)))
			variants = append(variants, b)
			if len(b) >= 8 {
				c := append([]byte(nil), reqBytes...)
				copy(c[4:], mon.Pick(rng, hostileWords))
				variants = append(variants, c)
			}
		}
		for _, in := range variants {
			guard("LiteapiRequestDecoder", in, func() { liteclient.LiteapiRequestDecoder(in) })
		}
		// (2) ABI message decoders and contract-code parser on hostile cells
		h := randomTree(rng, 1)
		if rng.Bool() {
			// start with a known opcode so that the typed decoders run
			var codes []uint32
			for _, c := range reg.MsgOpCodes {
				codes = append(codes, c)
			}
			sort.Slice(codes, func(a, b int) bool { return codes[a] < codes[b] })
			op := mon.Pick(rng, codes)
			bits := make([]bool, 32)
			for i := 0; i < 32; i++ {
				bits[i] = op>>(31-uint(i))&1 == 1
			}
			h.bits = append(bits, rng.Bits(rng.Intn(900))...)
			if rng.Chance(1, 3) && len(h.refs) > 0 {
				h.refs[0] = exoticCell(rng)
			}
		}
		c, raw, err := deliver(h)
		if err == nil {
			guard("abi.InternalMessageDecoder", raw, func() { abi.InternalMessageDecoder(c, nil) })
			resetAll(c, 0)
			guard("abi.ExtInMessageDecoder", raw, func() { abi.ExtInMessageDecoder(c, nil) })
			resetAll(c, 0)
			guard("abi.ExtOutMessageDecoder", raw, func() { abi.ExtOutMessageDecoder(c, nil, tlb.MsgAddress{SumType: "AddrNone"}) })
			guard("code.ParseContractMethods", raw, func() { code.ParseContractMethods(raw) })
			// the same decoders with interface hints (the per-interface decoder lists run first) and on a body
			// that starts in the middle of a cell (the decoders then work on a copy of the remainder)
			hints := []abi.ContractInterface{mon.Pick(rng, ifaces), mon.Pick(rng, ifaces), mon.Pick(rng, ifaces)}
			if k%8 == 0 {
				hints = ifaces
			}
			for _, skip := range []int{0, rng.Intn(40)} {
				pre := func() {
					resetAll(c, 0)
					if skip > 0 {
						c.Skip(skip)
						if rng.Bool() {
							c.NextRef()
						}
					}
				}
				pre()
				guard("abi.InternalMessageDecoder[hints]", raw, func() { abi.InternalMessageDecoder(c, hints) })
				pre()
				guard("abi.ExtInMessageDecoder[hints]", raw, func() { abi.ExtInMessageDecoder(c, hints) })
				pre()
				guard("abi.ExtOutMessageDecoder[hints]", raw, func() { abi.ExtOutMessageDecoder(c, hints, tlb.MsgAddress{SumType: "AddrNone"}) })
			}
		}
		// (2b) VM stacks shaped after the result types of the library's get-method decoders, then mapped onto them
		if len(shapes) > 0 {
			for rep := 0; rep < 2; rep++ {
				si := (j.Index*j.N*2 + k*2 + rep) % len(shapes)
				g := &stackGen{rng: rng, seed: seedOf(rng)}
				root, sdesc := g.shaped(shapes[si])
				sc, sraw, err := deliver(root)
				if err != nil {
					w.Count("undeliverable_trees", 1)
					continue
				}
				var st tlb.VmStack
				var derr error
				guard("tlb.Unmarshal[VmStack]", sraw, func() { derr = tlb.Unmarshal(sc, &st) })
				if derr != nil {
					w.Count("shaped_stack_rejected", 1)
					continue
				}
				w.Count("shaped_stack_decoded", 1)
				s2 := &stage2{w: w, name: fmt.Sprintf("shaped-stack-%d", si), raw: sraw, n: unfoldedBytes(root, map[*hcell]int{}, 64<<20), kind: sdesc, caseID: fmt.Sprintf("h%d/%d/%d", j.Index, k, rep)}
				s2.stack(st, nil)
			}
		}
		// (3) byte-level: contract code and VmStack.UnmarshalTL on BOCs with 0 / 2 roots, garbage, valid-but-odd
		zeroRoots := []byte{0xb5, 0xee, 0x9c, 0x72, 0x01, 0x01, 0x01, 0x00, 0x00, 0x02, 0x00, 0x00}
		for _, in := range [][]byte{zeroRoots, rng.Bytes(rng.Intn(30)), {}, raw} {
			guard("code.ParseContractMethods", in, func() { code.ParseContractMethods(in) })
			enc, _ := tl.Marshal(in)
			guard("VmStack.UnmarshalTL", enc, func() {
				var s tlb.VmStack
				s.UnmarshalTL(bytes.NewReader(enc))
			})
		}
		// a VmStack with a huge depth field over a short chain
		st := &hcell{bits: append(bytesBits([]byte{0xff, 0xff, 0xff}), rng.Bits(rng.Intn(100))...)}
		cur := st
		for d := 0; d < rng.Intn(6); d++ {
			n := &hcell{bits: rng.Bits(rng.Intn(80))}
			cur.refs = append(cur.refs, n)
			cur = n
		}
		sraw := rawBoc(st)
		enc, _ := tl.Marshal(sraw)
		guard("VmStack.UnmarshalTL", enc, func() {
			var s tlb.VmStack
			s.UnmarshalTL(bytes.NewReader(enc))
		})
	}
}

func main() {
	if mon.IsWorker() {
		mon.WorkerMain(map[string]func(*mon.Worker){"tlb": tlbWorker, "tl": tlWorker, "helpers": helperWorker, "net": netWorker})
		return
	}
	tier := "quick"
	if len(os.Args) > 1 {
		tier = os.Args[1]
	}
	R := mon.Start("C08", tier)
	R.Rule = "(a) every registry TL-B type x hostile cell trees (valid encodings mutated: bit flips, truncation/extension, refs dropped/added/swapped, children replaced by pruned/library/Merkle/malformed exotic cells; random trees; shared-subtree ladders with bounded unfolding; for the types the library cannot write, parts of real blocks / proofs and reference-written dictionaries and tuples as seeds), decoded by tlb.Unmarshal and tlb.NewDecoder(), on a sample also by a decoder WithDebug and by a decoder WithLibraryResolver (on every tree with a library cell) whose store answers with the library cell itself, a fresh ordinary cell or not-found; values that decode go on to the second-stage decoders of the anchored files (VmStack.Unmarshal onto result types, VmStackValue/VmStkTuple.Unmarshal, RecursiveToSlice, VmCellSlice.Cell/UnmarshalToTlbStruct, BlockExtra.In/OutMsgDescr(+Length), Block.AllTransactions, ShardState.AccountBalances, ContentData.Bytes); (b) every generated TL type of liteclient x hostile bytes (every truncation of valid encodings, every aligned word replaced by hostile length/count words, random edits, count/length bombs), decoded by tl.Unmarshal and UnmarshalTL; (c) LiteapiRequestDecoder, the ABI message decoders (without and with interface hints, on fresh and on partly read cells), code.ParseContractMethods, VmStack.UnmarshalTL, VM stacks written from block.tlb in the shapes the get-method decoders of abi accept (then all of abi.KnownGetMethodsDecoder), and a real liteapi/liteclient client fed by a hostile lite server: plain jobs (malformed ADNL length prefixes, wrong tags, truncated / edited TL) and deep jobs (well-formed TL of the right constructor whose BOC / proof fields start from a bag the method accepts - a valid account, a two-root account-state proof that contains the account, a header proof of a real block, a real config proof, real shard hashes, valid transactions, VM stacks of the shape the wrapper expects - and carry one lie: exotic roots without references or with wrong payload sizes, extra / missing / swapped roots, pruned or foreign virtual roots, structural mutations, truncated bytes; 35 liteapi methods incl. the hand-decoded waitMasterchainSeqno answers through liteclient.Client and liteapi); every call runs in a child process (ulimit -v) under panic/fatal/CPU/allocation monitors and a per-case CPU watchdog (a call that never returns is reported as no-return); non-trivial = a decode that ran under the monitors; distinct = distinct (type, input kind, case, outcome)"
	R.Assume(fmt.Sprintf("allocation bounds: TL-B %d + %d x bytes of the unfolded tree (twice that with a library resolver and for the second stage); TL %d + %d x len(input) (a TL bytes field may legitimately pre-allocate up to 2^24 from its prefix); CPU %v s per call; a case that has used %v s of CPU without returning is stopped and reported", tlbAllocBase, tlbAllocPerB, tlAllocBase, tlAllocPerB, cpuBound, caseCPULimit))
	R.Assume("a library store handed to WithLibraryResolver returns a cell (possibly a library cell: the cell whose hash was asked for) or an error; stores that return (nil, nil) or build cycles are not modelled")
	R.Assume("destination types of the stack mapping are the library's own result types (through abi.KnownGetMethodsDecoder) and plain structs of ints, Int257, Bits256, bool, MsgAddress, Cell, Any, slices and pointers of those")
	R.Assume("encoding-side panics on inconsistent caller input are outside the statement")
	nTypes := len(reg.Types())
	var jobs []mon.Job
	per := R.N(40, 1000)
	chunk := 12
	if R.Thorough() {
		chunk = 4
	}
	for a := 0; a < nTypes; a += chunk {
		jobs = append(jobs, mon.Job{Name: "tlb", Input: tlbJob{a, a + chunk, per}})
	}
	nTL := len(registryTypes)
	for a := 0; a < nTL; a += 6 {
		jobs = append(jobs, mon.Job{Name: "tl", Input: tlJob{a, a + 6, R.N(30, 600)}})
	}
	hj := R.N(8, 64)
	for k := 0; k < hj; k++ {
		jobs = append(jobs, mon.Job{Name: "helpers", Input: helperJob{R.N(150, 2000), k}})
	}
	for k := 0; k < R.N(8, 48); k++ {
		jobs = append(jobs, mon.Job{Name: "net", Input: netJob{Index: k, N: R.N(140, 420)}})
	}
	for k := 0; k < R.N(8, 48); k++ {
		jobs = append(jobs, mon.Job{Name: "net", Input: netJob{Index: 1000 + k, N: R.N(500, 2500), Deep: true}})
	}
	R.Extra("tlb_types", nTypes)
	R.Extra("tl_types", nTL)
	R.Extra("jobs", len(jobs))
	R.RunJobs(jobs, mon.ChildOpts{Parallel: 16, UlimitKiB: 6 << 20, Env: []string{"GOMAXPROCS=2"}}, func(c mon.Crash) {
		if c.CPUExceeded > 0 {
			cls := c.Case
			if i := strings.IndexByte(cls, '/'); i > 0 {
				cls = cls[:i]
			}
			R.Violation("no-return@"+c.CPUStep+"/"+cls, map[string]any{"case": c.Case, "input_hex": mon.HexTrunc(c.Input, 6000), "len": len(c.Input), "cpu_s_when_stopped": c.CPUExceeded, "step": c.CPUStep})
			return
		}
		if c.TimedOut {
			R.Inconclusive("child watchdog (15 min) fired")
			return
		}
		cls := mon.FatalClass(c.Stderr)
		R.Violation("fatal@"+cls+"/"+caseClass(c.Case), map[string]any{"case": c.Case, "input_hex": mon.HexTrunc(c.Input, 6000), "len": len(c.Input), "exit": c.ExitInfo, "stderr": mon.Trunc(c.Stderr, 3000)})
	})
	os.Exit(R.Finish())
}

// caseClass keeps the stable part of a case id ("tl/TypeName", "tlb/TypeName", "helper/op", "net/method").
func caseClass(c string) string {
	n := 0
	for i := 0; i < len(c); i++ {
		if c[i] == '/' {
			n++
			if n == 2 {
				return c[:i]
			}
		}
	}
	return c
}
