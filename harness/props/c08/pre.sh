#!/bin/bash
# regenerate both registries from the tongo tree under check: TL-B types (reg) and the generated TL types of liteclient
set -e
go run ./cmd/genregistry "$1" reg/registry_gen.go
go run ./props/c10/gen "$1" props/c08/registry_gen.go
