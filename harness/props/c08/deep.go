package main

// Typed hostile BOCs for the proof / BOC fields of lite-server answers.
//
// The plain hostile server (net.go) fills BOC fields with random, real or mutated real bags; almost all of
// them are refused by the first decoder they meet. Here every BOC field of an answer starts from a bag
// that the liteapi method accepts (a valid account, a two-root account-state proof in which the account is
// found, a header proof of a real block, a real config proof, shard hashes of a real masterchain block,
// valid transactions, valid VM stacks) and then one field gets one structural lie: roots that are exotic
// cells without references or with a wrong payload size, extra / missing / reordered roots, a pruned or
// foreign virtual root, structural mutations inside the proof, truncated bytes.
// Valid bases are built with the reference cell model (true Merkle hashes and level masks).

import (
	"encoding/binary"
	"fmt"
	"os"
	"path/filepath"
	"reflect"

	"github.com/tonkeeper/tongo/boc"
	"github.com/tonkeeper/tongo/tl"
	"github.com/tonkeeper/tongo/tlb"

	"verifharness/bridge"
	"verifharness/mon"
	rboc "verifharness/ref/boc"
	"verifharness/ref/cell"
	"verifharness/ref/dict"
	"verifharness/reg"
)

type synth struct {
	rng    *mon.Rng
	acc    [32]byte
	pools  map[string][]*cell.Cell
	blocks []*cell.Cell // roots of small real blocks
	mc     *cell.Cell   // a real masterchain block
	cfg    []*cell.Cell // real config proofs (Merkle proof roots)
}

func newSynth(rng *mon.Rng, acc [32]byte) *synth {
	s := &synth{rng: rng, acc: acc, pools: map[string][]*cell.Cell{}}
	read := func(p string) *cell.Cell {
		b, err := os.ReadFile(filepath.Join(mon.RepoRoot(), p))
		if err != nil {
			return nil
		}
		rr, _, _, err := rboc.Read(b)
		if err != nil || len(rr) != 1 {
			return nil
		}
		return rr[0]
	}
	for _, p := range []string{"tlb/testdata/block-4/block.bin", "tlb/testdata/block-5/block.bin"} {
		if c := read(p); c != nil {
			s.blocks = append(s.blocks, c)
			if p == "tlb/testdata/block-5/block.bin" {
				s.mc = c
			}
		}
	}
	for _, p := range []string{"ton/testdata/config_proof_4324374.boc"} {
		if c := read(p); c != nil {
			s.cfg = append(s.cfg, c)
		}
	}
	return s
}

// valid returns a valid encoding of the registry type (reference cell), nil if the library cannot write one.
func (s *synth) valid(name string) *cell.Cell {
	pool, ok := s.pools[name]
	if !ok {
		if e, found := reg.Lookup(name); found {
			for k := 0; k < 12 && len(pool) < 4; k++ {
				g := reg.NewGen(s.rng.Fork("valid/"+name, k))
				g.TopArm = k
				var v reflect.Value
				if p := mon.Guard(func() { v = g.New(e.Type) }); p != nil {
					continue
				}
				c := boc.NewCell()
				var err error
				if p := mon.Guard(func() { err = tlb.Marshal(c, v.Interface()) }); p != nil || err != nil {
					continue
				}
				pool = append(pool, bridge.FromTongo(c))
			}
		}
		s.pools[name] = pool
	}
	if len(pool) == 0 {
		return nil
	}
	return mon.Pick(s.rng, pool)
}

func fromRef(c *cell.Cell, memo map[*cell.Cell]*hcell) *hcell {
	if h, ok := memo[c]; ok {
		return h
	}
	h := &hcell{bits: append([]bool(nil), c.Bits...), exotic: c.Exotic}
	memo[c] = h
	mon.Guard(func() { h.mask = c.Mask() & 7 })
	for _, r := range c.Refs {
		h.refs = append(h.refs, fromRef(r, memo))
	}
	return h
}

func hroots(cs ...*cell.Cell) []*hcell {
	memo := map[*cell.Cell]*hcell{}
	var out []*hcell
	for _, c := range cs {
		out = append(out, fromRef(c, memo))
	}
	return out
}

func proofOf(c *cell.Cell) *cell.Cell {
	var p *cell.Cell
	if g := mon.Guard(func() { p = cell.NewMerkleProof(c) }); g != nil || p == nil {
		return cell.New(cell.BytesBits(append([]byte{3}, make([]byte, 34)...)), true, c)
	}
	return p
}

func pruned(c *cell.Cell) *cell.Cell {
	var p *cell.Cell
	if g := mon.Guard(func() { p = cell.NewPruned(c, c.Level()+1) }); g != nil || p == nil {
		return cell.NewPrunedRaw(1, []cell.Hash{{}}, []int{0})
	}
	return p
}

// headerOf: a real block with everything but its info pruned away: what liteServer.blockHeader proves.
func (s *synth) headerOf(blk *cell.Cell) *cell.Cell {
	refs := append([]*cell.Cell(nil), blk.Refs...)
	for i := 1; i < len(refs); i++ {
		if refs[i].Level() < 3 {
			refs[i] = pruned(refs[i])
		}
	}
	return cell.New(blk.Bits, false, refs...)
}

// depth_balance$_ split_depth:(#<= 30) balance:CurrencyCollection = DepthBalanceInfo; all zero: 5 + 4 + 1 bits
var zeroDepthBalance = dict.Value{Bits: make([]bool, 10)}

// stateWithAccount: a valid ShardStateUnsplit whose ShardAccounts dictionary holds the account asked for
// (and a few others): (HashmapAugE 256 ShardAccount DepthBalanceInfo),
// account_descr$_ account:^Account last_trans_hash:bits256 last_trans_lt:uint64 = ShardAccount.
func (s *synth) stateWithAccount(present bool) *cell.Cell {
	st := s.valid("tlb.ShardStateUnsplit")
	if st == nil || len(st.Refs) < 3 {
		return nil
	}
	r := s.rng
	var entries []dict.Entry
	add := func(key []byte) {
		acc := s.valid("tlb.Account")
		if acc == nil {
			acc = cell.New([]bool{false}, false)
		}
		v := dict.Value{Bits: append(cell.BytesBits(r.Bytes(32)), uintBits(r.Uint64()>>uint(r.Intn(64)), 64)...), Refs: []*cell.Cell{acc}}
		entries = append(entries, dict.Entry{Key: cell.BytesBits(key), Val: v, Extra: zeroDepthBalance})
	}
	if present {
		add(s.acc[:])
	}
	for i := 0; i < r.Intn(4); i++ {
		k := r.Bytes(32)
		if r.Bool() { // a neighbour of the account: long common prefix
			copy(k, s.acc[:])
			k[31] ^= byte(1 + r.Intn(255))
		}
		add(k)
	}
	b := &dict.Builder{N: 256, Aug: true, Fork: func(l, rr dict.Value) dict.Value { return zeroDepthBalance }}
	v, err := b.HashmapAugE(entries, zeroDepthBalance)
	if err != nil {
		return nil
	}
	accounts := cell.New(v.Bits, false, v.Refs...)
	refs := append([]*cell.Cell(nil), st.Refs...)
	refs[1] = accounts
	return cell.New(st.Bits, false, refs...)
}

// shardHashes: the ShardHashes dictionary of a real masterchain block, as liteServer.allShardsInfo carries it:
// block -> extra:^BlockExtra -> custom:(Maybe ^McBlockExtra) -> shard_hashes:(HashmapE 32 ^(BinTree ShardDescr)).
func (s *synth) shardHashes() *cell.Cell {
	if s.mc == nil || len(s.mc.Refs) < 4 {
		return nil
	}
	extra := s.mc.Refs[3]
	if len(extra.Refs) == 0 {
		return nil
	}
	mcExtra := extra.Refs[len(extra.Refs)-1]
	// masterchain_block_extra#cca5 key_block:(## 1) shard_hashes:ShardHashes ...
	if len(mcExtra.Bits) < 18 || !mcExtra.Bits[17] || len(mcExtra.Refs) == 0 {
		return nil
	}
	return cell.New([]bool{true}, false, mcExtra.Refs[0])
}

// ---------------------------------------------------------------- hostile roots

func exoticRaw(typ byte, payload int, r *mon.Rng, refs ...*hcell) *hcell {
	return &hcell{bits: bytesBits(append([]byte{typ}, r.Bytes(payload)...)), exotic: true, refs: refs}
}

// hostileRoot: a root cell no honest server sends; child is a legitimate sub-tree it may point to.
func hostileRoot(r *mon.Rng, child *hcell) (*hcell, string) {
	if r.Chance(1, 3) {
		// the exotic types that promise references, without any: right and wrong payload sizes
		typ := mon.Pick(r, []byte{3, 3, 3, 4})
		n := map[byte]int{3: 34, 4: 68}[typ]
		if r.Chance(1, 3) {
			n = mon.Pick(r, []int{0, 1, 32, 33, 35, 67, 69})
		}
		return exoticRaw(typ, n, r), fmt.Sprintf("exotic-type%d-payload%d-without-refs", typ, n)
	}
	switch r.Intn(12) {
	case 0:
		return exoticRaw(3, 34, r), "proof-without-refs"
	case 1:
		n := mon.Pick(r, []int{0, 1, 2, 31, 32, 33, 35, 36, 66, 68, 100})
		if r.Bool() {
			return exoticRaw(3, n, r), fmt.Sprintf("proof-payload%d-without-refs", n)
		}
		return exoticRaw(3, n, r, child), fmt.Sprintf("proof-payload%d", n)
	case 2:
		k := r.Intn(3)
		refs := []*hcell{child, child}[:k]
		return exoticRaw(4, 68, r, refs...), fmt.Sprintf("update-with-%d-refs", k)
	case 3:
		n := mon.Pick(r, []int{0, 1, 33, 34, 66, 67, 69, 100})
		return exoticRaw(4, n, r, child, child), fmt.Sprintf("update-payload%d", n)
	case 4:
		h := &hcell{bits: bytesBits(append([]byte{3}, r.Bytes(34)...))}
		if r.Bool() {
			h.refs = []*hcell{child}
		}
		return h, "ordinary-cell-with-proof-payload"
	case 5:
		return exoticRaw(3, 34, r, child, child), "proof-with-two-refs"
	case 6:
		m := byte(r.Range(1, 7))
		k := 0
		for x := m; x != 0; x &= x - 1 {
			k++
		}
		h := exoticRaw(1, 0, r)
		h.bits = bytesBits(append([]byte{1, m}, r.Bytes(mon.Pick(r, []int{0, 1, 32, 34*k - 1, 34 * k, 34*k + 1}))...))
		h.mask = m
		return h, "pruned-root"
	case 7:
		return exoticRaw(2, mon.Pick(r, []int{0, 31, 32, 33}), r), "library-root"
	case 8:
		t := mon.Pick(r, []byte{0, 5, 6, 0x7f, 0xff})
		h := exoticRaw(t, r.Intn(40), r)
		if r.Bool() {
			h.refs = []*hcell{child}
		}
		h.mask = byte(r.Intn(8))
		return h, "exotic-unknown-type"
	case 9:
		return &hcell{}, "empty-root"
	case 10:
		return randomTree(r, 2), "random-root"
	default:
		// a proof whose level mask says "three levels of pruned branches below"
		h := exoticRaw(3, 34, r, child)
		h.mask = byte(r.Range(1, 7))
		return h, "proof-with-level-mask"
	}
}

// lie applies one lie to a valid list of roots. proof = the roots are Merkle proofs.
func lie(r *mon.Rng, roots []*hcell, proof bool) ([]*hcell, string) {
	memo := map[*hcell]*hcell{}
	cp := make([]*hcell, len(roots))
	for i, x := range roots {
		cp[i] = clone(x, memo)
	}
	roots = cp
	child := &hcell{bits: r.Bits(r.Intn(64))}
	if len(roots) > 0 && len(roots[0].refs) > 0 {
		child = roots[0].refs[0]
	}
	switch k := r.Intn(12); {
	case k <= 2 && len(roots) > 0: // one root replaced by a hostile one
		i := r.Intn(len(roots))
		if len(roots[i].refs) > 0 {
			child = roots[i].refs[0]
		}
		h, d := hostileRoot(r, child)
		roots[i] = h
		return roots, fmt.Sprintf("root%d=%s", i, d)
	case k == 3: // an extra hostile root in front / in the middle / at the end
		h, d := hostileRoot(r, child)
		i := r.Intn(len(roots) + 1)
		roots = append(roots[:i:i], append([]*hcell{h}, roots[i:]...)...)
		return roots, fmt.Sprintf("extra-root%d=%s", i, d)
	case k == 4: // more roots: the same roots again, or several hostile ones
		n := r.Range(1, 3)
		for i := 0; i < n; i++ {
			if r.Bool() && len(roots) > 0 {
				roots = append(roots, mon.Pick(r, roots))
			} else {
				h, _ := hostileRoot(r, child)
				roots = append(roots, h)
			}
		}
		return roots, fmt.Sprintf("%d-more-roots", n)
	case k == 5:
		if len(roots) > 1 && r.Bool() {
			i := r.Intn(len(roots))
			roots = append(roots[:i:i], roots[i+1:]...)
			return roots, "root-dropped"
		}
		return nil, "zero-roots"
	case k == 6 && len(roots) > 1:
		i, j := 0, len(roots)-1
		roots[i], roots[j] = roots[j], roots[i]
		return roots, "roots-swapped"
	case k <= 8 && proof && len(roots) > 0: // the virtual root is not what it should be
		i := r.Intn(len(roots))
		p := roots[i]
		if len(p.refs) == 0 {
			return roots, "none"
		}
		switch r.Intn(6) {
		case 0:
			p.refs[0] = &hcell{bits: bytesBits(append([]byte{1, 1}, r.Bytes(34)...)), exotic: true, mask: 1}
			return roots, "virtual-root-pruned"
		case 1:
			p.refs[0] = exoticRaw(2, 32, r)
			return roots, "virtual-root-library"
		case 2:
			p.refs[0] = &hcell{}
			return roots, "virtual-root-empty"
		case 3:
			p.refs[0] = &hcell{bits: p.refs[0].bits} // all references gone
			return roots, "virtual-root-without-refs"
		case 4:
			p.refs[0] = &hcell{bits: p.bits, exotic: true, mask: p.mask, refs: []*hcell{p.refs[0]}}
			return roots, "virtual-root-is-a-proof"
		default:
			vr := p.refs[0]
			for j := range vr.refs {
				vr.refs[j] = &hcell{bits: bytesBits(append([]byte{1, 1}, r.Bytes(34)...)), exotic: true, mask: 1}
			}
			return roots, "virtual-root-children-pruned"
		}
	default: // structural mutations somewhere inside
		if len(roots) == 0 {
			return roots, "none"
		}
		i := r.Intn(len(roots))
		m, d := mutateTree(r, roots[i])
		roots[i] = m
		return roots, "mutated:" + d
	}
}

// ---------------------------------------------------------------- typed fields

// typed returns the bytes for one BOC field. attack=false: a bag the method accepts.
func (s *synth) typed(kind string, attack bool) ([]byte, string) {
	r := s.rng
	var roots []*hcell
	proof := false
	switch kind {
	case "account":
		if c := s.valid("tlb.Account"); c != nil {
			roots = hroots(c)
		}
	case "accproof":
		st := s.stateWithAccount(!attack || r.Chance(5, 6))
		if st != nil && len(s.blocks) > 0 {
			roots = hroots(proofOf(s.headerOf(mon.Pick(r, s.blocks))), proofOf(st))
			proof = true
		}
	case "hdrproof":
		if len(s.blocks) > 0 {
			roots = hroots(proofOf(s.headerOf(mon.Pick(r, s.blocks))))
			proof = true
		}
	case "cfgproof":
		if len(s.cfg) > 0 && r.Chance(2, 3) {
			roots = hroots(mon.Pick(r, s.cfg))
		} else if c := s.valid("tlb.ShardStateUnsplit"); c != nil {
			roots = hroots(proofOf(c))
		}
		proof = true
	case "stateproof":
		if c := s.valid("tlb.ShardState"); c != nil {
			roots = hroots(proofOf(c))
			proof = true
		}
	case "allshards":
		if c := s.shardHashes(); c != nil {
			roots = hroots(c)
		}
	case "block":
		if len(s.blocks) > 0 {
			roots = hroots(mon.Pick(r, s.blocks))
		}
	case "tx":
		if c := s.valid("tlb.Transaction"); c != nil {
			roots = hroots(c)
		}
	case "anyproof":
		if len(s.blocks) > 0 {
			roots = hroots(proofOf(s.headerOf(mon.Pick(r, s.blocks))))
			proof = true
		}
	case "lib":
		roots = []*hcell{randomTree(r, 2)}
	}
	if roots == nil {
		return rawBoc(randomTree(r, 1)), kind + "/no-valid-base"
	}
	if !attack {
		return rawBocMulti(roots), kind + "/valid"
	}
	if r.Chance(1, 12) {
		b := rawBocMulti(roots)
		if r.Bool() {
			return b[:r.Intn(len(b))], kind + "/truncated-bytes"
		}
		for k := 0; k < r.Range(1, 3); k++ {
			b[r.Intn(len(b)-4)] ^= 1 << uint(r.Intn(8))
		}
		// keep the CRC honest so that the flipped bag reaches the cell parser
		b = b[:len(b)-4]
		return binary.LittleEndian.AppendUint32(b, crc32c(b)), kind + "/flipped-bytes"
	}
	roots, d := lie(r, roots, proof)
	return rawBocMulti(roots), kind + "/" + d
}

// txs: n valid transactions as n roots.
func (s *synth) txs(n int, attack bool) ([]byte, string) {
	var cs []*cell.Cell
	for i := 0; i < n; i++ {
		c := s.valid("tlb.Transaction")
		if c == nil {
			return rawBoc(randomTree(s.rng, 1)), "txs/no-valid-base"
		}
		cs = append(cs, c)
	}
	roots := hroots(cs...)
	if !attack {
		return rawBocMulti(roots), "txs/valid"
	}
	roots, d := lie(s.rng, roots, false)
	return rawBocMulti(roots), "txs/" + d
}

// stack: a VM stack for the get-method wrapper that is waiting for it.
func (s *synth) stack(method string, attack bool) ([]byte, string) {
	r := s.rng
	g := &stackGen{rng: r, seed: func(t reflect.Type) *hcell {
		for _, e := range reg.Types() {
			if e.Type == t {
				if c := s.valid(e.Name); c != nil {
					return hroots(c)[0]
				}
			}
		}
		return nil
	}}
	cellOf := func(name string) *hcell {
		if c := s.valid(name); c != nil {
			return hroots(c)[0]
		}
		return randomTree(r, 2)
	}
	var vals []sval
	switch method {
	case "GetJettonWallet":
		vals = []sval{svWhole(cellOf("tlb.MsgAddress"))}
	case "GetJettonData":
		vals = []sval{g.anyInt(), svTiny(int64(r.Intn(2)) - 1), svWhole(cellOf("tlb.MsgAddress")), svCell(cellOf("tlb.FullContent")), svCell(randomTree(r, 2))}
	case "GetJettonBalance":
		vals = []sval{g.anyInt(), svWhole(cellOf("tlb.MsgAddress")), svWhole(cellOf("tlb.MsgAddress")), svCell(randomTree(r, 2))}
	case "DnsResolve":
		vals = []sval{svTiny(int64(r.Intn(1024))), svCell(randomTree(r, 2))}
		if r.Chance(1, 3) {
			vals[1] = svNull()
		}
	case "GetSeqno":
		vals = []sval{svTiny(int64(r.Uint64() >> uint(r.Intn(64))))}
	default:
		for i := 0; i < r.Intn(7); i++ {
			vals = append(vals, g.anyValue(0))
		}
	}
	desc := "stack/valid"
	declared := len(vals)
	if attack {
		switch r.Intn(8) {
		case 0:
			vals, desc = nil, "stack/empty"
			declared = 0
		case 1:
			if len(vals) > 0 {
				vals, desc = vals[:len(vals)-1], "stack/one-short"
				declared = len(vals)
			}
		case 2:
			vals, desc = append(vals, g.anyValue(0)), "stack/one-more"
			declared = len(vals)
		case 3:
			if len(vals) > 0 {
				vals[r.Intn(len(vals))] = g.anyValue(0)
				desc = "stack/other-kind"
			}
		case 4:
			declared = mon.Pick(r, []int{0, 1, len(vals) + 1, 255, 0xffffff})
			desc = "stack/depth-lie"
		case 5:
			root, d := lie(r, []*hcell{stackCell(vals, declared)}, false)
			return rawBocMulti(root), "stack/" + d
		case 6:
			if len(vals) > 0 {
				i := r.Intn(len(vals))
				if len(vals[i].refs) > 0 {
					vals[i].refs[0] = exoticCell(r)
					desc = "stack/exotic-inside"
				}
			}
		default:
			if len(vals) > 1 {
				vals[0], vals[len(vals)-1] = vals[len(vals)-1], vals[0]
				desc = "stack/swapped"
			}
		}
	}
	return rawBoc(stackCell(vals, declared)), desc
}

var castagnoli = func() func([]byte) uint32 {
	var tab [256]uint32
	for i := range tab {
		c := uint32(i)
		for k := 0; k < 8; k++ {
			if c&1 == 1 {
				c = c>>1 ^ 0x82f63b78
			} else {
				c >>= 1
			}
		}
		tab[i] = c
	}
	return func(b []byte) uint32 {
		c := ^uint32(0)
		for _, x := range b {
			c = tab[byte(c)^x] ^ c>>8
		}
		return ^c
	}
}()

func crc32c(b []byte) uint32 { return castagnoli(b) }

// ---------------------------------------------------------------- answers

type fieldSpec struct{ name, kind string }

var deepFields = map[string][]fieldSpec{
	"LiteServerAccountStateC":    {{"State", "account"}, {"Proof", "accproof"}, {"ShardProof", "anyproof"}},
	"LiteServerBlockHeaderC":     {{"HeaderProof", "hdrproof"}},
	"LiteServerConfigInfoC":      {{"ConfigProof", "cfgproof"}, {"StateProof", "anyproof"}},
	"LiteServerAllShardsInfoC":   {{"Data", "allshards"}, {"Proof", "anyproof"}},
	"LiteServerValidatorStatsC":  {{"DataProof", "stateproof"}, {"StateProof", "anyproof"}},
	"LiteServerBlockDataC":       {{"Data", "block"}},
	"LiteServerTransactionInfoC": {{"Transaction", "tx"}, {"Proof", "anyproof"}},
	"LiteServerTransactionListC": {{"Transactions", "txs"}},
	"LiteServerRunMethodResultC": {{"Result", "stack"}},
	"LiteServerShardInfoC":       {{"ShardProof", "anyproof"}, {"ShardDescr", "lib"}},
	"LiteServerBlockStateC":      {{"Data", "lib"}},
}

// deepAnswer: a well-formed TL answer of the right constructor whose BOC fields are typed.
func (h *hostile) deepAnswer(c ctorInfo) ([]byte, string) {
	r := h.rng
	if r.Chance(1, 14) { // a proper liteServer.error: the not-found / history-truncated paths
		e := struct {
			Code    uint32
			Message string
		}{Code: mon.Pick(r, []uint32{0, 651, uint32(0xfffffe70) /* -400 */, 228, uint32(r.Uint64())}), Message: string(r.Bytes(r.Intn(20)))}
		body, _ := tl.Marshal(e)
		return append(binary.LittleEndian.AppendUint32(nil, 0xbba9e148), body...), "deep/error-answer"
	}
	t, ok := registryTypes[c.goType]
	if !ok {
		return binary.LittleEndian.AppendUint32(nil, c.id), "deep/unknown-type"
	}
	v := reflect.New(t)
	h.fill(v.Elem(), 0)
	kind := "deep/plain/" + c.goType
	specs := deepFields[c.goType]
	attackAt := -1
	if len(specs) > 0 && !r.Chance(1, 5) {
		attackAt = r.Intn(len(specs))
		if r.Chance(3, 4) {
			attackAt = 0 // the field the method decodes first gets most of the lies
			if len(specs) > 1 && specs[1].kind == "accproof" && r.Bool() {
				attackAt = 1
			}
		}
	}
	for i, sp := range specs {
		f := v.Elem().FieldByName(sp.name)
		if !f.IsValid() || f.Kind() != reflect.Slice {
			continue
		}
		var b []byte
		var d string
		switch sp.kind {
		case "txs":
			n := r.Range(1, 4)
			b, d = h.syn.txs(n, i == attackAt)
			ids := v.Elem().FieldByName("Ids")
			if ids.IsValid() && ids.Kind() == reflect.Slice {
				m := n
				if i == attackAt && r.Chance(1, 4) {
					m = mon.Pick(r, []int{0, n - 1, n + 1})
					d += "+ids-mismatch"
				}
				sl := reflect.MakeSlice(ids.Type(), m, m)
				for k := 0; k < m; k++ {
					fillTL(r, sl.Index(k), 1)
				}
				ids.Set(sl)
			}
		case "stack":
			b, d = h.syn.stack(h.method, i == attackAt)
			if m := v.Elem().FieldByName("Mode"); m.IsValid() {
				m.SetUint(4)
			}
			if e := v.Elem().FieldByName("ExitCode"); e.IsValid() {
				e.SetUint(uint64(mon.Pick(r, []uint32{0, 0, 0, 1, 0xffffff00, 11, uint32(r.Uint64())})))
			}
		default:
			b, d = h.syn.typed(sp.kind, i == attackAt)
		}
		f.SetBytes(b)
		if i == attackAt || attackAt < 0 && i == 0 {
			kind = "deep/" + d
		}
	}
	if c.goType == "LiteServerLibraryResultC" {
		if f := v.Elem().FieldByName("Result"); f.IsValid() && f.Kind() == reflect.Slice {
			n := r.Intn(4)
			sl := reflect.MakeSlice(f.Type(), n, n)
			for k := 0; k < n; k++ {
				fillTL(r, sl.Index(k), 1)
				b, d := h.syn.typed("lib", r.Chance(1, 2))
				sl.Index(k).FieldByName("Data").SetBytes(b)
				kind = "deep/" + d
			}
			f.Set(sl)
		}
	}
	var body []byte
	if p := mon.Guard(func() { body, _ = tl.Marshal(v.Elem().Interface()) }); p != nil {
		return binary.LittleEndian.AppendUint32(nil, c.id), "deep/unmarshalable"
	}
	return append(binary.LittleEndian.AppendUint32(nil, c.id), body...), kind
}

// waitAnswer: what a hostile server says to waitMasterchainSeqno-prefixed queries (decoded by hand in liteclient/client.go).
func (h *hostile) waitAnswer() ([]byte, string) {
	r := h.rng
	switch r.Intn(9) {
	case 0:
		return nil, "wait/empty"
	case 1:
		return r.Bytes(r.Range(1, 3)), "wait/shorter-than-a-tag"
	case 2:
		return binary.LittleEndian.AppendUint32(nil, 0xbba9e148), "wait/error-tag-only"
	case 3:
		return append(binary.LittleEndian.AppendUint32(nil, 0xbba9e148), r.Bytes(r.Intn(12))...), "wait/error-garbage"
	case 4:
		e := struct {
			Code    uint32
			Message string
		}{Code: mon.Pick(r, []uint32{0, 0, 651, uint32(r.Uint64())}), Message: string(r.Bytes(r.Intn(9)))}
		body, _ := tl.Marshal(e)
		return append(binary.LittleEndian.AppendUint32(nil, 0xbba9e148), body...), "wait/error-valid"
	case 5:
		return binary.LittleEndian.AppendUint32(nil, 0x752d8219), "wait/header-tag-only"
	case 6:
		return append(binary.LittleEndian.AppendUint32(nil, 0x752d8219), r.Bytes(r.Intn(100))...), "wait/header-garbage"
	case 7:
		a, k := h.deepAnswer(ctorInfo{0x752d8219, "LiteServerBlockHeaderC"})
		if r.Chance(1, 3) {
			a = a[:r.Intn(len(a)+1)]
			k += "+truncated"
		}
		return a, "wait/" + k
	default:
		return r.Bytes(r.Range(4, 40)), "wait/wrong-tag"
	}
}

// ---------------------------------------------------------------- real seeds for the TL-B worker

var realSeedMap map[string][]*hcell

// realSeeds: valid encodings of types that tlb.Marshal cannot produce, cut out of the repo's real blocks and
// proofs or written with the reference dictionary writer.
func realSeeds(w *mon.Worker, name string) []*hcell {
	if realSeedMap == nil {
		realSeedMap = map[string][]*hcell{}
		s := newSynth(w.Rng("realseeds", 0), [32]byte{})
		add := func(n string, c *cell.Cell) {
			if c != nil {
				realSeedMap[n] = append(realSeedMap[n], hroots(c)[0])
			}
		}
		for _, b := range s.blocks {
			add("tlb.Block", b)
			add("tlb.BlockHeader", b)
			if len(b.Refs) == 4 {
				add("tlb.BlockInfo", b.Refs[0])
				add("tlb.ValueFlow", b.Refs[1])
				add("tlb.MerkleUpdate[ShardState]", b.Refs[2])
			}
		}
		// block_info over the flag combinations real chains never show (block.tlb):
		//   block_info#9bc7a987 version:uint32 not_master:(## 1) after_merge:(## 1) before_split:(## 1) after_split:(## 1)
		//     want_split:Bool want_merge:Bool key_block:Bool vert_seqno_incr:(## 1) flags:(## 8) seq_no:# vert_seq_no:# ...
		//     master_ref:not_master?^BlkMasterInfo prev_ref:^(BlkPrevInfo after_merge) prev_vert_ref:vert_seqno_incr?^(BlkPrevInfo 0)
		//   prev_blk_info$_ prev:ExtBlkRef = BlkPrevInfo 0; prev_blks_info$_ prev1:^ExtBlkRef prev2:^ExtBlkRef = BlkPrevInfo 1;
		//   ext_blk_ref$_ end_lt:uint64 seq_no:uint32 root_hash:bits256 file_hash:bits256 = ExtBlkRef; master_info$_ master:ExtBlkRef
		// the real header's fields are kept, the flag bits rewritten and the references rebuilt to match them
		for _, info := range realSeedMap["tlb.BlockInfo"] {
			if len(info.bits) < 144 {
				continue
			}
			ext := func() *hcell { return &hcell{bits: s.rng.Bits(608)} }
			for combo := 0; combo < 16; combo++ {
				nm, am, vsi, other := combo&1 != 0, combo&2 != 0, combo&4 != 0, combo&8 != 0
				v := &hcell{bits: append([]bool(nil), info.bits...)}
				v.bits[64], v.bits[65], v.bits[71] = nm, am, vsi
				if other {
					v.bits[66], v.bits[67], v.bits[70] = !v.bits[66], !v.bits[67], !v.bits[70]
				}
				if vsi {
					v.bits[143] = true // vert_seqno_incr <= vert_seq_no
				}
				if nm {
					v.refs = append(v.refs, ext())
				}
				if am {
					v.refs = append(v.refs, &hcell{refs: []*hcell{ext(), ext()}})
				} else {
					v.refs = append(v.refs, ext())
				}
				if vsi {
					v.refs = append(v.refs, ext())
				}
				realSeedMap["tlb.BlockInfo"] = append(realSeedMap["tlb.BlockInfo"], v)
				if combo < 8 && len(s.blocks) > 0 && len(s.blocks[0].Refs) == 4 {
					// the same inside a block header
					b := hroots(s.blocks[0])[0]
					b.refs[0] = v
					realSeedMap["tlb.BlockHeader"] = append(realSeedMap["tlb.BlockHeader"], b)
				}
			}
		}
		if s.mc != nil && len(s.mc.Refs) == 4 && len(s.mc.Refs[3].Refs) > 0 {
			x := s.mc.Refs[3].Refs[len(s.mc.Refs[3].Refs)-1]
			add("tlb.McBlockExtra", x)
			if sh := s.shardHashes(); sh != nil {
				// one workchain: the dictionary root is a leaf whose value is ^(BinTree ShardDescr)
				if root := sh.Refs[0]; len(root.Refs) == 1 {
					add("tlb.ShardInfoBinTree", root.Refs[0])
					add("tlb.BinTree[ShardDesc]", root.Refs[0])
				}
			}
		}
		for _, p := range s.cfg {
			// merkle proof -> shard state -> custom:(Maybe ^McStateExtra) is the last reference
			if len(p.Refs) == 1 && len(p.Refs[0].Refs) == 4 {
				add("tlb.McStateExtra", p.Refs[0].Refs[3])
			}
		}
		r := s.rng
		for k := 0; k < 3; k++ {
			// HashmapAug 32 uint8 uint16
			var es []dict.Entry
			for i := 0; i <= r.Intn(5); i++ {
				es = append(es, dict.Entry{Key: cell.BytesBits(r.Bytes(4)), Val: dict.Value{Bits: r.Bits(8)}, Extra: dict.Value{Bits: r.Bits(16)}})
			}
			b := &dict.Builder{N: 32, Aug: true, Fork: func(l, rr dict.Value) dict.Value { return dict.Value{Bits: l.Bits} }}
			if root, _, err := b.Root(es); err == nil {
				add("tlb.HashmapAug[Uint32,Uint8,Uint16]", root)
			}
			// vm_stk_tuple without its tag: len:(## 16) data:(VmTuple len)
			g := &stackGen{rng: r}
			var vals []sval
			for i := 0; i < k+1; i++ {
				vals = append(vals, g.anyInt())
			}
			t := svTuple(vals, len(vals))
			realSeedMap["tlb.VmStkTuple"] = append(realSeedMap["tlb.VmStkTuple"], &hcell{bits: t.bits[8:], refs: t.refs})
			l := svList(vals)
			realSeedMap["tlb.VmStkTuple"] = append(realSeedMap["tlb.VmStkTuple"], &hcell{bits: l.bits[8:], refs: l.refs})
		}
	}
	return realSeedMap[name]
}
